#!/bin/bash
# run.sh <ID> [quick|thorough] [--replay file]
# Rebuilds the check binary from /repo's current working tree (hooks on: -tags verif) and runs one property.
set -u
cd /verif
export GOFLAGS=-mod=mod GOPROXY=off GOSUMDB=off GOTOOLCHAIN=local CGO_ENABLED=1
ID="$1"; shift
TIER="${VERIF_TIER:-quick}"
if [ "${1:-}" = "quick" ] || [ "${1:-}" = "thorough" ]; then TIER="$1"; shift; fi
export VERIF_TIER="$TIER"
mkdir -p bin evidence replay
# serialise builds (checks may be started concurrently)
(
  flock 9
  go build -tags verif -o bin/check ./cmd/check || exit 3
  if [ "$ID" = "C19" ]; then go build -race -tags verif -o bin/check-race ./cmd/check || exit 3; fi
) 9>bin/.buildlock
rc=$?
if [ $rc -ne 0 ]; then
  echo "BUILD FAILED for $ID: the harness or /repo does not compile with -tags verif"
  exit 3
fi
ERR=$(mktemp /tmp/verif-$ID-stderr.XXXXXX)
./bin/check "$ID" --tier "$TIER" "$@" 2> >(tee "$ERR" >&2)
rc=$?
# A fatal runtime error (concurrent map access, stack exhaustion, ...) or an uncaught panic
# while the monitor was driving cedar-go kills the whole process before it can report:
# that is itself an observation the property forbids, so turn it into a violation.
if [ $rc -ne 0 ] && [ $rc -ne 1 ] && grep -qE '^(fatal error:|panic:)' "$ERR"; then
  mkdir -p "replay/$ID"
  cp "$ERR" "replay/$ID/process-crash.log"
  echo "VIOLATION property=$ID replay=/verif/replay/$ID/process-crash.log"
  echo "  signature=check process crashed: $(grep -m1 -E '^(fatal error:|panic:)' "$ERR")"
  rm -f "$ERR"
  exit 1
fi
rm -f "$ERR"
exit $rc
