#!/bin/bash
# run.sh <ID> [quick|thorough] [--replay file]
# Rebuilds the check binary from /repo's current working tree (hooks on: -tags verif) and runs one property.
set -u
cd /verif
export GOFLAGS=-mod=mod GOPROXY=off GOSUMDB=off GOTOOLCHAIN=local CGO_ENABLED=1
ID="$1"; shift
TIER="${VERIF_TIER:-quick}"
if [ "${1:-}" = "quick" ] || [ "${1:-}" = "thorough" ]; then TIER="$1"; shift; fi
export VERIF_TIER="$TIER"
mkdir -p bin evidence replay
# serialise builds (checks may be started concurrently)
(
  flock 9
  go build -tags verif -o bin/check ./cmd/check || exit 3
  if [ "$ID" = "C19" ]; then go build -race -tags verif -o bin/check-race ./cmd/check || exit 3; fi
) 9>bin/.buildlock || { echo "BUILD FAILED for $ID (harness or /repo does not compile with -tags verif)"; exit 3; }
exec ./bin/check "$ID" --tier "$TIER" "$@"
