#!/usr/bin/env python3
"""Regenerates /verif/MANIFEST.json. A property is claimed iff its monitor file
internal/props/cNN.go exists; the others are listed under not_applicable with the reason."""
import json, os, subprocess

def hook_commits():
    out = subprocess.run(["git", "-C", "/repo", "log", "--format=%h %s"], capture_output=True, text=True).stdout
    return [l.split()[0] for l in out.splitlines() if l.split(" ", 1)[1].startswith("verif hooks")]

E = "exploration"
F = "fault_enumeration"
TB = " Trusted: the harness's own reference model / generators (/verif/internal/model, gen, render), conversions through public accessors. Held on the executions observed, not a proof."

CHECKS = {
 "C01": dict(cat=E, ref="5/C01", tech="differential runtime monitor: cedar-go evaluator vs independent big-integer reference evaluator over exhaustive operator x boundary tables and random type-directed trees; minimal-subterm localisation",
   text="Every execution of x/exp/eval.Eval on the generated (expression, store, request) cases is compared with an independent reference evaluator (value-vs-error agreement and value equality). Operator x boundary-operand tables are enumerated completely (and once more, each case directly after a failing evaluation at the same operator), random trees to depth 5/7 on top. Sizes stream: every collection / string / chain operator on operands of 0..4097 members around the powers of two, also through a compiled policy.",
   note="Error kinds are statistics only (the property fixes when evaluation fails, not which message)." + TB),
 "C02": dict(cat=E, ref="5/C02", tech="decision-table oracle over exhaustively enumerated class sequences + random policy sets, through every PolicyIterator form; id/position/message checks on diagnostics",
   text="All sequences of (permit|forbid) x (satisfied|unsatisfied|erroring) policies up to length 4/5, in 3 by-construction realisations each, are authorised through *PolicySet, IsAuthorized, NewPolicySetFromBytes, PolicyMap and two custom iterators and compared with the Cedar decision table (decision, exact reason set, exact error set, each with own id and source position, message equal to the solo run); random policy sets with reference-model outcomes on top; sets with a history (replace under an id, remove + add, use in between) answer like fresh sets with the same contents.",
   note="Per-policy outcomes of the enumerated part are fixed by construction against a fixed store/request." + TB),
 "C03": dict(cat=E, ref="5/C03", tech="exhaustive small-graph enumeration against a bitmask reachability model, logical step budget on EntityGetter.Get as non-termination witness; operator, set, is-in, scope and batch (partial-evaluation) paths",
   text="All parent digraphs on <=4 nodes x all presence subsets x all ordered pairs for `a in b`; set targets, `is T in`, every scope form through Authorize and through batch.Authorize (partial evaluation) on all digraphs with <=3 (quick) / 4 (thorough) nodes; random 5-8 node graphs. Nodes carry equal ids under different entity types. On the <=3-node graphs the operator forms are also decided inside when-clauses through cedar.Authorize (compiled, constant-folded path) and every set query is repeated directly after a membership test that failed with a type error; one compiled policy object is asked against all 3-node stores in turn. Wide-tiers stream: T tiers of W entities each a child of every entity of the next tier (W^T paths), decided on the same Get budget.",
   note="Non-termination is decided by a logical budget of 64(n+1)^2 Get calls, no clock." + TB),
 "C04": dict(cat=E, ref="5/C04", tech="differential monitor: compiled (folded) policy via Authorize vs direct evaluation of the original tree vs hook-exposed folded AST, in 8 environments per policy incl. the empty store; AST/text/JSON fingerprints before/after; type-confused twin compiled after its original",
   text="For generated policies biased to what the folder touches (closed, closed-erroring, short-circuit with skipped or evaluated ill-typed operands, absorbing constants on the right, store-dependent constants, reflexive membership, projections out of composite literals with a failing sibling) the outcome class of the compiled policy equals direct evaluation in every environment; the caller's AST and its renderings are unchanged. Constant-chains stream: (x op c1) op c2 with x from the request at the edges of the 64-bit range.",
   note="Direct evaluation of the original tree is the property's own reference; the reference model only arbitrates in reports." + TB),
 "C05": dict(cat=F, ref="5/C05", tech="brute-force oracle: the harness enumerates the Cartesian product and substitutes itself, compares the multiset of callbacks with cedar.Authorize per concrete request; fault injection at every callback index and at every context poll",
   text="For generated (template, policy set, store) triples - variables in every request part, nested in records/sets, repeated, several variables, empty/singleton lists - exactly one callback per product element with the substituted request, the substitution, the ordinary authorizer's decision and reason set; callback failure at every k and cancellation at every poll stop enumeration and return that error. A directed template adds variables two container levels down and non-entity values in entity positions under when/unless. Shared-slices stream: tiered policies whose in-lists are prefixes / suffixes of one caller-owned slice.",
   note="Fault surface is the API boundary (callback, context.Context)." + TB),
 "C06": dict(cat=E, ref="5/C06", tech="completion-enumeration oracle over PartialPolicy residuals (sat(residual,c)==sat(policy,c), drop => never satisfied, ignore only widens permits) + directed enumeration of strict nodes mixing unknown and ignored operands",
   text="For generated policies x partial environments (unknown request parts, unknowns nested in context records/sets, ignored parts) every completion from a policy-derived universe (<=64 each) is checked: kept residual equivalent, dropped policy unsatisfiable, ignored parts only widen permits. A directed stream enumerates 11+ strict node shapes x operand orders x effect x when/unless x unknown/ignored modes, incl. if-branches over known vs partly unknown records and unknowns inside members of sets. Directed shapes include a set that holds an unknown compared as a whole with a smaller known set (deduplication).",
   note="Residuals are run by cedar-go's ordinary evaluator (they contain its partial-error nodes); the original's outcome comes from the reference model and is cross-checked." + TB),
 "C07": dict(cat=E, ref="5/C07", tech="parse(render(T)) == T with an independent grammar-driven printer (full / minimal parentheses / layout noise), exhaustive parent x child x position operator triples, reject list",
   text="ASTs built from harness terms are printed by an independent printer in three renderings and must parse to exactly that AST; every operator pairing in every operand position is enumerated; texts outside the grammar must be rejected (incl. each reserved word in each of 20 identifier positions); 1200-fold flat repetitions of 18 templates (documents, policy sets, decoder streams, set/record/&&/when-clause lists) must parse, repetition by repetition and in document order, to the template's own tree; leading-zero integers are decimal, other number spellings and duplicate annotations (also with reserved-word keys) are rejected. Comment-bodies stream: 28 comment forms in every token gap of small documents parse to the same policies.",
   note="Only texts whose grammar-prescribed tree is beyond dispute are emitted (DESIGN section 10)." + TB),
 "C08": dict(cat=E, ref="5/C08", tech="round-trip monitor MarshalCedar -> UnmarshalCedar -> MarshalCedar with semantic comparison under >=6 environments and byte-identity of the second rendering; list/set/encoder order",
   text="Policies from three sources (programmatic ASTs with arbitrary values, parsed texts, decoded JSON) must re-parse, keep effect/annotations/scope, evaluate identically and re-render byte-identically; lists, sets and Encoder/Decoder keep documented order. Directed: every value under every parent, all two-level nestings of 43 node constructors, regrouping-sensitive operator pairs, every string class in every string position, and 0.3-10 KiB renderings of 1-4-byte characters at every alignment to the tokenizer's read buffer; documents are also decoded into Policy values that already hold another policy; a list written through one Encoder across injected write failures (with retries) decodes to the list. Bulk stream: 1100..2600 policies through PolicyList / PolicySet / Encoder renderings and one policy with that many clauses.",
   note="Meaning is compared by evaluation (value or failure) in environments derived from the policy." + TB),
 "C09": dict(cat=E, ref="5/C09", tech="AST-equality round trip through the JSON codec, independent spec-conformant JSON encoder as second source, text<->JSON commuting squares, authorization agreement",
   text="decode(encode(p)) has the identical AST; policy-set ids are preserved (decoding into a zero, a fresh and an already used PolicySet yields exactly the document); text->JSON->text and JSON->text->JSON commute; an independent JSON encoder's documents decode to the builder AST; all encodings authorize identically. 1200-fold flat documents (set / record / clause / policy-set lists, && and + chains) decode to 1200 copies of the template; a set's JSON after replace / remove / add holds its current contents.",
   note="Extension-typed literal values are compared modulo the documented value<->constructor-call spelling." + TB),
 "C10": dict(cat=F, ref="5/C10", tech="hostile-input monitor in journalled child processes: observed outcome of every decoder in {value, error, panic, fatal crash, timeout}; structural JSON mutation, byte mutation, deep nesting; accepted values pushed through every encoder and the authorizer",
   text="Every decoder is fed corpus documents, generated valid documents and their mutations (byte-level, token-level, JSON structural: every sub-tree replaced by null/[]/{}/\"\"/0, keys deleted), arbitrary bytes and deep nesting; only value or error are allowed; every accepted value goes through every encoder and Authorize.",
   note="Timeouts count only when the single input reproduces them alone (otherwise inconclusive)." + TB),
 "C11": dict(cat=E, ref="5/C11", tech="algebraic-law monitor over an exhaustive collision universe (all sequences up to length 4/5) + structural invariant hooks on Set/Record + mutation-aliasing probes",
   text="Equality laws over all pairs/triples of the universe, NewSet for every permutation/duplication, set/record equality and subset operators against the model, codec stability of equal values, hook invariants (probe reachability, no duplicates, summed hash), and immutability under mutation of constructor inputs / accessor outputs; JSON forms are also decoded by the typed decoders into receivers that already hold a value, and with every set element listed twice in another spelling; every uid goes through its typed text and binary decoders.",
   note="Hooks types.VerifSetInvariant/VerifRecordInvariant (build tag verif) expose the open-addressing invariants." + TB),
 "C12": dict(cat=E, ref="5/C12", tech="differential monitor of scalar printers/parsers/constructors against independent big-integer parsers and printers; exhaustive edit-distance-1/2 mutants of valid literals; all Unicode scalar values (thorough)",
   text="Parse(String(v))==v and Cedar renderings evaluate to v for boundary and random payloads of every scalar type; accept/reject and value of literal strings agree with the reference parsers for all strings within edit distance 1 (2) of valid literals; constructors (package types and the root package re-exports) are exact or fail; the check process runs with a non-UTC local zone; uid text / binary forms over the string universe; 0.4-6 KiB renderings at every buffer alignment.",
   note="Syntax acceptance asserted only for unambiguous RFC 80 forms; float constructors only for NaN/Inf/range and exactly representable inputs." + TB),
 "C13": dict(cat=E, ref="5/C13", tech="JSON round-trip monitor for values, entities, entity maps, requests, diagnostics; alternative spellings written by the harness; schema-guided coercion path",
   text="decode(encode(x)) equals x, encode is stable across a second trip, and every accepted spelling of one datum decodes to an equal value; decoding into used destinations, 1500-member flat values / entities / maps and uid pairs with coinciding type::id concatenations included.",
   note="Records that are exactly an escape object are excluded (inherently ambiguous in Cedar JSON)." + TB),
 "C14": dict(cat=E, ref="5/C14", tech="repetition monitor: R-fold re-execution (each Go map range is a fresh schedule), fresh re-parses and shuffled insertion orders; the number of distinct outputs must be 1",
   text="Decision, reason set, error set with messages and all marshalled bytes are compared across R=24/64 repetitions, re-decodings and insertion orders for inputs biased to where map order can leak; policy sets with equal contents built along different histories encode alike; a fixed corpus encodes to the same digests in freshly started child processes (one with a non-UTC local zone); one Encoder across injected write failures hands the writer what a fresh encoder writes; the encoders of one object in random interleavings never change each other's output; a variable and an ignored value in one batch context record give one result set over 64 identical calls.",
   note="A single case misses a 2-way map-order leak with probability (7/8)^(R-1) (about 4.6% at R=24, 2e-4 at R=64: Go starts iterating a small map at a random slot of an 8-slot bucket); every leak class is exercised by hundreds of cases per run." + TB),
 "C15": dict(cat=E, ref="5/C15", tech="soundness monitor: validator verdict vs observed evaluation error class (sentinel hook) on by-construction schema-conforming requests and stores, with single-step type-breaking mutations",
   text="For generated schemas and policies the validator accepts (strict and permissive), evaluation on schema-conforming data never fails with type / unknown-function / arity / missing attribute-or-tag errors. A completely enumerated shapes stream (union types over a type hierarchy, capability leaks through boolean combinations, guards in other clauses, look-alike tag keys, scope `in` over a four-level type chain, a typing table of 53 operators over operands of 15 kinds of type) targets the places where the validator decides not to demand something. Eqguard family: equality of attributes whose types merely look disjoint (sets over different element types, all-optional records) guarding an ill-typed tail, with empty sets frequent in conforming data.",
   note="Conforming data are additionally accepted by validator.Entities/Request; disagreement there is inconclusive." + TB),
 "C16": dict(cat=F, ref="5/C16", tech="termination/no-crash monitor in journalled child processes over exhaustive small schema graphs (entity hierarchies, common types, action groups) x policies/entities/requests",
   text="Resolve and every validator entry point return normally (result or error) for all small schema graphs incl. cycles, self references, undefined references (incl. unqualified names that dangle across namespaces), references mentioned twice and shadowing, and for JSON-decoded policies with set/record/extension literals. Ladder schemas: 6..48 levels of two action groups / entity types, each a member of both of the level above.",
   note="Fatal stack overflows are attributed through an on-disk journal; watchdog hits count only when reproduced alone." + TB),
 "C17": dict(cat=E, ref="5/C17", tech="round-trip monitor over generated schema ASTs: Resolve(parse(render(s))) ~ Resolve(s) for text, JSON and cross conversions; byte-identical second rendering",
   text="Generated schemas (namespaces, common types, optional attributes, enums, action groups, annotations, names needing quotes) survive both codecs and both conversions with the same resolved schema and stable bytes, also when parsed into a Schema value that already resolved another schema; flat schemas with 1100-2600 type expressions take the same paths; names that merely contain a reserved word, and a common type next to an entity type of the same name (where the text format can tell them apart), are included.",
   note="Same-named common type and entity type visible from one site are excluded from the text path (indistinguishable there)." + TB),
 "C18": dict(cat=F, ref="5/C18", tech="schedule/fault monitor over io.Reader chunkings (1 byte .. 1025, random, zero-length reads, data+EOF, failing reader at every byte) vs whole-slice parsing; positions vs the generator's own counter",
   text="Token streams and policy streams are identical under every reader schedule; a failing reader yields an error and no truncated policy; offset/line/column of every policy equal the generator's record and appear in diagnostics; documents of 0.5-5 MiB stream to the same policies as the whole-slice parse.",
   note="Documents are assembled so that tokens straddle the 1024-byte buffer boundary." + TB),
 "C19": dict(cat=E, ref="5/C19", tech="Go race detector over barrier-released goroutine rounds on fresh shared objects + per-call solo-result comparison + reflection fingerprints of inputs before/after every read-only operation",
   text="Zero race reports over 150/3000 rounds of 16-64 goroutines mixing Authorize, batch.Authorize, marshalling, accessors and validation on shared inputs; every concurrent call returns its solo result; inputs (policies incl. unexported evaluator trees, ASTs, entities, requests, values, schema; the Validator receivers are not inputs) are unchanged. Each world holds random policies plus text-loaded policies written against a schema with a three-level action hierarchy and policies whose extension constructors and patterns work on request data that differs per request.",
   note="Race reports are process-external evidence (log files of a -race child)." + TB),
 "C20": dict(cat=E, ref="5/C20", tech="model-based history checking: an executable id->policy map stepped alongside PolicySet operations with authorization probes and marshal/unmarshal round trips spliced in; exhaustive short histories + random long ones",
   text="Every operation returns what the map model predicts after any history; authorization depends only on current contents; loader ids policy0.. with file name in every position; MarshalCedar in lexicographic id order; Map() copies independent; an iterator obtained earlier yields the current contents or those at the time of the call; documents of 31-700 tagged policies load as policy0.. in document order with their own lines. Iter-mutation stream: walks over All() whose body removes, replaces and adds other ids (Go-map contract).",
   note="Policies carry by-construction outcomes so expected decisions follow from the model's contents." + TB),
}

# streams added after the fourth round of seeded changes (DESIGN section 11, last item)
ROUND4 = {
 "C02": " Large collections (60-4100 policies, deciders at the start / end / random positions, five iteration paths) and one compiled set against 200 stores in a row follow the same table.",
 "C03": " Several membership tests with different start entities inside one request (scope and condition, crosswise) on all 3-node digraphs and random graphs.",
 "C04": " Clause-forms (every relation as the whole body of when / unless with operands equal / below / above at run time) and reparse-after-evaluate (one Policy object across Authorize and a second decode).",
 "C05": " The request template (parts, variable lists) is fingerprinted before and after the call.",
 "C07": " Generated reject families: duplicate key / annotation at every pair of positions among up to 20 / 12 entries, unparenthesised if as an operand, relations continued after an else branch.",
 "C09": " A Policy handed a document that is rejected late stays one policy (its own encodings decoded afresh authorize as it does); two policies from one AST do not share what a later decode writes.",
 "C13": " Decisions and response structs decoded into receivers that already hold another result (reused struct, one Decoder over a stream, typed decoders, pre-filled slice).",
 "C14": " Wide-objects: 14 ways of failing on records, entities, tag sets and sets of 6-64 entries.",
 "C15": " Near-miss stream: by-construction data made non-conforming in exactly one place (10 kinds, top level / nested / context): a violation iff the validator's own Entity / Entities / Request call it conforming and an accepted policy then fails on it with a forbidden class.",
 "C17": " Lifecycle: one Schema value rendered and resolved repeatedly in random order, returned bytes kept, then given a second schema.",
 "C19": " The shared batch template carries a single-valued variable inside the context.",
 "C20": " Churn: one PolicySet through 150-900 adds / removes over 40-120 ids in waves, verified after every step.",
}
for _k, _v in ROUND4.items():
    CHECKS[_k]["text"] += _v

NOT_YET = "monitor not built yet in this revision of /verif (work in progress); intended to be decided by the runtime monitor described in DESIGN.md section 5"
ALL = ["C%02d" % i for i in range(1, 21)]

def main():
    checks, na = [], []
    for pid in ALL:
        c = CHECKS[pid]
        if not os.path.exists(f"/verif/internal/props/{pid.lower()}.go"):
            na.append({"property_id": pid, "reason": NOT_YET})
            continue
        checks.append({
            "property_id": pid,
            "quick_cmd": f"./run.sh {pid} quick",
            "thorough_cmd": f"./run.sh {pid} thorough",
            "evidence_file": f"/verif/evidence/{pid}.json",
            "replay_cmd_template": f"./run.sh {pid} --replay {{path}}",
            "engine": "check",
            "level_claimed": {"category": c["cat"], "text": c["text"], "design_ref": "DESIGN.md section " + c["ref"]},
            "level_note": c["note"],
            "technique": c["tech"],
        })
    m = {
        "version": 1,
        "setup_cmd": "cd /verif && mkdir -p bin && GOFLAGS=-mod=mod GOPROXY=off GOSUMDB=off GOTOOLCHAIN=local go build -tags verif -o bin/check ./cmd/check",
        "hooks": {
            "guard": "verif (Go build tag)",
            "enable": "go build -tags verif (the harness module /verif replaces github.com/cedar-policy/cedar-go with /repo, so every check rebuilds from /repo's working tree)",
            "baseline_off_cmd": "cd /repo && GOPROXY=off GOSUMDB=off GOTOOLCHAIN=local go test -vet=off -count=1 ./...",
            "source_commits": hook_commits(),
            "add_only": True,
        },
        "engines": [{"name": "check", "path": "/verif/cmd/check", "serves_properties": [c["property_id"] for c in checks],
                     "kind_free_text": "Go runtime-monitoring harness: seeded generators, independent reference model, differential/invariant oracles over executions of the real code, child-process supervision, race-detector build for C19"}],
        "checks": checks,
        "notes": "All checks are runtime monitors over executions of the real code (see DESIGN.md). Exit 0 held on what was observed, 1 VIOLATION, 2 INCONCLUSIVE (observed too little), 3 build/usage error. known_findings.json lists recorded genuine defects (open) and repaired ones (fixed).",
    }
    m["not_applicable"] = na  # empty: all 20 properties are claimed (DESIGN.md section 6)
    json.dump(m, open("/verif/MANIFEST.json", "w"), indent=1)
    print("MANIFEST.json written:", len(checks), "checks,", len(na), "not claimed")

main()
