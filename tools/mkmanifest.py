#!/usr/bin/env python3
"""Regenerates /verif/MANIFEST.json from the table below (keeps the file valid at all times)."""
import json, subprocess

HOOK_COMMITS = ["c526348"]

CHECKS = {
 "C01": dict(cat="exploration", tech="differential runtime monitor: cedar-go evaluator vs independent big-integer reference evaluator over exhaustive operator x boundary tables and random type-directed trees; minimal-subterm localisation",
   text="Every execution of x/exp/eval.Eval on the generated (expression, store, request) cases is compared with an independent reference evaluator (value-vs-error agreement and value equality). Operator x boundary-operand tables are enumerated completely, random trees to depth 5/7 on top. Held-on-what-was-observed, not a proof.",
   note="Trusted: the reference evaluator /verif/internal/model (written from the Cedar language reference / Lean spec conventions), bridge conversions through public accessors. Error kinds are statistics only.", ref="5/C01"),
}

NOT_YET = "monitor not built yet in this revision of /verif (work in progress); the property is intended to be decided by a runtime monitor as described in DESIGN.md section 5"

ALL = ["C%02d" % i for i in range(1, 21)]

def main():
    checks = []
    for pid in ALL:
        if pid not in CHECKS:
            continue
        c = CHECKS[pid]
        checks.append({
            "property_id": pid,
            "quick_cmd": f"./run.sh {pid} quick",
            "thorough_cmd": f"./run.sh {pid} thorough",
            "evidence_file": f"/verif/evidence/{pid}.json",
            "replay_cmd_template": f"./run.sh {pid} --replay {{path}}",
            "engine": "check",
            "level_claimed": {"category": c["cat"], "text": c["text"], "design_ref": "DESIGN.md section " + c["ref"]},
            "level_note": c["note"],
            "technique": c["tech"],
        })
    na = [{"property_id": p, "reason": NOT_YET} for p in ALL if p not in CHECKS]
    m = {
        "version": 1,
        "setup_cmd": "cd /verif && GOFLAGS=-mod=mod GOPROXY=off GOSUMDB=off GOTOOLCHAIN=local go build -tags verif -o bin/check ./cmd/check",
        "hooks": {
            "guard": "verif (Go build tag)",
            "enable": "go build -tags verif (the harness module /verif replaces github.com/cedar-policy/cedar-go with /repo, so every check rebuilds from /repo's working tree)",
            "baseline_off_cmd": "cd /repo && GOPROXY=off GOSUMDB=off GOTOOLCHAIN=local go test -vet=off -count=1 ./...",
            "source_commits": HOOK_COMMITS,
            "add_only": True,
        },
        "engines": [{"name": "check", "path": "/verif/cmd/check", "serves_properties": [c["property_id"] for c in checks],
                     "kind_free_text": "Go runtime-monitoring harness: seeded generators, independent reference model, differential/invariant oracles over executions of the real code, child-process supervision, race-detector build for C19"}],
        "checks": checks,
        "notes": "All checks are runtime monitors over executions of the real code (see DESIGN.md). Exit 0 held on what was observed, 1 VIOLATION, 2 INCONCLUSIVE (observed too little), 3 build/usage error. known_findings.json lists recorded genuine defects.",
        "not_applicable": na,
    }
    json.dump(m, open("/verif/MANIFEST.json", "w"), indent=1)
    print("MANIFEST.json written:", len(checks), "checks,", len(na), "not claimed")

main()
