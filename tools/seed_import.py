#!/usr/bin/env python3
"""seed_import.py [Cxx ...] : import confirmed seeded changes from /tmp/seed_out into /verif/seeded/.

For every /tmp/seed_out/<ID>/<mN> whose confirm.json says "confirmed" it copies patch.diff
(+ patch_ported.diff when the change had to be re-based onto the repaired tree), the
demonstration and a meta.json recording: which property it breaks, what it needs in order to
manifest, what was run to confirm it, and what each check reported when run against it
(tools/try_mutant.sh on a scratch copy of /repo; /repo itself is never touched)."""
import json, os, re, shutil, subprocess, sys

SRC = os.environ.get("SEED_SRC", "/tmp/seed_out")
PREFIX = os.environ.get("SEED_PREFIX", "")  # e.g. "r2" for second-round changes
DST = "/verif/seeded"
# checks to run besides the property's own one (the change also breaks these properties)
ALSO = {"C01/m3": ["C04"], "C05/m2": ["C06"], "C02/m2": ["C04"], "C02/m3": ["C04"], "C14/m3": ["C02"], "C10/m1": ["C08"], "C16/m3": ["C15"], "C02/r2m2": ["C18"], "C01/r2m3": ["C04"], "C03/r2m1": ["C04"], "C07/r2m1": ["C18", "C08"], "C09/r2m2": ["C20"], "C08/r2m1": ["C07", "C18"], "C03/r2m2": ["C01"],
        "C11/r2m3": ["C13"], "C14/r2m2": ["C20"], "C12/r3m2": ["C08", "C07"], "C02/r3m3": ["C18"], "C02/r3m1": ["C20"], "C09/r3m2": ["C20"], "C12/r3m3": ["C11"],
        "C02/r4m2": ["C03"], "C19/r4m1": ["C05"], "C18/r4m1": ["C07"], "C17/r4m1": ["C14"],
        "C01/r3m3": ["C12"], "C12/r3m4": ["C14"], "C05/r3m3": ["C06"], "C11/r3m2": ["C13"], "C11/r3m3": ["C12"], "C20/r3m2": ["C07"], "C08/r3m3": ["C14"], "C14/r3m1": ["C08"]}

def try_check(patch, cid):
    p = subprocess.run(["/verif/tools/try_mutant.sh", patch, cid], capture_output=True, text=True, errors="replace")
    out = p.stdout
    m = re.search(r"rc=(\d+) violations=(\d+)", out)
    sigs = [l.strip()[len("signature="):].split(" cases=")[0] for l in out.splitlines() if l.strip().startswith("signature=")]
    if not m:
        return {"check": cid, "result": "not run: " + out.strip()[:200]}
    return {"check": cid, "exit": int(m.group(1)), "violation_lines": int(m.group(2)), "caught": m.group(1) == "1", "first_signatures": sigs[:3]}

ids = sys.argv[1:] or sorted(os.listdir(SRC))
for cid in ids:
    d = os.path.join(SRC, cid)
    if not os.path.isdir(d):
        continue
    for m in sorted(os.listdir(d)):
        md = os.path.join(d, m)
        cf = os.path.join(md, "confirm.json")
        if not os.path.exists(cf):
            continue
        conf = json.load(open(cf))
        if conf.get("verdict") != "confirmed":
            print(cid, m, "skipped:", conf.get("verdict"))
            continue
        out = os.path.join(DST, cid, PREFIX + m)
        os.makedirs(out, exist_ok=True)
        metaf = os.path.join(out, "meta.json")
        if os.path.exists(metaf) and "checks_run_against_it" in json.load(open(metaf)) and "--force" not in sys.argv:
            print(cid, m, "already imported")
            continue
        for f in ("patch.diff", "patch_ported.diff", "demo_test.go"):
            if os.path.exists(os.path.join(md, f)):
                shutil.copy(os.path.join(md, f), os.path.join(out, f))
        orig = json.load(open(os.path.join(md, "meta.json")))
        patch = os.path.join(out, "patch_ported.diff" if os.path.exists(os.path.join(out, "patch_ported.diff")) else "patch.diff")
        runs = [try_check(patch, c) for c in [cid] + ALSO.get(cid + "/" + PREFIX + m, [])]
        meta = {
            "property": cid,
            "summary": orig.get("summary"),
            "needs_to_manifest": orig.get("needs"),
            "files_changed": orig.get("files_changed"),
            "demo": {"place_in": orig.get("demo_dir"), "command": orig.get("demo_cmd")},
            "apply": "git -C /repo apply /verif/seeded/%s/%s/%s   (undo: git -C /repo checkout -- .)" % (cid, PREFIX + m, os.path.basename(patch)),
            "confirmed_in_scratch_worktree": {k: conf.get(k) for k in ("base", "demo_without_change", "build_with_change", "demo_with_change", "suite_with_change", "suite_seconds", "verdict")},
            "checks_run_against_it": runs,
            "caught_by": [r["check"] for r in runs if r.get("caught")],
        }
        json.dump(meta, open(metaf, "w"), indent=1)
        print(cid, m, "imported; caught by", meta["caught_by"], flush=True)
