#!/bin/bash
# tools/run_all.sh [quick|thorough] : run every claimed check through run.sh, one after the other.
TIER="${1:-quick}"
cd /verif
for id in $(python3 -c "import json;print(' '.join(c['property_id'] for c in json.load(open('MANIFEST.json'))['checks']))"); do
  s=$(date +%s)
  ./run.sh "$id" "$TIER" > "/tmp/runall_$id.log" 2>&1
  rc=$?
  e=$(( $(date +%s) - s ))
  echo "$id rc=$rc ${e}s $(grep -ac '^VIOLATION' /tmp/runall_$id.log) violations; $(grep -a "$TIER seed" /tmp/runall_$id.log | tail -1 | cut -c1-160)"
done
