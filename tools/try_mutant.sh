#!/bin/bash
# tools/try_mutant.sh <patch.diff> <ID> [tier]
# Runs check <ID> against a scratch copy of /repo with a seeded change applied. /repo itself is
# never touched: the harness is built with -modfile pointing its replace directive at the copy,
# and evidence/replay files go to a scratch VERIF_ROOT. Everything is removed afterwards.
set -u
P="$(readlink -f "$1")"; ID="$2"; TIER="${3:-quick}"
# one scratch directory per calling process: the same path for every change a batch job tries,
# so that Go's build cache keeps the packages the change does not touch
W=/tmp/mut.$PPID
rm -rf "$W"; mkdir -p "$W"
trap 'rm -rf "$W"' EXIT
mkdir -p "$W/repo" "$W/root/bin"
rsync -a --exclude .git /repo/ "$W/repo/"
if ! (cd "$W/repo" && git apply "$P" 2>"$W/apply.err"); then echo "PATCH DOES NOT APPLY: $P"; head -3 "$W/apply.err"; exit 8; fi
cd /verif
sed "s|=> /repo|=> $W/repo|" go.mod > "$W/go.mod"; cp go.sum "$W/go.sum"
cp known_findings.json "$W/root/"
export GOFLAGS=-mod=mod GOPROXY=off GOSUMDB=off GOTOOLCHAIN=local CGO_ENABLED=1
if ! go build -modfile="$W/go.mod" -tags verif -o "$W/root/bin/check" ./cmd/check 2>"$W/build.err"; then echo "$P $ID BUILD FAILED"; head -5 "$W/build.err"; exit 7; fi
if [ "$ID" = "C19" ]; then go build -race -modfile="$W/go.mod" -tags verif -o "$W/root/bin/check-race" ./cmd/check || exit 7; fi
VERIF_ROOT="$W/root" "$W/root/bin/check" "$ID" --tier "$TIER" > "$W/out.log" 2>&1
rc=$?
# same crash net as run.sh: a fatal runtime error / uncaught panic of the check process is a violation
if [ $rc -ne 0 ] && [ $rc -ne 1 ] && grep -aqE '^(fatal error:|panic:)' "$W/out.log"; then
  echo "VIOLATION property=$ID replay=process-crash.log" >> "$W/out.log"
  echo "  signature=check process crashed: $(grep -a -m1 -E '^(fatal error:|panic:)' "$W/out.log")" >> "$W/out.log"
  rc=1
fi
echo "$P $ID rc=$rc violations=$(grep -ac '^VIOLATION' "$W/out.log")"
grep -a "^  signature" "$W/out.log" | head -5 | cut -c1-300
if [ $rc -ne 0 ] && [ $rc -ne 1 ]; then grep -aE '^(fatal error:|panic:|INCONCLUSIVE)' "$W/out.log" | head -3; fi
exit 0
