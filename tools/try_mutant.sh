#!/bin/bash
# tools/try_mutant.sh <patch.diff> <ID> [tier]  : apply a seeded change to /repo, run the check, undo.
set -u
P="$1"; ID="$2"; TIER="${3:-quick}"
cd /repo || exit 9
if ! git diff --quiet; then echo "/repo working tree not clean"; exit 9; fi
if ! git apply "$P"; then echo "PATCH DOES NOT APPLY: $P"; exit 8; fi
cd /verif
./run.sh "$ID" "$TIER" > /tmp/mut_$ID.log 2>&1
rc=$?
git -C /repo checkout -- . 
grep -c "^VIOLATION" /tmp/mut_$ID.log | sed "s|^|$P $ID rc=$rc violations=|"
grep "^  signature" /tmp/mut_$ID.log | head -5
