#!/usr/bin/env python3
"""seeded_table.py : print the markdown table of /verif/seeded (one row per seeded change:
what it breaks, what it needs in order to show, which checks report it)."""
import glob, json, os, re

rows = []
for mf in sorted(glob.glob("/verif/seeded/C*/*/meta.json")):
    d = json.load(open(mf))
    cid, m = mf.split("/")[-3], mf.split("/")[-2]
    summ = (d.get("summary") or "").replace("\n", " ").replace("|", "/")
    summ = re.split(r"(?<=[.;:]) ", summ)[0]
    if len(summ) > 230:
        summ = summ[:227] + "..."
    needs = (d.get("needs_to_manifest") or "").replace("\n", " ").replace("|", "/")
    if len(needs) > 200:
        needs = needs[:197] + "..."
    runs = d.get("checks_run_against_it", [])
    caught = ", ".join(d.get("caught_by", [])) or "—"
    missed = ", ".join(r["check"] for r in runs if "caught" in r and not r["caught"])
    files = ", ".join(os.path.basename(f) for f in (d.get("files_changed") or []))
    rows.append("| %s/%s | %s | %s | %s | %s | %s |" % (cid, m, files, summ, needs, caught, missed or "—"))
print("| change | file(s) | what it does | needs | reported by | run against it, silent |")
print("|---|---|---|---|---|---|")
print("\n".join(rows))
