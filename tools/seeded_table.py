#!/usr/bin/env python3
"""seeded_table.py : print the markdown table of /verif/seeded (one row per seeded change:
where it is, what it needs in order to show, which checks report it)."""
import glob, json, os, re

def clip(s, n):
    s = (s or "").replace("\n", " ").replace("|", "/").strip()
    return s if len(s) <= n else s[: n - 3] + "..."

def order(path):
    cid, m = path.split("/")[-3], path.split("/")[-2]
    rnd = {"m": 1, "r2": 2, "r3": 3, "r4": 4, "r5": 5}[re.match(r"(r2|r3|r4|r5|m)", m).group(1)]
    return (cid, rnd, m)

rows = []
for mf in sorted(glob.glob("/verif/seeded/C*/*/meta.json"), key=order):
    d = json.load(open(mf))
    cid, m = mf.split("/")[-3], mf.split("/")[-2]
    runs = d.get("checks_run_against_it", [])
    caught = ", ".join(d.get("caught_by", [])) or "—"
    silent = ", ".join(r["check"] for r in runs if "caught" in r and not r["caught"])
    files = ", ".join(sorted({os.path.basename(f) for f in (d.get("files_changed") or [])}))
    summ = re.split(r"(?<=[.;:]) ", clip(d.get("summary"), 400))[0]
    rows.append("| %s/%s | %s | %s | %s | %s |" % (cid, m, clip(files, 60), clip(summ, 170), clip(d.get("needs_to_manifest"), 150), caught + ((" (silent: " + silent + ")") if silent else "")))
print("| change | file(s) | what it does | what it needs to show | reported by |")
print("|---|---|---|---|---|")
print("\n".join(rows))
