#!/usr/bin/env python3
"""confirm_mutant.py <mutant-dir> ... : confirm seeded changes in a scratch worktree of /repo.

For each directory (patch.diff or patch_ported.diff, demo_test.go, meta.json) it checks, in a
fresh worktree outside /repo and /verif: the demonstration passes on the unchanged code, the
patch applies and builds, the demonstration fails with it, and the repository's whole test
suite still passes with it. The verdict is written to <dir>/confirm.json. The worktree and its
build output are removed afterwards."""
import json, os, re, shlex, subprocess, sys, time

ENV = dict(os.environ, GOPROXY="off", GOSUMDB="off", GOTOOLCHAIN="local", GOFLAGS="")

def run(cmd, cwd, timeout=3600):
    p = subprocess.run(cmd, cwd=cwd, env=ENV, stdout=subprocess.PIPE, stderr=subprocess.STDOUT, text=True, timeout=timeout)
    return p.returncode, p.stdout[-4000:]

def confirm(d):
    meta = json.load(open(os.path.join(d, "meta.json")))
    patch = os.path.join(d, "patch_ported.diff")
    if not os.path.exists(patch):
        patch = os.path.join(d, "patch.diff")
    demo_dir = str(meta.get("demo_dir", ".")).split()[0].strip()
    if demo_dir.startswith("."):
        demo_dir = "." if demo_dir in (".", "./") else demo_dir
    cmd = str(meta.get("demo_cmd", ""))
    m = re.search(r"-run\s+('([^']*)'|\"([^\"]*)\"|(\S+))", cmd)
    test_re = (m.group(2) or m.group(3) or m.group(4)) if m else "Test"
    pkg = "./" + demo_dir.strip("./") + "/" if demo_dir != "." else "."
    wt = "/tmp/wt/confirm_" + d.strip("/").replace("/", "_")
    res = {"mutant": d, "patch": os.path.basename(patch), "test": test_re, "package": pkg}
    subprocess.run(["git", "-C", "/repo", "worktree", "remove", "--force", wt], capture_output=True)
    head = subprocess.run(["git", "-C", "/repo", "rev-parse", "--short", "HEAD"], capture_output=True, text=True).stdout.strip()
    base = head
    subprocess.check_call(["git", "-C", "/repo", "worktree", "add", "-q", "--detach", wt, base])
    try:
        if subprocess.run(["git", "apply", "--check", patch], cwd=wt, capture_output=True).returncode != 0:
            # made against the pinned snapshot before fixes landed
            base = "1418eef"
            subprocess.check_call(["git", "checkout", "-q", "--detach", base], cwd=wt)
            if subprocess.run(["git", "apply", "--check", patch], cwd=wt, capture_output=True).returncode != 0:
                res["verdict"] = "patch does not apply"
                return res
        res["base"] = base
        demo = os.path.join(wt, demo_dir, "zz_seeded_demo_test.go")
        subprocess.check_call(["cp", os.path.join(d, "demo_test.go"), demo])
        tcmd = ["go", "test", "-vet=off", "-count=1", "-timeout", "30m", "-run", test_re, pkg]
        rc, out = run(tcmd, wt)
        res["demo_without_change"] = "pass" if rc == 0 else "FAIL"
        res["demo_without_change_tail"] = out[-600:]
        subprocess.check_call(["git", "apply", patch], cwd=wt)
        rc, out = run(["go", "build", "./..."], wt)
        res["build_with_change"] = "ok" if rc == 0 else "FAIL"
        rc, out = run(tcmd, wt)
        res["demo_with_change"] = "fail" if rc != 0 else "PASS"
        res["demo_with_change_tail"] = out[-800:]
        os.remove(demo)
        t0 = time.time()
        rc, out = run(["go", "test", "-vet=off", "-count=1", "-timeout", "60m", "./..."], wt, timeout=7200)
        res["suite_with_change"] = "pass" if rc == 0 else "FAIL"
        res["suite_seconds"] = round(time.time() - t0)
        if rc != 0:
            res["suite_tail"] = "\n".join(l for l in out.splitlines() if not l.startswith("ok") and "no test files" not in l)[-1500:]
        ok = res["demo_without_change"] == "pass" and res["build_with_change"] == "ok" and res["demo_with_change"] == "fail" and res["suite_with_change"] == "pass"
        res["verdict"] = "confirmed" if ok else "not confirmed"
        return res
    finally:
        subprocess.run(["git", "-C", "/repo", "worktree", "remove", "--force", wt], capture_output=True)

for d in sys.argv[1:]:
    try:
        r = confirm(d.rstrip("/"))
    except Exception as e:  # noqa
        r = {"mutant": d, "verdict": "error: %r" % (e,)}
    json.dump(r, open(os.path.join(d, "confirm.json"), "w"), indent=1)
    print(d, r.get("verdict"), r.get("base"), r.get("suite_seconds"), flush=True)
