// Package mon is the case runner of the runtime-monitoring harness: deterministic
// per-case PRNG streams, a worker pool, counters of what the monitors observed,
// three-valued verdicts, known-finding matching, replay files and the evidence writer.
package mon

import (
	"encoding/json"
	"fmt"
	"hash/fnv"
	"os"
	"path/filepath"
	"runtime"
	"runtime/debug"
	"sort"
	"strings"
	"sync"
	"sync/atomic"
	"time"
)

// Root is where evidence/, replay/ and known_findings.json live. VERIF_ROOT redirects it for
// runs against scratch copies of the repository (seeded changes), so that the committed
// evidence of /verif is not overwritten by such runs.
var Root = func() string {
	if r := os.Getenv("VERIF_ROOT"); r != "" {
		return r
	}
	return "/verif"
}()

// Finding is one entry of known_findings.json.
type Finding struct {
	Property  string `json:"property"`
	Signature string `json:"signature"`
	Status    string `json:"status"` // "open" or "fixed"
	Commit    string `json:"commit,omitempty"`
	What      string `json:"what"`
}

type Violation struct {
	Sig     string `json:"signature"`
	What    string `json:"what"`
	Stream  string `json:"stream"`
	Index   int    `json:"index"`
	Witness any    `json:"witness"`
	Count   int    `json:"count"`
}

type Ctx struct {
	Prop     string
	Tier     string
	Seed     uint64
	Level    string
	Rule     string
	Assume   []string
	Floor    int // minimum distinct_nontrivial below which the run is inconclusive
	Replay   *ReplaySpec
	Extra    map[string]any
	start    time.Time
	mu       sync.Mutex
	counters map[string]int64
	evals    int64
	nontriv  map[uint64]struct{}
	samples  map[string][]any
	viol     map[string]*Violation
	inconcl  map[string]int64
	exhaust  *bool
	workers  int
}

type ReplaySpec struct {
	Property string `json:"property"`
	Seed     uint64 `json:"seed"`
	Tier     string `json:"tier"`
	Stream   string `json:"stream"`
	Index    int    `json:"index"`
}

func New(prop, tier string, seed uint64) *Ctx {
	w := runtime.NumCPU()
	if s := os.Getenv("VERIF_WORKERS"); s != "" {
		fmt.Sscanf(s, "%d", &w)
	}
	if w < 1 {
		w = 1
	}
	return &Ctx{Prop: prop, Tier: tier, Seed: seed, Level: "exploration", start: time.Now(),
		counters: map[string]int64{}, nontriv: map[uint64]struct{}{}, samples: map[string][]any{},
		viol: map[string]*Violation{}, inconcl: map[string]int64{}, Extra: map[string]any{}, workers: w}
}

func (c *Ctx) Thorough() bool { return c.Tier == "thorough" }

// N picks the case count for the current tier.
func (c *Ctx) N(quick, thorough int) int {
	if c.Thorough() {
		return thorough
	}
	return quick
}

func (c *Ctx) SetExhaustive(b bool) { c.exhaust = &b }

func h64(parts ...string) uint64 {
	h := fnv.New64a()
	for _, p := range parts {
		h.Write([]byte(p))
		h.Write([]byte{0})
	}
	return h.Sum64()
}

// Rand returns the PRNG of case (stream, idx): a pure function of (seed, property, stream, idx).
func (c *Ctx) Rand(stream string, idx int) *Rand {
	s := h64(c.Prop, stream) ^ (c.Seed * 0x9E3779B97F4A7C15) ^ (uint64(idx)+1)*0xD1342543DE82EF95
	r := &Rand{s: s}
	r.U64()
	r.U64()
	return r
}

// W is a worker-local view: counters are merged into the Ctx when the loop ends.
type W struct {
	C        *Ctx
	Stream   string
	Index    int
	counters map[string]int64
	evals    int64
	nontriv  map[uint64]struct{}
}

func (w *W) Count(key string)           { w.counters[key]++ }
func (w *W) CountN(key string, n int64) { w.counters[key] += n }
func (w *W) Evals(n int)                { w.evals += int64(n) }
func (w *W) NonTrivial(key string)      { w.nontriv[h64(key)] = struct{}{} }
func (w *W) Rand() *Rand                { return w.C.Rand(w.Stream, w.Index) }
func (w *W) RandSub(sub string) *Rand   { return w.C.Rand(w.Stream+"/"+sub, w.Index) }
func (w *W) Sample(cat string, v any)   { w.C.Sample(cat, v) }
func (w *W) Violation(sig, what string, witness any) {
	w.C.violation(sig, what, w.Stream, w.Index, witness)
}
func (w *W) Inconclusive(reason string) { w.C.Inconclusive(reason) }

func (w *W) flush() {
	c := w.C
	c.mu.Lock()
	for k, v := range w.counters {
		c.counters[k] += v
	}
	c.evals += w.evals
	for k := range w.nontriv {
		c.nontriv[k] = struct{}{}
	}
	c.mu.Unlock()
	w.counters = map[string]int64{}
	w.nontriv = map[uint64]struct{}{}
	w.evals = 0
}

// skipStream: development aid. VERIF_ONLY=<substring> restricts a run to the streams whose name
// contains it (the registered commands never set it; a restricted run usually ends INCONCLUSIVE
// because the per-property floor is not reached).
func skipStream(stream string) bool {
	only := os.Getenv("VERIF_ONLY")
	return only != "" && !strings.Contains(stream, only)
}

// ParFor runs fn for every index in [0,n) of the named stream on all cores. Panics inside
// fn are turned into violations (signature "panic:<site>") so that one crash does not end
// the run. In replay mode only the recorded (stream, index) is executed.
func (c *Ctx) ParFor(stream string, n int, fn func(w *W, i int)) {
	if skipStream(stream) {
		return
	}
	if c.Replay != nil {
		if c.Replay.Stream != stream {
			return
		}
		w := &W{C: c, Stream: stream, Index: c.Replay.Index, counters: map[string]int64{}, nontriv: map[uint64]struct{}{}}
		c.guard(w, c.Replay.Index, fn)
		w.flush()
		return
	}
	var next int64
	var wg sync.WaitGroup
	nw := c.workers
	if nw > n {
		nw = n
	}
	for k := 0; k < nw; k++ {
		wg.Add(1)
		go func() {
			defer wg.Done()
			w := &W{C: c, Stream: stream, counters: map[string]int64{}, nontriv: map[uint64]struct{}{}}
			for {
				i := int(atomic.AddInt64(&next, 1) - 1)
				if i >= n {
					break
				}
				w.Index = i
				c.guard(w, i, fn)
				if len(w.nontriv) > 4096 {
					w.flush()
				}
			}
			w.flush()
		}()
	}
	wg.Wait()
}

// Seq runs fn sequentially for every index (used where the monitor itself manages
// goroutines or child processes).
func (c *Ctx) Seq(stream string, n int, fn func(w *W, i int)) {
	if skipStream(stream) {
		return
	}
	w := &W{C: c, Stream: stream, counters: map[string]int64{}, nontriv: map[uint64]struct{}{}}
	for i := 0; i < n; i++ {
		if c.Replay != nil && (c.Replay.Stream != stream || c.Replay.Index != i) {
			continue
		}
		w.Index = i
		c.guard(w, i, fn)
	}
	w.flush()
}

func (c *Ctx) guard(w *W, i int, fn func(w *W, i int)) {
	defer func() {
		if r := recover(); r != nil {
			site := PanicSite(debug.Stack())
			w.Violation("harness-panic:"+site, fmt.Sprintf("panic while checking case: %v", r),
				map[string]any{"panic": fmt.Sprint(r), "stack": trimStack(debug.Stack())})
		}
	}()
	fn(w, i)
}

// PanicSite extracts the first cedar-go frame (function name) below the panic from a stack dump.
func PanicSite(stack []byte) string {
	lines := strings.Split(string(stack), "\n")
	seenPanic := false
	for _, l := range lines {
		if strings.HasPrefix(l, "panic(") {
			seenPanic = true
			continue
		}
		if !seenPanic || strings.HasPrefix(l, "\t") {
			continue
		}
		if strings.Contains(l, "cedar-policy/cedar-go") {
			f := l
			if j := strings.LastIndex(f, "("); j > 0 {
				f = f[:j]
			}
			f = strings.TrimPrefix(f, "github.com/cedar-policy/cedar-go/")
			return f
		}
	}
	for _, l := range lines {
		if strings.HasPrefix(l, "\t") || !strings.Contains(l, "verif/") {
			continue
		}
		f := l
		if j := strings.LastIndex(f, "("); j > 0 {
			f = f[:j]
		}
		return "harness:" + f
	}
	return "unknown"
}

func trimStack(b []byte) string {
	s := string(b)
	if len(s) > 3000 {
		s = s[:3000]
	}
	return s
}

func (c *Ctx) Count(key string, n int64) {
	c.mu.Lock()
	c.counters[key] += n
	c.mu.Unlock()
}

func (c *Ctx) Sample(cat string, v any) {
	c.mu.Lock()
	if len(c.samples[cat]) < 3 {
		c.samples[cat] = append(c.samples[cat], v)
	}
	c.mu.Unlock()
}

func (c *Ctx) Inconclusive(reason string) {
	c.mu.Lock()
	c.inconcl[reason]++
	c.mu.Unlock()
}

func (c *Ctx) Violation(sig, what string, witness any) { c.violation(sig, what, "", -1, witness) }

func (c *Ctx) violation(sig, what, stream string, idx int, witness any) {
	c.mu.Lock()
	defer c.mu.Unlock()
	if v, ok := c.viol[sig]; ok {
		v.Count++
		// keep the witness with the smallest index so that reports are schedule independent
		if idx >= 0 && (v.Index < 0 || stream < v.Stream || (stream == v.Stream && idx < v.Index)) {
			v.Stream, v.Index, v.Witness, v.What = stream, idx, witness, what
		}
		return
	}
	c.viol[sig] = &Violation{Sig: sig, What: what, Stream: stream, Index: idx, Witness: witness, Count: 1}
}

func LoadFindings() []Finding {
	b, err := os.ReadFile(filepath.Join(Root, "known_findings.json"))
	if err != nil {
		return nil
	}
	var f struct {
		Findings []Finding `json:"findings"`
	}
	if err := json.Unmarshal(b, &f); err != nil {
		fmt.Fprintf(os.Stderr, "known_findings.json unreadable: %v\n", err)
		os.Exit(3)
	}
	return f.Findings
}

func sanitize(s string) string {
	var b strings.Builder
	for _, r := range s {
		if (r >= 'a' && r <= 'z') || (r >= 'A' && r <= 'Z') || (r >= '0' && r <= '9') || r == '-' || r == '_' {
			b.WriteRune(r)
		} else {
			b.WriteByte('_')
		}
	}
	out := b.String()
	if len(out) > 60 {
		out = out[:60]
	}
	return out
}

// Finish prints the verdict lines, writes replay files and the evidence file, and returns
// the process exit code (0 held, 1 violation, 2 inconclusive).
func (c *Ctx) Finish() int {
	findings := LoadFindings()
	open := map[string]Finding{}
	for _, f := range findings {
		if f.Property == c.Prop && f.Status == "open" {
			open[f.Signature] = f
		}
	}
	sigs := make([]string, 0, len(c.viol))
	for s := range c.viol {
		sigs = append(sigs, s)
	}
	sort.Strings(sigs)
	fired := []string{}
	nviol := 0
	replayDir := filepath.Join(Root, "replay", c.Prop)
	for _, s := range sigs {
		v := c.viol[s]
		if f, ok := open[s]; ok {
			fmt.Printf("KNOWN-FINDING: property=%s %s [signature=%s, %d case(s) this run]\n", c.Prop, f.What, s, v.Count)
			fired = append(fired, s)
			continue
		}
		nviol++
		_ = os.MkdirAll(replayDir, 0o755)
		path := filepath.Join(replayDir, fmt.Sprintf("%s-%08x.json", sanitize(s), uint32(h64(s))))
		rp := map[string]any{"property": c.Prop, "seed": c.Seed, "tier": c.Tier, "stream": v.Stream, "index": v.Index,
			"signature": s, "what": v.What, "cases_with_this_signature": v.Count, "witness": v.Witness}
		b, _ := json.MarshalIndent(rp, "", " ")
		_ = os.WriteFile(path, b, 0o644)
		if nviol <= 25 {
			fmt.Printf("VIOLATION property=%s replay=%s\n", c.Prop, path)
			fmt.Printf("  signature=%s cases=%d: %s\n", s, v.Count, oneLine(v.What))
		}
	}
	distinct := len(c.nontriv)
	wall := time.Since(c.start).Seconds()

	cov := map[string]any{}
	for k, v := range c.Extra {
		cov[k] = v
	}
	cov["evaluations"] = c.evals
	cov["distinct_nontrivial"] = distinct
	cov["rule"] = c.Rule
	samples := []any{}
	cats := make([]string, 0, len(c.samples))
	for k := range c.samples {
		cats = append(cats, k)
	}
	sort.Strings(cats)
	for _, k := range cats {
		for _, s := range c.samples[k] {
			samples = append(samples, map[string]any{"category": k, "case": s})
		}
	}
	cov["samples"] = samples
	cov["observed"] = c.counters
	if c.exhaust != nil {
		cov["exhaustive"] = *c.exhaust
	}
	cov["inconclusive"] = c.inconcl
	cov["known_findings_fired"] = fired
	ev := map[string]any{
		"property_id": c.Prop, "tier": c.Tier, "seed": c.Seed, "level": c.Level,
		"coverage": cov, "assumptions": c.Assume, "wall_s": wall, "violations": nviol,
	}
	if c.Replay == nil {
		b, _ := json.MarshalIndent(ev, "", " ")
		_ = os.MkdirAll(filepath.Join(Root, "evidence"), 0o755)
		if err := os.WriteFile(filepath.Join(Root, "evidence", c.Prop+".json"), b, 0o644); err != nil {
			fmt.Fprintf(os.Stderr, "cannot write evidence: %v\n", err)
		}
	}
	fmt.Printf("%s %s seed=%d: evaluations=%d distinct_nontrivial=%d violations=%d known_findings=%d inconclusive=%d wall=%.1fs\n",
		c.Prop, c.Tier, c.Seed, c.evals, distinct, nviol, len(fired), sumMap(c.inconcl), wall)
	if nviol > 0 {
		return 1
	}
	if c.Replay == nil && (c.evals == 0 || distinct < c.Floor || len(samples) == 0) {
		fmt.Printf("INCONCLUSIVE property=%s: observed too little (evaluations=%d distinct_nontrivial=%d floor=%d)\n", c.Prop, c.evals, distinct, c.Floor)
		return 2
	}
	return 0
}

func sumMap(m map[string]int64) int64 {
	var s int64
	for _, v := range m {
		s += v
	}
	return s
}

func oneLine(s string) string {
	s = strings.ReplaceAll(s, "\n", " ")
	if len(s) > 300 {
		s = s[:300] + "…"
	}
	return s
}

func LoadReplay(path string) (*ReplaySpec, error) {
	b, err := os.ReadFile(path)
	if err != nil {
		return nil, err
	}
	var r ReplaySpec
	if err := json.Unmarshal(b, &r); err != nil {
		return nil, err
	}
	return &r, nil
}

// Rand is a small deterministic PRNG (splitmix64).
type Rand struct{ s uint64 }

func NewRand(seed uint64) *Rand { return &Rand{s: seed} }

func (r *Rand) U64() uint64 {
	r.s += 0x9E3779B97F4A7C15
	z := r.s
	z = (z ^ (z >> 30)) * 0xBF58476D1CE4E5B9
	z = (z ^ (z >> 27)) * 0x94D049BB133111EB
	return z ^ (z >> 31)
}
func (r *Rand) Intn(n int) int {
	if n <= 0 {
		return 0
	}
	return int(r.U64() % uint64(n))
}
func (r *Rand) I64() int64     { return int64(r.U64()) }
func (r *Rand) Bool() bool     { return r.U64()&1 == 1 }
func (r *Rand) P(p float64) bool { return float64(r.U64()>>11)/float64(1<<53) < p }
func (r *Rand) Perm(n int) []int {
	p := make([]int, n)
	for i := range p {
		p[i] = i
	}
	for i := n - 1; i > 0; i-- {
		j := r.Intn(i + 1)
		p[i], p[j] = p[j], p[i]
	}
	return p
}
func Pick[T any](r *Rand, xs []T) T { return xs[r.Intn(len(xs))] }
