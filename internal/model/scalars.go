package model

import (
	"fmt"
	"math/big"
	"strconv"
	"strings"
)

// ---------------------------------------------------------------- decimal

// PrintDecimal prints a decimal (in 1/10000 units) with 1..4 fractional digits.
func PrintDecimal(v int64) string {
	x := big.NewInt(v)
	neg := x.Sign() < 0
	x.Abs(x)
	q, r := new(big.Int).QuoRem(x, big.NewInt(10000), new(big.Int))
	frac := fmt.Sprintf("%04d", r.Int64())
	for len(frac) > 1 && frac[len(frac)-1] == '0' {
		frac = frac[:len(frac)-1]
	}
	s := q.String() + "." + frac
	if neg {
		s = "-" + s
	}
	return s
}

// PrintDecimalDigits prints with exactly n (1..4) fractional digits; ok=false if that loses digits.
func PrintDecimalDigits(v int64, n int) (string, bool) {
	x := big.NewInt(v)
	neg := x.Sign() < 0
	x.Abs(x)
	q, r := new(big.Int).QuoRem(x, big.NewInt(10000), new(big.Int))
	frac := fmt.Sprintf("%04d", r.Int64())
	for i := n; i < 4; i++ {
		if frac[i] != '0' {
			return "", false
		}
	}
	s := q.String() + "." + frac[:n]
	if neg {
		s = "-" + s
	}
	return s, true
}

func allDigits(s string) bool {
	if s == "" {
		return false
	}
	for i := 0; i < len(s); i++ {
		if s[i] < '0' || s[i] > '9' {
			return false
		}
	}
	return true
}

// ParseDecimal implements the Cedar decimal literal: -?[0-9]+\.[0-9]{1,4}, value in range.
func ParseDecimal(s string) (int64, bool) {
	neg := false
	if strings.HasPrefix(s, "-") {
		neg = true
		s = s[1:]
	}
	dot := strings.IndexByte(s, '.')
	if dot < 0 {
		return 0, false
	}
	ip, fp := s[:dot], s[dot+1:]
	if !allDigits(ip) || !allDigits(fp) || len(fp) > 4 {
		return 0, false
	}
	for len(fp) < 4 {
		fp += "0"
	}
	x, _ := new(big.Int).SetString(ip+fp, 10)
	if neg {
		x.Neg(x)
	}
	if !fitsInt64(x) {
		return 0, false
	}
	return x.Int64(), true
}

// ---------------------------------------------------------------- duration

var durUnits = []struct {
	name string
	ms   int64
}{{"d", 86400000}, {"h", 3600000}, {"m", 60000}, {"s", 1000}, {"ms", 1}}

func PrintDuration(v int64) string {
	if v == 0 {
		return "0ms"
	}
	x := big.NewInt(v)
	var b strings.Builder
	if x.Sign() < 0 {
		b.WriteByte('-')
		x.Abs(x)
	}
	for _, u := range durUnits {
		q, r := new(big.Int).QuoRem(x, big.NewInt(u.ms), new(big.Int))
		if q.Sign() > 0 {
			b.WriteString(q.String())
			b.WriteString(u.name)
		}
		x = r
	}
	return b.String()
}

// ParseDuration implements -?(\d+d)?(\d+h)?(\d+m)?(\d+s)?(\d+ms)? with at least one
// component and a total that fits int64 milliseconds after the sign is applied.
func ParseDuration(s string) (int64, bool) {
	neg := false
	if strings.HasPrefix(s, "-") {
		neg = true
		s = s[1:]
	}
	if s == "" {
		return 0, false
	}
	total := new(big.Int)
	ui := 0
	for s != "" {
		j := 0
		for j < len(s) && s[j] >= '0' && s[j] <= '9' {
			j++
		}
		if j == 0 {
			return 0, false
		}
		num, _ := new(big.Int).SetString(s[:j], 10)
		s = s[j:]
		var unit string
		switch {
		case strings.HasPrefix(s, "ms"):
			unit = "ms"
		case strings.HasPrefix(s, "d"), strings.HasPrefix(s, "h"), strings.HasPrefix(s, "m"), strings.HasPrefix(s, "s"):
			unit = s[:1]
		default:
			return 0, false
		}
		s = s[len(unit):]
		found := false
		for ui < len(durUnits) {
			if durUnits[ui].name == unit {
				found = true
				break
			}
			ui++
		}
		if !found {
			return 0, false
		}
		total.Add(total, num.Mul(num, big.NewInt(durUnits[ui].ms)))
		ui++
	}
	if neg {
		total.Neg(total)
	}
	if !fitsInt64(total) {
		return 0, false
	}
	return total.Int64(), true
}

// ---------------------------------------------------------------- datetime

// daysFromCivil: days since 1970-01-01 of the proleptic Gregorian date (y, m, d); y may be
// any integer (astronomical year numbering).
func daysFromCivil(y, m, d int64) int64 {
	if m <= 2 {
		y--
	}
	var era int64
	if y >= 0 {
		era = y / 400
	} else {
		era = (y - 399) / 400
	}
	yoe := y - era*400
	mp := (m + 9) % 12
	doy := (153*mp+2)/5 + d - 1
	doe := yoe*365 + yoe/4 - yoe/100 + doy
	return era*146097 + doe - 719468
}

func civilFromDays(z int64) (y, m, d int64) {
	z += 719468
	var era int64
	if z >= 0 {
		era = z / 146097
	} else {
		era = (z - 146096) / 146097
	}
	doe := z - era*146097
	yoe := (doe - doe/1460 + doe/36524 - doe/146096) / 365
	y = yoe + era*400
	doy := doe - (365*yoe + yoe/4 - yoe/100)
	mp := (5*doy + 2) / 153
	d = doy - (153*mp+2)/5 + 1
	if mp < 10 {
		m = mp + 3
	} else {
		m = mp - 9
	}
	if m <= 2 {
		y++
	}
	return
}

func isLeap(y int64) bool { return y%4 == 0 && (y%100 != 0 || y%400 == 0) }

func daysIn(y, m int64) int64 {
	switch m {
	case 2:
		if isLeap(y) {
			return 29
		}
		return 28
	case 4, 6, 9, 11:
		return 30
	}
	return 31
}

func floorDivMod(a, b int64) (int64, int64) {
	q := a / b
	r := a % b
	if r < 0 {
		q--
		r += b
	}
	return q, r
}

// PrintDatetime renders ms since epoch as YYYY-MM-DDThh:mm:ss.SSSZ, with the expanded
// ±YYYYYYYYY year form outside 0000..9999.
func PrintDatetime(ms int64) string {
	day, rem := floorDivMod(ms, 86400000)
	y, m, d := civilFromDays(day)
	hh := rem / 3600000
	mi := rem / 60000 % 60
	ss := rem / 1000 % 60
	mm := rem % 1000
	if y >= 0 && y <= 9999 {
		return fmt.Sprintf("%04d-%02d-%02dT%02d:%02d:%02d.%03dZ", y, m, d, hh, mi, ss, mm)
	}
	sign := "+"
	if y < 0 {
		sign = "-"
		y = -y
	}
	return fmt.Sprintf("%s%09d-%02d-%02dT%02d:%02d:%02d.%03dZ", sign, y, m, d, hh, mi, ss, mm)
}

type DTForm struct {
	Expanded bool // ±YYYYYYYYY year
	DateOnly bool
	Millis   bool
	Offset   bool // ±hhmm instead of Z
}

func num(s string, n int) (int64, string, bool) {
	if len(s) < n || !allDigits(s[:n]) {
		return 0, s, false
	}
	v, _ := strconv.ParseInt(s[:n], 10, 64)
	return v, s[n:], true
}

func lit(s string, c byte) (string, bool) {
	if len(s) == 0 || s[0] != c {
		return s, false
	}
	return s[1:], true
}

// ParseDatetime parses the RFC 80 forms (and the expanded-year extension). The result must
// fit int64 milliseconds after the offset is applied.
func ParseDatetime(s string) (int64, DTForm, bool) {
	var f DTForm
	ysign := int64(1)
	ylen := 4
	if strings.HasPrefix(s, "+") || strings.HasPrefix(s, "-") {
		f.Expanded = true
		ylen = 9
		if s[0] == '-' {
			ysign = -1
		}
		s = s[1:]
	}
	var y, mo, d, hh, mi, ss, ms int64
	var ok bool
	if y, s, ok = num(s, ylen); !ok {
		return 0, f, false
	}
	y *= ysign
	if s, ok = lit(s, '-'); !ok {
		return 0, f, false
	}
	if mo, s, ok = num(s, 2); !ok || mo < 1 || mo > 12 {
		return 0, f, false
	}
	if s, ok = lit(s, '-'); !ok {
		return 0, f, false
	}
	if d, s, ok = num(s, 2); !ok || d < 1 || d > daysIn(y, mo) {
		return 0, f, false
	}
	total := new(big.Int).Mul(big.NewInt(daysFromCivil(y, mo, d)), big.NewInt(86400000))
	if s == "" {
		f.DateOnly = true
		if !fitsInt64(total) {
			return 0, f, false
		}
		return total.Int64(), f, true
	}
	if s, ok = lit(s, 'T'); !ok {
		return 0, f, false
	}
	if hh, s, ok = num(s, 2); !ok || hh > 23 {
		return 0, f, false
	}
	if s, ok = lit(s, ':'); !ok {
		return 0, f, false
	}
	if mi, s, ok = num(s, 2); !ok || mi > 59 {
		return 0, f, false
	}
	if s, ok = lit(s, ':'); !ok {
		return 0, f, false
	}
	if ss, s, ok = num(s, 2); !ok || ss > 59 {
		return 0, f, false
	}
	if strings.HasPrefix(s, ".") {
		f.Millis = true
		if ms, s, ok = num(s[1:], 3); !ok {
			return 0, f, false
		}
	}
	total.Add(total, big.NewInt(hh*3600000+mi*60000+ss*1000+ms))
	switch {
	case s == "Z":
	case len(s) == 5 && (s[0] == '+' || s[0] == '-'):
		f.Offset = true
		oh, r, ok1 := num(s[1:], 2)
		om, _, ok2 := num(r, 2)
		if !ok1 || !ok2 || oh > 23 || om > 59 {
			return 0, f, false
		}
		off := oh*3600000 + om*60000
		if s[0] == '+' {
			total.Sub(total, big.NewInt(off))
		} else {
			total.Add(total, big.NewInt(off))
		}
	default:
		return 0, f, false
	}
	if !fitsInt64(total) {
		return 0, f, false
	}
	return total.Int64(), f, true
}

// ---------------------------------------------------------------- ip

func PrintIP(ip IPVal) string {
	var s string
	full := 32
	if !ip.V6 {
		a := uint32(ip.Lo)
		s = fmt.Sprintf("%d.%d.%d.%d", a>>24, a>>16&255, a>>8&255, a&255)
	} else {
		full = 128
		g := [8]uint16{uint16(ip.Hi >> 48), uint16(ip.Hi >> 32), uint16(ip.Hi >> 16), uint16(ip.Hi),
			uint16(ip.Lo >> 48), uint16(ip.Lo >> 32), uint16(ip.Lo >> 16), uint16(ip.Lo)}
		parts := make([]string, 8)
		for i, x := range g {
			parts[i] = strconv.FormatUint(uint64(x), 16)
		}
		s = strings.Join(parts, ":")
	}
	if ip.Prefix != full {
		s += "/" + strconv.Itoa(ip.Prefix)
	}
	return s
}

// ParseIP parses plain IPv4 dotted quads and IPv6 hex groups with at most one "::", with an
// optional /prefix. It is used only on strings that cedar-go itself printed.
func ParseIP(s string) (IPVal, bool) {
	var ip IPVal
	pfx := -1
	if i := strings.IndexByte(s, '/'); i >= 0 {
		p, err := strconv.Atoi(s[i+1:])
		if err != nil || p < 0 || !allDigits(s[i+1:]) {
			return ip, false
		}
		pfx = p
		s = s[:i]
	}
	if strings.Contains(s, ":") {
		ip.V6 = true
		var head, tail []string
		if i := strings.Index(s, "::"); i >= 0 {
			if s[:i] != "" {
				head = strings.Split(s[:i], ":")
			}
			if s[i+2:] != "" {
				tail = strings.Split(s[i+2:], ":")
			}
			if len(head)+len(tail) > 7 {
				return ip, false
			}
		} else {
			head = strings.Split(s, ":")
			if len(head) != 8 {
				return ip, false
			}
		}
		var g [8]uint16
		for i, h := range head {
			v, err := strconv.ParseUint(h, 16, 16)
			if err != nil || len(h) > 4 {
				return ip, false
			}
			g[i] = uint16(v)
		}
		for i, h := range tail {
			v, err := strconv.ParseUint(h, 16, 16)
			if err != nil || len(h) > 4 {
				return ip, false
			}
			g[8-len(tail)+i] = uint16(v)
		}
		ip.Hi = uint64(g[0])<<48 | uint64(g[1])<<32 | uint64(g[2])<<16 | uint64(g[3])
		ip.Lo = uint64(g[4])<<48 | uint64(g[5])<<32 | uint64(g[6])<<16 | uint64(g[7])
		if pfx < 0 {
			pfx = 128
		}
		if pfx > 128 {
			return ip, false
		}
	} else {
		parts := strings.Split(s, ".")
		if len(parts) != 4 {
			return ip, false
		}
		var a uint32
		for _, p := range parts {
			if !allDigits(p) || len(p) > 3 || (len(p) > 1 && p[0] == '0') {
				return ip, false
			}
			v, _ := strconv.Atoi(p)
			if v > 255 {
				return ip, false
			}
			a = a<<8 | uint32(v)
		}
		ip.Lo = uint64(a)
		if pfx < 0 {
			pfx = 32
		}
		if pfx > 32 {
			return ip, false
		}
	}
	ip.Prefix = pfx
	return ip, true
}

func (ip IPVal) bits() int {
	if ip.V6 {
		return 128
	}
	return 32
}

// masked returns the address with host bits cleared.
func (ip IPVal) masked() (hi, lo uint64) {
	hi, lo = ip.Hi, ip.Lo
	n := ip.Prefix
	if !ip.V6 {
		if n >= 32 {
			return
		}
		mask := uint64(0xFFFFFFFF) << (32 - n) & 0xFFFFFFFF
		return 0, lo & mask
	}
	switch {
	case n >= 128:
	case n > 64:
		lo &= ^uint64(0) << (128 - n)
	case n == 64:
		lo = 0
	case n > 0:
		lo = 0
		hi &= ^uint64(0) << (64 - n)
	default:
		hi, lo = 0, 0
	}
	return
}

func (ip IPVal) IsLoopback() bool {
	hi, lo := ip.masked()
	if ip.V6 {
		return hi == 0 && lo == 1
	}
	return lo>>24 == 127
}

func (ip IPVal) IsMulticast() bool {
	if ip.V6 {
		return ip.Prefix >= 8 && ip.Hi>>56 == 0xff
	}
	return ip.Prefix >= 4 && ip.Lo>>28 == 0xe
}

// InRange: the range of ip (its network .. broadcast) lies within the range of r.
func (ip IPVal) InRange(r IPVal) bool {
	if ip.V6 != r.V6 {
		return false
	}
	lo1, hi1 := ip.rangeBig()
	lo2, hi2 := r.rangeBig()
	return lo1.Cmp(lo2) >= 0 && hi1.Cmp(hi2) <= 0
}

func (ip IPVal) rangeBig() (*big.Int, *big.Int) {
	hi, lo := ip.masked()
	a := new(big.Int).SetUint64(hi)
	a.Lsh(a, 64)
	a.Or(a, new(big.Int).SetUint64(lo))
	span := new(big.Int).Lsh(big.NewInt(1), uint(ip.bits()-ip.Prefix))
	b := new(big.Int).Add(a, span)
	b.Sub(b, big.NewInt(1))
	return a, b
}
