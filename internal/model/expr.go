package model

import (
	"math/big"
	"sort"
)

type Op int

const (
	OLit Op = iota
	OVar
	OAnd
	OOr
	ONot
	ONeg
	OIf
	OAdd
	OSub
	OMul
	OEq
	ONe
	OLt
	OLe
	OGt
	OGe
	OIn
	OHas
	OAccess
	OHasTag
	OGetTag
	OLike
	OIs
	OIsIn
	OContains
	OContainsAll
	OContainsAny
	OIsEmpty
	OSet
	ORecord
	OExt
	NumOps
)

var OpNames = []string{"lit", "var", "&&", "||", "!", "neg", "if", "+", "-", "*", "==", "!=", "<", "<=", ">", ">=",
	"in", "has", ".", "hasTag", "getTag", "like", "is", "isIn", "contains", "containsAll", "containsAny", "isEmpty",
	"set", "record", "ext"}

func (o Op) String() string { return OpNames[o] }

// PatElem is one component of a like pattern: a wildcard or a literal piece.
type PatElem struct {
	Wild bool
	Lit  string
}

type Expr struct {
	Op   Op
	Args []*Expr
	V    Val       // OLit
	S    string    // OVar name; OHas/OAccess attribute; OIs/OIsIn entity type; OExt function name
	Pat  []PatElem // OLike
	Keys []string  // ORecord, parallel to Args (no duplicates)
}

func Lit(v Val) *Expr                 { return &Expr{Op: OLit, V: v} }
func Var(n string) *Expr              { return &Expr{Op: OVar, S: n} }
func Un(op Op, a *Expr) *Expr         { return &Expr{Op: op, Args: []*Expr{a}} }
func Bin(op Op, a, b *Expr) *Expr     { return &Expr{Op: op, Args: []*Expr{a, b}} }
func If(c, t, e *Expr) *Expr          { return &Expr{Op: OIf, Args: []*Expr{c, t, e}} }
func Has(a *Expr, k string) *Expr     { return &Expr{Op: OHas, Args: []*Expr{a}, S: k} }
func Access(a *Expr, k string) *Expr  { return &Expr{Op: OAccess, Args: []*Expr{a}, S: k} }
func Is(a *Expr, t string) *Expr      { return &Expr{Op: OIs, Args: []*Expr{a}, S: t} }
func IsIn(a *Expr, t string, b *Expr) *Expr {
	return &Expr{Op: OIsIn, Args: []*Expr{a, b}, S: t}
}
func Like(a *Expr, p []PatElem) *Expr { return &Expr{Op: OLike, Args: []*Expr{a}, Pat: p} }
func SetE(args ...*Expr) *Expr        { return &Expr{Op: OSet, Args: args} }
func RecE(keys []string, args []*Expr) *Expr {
	return &Expr{Op: ORecord, Keys: keys, Args: args}
}
func Ext(name string, args ...*Expr) *Expr { return &Expr{Op: OExt, S: name, Args: args} }

func (e *Expr) Size() int {
	n := 1
	for _, a := range e.Args {
		n += a.Size()
	}
	return n
}

func (e *Expr) Walk(fn func(*Expr)) {
	fn(e)
	for _, a := range e.Args {
		a.Walk(fn)
	}
}

type ErrClass int

const (
	ENone ErrClass = iota
	EType
	EOverflow
	EAttr
	ETag
	EEntity
	EExt
	EArity
	EUnknownFn
)

var ErrNames = []string{"none", "type", "overflow", "attr", "tag", "entity", "ext", "arity", "unknownfn"}

func (e ErrClass) String() string { return ErrNames[e] }

type Entity struct {
	UID     Val
	Parents []Val
	Attrs   Val // record
	Tags    Val // record
}

type Env struct {
	P, A, R Val
	Ctx     Val
	Store   map[string]*Entity // keyed by UID.Key()
}

func (env *Env) Lookup(uid Val) *Entity {
	if env.Store == nil {
		return nil
	}
	return env.Store[uid.Key()]
}

// SortedStore returns the entities in a deterministic order.
func (env *Env) SortedStore() []*Entity {
	keys := make([]string, 0, len(env.Store))
	for k := range env.Store {
		keys = append(keys, k)
	}
	sort.Strings(keys)
	out := make([]*Entity, len(keys))
	for i, k := range keys {
		out[i] = env.Store[k]
	}
	return out
}

// ExtArity lists the Cedar extension functions with their argument counts (including the
// receiver for method-style functions) and whether they are written in method style.
var ExtArity = map[string]struct {
	N      int
	Method bool
}{
	"ip": {1, false}, "decimal": {1, false}, "datetime": {1, false}, "duration": {1, false},
	"lessThan": {2, true}, "lessThanOrEqual": {2, true}, "greaterThan": {2, true}, "greaterThanOrEqual": {2, true},
	"isIpv4": {1, true}, "isIpv6": {1, true}, "isLoopback": {1, true}, "isMulticast": {1, true}, "isInRange": {2, true},
	"toDate": {1, true}, "toTime": {1, true}, "offset": {2, true}, "durationSince": {2, true},
	"toDays": {1, true}, "toHours": {1, true}, "toMinutes": {1, true}, "toSeconds": {1, true}, "toMilliseconds": {1, true},
}

// Reach reports whether target is reachable from start by zero or more parent links of
// entities present in the store.
func (env *Env) Reach(start, target Val) bool {
	tk := target.Key()
	seen := map[string]bool{}
	queue := []Val{start}
	seen[start.Key()] = true
	for len(queue) > 0 {
		cur := queue[0]
		queue = queue[1:]
		if cur.Key() == tk {
			return true
		}
		ent := env.Lookup(cur)
		if ent == nil {
			continue
		}
		for _, p := range ent.Parents {
			if !seen[p.Key()] {
				seen[p.Key()] = true
				queue = append(queue, p)
			}
		}
	}
	return false
}

func b2(v *big.Int) (Val, ErrClass) {
	if !fitsInt64(v) {
		return Val{}, EOverflow
	}
	return Long(v.Int64()), ENone
}

// Eval is the reference evaluator.
func Eval(e *Expr, env *Env) (Val, ErrClass) {
	switch e.Op {
	case OLit:
		return e.V, ENone
	case OVar:
		switch e.S {
		case "principal":
			return env.P, ENone
		case "action":
			return env.A, ENone
		case "resource":
			return env.R, ENone
		default:
			return env.Ctx, ENone
		}
	case OAnd, OOr:
		l, err := Eval(e.Args[0], env)
		if err != ENone {
			return Val{}, err
		}
		if l.K != KBool {
			return Val{}, EType
		}
		if (e.Op == OAnd && !l.B) || (e.Op == OOr && l.B) {
			return l, ENone
		}
		r, err := Eval(e.Args[1], env)
		if err != ENone {
			return Val{}, err
		}
		if r.K != KBool {
			return Val{}, EType
		}
		return r, ENone
	case ONot:
		a, err := Eval(e.Args[0], env)
		if err != ENone {
			return Val{}, err
		}
		if a.K != KBool {
			return Val{}, EType
		}
		return Bool(!a.B), ENone
	case ONeg:
		a, err := Eval(e.Args[0], env)
		if err != ENone {
			return Val{}, err
		}
		if a.K != KLong {
			return Val{}, EType
		}
		return b2(new(big.Int).Neg(big.NewInt(a.I)))
	case OIf:
		c, err := Eval(e.Args[0], env)
		if err != ENone {
			return Val{}, err
		}
		if c.K != KBool {
			return Val{}, EType
		}
		if c.B {
			return Eval(e.Args[1], env)
		}
		return Eval(e.Args[2], env)
	case OAdd, OSub, OMul:
		l, err := Eval(e.Args[0], env)
		if err != ENone {
			return Val{}, err
		}
		if l.K != KLong {
			return Val{}, EType
		}
		r, err := Eval(e.Args[1], env)
		if err != ENone {
			return Val{}, err
		}
		if r.K != KLong {
			return Val{}, EType
		}
		x, y := big.NewInt(l.I), big.NewInt(r.I)
		switch e.Op {
		case OAdd:
			return b2(x.Add(x, y))
		case OSub:
			return b2(x.Sub(x, y))
		default:
			return b2(x.Mul(x, y))
		}
	case OEq, ONe:
		l, err := Eval(e.Args[0], env)
		if err != ENone {
			return Val{}, err
		}
		r, err := Eval(e.Args[1], env)
		if err != ENone {
			return Val{}, err
		}
		return Bool(l.Equal(r) == (e.Op == OEq)), ENone
	case OLt, OLe, OGt, OGe:
		l, err := Eval(e.Args[0], env)
		if err != ENone {
			return Val{}, err
		}
		r, err := Eval(e.Args[1], env)
		if err != ENone {
			return Val{}, err
		}
		if (l.K != KLong && l.K != KDatetime && l.K != KDuration) || l.K != r.K {
			return Val{}, EType
		}
		switch e.Op {
		case OLt:
			return Bool(l.I < r.I), ENone
		case OLe:
			return Bool(l.I <= r.I), ENone
		case OGt:
			return Bool(l.I > r.I), ENone
		default:
			return Bool(l.I >= r.I), ENone
		}
	case OIn:
		l, err := Eval(e.Args[0], env)
		if err != ENone {
			return Val{}, err
		}
		if l.K != KEntity {
			return Val{}, EType
		}
		r, err := Eval(e.Args[1], env)
		if err != ENone {
			return Val{}, err
		}
		return inOp(env, l, r)
	case OIs:
		l, err := Eval(e.Args[0], env)
		if err != ENone {
			return Val{}, err
		}
		if l.K != KEntity {
			return Val{}, EType
		}
		return Bool(l.T == e.S), ENone
	case OIsIn:
		l, err := Eval(e.Args[0], env)
		if err != ENone {
			return Val{}, err
		}
		if l.K != KEntity {
			return Val{}, EType
		}
		if l.T != e.S {
			return Bool(false), ENone
		}
		r, err := Eval(e.Args[1], env)
		if err != ENone {
			return Val{}, err
		}
		return inOp(env, l, r)
	case OHas:
		a, err := Eval(e.Args[0], env)
		if err != ENone {
			return Val{}, err
		}
		switch a.K {
		case KRecord:
			_, ok := a.Get(e.S)
			return Bool(ok), ENone
		case KEntity:
			ent := env.Lookup(a)
			if ent == nil {
				return Bool(false), ENone
			}
			_, ok := ent.Attrs.Get(e.S)
			return Bool(ok), ENone
		}
		return Val{}, EType
	case OAccess:
		a, err := Eval(e.Args[0], env)
		if err != ENone {
			return Val{}, err
		}
		switch a.K {
		case KRecord:
			v, ok := a.Get(e.S)
			if !ok {
				return Val{}, EAttr
			}
			return v, ENone
		case KEntity:
			ent := env.Lookup(a)
			if ent == nil {
				return Val{}, EEntity
			}
			v, ok := ent.Attrs.Get(e.S)
			if !ok {
				return Val{}, EAttr
			}
			return v, ENone
		}
		return Val{}, EType
	case OHasTag, OGetTag:
		a, err := Eval(e.Args[0], env)
		if err != ENone {
			return Val{}, err
		}
		if a.K != KEntity {
			return Val{}, EType
		}
		t, err := Eval(e.Args[1], env)
		if err != ENone {
			return Val{}, err
		}
		if t.K != KString {
			return Val{}, EType
		}
		ent := env.Lookup(a)
		if e.Op == OHasTag {
			if ent == nil {
				return Bool(false), ENone
			}
			_, ok := ent.Tags.Get(t.S)
			return Bool(ok), ENone
		}
		if ent == nil {
			return Val{}, EEntity
		}
		v, ok := ent.Tags.Get(t.S)
		if !ok {
			return Val{}, ETag
		}
		return v, ENone
	case OLike:
		a, err := Eval(e.Args[0], env)
		if err != ENone {
			return Val{}, err
		}
		if a.K != KString {
			return Val{}, EType
		}
		return Bool(LikeMatch(e.Pat, a.S)), ENone
	case OContains:
		l, err := Eval(e.Args[0], env)
		if err != ENone {
			return Val{}, err
		}
		if l.K != KSet {
			return Val{}, EType
		}
		r, err := Eval(e.Args[1], env)
		if err != ENone {
			return Val{}, err
		}
		return Bool(l.Contains(r)), ENone
	case OContainsAll, OContainsAny:
		l, err := Eval(e.Args[0], env)
		if err != ENone {
			return Val{}, err
		}
		if l.K != KSet {
			return Val{}, EType
		}
		r, err := Eval(e.Args[1], env)
		if err != ENone {
			return Val{}, err
		}
		if r.K != KSet {
			return Val{}, EType
		}
		all, any := true, false
		for _, x := range r.Elems {
			if l.Contains(x) {
				any = true
			} else {
				all = false
			}
		}
		if e.Op == OContainsAll {
			return Bool(all), ENone
		}
		return Bool(any), ENone
	case OIsEmpty:
		a, err := Eval(e.Args[0], env)
		if err != ENone {
			return Val{}, err
		}
		if a.K != KSet {
			return Val{}, EType
		}
		return Bool(len(a.Elems) == 0), ENone
	case OSet:
		vals := make([]Val, 0, len(e.Args))
		for _, a := range e.Args {
			v, err := Eval(a, env)
			if err != ENone {
				return Val{}, err
			}
			vals = append(vals, v)
		}
		return Set(vals...), ENone
	case ORecord:
		vals := make([]Val, 0, len(e.Args))
		for _, a := range e.Args {
			v, err := Eval(a, env)
			if err != ENone {
				return Val{}, err
			}
			vals = append(vals, v)
		}
		return Record(e.Keys, vals), ENone
	case OExt:
		return evalExt(e, env)
	}
	panic("model: unknown op")
}

func inOp(env *Env, l, r Val) (Val, ErrClass) {
	switch r.K {
	case KEntity:
		return Bool(env.Reach(l, r)), ENone
	case KSet:
		for _, x := range r.Elems {
			if x.K != KEntity {
				return Val{}, EType
			}
		}
		for _, x := range r.Elems {
			if env.Reach(l, x) {
				return Bool(true), ENone
			}
		}
		return Bool(false), ENone
	}
	return Val{}, EType
}

func evalExt(e *Expr, env *Env) (Val, ErrClass) {
	info, ok := ExtArity[e.S]
	if !ok {
		return Val{}, EUnknownFn
	}
	if info.N != len(e.Args) {
		return Val{}, EArity
	}
	args := make([]Val, len(e.Args))
	want := func(i int, k Kind) ErrClass {
		v, err := Eval(e.Args[i], env)
		if err != ENone {
			return err
		}
		if v.K != k {
			return EType
		}
		args[i] = v
		return ENone
	}
	switch e.S {
	case "decimal", "ip", "datetime", "duration":
		if err := want(0, KString); err != ENone {
			return Val{}, err
		}
		s := args[0].S
		switch e.S {
		case "decimal":
			v, ok := ParseDecimal(s)
			if !ok {
				return Val{}, EExt
			}
			return Decimal(v), ENone
		case "duration":
			v, ok := ParseDuration(s)
			if !ok {
				return Val{}, EExt
			}
			return Duration(v), ENone
		case "datetime":
			v, _, ok := ParseDatetime(s)
			if !ok {
				return Val{}, EExt
			}
			return Datetime(v), ENone
		default:
			v, ok := ParseIP(s)
			if !ok {
				return Val{}, EExt
			}
			return IP(v), ENone
		}
	case "lessThan", "lessThanOrEqual", "greaterThan", "greaterThanOrEqual":
		if err := want(0, KDecimal); err != ENone {
			return Val{}, err
		}
		if err := want(1, KDecimal); err != ENone {
			return Val{}, err
		}
		a, b := args[0].I, args[1].I
		switch e.S {
		case "lessThan":
			return Bool(a < b), ENone
		case "lessThanOrEqual":
			return Bool(a <= b), ENone
		case "greaterThan":
			return Bool(a > b), ENone
		default:
			return Bool(a >= b), ENone
		}
	case "isIpv4", "isIpv6", "isLoopback", "isMulticast":
		if err := want(0, KIP); err != ENone {
			return Val{}, err
		}
		ip := args[0].IP
		switch e.S {
		case "isIpv4":
			return Bool(!ip.V6), ENone
		case "isIpv6":
			return Bool(ip.V6), ENone
		case "isLoopback":
			return Bool(ip.IsLoopback()), ENone
		default:
			return Bool(ip.IsMulticast()), ENone
		}
	case "isInRange":
		if err := want(0, KIP); err != ENone {
			return Val{}, err
		}
		if err := want(1, KIP); err != ENone {
			return Val{}, err
		}
		return Bool(args[0].IP.InRange(args[1].IP)), ENone
	case "toDate", "toTime":
		if err := want(0, KDatetime); err != ENone {
			return Val{}, err
		}
		day, rem := floorDivMod(args[0].I, 86400000)
		if e.S == "toTime" {
			return Duration(rem), ENone
		}
		x := new(big.Int).Mul(big.NewInt(day), big.NewInt(86400000))
		if !fitsInt64(x) {
			return Val{}, EOverflow
		}
		return Datetime(x.Int64()), ENone
	case "offset":
		if err := want(0, KDatetime); err != ENone {
			return Val{}, err
		}
		if err := want(1, KDuration); err != ENone {
			return Val{}, err
		}
		x := new(big.Int).Add(big.NewInt(args[0].I), big.NewInt(args[1].I))
		if !fitsInt64(x) {
			return Val{}, EOverflow
		}
		return Datetime(x.Int64()), ENone
	case "durationSince":
		if err := want(0, KDatetime); err != ENone {
			return Val{}, err
		}
		if err := want(1, KDatetime); err != ENone {
			return Val{}, err
		}
		x := new(big.Int).Sub(big.NewInt(args[0].I), big.NewInt(args[1].I))
		if !fitsInt64(x) {
			return Val{}, EOverflow
		}
		return Duration(x.Int64()), ENone
	case "toDays", "toHours", "toMinutes", "toSeconds", "toMilliseconds":
		if err := want(0, KDuration); err != ENone {
			return Val{}, err
		}
		div := map[string]int64{"toDays": 86400000, "toHours": 3600000, "toMinutes": 60000, "toSeconds": 1000, "toMilliseconds": 1}[e.S]
		q := new(big.Int).Quo(big.NewInt(args[0].I), big.NewInt(div)) // truncates toward zero
		return Long(q.Int64()), ENone
	}
	return Val{}, EUnknownFn
}

// LikeMatch is an independent dynamic-programming glob matcher over Unicode code points.
func LikeMatch(pat []PatElem, s string) bool {
	type tok struct {
		wild bool
		r    rune
	}
	var toks []tok
	for _, p := range pat {
		if p.Wild {
			toks = append(toks, tok{wild: true})
		}
		for _, r := range p.Lit {
			toks = append(toks, tok{r: r})
		}
	}
	rs := []rune(s)
	// dp[j] = pattern prefix matches rs[:j]
	dp := make([]bool, len(rs)+1)
	dp[0] = true
	for _, t := range toks {
		nd := make([]bool, len(rs)+1)
		if t.wild {
			seen := false
			for j := 0; j <= len(rs); j++ {
				if dp[j] {
					seen = true
				}
				nd[j] = seen
			}
		} else {
			for j := 1; j <= len(rs); j++ {
				nd[j] = dp[j-1] && rs[j-1] == t.r
			}
		}
		dp = nd
	}
	return dp[len(rs)]
}
