// Package model is the harness's independent reference semantics for Cedar: its own value
// representation, evaluator, scalar parsers/printers and decision table. Nothing in this
// package calls cedar-go.
package model

import (
	"fmt"
	"math/big"
	"sort"
	"strconv"
	"strings"
)

type Kind int

const (
	KBool Kind = iota
	KLong
	KString
	KEntity
	KSet
	KRecord
	KDecimal
	KIP
	KDatetime
	KDuration
)

var KindNames = []string{"bool", "long", "string", "entity", "set", "record", "decimal", "ip", "datetime", "duration"}

func (k Kind) String() string { return KindNames[k] }

// IPVal is an address with prefix: V6 selects the family, Hi/Lo hold the 128-bit address
// (IPv4 addresses live in the low 32 bits of Lo).
type IPVal struct {
	V6     bool
	Hi, Lo uint64
	Prefix int
}

type Val struct {
	K     Kind
	B     bool
	I     int64 // long; decimal in 1/10000; datetime and duration in milliseconds
	S     string
	T, ID string // entity type and id
	Elems []Val  // set: sorted by Key, no duplicates
	Keys  []string
	Vals  []Val // record: parallel to Keys, sorted by key
	IP    IPVal
}

func Bool(b bool) Val        { return Val{K: KBool, B: b} }
func Long(i int64) Val       { return Val{K: KLong, I: i} }
func Str(s string) Val       { return Val{K: KString, S: s} }
func Ent(t, id string) Val   { return Val{K: KEntity, T: t, ID: id} }
func Decimal(i int64) Val    { return Val{K: KDecimal, I: i} }
func Datetime(ms int64) Val  { return Val{K: KDatetime, I: ms} }
func Duration(ms int64) Val  { return Val{K: KDuration, I: ms} }
func IP(ip IPVal) Val        { return Val{K: KIP, IP: ip} }
func IP4(a uint32, p int) Val { return Val{K: KIP, IP: IPVal{Lo: uint64(a), Prefix: p}} }

// Set canonicalises: duplicates (by structural equality) removed, members sorted by Key.
func Set(elems ...Val) Val {
	m := map[string]Val{}
	for _, e := range elems {
		m[e.Key()] = e
	}
	keys := make([]string, 0, len(m))
	for k := range m {
		keys = append(keys, k)
	}
	sort.Strings(keys)
	out := make([]Val, len(keys))
	for i, k := range keys {
		out[i] = m[k]
	}
	return Val{K: KSet, Elems: out}
}

// Record builds a record; later duplicates of a key win.
func Record(keys []string, vals []Val) Val {
	m := map[string]Val{}
	for i, k := range keys {
		m[k] = vals[i]
	}
	ks := make([]string, 0, len(m))
	for k := range m {
		ks = append(ks, k)
	}
	sort.Strings(ks)
	vs := make([]Val, len(ks))
	for i, k := range ks {
		vs[i] = m[k]
	}
	return Val{K: KRecord, Keys: ks, Vals: vs}
}

func Rec(kv ...any) Val {
	var ks []string
	var vs []Val
	for i := 0; i+1 < len(kv); i += 2 {
		ks = append(ks, kv[i].(string))
		vs = append(vs, kv[i+1].(Val))
	}
	return Record(ks, vs)
}

func (v Val) Get(k string) (Val, bool) {
	i := sort.SearchStrings(v.Keys, k)
	if i < len(v.Keys) && v.Keys[i] == k {
		return v.Vals[i], true
	}
	return Val{}, false
}

func (v Val) Contains(x Val) bool {
	k := x.Key()
	for _, e := range v.Elems {
		if e.Key() == k {
			return true
		}
	}
	return false
}

// Key is a canonical, injective encoding: two values are Cedar-equal iff their keys are equal.
func (v Val) Key() string {
	var b strings.Builder
	v.key(&b)
	return b.String()
}

func (v Val) key(b *strings.Builder) {
	switch v.K {
	case KBool:
		if v.B {
			b.WriteString("b1")
		} else {
			b.WriteString("b0")
		}
	case KLong:
		b.WriteString("l")
		b.WriteString(strconv.FormatInt(v.I, 10))
		b.WriteByte(';')
	case KString:
		b.WriteString("s")
		b.WriteString(strconv.Itoa(len(v.S)))
		b.WriteByte(':')
		b.WriteString(v.S)
	case KEntity:
		b.WriteString("e")
		b.WriteString(strconv.Itoa(len(v.T)))
		b.WriteByte(':')
		b.WriteString(v.T)
		b.WriteString(strconv.Itoa(len(v.ID)))
		b.WriteByte(':')
		b.WriteString(v.ID)
	case KSet:
		b.WriteString("S")
		b.WriteString(strconv.Itoa(len(v.Elems)))
		b.WriteByte('[')
		for _, e := range v.Elems {
			e.key(b)
			b.WriteByte(',')
		}
		b.WriteByte(']')
	case KRecord:
		b.WriteString("R")
		b.WriteString(strconv.Itoa(len(v.Keys)))
		b.WriteByte('{')
		for i, k := range v.Keys {
			b.WriteString(strconv.Itoa(len(k)))
			b.WriteByte(':')
			b.WriteString(k)
			b.WriteByte('=')
			v.Vals[i].key(b)
			b.WriteByte(',')
		}
		b.WriteByte('}')
	case KDecimal:
		b.WriteString("d")
		b.WriteString(strconv.FormatInt(v.I, 10))
		b.WriteByte(';')
	case KDatetime:
		b.WriteString("t")
		b.WriteString(strconv.FormatInt(v.I, 10))
		b.WriteByte(';')
	case KDuration:
		b.WriteString("u")
		b.WriteString(strconv.FormatInt(v.I, 10))
		b.WriteByte(';')
	case KIP:
		fmt.Fprintf(b, "i%v/%x.%x/%d;", v.IP.V6, v.IP.Hi, v.IP.Lo, v.IP.Prefix)
	}
}

func (v Val) Equal(o Val) bool { return v.Key() == o.Key() }

// String renders the value in Cedar syntax with the model's own printers (debug/witness use
// and the independent text renderer share these).
func (v Val) String() string {
	switch v.K {
	case KBool:
		if v.B {
			return "true"
		}
		return "false"
	case KLong:
		return strconv.FormatInt(v.I, 10)
	case KString:
		return QuoteString(v.S)
	case KEntity:
		return v.T + "::" + QuoteString(v.ID)
	case KSet:
		parts := make([]string, len(v.Elems))
		for i, e := range v.Elems {
			parts[i] = e.String()
		}
		return "[" + strings.Join(parts, ", ") + "]"
	case KRecord:
		parts := make([]string, len(v.Keys))
		for i, k := range v.Keys {
			parts[i] = QuoteString(k) + ": " + v.Vals[i].String()
		}
		return "{" + strings.Join(parts, ", ") + "}"
	case KDecimal:
		return `decimal("` + PrintDecimal(v.I) + `")`
	case KDatetime:
		return `datetime("` + PrintDatetime(v.I) + `")`
	case KDuration:
		return `duration("` + PrintDuration(v.I) + `")`
	case KIP:
		return `ip("` + PrintIP(v.IP) + `")`
	}
	return "?"
}

// QuoteString renders a Cedar string literal using only escapes that every Cedar lexer
// accepts: \n \r \t \\ \0 \" and \u{..} for everything that is not printable ASCII.
func QuoteString(s string) string {
	var b strings.Builder
	b.WriteByte('"')
	for _, r := range s {
		switch {
		case r == '\n':
			b.WriteString(`\n`)
		case r == '\r':
			b.WriteString(`\r`)
		case r == '\t':
			b.WriteString(`\t`)
		case r == '\\':
			b.WriteString(`\\`)
		case r == 0:
			b.WriteString(`\0`)
		case r == '"':
			b.WriteString(`\"`)
		case r >= 0x20 && r < 0x7f:
			b.WriteRune(r)
		default:
			fmt.Fprintf(&b, `\u{%x}`, r)
		}
	}
	b.WriteByte('"')
	return b.String()
}

var (
	bigMin = big.NewInt(-1 << 63)
	bigMax = new(big.Int).SetUint64(1<<63 - 1)
)

func fitsInt64(x *big.Int) bool { return x.Cmp(bigMin) >= 0 && x.Cmp(bigMax) <= 0 }
