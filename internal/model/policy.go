package model

import "sort"

type ScopeKind int

const (
	ScAll ScopeKind = iota
	ScEq
	ScIn
	ScInSet // action only
	ScIs    // principal/resource only
	ScIsIn  // principal/resource only
)

type Scope struct {
	Kind ScopeKind
	Type string
	Ent  Val
	Ents []Val
}

type Cond struct {
	When bool
	Body *Expr
}

type Annot struct{ Key, Val string }

type Policy struct {
	Permit bool
	Annots []Annot
	P, A, R Scope
	Conds  []Cond
}

// ScopeExpr lowers a scope clause to the expression the Cedar spec defines it as.
func ScopeExpr(v string, s Scope) *Expr {
	switch s.Kind {
	case ScEq:
		return Bin(OEq, Var(v), Lit(s.Ent))
	case ScIn:
		return Bin(OIn, Var(v), Lit(s.Ent))
	case ScInSet:
		return Bin(OIn, Var(v), Lit(Set(s.Ents...)))
	case ScIs:
		return Is(Var(v), s.Type)
	case ScIsIn:
		return IsIn(Var(v), s.Type, Lit(s.Ent))
	}
	return Lit(Bool(true))
}

// Outcome of one policy on one request.
type Outcome int

const (
	Unsat Outcome = iota
	Sat
	Erroring
)

func (o Outcome) String() string { return []string{"unsat", "sat", "err"}[o] }

// PolicyOutcome evaluates scope then conditions in order, per the Cedar spec: a policy is
// satisfied iff all scope clauses hold, every when is true and every unless is false; an
// error (including a non-boolean condition) makes it erroring.
func PolicyOutcome(p *Policy, env *Env) (Outcome, ErrClass) {
	for _, se := range []*Expr{ScopeExpr("principal", p.P), ScopeExpr("action", p.A), ScopeExpr("resource", p.R)} {
		v, err := Eval(se, env)
		if err != ENone {
			return Erroring, err
		}
		if !v.B {
			return Unsat, ENone
		}
	}
	for _, c := range p.Conds {
		v, err := Eval(c.Body, env)
		if err != ENone {
			return Erroring, err
		}
		if v.K != KBool {
			return Erroring, EType
		}
		if v.B != c.When {
			return Unsat, ENone
		}
	}
	return Sat, ENone
}

// Decide implements the Cedar decision table.
func Decide(ids []string, permit []bool, outs []Outcome) (allow bool, reasons, errs []string) {
	var sp, sf []string
	for i, id := range ids {
		switch outs[i] {
		case Erroring:
			errs = append(errs, id)
		case Sat:
			if permit[i] {
				sp = append(sp, id)
			} else {
				sf = append(sf, id)
			}
		}
	}
	sort.Strings(errs)
	if len(sf) > 0 {
		sort.Strings(sf)
		return false, sf, errs
	}
	sort.Strings(sp)
	return len(sp) > 0, sp, errs
}
