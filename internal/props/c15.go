package props

// C15 - validated policies cannot fail with type errors.
//
// Events: validator.Policy verdicts (strict and permissive) of the real validator, and for
// every accepted policy the error class of evaluating it with the real evaluator
// (x/exp/eval.Eval on eval.PolicyToNode) under schema-conforming requests and stores.
// Oracle: after acceptance the classes type / unknownfn / arity / attr / tag (and any
// unclassified error or panic) are forbidden; overflow, absent entity and extension
// run-time errors are allowed.

import (
	"fmt"
	"runtime/debug"
	"sort"
	"strings"

	"github.com/cedar-policy/cedar-go/types"
	"github.com/cedar-policy/cedar-go/x/exp/ast"
	"github.com/cedar-policy/cedar-go/x/exp/eval"
	"github.com/cedar-policy/cedar-go/x/exp/schema"
	"github.com/cedar-policy/cedar-go/x/exp/schema/resolved"
	"github.com/cedar-policy/cedar-go/x/exp/schema/validate"

	"verif/internal/bridge"
	"verif/internal/model"
	"verif/internal/mon"
	"verif/internal/render"
)

func init() { Registry["C15"] = C15 }

type c15built struct {
	sc     *c15Schema
	rs     *resolved.Schema
	strict *validate.Validator
	perm   *validate.Validator
	text   string
}

func c15Build(sc *c15Schema) (b *c15built, err error) {
	defer func() {
		if r := recover(); r != nil {
			err = fmt.Errorf("panic in schema resolution at %s: %v", mon.PanicSite(debug.Stack()), r)
		}
	}()
	rs, err := schema.NewSchemaFromAST(sc.toAST()).Resolve()
	if err != nil {
		return nil, err
	}
	return &c15built{sc: sc, rs: rs, strict: validate.New(rs, validate.WithStrict()), perm: validate.New(rs, validate.WithPermissive()), text: sc.String()}, nil
}

// c15Validate returns (accepted, error text, panic site).
func c15Validate(v *validate.Validator, p *ast.Policy) (ok bool, msg string, site string) {
	defer func() {
		if r := recover(); r != nil {
			ok, msg, site = false, fmt.Sprint(r), mon.PanicSite(debug.Stack())
		}
	}()
	if err := v.Policy("policy0", p); err != nil {
		return false, err.Error(), ""
	}
	return true, "", ""
}

func c15EvalPolicy(ap *ast.Policy, env *model.Env) Got {
	g := &bridge.Getter{M: bridge.ToEntityMap(env), Budget: 100000}
	cenv := bridge.ToEvalEnv(env, g)
	return safeEval(func() (types.Value, error) { return eval.Eval(eval.PolicyToNode(ap).AsIsNode(), cenv) })
}

// c15Forbidden classifies an observation: "" = allowed (value, overflow, entity, ext).
func c15Forbidden(g Got) string {
	switch {
	case g.Panic != "":
		return "panic@" + g.Site
	case g.BadVal != "":
		return "badvalue"
	case !g.IsErr:
		return ""
	}
	switch g.Class {
	case "overflow", "entity", "ext":
		return ""
	}
	return g.Class
}

// ---- blame: the sub-term whose evaluation raises the error, by the reference evaluator

type c15blame struct {
	cond    int
	node    *model.Expr
	anc     []*model.Expr // ancestors, outermost first
	err     model.ErrClass
	nonbool bool // node evaluates to a non-boolean value in a position that requires a boolean
}

// c15NonBool descends from a term that yields a non-boolean into the branch producing the value.
func c15NonBool(e *model.Expr, env *model.Env, anc []*model.Expr) (*model.Expr, []*model.Expr) {
	down := append(append([]*model.Expr{}, anc...), e)
	switch e.Op {
	case model.OIf:
		if c, er := model.Eval(e.Args[0], env); er == model.ENone && c.K == model.KBool {
			if c.B {
				return c15NonBool(e.Args[1], env, down)
			}
			return c15NonBool(e.Args[2], env, down)
		}
	}
	return e, anc
}

func c15BlameExpr(e *model.Expr, env *model.Env, anc []*model.Expr) (*model.Expr, []*model.Expr, bool) {
	errs := func(x *model.Expr) bool { _, er := model.Eval(x, env); return er != model.ENone }
	if !errs(e) {
		return nil, nil, false
	}
	down := append(append([]*model.Expr{}, anc...), e)
	switch e.Op {
	case model.OAnd, model.OOr, model.OIf:
		c, cerr := model.Eval(e.Args[0], env)
		if cerr != model.ENone {
			return c15BlameExpr(e.Args[0], env, down)
		}
		if c.K != model.KBool {
			n, a := c15NonBool(e.Args[0], env, down)
			return n, a, true
		}
		var next *model.Expr
		switch {
		case e.Op == model.OIf && c.B:
			next = e.Args[1]
		case e.Op == model.OIf:
			next = e.Args[2]
		default:
			next = e.Args[1]
		}
		if errs(next) {
			return c15BlameExpr(next, env, down)
		}
		// And/Or whose right operand is a non-boolean value
		n, a := c15NonBool(next, env, down)
		return n, a, true
	}
	for _, a := range e.Args {
		if errs(a) {
			return c15BlameExpr(a, env, down)
		}
	}
	return e, anc, false
}

// c15PathTo returns the ancestors of node inside root (outermost first), nil if absent.
func c15PathTo(root, node *model.Expr) []*model.Expr {
	if root == node {
		return []*model.Expr{}
	}
	for _, a := range root.Args {
		if p := c15PathTo(a, node); p != nil {
			return append([]*model.Expr{root}, p...)
		}
	}
	return nil
}

func c15Blame(pol *model.Policy, env *model.Env) *c15blame {
	for i, c := range pol.Conds {
		v, er := model.Eval(c.Body, env)
		if er != model.ENone {
			n, anc, nb := c15BlameExpr(c.Body, env, nil)
			return &c15blame{cond: i, node: n, anc: anc, err: er, nonbool: nb}
		}
		if v.K != model.KBool {
			n, anc := c15NonBool(c.Body, env, nil)
			return &c15blame{cond: i, node: n, anc: anc, err: model.EType, nonbool: true}
		}
		if v.B != c.When {
			return nil
		}
	}
	return nil
}

func c15OpNorm(e *model.Expr) string {
	switch e.Op {
	case model.OLt, model.OLe, model.OGt, model.OGe:
		return "cmp"
	case model.OAdd, model.OSub, model.OMul:
		return "arith"
	case model.OEq, model.ONe:
		return "eq"
	case model.OExt:
		if _, ok := model.ExtArity[e.S]; !ok {
			return fmt.Sprintf("ext:<unknown function, %d args>", len(e.Args))
		}
		if model.ExtArity[e.S].N != len(e.Args) {
			return "ext:<known function, wrong arity>"
		}
		return "ext:" + e.S
	}
	return e.Op.String()
}

func c15Kinds(e *model.Expr, env *model.Env) string {
	var ks []string
	for _, a := range e.Args {
		v, er := model.Eval(a, env)
		if er != model.ENone {
			ks = append(ks, "err")
		} else {
			ks = append(ks, v.K.String())
		}
	}
	switch e.Op {
	case model.OLt, model.OLe, model.OGt, model.OGe:
		cmpk := map[string]bool{"long": true, "datetime": true, "duration": true}
		if len(ks) == 2 && cmpk[ks[0]] && cmpk[ks[1]] && ks[0] != ks[1] {
			return "two different kinds among long/datetime/duration"
		}
		sort.Strings(ks)
	case model.OEq, model.ONe:
		sort.Strings(ks)
	}
	return strings.Join(ks, ",")
}

// ---- shrinking

// c15Shrink greedily reduces the policy while test stays true (drop conditions, widen scopes,
// hoist a sub-term to be the whole condition, replace a sub-term by a child / by its reference
// value as a literal / by a set or record with one element less).
func c15Shrink(pol *model.Policy, env *model.Env, test func(*model.Policy) bool) *model.Policy {
	cur := c15ClonePolicy(pol)
	budget := 800
	try := func(c *model.Policy) bool {
		if budget <= 0 {
			return false
		}
		budget--
		if test(c) {
			cur = c
			return true
		}
		return false
	}
	for changed := true; changed && budget > 0; {
		changed = false
		// drop conditions
		for i := 0; len(cur.Conds) > 1 && i < len(cur.Conds); i++ {
			c := c15ClonePolicy(cur)
			c.Conds = append(c.Conds[:i], c.Conds[i+1:]...)
			if try(c) {
				changed = true
				i--
			}
		}
		// widen scopes
		for k := 0; k < 3; k++ {
			c := c15ClonePolicy(cur)
			sc := []*model.Scope{&c.P, &c.A, &c.R}[k]
			if sc.Kind == model.ScAll {
				continue
			}
			*sc = model.Scope{Kind: model.ScAll}
			if try(c) {
				changed = true
			}
		}
		// hoist: the whole condition body replaced by one of its sub-terms (as is, or wrapped
		// into `[t].isEmpty()` when it is not a boolean), smallest first
		for ci := range cur.Conds {
			subs := subterms(cur.Conds[ci].Body)[1:]
			sort.SliceStable(subs, func(i, j int) bool { return subs[i].Size() < subs[j].Size() })
			hoisted := false
			for _, t := range subs {
				if t.Op == model.OLit || t.Op == model.OVar {
					continue
				}
				for _, wrapIt := range []bool{false, true} {
					c := c15ClonePolicy(cur)
					nb := c15Clone(t)
					if wrapIt {
						nb = model.Un(model.OIsEmpty, model.SetE(nb))
						if nb.Size() >= cur.Conds[ci].Body.Size() {
							continue
						}
					}
					c.Conds[ci].Body = nb
					if try(c) {
						changed, hoisted = true, true
						break
					}
				}
				if hoisted {
					break
				}
			}
		}
		// sub-term replacements: by a child, by its reference value as a literal, or (sets and
		// records) with one element removed
	conds:
		for ci := range cur.Conds {
			n := len(subterms(cur.Conds[ci].Body))
			for si := 0; si < n; si++ {
				t := subterms(cur.Conds[ci].Body)[si]
				var repl []*model.Expr
				for _, a := range t.Args {
					repl = append(repl, a)
				}
				if t.Op != model.OLit {
					if v, er := model.Eval(t, env); er == model.ENone {
						switch v.K {
						case model.KBool, model.KLong, model.KString, model.KEntity:
							repl = append(repl, model.Lit(v))
						}
					}
				}
				if (t.Op == model.OSet || t.Op == model.ORecord) && len(t.Args) > 1 {
					for k := range t.Args {
						d := c15Clone(t)
						d.Args = append(d.Args[:k:k], d.Args[k+1:]...)
						if t.Op == model.ORecord {
							d.Keys = append(d.Keys[:k:k], d.Keys[k+1:]...)
						}
						repl = append(repl, d)
					}
				}
				for _, rp := range repl {
					c := c15ClonePolicy(cur)
					*subterms(c.Conds[ci].Body)[si] = *c15Clone(rp)
					if try(c) {
						changed = true
						continue conds
					}
				}
			}
		}
	}
	return cur
}

// ---- one policy under test

type c15run struct {
	w    *mon.W
	b    *c15built
	cat  string
	nSt  int
	nReq int
}

func c15PolicyOps(p *model.Policy) []string {
	seen := map[string]bool{}
	for _, c := range p.Conds {
		c.Body.Walk(func(x *model.Expr) {
			if x.Op != model.OLit && x.Op != model.OVar {
				seen[c15OpNorm(x)] = true
			}
		})
	}
	return sortedKeys(seen)
}

func c15ShortReason(s string) string {
	if i := strings.IndexByte(s, '`'); i > 0 {
		s = s[:i]
	}
	if len(s) > 70 {
		s = s[:70]
	}
	return strings.TrimSpace(s)
}

// check validates the policy in both modes and, if accepted by at least one, evaluates it on
// conforming data. Returns whether it was accepted and whether a condition was reached.
func (cr *c15run) check(cp *c15policy, r *mon.Rand) {
	w, b := cr.w, cr.b
	ap := bridge.ToPolicy(cp.pol)
	accS, _, siteS := c15Validate(b.strict, ap)
	accP, _, siteP := c15Validate(b.perm, ap)
	if siteS != "" || siteP != "" {
		w.Inconclusive("validator panicked (C16 territory) at " + strings.TrimSpace(siteS+" "+siteP))
		return
	}
	kind := cp.kind
	if i := strings.IndexByte(kind, ':'); i > 0 && cr.cat == "random" {
		w.Count(cr.cat + " " + kind)
		kind = kind[:i]
	}
	w.Count(fmt.Sprintf("%s %s: strict=%v permissive=%v", cr.cat, kind, accS, accP))
	if accS && !accP {
		w.Count("stat: accepted by strict but rejected by permissive")
	}
	if !accS && !accP {
		return
	}
	for _, op := range c15PolicyOps(cp.pol) {
		w.Count("accepted policy uses " + op)
	}
	primary, pname := b.strict, "strict"
	if !accS {
		primary, pname = b.perm, "permissive"
	}
	d := &dataGen{r: r, sc: b.sc}
	envs := []penv{cp.env}
	if cp.pol.P.Kind == model.ScAll || cp.pol.R.Kind == model.ScAll || cp.pol.A.Kind != model.ScEq {
		for _, e := range b.sc.envs() {
			if e.P != cp.env.P || e.A != cp.env.A || e.R != cp.env.R {
				envs = append(envs, e)
			}
		}
	}
	reached := false
	evals := 0
	for s := 0; s < cr.nSt; s++ {
		st := d.store()
		em := bridge.ToEntityMap(&model.Env{Store: st})
		if err := b.strict.Entities(em); err != nil {
			w.Inconclusive("validator.Entities rejects a by-construction store: " + c15ShortReason(err.Error()))
			continue
		}
		for q := 0; q < cr.nReq; q++ {
			pe := envs[0]
			if q > 0 && len(envs) > 1 && q%2 == 1 {
				pe = envs[1+r.Intn(len(envs)-1)]
			}
			env := d.request(pe, st, cp.hintP, cp.hintR)
			if err := b.strict.Request(bridge.ToRequest(env)); err != nil {
				w.Inconclusive("validator.Request rejects a by-construction request: " + c15ShortReason(err.Error()))
				continue
			}
			got := c15EvalPolicy(ap, env)
			evals++
			out, mcls := model.PolicyOutcome(cp.pol, env)
			if !(out == model.Unsat && c15ScopeFalse(cp.pol, env)) {
				reached = true
			}
			switch {
			case got.IsErr:
				w.Count("eval outcome: error " + got.Class)
			case got.Panic != "":
				w.Count("eval outcome: panic")
			default:
				w.Count("eval outcome: value")
			}
			bad := c15Forbidden(got)
			if bad == "" {
				if out == model.Erroring && (mcls == model.EType || mcls == model.EAttr || mcls == model.ETag || mcls == model.EArity || mcls == model.EUnknownFn) && !got.IsErr {
					w.Count("stat: reference evaluator reports " + mcls.String() + " where cedar-go returns a value (C01 territory)")
				}
				continue
			}
			w.Evals(evals)
			cr.report(cp, ap, env, got, bad, primary, pname)
			w.NonTrivial(b.text + "|" + render.CanonPolicy(cp.pol))
			return
		}
	}
	w.Evals(evals)
	if reached {
		w.NonTrivial(b.text + "|" + render.CanonPolicy(cp.pol))
		w.Count(cr.cat + " accepted and conditions reached")
	}
	if w.Index%499 == 0 {
		w.Sample(cr.cat+" accepted "+kind, map[string]any{"schema": b.text, "policy": render.CanonPolicy(cp.pol), "strict": accS, "permissive": accP, "evaluations": evals})
	}
}

func c15ScopeFalse(p *model.Policy, env *model.Env) bool {
	for _, se := range []*model.Expr{model.ScopeExpr("principal", p.P), model.ScopeExpr("action", p.A), model.ScopeExpr("resource", p.R)} {
		v, err := model.Eval(se, env)
		if err != model.ENone || !v.B {
			return true
		}
	}
	return false
}

// report shrinks the failing case, attributes it and raises the violation.
func (cr *c15run) report(cp *c15policy, ap *ast.Policy, env *model.Env, got Got, bad string, primary *validate.Validator, pname string) {
	b := cr.b
	test := func(p *model.Policy) bool {
		a := bridge.ToPolicy(p)
		ok, _, site := c15Validate(primary, a)
		if !ok || site != "" {
			return false
		}
		return c15Forbidden(c15EvalPolicy(a, env)) == bad
	}
	min := c15Shrink(cp.pol, env, test)
	amin := bridge.ToPolicy(min)
	minS, _, _ := c15Validate(b.strict, amin)
	minP, _, _ := c15Validate(b.perm, amin)
	modes := "strict+permissive"
	switch {
	case minS && !minP:
		modes = "strict-only"
	case !minS && minP:
		modes = "permissive-only"
	}
	gmin := c15EvalPolicy(amin, env)
	sig := ""
	blamedText := ""
	bl := c15Blame(min, env)
	switch {
	case strings.HasPrefix(bad, "panic@") || bad == "badvalue":
		sig = "accepted policy: evaluation " + bad
	case bl == nil || bl.err.String() != bad:
		mc := "none"
		if bl != nil {
			mc = bl.err.String()
		}
		sig = fmt.Sprintf("accepted policy fails with %s error; reference evaluator says %s (evaluator disagreement)", bad, mc)
	default:
		blamedText = render.Canon(bl.node)
		desc := c15OpNorm(bl.node) + "(" + c15Kinds(bl.node, env) + ")"
		if bl.nonbool {
			desc = "non-boolean value in a boolean position"
		}
		// Is the failing sub-term's position type-checked at all? Replace it by a closed
		// ill-typed term: if the validator still accepts, the position is skipped (the
		// validator gave a guard an unsound singleton type); otherwise the sub-term itself
		// was typed as safe (directly, or by trusting a guard).
		body := min.Conds[bl.cond].Body
		isSkipped := func(node *model.Expr) bool {
			idx := -1
			for i, t := range subterms(body) {
				if t == node {
					idx = i
				}
			}
			if idx < 0 {
				return false
			}
			// three independent ill-typed terms, so that one broken typing rule cannot
			// make the position look skipped
			for _, ill := range []*model.Expr{
				model.Bin(model.OAdd, model.Lit(model.Long(1)), model.Lit(model.Str("s"))),
				model.Un(model.ONot, model.Lit(model.Long(1))),
				model.Like(model.Lit(model.Long(1)), []model.PatElem{{Wild: true}}),
			} {
				probe := c15ClonePolicy(min)
				*subterms(probe.Conds[bl.cond].Body)[idx] = *ill
				if ok, _, _ := c15Validate(primary, bridge.ToPolicy(probe)); !ok {
					return false
				}
			}
			return true
		}
		// candidate positions: the branches actually taken by if-expressions inside the failing
		// term (a value of the wrong kind or shape may come out of a branch the validator
		// never looked at), then the failing term itself
		type pos struct {
			node *model.Expr
			anc  []*model.Expr
		}
		var cands []pos
		for _, f := range subterms(bl.node) {
			if f.Op == model.OIf {
				if n, _ := c15NonBool(f, env, nil); n != f {
					cands = append(cands, pos{n, c15PathTo(body, n)})
				}
			}
		}
		cands = append(cands, pos{bl.node, bl.anc})
		visited := true
		at := cands[len(cands)-1]
		for _, cnd := range cands {
			if isSkipped(cnd.node) {
				visited, at = false, cnd
				break
			}
		}
		// nearest control ancestor whose guard (first operand) precedes the failing sub-term
		guard := "none"
		child := at.node
		for i := len(at.anc) - 1; i >= 0; i-- {
			a := at.anc[i]
			if (a.Op == model.OAnd || a.Op == model.OOr || a.Op == model.OIf) && a.Args[0] != child {
				g := a.Args[0]
				for g.Op == model.ONot {
					g = g.Args[0]
				}
				guard = c15OpNorm(g) + "(" + c15Kinds(g, env) + ")"
				break
			}
			child = a
		}
		// a guard in another when/unless clause: does the failing clause alone get rejected?
		if visited && guard == "none" && len(min.Conds) > 1 {
			alone := c15ClonePolicy(min)
			alone.Conds = []model.Cond{alone.Conds[bl.cond]}
			if ok, _, _ := c15Validate(primary, bridge.ToPolicy(alone)); !ok {
				var parts []string
				for i, cnd := range min.Conds {
					if i == bl.cond {
						continue
					}
					kw := "unless"
					if cnd.When {
						kw = "when"
					}
					g := cnd.Body
					neg := ""
					for g.Op == model.ONot {
						g = g.Args[0]
						neg = "!"
					}
					rel := "earlier"
					if i > bl.cond {
						rel = "later"
					}
					parts = append(parts, fmt.Sprintf("%s %s{%s%s(%s)}", rel, kw, neg, c15OpNorm(g), c15Kinds(g, env)))
				}
				guard = "in another clause: " + strings.Join(parts, " ")
			}
		}
		switch {
		case !visited:
			sig = fmt.Sprintf("accepted[%s] failing sub-term is not type-checked; guard %s got an unsound singleton type", modes, guard)
		case bad == "attr" || bad == "tag":
			sig = fmt.Sprintf("accepted[%s] %s: %s trusted after guard %s", modes, bad, desc, guard)
		default:
			sig = fmt.Sprintf("accepted[%s] %s: %s is typed as safe", modes, bad, desc)
		}
	}
	what := fmt.Sprintf("validator (%s) accepts `%s` but evaluation fails: %s", pname, render.CanonPolicy(min), gmin.String())
	wit := map[string]any{
		"schema": b.text, "policy": render.CanonPolicy(cp.pol), "policy_kind": cp.kind, "minimal_policy": render.CanonPolicy(min),
		"minimal_accepted_strict": minS, "minimal_accepted_permissive": minP, "failing_subterm": blamedText,
		"cedar_go_evaluation": got.String(), "minimal_policy_evaluation": gmin.String(), "env": envWitness(env),
	}
	cr.w.Violation(sig, what, wit)
}

// ---- the fixed operator x attribute-type table and the directed probes

func c15TableSchema() *c15Schema {
	u := &c15Entity{Name: "U", Parents: []string{"G"}, Tags: scalarT(tLong)}
	u.Shape = sortAttrs([]sAttr{
		{Name: "b", T: scalarT(tBool)}, {Name: "l", T: scalarT(tLong)}, {Name: "s", T: scalarT(tString)},
		{Name: "e", T: entT("U")}, {Name: "g", T: entT("G")}, {Name: "sl", T: setT(scalarT(tLong))}, {Name: "se", T: setT(entT("U"))},
		{Name: "r", T: recT(sAttr{Name: "x", T: scalarT(tLong)})}, {Name: "dec", T: scalarT(tDecimal)}, {Name: "ip", T: scalarT(tIP)},
		{Name: "dt", T: scalarT(tDatetime)}, {Name: "dur", T: scalarT(tDuration)}, {Name: "ol", T: scalarT(tLong), Opt: true},
	})
	ctx := sortAttrs([]sAttr{{Name: "l", T: scalarT(tLong)}, {Name: "dt", T: scalarT(tDatetime)}, {Name: "ol", T: scalarT(tLong), Opt: true}})
	return &c15Schema{Ents: []*c15Entity{u, {Name: "G"}},
		Acts: []*sAction{{ID: "view", Applies: true, Principals: []string{"U"}, Resources: []string{"U"}, Ctx: ctx}}}
}

func c15HostileSchema() *c15Schema {
	c := recT(sAttr{Name: "c", T: scalarT(tLong), Opt: true})
	u := &c15Entity{Name: "U", Tags: scalarT(tLong)}
	u.Shape = sortAttrs([]sAttr{
		{Name: "__tag:k", T: scalarT(tLong), Opt: true}, {Name: "a.b", T: c}, {Name: "a", T: recT(sAttr{Name: "b", T: c})},
		{Name: "o", T: scalarT(tLong), Opt: true}, {Name: "flag", T: scalarT(tBool)},
	})
	return &c15Schema{Ents: []*c15Entity{u},
		Acts: []*sAction{{ID: "view", Applies: true, Principals: []string{"U"}, Resources: []string{"U"}}}}
}

type c15tcase struct {
	sc   int // 0 table schema, 1 hostile schema
	body *model.Expr
	kind string
}

func c15Table() []c15tcase {
	var out []c15tcase
	wrap := func(e *model.Expr) *model.Expr { return model.Un(model.OIsEmpty, model.SetE(e)) }
	attrs := []string{"b", "l", "s", "e", "g", "sl", "se", "r", "dec", "ip", "dt", "dur"}
	P := func(a string) *model.Expr { return model.Access(model.Var("principal"), a) }
	R := func(a string) *model.Expr { return model.Access(model.Var("resource"), a) }
	add := func(kind string, e *model.Expr) { out = append(out, c15tcase{0, wrap(e), kind}) }
	binOps := []model.Op{model.OAnd, model.OOr, model.OAdd, model.OSub, model.OMul, model.OEq, model.ONe, model.OLt, model.OLe, model.OGt, model.OGe,
		model.OIn, model.OHasTag, model.OGetTag, model.OContains, model.OContainsAll, model.OContainsAny}
	ext2 := []string{"lessThan", "lessThanOrEqual", "greaterThan", "greaterThanOrEqual", "isInRange", "offset", "durationSince"}
	ext1 := []string{"decimal", "ip", "datetime", "duration", "isIpv4", "isIpv6", "isLoopback", "isMulticast", "toDate", "toTime", "toDays", "toHours", "toMinutes", "toSeconds", "toMilliseconds"}
	for _, x := range attrs {
		for _, y := range attrs {
			for _, op := range binOps {
				add("binary", model.Bin(op, P(x), R(y)))
			}
			for _, fn := range ext2 {
				add("ext2", model.Ext(fn, P(x), R(y)))
				add("arity", model.Ext(fn, P(x), R(y), R(y)))
			}
			for _, fn := range ext1 {
				add("arity", model.Ext(fn, P(x), R(y)))
			}
			add("isIn", model.IsIn(P(x), "U", R(y)))
			add("if", model.If(P(x), R(y), R(y)))
			add("if", model.If(P("b"), P(x), R(y)))
			add("set", model.SetE(P(x), R(y)))
		}
		for _, op := range []model.Op{model.ONot, model.ONeg, model.OIsEmpty} {
			add("unary", model.Un(op, P(x)))
		}
		for _, fn := range ext1 {
			add("ext1", model.Ext(fn, P(x)))
			add("arity", model.Ext(fn))
			add("arity", model.Ext(fn, P(x), P(x), P(x)))
		}
		for _, fn := range ext2 {
			add("arity", model.Ext(fn, P(x)))
			add("arity", model.Ext(fn))
		}
		add("like", model.Like(P(x), []model.PatElem{{Wild: true}}))
		add("is", model.Is(P(x), "U"))
		add("has", model.Has(P(x), "x"))
		add("access", model.Access(P(x), "x"))
		add("unknownfn", model.Ext("nosuchfn", P(x)))
		add("tag-guarded", model.Bin(model.OAnd, model.Bin(model.OHasTag, model.Var("principal"), model.Lit(model.Str("k"))),
			wrap(model.Bin(model.OAdd, model.Bin(model.OGetTag, model.Var("principal"), model.Lit(model.Str("k"))), P(x)))))
		add("optional-guarded", model.Bin(model.OAnd, model.Has(model.Var("principal"), "ol"),
			wrap(model.Bin(model.OLt, P("ol"), P(x)))))
	}
	// directed probes (hostile attribute names, unknown zero-argument functions, guard shapes)
	L := func(v model.Val) *model.Expr { return model.Lit(v) }
	pv := model.Var("principal")
	one := L(model.Long(1))
	nf := func() *model.Expr { return model.Ext("nosuchfn") }
	ill := func() *model.Expr { return model.Un(model.ONot, L(model.Long(1))) }
	recIf := func() *model.Expr {
		return model.If(P("flag"), model.RecE([]string{"a"}, []*model.Expr{one}), model.RecE([]string{"a"}, []*model.Expr{L(model.Str("s"))}))
	}
	dir := []*model.Expr{
		model.Bin(model.OAnd, model.Has(pv, "__tag:k"), model.Bin(model.OEq, model.Bin(model.OGetTag, pv, L(model.Str("k"))), one)),
		model.Bin(model.OAnd, model.Bin(model.OHasTag, pv, L(model.Str("k"))), model.Bin(model.OEq, P("__tag:k"), one)),
		model.Bin(model.OAnd, model.Has(P("a.b"), "c"), model.Bin(model.OEq, model.Access(model.Access(P("a"), "b"), "c"), one)),
		model.Bin(model.OAnd, model.Has(model.Access(P("a"), "b"), "c"), model.Bin(model.OEq, model.Access(P("a.b"), "c"), one)),
		nf(), model.Bin(model.OEq, nf(), nf()), model.Un(model.OIsEmpty, model.SetE(nf())), model.If(nf(), L(model.Bool(true)), L(model.Bool(false))),
		model.Has(model.RecE([]string{"a"}, []*model.Expr{nf()}), "a"), model.Bin(model.OAnd, P("flag"), nf()),
		model.Bin(model.OAnd, model.Has(pv, "o"), model.Bin(model.OEq, P("o"), one)),
		model.Bin(model.OOr, model.Has(pv, "o"), model.Bin(model.OEq, P("o"), one)),
		model.Bin(model.OAnd, model.Un(model.ONot, model.Has(pv, "o")), model.Bin(model.OEq, P("o"), one)),
		model.If(model.Has(pv, "o"), L(model.Bool(true)), model.Bin(model.OEq, P("o"), one)),
		model.Bin(model.OOr, model.Bin(model.OAnd, model.Has(pv, "o"), P("flag")), model.Bin(model.OEq, P("o"), one)),
		model.Bin(model.OAnd, model.Bin(model.OOr, model.Has(pv, "o"), P("flag")), model.Bin(model.OEq, P("o"), one)),
		model.Bin(model.OAnd, model.Has(model.Var("resource"), "o"), model.Bin(model.OEq, P("o"), one)),
		model.Bin(model.OOr, model.Un(model.ONot, model.Has(recIf(), "a")), ill()),
		model.Bin(model.OOr, model.Has(recIf(), "a"), ill()),
		model.Bin(model.OOr, model.Un(model.ONot, model.Has(model.If(P("flag"), model.RecE([]string{"a"}, []*model.Expr{one}), model.RecE([]string{"b"}, []*model.Expr{one})), "a")), ill()),
		model.Bin(model.OOr, model.Bin(model.OIn, pv, model.Var("resource")), ill()),
		model.Bin(model.OOr, model.Un(model.ONot, model.Bin(model.OIn, pv, model.Var("resource"))), ill()),
		model.Bin(model.OOr, model.Bin(model.OEq, pv, model.Var("resource")), ill()),
		model.Bin(model.OOr, model.Bin(model.OIn, model.Var("action"), L(model.Ent("Action", "view"))), ill()),
		model.Bin(model.OAnd, model.Bin(model.OIn, model.Var("action"), L(model.Ent("Action", "view"))), ill()),
		model.Bin(model.OOr, model.Is(pv, "U"), ill()),
		model.Bin(model.OAnd, model.Is(pv, "U"), ill()),
	}
	for _, e := range dir {
		out = append(out, c15tcase{1, e, "directed"})
	}
	return out
}

// ---------------------------------------------------------------------------------------

func C15(c *mon.Ctx) {
	c.Rule = "case = (schema, policy); the real validator (strict and permissive) decides acceptance; every accepted policy is evaluated with the real evaluator " +
		"(x/exp/eval.Eval on eval.PolicyToNode) on (store, request) pairs built by construction from the harness's own schema model (16 per policy in 'random', 64 in 'table': every declared entity type, " +
		"optional attributes present and absent, tags present and absent, parents per declared hierarchy, entity references to present and absent entities, requests from the environment the policy was " +
		"generated for and from the other environments its scope admits); the error class (verifhooks.ErrorClass) must not be type/unknownfn/arity/attr/tag/other and evaluation must not panic. " +
		"Streams: 'table' = fixed schema with one attribute per value type x every operator / extension function (every argument count 0..3) x every operand-type pair, plus directed guard-shape, " +
		"hostile-attribute-name, unknown-function and singleton-type probes (enumerated completely); 'random' = generated schemas (2-4 entity types, optional enum type, one namespaced type, all attribute " +
		"types, optional attributes, record-type and shape variants, tags, action groups) x policies from a type-directed generator incl. has/hasTag guard patterns and if-expressions over operands needing a " +
		"least upper bound (35%), single-step type/guard-breaking mutants (retype a sub-term, drop/swap/negate/weaken a guard, other attribute or tag key, other variable, other comparable kind in a " +
		"comparison, non-long arithmetic operand, unknown function, wrong arity; 30%), singleton-type probes `E || ILL`, `!E && ILL`, `if E then ILL ..` with a closed ill-typed ILL and an E the validator may fold to " +
		"True/False, incl. comparisons against if-built unions of 2-3 entity types (20%), a has/hasTag guard buried in a random && || ! if combination with dynamic and statically True/False operands followed by the " +
		"guarded use (8%), guard and guarded use split over 2-3 when/unless clauses in either order (7%); 'shapes' = directed, completely enumerated family over a fixed schema: (union) == != in contains containsAny is " +
		"`is..in` has hasTag between a union of 2-3 entity types (all 36 ordered selections of 4 type names, both operand positions) and an entity of each resource type, guarding an unsafe or ill-typed tail in 6 polarities; " +
		"(capleak) every && || ! if combination of depth <= 2 (and ifs with a guard-next-to-static operand in each position) over {guard, other guard, dynamic bool, static False (7 forms), static True (6 forms)} containing the guard, " +
		"x 3 guard kinds (optional entity attribute, tag, optional context attribute) x 4 ways of using the capability; (clauses) 7 guard forms x 3 guard kinds x all when/unless combinations x both orders x an optional neutral " +
		"third clause in every position (quick tier: every 4th 'union' case, the residue rotating with the seed; everything else in full); 'corpus' = cedar-go's own corpus-tests archive (Rust-fuzzer schemas, policies, entities, requests; independent of the seed; every 4th case in the quick tier). " +
		"A failing case is shrunk (validator still accepts, same error class) before its signature is built. " +
		"distinct_nontrivial = distinct (schema, policy) pairs accepted by at least one mode for which at least one evaluation got past the policy scope (corpus: accepted policies evaluated on >=1 conforming request)."
	c.Assume = []string{
		"conforming data are defined by the harness's own reading of the Cedar schema semantics (closed records, exact entity types, declared direct parent types, tags only where declared, " +
			"every schema action present in the store with exactly the transitive closure of its declared parents - the Cedar validation-soundness theorem's InstanceOfActionSchema condition); they are additionally " +
			"checked with validator.Entities / validator.Request and a disagreement is counted as inconclusive, not as a violation",
		"entity-type memberOf graphs are acyclic (no `entity G in [G]`): a cyclic type hierarchy sends Validator.isEntityDescendant into unbounded recursion (fatal stack overflow, C16 finding), which would kill the monitor process",
		"policies contain only literals expressible in Cedar text (bool, long, string, entity; sets/records/extension values via set/record/constructor nodes): other NodeValue payloads panic in the validator (C16 finding)",
		"unknown-function and wrong-arity calls are reachable only through programmatically built ASTs (both parsers reject them); they are included because the property names them",
		"error classes are taken from the evaluator's own sentinels (verifhooks.ErrorClass); the reference evaluator is used only to localise and label a failure, never to decide it",
		"corpus stream: a case is used only if the harness's own conformance checker (closed records, exact entity/enum types, parents within the transitive memberOf closure, action entities = schema closure; " +
			"absent action entities are added from the schema as the Rust loader does) and validator.Entities/Request agree that store and request conform; schemas with a cyclic entity-type hierarchy are skipped",
		"a validator panic on a generated policy is counted as inconclusive (it is C16's subject), not as a C15 violation",
	}
	c.Floor = 3000

	// ---- table
	table := c15Table()
	c.Extra["table_cases"] = len(table)
	tb, err0 := c15Build(c15TableSchema())
	hb, err1 := c15Build(c15HostileSchema())
	if err0 != nil || err1 != nil {
		c.Inconclusive(fmt.Sprintf("fixed schemas do not resolve: %v %v", err0, err1))
	} else {
		c.ParFor("table", len(table), func(w *mon.W, i int) {
			tc := table[i]
			b := tb
			if tc.sc == 1 {
				b = hb
			}
			pol := &model.Policy{Permit: true, P: model.Scope{Kind: model.ScIs, Type: "U"}, A: model.Scope{Kind: model.ScEq, Ent: model.Ent("Action", "view")},
				R: model.Scope{Kind: model.ScAll}, Conds: []model.Cond{{When: true, Body: tc.body}}}
			cr := &c15run{w: w, b: b, cat: "table", nSt: 16, nReq: 4}
			cr.check(&c15policy{pol: pol, env: b.sc.envs()[0], kind: tc.kind}, w.Rand())
		})
	}

	// ---- shapes (directed, enumerated completely; the quick tier thins out only the highly
	// redundant 'union' family: every 4th case, the residue rotating with the seed)
	shapes := c15Shapes()
	var pick []int
	nUnion := 0
	for j, sh := range shapes {
		if sh.kind == "union" {
			nUnion++
			if !c.Thorough() && uint64(nUnion)%4 != c.Seed%4 {
				continue
			}
		}
		pick = append(pick, j)
	}
	c.Extra["shape_cases_total"] = len(shapes)
	c.Extra["shape_cases_run"] = len(pick)
	if sb, err := c15Build(c15ShapesSchema()); err != nil {
		c.Inconclusive("shapes schema does not resolve: " + c15ShortReason(err.Error()))
	} else {
		c.ParFor("shapes", len(pick), func(w *mon.W, i int) {
			sh := shapes[pick[i]]
			hint := model.Ent(sh.rtype, "a")
			cr := &c15run{w: w, b: sb, cat: "shapes", nSt: 8, nReq: 4}
			cr.check(&c15policy{pol: c15ShapePolicy(sh), env: c15ShapeEnv(sb.sc, sh.rtype), hintR: &hint, kind: sh.kind}, w.Rand())
		})
	}

	// ---- random
	n := c.N(24000, 900000)
	depth := 3
	if c.Thorough() {
		depth = 4
	}
	c.ParFor("random", n, func(w *mon.W, i int) {
		r := w.Rand()
		sc := c15GenSchema(w.RandSub("schema"))
		b, err := c15Build(sc)
		if err != nil {
			w.Inconclusive("generated schema does not resolve: " + c15ShortReason(err.Error()))
			return
		}
		envs := sc.envs()
		if len(envs) == 0 {
			return
		}
		g := newXG(r, sc, mon.Pick(r, envs))
		cp := g.policy(depth)
		cr := &c15run{w: w, b: b, cat: "random", nSt: 4, nReq: 4}
		cr.check(cp, w.RandSub("data"))
	})

	c15NearMiss(c)

	c15Corpus(c)
}

func evalPolicyNode(ap *ast.Policy, rq types.Request, g types.EntityGetter) (types.Value, error) {
	return eval.Eval(eval.PolicyToNode(ap).AsIsNode(), eval.Env{Entities: g, Principal: rq.Principal, Action: rq.Action, Resource: rq.Resource, Context: rq.Context})
}
