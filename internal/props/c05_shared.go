package props

import (
	"context"
	"fmt"
	"sort"

	cedar "github.com/cedar-policy/cedar-go"
	pubast "github.com/cedar-policy/cedar-go/ast"
	"github.com/cedar-policy/cedar-go/types"
	"github.com/cedar-policy/cedar-go/x/exp/batch"

	"verif/internal/mon"
)

// Additional C05 stream: POLICIES THAT SHARE CALLER-OWNED SLICES. Programmatically built policies
// are commonly derived from one list (tiered roles: ActionInSet(actions[:1]...), actions[:2], ...),
// so their `in [...]` lists are different-length prefixes of one backing array. Every other stream
// builds each policy from fresh slices. Anything that identifies a list by where it starts (a
// memo keyed on the first element's address) confuses the tiers - only on the batch / partial
// evaluation path. Oracle unchanged: one callback per substitution, equal to cedar.Authorize.
func init() {
	orig := Registry["C05"]
	Registry["C05"] = func(c *mon.Ctx) {
		orig(c)
		c.Rule += " Stream shared-slices: tiered policies whose action / entity lists are prefixes (and suffixes) of one caller-owned slice, in several evaluation orders."
		c05shared(c)
	}
}

func c05shared(c *mon.Ctx) {
	c.ParFor("shared-slices", c.N(40, 400), func(w *mon.W, i int) {
		r := w.Rand()
		n := 3 + r.Intn(5)
		act := func(k int) types.EntityUID { return types.NewEntityUID("Action", types.String(fmt.Sprintf("a%d", k))) }
		actions := make([]types.EntityUID, n)
		groups := make([]types.Value, n)
		for k := range actions {
			actions[k] = act(k)
			groups[k] = types.NewEntityUID("G", types.String(fmt.Sprintf("g%d", k)))
		}
		ps := cedar.NewPolicySet()
		order := r.Perm(n)
		for _, k := range order {
			var p *pubast.Policy
			switch r.Intn(3) {
			case 0:
				p = pubast.Permit().ActionInSet(actions[:k+1]...)
			case 1:
				p = pubast.Permit().ActionInSet(actions[k:]...)
			default:
				p = pubast.Permit().ActionInSet(actions[:k+1]...).When(pubast.Principal().In(pubast.Set(pubast.Value(groups[k%len(groups)]))))
			}
			p = p.When(pubast.Context().Access("tier").Equal(pubast.Long(int64(k))))
			ps.Add(cedar.PolicyID(fmt.Sprintf("tier%d", k)), cedar.NewPolicyFromAST(p))
		}
		P := types.NewEntityUID("U", "u")
		ents := types.EntityMap{P: types.Entity{UID: P, Parents: types.NewEntityUIDSet(types.NewEntityUID("G", "g0"), types.NewEntityUID("G", "g2"))}}
		var avals, tvals []types.Value
		for k := 0; k <= n; k++ {
			avals = append(avals, act(k))
			tvals = append(tvals, types.Long(k))
		}
		render := func(dec cedar.Decision, d cedar.Diagnostic) string {
			var rs []string
			for _, x := range d.Reasons {
				rs = append(rs, string(x.PolicyID))
			}
			sort.Strings(rs)
			return fmt.Sprintf("%v %v errors=%d", dec, rs, len(d.Errors))
		}
		tctx := types.NewRecord(types.RecordMap{"tier": batch.Variable("t")})
		got := map[string][]string{}
		berr := batch.Authorize(context.Background(), ps, ents, batch.Request{Principal: P, Action: batch.Variable("a"), Resource: P, Context: tctx,
			Variables: batch.Variables{"a": avals, "t": tvals}}, func(res batch.Result) error {
			k := res.Values["a"].String() + "/" + res.Values["t"].String()
			got[k] = append(got[k], render(res.Decision, res.Diagnostic))
			return nil
		})
		w.Evals(len(avals) * len(tvals))
		w.Count(fmt.Sprintf("shared-slices: %d tiers", n))
		w.NonTrivial(fmt.Sprint("shared", i, order))
		wit := map[string]any{"tiers": n, "construction_order": fmt.Sprint(order)}
		if berr != nil {
			w.Violation("batch.Authorize returns an error on a valid template [shared slices]", berr.Error(), wit)
			return
		}
		for _, a := range avals {
			for _, t := range tvals {
				k := a.String() + "/" + t.String()
				dec, diag := cedar.Authorize(ps, ents, cedar.Request{Principal: P, Action: a.(types.EntityUID), Resource: P, Context: types.NewRecord(types.RecordMap{"tier": t})})
				want := render(dec, diag)
				g := got[k]
				if len(g) != 1 {
					w.Violation("callback count differs from the Cartesian product [shared slices]", fmt.Sprintf("substitution %s: %d callbacks", k, len(g)), wit)
					return
				}
				if g[0] != want {
					w.Violation("decision / reasons differ from cedar.Authorize [policies built from prefixes of one slice]", fmt.Sprintf("substitution %s: batch %s, cedar.Authorize %s", k, g[0], want), wit)
					return
				}
			}
		}
	})
}
