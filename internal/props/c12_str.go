package props

import (
	"fmt"
	"strings"

	"github.com/cedar-policy/cedar-go/types"

	"verif/internal/bridge"
	"verif/internal/gen"
	"verif/internal/model"
	"verif/internal/mon"
)

// stringCase checks one string in all the places a string has a Cedar text form: String value,
// entity id, record key.
func (k *c12) stringCase(w *mon.W, s string) {
	w.Evals(1)
	cls := c12StrClass(s)
	k.safe(w, "string", s, func() {
		// (1) printers emit a valid literal of exactly s (independent decoder)
		lit := string(types.String(s).MarshalCedar())
		if dec, ok, bad := c12StrDecode(lit); !ok {
			w.Violation("string:MarshalCedar emits an invalid string literal ("+bad+")", fmt.Sprintf("String(%q).MarshalCedar() = %s", s, lit), map[string]any{"string": s, "text": lit})
		} else if dec != s {
			w.Violation("string:MarshalCedar literal denotes a different string ("+cls+")", fmt.Sprintf("String(%q).MarshalCedar() = %s denotes %q", s, lit, dec), map[string]any{"string": s, "text": lit, "denotes": dec})
		}
		if types.String(s).String() != s {
			w.Violation("string:String() != contents", fmt.Sprintf("String(%q).String() = %q", s, types.String(s).String()), map[string]any{"string": s})
		}
		uid := types.NewEntityUID("NS::T", types.String(s))
		ut := uid.String()
		if string(uid.MarshalCedar()) != ut {
			w.Violation("entityuid:MarshalCedar != String()", fmt.Sprintf("%q vs %q", uid.MarshalCedar(), ut), map[string]any{"id": s})
		}
		if !strings.HasPrefix(ut, `NS::T::"`) {
			w.Violation("entityuid:String() malformed", fmt.Sprintf("EntityUID(NS::T, %q).String() = %s", s, ut), map[string]any{"id": s, "text": ut})
		} else if dec, ok, bad := c12StrDecode(ut[7:]); !ok {
			w.Violation("entityuid:MarshalCedar emits an invalid string literal ("+bad+")", fmt.Sprintf("EntityUID(NS::T, %q).String() = %s", s, ut), map[string]any{"id": s, "text": ut})
		} else if dec != s {
			w.Violation("entityuid:MarshalCedar literal denotes a different string ("+cls+")", fmt.Sprintf("EntityUID(NS::T, %q).String() = %s denotes id %q", s, ut, dec), map[string]any{"id": s, "text": ut, "denotes": dec})
		}
		// (2) EntityUID.UnmarshalCedar(MarshalCedar(uid)) == uid
		var back types.EntityUID
		if err := back.UnmarshalCedar(uid.MarshalCedar()); err != nil {
			if _, ok, _ := c12StrDecode(ut[min(7, len(ut)):]); ok {
				w.Violation("parse:valid string literal containing "+cls+" not read back (parse-error)", fmt.Sprintf("EntityUID.UnmarshalCedar(%s): %v", ut, err), map[string]any{"id": s, "text": ut, "error": err.Error(), "site": "EntityUID.UnmarshalCedar"})
			}
		} else if back != uid {
			w.Violation("entityuid:UnmarshalCedar(MarshalCedar(v)) wrong value ("+cls+")", fmt.Sprintf("UnmarshalCedar(%s) = %s/%q", ut, back.Type, back.ID), map[string]any{"id": s, "text": ut, "got_type": string(back.Type), "got_id": string(back.ID)})
		}
		// (3) the renderings parse and evaluate to equal values (one policy for all three places)
		all := model.Set(model.Str(s), model.Ent("NS::T", s), model.Rec(s, model.Long(1)))
		w.Count("string class " + cls)
		if !k.renderCheck(w, all) {
			return
		}
	})
}

// uidLiteral checks the strictness of EntityUID.UnmarshalCedar on one token-tight candidate text.
func (k *c12) uidLiteral(w *mon.W, s string) {
	w.Evals(1)
	k.safe(w, "EntityUID.UnmarshalCedar", s, func() {
		var got types.EntityUID
		err := got.UnmarshalCedar([]byte(s))
		// reference reading: Path "::" STR where the split is at the first `::"`
		i := strings.Index(s, `::"`)
		typeOK := false
		if i > 0 {
			typeOK = true
			for _, part := range strings.Split(s[:i], "::") {
				if !c12IsIdent(part) {
					typeOK = false
				}
			}
		}
		if !typeOK {
			if err == nil {
				w.Count("entityuid literal: malformed type part accepted (not asserted: the type is documented as unvalidated)")
			} else {
				w.Count("entityuid literal: malformed type part rejected")
			}
			return
		}
		id, ok, bad := c12StrDecode(s[i+2:])
		switch {
		case ok && err != nil:
			w.Violation("parse:valid string literal containing "+c12StrClass(id)+" not read back (parse-error)", fmt.Sprintf("EntityUID.UnmarshalCedar(%s): %v", s, err), map[string]any{"text": s, "error": err.Error(), "site": "EntityUID.UnmarshalCedar"})
		case ok && (string(got.Type) != s[:i] || string(got.ID) != id):
			w.Violation("entityuid:UnmarshalCedar wrong value", fmt.Sprintf("UnmarshalCedar(%s) = %s / %q, want %s / %q", s, got.Type, got.ID, s[:i], id), map[string]any{"text": s, "got_type": string(got.Type), "got_id": string(got.ID), "want_id": id})
		case !ok && err == nil:
			w.Violation("entityuid:UnmarshalCedar accepts a malformed id literal ("+bad+")", fmt.Sprintf("UnmarshalCedar(%s) = %s / %q although the id is not a well-formed Cedar string literal (%s)", s, got.Type, got.ID, bad),
				map[string]any{"text": s, "got_type": string(got.Type), "got_id": string(got.ID), "malformed": bad})
		case ok:
			w.Count("entityuid literal: both accept")
		default:
			w.Count("entityuid literal: both reject (" + bad + ")")
		}
	})
}

func c12IsIdent(s string) bool {
	if s == "" {
		return false
	}
	for i := 0; i < len(s); i++ {
		c := s[i]
		if c == '_' || (c >= 'a' && c <= 'z') || (c >= 'A' && c <= 'Z') || (i > 0 && c >= '0' && c <= '9') {
			continue
		}
		return false
	}
	return true
}

func (k *c12) stringStreams() {
	c := k.c
	// the shared string universe, alone and concatenated
	c.ParFor("string/universe", len(gen.Strings)*len(gen.Strings), func(w *mon.W, i int) {
		a, b := gen.Strings[i/len(gen.Strings)], gen.Strings[i%len(gen.Strings)]
		s := a + b
		if i/len(gen.Strings) == i%len(gen.Strings) {
			s = a
		}
		k.reg(w, s, false)
		k.stringCase(w, s)
		if i%501 == 0 {
			w.Sample("string", map[string]any{"string": s, "marshal": string(types.String(s).MarshalCedar())})
		}
	})
	// every Unicode scalar value, at the first and at a non-first position
	var scalars []rune
	for r := rune(0); r <= 0x10ffff; r++ {
		if r >= 0xd800 && r <= 0xdfff {
			continue
		}
		if c.Thorough() || r < 0x3000 || (int(r)+int(c.Seed%13))%13 == 0 || (r >= 0xfff0 && r <= 0x1000f) || r >= 0x10fff0 || (r >= 0xe0000 && r < 0xe0200) {
			scalars = append(scalars, r)
		}
	}
	c.Extra["unicode/scalars_checked"] = len(scalars)
	if c.Thorough() {
		c.Extra["unicode/all_scalar_values"] = true
	}
	c.ParFor("unicode", len(scalars), func(w *mon.W, i int) {
		ch := string(scalars[i])
		k.reg(w, ch, false)
		w.Count("unicode scalar (" + c12RuneClass(scalars[i]) + ")")
		k.stringCase(w, ch)
		k.stringCase(w, "a"+ch)
	})
	// random nested values through MarshalCedar -> parser -> evaluator
	c.ParFor("nested", c.N(40000, 1500000), func(w *mon.W, i int) {
		r := w.Rand()
		v := gen.RandVal(r, 3)
		if r.P(0.5) {
			v = gen.RandValOf(r, mon.Pick(r, []model.Kind{model.KSet, model.KRecord}), 3)
		}
		w.Evals(1)
		k.reg(w, v.Key(), false)
		w.Count("nested value " + feature(v))
		k.safe(w, "nested", v.String(), func() {
			cv := string(bridge.ToValue(v).MarshalCedar())
			if sv := bridge.ToValue(v).String(); (v.K == model.KSet || v.K == model.KRecord) && sv != cv {
				w.Violation(v.K.String()+":String() != MarshalCedar()", fmt.Sprintf("%q vs %q", sv, cv), map[string]any{"value": v.String()})
			}
			k.renderCheck(w, v)
		})
		if i%4999 == 0 {
			w.Sample("nested", map[string]any{"value": v.String(), "cedar_go_text": string(bridge.ToValue(v).MarshalCedar())})
		}
	})
	// EntityUID.UnmarshalCedar strictness on token-tight candidates
	uidAlpha := []string{"a", "A", "1", "_", ":", "\"", "\\", "n", "u", "{", "}", "x", "0", "7", "f", "*", "'", "é"}
	uidBases := []string{`T::"a"`, `NS::T::"a b"`, `T::""`, `T::"\""`, `T::"\\"`, `T::"\n"`, `T::"\u{1F600}"`, `T::"\x41"`, `T::"a\0b"`, `T::"\'"`, `A::B::C::"x::\"y"`}
	k.ed1("entityuid", uidBases, uidAlpha, k.uidLiteral)
	c.ParFor("entityuid/literals", c.N(40000, 1000000), func(w *mon.W, i int) {
		r := w.Rand()
		id := gen.RandString(r)
		s := mon.Pick(r, gen.EntityTypes) + "::" + model.QuoteString(id)
		if r.P(0.4) {
			s = string(types.NewEntityUID(types.EntityType(mon.Pick(r, gen.EntityTypes)), types.String(id)).MarshalCedar())
		}
		for e := r.Intn(3); e > 0 && r.P(0.7); e-- {
			s = c12Edit1(r, s, uidAlpha)
		}
		k.reg(w, s, true)
		k.uidLiteral(w, s)
	})
}
