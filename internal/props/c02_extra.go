package props

import (
	"fmt"
	"sort"

	cedar "github.com/cedar-policy/cedar-go"
	"github.com/cedar-policy/cedar-go/types"

	"verif/internal/mon"
)

// Additional C02 stream: the policy set handed to the authorizer has a HISTORY - policies were
// replaced under their id, removed and added again, the set was authorized against and
// marshalled in between. The decision, reasons and errors are those of a freshly built set
// with the same final contents (which the table streams check against the decision table).
func init() {
	orig := Registry["C02"]
	Registry["C02"] = func(c *mon.Ctx) {
		orig(c)
		c.Rule += " Stream set-with-a-history: every ordered pair of 6 outcome classes as (old, new) policy under one id, x 4 histories (replace, replace after use, remove + add, add other + remove other), next to a bystander policy: Authorize / IsAuthorized equal those of a fresh set with the final contents."
		c02history(c)
	}
}

func c02history(c *mon.Ctx) {
	classes := []struct{ name, text string }{
		{"permit/sat", `permit(principal, action, resource) when { context.n == 1 };`},
		{"permit/unsat", `permit(principal, action, resource) when { context.n == 2 };`},
		{"permit/err", `permit(principal, action, resource) when { context.missing == 1 };`},
		{"forbid/sat", `forbid(principal, action, resource) when { context.n == 1 };`},
		{"forbid/unsat", `forbid(principal, action, resource) unless { context.n == 1 };`},
		{"forbid/err", `forbid(principal, action, resource) when { context.n + 9223372036854775807 > 0 };`},
	}
	histories := []string{"replace", "replace after Authorize and marshal", "remove then add", "add another id, replace, remove the other"}
	parse := func(text string) *cedar.Policy {
		var p cedar.Policy
		if err := p.UnmarshalCedar([]byte(text)); err != nil {
			panic("c02history: " + err.Error())
		}
		return &p
	}
	req := cedar.Request{Principal: types.NewEntityUID("U", "a"), Action: types.NewEntityUID("Action", "a"), Resource: types.NewEntityUID("U", "b"),
		Context: types.NewRecord(types.RecordMap{"n": types.Long(1)})}
	show := func(dec cedar.Decision, d cedar.Diagnostic) string {
		var rs, es []string
		for _, x := range d.Reasons {
			rs = append(rs, string(x.PolicyID))
		}
		for _, x := range d.Errors {
			es = append(es, string(x.PolicyID)+": "+x.Message)
		}
		sort.Strings(rs)
		sort.Strings(es)
		return fmt.Sprintf("%v reasons=%v errors=%v", dec, rs, es)
	}
	n := len(classes)
	c.ParFor("set-with-a-history", n*n*n*len(histories), func(w *mon.W, i int) {
		old, nw, by, h := classes[i%n], classes[(i/n)%n], classes[(i/(n*n))%n], histories[i/(n*n*n)]
		ps := cedar.NewPolicySet()
		ps.Add("bystander", parse(by.text))
		ps.Add("x", parse(old.text))
		switch h {
		case "replace":
			ps.Add("x", parse(nw.text))
		case "replace after Authorize and marshal":
			cedar.Authorize(ps, types.EntityMap{}, req)
			ps.MarshalCedar()
			_, _ = ps.MarshalJSON()
			ps.Add("x", parse(nw.text))
		case "remove then add":
			cedar.Authorize(ps, types.EntityMap{}, req)
			ps.Remove("x")
			cedar.Authorize(ps, types.EntityMap{}, req)
			ps.Add("x", parse(nw.text))
		default:
			ps.Add("other", parse(old.text))
			cedar.Authorize(ps, types.EntityMap{}, req)
			ps.Add("x", parse(nw.text))
			ps.Remove("other")
		}
		fresh := cedar.NewPolicySet()
		fresh.Add("x", parse(nw.text))
		fresh.Add("bystander", parse(by.text))
		want := show(cedar.Authorize(fresh, types.EntityMap{}, req))
		w.Evals(2)
		w.Count("history: " + h)
		w.NonTrivial(fmt.Sprint(i))
		for k, got := range []string{show(cedar.Authorize(ps, types.EntityMap{}, req)), show(ps.IsAuthorized(types.EntityMap{}, req))} {
			if got != want {
				w.Violation(fmt.Sprintf("authorization depends on the set's history [%s; %s -> %s]", h, old.name, nw.name),
					fmt.Sprintf("%s on a set whose policy x was %s and is now %s (bystander %s; history: %s) gives %s; a fresh set with the same contents gives %s",
						[]string{"Authorize", "IsAuthorized"}[k], old.name, nw.name, by.name, h, got, want),
					map[string]any{"old": old.text, "new": nw.text, "bystander": by.text, "history": h})
				return
			}
		}
	})
}
