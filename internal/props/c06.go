package props

import (
	"fmt"
	"sort"
	"strings"

	"github.com/cedar-policy/cedar-go/x/exp/ast"
	"github.com/cedar-policy/cedar-go/x/exp/eval"

	"verif/internal/bridge"
	"verif/internal/gen"
	"verif/internal/model"
	"verif/internal/mon"
	"verif/internal/render"
)

func init() { Registry["C06"] = C06 }

const varType = "__cedar::variable"
const ignoreType = "__cedar::ignore"

func mvar(name string) model.Val { return model.Ent(varType, name) }
func mignore() model.Val         { return model.Ent(ignoreType, "") }

// substVal replaces variable markers by their assigned values (the harness's own substitution).
func substVal(v model.Val, asg map[string]model.Val) model.Val {
	switch v.K {
	case model.KEntity:
		if v.T == varType {
			if x, ok := asg[v.ID]; ok {
				return x
			}
		}
		return v
	case model.KSet:
		xs := make([]model.Val, len(v.Elems))
		for i, e := range v.Elems {
			xs[i] = substVal(e, asg)
		}
		return model.Set(xs...)
	case model.KRecord:
		vs := make([]model.Val, len(v.Vals))
		for i, e := range v.Vals {
			vs[i] = substVal(e, asg)
		}
		return model.Record(v.Keys, vs)
	}
	return v
}

func findVars(v model.Val, out map[string]bool) {
	switch v.K {
	case model.KEntity:
		if v.T == varType {
			out[v.ID] = true
		}
	case model.KSet:
		for _, e := range v.Elems {
			findVars(e, out)
		}
	case model.KRecord:
		for _, e := range v.Vals {
			findVars(e, out)
		}
	}
}

// c06template describes a partial environment.
type c06template struct {
	P, A, R, Ctx model.Val           // may be / contain markers
	Vars        map[string][]model.Val // candidate completions per variable
	Ignored     map[string]bool       // "principal"/"action"/"resource"/"context" marked ignored
}

func (t *c06template) describe() map[string]any {
	vs := map[string]any{}
	for k, xs := range t.Vars {
		var ss []string
		for _, x := range xs {
			ss = append(ss, x.String())
		}
		vs[k] = ss
	}
	return map[string]any{"principal": t.P.String(), "action": t.A.String(), "resource": t.R.String(), "context": t.Ctx.String(), "variables": vs}
}

// nestVars replaces some leaves of a record by variables; returns the record and the originals.
func nestVars(r *gen.R, v model.Val, depth int, prefix string, vars map[string]model.Val, p float64) model.Val {
	switch v.K {
	case model.KRecord:
		vs := make([]model.Val, len(v.Vals))
		for i, e := range v.Vals {
			vs[i] = nestVars(r, e, depth+1, fmt.Sprintf("%s%d", prefix, i), vars, p)
		}
		return model.Record(v.Keys, vs)
	case model.KSet:
		if r.P(0.5) {
			xs := make([]model.Val, len(v.Elems))
			for i, e := range v.Elems {
				xs[i] = nestVars(r, e, depth+1, fmt.Sprintf("%ss%d", prefix, i), vars, p)
			}
			return model.Set(xs...)
		}
	}
	if depth > 0 && r.P(p) {
		name := "v" + prefix
		if r.P(0.25) && len(vars) > 0 {
			// reuse an existing variable (same variable used several times)
			for k := range vars {
				name = k
				break
			}
			ks := sortedKeys(vars)
			name = ks[r.Intn(len(ks))]
			return mvar(name)
		}
		vars[name] = v
		return mvar(name)
	}
	return v
}

// contextFor builds a context record that the policy's conditions actually look into.
func contextFor(r *gen.R, m *gen.Mentions) model.Val {
	n := 1 + r.Intn(4)
	var ks []string
	var vs []model.Val
	for i := 0; i < n; i++ {
		if len(m.Attrs) > 0 && r.P(0.8) {
			ks = append(ks, mon.Pick(r, m.Attrs))
		} else {
			ks = append(ks, mon.Pick(r, gen.AttrNames))
		}
		var v model.Val
		switch {
		case len(m.Vals) > 0 && r.P(0.6):
			v = mon.Pick(r, m.Vals)
		default:
			v = gen.RandVal(r, 2)
		}
		if r.P(0.25) {
			v = model.Set(v, gen.RandVal(r, 1))
		} else if r.P(0.2) {
			v = model.Record([]string{mon.Pick(r, gen.AttrNames), "a"}, []model.Val{v, gen.RandVal(r, 1)})
		}
		ks = append(ks, "")
		ks = ks[:len(ks)-1]
		vs = append(vs, v)
	}
	return model.Record(ks, vs)
}

// c06policy: policies that look at context sub-values, also as wholes.
func c06policy(r *gen.R) *model.Policy {
	cfg := gen.ExprCfg{PIll: 0.04, SafeDT: true}
	p := gen.RandPolicy(r, cfg, 3)
	g := &gen.G{R: r, Cfg: cfg}
	ctx := model.Var("context")
	extra := r.Intn(3)
	for i := 0; i < extra; i++ {
		k := mon.Pick(r, []string{"a", "b", "n", "s", "set", "rec"})
		lit := g.LitExpr(gen.RandVal(r, 1))
		var body *model.Expr
		part := model.Var(mon.Pick(r, []string{"principal", "action", "resource"}))
		u, v2 := gen.RandUID(r), gen.RandUID(r)
		switch r.Intn(18) {
		case 16:
			// a guard that may fail for some completions, with both branches the same constant
			same := model.Lit(model.Bool(r.Bool()))
			body = model.If(model.Bin(model.OLt, model.Access(ctx, k), model.Lit(model.Long(gen.RandLong(r)))), same, same)
		case 17:
			same := g.LitExpr(gen.RandVal(r, 0))
			body = model.Bin(model.OEq, model.If(model.Access(ctx, k), same, same), same)
		case 10:
			// an operand that may be unknown before an operand that may be ignored, in one strict node
			body = model.Bin(mon.Pick(r, []model.Op{model.OEq, model.ONe}), model.Access(ctx, k), part)
		case 11:
			body = model.Bin(model.OContains, model.SetE(model.Access(ctx, k), part, lit), mon.Pick(r, []*model.Expr{part, lit}))
		case 12:
			body = model.Bin(model.OEq, model.RecE([]string{"x", "y"}, []*model.Expr{model.Access(ctx, k), part}), model.RecE([]string{"x", "y"}, []*model.Expr{lit, model.Lit(u)}))
		case 13:
			// `is T in` / `in` in a condition with both operands known while something else is unknown
			body = model.Bin(model.OAnd, model.IsIn(model.Lit(u), u.T, model.Lit(v2)), model.Bin(model.OEq, model.Access(ctx, k), lit))
		case 14:
			body = model.Bin(model.OOr, model.IsIn(part, mon.Pick(r, gen.EntityTypes[:3]), model.Lit(v2)), model.Bin(model.OEq, model.Access(ctx, k), lit))
		case 15:
			body = model.Bin(model.OAnd, model.Bin(model.OIn, model.Lit(u), model.SetE(model.Lit(v2), part)), model.Bin(model.ONe, model.Access(ctx, k), lit))
		case 0:
			body = model.Bin(model.OEq, ctx, model.RecE([]string{k}, []*model.Expr{lit}))
		case 1:
			body = model.Bin(model.OEq, model.Access(ctx, k), lit)
		case 2:
			body = model.Bin(model.OContains, model.Access(ctx, k), lit)
		case 3:
			body = model.Bin(model.OContainsAll, model.SetE(model.Access(ctx, k), lit), model.SetE(lit))
		case 4:
			body = model.Bin(model.OAnd, model.Has(ctx, k), model.Bin(model.OEq, model.Access(ctx, k), lit))
		case 5:
			body = model.Bin(model.OOr, model.Access(ctx, k), model.Bin(model.OEq, model.Var("principal"), model.Lit(gen.RandUID(r))))
		case 6:
			body = model.If(model.Access(ctx, k), lit, model.Bin(model.OEq, model.Access(ctx, "a"), lit))
		case 7:
			body = model.Bin(model.OIn, model.Var("principal"), model.Access(ctx, k))
		case 8:
			body = model.Bin(model.OEq, model.Access(model.Access(ctx, "rec"), k), lit)
		default:
			body = model.Bin(model.OLt, model.Access(ctx, k), model.Lit(model.Long(gen.RandLong(r))))
		}
		p.Conds = append(p.Conds, model.Cond{When: r.P(0.75), Body: body})
	}
	return p
}

func isSat(o model.Outcome) bool { return o == model.Sat }

func C06(c *mon.Ctx) {
	c.Rule = "case = (policy, partial environment, completion). Partial environments mark principal/action/resource/context as unknown (variable), nest unknowns inside context records and sets (also the same unknown twice), or mark parts as ignored. Completions assign every unknown a value from a universe derived from the policy (its own literals, neighbours +-1, other kinds, entities inside/outside `in` targets) incl. the original value. " +
		"Oracle: keep => sat(residual, c) == sat(policy, c); drop => not sat(policy, c) for every c; ignored part + permit => if sat(policy, c[v]) for some v then kept and sat(residual, c[v']) for every v'. sat = evaluates to true under the ordinary evaluator (residuals contain cedar-go's partial-error nodes, so they are run by cedar-go; the original's sat comes from the reference evaluator and is cross-checked). " +
		"distinct_nontrivial = distinct (policy, partial env) pairs where at least one condition or scope mentions an unknown/ignored part."
	c.Assume = []string{"completions of principal/action/resource are entity UIDs, completions of a whole-context unknown are records", "a completion never contains the reserved marker types"}
	c.Floor = 300
	n := c.N(10000, 200000)
	c.ParFor("policies", n, func(w *mon.W, i int) {
		r := w.Rand()
		mp := c06policy(r)
		var m gen.Mentions
		gen.CollectPolicy(&m, mp)
		base := gen.EnvFor(r, &m, r.P(0.2))
		// let context values and completions coincide with the request's own entities now and then
		m.Vals = append(m.Vals, base.P, base.A, base.R, base.P)
		base.Ctx = contextFor(r, &m)
		t := &c06template{P: base.P, A: base.A, R: base.R, Ctx: base.Ctx, Vars: map[string][]model.Val{}, Ignored: map[string]bool{}}
		orig := map[string]model.Val{}
		mode := r.Intn(10)
		// whole-part unknowns
		mark := func(name string, cur *model.Val) {
			switch {
			case mode < 7 && r.P(0.35):
				orig[name] = *cur
				*cur = mvar(name)
			case mode >= 7 && r.P(0.4):
				t.Ignored[name] = true
				orig["~"+name] = *cur
				*cur = mignore()
			}
		}
		mark("principal", &t.P)
		mark("action", &t.A)
		mark("resource", &t.R)
		if r.P(0.25) {
			mark("context", &t.Ctx)
		}
		if t.Ctx.K == model.KRecord {
			nested := map[string]model.Val{}
			t.Ctx = nestVars(r, t.Ctx, 0, "", nested, 0.45)
			for k, v := range nested {
				orig[k] = v
			}
			if mode >= 5 && r.P(0.6) {
				// values nested inside the context marked as ignored
				markNestedIgnores(r, t, orig, 0.4)
			}
		}
		used := map[string]bool{}
		for _, v := range []model.Val{t.P, t.A, t.R, t.Ctx} {
			findVars(v, used)
		}
		if len(used) == 0 && len(t.Ignored) == 0 {
			t.P = mvar("principal")
			orig["principal"] = base.P
			used["principal"] = true
		}
		// completion universe
		for name := range used {
			o := orig[name]
			cands := []model.Val{o}
			switch name {
			case "principal", "action", "resource":
				for k := 0; k < 4; k++ {
					if len(m.Ents) > 0 && r.P(0.7) {
						cands = append(cands, mon.Pick(r, m.Ents))
					} else {
						cands = append(cands, gen.RandUID(r))
					}
				}
			case "context":
				for k := 0; k < 3; k++ {
					cands = append(cands, contextFor(r, &m))
				}
				cands = append(cands, model.Rec())
			default:
				for k := 0; k < 3; k++ {
					if len(m.Vals) > 0 && r.P(0.6) {
						v := mon.Pick(r, m.Vals)
						if r.P(0.3) && v.K == model.KLong {
							v.I += int64(r.Intn(3)) - 1
						}
						cands = append(cands, v)
					} else {
						cands = append(cands, gen.RandVal(r, 1))
					}
				}
				if o.K == model.KBool {
					cands = append(cands, model.Bool(!o.B))
				}
			}
			t.Vars[name] = cands
		}
		c06run(w, r, i, mp, &m, base, t, orig, used)
	})
	c06directed(c)
}

// c06run runs the partial evaluator on (mp, t) and checks every completion.
func c06run(w *mon.W, r *gen.R, i int, mp *model.Policy, mm *gen.Mentions, base *model.Env, t *c06template, orig map[string]model.Val, used map[string]bool) {
	m := *mm
	{
		// run the partial evaluator
		penv := &model.Env{P: t.P, A: t.A, R: t.R, Ctx: t.Ctx, Store: base.Store}
		ents := bridge.ToEntityMap(base)
		ap := bridge.ToPolicy(mp)
		fp0 := Fingerprint(ap)
		var residual *ast.Policy
		var keep bool
		var pan string
		func() {
			defer func() {
				if x := recover(); x != nil {
					pan = fmt.Sprint(x)
				}
			}()
			residual, keep = eval.PartialPolicy(bridge.ToEvalEnv(penv, ents), ap)
		}()
		wit := map[string]any{"policy": render.CanonPolicy(mp), "partial_env": t.describe(), "entities": envWitness(base)["entities"]}
		if pan != "" {
			w.Violation("PartialPolicy panics", "PartialPolicy panicked: "+pan, wit)
			return
		}
		if Fingerprint(ap) != fp0 {
			w.Violation("PartialPolicy mutates its input policy", "the policy AST changed during partial evaluation", wit)
		}
		nt := len(used) > 0 || len(t.Ignored) > 0
		if nt {
			w.NonTrivial(render.CanonPolicy(mp) + "|" + fmt.Sprint(t.describe()))
		}
		if keep {
			w.Count("kept")
		} else {
			w.Count("dropped")
		}
		// enumerate completions (cap 64, always including the all-original one)
		names := sortedKeys(t.Vars)
		total := 1
		for _, nm := range names {
			total *= len(t.Vars[nm])
		}
		limit := 64
		ignNames := sortedKeys(t.Ignored)
		type pending struct {
			env  *model.Env
			desc string
		}
		for k := 0; k < total && k < limit; k++ {
			// per completion of the unknowns: the ignored parts range over their own values
			anySat := false
			var satAsg string
			var kept []pending
			asg := map[string]model.Val{}
			code := k
			if total > limit && k > 0 {
				code = r.Intn(total)
			}
			var parts []string
			for _, nm := range names {
				vs := t.Vars[nm]
				asg[nm] = vs[code%len(vs)]
				code /= len(vs)
				parts = append(parts, nm+":="+asg[nm].String())
			}
			cenvM := &model.Env{P: substVal(t.P, asg), A: substVal(t.A, asg), R: substVal(t.R, asg), Ctx: substVal(t.Ctx, asg), Store: base.Store}
			// ignored parts: try the original value and two others
			ivals := [][]model.Val{}
			for _, in := range ignNames {
				o := orig["~"+in]
				if strings.HasPrefix(in, "ctx#") {
					// an ignored value nested inside the context record
					ivals = append(ivals, []model.Val{o, m.PickVal(r), gen.RandVal(r, 1)})
				} else if in == "context" {
					ivals = append(ivals, []model.Val{o, model.Rec(), contextFor(r, &m)})
				} else {
					ivals = append(ivals, []model.Val{o, m.PickEnt(r), gen.RandUID(r)})
				}
			}
			nIgn := 1
			for range ignNames {
				nIgn *= 3
			}
			for iv := 0; iv < nIgn; iv++ {
				e2 := *cenvM
				code2 := iv
				desc := strings.Join(parts, ", ")
				var nestedVals []model.Val
				for j, in := range ignNames {
					v := ivals[j][code2%3]
					code2 /= 3
					switch {
					case in == "principal":
						e2.P = v
					case in == "action":
						e2.A = v
					case in == "resource":
						e2.R = v
					case strings.HasPrefix(in, "ctx#"):
						nestedVals = append(nestedVals, v) // ctx#0, ctx#1, .. are sorted, i.e. in slot order
					default:
						e2.Ctx = v
					}
					desc += fmt.Sprintf(", ignored %s:=%s", in, v)
				}
				if len(nestedVals) > 0 {
					idx := 0
					e2.Ctx = substIgnores(e2.Ctx, nestedVals, &idx)
				}
				if e2.P.K != model.KEntity || e2.A.K != model.KEntity || e2.R.K != model.KEntity || e2.Ctx.K != model.KRecord {
					continue
				}
				env2 := e2
				om, _ := model.PolicyOutcome(mp, &env2)
				cenv := bridge.ToEvalEnv(&env2, ents)
				oc, _ := outcomeDirect(ap, cenv)
				w.Evals(1)
				if oc != om {
					w.Count("deferred: ordinary evaluator disagrees with reference model on the completed original (C01 domain)")
					continue
				}
				wc := map[string]any{"policy": wit["policy"], "partial_env": wit["partial_env"], "entities": wit["entities"], "completion": desc, "original_outcome": om.String()}
				if !keep {
					if isSat(om) && len(ignNames) == 0 {
						w.Violation("dropped although satisfiable"+dropClass(mp, t), fmt.Sprintf("PartialPolicy drops `%s` but under the completion {%s} the policy is satisfied", render.CanonPolicy(mp), desc), wc)
						return
					}
					if isSat(om) && len(ignNames) > 0 && mp.Permit {
						w.Violation("permit with ignored part dropped although satisfiable", fmt.Sprintf("PartialPolicy drops permit `%s` (ignored: %v) but it is satisfied for {%s}", render.CanonPolicy(mp), ignNames, desc), wc)
						return
					}
					continue
				}
				if len(ignNames) == 0 {
					or, dr := outcomeDirect(residual, cenv)
					if isSat(or) != isSat(om) {
						wc["residual"] = string((*cedarASTPolicy)(residual).MarshalCedar())
						wc["residual_outcome"] = or.String() + " " + dr
						w.Violation(fmt.Sprintf("residual differs: original=%s residual=%s%s", om, or, dropClass(mp, t)), fmt.Sprintf("residual of `%s` is %s under {%s}, the original is %s", render.CanonPolicy(mp), or, desc, om), wc)
						return
					}
					continue
				}
				if mp.Permit {
					if isSat(om) {
						anySat = true
						satAsg = desc
					}
					kept = append(kept, pending{&env2, desc})
				}
			}
			if keep && len(ignNames) > 0 && mp.Permit && anySat {
				for _, pd := range kept {
					or, dr := outcomeDirect(residual, bridge.ToEvalEnv(pd.env, ents))
					if !isSat(or) {
						w.Violation("ignore narrows a permit", fmt.Sprintf("permit `%s` is satisfied for {%s} but its residual (ignored %v) is %s (%s) for {%s}", render.CanonPolicy(mp), satAsg, ignNames, or, dr, pd.desc),
							map[string]any{"policy": wit["policy"], "partial_env": wit["partial_env"], "residual": string((*cedarASTPolicy)(residual).MarshalCedar()), "satisfying": satAsg, "failing": pd.desc})
						return
					}
				}
			}
		}
		if i%1000 == 0 {
			w.Sample("case", map[string]any{"policy": render.CanonPolicy(mp), "partial_env": t.describe(), "keep": keep})
		}
	}
}

// c06directed enumerates small strict nodes that combine an operand that is unknown with an
// operand that is ignored (in both orders), for permit/forbid x when/unless, over a 3-entity
// universe - the shapes where unknown- and ignore-handling interact inside one node.
func c06directed(c *mon.Ctx) {
	X, Y, Z := model.Ent("U", "a"), model.Ent("U", "b"), model.Ent("G", "a")
	ents := []model.Val{X, Y, Z}
	ctx := model.Var("context")
	unk := []*model.Expr{model.Access(ctx, "k"), model.Var("action")}                                           // may be unknown
	ign := []*model.Expr{model.Var("principal"), model.Var("resource"), model.Access(ctx, "j")}                  // may be ignored
	type shape struct {
		name string
		mk   func(a, b *model.Expr) *model.Expr
	}
	lx := model.Lit(X)
	shapes := []shape{
		{"a == b", func(a, b *model.Expr) *model.Expr { return model.Bin(model.OEq, a, b) }},
		{"a != b", func(a, b *model.Expr) *model.Expr { return model.Bin(model.ONe, a, b) }},
		{"[a, b].contains(X)", func(a, b *model.Expr) *model.Expr { return model.Bin(model.OContains, model.SetE(a, b), lx) }},
		{"{x: a, y: b} == {x: X, y: X}", func(a, b *model.Expr) *model.Expr {
			return model.Bin(model.OEq, model.RecE([]string{"x", "y"}, []*model.Expr{a, b}), model.RecE([]string{"x", "y"}, []*model.Expr{lx, lx}))
		}},
		{"a in b", func(a, b *model.Expr) *model.Expr { return model.Bin(model.OIn, a, b) }},
		{"a in [b, X]", func(a, b *model.Expr) *model.Expr { return model.Bin(model.OIn, a, model.SetE(b, lx)) }},
		{"a is U in b", func(a, b *model.Expr) *model.Expr { return model.IsIn(a, "U", b) }},
		// a composite of the context that holds an unknown and/or an ignored value, used as a whole
		{"context.rec == {k: X, j: X} (|| a == b)", func(a, b *model.Expr) *model.Expr {
			whole := model.Bin(model.OEq, model.Access(ctx, "rec"), model.Lit(model.Rec("k", model.Ent("U", "a"), "j", model.Ent("U", "a"))))
			return model.Bin(model.OOr, whole, model.Bin(model.OEq, a, b))
		}},
		{"[context.rec].contains({k: X, j: X})", func(a, b *model.Expr) *model.Expr {
			return model.Bin(model.OContains, model.SetE(model.Access(ctx, "rec")), model.Lit(model.Rec("k", model.Ent("U", "a"), "j", model.Ent("U", "a"))))
		}},
		{"context.rec == {k: a, j: b}", func(a, b *model.Expr) *model.Expr {
			return model.Bin(model.OEq, model.Access(ctx, "rec"), model.RecE([]string{"k", "j"}, []*model.Expr{a, b}))
		}},
		// branches that are projections of a composite which still holds an unknown
		{"(if a == X then context.rec else context.rec).k == b", func(a, b *model.Expr) *model.Expr {
			rec := model.Access(ctx, "rec")
			return model.Bin(model.OEq, model.Access(model.If(model.Bin(model.OEq, a, lx), rec, rec), "k"), b)
		}},
		{"(if b == X then context.set else [X]).contains(a)", func(a, b *model.Expr) *model.Expr {
			return model.Bin(model.OContains, model.If(model.Bin(model.OEq, b, lx), model.Access(ctx, "set"), model.SetE(lx)), a)
		}},
		{"(if a == X then context else context).rec.k == b", func(a, b *model.Expr) *model.Expr {
			return model.Bin(model.OEq, model.Access(model.Access(model.If(model.Bin(model.OEq, a, lx), ctx, ctx), "rec"), "k"), b)
		}},
		// one branch is a projection of a fully known record, the other of a record that holds
		// an unknown (each branch must keep its own expression in the residual)
		{"(if a == X then context.rec2 else context.rec).k == b", func(a, b *model.Expr) *model.Expr {
			return model.Bin(model.OEq, model.Access(model.If(model.Bin(model.OEq, a, lx), model.Access(ctx, "rec2"), model.Access(ctx, "rec")), "k"), b)
		}},
		{"(if a == X then context.rec else context.rec2).k == b", func(a, b *model.Expr) *model.Expr {
			return model.Bin(model.OEq, model.Access(model.If(model.Bin(model.OEq, a, lx), model.Access(ctx, "rec"), model.Access(ctx, "rec2")), "k"), b)
		}},
		{"(if a == X then context.set else context.recs).contains(b)", func(a, b *model.Expr) *model.Expr {
			return model.Bin(model.OContains, model.If(model.Bin(model.OEq, a, lx), model.Access(ctx, "set"), model.Access(ctx, "recs")), b)
		}},
		// an unknown two container levels down, the outer container being a set, used as a whole
		{"context.recs.contains({k: X, j: X}) (|| a == b)", func(a, b *model.Expr) *model.Expr {
			whole := model.Bin(model.OContains, model.Access(ctx, "recs"), model.Lit(model.Rec("k", model.Ent("U", "a"), "j", model.Ent("U", "a"))))
			return model.Bin(model.OOr, whole, model.Bin(model.OEq, a, b))
		}},
		{"context.recs.containsAny([{k: X, j: X}]) && a == b", func(a, b *model.Expr) *model.Expr {
			whole := model.Bin(model.OContainsAny, model.Access(ctx, "recs"), model.SetE(model.Lit(model.Rec("k", model.Ent("U", "a"), "j", model.Ent("U", "a")))))
			return model.Bin(model.OAnd, whole, model.Bin(model.OEq, a, b))
		}},
		{"context.sets.contains([X, b])", func(a, b *model.Expr) *model.Expr {
			return model.Bin(model.OContains, model.Access(ctx, "sets"), model.SetE(lx, b))
		}},
		{"context.recs == [{k: X, j: X}, {k: Y, j: Y}]", func(a, b *model.Expr) *model.Expr {
			return model.Bin(model.OEq, model.Access(ctx, "recs"), model.Lit(model.Set(model.Rec("k", model.Ent("U", "a"), "j", model.Ent("U", "a")), model.Rec("k", model.Ent("U", "b"), "j", model.Ent("U", "b")))))
		}},
		// both operands of the membership test are KNOWN (X is a child of Z in the store) while
		// another conjunct is unknown: the known part is folded at partial-evaluation time
		{"X is U in Z && a == b", func(a, b *model.Expr) *model.Expr {
			return model.Bin(model.OAnd, model.IsIn(lx, "U", model.Lit(model.Ent("G", "a"))), model.Bin(model.OEq, a, b))
		}},
		{"a == b && X in Z", func(a, b *model.Expr) *model.Expr {
			return model.Bin(model.OAnd, model.Bin(model.OEq, a, b), model.Bin(model.OIn, lx, model.Lit(model.Ent("G", "a"))))
		}},
		{"X in [Z, a] || a == b", func(a, b *model.Expr) *model.Expr {
			return model.Bin(model.OOr, model.Bin(model.OIn, lx, model.SetE(model.Lit(model.Ent("G", "a")), a)), model.Bin(model.OEq, a, b))
		}},
		{"if X is U in Z then a == b else false", func(a, b *model.Expr) *model.Expr {
			return model.If(model.IsIn(lx, "U", model.Lit(model.Ent("G", "a"))), model.Bin(model.OEq, a, b), model.Lit(model.Bool(false)))
		}},
		{"a is G in [b, 1]", func(a, b *model.Expr) *model.Expr { return model.IsIn(a, "G", model.SetE(b, model.Lit(model.Long(1)))) }},
		{"a is G in b.nope", func(a, b *model.Expr) *model.Expr { return model.IsIn(a, "G", model.Access(b, "nope")) }},
		{"X is G in [a, b, 1]", func(a, b *model.Expr) *model.Expr { return model.IsIn(lx, "G", model.SetE(a, b, model.Lit(model.Long(1)))) }},
		{"a == b && true", func(a, b *model.Expr) *model.Expr { return model.Bin(model.OAnd, model.Bin(model.OEq, a, b), model.Lit(model.Bool(true))) }},
		{"a == X || b == X", func(a, b *model.Expr) *model.Expr { return model.Bin(model.OOr, model.Bin(model.OEq, a, lx), model.Bin(model.OEq, b, lx)) }},
		{"if a == X then b == X else true", func(a, b *model.Expr) *model.Expr {
			return model.If(model.Bin(model.OEq, a, lx), model.Bin(model.OEq, b, lx), model.Lit(model.Bool(true)))
		}},
		{"[a].containsAll([b])", func(a, b *model.Expr) *model.Expr { return model.Bin(model.OContainsAll, model.SetE(a), model.SetE(b)) }},
		// a set that holds an unknown, compared as a whole with a SMALLER known set: sets
		// deduplicate, so the completion that repeats the known member makes them equal
		{"context.set == [Y]", func(a, b *model.Expr) *model.Expr { return model.Bin(model.OEq, model.Access(ctx, "set"), model.Lit(model.Set(Y))) }},
		{"context.set != [Y]", func(a, b *model.Expr) *model.Expr { return model.Bin(model.ONe, model.Access(ctx, "set"), model.Lit(model.Set(Y))) }},
		{"[Y] == context.set || a == b", func(a, b *model.Expr) *model.Expr {
			return model.Bin(model.OOr, model.Bin(model.OEq, model.SetE(model.Lit(Y)), model.Access(ctx, "set")), model.Bin(model.OEq, a, b))
		}},
		{"{s: context.set} == {s: [Y]}", func(a, b *model.Expr) *model.Expr {
			return model.Bin(model.OEq, model.RecE([]string{"s"}, []*model.Expr{model.Access(ctx, "set")}), model.Lit(model.Rec("s", model.Set(Y))))
		}},
		{"context.sets == [[Y]]", func(a, b *model.Expr) *model.Expr { return model.Bin(model.OEq, model.Access(ctx, "sets"), model.Lit(model.Set(model.Set(Y)))) }},
		{"[a, X] == [X]", func(a, b *model.Expr) *model.Expr { return model.Bin(model.OEq, model.SetE(a, lx), model.SetE(lx)) }},
		{"[a, b, X] != [X]", func(a, b *model.Expr) *model.Expr { return model.Bin(model.ONe, model.SetE(a, b, lx), model.SetE(lx)) }},
	}
	type dcase struct {
		sh            shape
		a, b          *model.Expr
		swap          bool
		permit, when  bool
		mode          int // 0: a unknown, b ignored; 1: a unknown, b known; 2: a known, b ignored; 3: both unknown
	}
	var cases []dcase
	for _, sh := range shapes {
		for _, a := range unk {
			for _, b := range ign {
				for _, swap := range []bool{false, true} {
					for _, permit := range []bool{true, false} {
						for _, when := range []bool{true, false} {
							for mode := 0; mode < 4; mode++ {
								cases = append(cases, dcase{sh, a, b, swap, permit, when, mode})
							}
						}
					}
				}
			}
		}
	}
	c.Extra["directed_unknown_x_ignore_cases"] = len(cases)
	c.ParFor("directed", len(cases), func(w *mon.W, i int) {
		d := cases[i]
		r := w.Rand()
		a, b := d.a, d.b
		body := d.sh.mk(a, b)
		if d.swap {
			body = d.sh.mk(b, a)
		}
		mp := &model.Policy{Permit: d.permit, Conds: []model.Cond{{When: d.when, Body: body}}}
		base := &model.Env{P: X, A: X, R: X, Ctx: model.Rec("k", X, "j", X, "rec", model.Rec("k", X, "j", X), "set", model.Set(X, Y),
			"rec2", model.Rec("k", Y, "j", Y), "recs", model.Set(model.Rec("k", X, "j", X), model.Rec("k", Y, "j", Y)), "sets", model.Set(model.Set(X, Y), model.Set(Y))), Store: map[string]*model.Entity{}}
		base.Store[X.Key()] = &model.Entity{UID: X, Parents: []model.Val{Z}, Attrs: model.Rec(), Tags: model.Rec()}
		base.Store[Y.Key()] = &model.Entity{UID: Y, Attrs: model.Rec(), Tags: model.Rec()}
		t := &c06template{P: X, A: X, R: X, Ctx: base.Ctx, Vars: map[string][]model.Val{}, Ignored: map[string]bool{}}
		orig := map[string]model.Val{}
		used := map[string]bool{}
		ctxK, ctxJ := X, X
		setUnknown := func(e *model.Expr, name string) {
			switch {
			case e.Op == model.OVar:
				switch e.S {
				case "action":
					t.A = mvar(name)
				case "principal":
					t.P = mvar(name)
				case "resource":
					t.R = mvar(name)
				}
			case e.S == "k":
				ctxK = mvar(name)
			default:
				ctxJ = mvar(name)
			}
			t.Vars[name] = ents
			orig[name] = X
			used[name] = true
		}
		setIgnored := func(e *model.Expr) bool {
			if e.Op != model.OVar {
				// a value nested in the context (context.j and context.rec.j) is ignored: slots
				// ctx#0 and ctx#1 in key-sorted traversal order of the template context
				ctxJ = mignore()
				for _, name := range []string{"ctx#0", "ctx#1"} {
					t.Ignored[name] = true
					orig["~"+name] = X
				}
				return true
			}
			t.Ignored[e.S] = true
			orig["~"+e.S] = X
			switch e.S {
			case "principal":
				t.P = mignore()
			case "resource":
				t.R = mignore()
			}
			return true
		}
		switch d.mode {
		case 0:
			setUnknown(a, "ua")
			if !setIgnored(b) {
				return
			}
		case 1:
			setUnknown(a, "ua")
		case 2:
			if !setIgnored(b) {
				return
			}
		default:
			setUnknown(a, "ua")
			setUnknown(b, "ub")
		}
		// the same unknowns also sit one level down, inside a record and a set of the context
		// ... and (the unknown only) two levels down, inside records / sets that are members of a set
		t.Ctx = model.Rec("k", ctxK, "j", ctxJ, "rec", model.Rec("k", ctxK, "j", ctxJ), "set", model.Set(ctxK, Y),
			"rec2", model.Rec("k", Y, "j", Y), "recs", model.Set(model.Rec("k", ctxK, "j", X), model.Rec("k", Y, "j", Y)), "sets", model.Set(model.Set(ctxK, Y), model.Set(Y)))
		var m gen.Mentions
		gen.CollectPolicy(&m, mp)
		m.Ents = append(m.Ents, ents...)
		w.Count("directed shape " + d.sh.name)
		c06run(w, r, i+1, mp, &m, base, t, orig, used)
	})
}

// dropClass gives a coarse, stable description of where the unknowns sit, for signatures.
func dropClass(mp *model.Policy, t *c06template) string {
	var cls []string
	whole := false
	for _, v := range []model.Val{t.P, t.A, t.R, t.Ctx} {
		if v.K == model.KEntity && v.T == varType {
			whole = true
		}
	}
	if whole {
		cls = append(cls, "whole-part unknown")
	}
	if t.Ctx.K == model.KRecord {
		u := map[string]bool{}
		findVars(t.Ctx, u)
		if len(u) > 0 {
			cls = append(cls, "unknown nested in context")
		}
	}
	sort.Strings(cls)
	return " [" + strings.Join(cls, "; ") + "]"
}
