package props

import (
	"fmt"

	cedar "github.com/cedar-policy/cedar-go"
	"github.com/cedar-policy/cedar-go/types"
	"github.com/cedar-policy/cedar-go/x/exp/ast"

	"verif/internal/bridge"
	"verif/internal/mon"
)

// multi: several membership questions with DIFFERENT left-hand entities inside ONE request
// (principal, action and resource are three different nodes; the scope asks `in` of each and
// the condition asks again, crosswise). Every other stream uses one start entity per call, so
// anything an authorization call shares between its membership tests (per-request ancestor
// memos, scratch sets) is invisible there; on cyclic graphs the order in which the tests run
// decides what such shared state holds.
func (r *c03runner) multiAuthz(form string, p *ast.Policy, pi, ai, ri int, want bool, desc string) {
	ps := cedar.NewPolicySet()
	ps.Add("p", cedar.NewPolicyFromAST((*cedarASTPolicy)(p)))
	r.getter.Calls = 0
	r.getter.Budget = 6 * r.budget()
	var got bool
	var bad string
	func() {
		defer func() {
			if x := recover(); x != nil {
				if be, ok := x.(bridge.BudgetExceeded); ok {
					bad = fmt.Sprintf("nonterminating: more than %d EntityGetter.Get calls", be.Calls-1)
					return
				}
				bad = fmt.Sprintf("panic: %v", x)
			}
		}()
		dec, diag := cedar.Authorize(ps, r.getter, cedar.Request{Principal: c03uids[pi], Action: c03uids[ai], Resource: c03uids[ri]})
		if len(diag.Errors) > 0 {
			bad = "error: " + diag.Errors[0].Message
		}
		got = dec == cedar.Allow
	}()
	r.w.Evals(1)
	if bad != "" || got != want {
		d := r.g.describe()
		d["query"] = desc
		d["principal/action/resource"] = fmt.Sprint(c03uids[pi], " ", c03uids[ai], " ", c03uids[ri])
		d["got"], d["want"], d["failure"] = got, want, bad
		sig := form + ": several membership tests with different start entities in one request"
		if bad != "" {
			sig += " (" + bad[:min(len(bad), 14)] + ")"
		}
		r.w.Violation(sig, "cedar.Authorize disagrees with reachability when one request asks `in` of several different entities", d)
	}
}

func (r *c03runner) multi(triples [][6]int) {
	in := func(l, rr ast.IsNode) ast.IsNode {
		return ast.NodeTypeIn{BinaryNode: ast.BinaryNode{Left: l, Right: rr}}
	}
	and := func(l, rr ast.IsNode) ast.IsNode {
		return ast.NodeTypeAnd{BinaryNode: ast.BinaryNode{Left: l, Right: rr}}
	}
	v := func(n string) ast.IsNode { return ast.NodeTypeVariable{Name: types.String(n)} }
	reach := func(s, t int) bool { return r.g.reach(s)&(1<<t) != 0 }
	for _, q := range triples {
		pi, ai, ri, t1, t2, t3 := q[0], q[1], q[2], q[3], q[4], q[5]
		desc := fmt.Sprintf("principal in %v, action in %v, resource in %v", c03uids[t1], c03uids[t2], c03uids[t3])
		want := reach(pi, t1) && reach(ai, t2) && reach(ri, t3)
		r.multiAuthz("scope principal in E1, action in E2, resource in E3",
			&ast.Policy{Effect: ast.EffectPermit, Principal: ast.ScopeTypeIn{Entity: c03uids[t1]}, Action: ast.ScopeTypeIn{Entity: c03uids[t2]}, Resource: ast.ScopeTypeIn{Entity: c03uids[t3]}},
			pi, ai, ri, want, desc)
		r.multiAuthz("when { principal in E1 && action in E2 && resource in E3 }",
			&ast.Policy{Effect: ast.EffectPermit, Principal: ast.ScopeTypeAll{}, Action: ast.ScopeTypeAll{}, Resource: ast.ScopeTypeAll{},
				Conditions: []ast.ConditionType{{Condition: ast.ConditionWhen, Body: and(in(v("principal"), uidNode(t1)), and(in(v("action"), uidNode(t2)), in(v("resource"), uidNode(t3))))}}},
			pi, ai, ri, want, desc)
		// scope and condition mixed, the condition asking crosswise and in the other order
		want2 := reach(pi, t1) && reach(ri, t3) && reach(ri, t1) && reach(pi, t3)
		r.multiAuthz("scope principal is <type> in E1, resource in E3 when { resource in E1 && principal in [E3] }",
			&ast.Policy{Effect: ast.EffectPermit, Principal: ast.ScopeTypeIsIn{Type: c03uids[pi].Type, Entity: c03uids[t1]}, Action: ast.ScopeTypeAll{}, Resource: ast.ScopeTypeIn{Entity: c03uids[t3]},
				Conditions: []ast.ConditionType{{Condition: ast.ConditionWhen, Body: and(in(v("resource"), uidNode(t1)), in(v("principal"), ast.NodeTypeSet{Elements: []ast.IsNode{uidNode(t3)}}))}}},
			pi, ai, ri, want2, desc+" (crosswise)")
	}
}

func c03multi(c *mon.Ctx) {
	const n = 3
	var triples [][6]int
	for p := 0; p < n; p++ {
		for a := 0; a < n; a++ {
			for r := 0; r < n; r++ {
				for t := 0; t < n; t++ {
					triples = append(triples, [6]int{p, a, r, t, t, t}, [6]int{p, a, r, t, (t + 1) % n, (t + 2) % n})
				}
			}
		}
	}
	c.ParFor("several-start-entities-in-one-request-n3", 1<<(n*n), func(w *mon.W, i int) {
		for pres := 0; pres < 1<<n; pres++ {
			g := fromBits(n, uint64(i), uint16(pres))
			newC03runner(w, g).multi(triples)
		}
		w.Count("digraphs n=3 asked several membership questions per request")
		if i != 0 {
			w.NonTrivial(fmt.Sprintf("multi/%d", i))
		}
	})
}

// randomMulti: the same on a random larger graph.
func (r *c03runner) randomMulti(rd *mon.Rand, k int) {
	n := r.g.n
	var triples [][6]int
	for ; k > 0; k-- {
		t := rd.Intn(n)
		q := [6]int{rd.Intn(n), rd.Intn(n), rd.Intn(n), t, t, t}
		if rd.Bool() {
			q[4], q[5] = rd.Intn(n), rd.Intn(n)
		}
		triples = append(triples, q)
	}
	r.multi(triples)
}
