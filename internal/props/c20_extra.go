package props

import (
	"fmt"
	"sort"
	"strings"

	cedar "github.com/cedar-policy/cedar-go"

	"verif/internal/mon"
)

// Additional C20 stream: loading LARGE documents. The histories load documents of 0..13
// policies; here one document holds 63..700 policies (around every power of two and a few
// odd sizes). Loading assigns policy0, policy1, .. in document order with the given file name
// and each policy's own line; marshalling emits lexicographic id order.
func init() {
	orig := Registry["C20"]
	Registry["C20"] = func(c *mon.Ctx) {
		orig(c)
		c.Rule += " Stream bulk-load: documents of 31..700 policies (each tagged with its position) loaded with NewPolicySetFromBytes / NewPolicyListFromBytes / PolicyList.UnmarshalCedar: id policyK holds the K-th policy with the file name and its own line; MarshalCedar emits lexicographic id order."
		c20bulkLoad(c)
	}
}

func c20bulkLoad(c *mon.Ctx) {
	sizes := []int{31, 32, 33, 63, 64, 65, 100, 127, 128, 129, 255, 256, 257, 300, 512, 700}
	loaders := []string{"NewPolicySetFromBytes", "NewPolicyListFromBytes", "PolicyList.UnmarshalCedar"}
	c.ParFor("bulk-load", len(sizes)*len(loaders)*2, func(w *mon.W, i int) {
		n, loader, rep := sizes[i%len(sizes)], loaders[(i/len(sizes))%len(loaders)], i/(len(sizes)*len(loaders))
		r := w.Rand()
		var doc strings.Builder
		lines := make([]int, n)
		line := 1
		for k := 0; k < n; k++ {
			for j := r.Intn(3); j > 0; j-- {
				doc.WriteString("// filler\n")
				line++
			}
			lines[k] = line
			eff := []string{"permit", "forbid"}[(k+rep)%2]
			fmt.Fprintf(&doc, "@id(\"t%d\") %s(principal, action, resource) when { context.n == %d };\n", k, eff, k)
			line++
		}
		w.Evals(n)
		w.Count("bulk-load via " + loader)
		w.NonTrivial(fmt.Sprintf("bulk-load/%d/%s/%d", n, loader, rep))
		wit := map[string]any{"policies": n, "loader": loader}
		fail := func(sig, what string) {
			w.Violation(sig+" ["+loader+", large document]", what, wit)
		}
		get := func(k int) *cedar.Policy { return nil }
		count := 0
		var ps *cedar.PolicySet
		switch loader {
		case "NewPolicyListFromBytes", "PolicyList.UnmarshalCedar":
			var pl cedar.PolicyList
			var err error
			if loader == "NewPolicyListFromBytes" {
				pl, err = cedar.NewPolicyListFromBytes("big.cedar", []byte(doc.String()))
			} else {
				err = pl.UnmarshalCedar([]byte(doc.String()))
			}
			if err != nil {
				fail("document rejected", err.Error())
				return
			}
			count = len(pl)
			get = func(k int) *cedar.Policy {
				if k < len(pl) {
					return pl[k]
				}
				return nil
			}
		default:
			var err error
			ps, err = cedar.NewPolicySetFromBytes("big.cedar", []byte(doc.String()))
			if err != nil {
				fail("document rejected", err.Error())
				return
			}
			for range ps.All() {
				count++
			}
			get = func(k int) *cedar.Policy { return ps.Get(cedar.PolicyID(fmt.Sprintf("policy%d", k))) }
		}
		if count != n {
			fail("loaded set has a different number of policies", fmt.Sprintf("%d policies in the document, %d loaded", n, count))
			return
		}
		for k := 0; k < n; k++ {
			p := get(k)
			if p == nil {
				fail("id policyK missing after loading", fmt.Sprintf("policy%d is missing after loading %d policies", k, n))
				return
			}
			if tag := string(p.Annotations()["id"]); tag != fmt.Sprintf("t%d", k) {
				fail("id policyK does not hold the K-th policy of the document", fmt.Sprintf("policy%d holds the policy tagged %q", k, tag))
				return
			}
			pos := p.Position()
			wantFile := "big.cedar"
			if loader == "PolicyList.UnmarshalCedar" {
				wantFile = ""
			}
			if pos.Line != lines[k] || string(pos.Filename) != wantFile {
				fail("position of a loaded policy is not its own", fmt.Sprintf("policy%d reports %+v, it starts on line %d of %q", k, pos, lines[k], wantFile))
				return
			}
		}
		if ps != nil {
			ids := make([]string, n)
			for k := range ids {
				ids[k] = fmt.Sprintf("policy%d", k)
			}
			sort.Strings(ids)
			back, err := cedar.NewPolicyListFromBytes("again.cedar", ps.MarshalCedar())
			if err != nil || len(back) != n {
				fail("MarshalCedar of the loaded set does not parse back", fmt.Sprintf("%v, %d policies", err, len(back)))
				return
			}
			for j, id := range ids {
				if got, want := string(back[j].Annotations()["id"]), "t"+strings.TrimPrefix(id, "policy"); got != want {
					fail("MarshalCedar: policies not in lexicographic id order", fmt.Sprintf("position %d of the rendering holds %q, lexicographic order puts %s (%q) there", j, got, id, want))
					return
				}
			}
		}
	})
}
