// C10 - decoders and encoders are total: runner (child-process supervisor with journalling),
// decoders under observation and the downstream encoder/authorizer steps.
package props

import (
	"bufio"
	"bytes"
	"context"
	"encoding/json"
	"fmt"
	"hash/fnv"
	"io"
	"os"
	"os/exec"
	"os/signal"
	"path/filepath"
	"runtime/debug"
	"runtime/pprof"
	"sort"
	"strconv"
	"strings"
	"sync"
	"sync/atomic"
	"syscall"
	"time"
	"unicode/utf8"

	cedar "github.com/cedar-policy/cedar-go"
	"github.com/cedar-policy/cedar-go/types"
	"github.com/cedar-policy/cedar-go/x/exp/ast"
	"github.com/cedar-policy/cedar-go/x/exp/schema"

	"verif/internal/bridge"
	"verif/internal/mon"
)

func init() {
	Registry["C10"] = C10
	ChildModes["C10-child"] = c10Child
}

// ---------------------------------------------------------------------------------------
// child: regenerates the cases [from,to) of a stream and runs them, journalling every shot
// BEFORE cedar-go is called. Usage:
//   check C10-child <journal> <tier> <seed> <stream> <from> <to> <skipSub> <maxStackMB> <only>
// skipSub: sub-shots of case <from> below this number are skipped (resume after a crash);
// only=1: run exactly the shot (from, skipSub) and write stage markers (crash confirmation).

const c10US = "\x1f"

type c10Journal struct {
	f   *os.File
	buf []byte
}

func (j *c10Journal) line(fields ...string) {
	for i, f := range fields {
		if i > 0 {
			j.buf = append(j.buf, '\t')
		}
		f = strings.NewReplacer("\n", "\\n", "\t", "\\t").Replace(f)
		j.buf = append(j.buf, f...)
	}
	j.buf = append(j.buf, '\n')
}

func (j *c10Journal) flush() {
	if len(j.buf) > 0 {
		_, _ = j.f.Write(j.buf)
		j.buf = j.buf[:0]
	}
}

func c10Hash(target string, in []byte) string {
	h := fnv.New64a()
	h.Write([]byte(target))
	h.Write([]byte{0})
	h.Write(in)
	return strconv.FormatUint(h.Sum64(), 16)
}

var c10TraceJournal *c10Journal // set in only-mode: stage markers

func c10Child(args []string) int {
	if len(args) < 9 {
		fmt.Fprintln(os.Stderr, "usage: C10-child <journal> <tier> <seed> <stream> <from> <to> <skipSub> <maxStackMB> <only>")
		return 3
	}
	journal, tier, stream := args[0], args[1], args[3]
	seed, _ := strconv.ParseUint(args[2], 10, 64)
	from, _ := strconv.Atoi(args[4])
	to, _ := strconv.Atoi(args[5])
	skip, _ := strconv.Atoi(args[6])
	stackMB, _ := strconv.Atoi(args[7])
	only := args[8] == "1"
	if stackMB > 0 {
		debug.SetMaxStack(stackMB << 20)
	}
	budget := uint64(c10CPUBudgetSeconds)
	if v, err := strconv.ParseUint(os.Getenv("C10_CPU_BUDGET"), 10, 64); err == nil && v > 0 {
		budget = v
	}
	c10CPUBudget(budget)
	f, err := os.OpenFile(journal, os.O_APPEND|os.O_CREATE|os.O_WRONLY, 0o644)
	if err != nil {
		fmt.Fprintln(os.Stderr, "cannot open journal:", err)
		return 3
	}
	defer f.Close()
	j := &c10Journal{f: f}
	c := mon.New("C10", tier, seed)
	g := c10NewGen(c)
	_ = c10FixedOnce()
	shrunk := map[string]bool{}
	skipT := map[string]bool{}
	for _, t := range strings.Split(os.Getenv("C10_SKIP_TARGETS"), ",") {
		if t != "" {
			skipT[t] = true
		}
	}
	for idx := from; idx < to; idx++ {
		shots := g.Case(stream, idx)
		for sub, sh := range shots {
			if idx == from && sub < skip {
				continue
			}
			if only && (idx != from || sub != skip) {
				continue
			}
			if skipT[sh.Target] && !only {
				j.line("K", sh.Target)
				continue
			}
			j.line("S", strconv.Itoa(idx), strconv.Itoa(sub), sh.Target)
			j.flush() // on disk before cedar-go sees the input
			if only {
				c10TraceJournal = j
			}
			c10ShotStartCPU.Store(c10CPUNow())
			o := c10Run(sh.Target, sh.In, false, sh.NoJSON)
			c10TraceJournal = nil
			for _, v := range o.viols {
				if !shrunk[v.Sig] && len(sh.In) > 400 {
					shrunk[v.Sig] = true
					if min := c10Shrink(sh.Target, sh.In, v.Sig); len(min) < len(sh.In) {
						o2 := c10Run(sh.Target, min, true)
						for _, v2 := range o2.viols {
							if v2.Sig == v.Sig {
								v2.Witness["original_input"] = c10ShowInput(sh.In)
								v2.Witness["shrunk"] = true
								v = v2
								break
							}
						}
					}
				}
				v.Witness["input_class"] = sh.Class
				v.Witness["stream"] = stream
				v.Witness["case"] = idx
				v.Witness["sub"] = sub
				b, _ := json.Marshal(v)
				j.line("V", strconv.Itoa(idx), strconv.Itoa(sub), string(b))
			}
			c10ShotStartCPU.Store(-1) // (the shrinking runs above are covered by the same budget)
			acc := "0"
			if o.accepted {
				acc = "1"
			}
			j.line("R", strconv.Itoa(idx), strconv.Itoa(sub), c10Hash(sh.Target, sh.In), acc, sh.Target, sh.Class, strings.Join(o.counters, c10US))
			if sub == 0 && idx%97 == 0 {
				out := "rejected"
				if o.accepted {
					out = "accepted"
				}
				if len(o.viols) > 0 {
					out = "panic"
				}
				in := sh.Desc
				if in == "" {
					in = c10ShowInput(sh.In)
					if len(in) > 400 {
						in = in[:400] + "..."
					}
				}
				b, _ := json.Marshal(map[string]any{"decoder": sh.Target, "input_class": sh.Class, "input": in, "outcome": out})
				j.line("P", stream, string(b))
			}
		}
	}
	j.line("E")
	j.flush()
	return 0
}

// c10CPUBudget arms a CPU-time watchdog: unlike a wall clock it does not depend on the load of
// the machine. The budget is per SHOT: a goroutine compares the CPU time of the process
// (getrusage) with the value recorded when the current shot started; on overrun it dumps all
// goroutines and exits with 97. RLIMIT_CPU (20 budgets) is the backstop should that goroutine
// never get to run.
const c10CPUBudgetSeconds = 60

// deep-nesting inputs are up to 8 MiB; one of them alone can legitimately cost a minute of CPU
const c10DeepCPUBudgetSeconds = 900
const c10CPUMarker = "C10-CPU-BUDGET-EXCEEDED"

var c10ShotStartCPU atomic.Int64 // CPU ns of the process when the current shot started; -1 = idle

func c10CPUNow() int64 {
	var ru syscall.Rusage
	if syscall.Getrusage(syscall.RUSAGE_SELF, &ru) != nil {
		return 0
	}
	return ru.Utime.Nano() + ru.Stime.Nano()
}

func c10CPUOverrun(sec uint64) {
	fmt.Fprintf(os.Stderr, "%s: more than %d s of CPU time in one shot\n", c10CPUMarker, sec)
	_ = pprof.Lookup("goroutine").WriteTo(os.Stderr, 2)
	os.Exit(97)
}

func c10CPUBudget(sec uint64) {
	c10ShotStartCPU.Store(-1)
	ch := make(chan os.Signal, 1)
	signal.Notify(ch, syscall.SIGXCPU)
	go func() {
		tick := time.NewTicker(250 * time.Millisecond)
		for {
			select {
			case <-ch:
				c10CPUOverrun(sec)
			case <-tick.C:
				if s := c10ShotStartCPU.Load(); s >= 0 && c10CPUNow()-s > int64(sec)*1e9 {
					c10CPUOverrun(sec)
				}
			}
		}
	}()
	_ = syscall.Setrlimit(syscall.RLIMIT_CPU, &syscall.Rlimit{Cur: sec * 20, Max: sec*20 + 30})
}

// ---------------------------------------------------------------------------------------
// parent

type c10Parent struct {
	c        *mon.Ctx
	g        *c10Gen
	dir      string
	exe      string
	deep     chan struct{} // limits concurrent deep-nesting children (memory)
	seq      int64
	mu       sync.Mutex
	poolPath string
	hangs    map[string]int // decoder -> confirmed CPU-budget overruns (bounds the cost of a real hang)
}

type c10ChildEnd struct {
	completed bool
	timedOut  bool
	exit      string
	stderr    string
	last      *c10LastShot // journalled shot without a result line
}

type c10LastShot struct {
	idx, sub int
	target   string
	stage    string // from stage markers (only-mode)
}

// wall-clock backstop only (a hit is never a violation); the deciding watchdog is CPU time
const c10BatchWatchdog = 45 * time.Minute
const c10StackMB = 256

func (p *c10Parent) spawn(w *mon.W, stream string, from, to, skip, stackMB int, only bool, apply bool) c10ChildEnd {
	p.mu.Lock()
	p.seq++
	id := p.seq
	p.mu.Unlock()
	journal := filepath.Join(p.dir, fmt.Sprintf("j%d.txt", id))
	errPath := journal + ".err"
	defer os.Remove(journal)
	defer os.Remove(errPath)
	ef, err := os.Create(errPath)
	if err != nil {
		return c10ChildEnd{exit: "cannot create stderr file: " + err.Error()}
	}
	ctx, cancel := context.WithTimeout(context.Background(), c10BatchWatchdog)
	defer cancel()
	onlyS := "0"
	if only {
		onlyS = "1"
	}
	cmd := exec.CommandContext(ctx, p.exe, "C10-child", journal, p.c.Tier, strconv.FormatUint(p.c.Seed, 10), stream,
		strconv.Itoa(from), strconv.Itoa(to), strconv.Itoa(skip), strconv.Itoa(stackMB), onlyS)
	cmd.Stdout = ef
	cmd.Stderr = ef
	cpu := c10CPUBudgetSeconds
	if stream == "deep" {
		cpu = c10DeepCPUBudgetSeconds
	}
	p.mu.Lock()
	var skipTargets []string
	for t, n := range p.hangs {
		if n >= 3 {
			skipTargets = append(skipTargets, t)
		}
	}
	p.mu.Unlock()
	sort.Strings(skipTargets)
	cmd.Env = append(os.Environ(), "C10_SKIP_TARGETS="+strings.Join(skipTargets, ","), "GOMAXPROCS=1", "GOTRACEBACK=single", "C10_POOL="+p.poolPath, "C10_CPU_BUDGET="+strconv.Itoa(cpu))
	cmd.Cancel = func() error { return cmd.Process.Signal(syscall.SIGQUIT) } // goroutine dump on watchdog
	cmd.WaitDelay = 10 * time.Second
	runErr := cmd.Run()
	ef.Close()
	end := c10ChildEnd{}
	if ctx.Err() != nil {
		end.timedOut = true
	}
	if runErr != nil {
		end.exit = runErr.Error()
	}
	if b, err := os.ReadFile(errPath); err == nil {
		if len(b) > 200<<10 {
			b = append(b[:100<<10], b[len(b)-(100<<10):]...)
		}
		end.stderr = string(b)
	}
	// parse the journal
	jf, err := os.Open(journal)
	if err != nil {
		return end
	}
	defer jf.Close()
	rd := bufio.NewReaderSize(jf, 1<<16)
	var last *c10LastShot
	for {
		line, err := rd.ReadString('\n')
		if len(line) > 0 && strings.HasSuffix(line, "\n") {
			f := strings.Split(strings.TrimSuffix(line, "\n"), "\t")
			switch f[0] {
			case "S":
				if len(f) >= 4 {
					i, _ := strconv.Atoi(f[1])
					s, _ := strconv.Atoi(f[2])
					last = &c10LastShot{idx: i, sub: s, target: f[3]}
				}
			case "G":
				if last != nil && len(f) >= 2 {
					last.stage = f[1]
				}
			case "R":
				last = nil
				if apply && len(f) >= 8 {
					p.applyResult(w, stream, f)
				}
			case "V":
				if apply && len(f) >= 4 {
					var v c10Viol
					if json.Unmarshal([]byte(f[3]), &v) == nil {
						i, _ := strconv.Atoi(f[1])
						p.violation(w, i, v.Sig, v.What, v.Witness)
					} else {
						w.Inconclusive("unreadable violation line in journal")
					}
				}
			case "P":
				if apply && len(f) >= 3 {
					var s any
					if json.Unmarshal([]byte(f[2]), &s) == nil {
						w.Sample(f[1], s)
					}
				}
			case "K":
				if apply && len(f) >= 2 {
					w.Count("shot skipped: decoder " + f[1] + " already has 3 confirmed CPU-budget overruns in this run")
				}
			case "E":
				end.completed = runErr == nil
			}
		}
		if err != nil {
			break
		}
	}
	end.last = last
	return end
}

func (p *c10Parent) violation(w *mon.W, caseIdx int, sig, what string, wit any) {
	save := w.Index
	w.Index = caseIdx
	w.Violation(sig, what, wit)
	w.Index = save
}

func (p *c10Parent) applyResult(w *mon.W, stream string, f []string) {
	// R idx sub hash accepted target class counters
	w.Evals(1)
	acc := f[4] == "1"
	target, class := f[5], f[6]
	if acc {
		w.Count("decode " + target + ": accepted")
		w.Count("accepted -> every encoder + Authorize/Resolve ran")
	} else {
		w.Count("decode " + target + ": rejected")
	}
	w.Count("input-class " + class)
	w.Count("stream " + stream + ": shots")
	if acc || stream != "random-bytes" {
		w.NonTrivial(f[3])
	}
	if f[7] != "" {
		for _, k := range strings.Split(f[7], c10US) {
			w.Count(k)
		}
	}
}

// crashKind classifies an abnormal child end from its stderr.
func c10CrashKind(end c10ChildEnd) string {
	switch {
	case strings.Contains(end.stderr, "fatal error: stack overflow") || strings.Contains(end.stderr, "goroutine stack exceeds"):
		return "stack-overflow"
	case strings.Contains(end.stderr, c10CPUMarker):
		return "cpu-budget-exceeded"
	case end.timedOut:
		return "wall-clock-backstop"
	case strings.Contains(end.stderr, "fatal error: "):
		i := strings.Index(end.stderr, "fatal error: ")
		msg := end.stderr[i+len("fatal error: "):]
		if j := strings.IndexByte(msg, '\n'); j >= 0 {
			msg = msg[:j]
		}
		return "fatal(" + strings.TrimSpace(msg) + ")"
	case strings.Contains(end.stderr, "panic: "):
		return "unrecovered-panic"
	}
	return "died(" + end.exit + ")"
}

// c10CrashSite picks a stable representative of the recursion from a goroutine dump: the
// alphabetically first cedar-go function that occurs at least twice among the printed
// frames (all members of a recursion cycle occur equally often), else the first cedar-go frame.
func c10CrashSite(stderr string) string {
	counts := map[string]int{}
	first := ""
	n := 0
	for _, l := range strings.Split(stderr, "\n") {
		if strings.HasPrefix(l, "\t") || !strings.Contains(l, "cedar-policy/cedar-go/") {
			continue
		}
		fn := l
		if j := strings.LastIndex(fn, "("); j > 0 {
			fn = fn[:j]
		}
		fn = strings.TrimPrefix(fn, "github.com/cedar-policy/cedar-go/")
		fn = strings.TrimPrefix(fn, "created by ")
		if first == "" {
			first = fn
		}
		counts[fn]++
		n++
		if n > 400 {
			break
		}
	}
	// the package of the recursing functions is the stable part (which member of the cycle is
	// hit, and which of several mutually recursive types, varies with the input)
	pkg := func(fn string) string {
		if i := strings.LastIndex(fn, "/"); i >= 0 {
			if j := strings.Index(fn[i:], "."); j >= 0 {
				return fn[:i+j]
			}
		} else if j := strings.Index(fn, "."); j >= 0 {
			return fn[:j]
		}
		return fn
	}
	var rec []string
	for fn, c := range counts {
		if c >= 2 {
			rec = append(rec, fn)
		}
	}
	sort.Strings(rec)
	if len(rec) > 0 {
		return "recursion in package " + pkg(rec[0])
	}
	if first != "" {
		return "in package " + pkg(first)
	}
	return "unknown"
}

func c10Head(s string, lines int) string {
	parts := strings.SplitN(s, "\n", lines+1)
	if len(parts) > lines {
		parts = parts[:lines]
	}
	return strings.Join(parts, "\n")
}

// crashed handles an abnormal child end attributed to shot (idx, sub). In the batched streams
// the shot is first re-run alone under the Go default stack limit; only a reproduced crash /
// CPU-budget overrun is judged. Deep-nesting cases already run alone under default limits.
func (p *c10Parent) crashed(w *mon.W, stream string, end c10ChildEnd, stackMB int) {
	ls := end.last
	kind1 := c10CrashKind(end)
	shots := p.g.Case(stream, ls.idx)
	var sh c10Shot
	if ls.sub < len(shots) {
		sh = shots[ls.sub]
	}
	single := end
	first := "ran alone under the Go default limits"
	if stream != "deep" {
		w.Count("child ended abnormally (" + kind1 + ") -> shot re-run alone")
		first = kind1 + fmt.Sprintf(" with max stack %d MiB inside a batch", stackMB)
		single = p.spawn(w, stream, ls.idx, ls.idx+1, ls.sub, 0, true, false)
		if single.completed {
			if kind1 == "stack-overflow" {
				w.Count(fmt.Sprintf("%s: needs more than %d MiB of stack but completes under the Go default limit (1 GiB): %s", ls.target, stackMB, sh.Class))
			} else {
				w.Inconclusive(fmt.Sprintf("%s in batch not reproduced when the shot is re-run alone (%s)", kind1, ls.target))
			}
			return
		}
		if single.last == nil {
			w.Inconclusive("confirmation child died outside the shot: " + c10CrashKind(single))
			return
		}
	}
	kind := c10CrashKind(single)
	stage := "decode"
	if single.last != nil && single.last.stage != "" {
		stage = single.last.stage
	}
	desc := sh.Desc
	if desc == "" {
		desc = c10ShowInput(sh.In)
	}
	switch {
	case kind == "stack-overflow":
		// judged below
	case kind == "cpu-budget-exceeded" && stage == "decode":
		// judged below
	case kind == "cpu-budget-exceeded":
		// the property bounds the time of decoders only; a slow encoder is recorded, not judged
		w.Count(fmt.Sprintf("CPU budget exhausted after decoding, in %s (%s, %s): not a decoder hang", stage, ls.target, sh.Class))
		w.Sample("slow encoder on accepted value", map[string]any{"decoder": ls.target, "stage": stage, "input_class": sh.Class, "input": desc, "input_len": len(sh.In)})
		return
	case strings.HasPrefix(kind, "fatal(") && !strings.Contains(kind, "out of memory"):
		// any other fatal runtime error (e.g. concurrent map access): judged below
	default:
		// wall-clock backstop, out of memory, killed by a signal: environment, never a verdict
		w.Inconclusive(fmt.Sprintf("%s while %s processed %s (%d bytes): cannot be attributed to cedar-go", kind, ls.target, sh.Class, len(sh.In)))
		return
	}
	site := c10CrashSite(single.stderr)
	entry := ls.target
	if stage != "decode" {
		entry += " -> " + stage
	}
	// signature: a recursion is named by its representative function; the function a CPU-budget
	// overrun happens to be in when dumped is arbitrary (any function of the loop body), so a
	// hang is named by decoder family and stage only (the dump is in the witness)
	sig := c10Sig(ls.target, stage, kind+", "+site)
	if kind == "cpu-budget-exceeded" {
		sig = c10Sig(ls.target, stage, kind+" (no result within the CPU budget)")
	}
	head := sh.In
	if len(head) > 160 {
		head = head[:160]
	}
	what := fmt.Sprintf("%s dies with %s (%s) on input class %s: %s (%d bytes)", entry, kind, site, sh.Class, desc, len(sh.In))
	wit := map[string]any{"decoder": ls.target, "stage": stage, "crash_kind": kind, "crash_site": site, "input_class": sh.Class, "input_description": desc,
		"input_len": len(sh.In), "input_head": c10ShowInput(head), "stream": stream, "case": ls.idx, "sub": ls.sub,
		"first_observation": first, "confirmation": kind + " when run alone with the Go default stack limit (1 GiB)",
		"stderr_head": c10Head(single.stderr, 40),
		"reproduce":   fmt.Sprintf("./bin/check C10-child /tmp/j.txt %s %d %s %d %d %d 0 1", p.c.Tier, p.c.Seed, stream, ls.idx, ls.idx+1, ls.sub)}
	w.Count("crash: " + entry + " " + kind)
	if kind == "cpu-budget-exceeded" {
		p.mu.Lock()
		p.hangs[ls.target]++
		p.mu.Unlock()
	}
	p.violation(w, ls.idx, sig, what, wit)
}

// runRange runs the cases [from,to) of a stream in child processes, restarting after crashes.
func (p *c10Parent) runRange(w *mon.W, stream string, from, to int) {
	if stream == "deep" {
		// one case (one shot) per child, Go default stack limit, stage markers on
		for i := from; i < to; i++ {
			end := p.spawn(w, stream, i, i+1, 0, 0, true, true)
			if end.completed {
				continue
			}
			if end.last == nil {
				w.Inconclusive("child died outside a journalled shot: " + c10CrashKind(end) + " " + c10Head(end.stderr, 3))
				continue
			}
			w.Evals(1)
			p.crashed(w, stream, end, 0)
		}
		return
	}
	cur, skip := from, 0
	for guard := 0; cur < to && guard < 10000; guard++ {
		end := p.spawn(w, stream, cur, to, skip, c10StackMB, false, true)
		if end.completed {
			return
		}
		if end.last == nil {
			// died outside any shot: harness problem, never a verdict on cedar-go
			w.Inconclusive("child died outside a journalled shot: " + c10CrashKind(end) + " " + c10Head(end.stderr, 3))
			return
		}
		w.Evals(1)
		p.crashed(w, stream, end, c10StackMB)
		cur, skip = end.last.idx, end.last.sub+1
	}
}

var c10MaxBatch = map[string]int{"directed": 200, "json-struct": 4, "text-token": 6, "byte-mut": 150, "random-bytes": 60, "valid-gen": 150}

func C10(c *mon.Ctx) {
	c.Rule = "case = (decoder, input bytes); every input is journalled and then decoded by the real cedar-go decoder in a child process; allowed outcomes are {value, error}; " +
		"every accepted value then goes through every encoder (MarshalCedar, MarshalJSON, Encoder.Encode), cedar.Authorize with fixed requests, Schema.Resolve + re-marshal, and a re-parse of the encoder output. " +
		"Inputs: directed degenerate shapes; JSON structural mutation (EVERY node position of a seed document replaced by null, [], {}, \"\", 0, true, ...; every key/element deleted, duplicated; unknown keys added); " +
		"truncation at every token boundary, token deletion/duplication/swap/replacement; random byte-level mutation; arbitrary bytes and token soups to every decoder; unmodified corpus and generated documents; " +
		"deep nesting of every recursive construct at depths 2^10..2^21 (<= 8 MiB). Seeds: corpus tarballs of the repository + documents from the harness's own printers/JSON writers. " +
		"distinct_nontrivial = distinct (decoder, input) pairs that are accepted or derived from a valid seed document (rejected random byte strings do not count)."
	c.Assume = []string{
		"a panic is any Go panic escaping the called cedar-go API (recovered in the child and attributed by its first cedar-go stack frame); a crash is a child that dies with a fatal runtime error while a journalled input is being processed",
		"batched streams run with a 256 MiB stack limit (runaway recursion dies quickly); an abnormal end is judged only if the single input reproduces it when re-run alone under the Go default limit (1 GiB). Deep-nesting inputs run alone under the Go default limits from the start, so an input that merely needs a big stack does not count",
		"bounded time is judged for DECODERS only (the property promises no time bound for encoders) by a CPU-time budget (RLIMIT_CPU, independent of machine load): 60 s per input (normally milliseconds; after 3 confirmed overruns of one decoder its remaining inputs are skipped and counted, which bounds the cost of a real hang), 900 s for a single deep-nesting input of up to 8 MiB; a budget overrun inside an encoder is recorded as an observation; out-of-memory, kill signals and the 45 min wall-clock backstop only ever yield inconclusive",
		"costs that grow polynomially by construction are not hangs and are kept out of the workload: JSON nesting below the encoding/json limit of 10000 levels is exercised up to depth 1024 (quick) / 2490 (thorough) because cedar-go re-scans the rest of the document at every level (about 30 CPU-s for a 25 KB policy at depth 2490); `has a.b.c...` paths up to 256 segments (the sugar expands to a tree of quadratic size); nested schema record types up to depth 8192 (indented rendering is quadratic); schema type paths up to 65536 segments (repeated concatenation); the JSON encoders are skipped for accepted inputs above 64 KiB or nested deeper than 2048 (they re-compact the child's bytes at every level)",
		"the streaming decoder gets a logical budget: it may not yield more policies than the input has bytes",
		"decoders that are thin wrappers around the same code share a signature family (policy-text: Policy.UnmarshalCedar, PolicyList.UnmarshalCedar, NewPolicyListFromBytes, NewPolicySetFromBytes, Decoder; policy-json: Policy/PolicySet.UnmarshalJSON; entity-json; value-json; entityuid-text; schema-text; schema-json); the concrete decoder and stage are in the witness",
	}
	c.Floor = 5000
	exe, err := os.Executable()
	if err != nil {
		exe = os.Args[0]
	}
	dir, err := os.MkdirTemp("", "c10-")
	if err != nil {
		c.Inconclusive("cannot create journal directory: " + err.Error())
		return
	}
	defer os.RemoveAll(dir)
	g := c10NewGen(c)
	g.need("directed")
	g.need("deep")
	p := &c10Parent{c: c, g: g, dir: dir, exe: exe, deep: make(chan struct{}, c.N(4, 6)), hangs: map[string]int{}}
	// children load the seed pool from a file instead of re-reading the tarballs (same content)
	if b, err := json.Marshal(g.pool); err == nil {
		if os.WriteFile(filepath.Join(dir, "pool.json"), b, 0o644) == nil {
			p.poolPath = filepath.Join(dir, "pool.json")
		}
	}
	counts := map[string]int{}
	for _, s := range append(append([]string{}, c10Streams...), "deep") {
		counts[s] = g.Count(s)
	}
	c.Extra["cases_per_stream"] = counts
	c.Extra["decoders"] = c10AllTargets
	c.Extra["seed_pool"] = map[string]int{"cedar": len(g.pool.Cedar), "cedarschema": len(g.pool.SchemaText), "entities.json": len(g.pool.EntitiesJSON), "test.json": len(g.pool.TestJSON),
		"cedarschema.json": len(g.pool.SchemaJSON), "validation.json": len(g.pool.ValidationJSON), "derived policy json": len(g.pool.PolicyJSON), "derived policy-set json": len(g.pool.PolicySetJSON),
		"derived schema json": len(g.pool.SchemaJSONConv)}
	var cons []string
	seen := map[string]bool{}
	for _, d := range g.deep {
		if !seen[d.Construct] {
			seen[d.Construct] = true
			cons = append(cons, d.Construct)
		}
	}
	sort.Strings(cons)
	c.Extra["deep_constructs"] = cons

	// C10_STREAMS (development aid): comma-separated subset of streams to run
	only := map[string]bool{}
	if s := os.Getenv("C10_STREAMS"); s != "" {
		for _, x := range strings.Split(s, ",") {
			only[x] = true
		}
		c.Extra["restricted_to_streams"] = s
	}
	var wg sync.WaitGroup
	// deep nesting runs beside the other streams, one case per child, at most 4 at a time
	wg.Add(1)
	go func() {
		defer wg.Done()
		if len(only) > 0 && !only["deep"] {
			return
		}
		c.ParFor("deep", len(g.deep), func(w *mon.W, i int) {
			p.deep <- struct{}{}
			defer func() { <-p.deep }()
			d := g.deep[i]
			w.Count(fmt.Sprintf("deep %s depth=%d -> %s", d.Construct, d.Depth, d.Target))
			p.runRange(w, "deep", i, i+1)
		})
	}()
	for _, stream := range c10Streams {
		if len(only) > 0 && !only[stream] {
			continue
		}
		n := g.Count(stream)
		if c.Replay != nil {
			c.ParFor(stream, n, func(w *mon.W, i int) { p.runRange(w, stream, i, i+1) })
			continue
		}
		batch := (n + 47) / 48
		if max := c10MaxBatch[stream]; batch > max {
			batch = max // keeps the CPU cost of one child far below the CPU budget in every tier
		}
		if batch < 1 {
			batch = 1
		}
		nb := (n + batch - 1) / batch
		c.ParFor(stream, nb, func(w *mon.W, b int) {
			from, to := b*batch, (b+1)*batch
			if to > n {
				to = n
			}
			p.runRange(w, stream, from, to)
		})
	}
	wg.Wait()
}

// c10Viol is a violation observed in-process (a recovered panic or a logical-budget breach).
type c10Viol struct {
	Sig     string         `json:"sig"`
	What    string         `json:"what"`
	Witness map[string]any `json:"witness"`
}

// c10Obs collects what one shot showed.
type c10Obs struct {
	target   string
	in       []byte
	counters []string
	viols    []c10Viol
	accepted bool
	quiet    bool // shrinking: no counters
	big      bool // input above 64 KiB: encoders whose cost grows with size x depth are skipped
}

func (o *c10Obs) count(k string) {
	if !o.quiet {
		o.counters = append(o.counters, k)
	}
}

func c10ShowInput(in []byte) string {
	const lim = 1500
	s := in
	suffix := ""
	if len(s) > lim {
		s = s[:lim]
		suffix = fmt.Sprintf("...(%d bytes in total)", len(in))
	}
	if utf8.Valid(s) && !bytes.ContainsAny(s, "\x00\x01\x02\x03\x04\x05\x06\x07\x08\x0b\x0c\x0e\x0f\x10\x11\x12\x13\x14\x15\x16\x17\x18\x19\x1a\x1b\x1c\x1d\x1e\x1f\x7f") {
		return string(s) + suffix
	}
	return "go-quoted:" + strconv.Quote(string(s)) + suffix
}

// guard runs fn and turns a panic into a violation whose signature names the entry point,
// the stage (decode or the downstream operation) and the cedar-go function that panicked.
func (o *c10Obs) guard(stage string, fn func()) (ok bool) {
	if c10TraceJournal != nil && stage != "harness" && !o.quiet {
		c10TraceJournal.line("G", stage)
		c10TraceJournal.flush()
	}
	defer func() {
		if r := recover(); r != nil {
			ok = false
			st := debug.Stack()
			site := mon.PanicSite(st)
			entry := o.target
			if stage != "decode" {
				entry += " -> " + stage
			}
			sig := c10Sig(o.target, stage, "panic@"+site)
			if strings.HasPrefix(site, "harness:") || site == "unknown" {
				sig = "harness-panic:" + entry + "@" + site
			}
			msg := fmt.Sprint(r)
			if len(msg) > 300 {
				msg = msg[:300]
			}
			s := string(st)
			if len(s) > 2500 {
				s = s[:2500]
			}
			o.count("panic: " + entry)
			o.viols = append(o.viols, c10Viol{Sig: sig,
				What:    fmt.Sprintf("%s panics in %s (%s) on input %s", entry, site, msg, c10ShowInput(o.in)),
				Witness: map[string]any{"decoder": o.target, "stage": stage, "panic": msg, "panic_site": site, "input": c10ShowInput(o.in), "input_len": len(o.in), "stack": s}})
		}
	}()
	fn()
	return true
}

const c10ReparseMax = 8 << 10

// c10Family groups decoders that are thin wrappers around the same code, so that one defect
// reachable through several of them keeps one signature (the concrete decoder and the stage
// are in the witness).
var c10Family = map[string]string{
	"policy.text": "policy-text", "policylist.text": "policy-text", "policylist.frombytes": "policy-text", "policyset.frombytes": "policy-text", "decoder.stream": "policy-text",
	"policy.json": "policy-json", "policyset.json": "policy-json",
	"entity.json": "entity-json", "entitymap.json": "entity-json",
	"value.json": "value-json", "record.json": "value-json", "set.json": "value-json", "decimal.json": "value-json", "datetime.json": "value-json",
	"duration.json": "value-json", "ipaddr.json": "value-json", "entityuid.json": "value-json", "pattern.json": "value-json",
	"entityuid.text": "entityuid-text", "schema.text": "schema-text", "schema.json": "schema-json",
}

// c10Sig: decoder family + phase (decode, or use of an accepted value) + kind/site.
func c10Sig(target, stage, kind string) string {
	fam := c10Family[target]
	if fam == "" {
		fam = target
	}
	if stage == "decode" {
		return fam + " decode: " + kind
	}
	return fam + " accepted value -> encoders/authorizer: " + kind
}

func (o *c10Obs) budget(stage, what string) {
	o.viols = append(o.viols, c10Viol{Sig: c10Sig(o.target, stage, "logical-budget-exceeded"),
		What:    fmt.Sprintf("%s: %s on input %s", o.target, what, c10ShowInput(o.in)),
		Witness: map[string]any{"decoder": o.target, "stage": stage, "input": c10ShowInput(o.in), "input_len": len(o.in)}})
}

// ---------------------------------------------------------------------------------------
// fixed environment for the Authorize step

type c10Fixed struct {
	ents     types.EntityMap
	req      cedar.Request
	zeroReq  cedar.Request
	entPols  *cedar.PolicySet // fixed policies that look into entities (for decoded entity maps)
	ctxPols  *cedar.PolicySet // fixed policies that look at context.v (for decoded values)
	entities []types.EntityUID
}

var c10FixedOnce = sync.OnceValue(func() *c10Fixed {
	env := baseEnv()
	f := &c10Fixed{ents: bridge.ToEntityMap(env), req: bridge.ToRequest(env)}
	ps, err := cedar.NewPolicySetFromBytes("fixed.cedar", []byte(`
permit(principal in G::"b", action, resource) when { principal has a && principal.a == resource.a };
permit(principal, action, resource) when { principal.hasTag("t") && principal.getTag("t") == 7 };
forbid(principal, action, resource is G in G::"a") unless { context.s like "x*" };
permit(principal, action, resource) when { resource in principal || principal in [resource] || principal.e.a has b };
`))
	if err != nil {
		panic("c10: fixed entity policies do not parse: " + err.Error())
	}
	f.entPols = ps
	ps2, err := cedar.NewPolicySetFromBytes("fixed2.cedar", []byte(`
permit(principal, action, resource) when { context.v == context.v && [context.v].contains(context.v) };
permit(principal, action, resource) when { context.v has a || context.v.a.b == 1 };
forbid(principal, action, resource) when { context.v < 1 || context.v.isEmpty() || context.v like "*" || context.v.lessThan(context.v) || context.v.isLoopback() || context.v.toDate() == context.v || context.v.toDays() == 0 || context.v in context.v };
`))
	if err != nil {
		panic("c10: fixed context policies do not parse: " + err.Error())
	}
	f.ctxPols = ps2
	return f
})

// ---------------------------------------------------------------------------------------
// downstream: every accepted value goes through every encoder and the authorizer

func (o *c10Obs) policyDown(p *cedar.Policy, full bool) {
	f := c10FixedOnce()
	var text, js []byte
	o.guard("Policy.MarshalCedar", func() { text = p.MarshalCedar() })
	if !o.big {
		// Policy.MarshalJSON re-compacts the child's bytes at every nesting level (size x depth)
		o.guard("Policy.MarshalJSON", func() { js, _ = p.MarshalJSON() })
	} else {
		o.count("big input: JSON encoders skipped (cost grows with size x depth)")
	}
	o.guard("Encoder.Encode", func() { _ = cedar.NewEncoder(io.Discard).Encode(p) })
	o.guard("Policy.accessors", func() { _ = p.AST(); _ = p.Annotations(); _ = p.Effect(); _ = p.Position() })
	o.guard("Authorize", func() {
		ps := cedar.NewPolicySet()
		ps.Add("p", p)
		cedar.Authorize(ps, f.ents, f.req)
		cedar.Authorize(ps, types.EntityMap{}, f.zeroReq)
	})
	o.guard("PolicySet{p}.MarshalCedar/MarshalJSON", func() {
		ps := cedar.NewPolicySet()
		ps.Add("p", p)
		_ = ps.MarshalCedar()
		if !o.big {
			_, _ = ps.MarshalJSON()
		}
	})
	if !full {
		return
	}
	// the re-parse of encoder output is a bonus source of nearly-valid inputs; it is skipped
	// for big outputs (JSON decoding cost grows with size x depth)
	if text != nil && len(text) <= c10ReparseMax {
		o.guard("reparse(MarshalCedar)", func() {
			var q cedar.Policy
			if q.UnmarshalCedar(text) == nil {
				_ = q.MarshalCedar()
			}
		})
	}
	if js != nil && len(js) <= c10ReparseMax {
		o.guard("reparse(MarshalJSON)", func() {
			var q cedar.Policy
			if q.UnmarshalJSON(js) == nil {
				_, _ = q.MarshalJSON()
				_ = q.MarshalCedar()
			}
		})
	}
}

func (o *c10Obs) policiesDown(pl []*cedar.Policy) {
	f := c10FixedOnce()
	o.guard("PolicyList.MarshalCedar", func() { _ = cedar.PolicyList(pl).MarshalCedar() })
	for i, p := range pl {
		if i >= 6 {
			break
		}
		o.policyDown(p, i < 2)
	}
	o.guard("Authorize(all)", func() {
		ps := cedar.NewPolicySet()
		for i, p := range pl {
			ps.Add(cedar.PolicyID("policy"+strconv.Itoa(i)), p)
		}
		cedar.Authorize(ps, f.ents, f.req)
	})
}

func (o *c10Obs) policySetDown(ps *cedar.PolicySet) {
	f := c10FixedOnce()
	o.guard("PolicySet.MarshalCedar", func() { _ = ps.MarshalCedar() })
	if !o.big {
		o.guard("PolicySet.MarshalJSON", func() { _, _ = ps.MarshalJSON() })
	}
	o.guard("Authorize(set)", func() {
		cedar.Authorize(ps, f.ents, f.req)
		cedar.Authorize(ps, nil, f.zeroReq)
	})
	var ids []string
	m := map[string]*cedar.Policy{}
	o.guard("PolicySet.All", func() {
		for id, p := range ps.All() {
			ids = append(ids, string(id))
			m[string(id)] = p
		}
	})
	sort.Strings(ids)
	for i, id := range ids {
		if i >= 6 {
			break
		}
		o.policyDown(m[id], i < 2)
	}
}

func (o *c10Obs) valueDown(v types.Value) {
	f := c10FixedOnce()
	o.guard("Value.MarshalCedar", func() { _ = v.MarshalCedar() })
	o.guard("Value.String", func() { _ = v.String() })
	o.guard("Value.MarshalJSON", func() { _, _ = json.Marshal(v) })
	o.guard("Value.Equal", func() { _ = v.Equal(v) })
	o.guard("NewSet/NewRecord(value)", func() {
		s := types.NewSet(v, v)
		_ = s.Contains(v)
		r := types.NewRecord(types.RecordMap{"v": v})
		_ = r.MarshalCedar()
		_, _ = r.MarshalJSON()
	})
	o.guard("policy-with-literal", func() {
		p := cedar.NewPolicyFromAST((*cedarASTPolicy)(ast.Permit().When(ast.Value(v).Equal(ast.Value(v)))))
		_ = p.MarshalCedar()
		_, _ = p.MarshalJSON()
	})
	o.guard("Authorize(context.v)", func() {
		req := f.req
		req.Context = types.NewRecord(types.RecordMap{"v": v})
		cedar.Authorize(f.ctxPols, f.ents, req)
		if r, ok := v.(types.Record); ok {
			req.Context = r
			cedar.Authorize(f.entPols, f.ents, req)
		}
	})
}

func (o *c10Obs) entityMapDown(m types.EntityMap) {
	f := c10FixedOnce()
	o.guard("EntityMap.MarshalJSON", func() { _, _ = m.MarshalJSON() })
	uids := make([]types.EntityUID, 0, len(m))
	for u := range m {
		uids = append(uids, u)
	}
	sort.Slice(uids, func(i, j int) bool {
		if uids[i].Type != uids[j].Type {
			return uids[i].Type < uids[j].Type
		}
		return uids[i].ID < uids[j].ID
	})
	for i, u := range uids {
		if i >= 6 {
			break
		}
		e := m[u]
		o.guard("Entity.MarshalJSON", func() { _, _ = json.Marshal(e) })
		o.guard("Entity.attrs/tags.MarshalCedar", func() { _ = e.Attributes.MarshalCedar(); _ = e.Tags.MarshalCedar(); _ = e.UID.MarshalCedar() })
	}
	o.guard("Authorize(entities)", func() {
		cedar.Authorize(f.entPols, m, f.req)
		for i, u := range uids {
			if i >= 3 {
				break
			}
			req := f.req
			req.Principal = u
			req.Resource = uids[len(uids)-1-i]
			cedar.Authorize(f.entPols, m, req)
		}
	})
}

func (o *c10Obs) schemaDown(s *schema.Schema) {
	var text, js []byte
	o.guard("Schema.MarshalCedar", func() { text, _ = s.MarshalCedar() })
	o.guard("Schema.MarshalJSON", func() { js, _ = s.MarshalJSON() })
	o.guard("Schema.Resolve", func() {
		if _, err := s.Resolve(); err != nil {
			o.count("schema resolve: error")
		} else {
			o.count("schema resolve: ok")
		}
	})
	o.guard("Schema.MarshalCedar(after Resolve)", func() { _, _ = s.MarshalCedar() })
	o.guard("Schema.MarshalJSON(after Resolve)", func() { _, _ = s.MarshalJSON() })
	o.guard("Schema.AST", func() { _ = s.AST() })
	if text != nil && len(text) <= c10ReparseMax {
		o.guard("reparse(Schema.MarshalCedar)", func() {
			var q schema.Schema
			if q.UnmarshalCedar(text) == nil {
				_, _ = q.Resolve()
				_, _ = q.MarshalJSON()
			}
		})
	}
	if js != nil && len(js) <= c10ReparseMax {
		o.guard("reparse(Schema.MarshalJSON)", func() {
			var q schema.Schema
			if q.UnmarshalJSON(js) == nil {
				_, _ = q.Resolve()
				_, _ = q.MarshalCedar()
			}
		})
	}
}

// ---------------------------------------------------------------------------------------
// decoders

func c10TypedValue[T any, PT interface {
	*T
	json.Unmarshaler
}](o *c10Obs, conv func(T) types.Value) {
	var v T
	var err error
	if !o.guard("decode", func() { err = PT(&v).UnmarshalJSON(o.in) }) || err != nil {
		return
	}
	o.accepted = true
	o.valueDown(conv(v))
}

var c10Targets = map[string]func(o *c10Obs){
	"policy.text": func(o *c10Obs) {
		var p cedar.Policy
		var err error
		if !o.guard("decode", func() { err = p.UnmarshalCedar(o.in) }) || err != nil {
			return
		}
		o.accepted = true
		o.policyDown(&p, true)
	},
	"policylist.text": func(o *c10Obs) {
		var pl cedar.PolicyList
		var err error
		if !o.guard("decode", func() { err = pl.UnmarshalCedar(o.in) }) || err != nil {
			return
		}
		o.accepted = true
		o.policiesDown(pl)
	},
	"policylist.frombytes": func(o *c10Obs) {
		var pl cedar.PolicyList
		var err error
		if !o.guard("decode", func() { pl, err = cedar.NewPolicyListFromBytes("f.cedar", o.in) }) || err != nil {
			return
		}
		o.accepted = true
		o.policiesDown(pl)
	},
	"policyset.frombytes": func(o *c10Obs) {
		var ps *cedar.PolicySet
		var err error
		if !o.guard("decode", func() { ps, err = cedar.NewPolicySetFromBytes("f.cedar", o.in) }) || err != nil || ps == nil {
			return
		}
		o.accepted = true
		o.policySetDown(ps)
	},
	"decoder.stream": func(o *c10Obs) {
		var pl []*cedar.Policy
		var err error
		over := false
		if !o.guard("decode", func() {
			dec := cedar.NewDecoder(bytes.NewReader(o.in))
			for {
				p := new(cedar.Policy)
				if err = dec.Decode(p); err != nil {
					return
				}
				pl = append(pl, p)
				// logical budget: a policy needs at least one byte of input
				if len(pl) > len(o.in)+1 {
					over = true
					return
				}
			}
		}) {
			return
		}
		if over {
			o.budget("decode", fmt.Sprintf("Decoder.Decode yielded %d policies from %d bytes without reporting EOF (no progress)", len(pl), len(o.in)))
			return
		}
		if err != io.EOF {
			if len(pl) > 0 {
				o.count("decoder.stream: policies before error")
				o.policiesDown(pl)
			}
			return
		}
		o.accepted = true
		o.policiesDown(pl)
	},
	"policy.json": func(o *c10Obs) {
		var p cedar.Policy
		var err error
		if !o.guard("decode", func() { err = p.UnmarshalJSON(o.in) }) || err != nil {
			return
		}
		o.accepted = true
		o.policyDown(&p, true)
	},
	"policyset.json": func(o *c10Obs) {
		var ps cedar.PolicySet
		var err error
		if !o.guard("decode", func() { err = ps.UnmarshalJSON(o.in) }) || err != nil {
			return
		}
		o.accepted = true
		o.policySetDown(&ps)
	},
	"entity.json": func(o *c10Obs) {
		var e types.Entity
		var err error
		if !o.guard("decode", func() { err = json.Unmarshal(o.in, &e) }) || err != nil {
			return
		}
		o.accepted = true
		o.entityMapDown(types.EntityMap{e.UID: e})
	},
	"entitymap.json": func(o *c10Obs) {
		var m types.EntityMap
		var err error
		if !o.guard("decode", func() { err = m.UnmarshalJSON(o.in) }) || err != nil {
			return
		}
		o.accepted = true
		o.entityMapDown(m)
	},
	"value.json": func(o *c10Obs) {
		var v types.Value
		var err error
		if !o.guard("decode", func() { err = types.UnmarshalJSON(o.in, &v) }) || err != nil {
			return
		}
		o.accepted = true
		if v == nil {
			o.count("value.json: accepted with nil Value")
			return
		}
		o.valueDown(v)
	},
	"record.json":   func(o *c10Obs) { c10TypedValue[types.Record](o, func(v types.Record) types.Value { return v }) },
	"set.json":      func(o *c10Obs) { c10TypedValue[types.Set](o, func(v types.Set) types.Value { return v }) },
	"decimal.json":  func(o *c10Obs) { c10TypedValue[types.Decimal](o, func(v types.Decimal) types.Value { return v }) },
	"datetime.json": func(o *c10Obs) { c10TypedValue[types.Datetime](o, func(v types.Datetime) types.Value { return v }) },
	"duration.json": func(o *c10Obs) { c10TypedValue[types.Duration](o, func(v types.Duration) types.Value { return v }) },
	"ipaddr.json":   func(o *c10Obs) { c10TypedValue[types.IPAddr](o, func(v types.IPAddr) types.Value { return v }) },
	"entityuid.json": func(o *c10Obs) {
		var u types.EntityUID
		var err error
		if !o.guard("decode", func() { err = u.UnmarshalJSON(o.in) }) || err != nil {
			return
		}
		o.accepted = true
		o.guard("ImplicitlyMarshaledEntityUID.MarshalJSON", func() { _, _ = types.ImplicitlyMarshaledEntityUID(u).MarshalJSON() })
		o.valueDown(u)
	},
	"entityuid.text": func(o *c10Obs) {
		var u types.EntityUID
		var err error
		if !o.guard("decode", func() { err = u.UnmarshalCedar(o.in) }) || err != nil {
			return
		}
		o.accepted = true
		o.guard("EntityUID.MarshalBinary", func() { _, _ = u.MarshalBinary() })
		o.valueDown(u)
	},
	"pattern.json": func(o *c10Obs) {
		var p types.Pattern
		var err error
		if !o.guard("decode", func() { err = p.UnmarshalJSON(o.in) }) || err != nil {
			return
		}
		o.accepted = true
		o.guard("Pattern.MarshalCedar", func() { _ = p.MarshalCedar() })
		o.guard("Pattern.MarshalJSON", func() { _, _ = p.MarshalJSON() })
		o.guard("Pattern.Match", func() { _ = p.Match("abc"); _ = p.Match("") })
		o.guard("policy-with-pattern", func() {
			pol := cedar.NewPolicyFromAST((*cedarASTPolicy)(ast.Permit().When(ast.String("abc").Like(p))))
			_ = pol.MarshalCedar()
			_, _ = pol.MarshalJSON()
		})
	},
	"schema.text": func(o *c10Obs) {
		var s schema.Schema
		var err error
		if !o.guard("decode", func() { err = s.UnmarshalCedar(o.in) }) || err != nil {
			return
		}
		o.accepted = true
		o.schemaDown(&s)
	},
	"schema.json": func(o *c10Obs) {
		var s schema.Schema
		var err error
		if !o.guard("decode", func() { err = s.UnmarshalJSON(o.in) }) || err != nil {
			return
		}
		o.accepted = true
		o.schemaDown(&s)
	},
}

// c10Run executes one shot in-process.
func c10Run(target string, in []byte, quiet bool, noJSON ...bool) *c10Obs {
	o := &c10Obs{target: target, in: in, quiet: quiet, big: len(in) > 64<<10 || (len(noJSON) > 0 && noJSON[0])}
	fn := c10Targets[target]
	if fn == nil {
		o.viols = append(o.viols, c10Viol{Sig: "harness-panic:unknown target " + target, What: "unknown target"})
		return o
	}
	o.guard("harness", func() { fn(o) })
	return o
}

// c10Shrink reduces the input (ddmin over byte chunks) while the same signature persists.
func c10Shrink(target string, in []byte, sig string) []byte {
	if len(in) > 64<<10 {
		return in
	}
	trials := 0
	has := func(cand []byte) bool {
		trials++
		o := c10Run(target, cand, true)
		for _, v := range o.viols {
			if v.Sig == sig {
				return true
			}
		}
		return false
	}
	cur := append([]byte{}, in...)
	// JSON documents: structural reduction first (delete members/elements, collapse sub-trees)
	for pass := 0; pass < 3 && trials < 3000; pass++ {
		root, ok := c10ParseJSON(string(cur))
		if !ok {
			break
		}
		progress := false
		// descending preorder ids: a change at id leaves all smaller ids untouched
		for id := root.count() - 1; id >= 1 && trials < 3000; id-- {
			for _, m := range []c10JMut{{id: id, mode: 'd'}, {id: id, mode: 'r', text: "0"}} {
				cand := []byte(root.render(&m))
				if len(cand) < len(cur) && has(cand) {
					cur = cand
					progress = true
					if r2, ok := c10ParseJSON(string(cur)); ok {
						root = r2
					}
					break
				}
			}
		}
		if !progress {
			break
		}
	}
	if _, ok := c10ParseJSON(string(cur)); ok {
		return cur
	}
	for chunk := len(cur) / 2; chunk >= 1 && trials < 4000; {
		removed := false
		for i := 0; i+chunk <= len(cur) && trials < 4000; {
			cand := append(append([]byte{}, cur[:i]...), cur[i+chunk:]...)
			if has(cand) {
				cur = cand
				removed = true
			} else {
				i += chunk
			}
		}
		if !removed || chunk > len(cur) {
			chunk /= 2
		}
		if chunk > len(cur)/2 && chunk > 1 {
			chunk = len(cur) / 2
		}
	}
	return cur
}
