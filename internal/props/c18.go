package props

// C18 - Streaming decode is chunking-invariant and source positions are exact.
//
// Observation points: verifhooks.Tokenize / TokenizeReader (token level), cedar.NewDecoder
// vs PolicyList.UnmarshalCedar / NewPolicyListFromBytes / NewPolicySetFromBytes (policy
// level), cedar.Authorize diagnostics. Oracles: (1) an independent reference lexer and the
// harness's own offset/line/column counter (c18_gen.go) for the whole-slice path, (2) the
// metamorphic relation "every reader schedule == whole slice" for tokens, policies and
// errors, (3) for failing readers: a non-nil, non-EOF error and no policy that differs from
// the whole-document policy.

import (
	"bytes"
	"errors"
	"fmt"
	"io"
	"reflect"
	"runtime/debug"
	"strings"

	cedar "github.com/cedar-policy/cedar-go"
	"github.com/cedar-policy/cedar-go/x/exp/verifhooks"

	"verif/internal/bridge"
	"verif/internal/mon"
)

func init() { Registry["C18"] = C18 }

const c18File = "dir/policies é.cedar"

type c18Env struct {
	ents cedar.EntityGetter
	req  cedar.Request
}

// c18Case is one document with what the generator knows about it.
type c18Case struct {
	doc    []byte
	spans  []c18Span // policy spans if the document was assembled from policies (nil: unknown)
	valid  bool      // assembled only from well-formed pieces (reference lexer applies)
	intact []*cedar.Policy
	// for mutated documents: policies of the unmutated document that end before the mutation
	origin string
}

func c18Q(b []byte) string {
	const lim = 12000
	if len(b) > lim {
		return fmt.Sprintf("%q...(+%d bytes)", b[:lim], len(b)-lim)
	}
	return fmt.Sprintf("%q", b)
}

func c18Guard(site *string, f func()) (panicked string) {
	defer func() {
		if r := recover(); r != nil {
			panicked = fmt.Sprint(r)
			*site = mon.PanicSite(debug.Stack())
		}
	}()
	f()
	return ""
}

type c18TokRes struct {
	toks  []verifhooks.Token
	err   error
	panic string
	site  string
}

func c18Tokenize(doc []byte) (r c18TokRes) {
	r.panic = c18Guard(&r.site, func() { r.toks, r.err = verifhooks.Tokenize(doc) })
	return
}

func c18TokenizeReader(rd io.Reader) (r c18TokRes) {
	r.panic = c18Guard(&r.site, func() { r.toks, r.err = verifhooks.TokenizeReader(rd) })
	return
}

type c18DecRes struct {
	pols  []*cedar.Policy
	err   error // terminal error of the Decode loop (io.EOF at a clean end)
	after error // what one more Decode returned after the terminal error
	extra bool  // a Decode after the terminal error produced a policy
	panic string
	site  string
}

// c18YieldLimit bounds the Decode loop (no generated document holds that many statements).
const c18YieldLimit = 1000

func c18Drain(rd io.Reader, limit int) (r c18DecRes) {
	r.panic = c18Guard(&r.site, func() {
		dec := cedar.NewDecoder(rd)
		for {
			var p cedar.Policy
			if err := dec.Decode(&p); err != nil {
				r.err = err
				break
			}
			r.pols = append(r.pols, &p)
			if len(r.pols) > limit {
				r.err = fmt.Errorf("harness: decoder yielded more than %d policies", limit)
				return
			}
		}
		var p cedar.Policy
		r.after = dec.Decode(&p)
		r.extra = r.after == nil
	})
	return
}

func c18ErrStr(e error) string {
	if e == nil {
		return "<nil>"
	}
	return e.Error()
}

// c18PolDiff compares two policies by position, Cedar text and AST.
func c18PolDiff(a, b *cedar.Policy) string {
	pa, pb := a.Position(), b.Position()
	switch {
	case pa.Offset != pb.Offset:
		return "position.offset"
	case pa.Line != pb.Line:
		return "position.line"
	case pa.Column != pb.Column:
		return "position.column"
	case pa.Filename != pb.Filename:
		return "position.filename"
	}
	if !bytes.Equal(a.MarshalCedar(), b.MarshalCedar()) {
		return "cedar-text"
	}
	if !reflect.DeepEqual(a.AST(), b.AST()) {
		return "ast"
	}
	return ""
}

func c18PolStr(p *cedar.Policy) string {
	pos := p.Position()
	return fmt.Sprintf("[%q offset=%d line=%d column=%d] %s", pos.Filename, pos.Offset, pos.Line, pos.Column, p.MarshalCedar())
}

func c18TokStr(t verifhooks.Token) string {
	return fmt.Sprintf("%s %q @offset=%d line=%d column=%d", c18TypeName(t.Type), t.Text, t.Offset, t.Line, t.Column)
}

// c18TokDiff returns the first difference between two token lists ("" if none).
func c18TokDiff(a, b []verifhooks.Token) (int, string) {
	for i := 0; i < len(a) && i < len(b); i++ {
		x, y := a[i], b[i]
		switch {
		case x.Type != y.Type:
			return i, "type"
		case x.Text != y.Text:
			return i, "text"
		case x.Offset != y.Offset:
			return i, "offset"
		case x.Line != y.Line:
			return i, "line"
		case x.Column != y.Column:
			return i, "column"
		}
	}
	if len(a) != len(b) {
		return min(len(a), len(b)), "count"
	}
	return -1, ""
}

// ------------------------------------------------------------------------------------
// relation: reader schedule == whole slice (tokens)

// c18TokRel returns "" if TokenizeReader under the schedule agrees with Tokenize, else a
// short stable class of the difference plus details.
func c18TokRel(doc []byte, s c18Sched, seed uint64, cached *c18TokRes) (class, detail string, rd *c18Reader) {
	var whole c18TokRes
	if cached != nil {
		whole = *cached
	} else {
		whole = c18Tokenize(doc)
	}
	rd = s.Make(doc, seed)
	got := c18TokenizeReader(rd)
	switch {
	case got.panic != "":
		return "panic in " + got.site, got.panic, rd
	case whole.panic != "":
		return "", "", rd // reported by the whole-slice check
	case (got.err == nil) != (whole.err == nil):
		if got.err != nil {
			return "error only under the reader schedule", fmt.Sprintf("reader: %v; whole slice: %d tokens", got.err, len(whole.toks)), rd
		}
		return "error only for the whole slice", fmt.Sprintf("reader: %d tokens; whole slice: %v", len(got.toks), whole.err), rd
	case got.err != nil:
		if got.err.Error() != whole.err.Error() {
			return "error text differs", fmt.Sprintf("reader: %v; whole slice: %v", got.err, whole.err), rd
		}
		return "", "", rd
	}
	i, f := c18TokDiff(got.toks, whole.toks)
	if f == "" {
		return "", "", rd
	}
	if f == "count" {
		return "token count differs", fmt.Sprintf("reader: %d tokens; whole slice: %d tokens", len(got.toks), len(whole.toks)), rd
	}
	return fmt.Sprintf("token %s differs", f),
		fmt.Sprintf("token #%d reader: %s; whole slice: %s", i, c18TokStr(got.toks[i]), c18TokStr(whole.toks[i])), rd
}

// ------------------------------------------------------------------------------------
// relation: Decoder under a schedule == PolicyList.UnmarshalCedar (policies or error)

type c18WholePol struct {
	pols  cedar.PolicyList
	err   error
	panic string
	site  string
}

func c18WholeParse(doc []byte) (r c18WholePol) {
	r.panic = c18Guard(&r.site, func() { r.err = r.pols.UnmarshalCedar(doc) })
	return
}

func c18DecRel(doc []byte, s c18Sched, seed uint64, intact []*cedar.Policy, cached *c18WholePol) (class, detail string) {
	var whole c18WholePol
	if cached != nil {
		whole = *cached
	} else {
		whole = c18WholeParse(doc)
	}
	if whole.panic != "" {
		return "", ""
	}
	got := c18Drain(s.Make(doc, seed), c18YieldLimit)
	if got.panic != "" {
		return "panic in " + got.site, got.panic
	}
	if got.extra {
		return "Decode after the terminal error yielded a policy", fmt.Sprintf("terminal error %v", got.err)
	}
	if whole.err == nil {
		n := min(len(got.pols), len(whole.pols))
		for i := 0; i < n; i++ {
			if f := c18PolDiff(got.pols[i], whole.pols[i]); f != "" {
				return "policy " + f + " differs", fmt.Sprintf("policy #%d decoder: %s; whole slice: %s", i, c18PolStr(got.pols[i]), c18PolStr(whole.pols[i]))
			}
		}
		if strings.HasPrefix(got.err.Error(), "harness: decoder yielded more than") {
			return "policy count differs", fmt.Sprintf("decoder: >%d policies; whole slice: %d policies", len(got.pols)-1, len(whole.pols))
		}
		if got.err != io.EOF {
			return "decoder error where the whole slice parses", fmt.Sprintf("decoder: %d policies then %v; whole slice: %d policies", len(got.pols), got.err, len(whole.pols))
		}
		if len(got.pols) != len(whole.pols) {
			return "policy count differs", fmt.Sprintf("decoder: %d policies then EOF; whole slice: %d policies", len(got.pols), len(whole.pols))
		}
		return "", ""
	}
	want := strings.TrimPrefix(whole.err.Error(), "parser error: ")
	if strings.HasPrefix(got.err.Error(), "harness: decoder yielded more than") {
		return "decoder keeps yielding policies where the whole slice is rejected", fmt.Sprintf("decoder: >%d policies; whole slice: %v", len(got.pols)-1, whole.err)
	}
	if got.err == io.EOF {
		return "decoder ends with EOF where the whole slice is rejected", fmt.Sprintf("decoder: %d policies then EOF; whole slice: %v", len(got.pols), whole.err)
	}
	if got.err.Error() != want {
		return "decoder error text differs from whole-slice error", fmt.Sprintf("decoder: %v; whole slice: %v", got.err, whole.err)
	}
	base := c18Drain(bytes.NewReader(doc), c18YieldLimit)
	if base.panic == "" {
		if len(base.pols) != len(got.pols) {
			return "policies yielded before the error differ in number from the one-chunk decoder", fmt.Sprintf("schedule: %d; bytes.Reader: %d; error %v", len(got.pols), len(base.pols), got.err)
		}
		for i := range got.pols {
			if f := c18PolDiff(got.pols[i], base.pols[i]); f != "" {
				return "policy yielded before the error: " + f + " differs from the one-chunk decoder", fmt.Sprintf("policy #%d schedule: %s; bytes.Reader: %s", i, c18PolStr(got.pols[i]), c18PolStr(base.pols[i]))
			}
		}
	}
	for i := 0; i < len(got.pols) && i < len(intact); i++ {
		if f := c18PolDiff(got.pols[i], intact[i]); f != "" {
			return "policy yielded before the error: " + f + " differs from the intact policy", fmt.Sprintf("policy #%d decoder: %s; intact: %s", i, c18PolStr(got.pols[i]), c18PolStr(intact[i]))
		}
	}
	return "", ""
}

// c18Shrink minimises doc while class(doc) stays the same: cuts the tail, then blanks the
// head with spaces (offsets, hence buffer alignment, are preserved). Bounded work.
func c18Shrink(doc []byte, class func([]byte) string) []byte {
	want := class(doc)
	if want == "" {
		return doc
	}
	budget := 70
	try := func(d []byte) bool {
		if budget <= 0 {
			return false
		}
		budget--
		return class(d) == want
	}
	cur := append([]byte{}, doc...)
	for step := len(cur) / 2; step >= 1; step /= 2 {
		for len(cur)-step >= 0 && try(cur[:len(cur)-step]) {
			cur = cur[:len(cur)-step]
		}
	}
	pos := 0
	for step := len(cur) / 2; step >= 1; step /= 2 {
		for pos+step <= len(cur) {
			c := append([]byte{}, cur...)
			for i := pos; i < pos+step; i++ {
				c[i] = ' '
			}
			if !try(c) {
				break
			}
			cur = c
			pos += step
		}
	}
	return cur
}

// ------------------------------------------------------------------------------------
// the per-document check

type c18Opts struct {
	scheds    []c18Sched
	failEvery bool // failing reader at every byte position
	failSome  int  // else: this many sampled positions
	authorize bool
	sample    string
}

func c18Check(w *mon.W, cs *c18Case, env *c18Env, o c18Opts) {
	doc := cs.doc
	seed := w.Rand().U64()
	w.Evals(1)
	w.Count("documents: " + cs.origin)
	w.Count(fmt.Sprintf("document size: %d..%d KiB", len(doc)/1024, len(doc)/1024+1))

	// ---- whole-slice path against the independent reference lexer and position counter
	whole := c18Tokenize(doc)
	if whole.panic != "" {
		w.Violation("Tokenize panics in "+whole.site, fmt.Sprintf("Tokenize panics (%s) on %s", whole.panic, c18Q(doc)), map[string]any{"document": c18Q(doc), "panic": whole.panic})
		return
	}
	ref, elems, refOK := c18Lex(doc)
	if !cs.valid && refOK {
		w.Count("mutated document is still lexically valid")
	}
	if cs.valid && !refOK {
		w.Inconclusive("harness: reference lexer rejects a generated document")
		w.Sample("reference lexer rejects", c18Q(doc))
	}
	if refOK {
		c18CheckRef(w, doc, ref, whole)
		str := c18Straddlers(elems, len(doc), 1024)
		for _, k := range str {
			w.Count("element crossing a multiple of 1024: " + k)
		}
		if len(str) > 0 {
			w.NonTrivial(string(doc))
		}
	} else if len(doc) > 1024 {
		w.NonTrivial(string(doc))
	}
	if whole.err != nil {
		w.Count("whole slice: tokenizer error")
	}

	// ---- whole-slice parse: positions of the policies
	wp := c18WholeParse(doc)
	if wp.panic != "" {
		w.Violation("UnmarshalCedar panics in "+wp.site, fmt.Sprintf("PolicyList.UnmarshalCedar panics (%s) on %s", wp.panic, c18Q(doc)), map[string]any{"document": c18Q(doc), "panic": wp.panic})
		return
	}
	tab, _ := c18PosTable(doc)
	if wp.err == nil {
		w.Count("whole slice: parses")
		w.CountN("whole slice: policies", int64(len(wp.pols)))
		if cs.valid && cs.spans != nil {
			c18CheckPositions(w, cs, wp.pols, tab, env, o)
		}
	} else {
		w.Count("whole slice: rejected")
		if cs.valid {
			w.Count("generated document rejected by the parser (not a C18 matter): " + c18ErrClass(wp.err))
			w.Sample("generated document rejected", map[string]any{"error": wp.err.Error()})
		} else {
			w.Count("error class: " + c18ErrClass(wp.err))
		}
	}

	// ---- every reader schedule against the whole slice
	for _, s := range o.scheds {
		class, detail, rd := c18TokRel(doc, s, seed, &whole)
		w.Count("schedule executed: " + s.Name)
		w.CountN("reads", int64(rd.reads))
		w.CountN("zero-length reads", int64(rd.zeroReads))
		w.CountN("reads returning data together with io.EOF", int64(rd.dataEOF))
		w.Count(fmt.Sprintf("largest buffer the scanner offered to Read: %d bytes", rd.maxBuf))
		if class != "" {
			small := c18Shrink(doc, func(d []byte) string { c, _, _ := c18TokRel(d, s, seed, nil); return c })
			_, sd, _ := c18TokRel(small, s, seed, nil)
			w.Violation("TokenizeReader vs Tokenize: "+class,
				fmt.Sprintf("schedule %s: %s; document %s", s.Name, sd, c18Q(small)),
				map[string]any{"schedule": s.Name, "schedule_seed": seed, "difference": sd, "document": c18Q(small), "document_len": len(small),
					"original_difference": detail, "original_document": c18Q(doc)})
			continue
		}
		class, detail = c18DecRel(doc, s, seed, cs.intact, &wp)
		if class != "" {
			small := c18Shrink(doc, func(d []byte) string { c, _ := c18DecRel(d, s, seed, nil, nil); return c })
			_, sd := c18DecRel(small, s, seed, nil, nil)
			if sd == "" {
				small, sd = doc, detail
			}
			w.Violation("Decoder vs UnmarshalCedar: "+class,
				fmt.Sprintf("schedule %s: %s; document %s", s.Name, sd, c18Q(small)),
				map[string]any{"schedule": s.Name, "schedule_seed": seed, "difference": sd, "document": c18Q(small), "document_len": len(small),
					"original_difference": detail, "original_document": c18Q(doc)})
		}
	}

	// ---- failing readers
	var ks []int
	if o.failEvery {
		for k := 0; k <= len(doc); k++ {
			ks = append(ks, k)
		}
	} else if o.failSome > 0 {
		r := w.RandSub("fail")
		for i := 0; i < o.failSome; i++ {
			k := r.Intn(len(doc) + 1)
			if len(doc) > 1030 && r.P(0.4) {
				k = min(len(doc), 1024*(1+r.Intn(len(doc)/1024))+r.Intn(5)-2)
			}
			ks = append(ks, k)
		}
	}
	if len(ks) > 0 {
		var wl cedar.PolicyList
		if wp.err == nil {
			wl = wp.pols
		}
		c18FailSweep(w, doc, wl, wp.err == nil, ks, seed)
	}
	if o.sample != "" && w.Index%211 == 0 {
		w.Sample(o.sample, map[string]any{"document": c18Q(doc), "policies": len(cs.spans), "whole_slice_error": c18ErrStr(wp.err)})
	}
}

func c18ErrClass(err error) string {
	s := strings.TrimPrefix(err.Error(), "parser error: ")
	// drop the position and quoted token: "parse error at <input>:L:C "tok": msg"
	if i := strings.Index(s, "\": "); strings.HasPrefix(s, "parse error at ") && i > 0 {
		s = "parse error: " + s[i+3:]
	} else if i := strings.Index(s, ": "); strings.HasPrefix(s, "<input>:") && i > 0 {
		s = "scan error: " + s[i+2:]
	}
	for _, k := range []string{"exact got", "unexpected effect", "got", "invalid primary", "unexpected token", "expected ident", "expected string", "duplicate annotation", "strconv.ParseInt", "verif-injected-read-failure"} {
		if i := strings.Index(s, k); i >= 0 && i < 14 {
			return s[:i+len(k)]
		}
	}
	for i, c := range s {
		if (c >= '0' && c <= '9') || c == '"' || c == '`' {
			s = s[:i]
			break
		}
	}
	if len(s) > 60 {
		s = s[:60]
	}
	return strings.TrimSpace(s)
}

// c18CheckRef: the whole-slice tokenizer against the reference lexer (token types, texts
// and positions; the EOF token is not compared - its position is not part of the property).
func c18CheckRef(w *mon.W, doc []byte, ref []c18Tok, whole c18TokRes) {
	if whole.err != nil {
		w.Violation("Tokenize vs reference lexer: error on a lexically valid document",
			fmt.Sprintf("Tokenize fails with %v on a document the reference lexer accepts: %s", whole.err, c18Q(doc)),
			map[string]any{"document": c18Q(doc), "error": whole.err.Error()})
		return
	}
	w.CountN("tokens compared with the reference lexer", int64(len(ref)-1))
	got := whole.toks
	report := func(i int, field string) {
		cut := len(doc)
		typ := "eof"
		if i < len(ref)-1 {
			cut = min(len(doc), ref[i].Pos.Off+len(ref[i].Text)+1)
			typ = c18TypeName(ref[i].Type)
		}
		gs := "<missing>"
		if i < len(got) {
			gs = c18TokStr(got[i])
		}
		rs := "<none>"
		if i < len(ref) {
			rs = fmt.Sprintf("%s %q @%s", c18TypeName(ref[i].Type), ref[i].Text, ref[i].Pos)
		}
		_ = typ
		w.Violation(fmt.Sprintf("Tokenize vs reference lexer: token %s differs", field),
			fmt.Sprintf("token #%d cedar-go: %s; reference: %s; document prefix %s", i, gs, rs, c18Q(doc[:cut])),
			map[string]any{"document_prefix": c18Q(doc[:cut]), "token_index": i, "cedar_go": gs, "reference": rs, "document_len": len(doc)})
	}
	for i := 0; i < len(ref)-1; i++ {
		if i >= len(got) {
			report(i, "count")
			return
		}
		g, r := got[i], ref[i]
		switch {
		case g.Type != r.Type:
			report(i, "type")
		case g.Text != r.Text:
			report(i, "text")
		case g.Offset != r.Pos.Off:
			report(i, "offset")
		case g.Line != r.Pos.Line:
			report(i, "line")
		case g.Column != r.Pos.Col:
			report(i, "column")
		default:
			continue
		}
		return
	}
	if len(got) != len(ref) {
		report(len(ref)-1, "count")
	}
}

// c18CheckPositions: every policy of the whole-slice parse reports the position the
// generator recorded for its first token; the loaders add the file name; Authorize
// diagnostics carry exactly that position.
func c18CheckPositions(w *mon.W, cs *c18Case, pols cedar.PolicyList, tab []c18Pos, env *c18Env, o c18Opts) {
	doc := cs.doc
	if len(pols) != len(cs.spans) {
		w.Violation("UnmarshalCedar: number of policies differs from the number of policy statements in the document",
			fmt.Sprintf("%d policies parsed, %d statements generated: %s", len(pols), len(cs.spans), c18Q(doc)),
			map[string]any{"document": c18Q(doc), "parsed": len(pols), "generated": len(cs.spans)})
		return
	}
	want := func(i int, file string) cedar.Position {
		p := tab[cs.spans[i].S]
		return cedar.Position{Filename: file, Offset: p.Off, Line: p.Line, Column: p.Col}
	}
	posField := func(a, b cedar.Position) string {
		switch {
		case a.Offset != b.Offset:
			return "offset"
		case a.Line != b.Line:
			return "line"
		case a.Column != b.Column:
			return "column"
		case a.Filename != b.Filename:
			return "filename"
		}
		return ""
	}
	bad := func(api string, i int, got, exp cedar.Position) {
		f := posField(got, exp)
		cut := min(len(doc), cs.spans[i].E)
		sig := fmt.Sprintf("%s: policy position %s differs from the first token's position", api, f)
		if strings.HasPrefix(api, "Authorize diagnostic") {
			sig = api + ": position differs from the position of the policy's first token"
		}
		w.Violation(sig,
			fmt.Sprintf("policy #%d reports %+v, its first token is at %+v; document prefix %s", i, got, exp, c18Q(doc[:cut])),
			map[string]any{"api": api, "policy_index": i, "reported": fmt.Sprintf("%+v", got), "first_token": fmt.Sprintf("%+v", exp), "document_prefix": c18Q(doc[:cut])})
	}
	for i, p := range pols {
		w.Count("policy position checked (UnmarshalCedar)")
		if got, exp := p.Position(), want(i, ""); got != exp {
			bad("PolicyList.UnmarshalCedar", i, got, exp)
			return
		}
		first := doc[cs.spans[i].S]
		if first == '@' {
			w.Count("first token: @annotation")
		} else {
			w.Count("first token: effect")
		}
		if cs.spans[i].S > 0 {
			switch prev := doc[cs.spans[i].S-1]; {
			case prev == '\n' && cs.spans[i].S > 1 && doc[cs.spans[i].S-2] == '\r':
				w.Count("first token preceded by: CRLF")
			case prev == '\n':
				w.Count("first token preceded by: LF")
			case prev == '\r':
				w.Count("first token preceded by: lone CR")
			case prev >= 0x80:
				w.Count("first token preceded by: multi-byte character")
			default:
				w.Count("first token preceded by: other")
			}
		}
		if tab[cs.spans[i].S].Col != cs.spans[i].S-bytes.LastIndexByte(doc[:cs.spans[i].S], '\n') {
			w.Count("first token on a line with multi-byte characters before it (column != byte column)")
		}
		// the same statement parsed on its own gives the same policy (position aside)
		var solo cedar.Policy
		var site string
		var serr error
		if pm := c18Guard(&site, func() { serr = solo.UnmarshalCedar(doc[cs.spans[i].S:cs.spans[i].E]) }); pm != "" || serr != nil {
			w.Violation("Policy.UnmarshalCedar rejects a statement that parses inside the document",
				fmt.Sprintf("statement %s: %v %s", c18Q(doc[cs.spans[i].S:cs.spans[i].E]), serr, pm),
				map[string]any{"statement": c18Q(doc[cs.spans[i].S:cs.spans[i].E]), "error": c18ErrStr(serr), "panic": pm})
			return
		}
		if sp := solo.Position(); sp != (cedar.Position{Offset: 0, Line: 1, Column: 1}) {
			bad("Policy.UnmarshalCedar(statement alone)", i, sp, cedar.Position{Offset: 0, Line: 1, Column: 1})
			return
		}
		if !bytes.Equal(solo.MarshalCedar(), p.MarshalCedar()) {
			w.Violation("policy parsed inside the document differs from the same statement parsed alone",
				fmt.Sprintf("in document: %s; alone: %s", p.MarshalCedar(), solo.MarshalCedar()),
				map[string]any{"document": c18Q(doc), "policy_index": i, "in_document": string(p.MarshalCedar()), "alone": string(solo.MarshalCedar())})
			return
		}
	}
	if !o.authorize {
		return
	}
	list, err := cedar.NewPolicyListFromBytes(c18File, doc)
	if err != nil || len(list) != len(pols) {
		w.Violation("NewPolicyListFromBytes disagrees with PolicyList.UnmarshalCedar",
			fmt.Sprintf("NewPolicyListFromBytes: %d policies, error %v; UnmarshalCedar: %d policies", len(list), err, len(pols)),
			map[string]any{"document": c18Q(doc), "error": c18ErrStr(err)})
		return
	}
	for i, p := range list {
		w.Count("policy position checked (NewPolicyListFromBytes, with file name)")
		if got, exp := p.Position(), want(i, c18File); got != exp {
			bad("NewPolicyListFromBytes", i, got, exp)
			return
		}
	}
	ps, err := cedar.NewPolicySetFromBytes(c18File, doc)
	if err != nil {
		w.Violation("NewPolicySetFromBytes rejects a document that PolicyList.UnmarshalCedar accepts",
			fmt.Sprintf("error %v on %s", err, c18Q(doc)), map[string]any{"document": c18Q(doc), "error": err.Error()})
		return
	}
	idx := map[cedar.PolicyID]int{}
	for i := range list {
		id := cedar.PolicyID(fmt.Sprintf("policy%d", i))
		idx[id] = i
		p := ps.Get(id)
		if p == nil {
			w.Violation("NewPolicySetFromBytes: policy<i> missing", fmt.Sprintf("no policy %q among %d policies", id, len(list)), map[string]any{"document": c18Q(doc), "id": string(id)})
			return
		}
		w.Count("policy position checked (NewPolicySetFromBytes, with file name)")
		if got, exp := p.Position(), want(i, c18File); got != exp {
			bad("NewPolicySetFromBytes", i, got, exp)
			return
		}
	}
	diagCheck := func(api string, ids map[cedar.PolicyID]int, file string, diag cedar.Diagnostic) bool {
		for _, r := range diag.Reasons {
			i, ok := ids[r.PolicyID]
			if !ok {
				continue
			}
			w.Count("Authorize diagnostic reason position checked (" + api + ")")
			if exp := want(i, file); r.Position != exp {
				bad("Authorize diagnostic reason ("+api+")", i, r.Position, exp)
				return false
			}
		}
		for _, e := range diag.Errors {
			i, ok := ids[e.PolicyID]
			if !ok {
				continue
			}
			w.Count("Authorize diagnostic error position checked (" + api + ")")
			if exp := want(i, file); e.Position != exp {
				bad("Authorize diagnostic error ("+api+")", i, e.Position, exp)
				return false
			}
		}
		return true
	}
	var site string
	if pm := c18Guard(&site, func() {
		_, diag := cedar.Authorize(ps, env.ents, env.req)
		if !diagCheck("NewPolicySetFromBytes", idx, c18File, diag) {
			return
		}
		// one policy at a time, so that permits are not hidden behind forbids
		for i, p := range list {
			one := cedar.NewPolicySet()
			one.Add("solo", p)
			_, d := cedar.Authorize(one, env.ents, env.req)
			if !diagCheck("single policy of NewPolicyListFromBytes", map[cedar.PolicyID]int{"solo": i}, c18File, d) {
				return
			}
		}
		// policies that came out of the streaming decoder (one byte per read): no file name
		dr := c18Drain(&c18Reader{data: doc, size: c18Fixed(1), failAt: -1}, c18YieldLimit)
		if dr.panic == "" && dr.err == io.EOF && len(dr.pols) == len(list) {
			set := cedar.NewPolicySet()
			ids := map[cedar.PolicyID]int{}
			for i, p := range dr.pols {
				id := cedar.PolicyID(fmt.Sprintf("d%d", i))
				ids[id] = i
				set.Add(id, p)
				w.Count("policy position checked (Decoder, 1 byte per read)")
				if got, exp := p.Position(), want(i, ""); got != exp {
					bad("Decoder (1 byte per read)", i, got, exp)
					return
				}
			}
			_, d := cedar.Authorize(set, env.ents, env.req)
			diagCheck("policies from Decoder", ids, "", d)
		}
	}); pm != "" {
		w.Violation("Authorize panics in "+site, fmt.Sprintf("Authorize panics (%s) with policies of %s", pm, c18Q(doc)), map[string]any{"document": c18Q(doc), "panic": pm})
	}
}

// c18FailSweep: the reader delivers doc[:k] and then fails, for every k in ks, once as
// (0, err) and once together with the last bytes (n>0, err).
func c18FailSweep(w *mon.W, doc []byte, whole cedar.PolicyList, wholeOK bool, ks []int, seed uint64) {
	for _, k := range ks {
		for vi := 0; vi < 4; vi++ {
			withData, thenEOF := vi&1 == 1, vi&2 == 2
			v := int((uint64(k)*2654435761 + uint64(vi)*40503 + seed) % 5)
			w.Count("failing reader executed")
			if thenEOF {
				w.Count("failing reader: Reads after the failure return (0, io.EOF)")
			} else {
				w.Count("failing reader: Reads after the failure keep failing")
			}
			if withData && k > 0 {
				w.Count("failing reader: failure returned together with data (n>0, err)")
			} else {
				w.Count("failing reader: failure returned as (0, err)")
			}
			dq := func() string { return c18Q(doc[:min(k, len(doc))]) }
			desc := fmt.Sprintf("reader delivers the first %d of %d bytes and then fails (with_data=%v, later_reads_return_EOF=%v, chunking variant %d)", k, len(doc), withData, thenEOF, v)
			tr := c18TokenizeReader(c18FailingReader(doc, k, withData, thenEOF, v, seed+uint64(k)))
			switch {
			case tr.panic != "":
				w.Violation("failing reader: TokenizeReader panics in "+tr.site, desc+": "+tr.panic, map[string]any{"delivered_bytes": dq(), "document_len": len(doc), "fail_at": k, "with_data": withData, "later_reads_return_EOF": thenEOF, "variant": v, "panic": tr.panic})
				continue
			case tr.err == nil:
				w.Violation("failing reader: TokenizeReader returns tokens and no error", desc+fmt.Sprintf(": %d tokens, no error; delivered bytes %s", len(tr.toks), dq()),
					map[string]any{"delivered_bytes": dq(), "document_len": len(doc), "fail_at": k, "with_data": withData, "later_reads_return_EOF": thenEOF, "variant": v, "tokens": len(tr.toks)})
				continue
			case errors.Is(tr.err, io.EOF):
				w.Violation("failing reader: TokenizeReader reports io.EOF", desc, map[string]any{"delivered_bytes": dq(), "document_len": len(doc), "fail_at": k, "with_data": withData, "later_reads_return_EOF": thenEOF, "variant": v})
				continue
			}
			if strings.Contains(tr.err.Error(), "verif-injected-read-failure") {
				w.Count("failing reader: error text names the injected failure")
			} else {
				w.Count("failing reader: error text masked by: " + c18ErrClass(tr.err))
			}
			dr := c18Drain(c18FailingReader(doc, k, withData, thenEOF, v, seed+uint64(k)), c18YieldLimit)
			wit := map[string]any{"document_len": len(doc), "fail_at": k, "with_data": withData, "later_reads_return_EOF": thenEOF, "variant": v, "policies_yielded": len(dr.pols), "final_error": c18ErrStr(dr.err)}
			if dr.panic != "" || dr.err == nil || errors.Is(dr.err, io.EOF) || dr.extra || len(dr.pols) > 0 {
				wit["delivered_bytes"] = dq()
			}
			switch {
			case dr.panic != "":
				wit["panic"] = dr.panic
				w.Violation("failing reader: Decoder panics in "+dr.site, desc+": "+dr.panic, wit)
				continue
			case dr.err != nil && strings.HasPrefix(dr.err.Error(), "harness: decoder yielded more than"):
				w.Violation("failing reader: Decoder keeps yielding policies", desc, wit)
				continue
			case dr.err == nil || errors.Is(dr.err, io.EOF):
				w.Violation("failing reader: Decoder ends with io.EOF (truncated document accepted)",
					desc+fmt.Sprintf(": %d policies then %v; delivered bytes %s", len(dr.pols), dr.err, dq()), wit)
				continue
			case dr.extra:
				w.Violation("failing reader: Decode after the error yielded a policy", desc, wit)
				continue
			}
			if len(dr.pols) > 0 {
				w.Count("failing reader: policies yielded before the error")
			}
			if wholeOK {
				for i, p := range dr.pols {
					if i >= len(whole) {
						w.Violation("failing reader: more policies yielded than the document holds", desc, wit)
						break
					}
					if f := c18PolDiff(p, whole[i]); f != "" {
						wit["yielded"] = c18PolStr(p)
						wit["whole_document_policy"] = c18PolStr(whole[i])
						w.Violation("failing reader: yielded policy "+f+" differs from the whole-document policy",
							desc+fmt.Sprintf(": policy #%d %s, whole document %s", i, c18PolStr(p), c18PolStr(whole[i])), wit)
						break
					}
				}
			}
		}
	}
}

// ------------------------------------------------------------------------------------

func C18(c *mon.Ctx) {
	c.Rule = "case = (policy document, set of io.Reader schedules). Documents are assembled by the harness from policies (independent printer in noise layout + own raw-string/long-identifier/long-integer extras) and exact-length padding (whitespace, CR/LF mixes, // and /* */ comments with 2-4 byte characters) such that an interior byte of a chosen identifier, integer, string, escape, comment, multi-byte character, CRLF or two-character operator (or the policy's first byte) falls on offset 1024k-1, 1024k or 1024k+1; stream 'sweep' shifts fixed templates through every alignment with offset 1024 (2048, 4096 in thorough). " +
		"Per document: (a) verifhooks.Tokenize == independent reference lexer (type, text, offset, line, column of every token); (b) every policy of PolicyList.UnmarshalCedar / NewPolicyListFromBytes / NewPolicySetFromBytes reports the offset/line/column the harness's own rune counter gives for its first token (+file name), each statement parsed alone gives the same Cedar text, and every Authorize diagnostic (whole set, each policy alone, policies from the Decoder) carries that position; (c) for each of >=20 schedules (fixed 1,2,3,5,7,1023,1024,1025; random sizes; cuts inside every multi-byte character/escape/CRLF/two-char operator; (0,nil) reads; last bytes together with io.EOF) TokenizeReader == Tokenize (tokens or error text) and the cedar.Decoder yields the same policies (MarshalCedar bytes, Position, reflect.DeepEqual AST) and ends with io.EOF, or ends with the whole-slice error text; (d) failing reader after k bytes for every k (documents <= 2 KiB; sampled k beyond), as (0,err) and as (n>0,err), with later Reads failing again or returning io.EOF: non-nil non-EOF error, every policy yielded before it equals the whole-document policy. Stream 'errors' applies byte-level mutations (truncation, NUL, invalid UTF-8, stray characters, unterminated strings/comments) near buffer boundaries. " +
		"distinct_nontrivial = distinct documents in which a token, escape, comment, CRLF or multi-byte character crosses a multiple of 1024 (for lexically invalid documents: longer than 1024 bytes)."
	c.Assume = []string{
		"position convention (what cedar-go's scanner implements and the harness counter mirrors): Offset = byte offset from 0; Line = 1 + number of LF bytes before the token; Column = 1 + number of characters (runes, not bytes) between the last LF (or the start) and the token. CR is an ordinary whitespace character occupying one column; CRLF ends the line at the LF, a lone CR does not start a new line",
		"the position of the EOF token is not part of the property (the empty document reports 0:0); it is compared between reader and whole slice only",
		"PolicyList.UnmarshalCedar prefixes its error with \"parser error: \"; the Decoder's error text is compared with that prefix removed",
		"for a failing reader only 'non-nil, non-EOF error, no policy different from the whole-document policy' is demanded; whether the text names the injected failure is a statistic (the scanner legitimately overwrites it with 'literal/comment not terminated' when the failure lands inside such a token)",
		"a reader returning (0,nil) forever is outside the property (documented by the scanner as a reader bug); zero-length reads are bounded (<=3 in a row, <=64+len/8 per document)",
		"generated statements the pinned parser rejects as a whole (properties C07/C08) are not C18 violations; such documents still take part in the same-error relation",
	}
	c.Floor = 1000
	defer debug.SetGCPercent(debug.SetGCPercent(600)) // many short-lived scanners and token lists: GC-bound otherwise
	env0 := baseEnv()
	env := &c18Env{ents: bridge.ToEntityMap(env0), req: bridge.ToRequest(env0)}
	full := c18Schedules(true)
	reduced := c18Schedules(false)
	c.Extra["schedules"] = func() []string {
		var s []string
		for _, x := range full {
			s = append(s, x.Name)
		}
		return s
	}()

	// hand-written edge documents, all schedules, failing reader at every position
	c.ParFor("handmade", len(c18HandDocs), func(w *mon.W, i int) {
		cs := &c18Case{doc: []byte(c18HandDocs[i]), origin: "handmade"}
		c18Check(w, cs, env, c18Opts{scheds: full, failEvery: true})
		if i%7 == 0 {
			w.Sample("handmade", c18Q(cs.doc))
		}
	})

	// exhaustive alignment sweep of fixed templates across the buffer boundary
	bounds := []int{1024}
	if c.Thorough() {
		bounds = []int{1024, 2048, 4096}
	}
	type sweepCase struct{ tpl, bound, style, shift int }
	var sweep []sweepCase
	for ti, tpl := range c18Templates {
		tl := 0
		for _, p := range tpl {
			tl += len(p) + 8
		}
		styles := []int{1, 0}
		if c.Thorough() {
			styles = []int{1, 0, 2, 3, 4}
		}
		for _, b := range bounds {
			for _, st := range styles {
				for sh := max(0, b-tl-3); sh <= b+3; sh++ {
					sweep = append(sweep, sweepCase{ti, b, st, sh})
				}
			}
		}
	}
	c.Extra["sweep_cases"] = len(sweep)
	c.ParFor("sweep", len(sweep), func(w *mon.W, i int) {
		sc := sweep[i]
		d := c18SweepDoc(w.Rand(), c18Templates[sc.tpl], sc.shift, sc.style)
		cs := &c18Case{doc: d.Bytes, spans: d.Pol, valid: true, origin: "sweep"}
		c18Check(w, cs, env, c18Opts{scheds: reduced, authorize: i%4 == 0, failSome: 2, sample: "sweep"})
	})

	// random aligned documents up to ~9 KiB, all schedules
	depth := 2
	if c.Thorough() {
		depth = 3
	}
	c.ParFor("chunking", c.N(4000, 150000), func(w *mon.W, i int) {
		r := w.Rand()
		maxB := []int{1500, 3000, 5000, 9300}[r.Intn(4)]
		d := c18BuildDoc(r, maxB, depth)
		for _, a := range d.Aligned {
			w.Count("assembler aligned with 1024k-1/1024k/1024k+1: " + a)
		}
		cs := &c18Case{doc: d.Bytes, spans: d.Pol, valid: true, origin: "random aligned"}
		c18Check(w, cs, env, c18Opts{scheds: full, authorize: true, failSome: 12, sample: "chunking"})
	})

	// mutated documents (error path)
	c.ParFor("errors", c.N(2500, 60000), func(w *mon.W, i int) {
		r := w.Rand()
		maxB := []int{400, 1500, 3000, 5000}[r.Intn(4)]
		d := c18BuildDoc(r, maxB, depth)
		mut, class, at := c18Mutate(r, d.Bytes)
		w.Count("mutation: " + class)
		cs := &c18Case{doc: mut, origin: "mutated"}
		if orig := c18WholeParse(d.Bytes); orig.panic == "" && orig.err == nil && len(orig.pols) == len(d.Pol) {
			for k, sp := range d.Pol {
				if sp.E <= at {
					cs.intact = append(cs.intact, orig.pols[k])
				}
			}
		}
		c18Check(w, cs, env, c18Opts{scheds: full, failSome: 4, sample: "errors"})
	})

	// failing reader at every byte position, documents <= 2 KiB
	c.ParFor("failing-reader", c.N(200, 5000), func(w *mon.W, i int) {
		r := w.Rand()
		maxB := []int{300, 1100, 1300, 2048}[r.Intn(4)]
		d := c18BuildDoc(r, maxB, depth)
		if len(d.Bytes) > 2048 {
			d.Bytes = d.Bytes[:2048] // keep the bound; the cut may land anywhere (that is fine: any document qualifies)
			d.Pol = nil
		}
		cs := &c18Case{doc: d.Bytes, spans: d.Pol, valid: d.Pol != nil, origin: "failing-reader sweep"}
		w.CountN("failing reader: byte positions swept", int64(len(d.Bytes)+1))
		c18Check(w, cs, env, c18Opts{scheds: reduced, failEvery: true, sample: "failing-reader"})
	})
}
