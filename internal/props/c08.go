package props

import (
	"bytes"
	"fmt"
	"sort"
	"strings"

	cedar "github.com/cedar-policy/cedar-go"
	"github.com/cedar-policy/cedar-go/x/exp/ast"
	"github.com/cedar-policy/cedar-go/x/exp/eval"

	"verif/internal/bridge"
	"verif/internal/gen"
	"verif/internal/model"
	"verif/internal/mon"
	"verif/internal/render"
)

func init() { Registry["C08"] = C08 }

// sanitizeVal keeps values out of the two recorded known-finding domains whose text forms do
// not re-parse (datetimes below cedar-go's lower parsing bound; IPv4-mapped IPv6 addresses).
func sanitizeVal(v model.Val) model.Val {
	switch v.K {
	case model.KDatetime:
		if v.I < DatetimeLowBound {
			v.I = DatetimeLowBound + (v.I - (-1 << 63))
		}
	case model.KIP:
		if v.IP.V6 && v.IP.Hi == 0 && v.IP.Lo>>32 == 0xffff {
			v.IP.Lo |= 1 << 50
		}
	case model.KSet:
		xs := make([]model.Val, len(v.Elems))
		for i, e := range v.Elems {
			xs[i] = sanitizeVal(e)
		}
		return model.Set(xs...)
	case model.KRecord:
		vs := make([]model.Val, len(v.Vals))
		for i, e := range v.Vals {
			vs[i] = sanitizeVal(e)
		}
		return model.Record(v.Keys, vs)
	}
	return v
}

func sanitizePolicy(p *model.Policy) {
	for _, c := range p.Conds {
		c.Body.Walk(func(e *model.Expr) {
			if e.Op == model.OLit {
				e.V = sanitizeVal(e.V)
			}
		})
	}
}

func headerOf(p *ast.Policy) string {
	mp, err := bridge.FromPolicy(&ast.Policy{Effect: p.Effect, Annotations: p.Annotations, Principal: p.Principal, Action: p.Action, Resource: p.Resource})
	if err != nil {
		return "unconvertible: " + err.Error()
	}
	return bridge.SPolicy(mp) + fmt.Sprintf(" nconds=%d", len(p.Conditions))
}

type c08obs struct {
	val   string
	isErr bool
	class string
}

func c08eval(n ast.IsNode, env eval.Env) c08obs {
	g := CedarEval(n, env)
	switch {
	case g.Panic != "":
		return c08obs{val: "PANIC " + g.Panic}
	case g.BadVal != "":
		return c08obs{val: "BAD " + g.BadVal}
	case g.IsErr:
		// which of several failing sub-expressions is reported is not fixed by the property
		// (and is C14's subject), so failures are compared as failures
		return c08obs{isErr: true}
	}
	return c08obs{val: g.Val.Key()}
}

// c08roundtrip checks one policy (given as cedar-go AST). src names the source for signatures.
func c08roundtrip(w *mon.W, r *gen.R, orig *ast.Policy, mp *model.Policy, src string) bool {
	desc := ""
	if mp != nil {
		desc = render.CanonPolicy(mp)
	}
	var text1 []byte
	var p2 cedar.Policy
	var perr error
	pan := ""
	func() {
		defer func() {
			if x := recover(); x != nil {
				pan = fmt.Sprint(x)
			}
		}()
		cp := NewPolicy(orig)
		text1 = cp.MarshalCedar()
		if len(text1)%2 == 1 {
			p2 = *UsedPolicy() // a receiver that already holds another policy
		}
		perr = p2.UnmarshalCedar(text1)
	}()
	w.Evals(1)
	wit := map[string]any{"source": src, "policy": desc, "rendered": string(text1)}
	if pan != "" {
		w.Violation("marshal/unmarshal panics ["+src+"]", "MarshalCedar/UnmarshalCedar panicked: "+pan, wit)
		return false
	}
	if perr != nil {
		sig, what := c08classify(orig, func(q *ast.Policy) bool {
			var x cedar.Policy
			return x.UnmarshalCedar(NewPolicy(q).MarshalCedar()) != nil
		})
		wit["error"] = perr.Error()
		w.Violation("rendering does not re-parse: "+sig, what+": "+perr.Error(), wit)
		return false
	}
	re := (*ast.Policy)(p2.AST())
	if h1, h2 := headerOf(orig), headerOf(re); h1 != h2 {
		wit["original_header"], wit["reparsed_header"] = h1, h2
		w.Violation("effect/annotations/scope change across the text round trip", "header of the reparsed policy differs: "+h2+" vs "+h1, wit)
		return false
	}
	text2 := p2.MarshalCedar()
	if !bytes.Equal(text1, text2) {
		wit["second_rendering"] = string(text2)
		sig, what := c08classify(orig, func(q *ast.Policy) bool {
			t1 := NewPolicy(q).MarshalCedar()
			var x cedar.Policy
			if x.UnmarshalCedar(t1) != nil {
				return false
			}
			return !bytes.Equal(t1, x.MarshalCedar())
		})
		w.Violation("second rendering differs: "+sig, what, wit)
		return false
	}
	// same meaning under several environments
	var m gen.Mentions
	if mp != nil {
		gen.CollectPolicy(&m, mp)
	}
	for k := 0; k < 6; k++ {
		env := gen.EnvFor(r, &m, k == 0)
		ents := bridge.ToEntityMap(env)
		cenv := bridge.ToEvalEnv(env, ents)
		for ci := range orig.Conditions {
			a := c08eval(orig.Conditions[ci].Body, cenv)
			b := c08eval(re.Conditions[ci].Body, cenv)
			w.Evals(1)
			if a != b {
				one := func(q *ast.Policy) bool {
					var x cedar.Policy
					if x.UnmarshalCedar(NewPolicy(q).MarshalCedar()) != nil || len(x.AST().Conditions) != len(q.Conditions) {
						return false
					}
					for j := range q.Conditions {
						if c08eval(q.Conditions[j].Body, cenv) != c08eval((*ast.Policy)(x.AST()).Conditions[j].Body, cenv) {
							return true
						}
					}
					return false
				}
				sig, what := c08classify(orig, one)
				wit["env"], wit["original_result"], wit["reparsed_result"] = envWitness(env), fmt.Sprint(a), fmt.Sprint(b)
				w.Violation("meaning changes across the text round trip: "+sig, what, wit)
				return false
			}
		}
	}
	return true
}

// c08classify localises to the smallest failing sub-expression and names its root/child kinds.
func c08classify(p *ast.Policy, fails func(q *ast.Policy) bool) (string, string) {
	wrap := func(n ast.IsNode) *ast.Policy {
		return &ast.Policy{Effect: ast.EffectPermit, Principal: ast.ScopeTypeAll{}, Action: ast.ScopeTypeAll{}, Resource: ast.ScopeTypeAll{},
			Conditions: []ast.ConditionType{{Condition: ast.ConditionWhen, Body: n}}}
	}
	var culprit *model.Expr
	for _, c := range p.Conditions {
		if fails(wrap(c.Body)) {
			culprit, _ = bridge.FromNode(c.Body)
			break
		}
	}
	if culprit == nil {
		return "policy-level (scope/annotations)", "the policy header does not survive"
	}
	for {
		moved := false
		for _, a := range culprit.Args {
			if fails(wrap(bridge.ToNode(a))) {
				culprit, moved = a, true
				break
			}
		}
		if !moved {
			break
		}
	}
	name := func(e *model.Expr) string {
		if e.Op == model.OLit {
			return "value:" + feature(e.V)
		}
		return opName(e)
	}
	var kids []string
	for _, a := range culprit.Args {
		kids = append(kids, name(a))
	}
	extra := ""
	if culprit.Op == model.OAccess || culprit.Op == model.OHas {
		extra = " attr-class=" + strClass(culprit.S)
	}
	if culprit.Op == model.ORecord {
		var cs []string
		for _, k := range culprit.Keys {
			cs = append(cs, strClass(k))
		}
		sort.Strings(cs)
		extra = " key-classes=" + strings.Join(uniq(cs), "+")
	}
	if culprit.Op == model.OLit && (culprit.V.K == model.KString || culprit.V.K == model.KEntity) {
		extra = " chars=" + strClass(culprit.V.S+culprit.V.ID)
	}
	return fmt.Sprintf("%s(%s)%s", name(culprit), strings.Join(kids, ","), extra), "`" + string(NewPolicy(wrap(bridge.ToNode(culprit))).MarshalCedar()) + "`"
}

// strClass names the "hardest" character class of a string (for signatures).
func strClass(s string) string {
	cls := "plain"
	if s == "" {
		return "empty"
	}
	if !render.IsIdent(s) {
		cls = "non-identifier"
	}
	for _, r := range s {
		switch {
		case r == '"' || r == '\\':
			cls = "quote/backslash"
		case r < 0x20 || r == 0x7f:
			return "control"
		case r == 0xfffd:
			return "U+FFFD"
		case r > 0x7e:
			if cls != "quote/backslash" {
				cls = "non-ascii"
			}
		}
	}
	return cls
}

func C08(c *mon.Ctx) {
	c.Rule = "case = policy from one of three sources: (a) programmatic ASTs carrying arbitrary values (negative longs under every parent, set/record/extension VALUES, keyword and non-identifier attribute names, keys/strings over every character class, method and function call forms), (b) policies parsed from the harness printer's texts (layout noise), (c) policies decoded from JSON. " +
		"Oracle: MarshalCedar re-parses; effect, annotations and scope are equal; every condition evaluates to the same value or fails with the same error class under 6 environments built from the policy's own literals; the second rendering is byte-identical; PolicyList / PolicySet (lexicographic id order) / Encoder->Decoder documents parse back to the same policies in the documented order. " +
		"distinct_nontrivial = distinct first renderings of policies with >= 1 condition."
	c.Assume = []string{"values in the two recorded known-finding domains whose text form cannot be parsed back (datetimes in the first day of the range, IPv4-mapped IPv6 addresses; see C12) are mapped to neighbouring values by the generator"}
	c.Floor = 2000
	// (a0) directed: every node kind with value operands of every kind in every position
	ctors := c07ctors()
	vals := []model.Val{model.Long(-1), model.Long(-9223372036854775808), model.Long(0), model.Bool(false), model.Str("a\"b\\c\né"), model.Ent("NS::T", "x\ty"),
		model.Set(model.Long(-1), model.Long(2)), model.Set(), model.Rec("if", model.Long(-3), "two words", model.Str("s"), "", model.Set(model.Long(1))), model.Rec(),
		model.Decimal(-12345), model.Duration(-90061001), model.Datetime(-1), gen.IPs[1], gen.IPs[26]}
	type dcase struct{ ctor, pos, val int }
	var dcs []dcase
	for ci, ct := range ctors {
		for pos := 0; pos < ct.arity; pos++ {
			for vi := range vals {
				dcs = append(dcs, dcase{ci, pos, vi})
			}
		}
	}
	c.ParFor("directed-values", len(dcs), func(w *mon.W, i int) {
		d := dcs[i]
		ct := ctors[d.ctor]
		args := make([]*model.Expr, ct.arity)
		for k := range args {
			args[k] = model.Lit(vals[(d.val+1+k)%len(vals)])
		}
		args[d.pos] = model.Lit(sanitizeVal(vals[d.val]))
		for k := range args {
			args[k].V = sanitizeVal(args[k].V)
		}
		mp := &model.Policy{Permit: true, Conds: []model.Cond{{When: true, Body: ct.mk(args)}}}
		w.Count("directed parent " + ct.name)
		if c08roundtrip(w, w.Rand(), bridge.ToPolicy(mp), mp, "programmatic") {
			w.NonTrivial(render.CanonPolicy(mp))
		}
	})
	// (a1) directed: regrouping-sensitive nestings. For every pair of arithmetic (resp. boolean)
	// operators in both nestings, operands range over values for which a lost or misplaced
	// parenthesis changes the result (overflow in one grouping only, skipped erroring operand).
	type rcase struct {
		p, ch model.Op
		left  bool
		a, b, cc model.Val
	}
	var rcs []rcase
	arith := []model.Val{model.Long(9223372036854775807), model.Long(1), model.Long(-1), model.Long(-9223372036854775808), model.Long(0), model.Long(2)}
	boolish := []model.Val{model.Bool(true), model.Bool(false), model.Long(1)}
	for _, grp := range []struct {
		ops  []model.Op
		vals []model.Val
	}{{[]model.Op{model.OAdd, model.OSub, model.OMul}, arith}, {[]model.Op{model.OAnd, model.OOr}, boolish}} {
		for _, p := range grp.ops {
			for _, ch := range grp.ops {
				for _, left := range []bool{true, false} {
					for _, a := range grp.vals {
						for _, b := range grp.vals {
							for _, cc := range grp.vals {
								rcs = append(rcs, rcase{p, ch, left, a, b, cc})
							}
						}
					}
				}
			}
		}
	}
	c.ParFor("directed-regrouping", len(rcs), func(w *mon.W, i int) {
		d := rcs[i]
		var e *model.Expr
		if d.left {
			e = model.Bin(d.p, model.Bin(d.ch, model.Lit(d.a), model.Lit(d.b)), model.Lit(d.cc))
		} else {
			e = model.Bin(d.p, model.Lit(d.a), model.Bin(d.ch, model.Lit(d.b), model.Lit(d.cc)))
		}
		mp := &model.Policy{Permit: true, Conds: []model.Cond{{When: true, Body: model.Bin(model.OEq, e, model.Lit(model.Long(0)))}}}
		w.Count("regrouping " + d.p.String() + " over " + d.ch.String())
		if c08roundtrip(w, w.Rand(), bridge.ToPolicy(mp), mp, "programmatic") {
			w.NonTrivial(render.CanonPolicy(mp))
		}
	})
	// attribute names / record keys / strings over every class
	strs := gen.Strings
	c.ParFor("directed-strings", len(strs), func(w *mon.W, i int) {
		s := strs[i]
		bodies := []*model.Expr{
			model.Access(model.Var("context"), s), model.Has(model.Var("principal"), s), model.Lit(model.Str(s)), model.Lit(model.Ent("U", s)),
			model.Lit(model.Rec(s, model.Long(1))), model.RecE([]string{s}, []*model.Expr{model.Lit(model.Long(1))}), model.Lit(model.Set(model.Str(s))),
			model.Like(model.Var("context"), []model.PatElem{{Lit: s}}), model.Like(model.Lit(model.Str(s)), gen.NormPattern([]model.PatElem{{Wild: true}, {Lit: s}, {Wild: true}})),
			model.Bin(model.OGetTag, model.Var("principal"), model.Lit(model.Str(s))),
		}
		for _, b := range bodies {
			mp := &model.Policy{Permit: false, Annots: []model.Annot{{Key: "k", Val: s}}, P: model.Scope{Kind: model.ScEq, Ent: model.Ent("U", s)}, Conds: []model.Cond{{When: true, Body: b}}}
			w.Count("string class " + strClass(s))
			if c08roundtrip(w, w.Rand(), bridge.ToPolicy(mp), mp, "programmatic") {
				w.NonTrivial(render.CanonPolicy(mp))
			}
		}
	})
	c08pairs(c)
	c08long(c)
	c08encoderRetry(c)
	c08bulk(c)
	// (a) random programmatic, (b) parsed from harness text, (c) decoded from JSON
	n := c.N(30000, 500000)
	c.ParFor("random", n, func(w *mon.W, i int) {
		r := w.Rand()
		var mp *model.Policy
		var orig *ast.Policy
		src := []string{"programmatic", "parsed-from-text", "decoded-from-json"}[i%3]
		switch src {
		case "programmatic":
			mp = gen.RandPolicy(r, gen.ExprCfg{PIll: 0.08, SafeDT: true, WellFormedExt: true}, 4)
			sanitizePolicy(mp)
			orig = bridge.ToPolicy(mp)
		case "parsed-from-text":
			mp = gen.RandPolicy(r, gen.ExprCfg{PIll: 0.08, PrimLits: true, SafeDT: true, WellFormedExt: true}, 4)
			pr := &render.Printer{R: w.RandSub("layout"), Noise: true, Sugar: true}
			p, err, pan := parseOne(pr.Policy(mp))
			if err != nil || pan != "" {
				w.Count("deferred: harness text not parsed (C07 domain)")
				return
			}
			orig = p
		default:
			mp = gen.RandPolicy(r, gen.ExprCfg{PIll: 0.08, SafeDT: true, WellFormedExt: true}, 4)
			sanitizePolicy(mp)
			b, err := NewPolicy(bridge.ToPolicy(mp)).MarshalJSON()
			if err != nil {
				w.Count("deferred: MarshalJSON failed (C09/C10 domain)")
				return
			}
			var cp cedar.Policy
			if err := cp.UnmarshalJSON(b); err != nil {
				w.Count("deferred: UnmarshalJSON failed (C09/C10 domain)")
				return
			}
			orig = (*ast.Policy)(cp.AST())
		}
		w.Count("source " + src)
		if c08roundtrip(w, r, orig, mp, src) && len(mp.Conds) > 0 {
			w.NonTrivial(render.CanonPolicy(mp))
		}
		if i%4000 == 0 {
			w.Sample(src, string(NewPolicy(orig).MarshalCedar()))
		}
	})
	// lists, sets, encoder/decoder
	c.ParFor("documents", c.N(2000, 30000), func(w *mon.W, i int) {
		r := w.Rand()
		k := r.Intn(7)
		var pols []*cedar.Policy
		var texts []string
		for j := 0; j < k; j++ {
			mp := gen.RandPolicy(r, gen.ExprCfg{PIll: 0.05, SafeDT: true, WellFormedExt: true}, 3)
			sanitizePolicy(mp)
			cp := NewPolicy(bridge.ToPolicy(mp))
			pols = append(pols, cp)
			texts = append(texts, string(cp.MarshalCedar()))
		}
		w.Evals(1)
		wit := map[string]any{"policies": texts}
		// PolicyList
		doc := cedar.PolicyList(pols).MarshalCedar()
		back, err := cedar.NewPolicyListFromBytes("f", doc)
		if err != nil || len(back) != len(pols) {
			wit["doc"], wit["error"] = string(doc), fmt.Sprint(err)
			w.Violation("PolicyList.MarshalCedar does not parse back to the same number of policies", fmt.Sprintf("%d policies rendered, %d parsed (%v)", len(pols), len(back), err), wit)
			return
		}
		for j := range back {
			if string(back[j].MarshalCedar()) != texts[j] {
				w.Violation("PolicyList round trip changes a policy or the order", fmt.Sprintf("policy %d differs after the list round trip", j), wit)
				return
			}
		}
		// PolicySet: lexicographic id order
		ids := []string{"policy10", "policy2", "a", "", "B", "policy1", "é"}
		ps := cedar.NewPolicySet()
		byID := map[string]string{}
		perm := r.Perm(len(pols))
		for _, j := range perm {
			ps.Add(cedar.PolicyID(ids[j]), pols[j])
			byID[ids[j]] = texts[j]
		}
		sorted := sortedKeys(byID)
		sdoc := ps.MarshalCedar()
		sback, err := cedar.NewPolicyListFromBytes("f", sdoc)
		if err != nil || len(sback) != len(sorted) {
			wit["doc"], wit["error"] = string(sdoc), fmt.Sprint(err)
			w.Violation("PolicySet.MarshalCedar does not parse back to the same number of policies", fmt.Sprintf("%d policies rendered, %d parsed (%v)", len(sorted), len(sback), err), wit)
			return
		}
		for j, id := range sorted {
			if string(sback[j].MarshalCedar()) != byID[id] {
				wit["doc"], wit["sorted_ids"] = string(sdoc), sorted
				w.Violation("PolicySet.MarshalCedar is not in lexicographic id order", fmt.Sprintf("position %d should hold policy %q", j, id), wit)
				return
			}
		}
		// Encoder / Decoder
		var buf bytes.Buffer
		enc := cedar.NewEncoder(&buf)
		for _, p := range pols {
			if err := enc.Encode(p); err != nil {
				w.Violation("Encoder.Encode fails", err.Error(), wit)
				return
			}
		}
		dec := cedar.NewDecoder(bytes.NewReader(buf.Bytes()))
		for j := 0; ; j++ {
			var p cedar.Policy
			err := dec.Decode(&p)
			if err != nil {
				if j != len(pols) {
					wit["stream"], wit["error"] = buf.String(), err.Error()
					w.Violation("Encoder->Decoder stream yields a different number of policies", fmt.Sprintf("%d encoded, %d decoded before %v", len(pols), j, err), wit)
				}
				break
			}
			if j >= len(pols) || string(p.MarshalCedar()) != texts[j] {
				wit["stream"] = buf.String()
				w.Violation("Encoder->Decoder round trip changes a policy or the order", fmt.Sprintf("policy %d differs after the stream round trip", j), wit)
				break
			}
		}
		if len(pols) > 0 {
			w.NonTrivial(string(doc))
		}
	})
}
