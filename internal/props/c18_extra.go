package props

import (
	"bytes"
	"fmt"
	"io"
	"strings"

	cedar "github.com/cedar-policy/cedar-go"

	"verif/internal/mon"
)

// Additional C18 stream: documents far larger than any internal buffer or plausible limit
// (0.5 .. 5 MiB, sizes around the powers of two). The streaming decoder must yield exactly the
// policies the whole-slice parser yields, with the same positions, for every chunking; a
// silently truncated stream (fewer policies, then a clean io.EOF) is the failure looked for.
func init() {
	orig := Registry["C18"]
	Registry["C18"] = func(c *mon.Ctx) {
		orig(c)
		c.Rule += " Stream huge-documents: documents of 0.5-5 MiB (sizes just below / above 1, 2 and 4 MiB) read through the streaming decoder with 3 chunkings each: same number of policies, same texts and positions as the whole-slice parse."
		c18huge(c)
	}
}

type c18chunkReader struct {
	data  []byte
	pos   int
	chunk int
}

func (r *c18chunkReader) Read(p []byte) (int, error) {
	if r.pos >= len(r.data) {
		return 0, io.EOF
	}
	n := min(r.chunk, len(p), len(r.data)-r.pos)
	copy(p, r.data[r.pos:r.pos+n])
	r.pos += n
	return n, nil
}

func c18huge(c *mon.Ctx) {
	targets := []int{512 << 10, 1<<20 - 300, 1<<20 + 300, 2<<20 + 7, 4<<20 + 11}
	if c.Thorough() {
		targets = append(targets, 5<<20, 8<<20+1)
	}
	c.ParFor("huge-documents", len(targets), func(w *mon.W, i int) {
		target := targets[i]
		var doc strings.Builder
		n := 0
		for doc.Len() < target {
			// ~210 bytes per policy, a multi-byte character in each, comments between them
			fmt.Fprintf(&doc, "// policy number %d — filler so that boundaries fall everywhere\n@n(\"%d\")\npermit(principal == U::\"é%d\", action, resource)\nwhen { context.n == %d && context.s like \"*€%d\" };\n", n, n, n, n, n%97)
			n++
		}
		src := []byte(doc.String())
		whole, err := cedar.NewPolicyListFromBytes("", src)
		w.Evals(n)
		w.Count("huge document parsed whole and streamed")
		w.NonTrivial(fmt.Sprintf("huge/%d", target))
		wit := map[string]any{"document_bytes": len(src), "policies": n}
		if err != nil || len(whole) != n {
			w.Violation("huge document: whole-slice parse fails or loses policies", fmt.Sprintf("%d policies written, %d parsed (%v)", n, len(whole), err), wit)
			return
		}
		for _, chunk := range []int{1 << 30, 4096, 1000} {
			var rd io.Reader = bytes.NewReader(src)
			name := "bytes.Reader"
			if chunk != 1<<30 {
				rd, name = &c18chunkReader{data: src, chunk: chunk}, fmt.Sprintf("%d bytes per Read", chunk)
			}
			dec := cedar.NewDecoder(rd)
			k := 0
			for {
				var p cedar.Policy
				err := dec.Decode(&p)
				if err != nil {
					if err != io.EOF {
						w.Violation("huge document: Decoder fails where the whole-slice parser succeeds", fmt.Sprintf("%s: error after %d of %d policies: %v", name, k, n, err), wit)
						return
					}
					break
				}
				if k < n {
					a, b := whole[k], &p
					if string(a.MarshalCedar()) != string(b.MarshalCedar()) || a.Position().Offset != b.Position().Offset || a.Position().Line != b.Position().Line || a.Position().Column != b.Position().Column {
						w.Violation("huge document: Decoder yields another policy or position than the whole-slice parser", fmt.Sprintf("%s: policy %d: stream %+v, whole slice %+v", name, k, b.Position(), a.Position()), wit)
						return
					}
				}
				k++
			}
			if k != n {
				w.Violation("huge document: Decoder ends with io.EOF after fewer policies (truncated document accepted)", fmt.Sprintf("%s: %d of %d policies of a %d-byte document, then a clean io.EOF", name, k, n, len(src)), wit)
				return
			}
		}
	})
}
