package props

import (
	"fmt"
	"iter"
	"sort"
	"strings"

	cedar "github.com/cedar-policy/cedar-go"
	"github.com/cedar-policy/cedar-go/types"

	"verif/internal/bridge"
	"verif/internal/gen"
	"verif/internal/model"
	"verif/internal/mon"
	"verif/internal/render"
)

func init() { Registry["C02"] = C02 }

// by-construction realisations of the six (effect x outcome) classes; every erroring body
// has exactly one failing sub-expression.
var c02sat = []string{
	`(principal, action, resource) when { true }`,
	`(principal == U::"a", action, resource)`,
	`(principal, action, resource) when { context.a == 1 }`,
	`(principal in G::"a", action in [Action::"view", Action::"x"], resource is G) unless { false }`,
	`(principal is U in G::"b", action == Action::"view", resource) when { principal.a == 1 } unless { principal has nope }`,
}
var c02unsat = []string{
	`(principal, action, resource) when { false }`,
	`(principal == U::"b", action, resource)`,
	`(principal, action, resource) when { context.a == 2 }`,
	`(principal in G::"zz", action, resource) unless { false }`,
	`(principal, action in [Action::"x"], resource is U) when { context.missing }`,
	`(principal, action, resource) when { true } unless { principal in G::"b" }`,
}
var c02err = []string{
	`(principal, action, resource) when { context.missing }`,
	`(principal, action, resource) when { 1 }`,
	`(principal, action, resource) when { 9223372036854775807 + context.a == 0 }`,
	`(principal == U::"a", action, resource) unless { principal.nope }`,
	`(principal, action, resource) when { true } when { U::"ghost".x } when { false }`,
	`(principal, action, resource) when { context.s < 3 }`,
}

type c02pol struct {
	permit bool
	out    model.Outcome
	text   string
}

type sliceIter struct {
	ids []cedar.PolicyID
	ps  []*cedar.Policy
	rev bool
}

func (s sliceIter) All() iter.Seq2[cedar.PolicyID, *cedar.Policy] {
	return func(yield func(cedar.PolicyID, *cedar.Policy) bool) {
		n := len(s.ids)
		for k := 0; k < n; k++ {
			i := k
			if s.rev {
				i = n - 1 - k
			}
			if !yield(s.ids[i], s.ps[i]) {
				return
			}
		}
	}
}

// docPositions computes, with the harness's own counter, offset/line/column of the first
// byte of every policy in a document assembled from parts joined by seps.
func posAt(doc string, off int) cedar.Position {
	line, col := 1, 1
	for _, r := range doc[:off] {
		if r == '\n' {
			line++
			col = 1
		} else {
			col++
		}
	}
	return cedar.Position{Offset: off, Line: line, Column: col}
}

func c02check(w *mon.W, pols []c02pol, env *model.Env, form string) {
	// assemble one document
	var sb strings.Builder
	offs := make([]int, len(pols))
	seps := []string{"\n", "\n\n", " ", "\n// comment\n", "\t\n  "}
	for i, p := range pols {
		if i > 0 {
			sb.WriteString(seps[i%len(seps)])
		}
		offs[i] = sb.Len()
		sb.WriteString(p.text)
	}
	doc := sb.String()
	list, err := cedar.NewPolicyListFromBytes("doc.cedar", []byte(doc))
	if err != nil {
		w.Violation("harness:document-rejected", "constructed policy document does not parse: "+err.Error(), map[string]any{"doc": doc})
		return
	}
	if len(list) != len(pols) {
		w.Violation("policy-count", fmt.Sprintf("document with %d policies parsed into %d", len(pols), len(list)), map[string]any{"doc": doc})
		return
	}
	ids := make([]string, len(pols))
	permit := make([]bool, len(pols))
	outs := make([]model.Outcome, len(pols))
	wantPos := map[string]cedar.Position{}
	cids := make([]cedar.PolicyID, len(pols))
	for i, p := range pols {
		ids[i] = fmt.Sprintf("policy%d", i)
		cids[i] = cedar.PolicyID(ids[i])
		permit[i], outs[i] = p.permit, p.out
		ps := posAt(doc, offs[i])
		ps.Filename = "doc.cedar"
		wantPos[ids[i]] = ps
	}
	wantAllow, wantReasons, wantErrs := model.Decide(ids, permit, outs)
	ents := bridge.ToEntityMap(env)
	req := bridge.ToRequest(env)
	// solo messages
	solo := map[string]string{}
	for i := range pols {
		if outs[i] != model.Erroring {
			continue
		}
		one := cedar.NewPolicySet()
		one.Add(cids[i], list[i])
		_, d := cedar.Authorize(one, ents, req)
		if len(d.Errors) == 1 {
			solo[ids[i]] = d.Errors[0].Message
		}
	}
	pset := cedar.NewPolicySet()
	pmap := cedar.PolicyMap{}
	for i := range pols {
		pset.Add(cids[i], list[i])
		pmap[cids[i]] = list[i]
	}
	fromBytes, err := cedar.NewPolicySetFromBytes("doc.cedar", []byte(doc))
	if err != nil {
		w.Violation("harness:document-rejected", "NewPolicySetFromBytes rejects the document: "+err.Error(), map[string]any{"doc": doc})
		return
	}
	// the same document through the streaming decoder: all policies are decoded FIRST and
	// authorised afterwards (state shared between successive Decode calls would show here)
	streamed := cedar.NewPolicySet()
	{
		dec := cedar.NewDecoder(strings.NewReader(doc))
		k := 0
		for {
			var p cedar.Policy
			if err := dec.Decode(&p); err != nil {
				break
			}
			p.SetFilename("doc.cedar")
			q := p
			streamed.Add(cedar.PolicyID(fmt.Sprintf("policy%d", k)), &q)
			k++
		}
		if k != len(pols) {
			w.Violation("Decoder yields a different number of policies", fmt.Sprintf("document with %d policies decoded into %d", len(pols), k), map[string]any{"doc": doc})
			return
		}
	}
	type run struct {
		name string
		f    func() (cedar.Decision, cedar.Diagnostic)
	}
	runs := []run{
		{"Authorize(*PolicySet)", func() (cedar.Decision, cedar.Diagnostic) { return cedar.Authorize(pset, ents, req) }},
		{"PolicySet.IsAuthorized", func() (cedar.Decision, cedar.Diagnostic) { return pset.IsAuthorized(ents, req) }},
		{"Authorize(NewPolicySetFromBytes)", func() (cedar.Decision, cedar.Diagnostic) { return cedar.Authorize(fromBytes, ents, req) }},
		{"Authorize(PolicyMap)", func() (cedar.Decision, cedar.Diagnostic) { return cedar.Authorize(pmap, ents, req) }},
		{"Authorize(policies from Decoder)", func() (cedar.Decision, cedar.Diagnostic) { return cedar.Authorize(streamed, ents, req) }},
		{"Authorize(slice iterator)", func() (cedar.Decision, cedar.Diagnostic) {
			return cedar.Authorize(sliceIter{ids: cids, ps: list}, ents, req)
		}},
		{"Authorize(reversed iterator)", func() (cedar.Decision, cedar.Diagnostic) {
			return cedar.Authorize(sliceIter{ids: cids, ps: list, rev: true}, ents, req)
		}},
	}
	classes := make([]string, len(pols))
	for i, p := range pols {
		e := "forbid"
		if p.permit {
			e = "permit"
		}
		classes[i] = e + "/" + p.out.String()
	}
	sortedClasses := append([]string{}, classes...)
	sort.Strings(sortedClasses)
	w.NonTrivial(form + "|" + doc)
	w.Count("multiset " + fmt.Sprint(len(pols)) + " policies")
	for _, rn := range runs {
		dec, diag := rn.f()
		w.Evals(1)
		gotReasons, gotErrs := bridge.Diag(diag)
		wit := map[string]any{"doc": doc, "classes": classes, "api": rn.name, "request": envWitness(env),
			"got": map[string]any{"decision": dec.String(), "reasons": gotReasons, "errors": gotErrs},
			"want": map[string]any{"allow": wantAllow, "reasons": wantReasons, "errors": wantErrs}}
		if (dec == cedar.Allow) != wantAllow {
			w.Violation("decision: got="+dec.String()+" classes="+strings.Join(uniq(sortedClasses), "+"), fmt.Sprintf("%s decides %v for policy classes %v (table says allow=%v)", rn.name, dec, classes, wantAllow), wit)
			continue
		}
		if !eqStrs(gotReasons, wantReasons) {
			w.Violation("reasons differ; classes="+strings.Join(uniq(sortedClasses), "+"), fmt.Sprintf("%s reports reasons %v, table says %v (classes %v)", rn.name, gotReasons, wantReasons, classes), wit)
			continue
		}
		if !eqStrs(gotErrs, wantErrs) {
			w.Violation("errors differ; classes="+strings.Join(uniq(sortedClasses), "+"), fmt.Sprintf("%s reports erroring policies %v, table says %v (classes %v)", rn.name, gotErrs, wantErrs, classes), wit)
			continue
		}
		for _, r := range diag.Reasons {
			if r.Position != wantPos[string(r.PolicyID)] {
				w.Violation("reason position", fmt.Sprintf("%s: reason %s carries position %+v, its first token is at %+v", rn.name, r.PolicyID, r.Position, wantPos[string(r.PolicyID)]), wit)
			}
		}
		for _, e := range diag.Errors {
			if e.Position != wantPos[string(e.PolicyID)] {
				w.Violation("error position", fmt.Sprintf("%s: error for %s carries position %+v, its first token is at %+v", rn.name, e.PolicyID, e.Position, wantPos[string(e.PolicyID)]), wit)
			}
			if m, ok := solo[string(e.PolicyID)]; ok && form == "table" && m != e.Message {
				w.Violation("error message differs from solo run", fmt.Sprintf("%s: policy %s reports %q in the set but %q when authorised alone", rn.name, e.PolicyID, e.Message, m), wit)
			}
		}
	}
}

func uniq(s []string) []string {
	var out []string
	for i, x := range s {
		if i == 0 || x != s[i-1] {
			out = append(out, x)
		}
	}
	return out
}

func eqStrs(a, b []string) bool {
	if len(a) != len(b) {
		return false
	}
	for i := range a {
		if a[i] != b[i] {
			return false
		}
	}
	return true
}

func C02(c *mon.Ctx) {
	c.Rule = "case = (sequence of policies, entity store, request). Part 1: every sequence of (effect x {satisfied, unsatisfied, erroring}) classes up to length 4 (quick) / 5 (thorough), each class realised by construction in 3 rotating variants (scope match/mismatch of every scope form, constant / request-dependent / store-dependent conditions, single-failure erroring bodies), parsed from one document so that positions are distinct; " +
		"oracle = the Cedar decision table, plus id+position of every reason/error and error message equal to the solo run; run through *PolicySet, IsAuthorized, NewPolicySetFromBytes, PolicyMap and two custom PolicyIterators. Part 2: random policy sets whose per-policy outcomes come from the reference evaluator. distinct_nontrivial = distinct documents with >= 1 policy."
	c.Assume = []string{"per-policy outcomes of part 1 are fixed by construction against the fixed base store/request", "random part: literals in the known-finding range of datetime are avoided (see gen.ExprCfg.SafeDT)"}
	c.Floor = 500
	env := baseEnv()
	// verify the by-construction classes once against the model-independent expectation using single-policy authorisations
	maxLen := 4
	if c.Thorough() {
		maxLen = 5
	}
	type cls struct {
		permit bool
		out    model.Outcome
	}
	classes := []cls{{true, model.Sat}, {true, model.Unsat}, {true, model.Erroring}, {false, model.Sat}, {false, model.Unsat}, {false, model.Erroring}}
	total := 0
	pow := 1
	starts := []int{}
	for l := 0; l <= maxLen; l++ {
		starts = append(starts, total)
		total += pow
		pow *= 6
	}
	for variant := 0; variant < 3; variant++ {
		variant := variant
		c.ParFor(fmt.Sprintf("table-v%d", variant), total, func(w *mon.W, idx int) {
			l := 0
			for l+1 < len(starts) && idx >= starts[l+1] {
				l++
			}
			code := idx - starts[l]
			pols := make([]c02pol, l)
			for k := 0; k < l; k++ {
				cl := classes[code%6]
				code /= 6
				var body string
				pick := variant + k
				switch cl.out {
				case model.Sat:
					body = c02sat[pick%len(c02sat)]
				case model.Unsat:
					body = c02unsat[pick%len(c02unsat)]
				default:
					body = c02err[pick%len(c02err)]
				}
				eff := "forbid"
				if cl.permit {
					eff = "permit"
				}
				pols[k] = c02pol{permit: cl.permit, out: cl.out, text: fmt.Sprintf("@id(\"p%d\")\n%s %s;", k, eff, body)}
			}
			c02check(w, pols, env, "table")
			if idx%4000 == 7 {
				var ts []string
				for _, p := range pols {
					ts = append(ts, p.text)
				}
				w.Sample("table", ts)
			}
		})
	}
	c.SetExhaustive(true)
	// random policy sets
	c.ParFor("random", c.N(5000, 100000), func(w *mon.W, i int) {
		r := w.Rand()
		renv := gen.RandEnv(r)
		n := r.Intn(7)
		pols := make([]c02pol, 0, n)
		pr := &render.Printer{R: w.RandSub("print"), Sugar: true}
		for k := 0; k < n; k++ {
			mp := gen.RandPolicy(r, gen.ExprCfg{PIll: 0.05, PrimLits: true, SafeDT: true, WellFormedExt: true}, 3)
			out, _ := model.PolicyOutcome(mp, renv)
			pols = append(pols, c02pol{permit: mp.Permit, out: out, text: pr.Policy(mp)})
		}
		c02check(w, pols, renv, "random")
		if i%1000 == 3 && len(pols) > 0 {
			w.Sample("random", pols[0].text)
		}
	})
	_ = types.String("")
}
