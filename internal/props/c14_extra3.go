package props

import (
	"fmt"
	"strings"

	cedar "github.com/cedar-policy/cedar-go"
	"github.com/cedar-policy/cedar-go/types"

	"verif/internal/mon"
)

// Stream wide-objects: every way a policy can fail, on objects with MANY entries. The other
// authorize streams draw records, entities and sets with a handful of members; a message
// that lists, counts or samples the members of the object it complains about (available
// attributes, the offending value, a truncated preview) can only vary with map iteration
// order when there are more entries than it prints. Records / attribute and tag sets /
// sets of 6..64 entries; one failing sub-expression per policy; R identical Authorize calls
// on the same objects plus R calls on freshly parsed policies.
func init() {
	orig := Registry["C14"]
	Registry["C14"] = func(c *mon.Ctx) {
		orig(c)
		c.Rule += " Stream wide-objects: 14 failing policy bodies (missing attribute / tag on a record, record literal, entity; type errors whose operand is a wide record or set; absent entity; overflow next to a wide record) over records, entities, tag sets and sets of 6..64 entries; R identical cedar.Authorize calls each, on one compiled policy set and on freshly parsed ones."
		c14wide(c)
	}
}

func c14wide(c *mon.Ctx) {
	cfg := c14cfgT{R: 24}
	if c.Thorough() {
		cfg.R = 64
	}
	widths := []int{6, 7, 8, 9, 12, 17, 33, 64}
	bodies := []struct{ name, text string }{
		{"missing attribute on a wide context record", `context.rec.missing == 1`},
		{"missing attribute on context itself", `context.missing == 1`},
		{"missing attribute on a wide entity", `principal.missing == 1`},
		{"missing attribute on a wide entity reached through an attribute", `resource.owner.missing == 1`},
		{"missing tag on a wide tag set", `principal.getTag("missing") == 1`},
		{"missing attribute on a wide record literal", `%LIT%.missing == 1`},
		{"arithmetic on a wide record", `context.rec + 1 == 2`},
		{"contains on a wide record", `context.rec.contains(1)`},
		{"like on a wide record", `context.rec like "x*"`},
		{"ordering on a wide set", `context.set < 1`},
		{"attribute access on a wide set", `context.set.a00 == 1`},
		{"negation of a wide record", `!context.rec`},
		{"absent entity next to a wide record", `Other::"absent".a00 == context.rec`},
		{"overflow next to a wide record", `context.rec.a00 + 9223372036854775807 + 1 == 0 || context.rec == context.rec`},
	}
	c.ParFor("wide-objects", len(widths)*len(bodies)*2, func(w *mon.W, i int) {
		wd, bd, eff := widths[i%len(widths)], bodies[(i/len(widths))%len(bodies)], []string{"permit", "forbid"}[i/(len(widths)*len(bodies))]
		r := w.Rand()
		rm, tags := types.RecordMap{}, types.RecordMap{}
		var lit []string
		var members []types.Value
		for k := 0; k < wd; k++ {
			key := fmt.Sprintf("a%02d", k)
			if k > 0 && r.P(0.3) {
				key = fmt.Sprintf("k %dé", k)
			}
			rm[types.String(key)] = types.Long(int64(k))
			tags[types.String(key)] = types.String(key)
			lit = append(lit, fmt.Sprintf("%q: %d", key, k))
			switch k % 3 {
			case 0:
				members = append(members, types.Long(int64(k)))
			case 1:
				members = append(members, types.String(key))
			default:
				members = append(members, types.NewEntityUID("U", types.String(key)))
			}
		}
		rec := types.NewRecord(rm)
		owner := types.NewEntityUID("U", "owner")
		ents := types.EntityMap{
			types.NewEntityUID("U", "p"): {UID: types.NewEntityUID("U", "p"), Attributes: rec, Tags: types.NewRecord(tags)},
			owner:                        {UID: owner, Attributes: rec},
			types.NewEntityUID("R", "r"): {UID: types.NewEntityUID("R", "r"), Attributes: types.NewRecord(types.RecordMap{"owner": owner})},
		}
		req := cedar.Request{Principal: types.NewEntityUID("U", "p"), Action: types.NewEntityUID("Action", "a"), Resource: types.NewEntityUID("R", "r"),
			Context: types.NewRecord(types.RecordMap{"rec": rec, "set": types.NewSet(members...), "n": types.Long(1)})}
		body := strings.ReplaceAll(bd.text, "%LIT%", "{"+strings.Join(lit, ", ")+"}")
		src := fmt.Sprintf("%s(principal, action, resource) when { %s };\npermit(principal, action, resource);", eff, body)
		ps, err := cedar.NewPolicySetFromBytes("wide.cedar", []byte(src))
		if err != nil {
			w.Inconclusive("wide-objects policy does not parse: " + err.Error())
			return
		}
		w.NonTrivial(fmt.Sprintf("wide/%d/%s/%s", wd, bd.name, eff))
		input := map[string]any{"policies": src, "entries": wd, "failure": bd.name}
		out := c14check(w, cfg, "authorize:wide-objects:same-objects:"+bd.name, "cedar.Authorize repeated on the same policy set, entities and request ("+bd.name+")", input, func(int) string {
			dec, d := cedar.Authorize(ps, ents, req)
			return c14DiagString(dec, d)
		})
		if out.N() == 1 && !strings.Contains(out.order[0], "policy0: ") {
			w.Count("wide-objects: body did not fail (" + bd.name + ")")
		}
		c14check(w, cfg, "authorize:wide-objects:fresh-parse:"+bd.name, "cedar.Authorize on freshly parsed policies and a freshly built entity map ("+bd.name+")", input, func(int) string {
			ps2, err := cedar.NewPolicySetFromBytes("wide.cedar", []byte(src))
			if err != nil {
				return "parse error"
			}
			e2 := types.EntityMap{}
			for k, v := range ents {
				e2[k] = v
			}
			dec, d := cedar.Authorize(ps2, e2, req)
			return c14DiagString(dec, d)
		})
	})
}
