package props

// C16 case model: plain, JSON-serialisable descriptions of a schema and of the artefacts
// (policies, entities, requests) validated against it. The parent process generates and
// serialises cases; only the child process turns them into cedar-go objects and calls
// cedar-go (a stack overflow is fatal in Go and must not take the monitor down).

import (
	"encoding/json"
	"fmt"
	"sort"
	"strings"

	cedar "github.com/cedar-policy/cedar-go"
	"github.com/cedar-policy/cedar-go/types"
	"github.com/cedar-policy/cedar-go/x/exp/ast"
	sast "github.com/cedar-policy/cedar-go/x/exp/schema/ast"
)

// ---------------------------------------------------------------- schema model

type c16Type struct {
	K     string    `json:"k"` // String Long Bool Ext Set Record Entity Ref
	Name  string    `json:"n,omitempty"`
	Elem  *c16Type  `json:"e,omitempty"`
	Attrs []c16Attr `json:"a,omitempty"`
}

type c16Attr struct {
	Name string  `json:"n"`
	T    c16Type `json:"t"`
	Opt  bool    `json:"o,omitempty"`
}

type c16Entity struct {
	Name     string    `json:"n"`
	Parents  []string  `json:"p,omitempty"`
	HasShape bool      `json:"hs,omitempty"`
	Shape    []c16Attr `json:"s,omitempty"`
	Tags     *c16Type  `json:"t,omitempty"`
	IsEnum   bool      `json:"en,omitempty"`
	Values   []string  `json:"v,omitempty"`
}

type c16Common struct {
	Name string  `json:"n"`
	T    c16Type `json:"t"`
}

type c16ParentRef struct {
	Type string `json:"t,omitempty"` // "" = same-namespace action
	ID   string `json:"id"`
}

type c16Action struct {
	Name       string         `json:"n"`
	Parents    []c16ParentRef `json:"p,omitempty"`
	HasApplies bool           `json:"ha,omitempty"`
	Principals []string       `json:"pr,omitempty"`
	Resources  []string       `json:"rs,omitempty"`
	Context    *c16Type       `json:"cx,omitempty"`
}

type c16NS struct {
	Name     string      `json:"n"` // "" = the empty namespace
	Entities []c16Entity `json:"e,omitempty"`
	Commons  []c16Common `json:"c,omitempty"`
	Actions  []c16Action `json:"a,omitempty"`
}

type c16Schema struct {
	NS []c16NS `json:"ns"`
}

func c16TLong() c16Type                  { return c16Type{K: "Long"} }
func c16TString() c16Type                { return c16Type{K: "String"} }
func c16TBool() c16Type                  { return c16Type{K: "Bool"} }
func c16TExt(n string) c16Type           { return c16Type{K: "Ext", Name: n} }
func c16TEnt(n string) c16Type           { return c16Type{K: "Entity", Name: n} }
func c16TRef(n string) c16Type           { return c16Type{K: "Ref", Name: n} }
func c16TSet(e c16Type) c16Type          { return c16Type{K: "Set", Elem: &e} }
func c16TRec(a ...c16Attr) c16Type       { return c16Type{K: "Record", Attrs: a} }
func c16At(n string, t c16Type) c16Attr  { return c16Attr{Name: n, T: t} }
func c16Ato(n string, t c16Type) c16Attr { return c16Attr{Name: n, T: t, Opt: true} }

func (t c16Type) toAST() sast.IsType {
	switch t.K {
	case "String":
		return sast.StringType{}
	case "Long":
		return sast.LongType{}
	case "Bool":
		return sast.BoolType{}
	case "Ext":
		return sast.ExtensionType(t.Name)
	case "Set":
		if t.Elem == nil {
			return sast.SetType{Element: sast.LongType{}}
		}
		return sast.SetType{Element: t.Elem.toAST()}
	case "Record":
		return c16RecAST(t.Attrs)
	case "Entity":
		return sast.EntityTypeRef(t.Name)
	}
	return sast.TypeRef(t.Name)
}

func c16RecAST(attrs []c16Attr) sast.RecordType {
	r := sast.RecordType{}
	for _, a := range attrs {
		r[types.String(a.Name)] = sast.Attribute{Type: a.T.toAST(), Optional: a.Opt}
	}
	return r
}

func (t c16Type) toJSON() map[string]any {
	switch t.K {
	case "String", "Long":
		return map[string]any{"type": t.K}
	case "Bool":
		return map[string]any{"type": "Boolean"}
	case "Ext":
		return map[string]any{"type": "Extension", "name": t.Name}
	case "Set":
		if t.Elem == nil {
			return map[string]any{"type": "Set", "element": map[string]any{"type": "Long"}}
		}
		return map[string]any{"type": "Set", "element": t.Elem.toJSON()}
	case "Record":
		return c16RecJSON(t.Attrs)
	case "Entity":
		return map[string]any{"type": "Entity", "name": t.Name}
	}
	return map[string]any{"type": "EntityOrCommon", "name": t.Name}
}

func c16RecJSON(attrs []c16Attr) map[string]any {
	m := map[string]any{}
	for _, a := range attrs {
		j := a.T.toJSON()
		if a.Opt {
			j["required"] = false
		}
		m[a.Name] = j
	}
	return map[string]any{"type": "Record", "attributes": m}
}

func (s *c16Schema) toAST() *sast.Schema {
	out := &sast.Schema{}
	for _, ns := range s.NS {
		var n sast.Namespace
		for _, e := range ns.Entities {
			if e.IsEnum {
				if n.Enums == nil {
					n.Enums = sast.Enums{}
				}
				en := sast.Enum{}
				for _, v := range e.Values {
					en.Values = append(en.Values, types.String(v))
				}
				n.Enums[types.Ident(e.Name)] = en
				continue
			}
			if n.Entities == nil {
				n.Entities = sast.Entities{}
			}
			ae := sast.Entity{}
			for _, p := range e.Parents {
				ae.ParentTypes = append(ae.ParentTypes, sast.EntityTypeRef(p))
			}
			if e.HasShape {
				ae.Shape = c16RecAST(e.Shape)
			}
			if e.Tags != nil {
				ae.Tags = e.Tags.toAST()
			}
			n.Entities[types.Ident(e.Name)] = ae
		}
		for _, c := range ns.Commons {
			if n.CommonTypes == nil {
				n.CommonTypes = sast.CommonTypes{}
			}
			n.CommonTypes[types.Ident(c.Name)] = sast.CommonType{Type: c.T.toAST()}
		}
		for _, a := range ns.Actions {
			if n.Actions == nil {
				n.Actions = sast.Actions{}
			}
			aa := sast.Action{}
			for _, p := range a.Parents {
				if p.Type == "" {
					aa.Parents = append(aa.Parents, sast.ParentRefFromID(types.String(p.ID)))
				} else {
					aa.Parents = append(aa.Parents, sast.NewParentRef(sast.EntityTypeRef(p.Type), types.String(p.ID)))
				}
			}
			if a.HasApplies {
				ap := &sast.AppliesTo{}
				for _, p := range a.Principals {
					ap.Principals = append(ap.Principals, sast.EntityTypeRef(p))
				}
				for _, p := range a.Resources {
					ap.Resources = append(ap.Resources, sast.EntityTypeRef(p))
				}
				if a.Context != nil {
					ap.Context = a.Context.toAST()
				}
				aa.AppliesTo = ap
			}
			n.Actions[types.String(a.Name)] = aa
		}
		if ns.Name == "" {
			out.Entities, out.Enums, out.Actions, out.CommonTypes = n.Entities, n.Enums, n.Actions, n.CommonTypes
			continue
		}
		if out.Namespaces == nil {
			out.Namespaces = sast.Namespaces{}
		}
		out.Namespaces[types.Path(ns.Name)] = n
	}
	return out
}

// toJSON renders the schema in the Cedar JSON schema format with the harness's own encoder.
func (s *c16Schema) toJSON() []byte {
	out := map[string]any{}
	for _, ns := range s.NS {
		ets := map[string]any{}
		for _, e := range ns.Entities {
			j := map[string]any{}
			if e.IsEnum {
				vals := e.Values
				if vals == nil {
					vals = []string{}
				}
				j["enum"] = vals
				ets[e.Name] = j
				continue
			}
			if len(e.Parents) > 0 {
				j["memberOfTypes"] = e.Parents
			}
			if e.HasShape {
				j["shape"] = c16RecJSON(e.Shape)
			}
			if e.Tags != nil {
				j["tags"] = e.Tags.toJSON()
			}
			ets[e.Name] = j
		}
		acts := map[string]any{}
		for _, a := range ns.Actions {
			j := map[string]any{}
			if len(a.Parents) > 0 {
				var ps []any
				for _, p := range a.Parents {
					pj := map[string]any{"id": p.ID}
					if p.Type != "" {
						pj["type"] = p.Type
					}
					ps = append(ps, pj)
				}
				j["memberOf"] = ps
			}
			if a.HasApplies {
				ap := map[string]any{"principalTypes": c16StrList(a.Principals), "resourceTypes": c16StrList(a.Resources)}
				if a.Context != nil {
					ap["context"] = a.Context.toJSON()
				}
				j["appliesTo"] = ap
			}
			acts[a.Name] = j
		}
		nj := map[string]any{"entityTypes": ets, "actions": acts}
		if len(ns.Commons) > 0 {
			cts := map[string]any{}
			for _, c := range ns.Commons {
				cts[c.Name] = c.T.toJSON()
			}
			nj["commonTypes"] = cts
		}
		out[ns.Name] = nj
	}
	b, _ := json.Marshal(out)
	return b
}

func c16StrList(s []string) []string {
	if s == nil {
		return []string{}
	}
	return s
}

// ---------------------------------------------------------------- values and expressions

type c16Val struct {
	K     string   `json:"k"` // bool long string entity set record decimal ip datetime duration
	B     bool     `json:"b,omitempty"`
	I     int64    `json:"i,omitempty"`
	S     string   `json:"s,omitempty"` // string content, entity id, or extension literal text
	T     string   `json:"t,omitempty"` // entity type
	Elems []c16Val `json:"e,omitempty"`
	Keys  []string `json:"ks,omitempty"`
}

func c16VBool(b bool) c16Val           { return c16Val{K: "bool", B: b} }
func c16VLong(i int64) c16Val          { return c16Val{K: "long", I: i} }
func c16VStr(s string) c16Val          { return c16Val{K: "string", S: s} }
func c16VEnt(t, id string) c16Val      { return c16Val{K: "entity", T: t, S: id} }
func c16VSet(e ...c16Val) c16Val       { return c16Val{K: "set", Elems: e} }
func c16VExt(kind, text string) c16Val { return c16Val{K: kind, S: text} }
func c16VRec(kv ...any) c16Val {
	v := c16Val{K: "record"}
	for i := 0; i+1 < len(kv); i += 2 {
		v.Keys = append(v.Keys, kv[i].(string))
		v.Elems = append(v.Elems, kv[i+1].(c16Val))
	}
	return v
}

func (v c16Val) toValue() types.Value {
	switch v.K {
	case "bool":
		return types.Boolean(v.B)
	case "long":
		return types.Long(v.I)
	case "string":
		return types.String(v.S)
	case "entity":
		return types.NewEntityUID(types.EntityType(v.T), types.String(v.S))
	case "set":
		var es []types.Value
		for _, e := range v.Elems {
			es = append(es, e.toValue())
		}
		return types.NewSet(es...)
	case "record":
		return v.toRecord()
	case "decimal":
		if d, err := types.ParseDecimal(v.S); err == nil {
			return d
		}
	case "ip":
		if d, err := types.ParseIPAddr(v.S); err == nil {
			return d
		}
	case "datetime":
		if d, err := types.ParseDatetime(v.S); err == nil {
			return d
		}
	case "duration":
		if d, err := types.ParseDuration(v.S); err == nil {
			return d
		}
	}
	return types.String(v.S)
}

func (v c16Val) toRecord() types.Record {
	m := types.RecordMap{}
	if v.K == "record" {
		for i, k := range v.Keys {
			if i < len(v.Elems) {
				m[types.String(k)] = v.Elems[i].toValue()
			}
		}
	}
	return types.NewRecord(m)
}

// toJSON is the Cedar JSON value format (explicit escapes), written by the harness.
func (v c16Val) toJSON() any {
	switch v.K {
	case "bool":
		return v.B
	case "long":
		return v.I
	case "string":
		return v.S
	case "entity":
		return map[string]any{"__entity": map[string]any{"type": v.T, "id": v.S}}
	case "set":
		out := []any{}
		for _, e := range v.Elems {
			out = append(out, e.toJSON())
		}
		return out
	case "record":
		out := map[string]any{}
		for i, k := range v.Keys {
			if i < len(v.Elems) {
				out[k] = v.Elems[i].toJSON()
			}
		}
		return out
	}
	return map[string]any{"__extn": map[string]any{"fn": v.K, "arg": v.S}}
}

func (v c16Val) text() string {
	switch v.K {
	case "bool":
		return fmt.Sprint(v.B)
	case "long":
		return fmt.Sprint(v.I)
	case "string":
		return fmt.Sprintf("%q", v.S)
	case "entity":
		return fmt.Sprintf("%s::%q", v.T, v.S)
	case "set":
		var p []string
		for _, e := range v.Elems {
			p = append(p, e.text())
		}
		return "[" + strings.Join(p, ", ") + "]"
	case "record":
		var p []string
		for i, k := range v.Keys {
			if i < len(v.Elems) {
				p = append(p, fmt.Sprintf("%q: %s", k, v.Elems[i].text()))
			}
		}
		return "{" + strings.Join(p, ", ") + "}"
	}
	return fmt.Sprintf("%s(%q)", v.K, v.S)
}

type c16Pat struct {
	Wild bool   `json:"w,omitempty"`
	Lit  string `json:"l,omitempty"`
}

// c16Expr ops: val var and or not neg if == != < <= > >= + - * in contains containsAll
// containsAny isEmpty like is isIn has access hasTag getTag record set ext
type c16Expr struct {
	Op   string    `json:"op"`
	V    *c16Val   `json:"v,omitempty"`
	S    string    `json:"s,omitempty"`
	Pat  []c16Pat  `json:"pat,omitempty"`
	Args []c16Expr `json:"args,omitempty"`
	Keys []string  `json:"keys,omitempty"`
}

func c16EVal(v c16Val) c16Expr                { return c16Expr{Op: "val", V: &v} }
func c16EVar(n string) c16Expr                { return c16Expr{Op: "var", S: n} }
func c16EUn(op string, a c16Expr) c16Expr     { return c16Expr{Op: op, Args: []c16Expr{a}} }
func c16EBin(op string, a, b c16Expr) c16Expr { return c16Expr{Op: op, Args: []c16Expr{a, b}} }
func c16EIf(c, t, e c16Expr) c16Expr          { return c16Expr{Op: "if", Args: []c16Expr{c, t, e}} }
func c16EAcc(a c16Expr, attr string) c16Expr {
	return c16Expr{Op: "access", S: attr, Args: []c16Expr{a}}
}
func c16EHas(a c16Expr, attr string) c16Expr { return c16Expr{Op: "has", S: attr, Args: []c16Expr{a}} }
func c16EIs(a c16Expr, t string) c16Expr     { return c16Expr{Op: "is", S: t, Args: []c16Expr{a}} }
func c16EIsIn(a c16Expr, t string, b c16Expr) c16Expr {
	return c16Expr{Op: "isIn", S: t, Args: []c16Expr{a, b}}
}
func c16ELike(a c16Expr, p ...c16Pat) c16Expr { return c16Expr{Op: "like", Pat: p, Args: []c16Expr{a}} }
func c16ESet(a ...c16Expr) c16Expr            { return c16Expr{Op: "set", Args: a} }
func c16EExt(fn string, a ...c16Expr) c16Expr { return c16Expr{Op: "ext", S: fn, Args: a} }
func c16ERec(kv ...any) c16Expr {
	e := c16Expr{Op: "record"}
	for i := 0; i+1 < len(kv); i += 2 {
		e.Keys = append(e.Keys, kv[i].(string))
		e.Args = append(e.Args, kv[i+1].(c16Expr))
	}
	return e
}
func c16EEnt(t, id string) c16Expr { return c16EVal(c16VEnt(t, id)) }

func (e c16Expr) arg(i int) c16Expr {
	if i < len(e.Args) {
		return e.Args[i]
	}
	return c16EVal(c16VBool(true))
}

func (e c16Expr) size() int {
	n := 1
	for _, a := range e.Args {
		n += a.size()
	}
	return n
}

func c16Pattern(p []c16Pat) types.Pattern {
	var comps []any
	for _, c := range p {
		if c.Wild {
			comps = append(comps, types.Wildcard{})
		}
		if c.Lit != "" {
			comps = append(comps, types.String(c.Lit))
		}
	}
	return types.NewPattern(comps...)
}

var c16BinSym = map[string]bool{"==": true, "!=": true, "<": true, "<=": true, ">": true, ">=": true, "+": true, "-": true, "*": true,
	"in": true, "contains": true, "containsAll": true, "containsAny": true, "hasTag": true, "getTag": true}

// toNode builds the expression through the public x/exp/ast builder API.
func (e c16Expr) toNode() ast.Node {
	a := func(i int) ast.Node { return e.arg(i).toNode() }
	switch e.Op {
	case "val":
		if e.V == nil {
			return ast.True()
		}
		return ast.Value(e.V.toValue())
	case "var":
		switch e.S {
		case "principal":
			return ast.Principal()
		case "action":
			return ast.Action()
		case "resource":
			return ast.Resource()
		}
		return ast.Context()
	case "and":
		return a(0).And(a(1))
	case "or":
		return a(0).Or(a(1))
	case "not":
		return ast.Not(a(0))
	case "neg":
		return ast.Negate(a(0))
	case "if":
		return ast.IfThenElse(a(0), a(1), a(2))
	case "==":
		return a(0).Equal(a(1))
	case "!=":
		return a(0).NotEqual(a(1))
	case "<":
		return a(0).LessThan(a(1))
	case "<=":
		return a(0).LessThanOrEqual(a(1))
	case ">":
		return a(0).GreaterThan(a(1))
	case ">=":
		return a(0).GreaterThanOrEqual(a(1))
	case "+":
		return a(0).Add(a(1))
	case "-":
		return a(0).Subtract(a(1))
	case "*":
		return a(0).Multiply(a(1))
	case "in":
		return a(0).In(a(1))
	case "contains":
		return a(0).Contains(a(1))
	case "containsAll":
		return a(0).ContainsAll(a(1))
	case "containsAny":
		return a(0).ContainsAny(a(1))
	case "isEmpty":
		return a(0).IsEmpty()
	case "like":
		return a(0).Like(c16Pattern(e.Pat))
	case "is":
		return a(0).Is(types.EntityType(e.S))
	case "isIn":
		return a(0).IsIn(types.EntityType(e.S), a(1))
	case "has":
		return a(0).Has(types.String(e.S))
	case "access":
		return a(0).Access(types.String(e.S))
	case "hasTag":
		return a(0).HasTag(a(1))
	case "getTag":
		return a(0).GetTag(a(1))
	case "record":
		var ps ast.Pairs
		for i, k := range e.Keys {
			ps = append(ps, ast.Pair{Key: types.String(k), Value: a(i)})
		}
		return ast.Record(ps)
	case "set":
		var ns []ast.Node
		for i := range e.Args {
			ns = append(ns, a(i))
		}
		return ast.Set(ns...)
	case "ext":
		var ns []ast.Node
		for i := range e.Args {
			ns = append(ns, a(i))
		}
		return ast.ExtensionCall(types.Path(e.S), ns...)
	}
	return ast.True()
}

var c16JSONOp = map[string]string{"and": "&&", "or": "||", "not": "!", "neg": "neg", "if": "if-then-else", "access": ".", "record": "Record", "set": "Set"}

// toJSON is the harness's own encoder of the Cedar policy JSON (EST) expression format.
func (e c16Expr) toJSON() map[string]any {
	a := func(i int) any { return e.arg(i).toJSON() }
	lr := func() map[string]any { return map[string]any{"left": a(0), "right": a(1)} }
	switch e.Op {
	case "val":
		if e.V == nil {
			return map[string]any{"Value": true}
		}
		return map[string]any{"Value": e.V.toJSON()}
	case "var":
		return map[string]any{"Var": e.S}
	case "and", "or":
		return map[string]any{c16JSONOp[e.Op]: lr()}
	case "not", "neg":
		return map[string]any{c16JSONOp[e.Op]: map[string]any{"arg": a(0)}}
	case "isEmpty":
		return map[string]any{"isEmpty": map[string]any{"arg": a(0)}}
	case "if":
		return map[string]any{"if-then-else": map[string]any{"if": a(0), "then": a(1), "else": a(2)}}
	case "like":
		var pat []any
		for _, c := range e.Pat {
			if c.Wild {
				pat = append(pat, "Wildcard")
			}
			if c.Lit != "" {
				pat = append(pat, map[string]any{"Literal": c.Lit})
			}
		}
		if pat == nil {
			pat = []any{}
		}
		return map[string]any{"like": map[string]any{"left": a(0), "pattern": pat}}
	case "is":
		return map[string]any{"is": map[string]any{"left": a(0), "entity_type": e.S}}
	case "isIn":
		return map[string]any{"is": map[string]any{"left": a(0), "entity_type": e.S, "in": a(1)}}
	case "has":
		return map[string]any{"has": map[string]any{"left": a(0), "attr": e.S}}
	case "access":
		return map[string]any{".": map[string]any{"left": a(0), "attr": e.S}}
	case "record":
		m := map[string]any{}
		for i, k := range e.Keys {
			m[k] = a(i)
		}
		return map[string]any{"Record": m}
	case "set":
		l := []any{}
		for i := range e.Args {
			l = append(l, a(i))
		}
		return map[string]any{"Set": l}
	case "ext":
		l := []any{}
		for i := range e.Args {
			l = append(l, a(i))
		}
		return map[string]any{e.S: l}
	}
	if c16BinSym[e.Op] {
		return map[string]any{e.Op: lr()}
	}
	return map[string]any{"Value": true}
}

// text is a fully parenthesised, human-readable rendering (witness only; a literal that is
// a set/record/extension *value* is marked with a leading '#', since Cedar text cannot
// express it: text always parses to a set/record *expression* or a constructor call).
func (e c16Expr) text() string {
	a := func(i int) string { return e.arg(i).text() }
	switch e.Op {
	case "val":
		if e.V == nil {
			return "true"
		}
		switch e.V.K {
		case "bool", "long", "string", "entity":
			return e.V.text()
		}
		return "#" + e.V.text()
	case "var":
		return e.S
	case "and":
		return "(" + a(0) + " && " + a(1) + ")"
	case "or":
		return "(" + a(0) + " || " + a(1) + ")"
	case "not":
		return "!(" + a(0) + ")"
	case "neg":
		return "-(" + a(0) + ")"
	case "if":
		return "(if " + a(0) + " then " + a(1) + " else " + a(2) + ")"
	case "in":
		return "(" + a(0) + " in " + a(1) + ")"
	case "contains", "containsAll", "containsAny", "hasTag", "getTag":
		return a(0) + "." + e.Op + "(" + a(1) + ")"
	case "isEmpty":
		return a(0) + ".isEmpty()"
	case "like":
		return "(" + a(0) + " like " + string(c16PatText(e.Pat)) + ")"
	case "is":
		return "(" + a(0) + " is " + e.S + ")"
	case "isIn":
		return "(" + a(0) + " is " + e.S + " in " + a(1) + ")"
	case "has":
		return fmt.Sprintf("(%s has %q)", a(0), e.S)
	case "access":
		return fmt.Sprintf("%s[%q]", a(0), e.S)
	case "record":
		var p []string
		for i, k := range e.Keys {
			p = append(p, fmt.Sprintf("%q: %s", k, a(i)))
		}
		return "{" + strings.Join(p, ", ") + "}"
	case "set":
		var p []string
		for i := range e.Args {
			p = append(p, a(i))
		}
		return "[" + strings.Join(p, ", ") + "]"
	case "ext":
		var p []string
		for i := range e.Args {
			p = append(p, a(i))
		}
		return e.S + "(" + strings.Join(p, ", ") + ")"
	}
	if c16BinSym[e.Op] {
		return "(" + a(0) + " " + e.Op + " " + a(1) + ")"
	}
	return "true"
}

func c16PatText(p []c16Pat) string {
	var b strings.Builder
	b.WriteByte('"')
	for _, c := range p {
		if c.Wild {
			b.WriteByte('*')
		}
		b.WriteString(strings.ReplaceAll(c.Lit, "*", `\*`))
	}
	b.WriteByte('"')
	return b.String()
}

// ---------------------------------------------------------------- policies, entities, requests

type c16UID struct {
	T  string `json:"t"`
	ID string `json:"id"`
}

func (u c16UID) uid() types.EntityUID {
	return types.NewEntityUID(types.EntityType(u.T), types.String(u.ID))
}
func (u c16UID) text() string { return fmt.Sprintf("%s::%q", u.T, u.ID) }
func (u c16UID) json() any    { return map[string]any{"type": u.T, "id": u.ID} }

type c16Scope struct {
	K   string   `json:"k"` // all eq in is isin inset
	T   string   `json:"t,omitempty"`
	E   c16UID   `json:"e,omitempty"`
	Set []c16UID `json:"set,omitempty"`
}

type c16Cond struct {
	Unless bool    `json:"u,omitempty"`
	Body   c16Expr `json:"b"`
}

type c16Policy struct {
	Forbid bool      `json:"f,omitempty"`
	P      c16Scope  `json:"p"`
	A      c16Scope  `json:"a"`
	R      c16Scope  `json:"r"`
	Conds  []c16Cond `json:"c,omitempty"`
}

func c16ScAll() c16Scope                    { return c16Scope{K: "all"} }
func c16ScEq(u c16UID) c16Scope             { return c16Scope{K: "eq", E: u} }
func c16ScIn(u c16UID) c16Scope             { return c16Scope{K: "in", E: u} }
func c16ScIs(t string) c16Scope             { return c16Scope{K: "is", T: t} }
func c16ScIsIn(t string, u c16UID) c16Scope { return c16Scope{K: "isin", T: t, E: u} }
func c16ScInSet(u ...c16UID) c16Scope       { return c16Scope{K: "inset", Set: u} }

func c16PolWhen(body c16Expr) *c16Policy {
	return &c16Policy{P: c16ScAll(), A: c16ScAll(), R: c16ScAll(), Conds: []c16Cond{{Body: body}}}
}
func c16PolScope(p, a, r c16Scope) *c16Policy { return &c16Policy{P: p, A: a, R: r} }

func (p *c16Policy) toAST() *ast.Policy {
	out := ast.Permit()
	if p.Forbid {
		out = ast.Forbid()
	}
	switch p.P.K {
	case "eq":
		out.PrincipalEq(p.P.E.uid())
	case "in":
		out.PrincipalIn(p.P.E.uid())
	case "is":
		out.PrincipalIs(types.EntityType(p.P.T))
	case "isin":
		out.PrincipalIsIn(types.EntityType(p.P.T), p.P.E.uid())
	}
	switch p.A.K {
	case "eq":
		out.ActionEq(p.A.E.uid())
	case "in":
		out.ActionIn(p.A.E.uid())
	case "inset":
		var us []types.EntityUID
		for _, u := range p.A.Set {
			us = append(us, u.uid())
		}
		out.ActionInSet(us...)
	}
	switch p.R.K {
	case "eq":
		out.ResourceEq(p.R.E.uid())
	case "in":
		out.ResourceIn(p.R.E.uid())
	case "is":
		out.ResourceIs(types.EntityType(p.R.T))
	case "isin":
		out.ResourceIsIn(types.EntityType(p.R.T), p.R.E.uid())
	}
	for _, c := range p.Conds {
		if c.Unless {
			out.Unless(c.Body.toNode())
		} else {
			out.When(c.Body.toNode())
		}
	}
	return out
}

func (s c16Scope) toJSON() map[string]any {
	switch s.K {
	case "eq":
		return map[string]any{"op": "==", "entity": s.E.json()}
	case "in":
		return map[string]any{"op": "in", "entity": s.E.json()}
	case "is":
		return map[string]any{"op": "is", "entity_type": s.T}
	case "isin":
		return map[string]any{"op": "is", "entity_type": s.T, "in": map[string]any{"entity": s.E.json()}}
	case "inset":
		l := []any{}
		for _, u := range s.Set {
			l = append(l, u.json())
		}
		return map[string]any{"op": "in", "entities": l}
	}
	return map[string]any{"op": "All"}
}

func (p *c16Policy) toJSON() []byte {
	eff := "permit"
	if p.Forbid {
		eff = "forbid"
	}
	conds := []any{}
	for _, c := range p.Conds {
		k := "when"
		if c.Unless {
			k = "unless"
		}
		conds = append(conds, map[string]any{"kind": k, "body": c.Body.toJSON()})
	}
	b, _ := json.Marshal(map[string]any{"effect": eff, "principal": p.P.toJSON(), "action": p.A.toJSON(), "resource": p.R.toJSON(), "conditions": conds})
	return b
}

func (s c16Scope) text(v string) string {
	switch s.K {
	case "eq":
		return v + " == " + s.E.text()
	case "in":
		return v + " in " + s.E.text()
	case "is":
		return v + " is " + s.T
	case "isin":
		return v + " is " + s.T + " in " + s.E.text()
	case "inset":
		var p []string
		for _, u := range s.Set {
			p = append(p, u.text())
		}
		return v + " in [" + strings.Join(p, ", ") + "]"
	}
	return v
}

func (p *c16Policy) text() string {
	eff := "permit"
	if p.Forbid {
		eff = "forbid"
	}
	s := eff + "(" + p.P.text("principal") + ", " + p.A.text("action") + ", " + p.R.text("resource") + ")"
	for _, c := range p.Conds {
		k := " when { "
		if c.Unless {
			k = " unless { "
		}
		s += k + c.Body.text() + " }"
	}
	return s + ";"
}

// decodeJSON sends the harness-encoded policy JSON through cedar-go's decoder.
func (p *c16Policy) decodeJSON() (*ast.Policy, error) {
	var cp cedar.Policy
	if err := cp.UnmarshalJSON(p.toJSON()); err != nil {
		return nil, err
	}
	return (*ast.Policy)(cp.AST()), nil
}

type c16Ent struct {
	UID     c16UID   `json:"uid"`
	Parents []c16UID `json:"parents,omitempty"`
	Attrs   c16Val   `json:"attrs"`
	Tags    c16Val   `json:"tags"`
}

func (e c16Ent) toEntity() types.Entity {
	var ps []types.EntityUID
	for _, p := range e.Parents {
		ps = append(ps, p.uid())
	}
	return types.Entity{UID: e.UID.uid(), Parents: types.NewEntityUIDSet(ps...), Attributes: e.Attrs.toRecord(), Tags: e.Tags.toRecord()}
}

func (a c16Art) entityMap() types.EntityMap {
	m := types.EntityMap{}
	for _, e := range a.Ents {
		en := e.toEntity()
		m[en.UID] = en
	}
	return m
}

func (e c16Ent) text() string {
	var ps []string
	for _, p := range e.Parents {
		ps = append(ps, p.text())
	}
	a, t := e.Attrs, e.Tags
	if a.K != "record" {
		a = c16VRec()
	}
	if t.K != "record" {
		t = c16VRec()
	}
	return fmt.Sprintf("{uid: %s, parents: [%s], attrs: %s, tags: %s}", e.UID.text(), strings.Join(ps, ", "), a.text(), t.text())
}

type c16Req struct {
	P   c16UID `json:"p"`
	A   c16UID `json:"a"`
	R   c16UID `json:"r"`
	Ctx c16Val `json:"ctx"`
}

func (r c16Req) toRequest() types.Request {
	return types.Request{Principal: r.P.uid(), Action: r.A.uid(), Resource: r.R.uid(), Context: r.Ctx.toRecord()}
}

func (r c16Req) text() string {
	c := r.Ctx
	if c.K != "record" {
		c = c16VRec()
	}
	return fmt.Sprintf("{principal: %s, action: %s, resource: %s, context: %s}", r.P.text(), r.A.text(), r.R.text(), c.text())
}

type c16Art struct {
	Kind string     `json:"kind"` // policy entity entities request
	Pol  *c16Policy `json:"pol,omitempty"`
	Ents []c16Ent   `json:"ents,omitempty"`
	Req  *c16Req    `json:"req,omitempty"`
}

func c16ArtPol(p *c16Policy) c16Art { return c16Art{Kind: "policy", Pol: p} }
func c16ArtEnt(e c16Ent) c16Art     { return c16Art{Kind: "entity", Ents: []c16Ent{e}} }
func c16ArtEnts(e ...c16Ent) c16Art { return c16Art{Kind: "entities", Ents: e} }
func c16ArtReq(r c16Req) c16Art     { return c16Art{Kind: "request", Req: &r} }

func (a c16Art) text() string {
	switch a.Kind {
	case "policy":
		if a.Pol != nil {
			return a.Pol.text()
		}
	case "entity", "entities":
		var p []string
		for _, e := range a.Ents {
			p = append(p, e.text())
		}
		return "[" + strings.Join(p, ", ") + "]"
	case "request":
		if a.Req != nil {
			return a.Req.text()
		}
	}
	return "?"
}

type c16Case struct {
	Stream string    `json:"stream"`
	Idx    int       `json:"idx"`
	Schema c16Schema `json:"schema"`
	Arts   []c16Art  `json:"arts,omitempty"`
	Feat   []string  `json:"feat,omitempty"` // generator-declared features (evidence counters)
	// execution control (set by the parent when resuming after a fatal crash / when shrinking)
	From   int  `json:"from,omitempty"`
	Only   bool `json:"only,omitempty"`
	NoAST  bool `json:"noast,omitempty"`
	NoJSON bool `json:"nojson,omitempty"`
}

// c16Step is one call into cedar-go.
type c16Step struct {
	Call   string // Resolve Policy Entity Entities Request
	Art    int
	Route  string // ast | json
	Strict bool
}

func (s c16Step) String() string {
	switch s.Call {
	case "Resolve":
		if s.Route == "json" {
			return "schema.UnmarshalJSON+Resolve"
		}
		return "resolved.Resolve(ast)"
	case "Policy":
		m := "permissive"
		if s.Strict {
			m = "strict"
		}
		r := "policy built with x/exp/ast"
		if s.Route == "json" {
			r = "policy decoded from JSON"
		}
		return "validate.Policy[" + m + ", " + r + "]"
	}
	return "validate." + s.Call
}

// c16Steps enumerates the cedar-go calls of a case: a pure function of the case.
func c16Steps(cs *c16Case) []c16Step {
	out := []c16Step{{Call: "Resolve", Art: -1, Route: "ast"}, {Call: "Resolve", Art: -1, Route: "json"}}
	for i, a := range cs.Arts {
		switch a.Kind {
		case "policy":
			out = append(out, c16Step{"Policy", i, "ast", true}, c16Step{"Policy", i, "ast", false},
				c16Step{"Policy", i, "json", true}, c16Step{"Policy", i, "json", false})
		case "entity":
			out = append(out, c16Step{"Entity", i, "ast", true})
		case "entities":
			out = append(out, c16Step{"Entities", i, "ast", true})
		case "request":
			out = append(out, c16Step{"Request", i, "ast", true})
		}
	}
	return out
}

func c16Clone[T any](v T) T {
	b, _ := json.Marshal(v)
	var out T
	_ = json.Unmarshal(b, &out)
	return out
}

func c16SortedKeys(m map[string]int64) []string {
	ks := make([]string, 0, len(m))
	for k := range m {
		ks = append(ks, k)
	}
	sort.Strings(ks)
	return ks
}
