package props

import (
	"fmt"

	cedar "github.com/cedar-policy/cedar-go"

	"verif/internal/mon"
)

// Additional C20 stream: ITERATION WHILE THE SET CHANGES. "iterate" is one of the operations of
// the property's histories, and a history may put other operations *inside* a walk (a prune or
// dedupe loop: `for id, p := range ps.All() { if stale(p) { ps.Remove(other) } }`). The map model
// is a plain Go map, whose contract under mutation during a range is: an entry removed before it
// is reached is never produced; an entry is produced at most once; what is produced is the
// entry's current value; an entry that exists during the whole walk is produced exactly once;
// an entry created during the walk may or may not be produced. The stream drives PolicySet.All,
// PolicyMap.All (of ps.Map()), nested walks and early breaks, with removals, replacements and
// additions of *fresh* ids inside the loop body, and checks exactly those clauses.
func init() {
	orig := Registry["C20"]
	Registry["C20"] = func(c *mon.Ctx) {
		orig(c)
		c.Rule += " Stream iter-mutation: walks over PolicySet.All / Map().All whose body removes, replaces and adds other ids (also nested walks and early breaks): no removed id and no nil policy is produced, nothing twice, the current policy of the id, every id that stays is produced exactly once."
		c20iterMutation(c)
	}
}

func c20iterMutation(c *mon.Ctx) {
	n := c.N(6000, 120000)
	c.ParFor("iter-mutation", n, func(w *mon.W, i int) {
		r := w.Rand()
		size := 1 + r.Intn(12)
		if r.P(0.2) {
			size = 8 + r.Intn(120)
		}
		tagNo := 0
		mk := func(_ string) *cedar.Policy {
			tagNo++
			tag := fmt.Sprintf("t%d", tagNo)
			var p cedar.Policy
			eff := "permit"
			if r.Bool() {
				eff = "forbid"
			}
			if err := p.UnmarshalCedar([]byte(fmt.Sprintf("@id(%q) %s(principal, action, resource);", tag, eff))); err != nil {
				panic(err)
			}
			return &p
		}
		ps := cedar.NewPolicySet()
		present := map[cedar.PolicyID]*cedar.Policy{}
		var ids []cedar.PolicyID
		for k := 0; k < size; k++ {
			id := cedar.PolicyID(fmt.Sprintf("p%d", k))
			if k < len(c20IDs) && r.P(0.3) {
				id = cedar.PolicyID(c20IDs[k])
			}
			if _, dup := present[id]; dup {
				continue
			}
			p := mk(string(id))
			ps.Add(id, p)
			present[id] = p
			ids = append(ids, id)
		}
		viaMap := r.P(0.3) // PolicyMap.All over the set's own map copy is independent of the set: mutate the copy
		nested := r.P(0.25)
		breakAt := -1
		if r.P(0.2) {
			breakAt = r.Intn(len(ids) + 1)
		}
		pRemove, pReplace, pAdd := []float64{0, 0.15, 0.5, 0.9}[r.Intn(4)], []float64{0, 0.2, 0.5}[r.Intn(3)], []float64{0, 0.1, 0.6}[r.Intn(3)]
		stays := map[cedar.PolicyID]bool{}
		for _, id := range ids {
			stays[id] = true
		}
		var pm cedar.PolicyMap
		if viaMap {
			pm = ps.Map()
		}
		remove := func(id cedar.PolicyID) {
			if viaMap {
				delete(pm, id)
			} else if !ps.Remove(id) {
				w.Violation("iter-mutation: Remove of a present id inside a walk returns false", fmt.Sprintf("Remove(%q) = false although the id is in the set", id), nil)
			}
			delete(present, id)
			delete(stays, id)
		}
		put := func(id cedar.PolicyID, p *cedar.Policy) {
			if viaMap {
				pm[id] = p
			} else {
				ps.Add(id, p)
			}
			present[id] = p
		}
		fresh := 0
		visited := map[cedar.PolicyID]int{}
		var trace []string
		wit := func() map[string]any {
			return map[string]any{"initial_ids": fmt.Sprint(ids), "trace": trace, "via": map[bool]string{true: "PolicySet.Map().All()", false: "PolicySet.All()"}[viaMap], "nested": nested}
		}
		bad := false
		fail := func(sig, what string) {
			if !bad {
				w.Violation("iter-mutation: "+sig, what, wit())
			}
			bad = true
		}
		all := func() func(func(cedar.PolicyID, *cedar.Policy) bool) {
			if viaMap {
				return pm.All()
			}
			return ps.All()
		}
		mutate := func(cur cedar.PolicyID) {
			if r.P(pRemove) {
				// remove some other id that is present (reached already or not)
				var cand []cedar.PolicyID
				for _, id := range ids {
					if _, ok := present[id]; ok && id != cur {
						cand = append(cand, id)
					}
				}
				if len(cand) > 0 {
					id := cand[r.Intn(len(cand))]
					remove(id)
					trace = append(trace, fmt.Sprintf("remove %q", id))
				}
			}
			if r.P(pReplace) {
				var cand []cedar.PolicyID
				for _, id := range ids {
					if _, ok := present[id]; ok {
						cand = append(cand, id)
					}
				}
				if len(cand) > 0 {
					id := cand[r.Intn(len(cand))]
					put(id, mk(string(id)+"'"))
					trace = append(trace, fmt.Sprintf("replace %q", id))
				}
			}
			if r.P(pAdd) {
				fresh++
				id := cedar.PolicyID(fmt.Sprintf("fresh%d", fresh))
				put(id, mk(string(id)))
				trace = append(trace, fmt.Sprintf("add %q", id))
			}
		}
		step := 0
		broke := false
		func() {
			defer func() {
				if rec := recover(); rec != nil {
					fail("walk panics", fmt.Sprint(rec))
				}
			}()
			for id, p := range all() {
				trace = append(trace, fmt.Sprintf("yield %q", id))
				visited[id]++
				cur, ok := present[id]
				switch {
				case !ok:
					fail("a removed id is produced", fmt.Sprintf("the walk produced %q, which had been removed before it was reached (policy nil: %v)", id, p == nil))
				case p == nil:
					fail("nil policy produced", fmt.Sprintf("the walk produced %q with a nil policy", id))
				case p != cur:
					fail("a stale policy is produced", fmt.Sprintf("the walk produced %q with the policy tagged %q, the set holds %q", id, p.Annotations()["id"], cur.Annotations()["id"]))
				}
				if visited[id] > 1 {
					fail("an id is produced twice", fmt.Sprintf("%q came %d times", id, visited[id]))
				}
				if step == breakAt {
					broke = true
					break
				}
				step++
				mutate(id)
				if nested && step == 1 {
					seen := map[cedar.PolicyID]bool{}
					for id2, p2 := range all() {
						if seen[id2] {
							fail("an id is produced twice (nested walk)", string(id2))
						}
						seen[id2] = true
						if cur2, ok := present[id2]; !ok || p2 != cur2 {
							fail("nested walk produces what the set does not hold", fmt.Sprintf("%q present=%v", id2, ok))
						}
						if r.P(0.3) {
							mutate(id2)
						}
					}
				}
			}
		}()
		if !broke && !bad {
			for id := range stays {
				if visited[id] != 1 {
					fail("an id that stayed in the set during the whole walk is not produced", fmt.Sprintf("%q was produced %d times", id, visited[id]))
					break
				}
			}
		}
		// afterwards the set is the model
		if !viaMap && !bad {
			cnt := 0
			for id, p := range ps.All() {
				cnt++
				if present[id] != p {
					fail("contents after the walk differ from the map model", fmt.Sprintf("%q", id))
				}
			}
			if cnt != len(present) {
				fail("contents after the walk differ from the map model", fmt.Sprintf("%d entries, model %d", cnt, len(present)))
			}
		}
		w.Evals(step + 1)
		w.Count(fmt.Sprintf("iter-mutation: removals=%v replacements=%v additions=%v", pRemove > 0, pReplace > 0, pAdd > 0))
		if nested {
			w.Count("iter-mutation: nested walk")
		}
		if broke {
			w.Count("iter-mutation: early break")
		}
		if len(trace) > len(visited) {
			w.NonTrivial(fmt.Sprint("iter", i, trace))
		}
		if i%1500 == 0 {
			w.Sample("iter-mutation", map[string]any{"size": len(ids), "trace": trace})
		}
	})
}
