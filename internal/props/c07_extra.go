package props

import (
	"fmt"
	"strings"

	cedar "github.com/cedar-policy/cedar-go"
	"github.com/cedar-policy/cedar-go/x/exp/ast"

	"verif/internal/bridge"
	"verif/internal/mon"
)

// c07reserved: every reserved word in every identifier position. The grammar's IDENT excludes
// all ten reserved words alike; the one place a reserved word is legal is an annotation key.
func c07reserved(c *mon.Ctx) {
	kws := []string{"true", "false", "if", "then", "else", "in", "like", "has", "is", "__cedar"}
	positions := []struct{ name, form string }{
		{"attribute after dot", "permit(principal, action, resource) when { context.%s };"},
		{"attribute after dot, nested", "permit(principal, action, resource) when { context.a.%s == 1 };"},
		{"has attribute", "permit(principal, action, resource) when { principal has %s };"},
		{"has attribute path", "permit(principal, action, resource) when { principal has a.%s };"},
		{"record key", "permit(principal, action, resource) when { {%s: 1} == context };"},
		{"second record key", "permit(principal, action, resource) when { {a: 1, %s: 2} == context };"},
		{"entity type, first component", "permit(principal, action, resource) when { principal == %s::T::\"x\" };"},
		{"entity type, last component", "permit(principal, action, resource) when { principal == T::%s::\"x\" };"},
		{"entity type, only component", "permit(principal, action, resource) when { principal == %s::\"x\" };"},
		{"is type", "permit(principal, action, resource) when { principal is %s };"},
		{"is type, last component", "permit(principal, action, resource) when { principal is T::%s };"},
		{"is type, before in", "permit(principal, action, resource) when { principal is %s in resource };"},
		{"function name", "permit(principal, action, resource) when { %s(1) };"},
		{"function namespace", "permit(principal, action, resource) when { %s::decimal(\"1.0\") };"},
		{"method name", "permit(principal, action, resource) when { principal.%s(1) };"},
		{"scope is type", "permit(principal is %s, action, resource);"},
		{"scope is type, resource", "permit(principal, action, resource is T::%s);"},
		{"scope entity type", "permit(principal == %s::\"x\", action, resource);"},
		{"scope action list entity type", "permit(principal, action in [%s::\"x\"], resource);"},
		{"scope in entity type, last component", "permit(principal, action, resource in T::%s::\"x\");"},
	}
	c.ParFor("reserved-words", len(kws)*len(positions), func(w *mon.W, i int) {
		kw, pos := kws[i%len(kws)], positions[i/len(kws)]
		text := fmt.Sprintf(pos.form, kw)
		_, err, pan := parseOne(text)
		w.Evals(1)
		w.Count("reject: reserved word as " + pos.name)
		if pan != "" {
			w.Violation("parser panics", "UnmarshalCedar panicked: "+pan, map[string]any{"text": text})
		} else if err == nil {
			w.Violation("text outside the grammar accepted: reserved word `"+kw+"` as "+pos.name, fmt.Sprintf("`%s` is accepted", text), map[string]any{"text": text})
		} else {
			w.NonTrivial("reserved/" + kw + "/" + pos.name)
		}
		// the same position with an ordinary identifier is grammatical (guards the form itself);
		// function and method names are a closed list, so they are exempt
		if !strings.Contains(pos.name, "function") && !strings.Contains(pos.name, "method") {
			ok := fmt.Sprintf(pos.form, kw+"x")
			if _, err, pan := parseOne(ok); err != nil || pan != "" {
				w.Violation("grammatical text rejected: identifier with a reserved word as prefix, as "+pos.name, fmt.Sprintf("`%s`: %v %s", ok, err, pan), map[string]any{"text": ok})
			}
			w.Evals(1)
		}
		// annotation keys may be reserved words
		at := fmt.Sprintf("@%s(\"v\") permit(principal, action, resource);", kw)
		p, err, pan := parseOne(at)
		w.Evals(1)
		if err != nil || pan != "" {
			w.Violation("grammatical text rejected: reserved word as annotation key", fmt.Sprintf("`%s`: %v %s", at, err, pan), map[string]any{"text": at})
		} else if len(p.Annotations) != 1 || string(p.Annotations[0].Key) != kw || string(p.Annotations[0].Value) != "v" {
			w.Violation("wrong tree: annotation with a reserved word as key", fmt.Sprintf("`%s` parsed to annotations %v", at, p.Annotations), map[string]any{"text": at})
		}
		// ... and a duplicate annotation is a duplicate whatever kind of word its key is
		for _, dup := range []string{
			fmt.Sprintf("@%s(\"a\") @%s(\"b\") permit(principal, action, resource);", kw, kw),
			fmt.Sprintf("@%s(\"a\") @other(\"x\") @%s(\"a\") forbid(principal, action, resource);", kw, kw),
			fmt.Sprintf("@%s @%s permit(principal, action, resource);", kw, kw),
		} {
			_, err, pan := parseOne(dup)
			w.Evals(1)
			if pan != "" {
				w.Violation("parser panics", "UnmarshalCedar panicked: "+pan, map[string]any{"text": dup})
			} else if err == nil {
				w.Violation("text outside the grammar accepted: duplicate annotation with the reserved word `"+kw+"` as key", fmt.Sprintf("`%s` is accepted", dup), map[string]any{"text": dup})
				break
			}
		}
	})
}

// c07bulk: large flat inputs. One parse call sees 1200 repetitions of a small expression —
// as 1200 policies of one document, as the elements of one set, as the values of one record and
// as the operands of one flat `&&` / `+` chain. Nothing is nested more deeply than the template
// itself, so every repetition must parse to the tree the template parses to on its own:
// what the parser did for repetition k must not depend on the k-1 before it.
func c07bulk(c *mon.Ctx) {
	templates := []struct{ name, expr string }{
		{"if", "if context.a then 1 else 2"}, {"if-nested", "if (if true then false else true) then [if true then 1 else 2] else {k: if false then 1 else 2}"},
		{"parens", "((((1))))"}, {"unary", "!!!true"}, {"neg", "-(-(-1))"}, {"set", "[[1], [[2]], []]"}, {"record", "{a: {b: {c: 1}}}"},
		{"call", "decimal(\"1.0\").lessThan(decimal(\"2.0\"))"}, {"method", "[1].containsAll([2].containsAny([3]) == true || [[4]].contains([4]))"},
		{"access", "context.a.b[\"c d\"].e"}, {"like", "\"abc\" like \"a*\\*c\""}, {"is-in", "principal is T in [U::\"a\", U::\"b\"]"}, {"has", "context has a.b.c"},
		{"and-or", "true && false || true && (false || true)"}, {"arith", "1 + 2 * (3 - 4) * -5"}, {"rel", "(1 < 2) == (3 >= 4)"},
		{"string-escapes", "\"\\u{e9}\\n\\\"\\0€\""}, {"entity", "NS::T::\"x y\" in [NS::T::\"z\"]"},
	}
	shapes := []string{"policies in one document", "policies in one policy set document", "policies in one decoder stream", "elements of one set", "values of one record", "operands of one && chain", "conditions of one policy"}
	const k = 1200
	c.ParFor("bulk", len(templates)*len(shapes), func(w *mon.W, i int) {
		t, shape := templates[i%len(templates)], shapes[i/len(templates)]
		w.Count("bulk: " + shape)
		one := "permit(principal, action, resource) when { " + t.expr + " };"
		p1, err, pan := parseOne(one)
		w.Evals(1)
		if err != nil || pan != "" {
			w.Violation("grammatical text rejected: bulk template "+t.name, fmt.Sprintf("`%s`: %v %s", one, err, pan), map[string]any{"text": one})
			return
		}
		m1, cerr := bridge.FromPolicy(p1)
		if cerr != nil {
			w.Violation("parsed AST not convertible", cerr.Error(), map[string]any{"text": one})
			return
		}
		want := bridge.SExpr(m1.Conds[0].Body)
		wit := map[string]any{"template": t.expr, "shape": shape, "repetitions": k}
		fail := func(sig, what string) {
			w.Violation(sig+" ["+shape+", template "+t.name+"]", what, wit)
		}
		var bodies []ast.IsNode // the k parsed copies of the template
		switch shape {
		case "policies in one document", "policies in one policy set document", "policies in one decoder stream":
			// every policy carries its position in the document as an annotation
			var db strings.Builder
			for j := 0; j < k; j++ {
				fmt.Fprintf(&db, "@n(\"%d\") %s\n", j, one)
			}
			doc := db.String()
			var pols []*cedar.Policy
			var perr error
			func() {
				defer func() {
					if x := recover(); x != nil {
						perr = fmt.Errorf("panic: %v", x)
					}
				}()
				switch shape {
				case "policies in one document":
					var pl cedar.PolicyList
					pl, perr = cedar.NewPolicyListFromBytes("bulk.cedar", []byte(doc))
					pols = pl
				case "policies in one policy set document":
					var ps *cedar.PolicySet
					ps, perr = cedar.NewPolicySetFromBytes("bulk.cedar", []byte(doc))
					if perr == nil {
						for j := 0; j < k; j++ {
							pols = append(pols, ps.Get(cedar.PolicyID(fmt.Sprintf("policy%d", j))))
						}
					}
				default:
					dec := cedar.NewDecoder(strings.NewReader(doc))
					for {
						var p cedar.Policy
						if e := dec.Decode(&p); e != nil {
							if len(pols) != k {
								perr = e
							}
							break
						}
						pols = append(pols, &p)
					}
				}
			}()
			w.Evals(k)
			if perr != nil {
				fail("grammatical text rejected: large flat input", fmt.Sprintf("%d copies of `%s`: %v", k, one, perr))
				return
			}
			if len(pols) != k {
				fail("wrong tree: large flat input", fmt.Sprintf("%d copies of a policy parsed to %d policies", k, len(pols)))
				return
			}
			for j, p := range pols {
				if p == nil {
					fail("wrong tree: large flat input", fmt.Sprintf("policy %d is missing from the policy set", j))
					return
				}
				a := (*ast.Policy)(p.AST())
				if len(a.Annotations) != 1 || string(a.Annotations[0].Key) != "n" || string(a.Annotations[0].Value) != fmt.Sprint(j) {
					fail("wrong tree: large flat input", fmt.Sprintf("the policy at position %d of the document comes back with annotations %v (document order lost)", j, a.Annotations))
					return
				}
				if len(a.Conditions) != 1 {
					fail("wrong tree: large flat input", fmt.Sprintf("policy %d has %d conditions", j, len(a.Conditions)))
					return
				}
				bodies = append(bodies, a.Conditions[0].Body)
			}
		default:
			var text string
			switch shape {
			case "elements of one set":
				text = "permit(principal, action, resource) when { [" + strings.TrimSuffix(strings.Repeat("("+t.expr+"), ", k), ", ") + "] };"
			case "values of one record":
				var sb strings.Builder
				for j := 0; j < k; j++ {
					fmt.Fprintf(&sb, "k%d: (%s), ", j, t.expr)
				}
				text = "permit(principal, action, resource) when { {" + strings.TrimSuffix(sb.String(), ", ") + "} };"
			case "operands of one && chain":
				text = "permit(principal, action, resource) when { " + strings.TrimSuffix(strings.Repeat("("+t.expr+") && ", k), " && ") + " };"
			default:
				text = "permit(principal, action, resource) " + strings.Repeat("when { "+t.expr+" } ", k) + ";"
			}
			p, err, pan := parseOne(text)
			w.Evals(k)
			if err != nil || pan != "" {
				fail("grammatical text rejected: large flat input", fmt.Sprintf("%d copies of `%s`: %v %s", k, t.expr, err, pan))
				return
			}
			unparen := func(n ast.IsNode) ast.IsNode { return n }
			switch shape {
			case "elements of one set":
				s, ok := p.Conditions[0].Body.(ast.NodeTypeSet)
				if !ok || len(s.Elements) != k {
					fail("wrong tree: large flat input", fmt.Sprintf("set literal of %d elements parsed to %T", k, p.Conditions[0].Body))
					return
				}
				for _, e := range s.Elements {
					bodies = append(bodies, unparen(e))
				}
			case "values of one record":
				r, ok := p.Conditions[0].Body.(ast.NodeTypeRecord)
				if !ok || len(r.Elements) != k {
					fail("wrong tree: large flat input", fmt.Sprintf("record literal of %d entries parsed to %T", k, p.Conditions[0].Body))
					return
				}
				for j, e := range r.Elements {
					if string(e.Key) != fmt.Sprintf("k%d", j) {
						fail("wrong tree: large flat input", fmt.Sprintf("record entry %d has key %q", j, e.Key))
						return
					}
					bodies = append(bodies, unparen(e.Value))
				}
			case "operands of one && chain":
				n := p.Conditions[0].Body
				// left-associative: k-1 times down the left operand (the operands are
				// parenthesised, so a template that is itself a conjunction stays one operand)
				for len(bodies) < k-1 {
					a, ok := n.(ast.NodeTypeAnd)
					if !ok {
						fail("wrong tree: large flat input", fmt.Sprintf("left-associative chain of %d operands parsed to a chain of %d", k, len(bodies)+1))
						return
					}
					bodies = append(bodies, a.Right)
					n = a.Left
				}
				bodies = append(bodies, n)
			default:
				if len(p.Conditions) != k {
					fail("wrong tree: large flat input", fmt.Sprintf("%d when-clauses parsed to %d conditions", k, len(p.Conditions)))
					return
				}
				for _, cd := range p.Conditions {
					bodies = append(bodies, cd.Body)
				}
			}
		}
		for j, b := range bodies {
			e, err := bridge.FromNode(b)
			if err != nil {
				fail("parsed AST not convertible", fmt.Sprintf("repetition %d: %v", j, err))
				return
			}
			if g := bridge.SExpr(e); g != want {
				wit["got_tree"], wit["expected_tree"], wit["repetition"] = g, want, j
				fail("wrong tree: large flat input", fmt.Sprintf("repetition %d of `%s` parsed to %s, the template alone to %s", j, t.expr, g, want))
				return
			}
		}
		w.NonTrivial("bulk/" + shape + "/" + t.name)
	})
}
