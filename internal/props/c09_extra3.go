package props

import (
	"encoding/json"
	"fmt"
	"strings"

	cedar "github.com/cedar-policy/cedar-go"
	"github.com/cedar-policy/cedar-go/types"

	"verif/internal/mon"
)

// Additional C09 streams on the LIFE of Policy objects around JSON decoding.
//
// rejected-document: a Policy holding A is handed a JSON document that is rejected late (the
// envelope, effect and scope of another policy B are fine; a condition deep inside is not).
// Afterwards the object is still ONE policy: its JSON and text encodings, decoded afresh,
// authorize exactly as the object itself does ("all encodings of one policy authorize
// identically" - an object whose evaluator and syntax tree disagree breaks that).
//
// shared-tree: two policies built from one caller-owned AST; a document decoded into one of
// them changes neither the other nor the caller's tree.
func init() {
	orig := Registry["C09"]
	Registry["C09"] = func(c *mon.Ctx) {
		orig(c)
		c.Rule += " Stream rejected-document: a Policy holding A (evaluated or not) is handed B's JSON with one late defect (unknown variable / operator / condition kind / scope operator, truncated) - 9x9 policies x 6 defects; whatever UnmarshalJSON returns, the object's own encodings decoded afresh authorize as the object does over 12 contexts. " +
			"Stream shared-tree: two policies compiled from one AST, B decoded into the first: the second and the caller's AST still spell A."
		c09rejected(c)
	}
}

func c09rejected(c *mon.Ctx) {
	texts := []string{
		`permit(principal, action, resource);`,
		`forbid(principal, action, resource);`,
		`permit(principal, action, resource) when { context.n >= 10 };`,
		`forbid(principal, action, resource) unless { context.n >= 10 };`,
		`forbid(principal, action, resource) when { context.n == context.m };`,
		`permit(principal == U::"p", action, resource) when { context.missing };`,
		`permit(principal, action, resource in U::"r") when { context.b } unless { context.n < context.m };`,
		`@a("1") forbid(principal is U, action, resource) unless { context.s like "x*" };`,
		`permit(principal, action in [Action::"a", Action::"b"], resource) when { {k: context.n}.k + 1 > context.m };`,
	}
	defects := []struct{ name, from, to string }{
		{"unknown variable in the last condition", `"Var":"context"`, `"Var":"nobody"`},
		{"unknown operator", `"body":{`, `"body":{"nonsense":{"left":{"Value":1},"right":{"Value":2}},`},
		{"unknown condition kind", `"kind":"when"`, `"kind":"whenever"`},
		{"unknown resource scope operator", `"resource":{"op":"`, `"resource":{"op":"bogus`},
		{"truncated document", "", ""},
		{"extra condition with a null body", `"conditions":[`, `"conditions":[{"kind":"when","body":null},`},
	}
	p, r0 := types.NewEntityUID("U", "p"), types.NewEntityUID("U", "r")
	ents := types.EntityMap{p: {UID: p, Parents: types.NewEntityUIDSet(r0)}, r0: {UID: r0}}
	outcomes := func(cp *cedar.Policy) string {
		var sb strings.Builder
		for _, ctx := range c04ctxs {
			o, _ := outcomeCompiled(cp, ents, cedar.Request{Principal: p, Action: types.NewEntityUID("Action", "a"), Resource: r0, Context: ctx})
			sb.WriteString(o.String()[:1])
		}
		return sb.String()
	}
	n := len(texts)
	c.ParFor("rejected-document", n*n*len(defects)*2, func(w *mon.W, i int) {
		a, b, df, evalFirst := texts[i%n], texts[(i/n)%n], defects[(i/(n*n))%len(defects)], i/(n*n*len(defects)) == 1
		var obj, pb cedar.Policy
		if obj.UnmarshalCedar([]byte(a)) != nil || pb.UnmarshalCedar([]byte(b)) != nil {
			w.Inconclusive("rejected-document: policy does not parse")
			return
		}
		bj, err := pb.MarshalJSON()
		if err != nil {
			return
		}
		doc := string(bj)
		if df.name == "truncated document" {
			doc = doc[:len(doc)*3/4]
		} else {
			k := strings.LastIndex(doc, df.from)
			if k < 0 {
				w.Count("rejected-document: defect not applicable (" + df.name + ")")
				return
			}
			doc = doc[:k] + df.to + doc[k+len(df.from):]
		}
		if evalFirst {
			_ = outcomes(&obj)
		}
		var uerr error
		var pan string
		func() {
			defer func() {
				if x := recover(); x != nil {
					pan = fmt.Sprint(x)
				}
			}()
			if i%2 == 0 {
				uerr = obj.UnmarshalJSON([]byte(doc))
			} else {
				uerr = json.Unmarshal([]byte(doc), &obj)
			}
		}()
		w.Evals(1)
		w.NonTrivial(fmt.Sprint("rejected/", i))
		if pan != "" {
			w.Count("rejected-document: decoder panicked (C10 territory)")
			return
		}
		if uerr == nil {
			w.Count("rejected-document: document accepted (" + df.name + ")")
		} else {
			w.Count("rejected-document: document rejected (" + df.name + ")")
		}
		// self-consistency of the object, whatever happened
		own := outcomes(&obj)
		ej, jerr := obj.MarshalJSON()
		var viaJSON, viaText cedar.Policy
		wit := map[string]any{"object_held": a, "document": doc, "defect": df.name, "decoder_error": fmt.Sprint(uerr), "evaluated_before": evalFirst}
		if jerr != nil || viaJSON.UnmarshalJSON(ej) != nil {
			w.Violation("rejected-document: after a rejected document the object's own JSON encoding does not decode ["+df.name+"]", fmt.Sprint(jerr), wit)
			return
		}
		if viaText.UnmarshalCedar(obj.MarshalCedar()) != nil {
			w.Violation("rejected-document: after a rejected document the object's own text encoding does not parse ["+df.name+"]", string(obj.MarshalCedar()), wit)
			return
		}
		if oj, ot := outcomes(&viaJSON), outcomes(&viaText); oj != own || ot != own {
			wit["outcomes_object"], wit["outcomes_of_its_json"], wit["outcomes_of_its_text"], wit["object_text"] = own, oj, ot, string(obj.MarshalCedar())
			w.Violation("rejected-document: the object authorizes differently from its own encodings ["+df.name+"]",
				fmt.Sprintf("object held `%s`, received a document with %s (decoder said: %v); object outcomes %s, its JSON decoded afresh %s, its text %s", a, df.name, uerr, own, oj, ot), wit)
		}
	})
	c.ParFor("shared-tree", n*n, func(w *mon.W, i int) {
		a, b := texts[i%n], texts[i/n]
		var pa, pb cedar.Policy
		if pa.UnmarshalCedar([]byte(a)) != nil || pb.UnmarshalCedar([]byte(b)) != nil {
			return
		}
		tree := pa.AST()
		p1, p2 := cedar.NewPolicyFromAST(tree), cedar.NewPolicyFromAST(tree)
		before := string(p2.MarshalCedar())
		o2 := outcomes(p2)
		_ = outcomes(p1)
		bj, _ := pb.MarshalJSON()
		if err := p1.UnmarshalJSON(bj); err != nil {
			w.Violation("shared-tree: decoding into a policy built from an AST fails", err.Error(), map[string]any{"first": a, "second": b})
			return
		}
		w.Evals(1)
		w.NonTrivial(fmt.Sprint("shared/", i))
		after, fromTree := string(p2.MarshalCedar()), string(cedar.NewPolicyFromAST(tree).MarshalCedar())
		if after != before || fromTree != before || outcomes(p2) != o2 || string(p1.MarshalCedar()) != string(pb.MarshalCedar()) || outcomes(p1) != outcomes(&pb) {
			w.Violation("shared-tree: decoding a document into one policy changes another policy or the caller's AST",
				fmt.Sprintf("two policies built from the AST of `%s`; `%s` decoded into the first: the second now reads `%s`, the caller's tree `%s`, the first `%s`", a, b, after, fromTree, p1.MarshalCedar()),
				map[string]any{"first": a, "second": b})
		}
	})
}
