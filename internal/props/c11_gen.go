package props

// Generators and helpers private to the C11 monitor: the hash-collision universes, the
// order/duplicate-randomising value builder, the collider / near-miss mutators and the
// codec (text, JSON) decoders.

import (
	"bytes"
	"encoding/json"
	"fmt"
	"math"
	"runtime/debug"
	"sort"
	"strings"
	"time"

	cedar "github.com/cedar-policy/cedar-go"
	"github.com/cedar-policy/cedar-go/types"
	xast "github.com/cedar-policy/cedar-go/x/exp/ast"
	"github.com/cedar-policy/cedar-go/x/exp/eval"

	"verif/internal/bridge"
	"verif/internal/gen"
	"verif/internal/model"
	"verif/internal/mon"
)

// c11V is one value of a universe: its model, one cedar-go construction of it and its hash
// as seen through the verif hook (the hash is a generator aid and a law subject, never an oracle).
type c11V struct {
	M   model.Val
	X   c11X
	V   types.Value
	H   uint64
	Key string
	How string
}

func c11Mk(m model.Val) c11V {
	v := bridge.ToValue(m)
	return c11V{M: m, V: v, X: c11Wrap(v), H: types.VerifHash(v), Key: m.Key(), How: "canonical"}
}

func c11Hash(m model.Val) uint64 { return types.VerifHash(bridge.ToValue(m)) }

// record key that makes {k: 1} hash like {"a": 1, "b": 1}: the record hash is FNV over
// key bytes followed by the 8 little-endian bytes of the value hash, without separators.
const (
	c11KeyAB = "a\x01\x00\x00\x00\x00\x00\x00\x00b"
	c11KeyBC = "b\x01\x00\x00\x00\x00\x00\x00\x00c"
)

// c11Univ is a small universe over which sequences are enumerated; masks over the member
// indices are the model sets (members are pairwise different by model key, asserted).
type c11Univ struct {
	Name   string
	Vals   []c11V
	Probe  []int // for each global probe: index of the equal universe member or -1
	Panel  []c11Panel
	ByKey  map[string]int
	Expect []string // hash relations the universe was built for that do not hold (empty = all hold)
}

type c11Panel struct {
	Mask       uint64
	Fwd        types.Set // built in index order
	Rev        types.Set // built in reverse order with every member given twice
	FwdX, RevX c11X
}

// c11X is a value boxed once together with its literal AST node (saves allocations in the
// hot loops; the node refers to the very value under test).
type c11X struct {
	V types.Value
	N xast.IsNode
}

func c11Wrap(v types.Value) c11X { return c11X{V: v, N: xast.NodeValue{Value: v}} }

func (u *c11Univ) modelSet(mask uint64) model.Val {
	var xs []model.Val
	for i := range u.Vals {
		if mask>>uint(i)&1 == 1 {
			xs = append(xs, u.Vals[i].M)
		}
	}
	return model.Set(xs...)
}

func (u *c11Univ) members(mask uint64) []types.Value {
	xs := []types.Value{}
	for i := range u.Vals {
		if mask>>uint(i)&1 == 1 {
			xs = append(xs, u.Vals[i].V)
		}
	}
	return xs
}

func (u *c11Univ) mkPanel(mask uint64) c11Panel {
	fw := u.members(mask)
	var rv []types.Value
	for i := len(fw) - 1; i >= 0; i-- {
		rv = append(rv, fw[i], fw[i])
	}
	p := c11Panel{Mask: mask, Fwd: types.NewSet(fw...)}
	if len(rv) == 0 {
		p.Rev = types.NewSet()
	} else {
		p.Rev = types.NewSet(rv...)
	}
	p.FwdX, p.RevX = c11Wrap(p.Fwd), c11Wrap(p.Rev)
	return p
}

func (u *c11Univ) seqString(seq []int) string {
	parts := make([]string, len(seq))
	for i, k := range seq {
		parts[i] = u.Vals[k].M.String()
	}
	return "NewSet(" + strings.Join(parts, ", ") + ")"
}

func (u *c11Univ) hashTable() map[string]string {
	out := map[string]string{}
	for _, v := range u.Vals {
		out[v.M.String()] = fmt.Sprintf("%#x", v.H)
	}
	return out
}

func i64(h uint64) int64 { return int64(h) }

// c11Universes builds the three 12-value universes of the exhaustive stream.
func c11Universes() []*c11Univ {
	L, D, Du, Dt, B := model.Long, model.Decimal, model.Duration, model.Datetime, model.Bool
	S, R := model.Set, model.Rec
	// U1: everything hashes to 1 (five scalar types, two singleton sets), its probe-chain
	// neighbours 2 and 3, a set whose summed hash lands on the chain, and slot 0.
	u1 := []model.Val{B(true), L(1), D(1), Du(1), Dt(1), L(2), L(3), S(L(1)), S(B(true)), L(0), S(L(1), L(2)), R()}
	// U2: the probe chain wraps from 2^64-1 to 0.
	u2 := []model.Val{L(-1), D(-1), Dt(-1), L(0), B(false), S(), R(), S(L(-1), L(1)), L(-2), Du(0), S(S()), S(L(-1))}
	// U3: FNV-hashed values (string, entity, records) and longs placed on and next to their hashes.
	hs := c11Hash(model.Str("Ua"))
	r1 := R("a", L(1))
	hr := c11Hash(r1)
	u3 := []model.Val{model.Str("Ua"), model.Ent("U", "a"), L(i64(hs)), L(i64(hs + 1)), L(i64(hs - 1)), S(model.Str("Ua")),
		S(L(i64(hs-1)), L(1)), r1, R("a", B(true)), L(i64(hr)), R("a", L(1), "b", L(1)), R(c11KeyAB, L(1))}
	var out []*c11Univ
	for i, ms := range [][]model.Val{u1, u2, u3} {
		u := &c11Univ{Name: []string{"hash1", "wrap", "fnv"}[i]}
		for _, m := range ms {
			u.Vals = append(u.Vals, c11Mk(m))
		}
		out = append(out, u)
	}
	h := func(u *c11Univ, i int) uint64 { return u.Vals[i].H }
	exp := func(u *c11Univ, ok bool, what string) {
		if !ok {
			u.Expect = append(u.Expect, what)
		}
	}
	a := out[0]
	for i := 0; i <= 4; i++ {
		exp(a, h(a, i) == 1, "scalar one hashes to 1")
	}
	exp(a, h(a, 7) == 1 && h(a, 8) == 1, "singleton sets hash to 1")
	exp(a, h(a, 10) == 3, "[1,2] hashes to 3")
	b := out[1]
	exp(b, h(b, 0) == math.MaxUint64 && h(b, 1) == math.MaxUint64 && h(b, 2) == math.MaxUint64, "-1 hashes to 2^64-1")
	exp(b, h(b, 3) == 0 && h(b, 4) == 0 && h(b, 5) == 0 && h(b, 6) == 0 && h(b, 7) == 0 && h(b, 10) == 0, "zero family hashes to 0")
	c := out[2]
	exp(c, h(c, 0) == h(c, 1) && h(c, 0) == h(c, 2) && h(c, 0) == h(c, 5) && h(c, 0) == h(c, 6), "string/entity/long/set collide")
	exp(c, h(c, 7) == h(c, 8) && h(c, 7) == h(c, 9), "records {a:1},{a:true} and long collide")
	exp(c, h(c, 10) == h(c, 11), "records with concatenation-ambiguous keys collide")
	return out
}

// c11Block is the dense universe of the long-probe-chain stream: four scalar types on each
// of the slots -3..6 (wrapping at 0), both booleans and sets whose sums fall on the chain.
func c11Block() *c11Univ {
	u := &c11Univ{Name: "block"}
	add := func(m model.Val) { u.Vals = append(u.Vals, c11Mk(m)) }
	for i := int64(-3); i <= 6; i++ {
		add(model.Long(i))
		add(model.Decimal(i))
		add(model.Duration(i))
		add(model.Datetime(i))
	}
	add(model.Bool(true))
	add(model.Bool(false))
	add(model.Set())
	add(model.Rec())
	add(model.Set(model.Long(1)))
	add(model.Set(model.Long(-1)))
	add(model.Set(model.Long(1), model.Long(2)))
	add(model.Set(model.Long(-2), model.Long(1)))
	add(model.Set(model.Bool(true), model.Long(1)))
	add(model.Set(model.Set()))
	return u
}

// c11Probes is the global probe list: every universe member, gen.Collide() and a few more
// (ip / string / entity FNV collisions, extremes, nested sets).
func c11Probes(us []*c11Univ) []c11V {
	var out []c11V
	seen := map[string]bool{}
	add := func(m model.Val) {
		k := m.Key()
		if !seen[k] {
			seen[k] = true
			out = append(out, c11Mk(m))
		}
	}
	for _, u := range us {
		for _, v := range u.Vals {
			add(v.M)
		}
	}
	for _, m := range gen.Collide() {
		add(m)
	}
	ip := gen.IPs[0] // 127.0.0.1/32: FNV over the 5 bytes 7f 00 00 01 20
	add(ip)
	add(model.Str("\x7f\x00\x00\x01\x20"))
	add(model.Long(i64(c11Hash(ip))))
	add(model.Ent("Ua", ""))
	add(model.Ent("U", "b"))
	add(model.Str(""))
	add(model.Str("a"))
	add(model.Long(math.MaxInt64))
	add(model.Long(math.MinInt64))
	add(model.Duration(2))
	add(model.Datetime(0))
	add(model.Set(model.Set(model.Long(1))))
	add(model.Set(model.Set(model.Bool(true))))
	add(model.Rec("a", model.Set(model.Long(1))))
	add(model.Rec("a", model.Set(model.Bool(true))))
	add(model.Rec("b", model.Long(1)))
	add(model.Rec("a", model.Long(1), c11KeyBC, model.Long(1)))
	add(model.Rec(c11KeyAB, model.Long(1), "c", model.Long(1)))
	return out
}

func (u *c11Univ) index(probes []c11V) {
	byKey := map[string]int{}
	for i, v := range u.Vals {
		if _, dup := byKey[v.Key]; dup {
			panic("c11: universe " + u.Name + " has two members with the same model key: " + v.M.String())
		}
		byKey[v.Key] = i
	}
	u.ByKey = byKey
	u.Probe = make([]int, len(probes))
	for i, p := range probes {
		if k, ok := byKey[p.Key]; ok {
			u.Probe[i] = k
		} else {
			u.Probe[i] = -1
		}
	}
}

// c11Variants returns independently constructed cedar-go values that all denote m: other
// constructors, parsers, zero values, reversed / duplicated insertion orders.
func c11Variants(m model.Val) []c11V {
	out := []c11V{c11Mk(m)}
	add := func(v types.Value, how string) {
		// exactness of the alternative constructor is C12's subject: use it as a twin only if
		// it reads back (through accessors) to the same model value
		if m.K != model.KSet && m.K != model.KRecord {
			if k, bad := c11KeyOf(v); bad != "" || k != out[0].Key {
				return
			}
		}
		out = append(out, c11V{M: m, V: v, X: c11Wrap(v), H: types.VerifHash(v), Key: out[0].Key, How: how})
	}
	switch m.K {
	case model.KDecimal:
		if d, err := types.ParseDecimal(model.PrintDecimal(m.I)); err == nil {
			add(d, "ParseDecimal")
		}
		if m.I%10000 == 0 {
			if d, err := types.NewDecimalFromInt(m.I / 10000); err == nil {
				add(d, "NewDecimalFromInt")
			}
		}
		if m.I == 0 {
			add(types.Decimal{}, "zero value")
		}
	case model.KDatetime:
		if m.I > -1<<50 && m.I < 1<<50 {
			add(types.NewDatetime(time.UnixMilli(m.I)), "NewDatetime(time)")
		}
		if m.I >= DatetimeLowBound {
			if d, err := types.ParseDatetime(model.PrintDatetime(m.I)); err == nil {
				add(d, "ParseDatetime")
			}
		}
		if m.I == 0 {
			add(types.Datetime{}, "zero value")
		}
	case model.KDuration:
		if m.I > -1<<40 && m.I < 1<<40 {
			add(types.NewDuration(time.Duration(m.I)*time.Millisecond), "NewDuration(time)")
		}
		if d, err := types.ParseDuration(model.PrintDuration(m.I)); err == nil {
			add(d, "ParseDuration")
		}
		if m.I == 0 {
			add(types.Duration{}, "zero value")
		}
	case model.KEntity:
		add(types.EntityUID{Type: types.EntityType(m.T), ID: types.String(m.ID)}, "struct literal")
	case model.KString:
		add(types.String(strings.Clone(m.S)), "cloned string")
	case model.KIP:
		if c11IPPrintable(m) {
			if ip, err := types.ParseIPAddr(model.PrintIP(m.IP)); err == nil {
				add(ip, "ParseIPAddr")
			}
		}
	case model.KSet:
		if len(m.Elems) == 0 {
			add(types.Set{}, "zero value")
			add(types.NewSet(), "NewSet()")
			add(types.NewSet([]types.Value{}...), "NewSet(empty slice)")
		} else {
			var rv []types.Value
			for i := len(m.Elems) - 1; i >= 0; i-- {
				x := bridge.ToValue(m.Elems[i])
				rv = append(rv, x, x)
			}
			add(types.NewSet(rv...), "reverse order, every member twice")
		}
	case model.KRecord:
		if len(m.Keys) == 0 {
			add(types.Record{}, "zero value")
			add(types.NewRecord(nil), "NewRecord(nil)")
			add(types.NewRecord(types.RecordMap{}), "NewRecord(empty map)")
		} else {
			mp := types.RecordMap{}
			for i := len(m.Keys) - 1; i >= 0; i-- {
				mp[types.String(m.Keys[i])] = bridge.ToValue(m.Vals[i])
			}
			add(types.NewRecord(mp), "map filled in reverse key order")
		}
	}
	return out
}

// c11IPPrintable: IPv4-mapped IPv6 addresses print in a form ip() rejects (known C12 finding).
func c11IPPrintable(m model.Val) bool {
	return !(m.IP.V6 && m.IP.Hi == 0 && m.IP.Lo>>32 == 0xffff)
}

// c11Build constructs the cedar-go value of m with r choosing member insertion order,
// duplicated members, map fill order and scalar constructors. r == nil: canonical.
func c11Build(m model.Val, r *mon.Rand) types.Value {
	if r == nil {
		return bridge.ToValue(m)
	}
	switch m.K {
	case model.KSet:
		n := len(m.Elems)
		if n == 0 {
			switch r.Intn(3) {
			case 0:
				return types.Set{}
			case 1:
				return types.NewSet()
			}
			return types.NewSet([]types.Value{}...)
		}
		xs := make([]types.Value, 0, n+2)
		for _, i := range r.Perm(n) {
			xs = append(xs, c11Build(m.Elems[i], r))
		}
		for r.P(0.4) && len(xs) < n+3 {
			d := c11Build(m.Elems[r.Intn(n)], r)
			at := r.Intn(len(xs) + 1)
			xs = append(xs, nil)
			copy(xs[at+1:], xs[at:])
			xs[at] = d
		}
		return types.NewSet(xs...)
	case model.KRecord:
		n := len(m.Keys)
		if n == 0 {
			switch r.Intn(3) {
			case 0:
				return types.Record{}
			case 1:
				return types.NewRecord(nil)
			}
			return types.NewRecord(types.RecordMap{})
		}
		mp := types.RecordMap{}
		for _, i := range r.Perm(n) {
			mp[types.String(m.Keys[i])] = c11Build(m.Vals[i], r)
		}
		return types.NewRecord(mp)
	}
	vs := c11Variants(m)
	return vs[r.Intn(len(vs))].V
}

// c11Collider returns a value of another type (or shape) whose hash is equal or adjacent to
// the hash of m; ok=false if it could only produce m itself.
func c11Collider(m model.Val, r *mon.Rand) model.Val {
	h := c11Hash(m)
	switch r.Intn(4) {
	case 1:
		h++
	case 2:
		h--
	}
	var out model.Val
	switch r.Intn(8) {
	case 0:
		out = model.Long(i64(h))
	case 1:
		out = model.Decimal(i64(h))
	case 2:
		out = model.Duration(i64(h))
	case 3:
		out = model.Datetime(i64(h))
	case 4:
		out = model.Set(model.Long(i64(h))) // summed hash == h
	case 5:
		out = model.Set(model.Long(i64(h-1)), model.Bool(true))
	case 6:
		if m.K == model.KEntity {
			out = model.Str(m.T + m.ID)
		} else if m.K == model.KString && len(m.S) >= 1 && m.S[0] >= 'A' && m.S[0] <= 'Z' {
			out = model.Ent(m.S[:1], m.S[1:])
		} else if h <= 1 {
			out = model.Bool(h == 1)
		} else {
			out = model.Long(i64(h))
		}
	default:
		if m.K == model.KRecord && len(m.Vals) > 0 {
			// same keys, one value replaced by a collider: the record hash stays the same
			vs := append([]model.Val{}, m.Vals...)
			k := r.Intn(len(vs))
			vs[k] = model.Long(i64(c11Hash(vs[k])))
			out = model.Record(m.Keys, vs)
		} else {
			out = model.Decimal(i64(h))
		}
	}
	return out
}

var c11Keys = []string{"a", "b", "c", "", c11KeyAB, c11KeyBC, "if", "has space", "é", "q\"t"}

func c11Leaf(r *mon.Rand) model.Val {
	switch r.Intn(10) {
	case 0, 1, 2, 3:
		return c11Pool[r.Intn(len(c11Pool))].M
	case 4:
		return model.Long(int64(r.Intn(9)) - 4)
	default:
		return gen.RandVal(r, 0)
	}
}

// c11RandVal draws a nested value whose sets and records are seeded with hash colliders of
// their own members.
func c11RandVal(r *mon.Rand, depth int) model.Val {
	if depth <= 0 || r.P(0.35) {
		return c11Leaf(r)
	}
	if r.Bool() {
		n := r.Intn(7)
		xs := make([]model.Val, 0, n)
		for i := 0; i < n; i++ {
			if i > 0 && r.P(0.5) {
				xs = append(xs, c11Collider(xs[r.Intn(i)], r))
			} else {
				xs = append(xs, c11RandVal(r, depth-1))
			}
		}
		return model.Set(xs...)
	}
	n := r.Intn(5)
	ks := make([]string, n)
	vs := make([]model.Val, n)
	for i := range ks {
		if r.P(0.7) {
			ks[i] = mon.Pick(r, c11Keys)
		} else {
			ks[i] = mon.Pick(r, gen.AttrNames)
		}
		if i > 0 && r.P(0.4) {
			vs[i] = c11Collider(vs[r.Intn(i)], r)
		} else {
			vs[i] = c11RandVal(r, depth-1)
		}
	}
	return model.Record(ks, vs)
}

// c11Mutate returns a value close to m but different from it (by model key): one leaf
// replaced by a hash collider, one member dropped/added, one key renamed. ok=false if no
// different value was produced.
func c11Mutate(m model.Val, r *mon.Rand) (model.Val, string, bool) {
	var out model.Val
	how := ""
	switch m.K {
	case model.KSet:
		n := len(m.Elems)
		switch {
		case n == 0 || r.P(0.15):
			out, how = model.Set(append(append([]model.Val{}, m.Elems...), c11Leaf(r))...), "member added"
		case r.P(0.2):
			k := r.Intn(n)
			xs := append(append([]model.Val{}, m.Elems[:k]...), m.Elems[k+1:]...)
			out, how = model.Set(xs...), "member dropped"
		case r.P(0.3):
			k := r.Intn(n)
			xs := append([]model.Val{}, m.Elems...)
			xs = append(xs, c11Collider(xs[k], r))
			out, how = model.Set(xs...), "collider of a member added"
		default:
			k := r.Intn(n)
			xs := append([]model.Val{}, m.Elems...)
			sub, h, ok := c11Mutate(xs[k], r)
			if !ok {
				return m, "", false
			}
			xs[k] = sub
			out, how = model.Set(xs...), "member: "+h
		}
	case model.KRecord:
		n := len(m.Keys)
		switch {
		case n == 0 || r.P(0.15):
			ks := append(append([]string{}, m.Keys...), mon.Pick(r, c11Keys))
			vs := append(append([]model.Val{}, m.Vals...), c11Leaf(r))
			// an existing key keeps its old value: put the new pair first
			out, how = model.Record(append([]string{ks[len(ks)-1]}, ks[:len(ks)-1]...), append([]model.Val{vs[len(vs)-1]}, vs[:len(vs)-1]...)), "key added"
		case r.P(0.2):
			k := r.Intn(n)
			ks := append(append([]string{}, m.Keys[:k]...), m.Keys[k+1:]...)
			vs := append(append([]model.Val{}, m.Vals[:k]...), m.Vals[k+1:]...)
			out, how = model.Record(ks, vs), "key dropped"
		case r.P(0.2):
			k := r.Intn(n)
			ks := append([]string{}, m.Keys...)
			ks[k] = mon.Pick(r, c11Keys)
			out, how = model.Record(ks, m.Vals), "key renamed"
		default:
			k := r.Intn(n)
			vs := append([]model.Val{}, m.Vals...)
			sub, h, ok := c11Mutate(vs[k], r)
			if !ok {
				return m, "", false
			}
			vs[k] = sub
			out, how = model.Record(m.Keys, vs), "field: "+h
		}
	default:
		out, how = c11Collider(m, r), "leaf replaced by a hash collider/neighbour"
	}
	if out.Key() == m.Key() {
		return m, "", false
	}
	return out, how, true
}

// c11Pool is the leaf pool of the random generators (the global probe list; set once by C11
// before the streams run).
var c11Pool []c11V

// c11Walk calls fn for v and every value nested inside it (through public accessors).
func c11Walk(v types.Value, fn func(types.Value)) {
	fn(v)
	switch t := v.(type) {
	case types.Set:
		for x := range t.All() {
			c11Walk(x, fn)
		}
	case types.Record:
		for _, x := range t.All() {
			c11Walk(x, fn)
		}
	}
}

func c11InvClass(err error) string {
	s := err.Error()
	switch {
	case strings.Contains(s, "unreachable"):
		return "member unreachable by probing"
	case strings.Contains(s, "stored twice"):
		return "member stored twice"
	case strings.Contains(s, "sum of member hashes"):
		return "stored hash != sum of member hashes"
	case strings.Contains(s, "nil member"):
		return "nil member"
	case strings.Contains(s, "record hash"):
		return "stored record hash != recomputed"
	}
	return "other"
}

// c11Invariants runs the structural invariant hooks on every set and record inside v.
func c11Invariants(v types.Value) (where types.Value, err error) {
	c11Walk(v, func(x types.Value) {
		if err != nil {
			return
		}
		switch t := x.(type) {
		case types.Set:
			if e := types.VerifSetInvariant(t); e != nil {
				where, err = x, e
			}
		case types.Record:
			if e := types.VerifRecordInvariant(t); e != nil {
				where, err = x, e
			}
		}
	})
	return
}

var c11Env = eval.Env{Entities: types.EntityMap{}, Principal: types.NewEntityUID("U", "a"), Action: types.NewEntityUID("Action", "view"),
	Resource: types.NewEntityUID("G", "b"), Context: types.NewRecord(nil)}

// c11EvalBool evaluates a node that must yield a Boolean; bad is non-empty otherwise.
func c11EvalBool(n xast.IsNode) (res bool, bad string) {
	defer func() {
		if r := recover(); r != nil {
			bad = "panic@" + mon.PanicSite(debug.Stack()) + ": " + fmt.Sprint(r)
		}
	}()
	v, err := eval.Eval(n, c11Env)
	if err != nil {
		return false, "error: " + err.Error()
	}
	b, ok := v.(types.Boolean)
	if !ok {
		return false, fmt.Sprintf("non-boolean result %T", v)
	}
	return bool(b), ""
}

func c11NV(v types.Value) xast.IsNode { return xast.NodeValue{Value: v} }
func c11BN(a, b types.Value) xast.BinaryNode {
	return xast.BinaryNode{Left: c11NV(a), Right: c11NV(b)}
}

// the four set-related operators of the property, evaluated on the very values under test
func c11OpNode(op string, a, b types.Value) xast.IsNode {
	return c11OpNodeX(op, c11NV(a), c11NV(b))
}

func c11OpNodeX(op string, l, r xast.IsNode) xast.IsNode {
	c11BN := func(_, _ xast.IsNode) xast.BinaryNode { return xast.BinaryNode{Left: l, Right: r} }
	a, b := l, r
	switch op {
	case "==":
		return xast.NodeTypeEquals{BinaryNode: c11BN(a, b)}
	case "!=":
		return xast.NodeTypeNotEquals{BinaryNode: c11BN(a, b)}
	case "contains":
		return xast.NodeTypeContains{BinaryNode: c11BN(a, b)}
	case "containsAll":
		return xast.NodeTypeContainsAll{BinaryNode: c11BN(a, b)}
	case "containsAny":
		return xast.NodeTypeContainsAny{BinaryNode: c11BN(a, b)}
	}
	panic("c11: bad op " + op)
}

// c11DecodeText parses cedar-go's own Cedar text of a value (embedded in a policy condition)
// and evaluates it back to a value.
func c11DecodeText(text string) (v types.Value, bad string) {
	defer func() {
		if r := recover(); r != nil {
			v, bad = nil, "panic@"+mon.PanicSite(debug.Stack())+": "+fmt.Sprint(r)
		}
	}()
	var p cedar.Policy
	if err := p.UnmarshalCedar([]byte("permit(principal, action, resource) when { " + text + " };")); err != nil {
		return nil, "parse error: " + err.Error()
	}
	pol := (*xast.Policy)(p.AST())
	if len(pol.Conditions) != 1 {
		return nil, fmt.Sprintf("%d conditions", len(pol.Conditions))
	}
	out, err := eval.Eval(pol.Conditions[0].Body, c11Env)
	if err != nil {
		return nil, "eval error: " + err.Error()
	}
	// an entity uid has typed text and binary decoders of its own
	if uid, ok := out.(types.EntityUID); ok {
		var u2, u3 types.EntityUID
		if err := u2.UnmarshalCedar(uid.MarshalCedar()); err != nil {
			return nil, "EntityUID.UnmarshalCedar of its own text form: " + err.Error()
		}
		if !u2.Equal(uid) {
			return nil, "EntityUID.UnmarshalCedar of its own text form gives another uid"
		}
		b, err := uid.MarshalBinary()
		if err == nil {
			err = u3.UnmarshalBinary(b)
		}
		if err != nil {
			return nil, "EntityUID binary form: " + err.Error()
		}
		if !u3.Equal(uid) {
			return nil, "EntityUID.UnmarshalBinary of its own binary form gives another uid"
		}
	}
	return out, ""
}

func c11EncodeJSON(v types.Value) (b []byte, bad string) {
	defer func() {
		if r := recover(); r != nil {
			b, bad = nil, "panic@"+mon.PanicSite(debug.Stack())+": "+fmt.Sprint(r)
		}
	}()
	b, err := json.Marshal(v)
	if err != nil {
		return nil, "marshal error: " + err.Error()
	}
	return b, ""
}

func c11DecodeJSON(b []byte) (v types.Value, bad string) {
	defer func() {
		if r := recover(); r != nil {
			v, bad = nil, "panic@"+mon.PanicSite(debug.Stack())+": "+fmt.Sprint(r)
		}
	}()
	var out types.Value
	if err := types.UnmarshalJSON(b, &out); err != nil {
		return nil, "unmarshal error: " + err.Error()
	}
	// the typed decoders, with a receiver that already holds a value: the result is the
	// document's value, not a mixture with what the receiver held
	switch t := out.(type) {
	case types.Record:
		used := types.NewRecord(types.RecordMap{"c11-stale": types.Long(1)})
		if err := used.UnmarshalJSON(b); err != nil {
			return nil, "Record.UnmarshalJSON into a used receiver: unmarshal error: " + err.Error()
		}
		if !used.Equal(t) || used.Len() != t.Len() {
			return nil, "Record.UnmarshalJSON into a used receiver gives " + string(used.MarshalCedar())
		}
	case types.Set:
		used := types.NewSet(types.String("c11-stale"))
		if err := used.UnmarshalJSON(b); err != nil {
			return nil, "Set.UnmarshalJSON into a used receiver: unmarshal error: " + err.Error()
		}
		if !used.Equal(t) || used.Len() != t.Len() {
			return nil, "Set.UnmarshalJSON into a used receiver gives " + string(used.MarshalCedar())
		}
		// every element a second time in another spelling (indented): sets have no duplicates,
		// however the equal elements are written
		var elems []json.RawMessage
		if json.Unmarshal(b, &elems) == nil && len(elems) > 0 {
			var doc bytes.Buffer // assembled by hand: json.Marshal would compact the copies again
			doc.WriteByte('[')
			for i, e := range elems {
				if i > 0 {
					doc.WriteByte(',')
				}
				doc.Write(e)
				doc.WriteString(",\n ")
				if json.Indent(&doc, e, " ", "  ") != nil {
					doc.Write(e)
				}
			}
			doc.WriteByte(']')
			var twice types.Set
			if err := twice.UnmarshalJSON(doc.Bytes()); err != nil {
				return nil, "Set.UnmarshalJSON of an array with re-spelled duplicates: unmarshal error: " + err.Error()
			}
			if !twice.Equal(t) || twice.Len() != t.Len() {
				return nil, "Set.UnmarshalJSON of an array listing every element twice (second copy indented) is not the set of the distinct elements"
			}
		}
	}
	return out, ""
}

// c11CodecDomain: values whose text/JSON forms are outside C11's codec clause because a
// scalar inside them has a known printing defect owned by C12/C13, or a form that is
// inherently ambiguous. Returns the reason, "" if the value is inside the domain.
func c11CodecDomain(m model.Val) string {
	switch m.K {
	case model.KDatetime:
		if m.I < DatetimeLowBound {
			return "datetime in the first day of the range (known C12 finding)"
		}
	case model.KIP:
		if !c11IPPrintable(m) {
			return "IPv4-mapped IPv6 address (known C12 finding)"
		}
	case model.KEntity:
		for _, seg := range strings.Split(m.T, "::") {
			if !c11Ident(seg) {
				return "entity type is not a Cedar path"
			}
		}
	case model.KSet:
		for _, e := range m.Elems {
			if s := c11CodecDomain(e); s != "" {
				return s
			}
		}
	case model.KRecord:
		for i, k := range m.Keys {
			if k == "__entity" || k == "__extn" {
				return "record with a JSON escape key"
			}
			if s := c11CodecDomain(m.Vals[i]); s != "" {
				return s
			}
		}
	}
	return ""
}

func c11Ident(s string) bool {
	if s == "" {
		return false
	}
	for i, c := range s {
		if !(c == '_' || (c >= 'a' && c <= 'z') || (c >= 'A' && c <= 'Z') || (i > 0 && c >= '0' && c <= '9')) {
			return false
		}
	}
	switch s {
	case "true", "false", "if", "then", "else", "in", "like", "has", "is", "__cedar":
		return false
	}
	return true
}

func c11Text(v types.Value) string { return string(v.MarshalCedar()) }

// c11KeyOf is the model key of a cedar-go value as seen through the public accessors.
func c11KeyOf(v types.Value) (string, string) {
	m, err := bridge.FromValue(v)
	if err != nil {
		return "", err.Error()
	}
	return m.Key(), ""
}

func c11SortedInts(m map[int]bool) []int {
	var out []int
	for k := range m {
		out = append(out, k)
	}
	sort.Ints(out)
	return out
}
