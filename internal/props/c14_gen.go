package props

// Generators and independent encoders used only by the C14 monitor: policy JSON, entity JSON and
// value JSON written by the harness itself (member order under harness control), expression
// shapes biased to the places where Go map iteration order can leak, and random schemas.

import (
	"encoding/json"
	"fmt"
	"strings"

	"github.com/cedar-policy/cedar-go/types"
	sast "github.com/cedar-policy/cedar-go/x/exp/schema/ast"

	"verif/internal/gen"
	"verif/internal/model"
	"verif/internal/mon"
)

func c14jstr(s string) string {
	b, _ := json.Marshal(s)
	return string(b)
}

// c14obj writes a JSON object from parallel key/value lists; with r != nil the member order
// is permuted (the bytes stay a pure function of the case's PRNG stream).
func c14obj(keys, vals []string, r *mon.Rand) string {
	idx := make([]int, len(keys))
	for i := range idx {
		idx[i] = i
	}
	if r != nil {
		idx = r.Perm(len(keys))
	}
	var sb strings.Builder
	sb.WriteByte('{')
	for n, i := range idx {
		if n > 0 {
			sb.WriteByte(',')
		}
		sb.WriteString(c14jstr(keys[i]))
		sb.WriteByte(':')
		sb.WriteString(vals[i])
	}
	sb.WriteByte('}')
	return sb.String()
}

func c14entJSON(v model.Val) string {
	return `{"type":` + c14jstr(v.T) + `,"id":` + c14jstr(v.ID) + `}`
}

// c14ValJSON encodes a value in the Cedar value JSON format (explicit escapes).
func c14ValJSON(v model.Val, r *mon.Rand) string {
	switch v.K {
	case model.KBool:
		if v.B {
			return "true"
		}
		return "false"
	case model.KLong:
		return fmt.Sprint(v.I)
	case model.KString:
		return c14jstr(v.S)
	case model.KEntity:
		return `{"__entity":` + c14entJSON(v) + `}`
	case model.KSet:
		parts := make([]string, len(v.Elems))
		idx := make([]int, len(v.Elems))
		for i := range idx {
			idx[i] = i
		}
		if r != nil {
			idx = r.Perm(len(v.Elems))
		}
		for n, i := range idx {
			parts[n] = c14ValJSON(v.Elems[i], r)
		}
		return "[" + strings.Join(parts, ",") + "]"
	case model.KRecord:
		vals := make([]string, len(v.Vals))
		for i, x := range v.Vals {
			vals[i] = c14ValJSON(x, r)
		}
		return c14obj(v.Keys, vals, r)
	case model.KDecimal:
		return `{"__extn":{"fn":"decimal","arg":` + c14jstr(model.PrintDecimal(v.I)) + `}}`
	case model.KDatetime:
		return `{"__extn":{"fn":"datetime","arg":` + c14jstr(model.PrintDatetime(v.I)) + `}}`
	case model.KDuration:
		return `{"__extn":{"fn":"duration","arg":` + c14jstr(model.PrintDuration(v.I)) + `}}`
	case model.KIP:
		return `{"__extn":{"fn":"ip","arg":` + c14jstr(model.PrintIP(v.IP)) + `}}`
	}
	return "null"
}

var c14binJSON = map[model.Op]string{model.OAnd: "&&", model.OOr: "||", model.OAdd: "+", model.OSub: "-", model.OMul: "*",
	model.OEq: "==", model.ONe: "!=", model.OLt: "<", model.OLe: "<=", model.OGt: ">", model.OGe: ">=", model.OIn: "in",
	model.OHasTag: "hasTag", model.OGetTag: "getTag", model.OContains: "contains", model.OContainsAll: "containsAll", model.OContainsAny: "containsAny"}

// c14ExprJSON encodes an expression in the Cedar policy JSON (EST) format.
func c14ExprJSON(e *model.Expr, r *mon.Rand) string {
	a := e.Args
	sub := func(i int) string { return c14ExprJSON(a[i], r) }
	switch e.Op {
	case model.OLit:
		v := e.V
		switch v.K {
		case model.KSet:
			parts := make([]string, len(v.Elems))
			for i, x := range v.Elems {
				parts[i] = c14ExprJSON(model.Lit(x), r)
			}
			return `{"Set":[` + strings.Join(parts, ",") + `]}`
		case model.KRecord:
			vals := make([]string, len(v.Vals))
			for i, x := range v.Vals {
				vals[i] = c14ExprJSON(model.Lit(x), r)
			}
			return `{"Record":` + c14obj(v.Keys, vals, r) + `}`
		case model.KDecimal:
			return `{"decimal":[{"Value":` + c14jstr(model.PrintDecimal(v.I)) + `}]}`
		case model.KDatetime:
			return `{"datetime":[{"Value":` + c14jstr(model.PrintDatetime(v.I)) + `}]}`
		case model.KDuration:
			return `{"duration":[{"Value":` + c14jstr(model.PrintDuration(v.I)) + `}]}`
		case model.KIP:
			return `{"ip":[{"Value":` + c14jstr(model.PrintIP(v.IP)) + `}]}`
		}
		return `{"Value":` + c14ValJSON(v, nil) + `}`
	case model.OVar:
		return `{"Var":` + c14jstr(e.S) + `}`
	case model.ONot:
		return `{"!":{"arg":` + sub(0) + `}}`
	case model.ONeg:
		return `{"neg":{"arg":` + sub(0) + `}}`
	case model.OIsEmpty:
		return `{"isEmpty":{"arg":` + sub(0) + `}}`
	case model.OIf:
		return `{"if-then-else":{"if":` + sub(0) + `,"then":` + sub(1) + `,"else":` + sub(2) + `}}`
	case model.OHas:
		return `{"has":{"left":` + sub(0) + `,"attr":` + c14jstr(e.S) + `}}`
	case model.OAccess:
		return `{".":{"left":` + sub(0) + `,"attr":` + c14jstr(e.S) + `}}`
	case model.OLike:
		var comps []string
		for _, pe := range e.Pat {
			if pe.Wild {
				comps = append(comps, `"Wildcard"`)
			}
			if pe.Lit != "" {
				comps = append(comps, `{"Literal":`+c14jstr(pe.Lit)+`}`)
			}
		}
		if len(comps) == 0 {
			comps = append(comps, `{"Literal":""}`)
		}
		return `{"like":{"left":` + sub(0) + `,"pattern":[` + strings.Join(comps, ",") + `]}}`
	case model.OIs:
		return `{"is":{"left":` + sub(0) + `,"entity_type":` + c14jstr(e.S) + `}}`
	case model.OIsIn:
		return `{"is":{"left":` + sub(0) + `,"entity_type":` + c14jstr(e.S) + `,"in":` + sub(1) + `}}`
	case model.OSet:
		parts := make([]string, len(a))
		for i := range a {
			parts[i] = sub(i)
		}
		return `{"Set":[` + strings.Join(parts, ",") + `]}`
	case model.ORecord:
		vals := make([]string, len(a))
		for i := range a {
			vals[i] = sub(i)
		}
		return `{"Record":` + c14obj(e.Keys, vals, r) + `}`
	case model.OExt:
		parts := make([]string, len(a))
		for i := range a {
			parts[i] = sub(i)
		}
		return `{` + c14jstr(e.S) + `:[` + strings.Join(parts, ",") + `]}`
	}
	if name, ok := c14binJSON[e.Op]; ok {
		return `{` + c14jstr(name) + `:{"left":` + sub(0) + `,"right":` + sub(1) + `}}`
	}
	panic("c14: unknown op " + e.Op.String())
}

func c14scopeJSON(s model.Scope) string {
	switch s.Kind {
	case model.ScEq:
		return `{"op":"==","entity":` + c14entJSON(s.Ent) + `}`
	case model.ScIn:
		return `{"op":"in","entity":` + c14entJSON(s.Ent) + `}`
	case model.ScInSet:
		parts := make([]string, len(s.Ents))
		for i, e := range s.Ents {
			parts[i] = c14entJSON(e)
		}
		return `{"op":"in","entities":[` + strings.Join(parts, ",") + `]}`
	case model.ScIs:
		return `{"op":"is","entity_type":` + c14jstr(s.Type) + `}`
	case model.ScIsIn:
		return `{"op":"is","entity_type":` + c14jstr(s.Type) + `,"in":{"entity":` + c14entJSON(s.Ent) + `}}`
	}
	return `{"op":"All"}`
}

// c14PolicyJSON encodes one policy in the Cedar policy JSON format.
func c14PolicyJSON(p *model.Policy, r *mon.Rand) string {
	var sb strings.Builder
	sb.WriteString(`{"effect":`)
	if p.Permit {
		sb.WriteString(`"permit"`)
	} else {
		sb.WriteString(`"forbid"`)
	}
	if len(p.Annots) > 0 {
		ks := make([]string, len(p.Annots))
		vs := make([]string, len(p.Annots))
		for i, a := range p.Annots {
			ks[i], vs[i] = a.Key, c14jstr(a.Val)
		}
		sb.WriteString(`,"annotations":` + c14obj(ks, vs, r))
	}
	sb.WriteString(`,"principal":` + c14scopeJSON(p.P))
	sb.WriteString(`,"action":` + c14scopeJSON(p.A))
	sb.WriteString(`,"resource":` + c14scopeJSON(p.R))
	sb.WriteString(`,"conditions":[`)
	for i, c := range p.Conds {
		if i > 0 {
			sb.WriteByte(',')
		}
		kind := "unless"
		if c.When {
			kind = "when"
		}
		sb.WriteString(`{"kind":"` + kind + `","body":` + c14ExprJSON(c.Body, r) + `}`)
	}
	sb.WriteString(`]}`)
	return sb.String()
}

func c14PolicySetJSON(ids []string, pols []*model.Policy, r *mon.Rand) string {
	vals := make([]string, len(pols))
	for i, p := range pols {
		vals[i] = c14PolicyJSON(p, r)
	}
	return `{"staticPolicies":` + c14obj(ids, vals, r) + `}`
}

// c14EntitiesJSON encodes the store in the Cedar entities JSON format.
func c14EntitiesJSON(env *model.Env, r *mon.Rand) string {
	ents := env.SortedStore()
	idx := make([]int, len(ents))
	for i := range idx {
		idx[i] = i
	}
	if r != nil {
		idx = r.Perm(len(ents))
	}
	parts := make([]string, 0, len(ents))
	for _, i := range idx {
		e := ents[i]
		ps := make([]string, len(e.Parents))
		for j, p := range e.Parents {
			ps[j] = c14entJSON(p)
		}
		attrs, tags := "{}", "{}"
		if e.Attrs.K == model.KRecord {
			attrs = c14ValJSON(e.Attrs, r)
		}
		if e.Tags.K == model.KRecord {
			tags = c14ValJSON(e.Tags, r)
		}
		parts = append(parts, `{"uid":`+c14entJSON(e.UID)+`,"parents":[`+strings.Join(ps, ",")+`],"attrs":`+attrs+`,"tags":`+tags+`}`)
	}
	return "[" + strings.Join(parts, ",") + "]"
}

// ---------------------------------------------------------------------------------------
// expression shapes

type c14fail struct {
	kind string
	mk   func(r *mon.Rand) *model.Expr
}

func c14L(v model.Val) *model.Expr { return model.Lit(v) }

// c14fails: sub-expressions that fail, one family per error kind, each with its own message.
var c14fails = []c14fail{
	{"type", func(r *mon.Rand) *model.Expr {
		switch r.Intn(5) {
		case 0:
			return model.Bin(model.OAdd, c14L(model.Long(1)), c14L(model.Str("a")))
		case 1:
			return model.Un(model.ONot, c14L(model.Long(int64(r.Intn(5)))))
		case 2:
			return model.Bin(model.OLt, c14L(model.Str("a")), c14L(model.Long(2)))
		case 3:
			return model.Bin(model.OContains, c14L(model.Bool(true)), c14L(model.Long(2)))
		}
		return model.Bin(model.OMul, c14L(model.Bool(false)), c14L(model.Long(3)))
	}},
	{"overflow", func(r *mon.Rand) *model.Expr {
		if r.Bool() {
			return model.Bin(model.OAdd, c14L(model.Long(9223372036854775807)), c14L(model.Long(1+int64(r.Intn(3)))))
		}
		return model.Bin(model.OMul, c14L(model.Long(4611686018427387904)), c14L(model.Long(2)))
	}},
	{"attr", func(r *mon.Rand) *model.Expr {
		if r.Bool() {
			return model.Access(model.RecE([]string{"x"}, []*model.Expr{c14L(model.Long(1))}), "y")
		}
		return model.Access(model.Var("context"), "c14_no_such_attr")
	}},
	{"entity", func(r *mon.Rand) *model.Expr {
		return model.Access(c14L(model.Ent("U", "c14ghost")), mon.Pick(r, []string{"a", "b"}))
	}},
	{"ext", func(r *mon.Rand) *model.Expr {
		switch r.Intn(3) {
		case 0:
			return model.Ext("decimal", c14L(model.Str("x.y")))
		case 1:
			return model.Ext("ip", c14L(model.Str("999.1.1.1")))
		}
		return model.Ext("duration", c14L(model.Str("1x")))
	}},
	{"tag", func(r *mon.Rand) *model.Expr {
		return model.Bin(model.OGetTag, model.Var("principal"), c14L(model.Str("c14_no_such_tag")))
	}},
}

func c14okField(r *mon.Rand) *model.Expr {
	switch r.Intn(6) {
	case 0:
		return c14L(model.Long(int64(r.Intn(5))))
	case 1:
		return c14L(model.Str(gen.RandString(r)))
	case 2:
		return model.Var(mon.Pick(r, []string{"principal", "action", "resource", "context"}))
	case 3:
		return model.Bin(model.OAdd, c14L(model.Long(1)), c14L(model.Long(2)))
	case 4:
		return c14L(gen.RandUID(r))
	}
	return c14L(model.Bool(r.Bool()))
}

// c14FailingRecord builds a record literal with nfail failing fields of pairwise different
// error kinds and nok succeeding fields, in random key order.
func c14FailingRecord(r *mon.Rand, nfail, nok int) *model.Expr {
	perm := r.Perm(len(c14fails))
	if nfail > len(perm) {
		nfail = len(perm)
	}
	names := append([]string{}, gen.AttrNames...)
	kp := r.Perm(len(names))
	var keys []string
	var args []*model.Expr
	for i := 0; i < nfail; i++ {
		keys = append(keys, names[kp[i]])
		args = append(args, c14fails[perm[i]].mk(r))
	}
	for i := 0; i < nok; i++ {
		keys = append(keys, names[kp[nfail+i]])
		args = append(args, c14okField(r))
	}
	// shuffle the field order
	sh := r.Perm(len(keys))
	k2 := make([]string, len(keys))
	a2 := make([]*model.Expr, len(keys))
	for i, j := range sh {
		k2[i], a2[i] = keys[j], args[j]
	}
	return model.RecE(k2, a2)
}

// c14Wrap places a (record-valued) expression at an evaluated position of a boolean condition.
func c14Wrap(r *mon.Rand, rec *model.Expr) *model.Expr {
	switch r.Intn(8) {
	case 0:
		return model.Bin(model.OEq, model.Access(rec, mon.Pick(r, rec.Keys)), c14L(model.Long(1)))
	case 1:
		return model.Bin(model.OEq, rec, model.Var("context"))
	case 2:
		return model.Has(rec, mon.Pick(r, rec.Keys))
	case 3:
		return model.Un(model.OIsEmpty, model.SetE(rec))
	case 4:
		return model.Bin(model.OEq, model.Access(model.Access(model.RecE([]string{"x"}, []*model.Expr{rec}), "x"), mon.Pick(r, rec.Keys)), c14L(model.Long(1)))
	case 5:
		return model.If(c14L(model.Bool(true)), model.Has(rec, "a"), c14L(model.Bool(false)))
	case 6:
		return model.Bin(model.OAnd, c14L(model.Bool(true)), model.Bin(model.ONe, rec, c14L(model.Long(0))))
	}
	return model.Bin(model.OContains, model.SetE(c14L(model.Long(1))), rec)
}

// c14NonEntitySet builds `x in [..]` / `x is T in [..]` whose set operand has >= 2 members
// that are not entities (of different types).
func c14NonEntitySet(r *mon.Rand) *model.Expr {
	pool := []model.Val{model.Long(1), model.Str("a"), model.Bool(true), model.Long(2), model.Str("")}
	p := r.Perm(len(pool))
	n := 2 + r.Intn(3)
	var els []*model.Expr
	for i := 0; i < n; i++ {
		els = append(els, c14L(pool[p[i]]))
	}
	if r.P(0.3) {
		els = append(els, c14L(gen.RandUID(r)))
	}
	lhs := model.Var(mon.Pick(r, []string{"principal", "action", "resource"}))
	if r.P(0.3) {
		return model.IsIn(lhs, mon.Pick(r, gen.EntityTypes[:3]), model.SetE(els...))
	}
	return model.Bin(model.OIn, lhs, model.SetE(els...))
}

var c14annotKeys = []string{"id", "a", "b", "advice", "if", "principal", "_x", "A1", "zz", "doc"}

// c14Annots draws n distinct annotations.
func c14Annots(r *mon.Rand, n int) []model.Annot {
	p := r.Perm(len(c14annotKeys))
	if n > len(p) {
		n = len(p)
	}
	out := make([]model.Annot, n)
	for i := 0; i < n; i++ {
		out[i] = model.Annot{Key: c14annotKeys[p[i]], Val: gen.RandString(r)}
	}
	return out
}

// c14PlainRecord builds a record literal with n well-behaved fields (for codec streams);
// depth > 0 allows nested records / sets of records.
func c14PlainRecord(r *mon.Rand, n, depth int) *model.Expr {
	kp := r.Perm(len(gen.AttrNames))
	if n > len(kp) {
		n = len(kp)
	}
	keys := make([]string, n)
	args := make([]*model.Expr, n)
	for i := 0; i < n; i++ {
		keys[i] = gen.AttrNames[kp[i]]
		switch {
		case depth > 0 && r.P(0.25):
			args[i] = c14PlainRecord(r, 2+r.Intn(3), depth-1)
		case depth > 0 && r.P(0.15):
			args[i] = model.SetE(c14PlainRecord(r, 2, depth-1), c14okField(r))
		default:
			args[i] = c14okField(r)
		}
	}
	return model.RecE(keys, args)
}

var c14cfg = gen.ExprCfg{PIll: 0.10, PrimLits: true, SafeDT: true, WellFormedExt: true}

// c14Policy draws one policy of the given shape class.
//
//	0 random  1 record literal with >= 2 failing fields  2 `in` over a set with non-entities
//	3 many annotations + plain records (codec)  4 wrong-typed receiver with a failing argument
func c14Policy(r *mon.Rand, shape int) *model.Policy {
	switch shape {
	case 1:
		p := &model.Policy{Permit: r.Bool(), P: model.Scope{Kind: model.ScAll}, A: model.Scope{Kind: model.ScAll}, R: model.Scope{Kind: model.ScAll}}
		if r.P(0.3) {
			p.P = gen.RandScope(r, 0)
		}
		rec := c14FailingRecord(r, 2+r.Intn(3), r.Intn(3))
		p.Conds = append(p.Conds, model.Cond{When: r.P(0.7), Body: c14Wrap(r, rec)})
		if r.P(0.3) {
			p.Conds = append(p.Conds, model.Cond{When: true, Body: c14L(model.Bool(true))})
		}
		p.Annots = c14Annots(r, r.Intn(3))
		return p
	case 2:
		p := &model.Policy{Permit: r.Bool(), P: model.Scope{Kind: model.ScAll}, A: model.Scope{Kind: model.ScAll}, R: model.Scope{Kind: model.ScAll}}
		p.Conds = append(p.Conds, model.Cond{When: r.P(0.7), Body: c14NonEntitySet(r)})
		return p
	case 4:
		// wrong-typed receiver whose argument fails on principal / resource: the plain evaluator
		// rejects the receiver first, partial evaluation meets the failing argument first, so
		// the message of batch.Authorize depends on the order in which variables are bound
		p := &model.Policy{Permit: r.Bool(), P: model.Scope{Kind: model.ScAll}, A: model.Scope{Kind: model.ScAll}, R: model.Scope{Kind: model.ScAll}}
		op := mon.Pick(r, []model.Op{model.OContains, model.OContainsAll, model.OHasTag, model.OGetTag, model.OIn})
		recv := c14L(mon.Pick(r, []model.Val{model.Long(1), model.Str("a"), model.Bool(true)}))
		arg := model.Access(model.Var(mon.Pick(r, []string{"principal", "resource"})), "c14_no_such_attr")
		body := model.Bin(op, recv, arg)
		if op == model.OGetTag {
			body = model.Bin(model.OEq, body, c14L(model.Long(1)))
		}
		p.Conds = append(p.Conds, model.Cond{When: true, Body: body})
		return p
	case 3:
		p := gen.RandPolicy(r, c14cfg, 2)
		p.Annots = c14Annots(r, r.Intn(7))
		nrec := r.Intn(3)
		for i := 0; i < nrec; i++ {
			rec := c14PlainRecord(r, 2+r.Intn(5), 2)
			p.Conds = append(p.Conds, model.Cond{When: r.Bool(), Body: c14Wrap(r, rec)})
		}
		return p
	}
	return gen.RandPolicy(r, c14cfg, 3)
}

// c14failingFields counts, per the reference evaluator, the fields of a record literal whose
// evaluation fails under env.
func c14failingFields(e *model.Expr, env *model.Env) (n int, kinds map[string]bool) {
	kinds = map[string]bool{}
	for _, a := range e.Args {
		if _, err := model.Eval(a, env); err != model.ENone {
			n++
			kinds[err.String()] = true
		}
	}
	return
}

// ---------------------------------------------------------------------------------------
// schemas

var c14entNames = []string{"User", "Group", "Doc", "Photo", "Album", "Team", "Org", "Role", "E1", "E2", "Zone", "Account"}
var c14enumNames = []string{"Color", "Status", "Level"}
var c14ctNames = []string{"Ctx", "Addr", "T1", "T2", "Meta"}
var c14actNames = []string{"view", "edit", "delete", "view doc", "list", "share", "q\"t", "A1", "é"}
var c14attrNames = []string{"a", "b", "name", "age", "ip", "owner", "has space", "if", "é", "tags", "n1", "n2"}
var c14sAnnots = []string{"doc", "a", "b", "zz", "owner", "since"}

func c14sAnn(r *mon.Rand) sast.Annotations {
	n := r.Intn(5)
	if n == 0 || r.P(0.4) {
		return nil
	}
	out := sast.Annotations{}
	p := r.Perm(len(c14sAnnots))
	for i := 0; i < n; i++ {
		v := ""
		if r.P(0.8) {
			v = mon.Pick(r, []string{"x", "some text", "q\"t", "é", "line\nbreak"})
		}
		out[types.Ident(c14sAnnots[p[i]])] = types.String(v)
	}
	return out
}

func c14sType(r *mon.Rand, depth int, ents, cts []string) sast.IsType {
	k := r.Intn(10)
	if depth <= 0 && k >= 7 {
		k = r.Intn(7)
	}
	switch k {
	case 0:
		return sast.String()
	case 1:
		return sast.Long()
	case 2:
		return sast.Bool()
	case 3:
		return mon.Pick(r, []sast.ExtensionType{sast.IPAddr(), sast.Decimal(), sast.Datetime(), sast.Duration()})
	case 4, 5:
		if len(ents) > 0 {
			return sast.EntityType(types.EntityType(mon.Pick(r, ents)))
		}
		return sast.String()
	case 6:
		if len(cts) > 0 {
			return sast.Type(types.Path(mon.Pick(r, cts)))
		}
		return sast.Long()
	case 7:
		return sast.Set(c14sType(r, depth-1, ents, cts))
	}
	return c14sRecord(r, depth-1, ents, cts)
}

func c14sRecord(r *mon.Rand, depth int, ents, cts []string) sast.RecordType {
	rec := sast.RecordType{}
	n := r.Intn(7)
	p := r.Perm(len(c14attrNames))
	for i := 0; i < n; i++ {
		rec[types.String(c14attrNames[p[i]])] = sast.Attribute{Type: c14sType(r, depth, ents, cts), Optional: r.P(0.3), Annotations: c14sAnn(r)}
	}
	return rec
}

func c14sNamespace(r *mon.Rand, big bool) sast.Namespace {
	ns := sast.Namespace{}
	maxE := 5
	if big {
		maxE = len(c14entNames)
	}
	ne := 1 + r.Intn(maxE)
	ep := r.Perm(len(c14entNames))
	var ents []string
	for i := 0; i < ne; i++ {
		ents = append(ents, c14entNames[ep[i]])
	}
	var cts []string
	nc := r.Intn(len(c14ctNames) + 1)
	cp := r.Perm(len(c14ctNames))
	for i := 0; i < nc; i++ {
		cts = append(cts, c14ctNames[cp[i]])
	}
	ns.Entities = sast.Entities{}
	for _, name := range ents {
		e := sast.Entity{Annotations: c14sAnn(r)}
		np := r.Intn(4)
		pp := r.Perm(len(ents))
		for j := 0; j < np && j < len(ents); j++ {
			e.ParentTypes = append(e.ParentTypes, sast.EntityType(types.EntityType(ents[pp[j]])))
		}
		if r.P(0.7) {
			e.Shape = c14sRecord(r, 2, ents, cts)
		}
		if r.P(0.3) {
			e.Tags = c14sType(r, 1, ents, cts)
		}
		ns.Entities[types.Ident(name)] = e
	}
	if r.P(0.5) {
		ns.Enums = sast.Enums{}
		nn := 1 + r.Intn(len(c14enumNames))
		for i := 0; i < nn; i++ {
			var vals []types.String
			nv := 1 + r.Intn(4)
			for j := 0; j < nv; j++ {
				vals = append(vals, types.String(mon.Pick(r, []string{"red", "green", "blue", "on", "off", "q\"t", ""})))
			}
			ns.Enums[types.Ident(c14enumNames[i])] = sast.Enum{Annotations: c14sAnn(r), Values: vals}
		}
	}
	if len(cts) > 0 {
		ns.CommonTypes = sast.CommonTypes{}
		for i, name := range cts {
			// a common type may refer to the ones before it (no cycles)
			ns.CommonTypes[types.Ident(name)] = sast.CommonType{Annotations: c14sAnn(r), Type: c14sType(r, 2, ents, cts[:i])}
		}
	}
	ns.Actions = sast.Actions{}
	na := 1 + r.Intn(len(c14actNames))
	ap := r.Perm(len(c14actNames))
	var acts []string
	for i := 0; i < na; i++ {
		acts = append(acts, c14actNames[ap[i]])
	}
	for i, name := range acts {
		a := sast.Action{Annotations: c14sAnn(r)}
		np := r.Intn(3)
		for j := 0; j < np && j < i; j++ {
			if r.P(0.7) {
				a.Parents = append(a.Parents, sast.ParentRefFromID(types.String(acts[j])))
			} else {
				a.Parents = append(a.Parents, sast.NewParentRef(sast.EntityType("Action"), types.String(acts[j])))
			}
		}
		if r.P(0.8) {
			at := &sast.AppliesTo{}
			npr := 1 + r.Intn(3)
			for j := 0; j < npr; j++ {
				at.Principals = append(at.Principals, sast.EntityType(types.EntityType(mon.Pick(r, ents))))
			}
			nr := 1 + r.Intn(3)
			for j := 0; j < nr; j++ {
				at.Resources = append(at.Resources, sast.EntityType(types.EntityType(mon.Pick(r, ents))))
			}
			switch r.Intn(3) {
			case 0:
				at.Context = c14sRecord(r, 1, ents, cts)
			case 1:
				if len(cts) > 0 {
					at.Context = sast.Type(types.Path(mon.Pick(r, cts)))
				}
			}
			a.AppliesTo = at
		}
		ns.Actions[types.String(name)] = a
	}
	return ns
}

// c14Schema draws a schema with bare declarations and 0..3 namespaces; decls counts the
// declarations (map entries the marshallers have to order).
func c14Schema(r *mon.Rand, big bool) (s *sast.Schema, decls int) {
	s = &sast.Schema{}
	if r.P(0.7) {
		ns := c14sNamespace(r, big)
		s.Entities, s.Enums, s.Actions, s.CommonTypes = ns.Entities, ns.Enums, ns.Actions, ns.CommonTypes
		decls += len(ns.Entities) + len(ns.Enums) + len(ns.Actions) + len(ns.CommonTypes)
	}
	nn := r.Intn(4)
	names := []string{"NS", "A::B", "Zed", "Acme::Prod::V1"}
	np := r.Perm(len(names))
	for i := 0; i < nn; i++ {
		if s.Namespaces == nil {
			s.Namespaces = sast.Namespaces{}
		}
		ns := c14sNamespace(r, big)
		ns.Annotations = c14sAnn(r)
		s.Namespaces[types.Path(names[np[i]])] = ns
		decls += 1 + len(ns.Entities) + len(ns.Enums) + len(ns.Actions) + len(ns.CommonTypes)
	}
	return s, decls
}
