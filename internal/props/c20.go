package props

import (
	"encoding/json"
	"fmt"
	"iter"
	"maps"
	"runtime/debug"
	"sort"
	"strings"

	cedar "github.com/cedar-policy/cedar-go"
	"github.com/cedar-policy/cedar-go/types"

	"verif/internal/bridge"
	"verif/internal/model"
	"verif/internal/mon"
	"verif/internal/render"
)

// C20 - policy containers behave as an id-keyed map over any history of operations.
//
// The oracle is an executable map[id]policy model stepped alongside the real containers
// (*cedar.PolicySet and the cedar.PolicyMap copies taken from it). The model never calls
// the container code: it is a Go map of "instances" (tag, kind, canonical text, position)
// updated by the textbook map semantics of each operation. After EVERY step every live
// container is compared with its model (All(), Get(), Authorize on fixed probe requests).

func init() { Registry["C20"] = C20 }

// ---------------------------------------------------------------------------------------
// policies with by-construction outcomes

const c20NKinds = 8

var c20KindNames = [c20NKinds]string{
	`permit(principal == U::"a")`, `permit when context.x == 1`, `forbid when context.x == 2`, `forbid(principal == U::"b")`,
	`permit when context.missing`, `forbid unless context has x`, `permit(all)`, `forbid when overflow`,
}

func c20MkPolicy(kind int, tag string) *model.Policy {
	ctx := func(k string) *model.Expr { return model.Access(model.Var("context"), k) }
	p := &model.Policy{Annots: []model.Annot{{Key: "id", Val: tag}}}
	switch kind {
	case 0:
		p.Permit = true
		p.P = model.Scope{Kind: model.ScEq, Ent: model.Ent("U", "a")}
	case 1:
		p.Permit = true
		p.Conds = []model.Cond{{When: true, Body: model.Bin(model.OEq, ctx("x"), model.Lit(model.Long(1)))}}
	case 2:
		p.Conds = []model.Cond{{When: true, Body: model.Bin(model.OEq, ctx("x"), model.Lit(model.Long(2)))}}
	case 3:
		p.P = model.Scope{Kind: model.ScEq, Ent: model.Ent("U", "b")}
	case 4:
		p.Permit = true
		p.Conds = []model.Cond{{When: true, Body: ctx("missing")}}
	case 5:
		p.Conds = []model.Cond{{When: false, Body: model.Has(model.Var("context"), "x")}}
	case 6:
		p.Permit = true
	case 7:
		p.A = model.Scope{Kind: model.ScEq, Ent: model.Ent("Action", "view")}
		p.Conds = []model.Cond{{When: true, Body: model.Bin(model.OEq,
			model.Bin(model.OAdd, ctx("x"), model.Lit(model.Long(9223372036854775807))), model.Lit(model.Long(0)))}}
	default:
		panic("bad kind")
	}
	return p
}

type c20Probe struct {
	name string
	env  *model.Env
	req  cedar.Request
}

func c20MkProbes() []c20Probe {
	mk := func(name, pid string, ctx model.Val) c20Probe {
		env := &model.Env{P: model.Ent("U", pid), A: model.Ent("Action", "view"), R: model.Ent("G", "b"), Ctx: ctx, Store: map[string]*model.Entity{}}
		return c20Probe{name: name, env: env, req: bridge.ToRequest(env)}
	}
	return []c20Probe{
		mk(`U::"a" {x:1}`, "a", model.Rec("x", model.Long(1))),
		mk(`U::"b" {x:2}`, "b", model.Rec("x", model.Long(2))),
		mk(`U::"c" {}`, "c", model.Rec()),
		mk(`U::"a" {x:3,missing:true}`, "a", model.Rec("x", model.Long(3), "missing", model.Bool(true))),
	}
}

var c20Probes = c20MkProbes()

// c20Out[kind][probe]: outcome computed by the reference evaluator (not by cedar-go).
var c20Out = func() (t [c20NKinds][]model.Outcome) {
	for k := 0; k < c20NKinds; k++ {
		for _, q := range c20Probes {
			o, _ := model.PolicyOutcome(c20MkPolicy(k, "x"), q.env)
			t[k] = append(t[k], o)
		}
	}
	return
}()

// ---------------------------------------------------------------------------------------
// operations (plain data: a history is re-executable, which the shrinker relies on)

const (
	opAdd      = "Add"
	opAlias    = "AddAlias" // Add an object that is already stored under another id
	opRemove   = "Remove"
	opGet      = "Get"
	opBreak    = "All(break)"
	opMap      = "Map"
	opCollect  = "maps.Collect(All)"
	opMCedar   = "MarshalCedar"
	opJSON     = "JSON->new set"         // MarshalJSON, then UnmarshalJSON into a new PolicySet
	opJSONInto = "JSON->existing set"    // MarshalJSON, then UnmarshalJSON into a live PolicySet
	opReload   = "MarshalCedar->reload"  // NewPolicySetFromBytes(file, set.MarshalCedar())
	opLoadDoc  = "NewPolicySetFromBytes" // of an assembled document
)

type c20Op struct {
	Kind string
	Tgt  int // >=0: index (mod number of eligible live containers); -1 newest PolicySet; -2 newest PolicyMap copy (no-op if none)
	ID   string
	PK   int // policy kind
	Ctor int // how the *cedar.Policy object is built
	N    int // LoadDoc: number of policies; All(break): stop after N; AddAlias: source index
	Var  int // layout / API variant
	File string
}

func (o c20Op) String() string {
	return fmt.Sprintf("{%s tgt=%d id=%q pk=%d ctor=%d n=%d var=%d file=%q}", o.Kind, o.Tgt, o.ID, o.PK, o.Ctor, o.N, o.Var, o.File)
}

// c20Inst is the model's notion of one policy: what must be observable about it.
type c20Inst struct {
	tag    string
	kind   int
	permit bool
	text   string         // canonical Cedar text of the policy (its own MarshalCedar when created)
	pos    cedar.Position // position every accessor / diagnostic must report
	p      *cedar.Policy  // the real object (nil until observed for policies created by a decoder)
}

type c20Cont struct {
	serial  int
	ps      *cedar.PolicySet
	pm      cedar.PolicyMap
	m       map[string]*c20Inst // THE MODEL: plain id -> policy map
	ever    map[string]bool     // ids that were present at some time (classifies stale entries)
	lastMut string
	// an iterator obtained from All() when the container came into being, ranged over again
	// after every later step, and the model's contents (id -> @id tag) at that moment
	held     iter.Seq2[cedar.PolicyID, *cedar.Policy]
	heldSnap map[string]string
}

func (c *c20Cont) isSet() bool { return c.ps != nil }
func (c *c20Cont) typ() string {
	if c.isSet() {
		return "PolicySet"
	}
	return "PolicyMap"
}
func (c *c20Cont) name() string { return fmt.Sprintf("%s#%d", c.typ(), c.serial) }
func (c *c20Cont) iter() cedar.PolicyIterator {
	if c.isSet() {
		return c.ps
	}
	return c.pm
}
func (c *c20Cont) sortedIDs() []string {
	ids := make([]string, 0, len(c.m))
	for id := range c.m {
		ids = append(ids, id)
	}
	sort.Strings(ids) // byte-wise = lexicographic
	return ids
}
func (c *c20Cont) describe() map[string]string {
	out := map[string]string{}
	for id, in := range c.m {
		out[id] = in.text
	}
	return out
}

type c20Fail struct {
	Sig, What string
	Step      int
	Detail    map[string]any
}

type c20abort struct{}

type c20Run struct {
	conts   []*c20Cont
	nserial int
	ninst   int
	step    int
	curKind string
	log     []string
	fail    *c20Fail
	cnt     func(string)
	nontriv bool
}

const c20MaxLive = 3

func (r *c20Run) count(s string) {
	if r.cnt != nil {
		r.cnt(s)
	}
}

func (r *c20Run) failf(sig, what string, detail map[string]any) {
	if detail == nil {
		detail = map[string]any{}
	}
	models := map[string]any{}
	for _, c := range r.conts {
		models[c.name()] = c.describe()
	}
	detail["model_contents"] = models
	r.fail = &c20Fail{Sig: sig, What: what, Step: r.step, Detail: detail}
	panic(c20abort{})
}

func (r *c20Run) logf(format string, a ...any) {
	r.log = append(r.log, fmt.Sprintf("#%d ", r.step)+fmt.Sprintf(format, a...))
}

func (r *c20Run) newCont(ps *cedar.PolicySet, pm cedar.PolicyMap, m map[string]*c20Inst, how string, keep *c20Cont) *c20Cont {
	r.nserial++
	c := &c20Cont{serial: r.nserial, ps: ps, pm: pm, m: m, ever: map[string]bool{}, lastMut: how}
	c.heldSnap = map[string]string{}
	for id, in := range m {
		c.ever[id] = true
		c.heldSnap[id] = in.tag
	}
	if ps != nil {
		c.held = ps.All()
	} else {
		c.held = pm.All()
	}
	r.conts = append(r.conts, c)
	for len(r.conts) > c20MaxLive {
		// drop the oldest container whose removal leaves at least one PolicySet
		dropped := false
		for i, d := range r.conts {
			if d == keep || d == c {
				continue
			}
			sets := 0
			for j, e := range r.conts {
				if j != i && e.isSet() {
					sets++
				}
			}
			if sets > 0 || !d.isSet() {
				r.conts = append(r.conts[:i:i], r.conts[i+1:]...)
				dropped = true
				break
			}
		}
		if !dropped {
			break
		}
	}
	return c
}

// pick resolves an op's target.
func (r *c20Run) pick(tgt int, needSet bool) *c20Cont {
	switch {
	case tgt == -1:
		for i := len(r.conts) - 1; i >= 0; i-- {
			if r.conts[i].isSet() {
				return r.conts[i]
			}
		}
		return nil
	case tgt == -2:
		for i := len(r.conts) - 1; i >= 0; i-- {
			if !r.conts[i].isSet() {
				return r.conts[i]
			}
		}
		return nil
	}
	var el []*c20Cont
	for _, c := range r.conts {
		if c.isSet() || !needSet {
			el = append(el, c)
		}
	}
	return el[tgt%len(el)]
}

// newInst builds a fresh policy object with a unique @id tag.
func (r *c20Run) newInst(kind, ctor int) *c20Inst {
	r.ninst++
	tag := fmt.Sprintf("t%d", r.ninst)
	mp := c20MkPolicy(kind, tag)
	src := render.CanonPolicy(mp)
	var p *cedar.Policy
	wantPos := cedar.Position{}
	switch ctor % 4 {
	case 0:
		p = new(cedar.Policy)
		if err := p.UnmarshalCedar([]byte(src)); err != nil {
			r.failf("harness:policy text rejected", "Policy.UnmarshalCedar rejects "+src+": "+err.Error(), nil)
		}
		wantPos = cedar.Position{Offset: 0, Line: 1, Column: 1}
	case 1:
		p = NewPolicy(bridge.ToPolicy(mp))
	case 2:
		var q cedar.Policy
		if err := q.UnmarshalCedar([]byte(src)); err != nil {
			r.failf("harness:policy text rejected", "Policy.UnmarshalCedar rejects "+src+": "+err.Error(), nil)
		}
		b, err := q.MarshalJSON()
		if err != nil {
			r.failf("harness:policy JSON", "Policy.MarshalJSON fails for "+src+": "+err.Error(), nil)
		}
		p = new(cedar.Policy)
		if err := p.UnmarshalJSON(b); err != nil {
			r.failf("harness:policy JSON", "Policy.UnmarshalJSON rejects "+string(b)+": "+err.Error(), nil)
		}
	case 3:
		doc := "\n  " + src
		list, err := cedar.NewPolicyListFromBytes("inst.cedar", []byte(doc))
		if err != nil || len(list) != 1 {
			r.failf("harness:policy text rejected", fmt.Sprintf("NewPolicyListFromBytes(%q): %d policies, err=%v", doc, len(list), err), nil)
		}
		p = list[0]
		wantPos = cedar.Position{Filename: "inst.cedar", Offset: 3, Line: 2, Column: 3}
	}
	in := &c20Inst{tag: tag, kind: kind, permit: mp.Permit, text: string(p.MarshalCedar()), pos: p.Position(), p: p}
	if in.pos != wantPos {
		r.failf("new policy: Position differs from the first token's", fmt.Sprintf("policy built by constructor %d from %q reports position %+v, want %+v", ctor%4, src, in.pos, wantPos),
			map[string]any{"text": src, "got": fmt.Sprintf("%+v", in.pos), "want": fmt.Sprintf("%+v", wantPos)})
	}
	return in
}

// canonText is the canonical text (policy's own MarshalCedar) of kind/tag, used for policies
// that only ever exist inside a loaded document.
func (r *c20Run) canonText(kind int, tag string) string {
	var q cedar.Policy
	src := render.CanonPolicy(c20MkPolicy(kind, tag))
	if err := q.UnmarshalCedar([]byte(src)); err != nil {
		r.failf("harness:policy text rejected", "Policy.UnmarshalCedar rejects "+src+": "+err.Error(), nil)
	}
	return string(q.MarshalCedar())
}

// diff compares an observed policy object with the model's instance.
func c20Diff(in *c20Inst, p *cedar.Policy) (class, detail string) {
	if p == nil {
		return "nil policy", "nil"
	}
	tag := string(p.Annotations()["id"])
	if tag != in.tag {
		return "a different policy (other @id)", fmt.Sprintf("@id %q, want %q", tag, in.tag)
	}
	if (p.Effect() == cedar.Permit) != in.permit {
		return "effect differs", fmt.Sprintf("effect %v", p.Effect())
	}
	if t := string(p.MarshalCedar()); t != in.text {
		return "policy text differs", fmt.Sprintf("text %q, want %q", t, in.text)
	}
	if p.Position() != in.pos {
		return "position differs", fmt.Sprintf("position %+v, want %+v", p.Position(), in.pos)
	}
	return "", ""
}

// verify compares one live container with its model: iteration, lookup and authorization.
func (r *c20Run) verify(ct *c20Cont, after string, other *c20Cont) {
	T := ct.typ()
	// sig: operation kind + what differed; for a container that was NOT the target of the
	// operation the class is "independence" (one signature per container-type pair).
	sig := func(api, cls string) string {
		if other != nil {
			return "independence: " + api + " vs other " + other.typ() + ": changed by an operation on the other container"
		}
		return api + " after " + after + ": " + cls
	}
	wit := func(extra map[string]any) map[string]any {
		extra["container"] = ct.name()
		return extra
	}
	seen := map[string]bool{}
	for id, p := range ct.iter().All() {
		sid := string(id)
		if seen[sid] {
			r.failf(sig(T+".All", "id yielded twice"), fmt.Sprintf("%s.All() yields id %q twice", ct.name(), sid), wit(map[string]any{"id": sid}))
		}
		seen[sid] = true
		in, ok := ct.m[sid]
		if !ok {
			cls := "yields an id that was never added"
			if ct.ever[sid] {
				cls = "yields a removed id (stale entry)"
			}
			r.failf(sig(T+".All", cls), fmt.Sprintf("%s.All() yields id %q which the map model does not contain", ct.name(), sid), wit(map[string]any{"id": sid}))
		}
		if cls, d := c20Diff(in, p); cls != "" {
			r.failf(sig(T+".All", cls), fmt.Sprintf("%s.All() yields under id %q %s", ct.name(), sid, d), wit(map[string]any{"id": sid, "observed": d}))
		}
		if in.p == nil {
			in.p = p
		}
	}
	ids := ct.sortedIDs()
	for _, id := range ids {
		if !seen[id] {
			r.failf(sig(T+".All", "misses an id the model contains"), fmt.Sprintf("%s.All() does not yield id %q", ct.name(), id), wit(map[string]any{"id": id}))
		}
	}
	// the iterator obtained when the container was created, ranged over now: an iterator is
	// either live (the contents now) or a snapshot (the contents when All() was called); it
	// is never a third thing, e.g. the contents of a map the container no longer uses
	if ct.held != nil {
		got := map[string]string{}
		for id, p := range ct.held {
			tag := "<nil>"
			if p != nil {
				tag = string(p.Annotations()["id"])
			}
			got[string(id)] = tag
		}
		now := map[string]string{}
		for id, in := range ct.m {
			now[id] = in.tag
		}
		if !maps.Equal(got, now) && !maps.Equal(got, ct.heldSnap) {
			r.failf(sig(T+".All (iterator obtained earlier, ranged now)", "yields neither the current contents nor those at the time of the All() call"),
				fmt.Sprintf("the iterator %s.All() returned when the container was created now yields %v; current contents %v, contents at the time of the call %v", ct.name(), got, now, ct.heldSnap),
				wit(map[string]any{"yielded": got, "current": now, "at_call_time": ct.heldSnap}))
		}
	}
	if ct.isSet() {
		for _, id := range ids {
			if cls, d := c20Diff(ct.m[id], ct.ps.Get(cedar.PolicyID(id))); cls != "" {
				r.failf(sig("Get(present)", cls), fmt.Sprintf("%s.Get(%q) returns %s", ct.name(), id, d), wit(map[string]any{"id": id, "observed": d}))
			}
		}
	}
	// authorization depends only on the current contents
	permit := make([]bool, len(ids))
	outs := make([]model.Outcome, len(ids))
	for qi, q := range c20Probes {
		for i, id := range ids {
			permit[i] = ct.m[id].permit
			outs[i] = c20Out[ct.m[id].kind][qi]
		}
		wantAllow, wantReasons, wantErrs := model.Decide(ids, permit, outs)
		var dec cedar.Decision
		var diag cedar.Diagnostic
		switch {
		case ct.isSet() && (qi+r.step)%3 == 0:
			dec, diag = ct.ps.IsAuthorized(types.EntityMap{}, q.req)
		case (qi+r.step)%3 == 1:
			dec, diag = cedar.Authorize(ct.iter(), nil, q.req)
		default:
			dec, diag = cedar.Authorize(ct.iter(), types.EntityMap{}, q.req)
		}
		gotReasons, gotErrs := bridge.Diag(diag)
		r.count("Authorize: " + dec.String())
		mkw := func() map[string]any {
			return wit(map[string]any{"request": q.name,
				"got":  map[string]any{"decision": dec.String(), "reasons": gotReasons, "errors": gotErrs},
				"want": map[string]any{"allow": wantAllow, "reasons": wantReasons, "errors": wantErrs}})
		}
		for k := 0; k < len(gotReasons)+len(gotErrs); k++ {
			id := ""
			if k < len(gotReasons) {
				id = gotReasons[k]
			} else {
				id = gotErrs[k-len(gotReasons)]
			}
			if _, ok := ct.m[id]; !ok {
				cls := "a policy under a never-added id is effective"
				if ct.ever[id] {
					cls = "removed policy still effective"
				}
				r.failf(sig("Authorize("+T+")", cls), fmt.Sprintf("Authorize over %s for request %s reports policy id %q which the model does not contain", ct.name(), q.name, id), mkw())
			}
		}
		if (dec == cedar.Allow) != wantAllow {
			r.failf(sig("Authorize("+T+")", "decision differs from the model's contents"), fmt.Sprintf("Authorize over %s for request %s decides %v, the model's contents give allow=%v", ct.name(), q.name, dec, wantAllow), mkw())
		}
		if !eqStrs(gotReasons, wantReasons) {
			r.failf(sig("Authorize("+T+")", "reasons differ from the model's contents"), fmt.Sprintf("Authorize over %s for request %s reports reasons %q, the model's contents give %q", ct.name(), q.name, gotReasons, wantReasons), mkw())
		}
		if !eqStrs(gotErrs, wantErrs) {
			r.failf(sig("Authorize("+T+")", "errors differ from the model's contents"), fmt.Sprintf("Authorize over %s for request %s reports erroring policies %q, the model's contents give %q", ct.name(), q.name, gotErrs, wantErrs), mkw())
		}
		for _, x := range diag.Reasons {
			if want := ct.m[string(x.PolicyID)].pos; x.Position != want {
				r.failf(sig("Authorize("+T+")", "reason position differs"), fmt.Sprintf("reason %q carries position %+v, the stored policy's is %+v", x.PolicyID, x.Position, want), mkw())
			}
		}
		for _, x := range diag.Errors {
			if want := ct.m[string(x.PolicyID)].pos; x.Position != want {
				r.failf(sig("Authorize("+T+")", "error position differs"), fmt.Sprintf("error for %q carries position %+v, the stored policy's is %+v", x.PolicyID, x.Position, want), mkw())
			}
		}
		if len(gotErrs) > 0 {
			r.count("Authorize: with erroring policies")
		}
	}
}

func (r *c20Run) verifyAll(tgts ...*c20Cont) {
	for _, ct := range r.conts {
		isTgt := len(tgts) == 0
		var other *c20Cont
		for _, t := range tgts {
			if t == ct {
				isTgt = true
			} else if other == nil {
				other = t
			}
		}
		if isTgt {
			r.verify(ct, r.curKind, nil)
		} else {
			r.verify(ct, r.curKind+" on "+other.name(), other)
			r.count("independence check: " + ct.typ() + " unchanged by " + r.curKind + " on another " + other.typ())
		}
	}
}

// checkMarshalCedar: lexicographic id order, parse back, every policy's own text.
func (r *c20Run) checkMarshalCedar(ct *c20Cont) []byte {
	doc := ct.ps.MarshalCedar()
	sfx := " (last mutation: " + ct.lastMut + ")"
	wit := map[string]any{"container": ct.name(), "document": string(doc), "last_mutation": ct.lastMut}
	list, err := cedar.NewPolicyListFromBytes("m.cedar", doc)
	if err != nil {
		r.failf("MarshalCedar: output does not parse", fmt.Sprintf("%s.MarshalCedar() = %q does not parse: %v", ct.name(), doc, err), wit)
	}
	ids := ct.sortedIDs()
	wit["model_ids_in_lexicographic_order"] = ids
	var gotTags, wantTags []string
	for _, p := range list {
		gotTags = append(gotTags, string(p.Annotations()["id"]))
	}
	for _, id := range ids {
		wantTags = append(wantTags, ct.m[id].tag)
	}
	wit["got_policy_tags"], wit["want_policy_tags"] = gotTags, wantTags
	if !eqStrs(gotTags, wantTags) {
		gs, ws := append([]string{}, gotTags...), append([]string{}, wantTags...)
		sort.Strings(gs)
		sort.Strings(ws)
		cls := "emitted policies are not the set's policies" + sfx
		switch {
		case eqStrs(gs, ws):
			cls = "policies not in lexicographic id order"
		case len(gs) > len(ws):
			cls = "emits more policies than the set contains" + sfx
		case len(gs) < len(ws):
			cls = "emits fewer policies than the set contains" + sfx
		}
		r.failf("MarshalCedar: "+cls, fmt.Sprintf("%s.MarshalCedar() emits policies %q, ids %q in lexicographic order hold %q", ct.name(), gotTags, ids, wantTags), wit)
	}
	for i, id := range ids {
		if t := string(list[i].MarshalCedar()); t != ct.m[id].text {
			r.failf("MarshalCedar: policy text differs from the policy's own MarshalCedar", fmt.Sprintf("policy %q re-parsed from the set's document renders as %q, stored policy renders as %q", id, t, ct.m[id].text), wit)
		}
	}
	has := func(id string) bool { _, ok := ct.m[id]; return ok }
	if has("policy10") && has("policy2") {
		r.count("MarshalCedar: set holds policy10 and policy2 (policy10 emitted first)")
	}
	if len(ids) >= 2 {
		r.count("MarshalCedar: >=2 policies, order checked")
	}
	texts := make([]string, len(ids))
	for i, id := range ids {
		texts[i] = ct.m[id].text
	}
	if string(doc) == strings.Join(texts, "\n\n") {
		r.count("MarshalCedar: bytes == policies joined by blank line")
	} else {
		r.count("MarshalCedar: other separator layout")
	}
	return doc
}

// locate finds the start offsets of the given texts in doc, in order.
func c20Locate(doc string, texts []string) ([]int, bool) {
	offs := make([]int, len(texts))
	from := 0
	for i, t := range texts {
		j := strings.Index(doc[from:], t)
		if j < 0 {
			return nil, false
		}
		offs[i] = from + j
		from += j + len(t)
	}
	return offs, true
}

// jsonRoundTrip marshals ct and returns the bytes after checking the document's ids.
func (r *c20Run) marshalJSON(ct *c20Cont, variant int) []byte {
	var b []byte
	var err error
	if variant%2 == 0 {
		b, err = ct.ps.MarshalJSON()
	} else {
		b, err = json.Marshal(ct.ps)
	}
	if err != nil {
		r.failf("MarshalJSON: error", fmt.Sprintf("%s.MarshalJSON fails: %v", ct.name(), err), map[string]any{"container": ct.name()})
	}
	var raw struct {
		StaticPolicies map[string]json.RawMessage `json:"staticPolicies"`
	}
	if e := json.Unmarshal(b, &raw); e != nil {
		r.failf("MarshalJSON: output is not a JSON policy set", fmt.Sprintf("%s.MarshalJSON = %s: %v", ct.name(), b, e), map[string]any{"json": string(b)})
	}
	got := sortedKeys(raw.StaticPolicies)
	if !eqStrs(got, ct.sortedIDs()) {
		cls := "ids in the document differ from the set's"
		for _, id := range got {
			if _, ok := ct.m[id]; !ok && ct.ever[id] {
				cls = "document holds a removed id (last mutation: " + ct.lastMut + ")"
			}
		}
		r.failf("MarshalJSON: "+cls, fmt.Sprintf("%s.MarshalJSON has ids %q, model has %q (last mutation %s)", ct.name(), got, ct.sortedIDs(), ct.lastMut), map[string]any{"json": string(b), "last_mutation": ct.lastMut})
	}
	return b
}

func c20CloneModel(m map[string]*c20Inst, zeroPos bool) map[string]*c20Inst {
	out := make(map[string]*c20Inst, len(m))
	for id, in := range m {
		c := *in
		c.p = nil
		if zeroPos {
			c.pos = cedar.Position{}
		}
		out[id] = &c
	}
	return out
}

var c20Seps = []string{"\n\n", "", "\n", " ", " // c @id(\"x\") permit\n", "\r\n\t", "\n\n\n  "}

func (r *c20Run) exec(op c20Op) {
	r.curKind = op.Kind
	switch op.Kind {
	case opAdd, opAlias:
		ct := r.pick(op.Tgt, false)
		if ct == nil {
			r.logf("%s: no target, skipped", op.Kind)
			return
		}
		var in *c20Inst
		if op.Kind == opAlias {
			ids := ct.sortedIDs()
			if len(ids) == 0 {
				r.logf("AddAlias on empty %s: skipped", ct.name())
				return
			}
			src := ids[op.N%len(ids)]
			in = ct.m[src]
			if in.p == nil {
				r.logf("AddAlias: source object unknown, skipped")
				return
			}
			r.count("Add: object already stored under another id")
		} else {
			in = r.newInst(op.PK, op.Ctor)
			r.count(fmt.Sprintf("policy object built by constructor %d", op.Ctor%4))
		}
		_, present := ct.m[op.ID]
		cls := "new"
		if present {
			cls = "replace"
			r.nontriv = true
		}
		r.curKind = opAdd + "(" + cls + ")"
		if ct.isSet() {
			got := ct.ps.Add(cedar.PolicyID(op.ID), in.p)
			r.logf("%s.Add(%q, %s) -> %v", ct.name(), op.ID, in.text, got)
			if got != !present {
				r.failf(fmt.Sprintf("Add: returned %v for %s id", got, map[bool]string{true: "present", false: "absent"}[present]),
					fmt.Sprintf("%s.Add(%q, ..) returned %v although the id was %s", ct.name(), op.ID, got, map[bool]string{true: "present", false: "absent"}[present]), map[string]any{"id": op.ID})
			}
		} else {
			ct.pm[cedar.PolicyID(op.ID)] = in.p
			r.logf("%s[%q] = %s", ct.name(), op.ID, in.text)
			r.count("copy mutated: insert")
			r.nontriv = true
		}
		ct.m[op.ID] = in
		ct.ever[op.ID] = true
		ct.lastMut = r.curKind
		r.count(ct.typ() + " " + r.curKind)
		r.verifyAll(ct)

	case opRemove:
		ct := r.pick(op.Tgt, false)
		if ct == nil {
			r.logf("Remove: no target, skipped")
			return
		}
		_, present := ct.m[op.ID]
		cls := "absent"
		if present {
			cls = "present"
			r.nontriv = true
		}
		r.curKind = "Remove(" + cls + ")"
		if ct.isSet() {
			got := ct.ps.Remove(cedar.PolicyID(op.ID))
			r.logf("%s.Remove(%q) -> %v", ct.name(), op.ID, got)
			if got != present {
				r.failf(fmt.Sprintf("Remove: returned %v for %s id", got, cls), fmt.Sprintf("%s.Remove(%q) returned %v although the id was %s", ct.name(), op.ID, got, cls), map[string]any{"id": op.ID})
			}
		} else {
			delete(ct.pm, cedar.PolicyID(op.ID))
			r.logf("delete(%s, %q)", ct.name(), op.ID)
			r.count("copy mutated: delete")
		}
		delete(ct.m, op.ID)
		ct.lastMut = r.curKind
		r.count(ct.typ() + " " + r.curKind)
		r.verifyAll(ct)

	case opGet:
		ct := r.pick(op.Tgt, true)
		in, present := ct.m[op.ID]
		got := ct.ps.Get(cedar.PolicyID(op.ID))
		r.logf("%s.Get(%q) -> nil=%v", ct.name(), op.ID, got == nil)
		if !present {
			r.count("Get(absent)")
			if got != nil {
				cls := "never-added"
				if ct.ever[op.ID] {
					cls = "removed"
				}
				r.failf("Get: returned a policy for "+cls+" id", fmt.Sprintf("%s.Get(%q) returns %s although the id is absent", ct.name(), op.ID, got.MarshalCedar()), map[string]any{"id": op.ID})
			}
		} else {
			r.count("Get(present)")
			if cls, d := c20Diff(in, got); cls != "" {
				r.failf("Get(present): "+cls, fmt.Sprintf("%s.Get(%q) returns %s", ct.name(), op.ID, d), map[string]any{"id": op.ID, "observed": d})
			}
		}
		r.verifyAll(ct)

	case opBreak:
		ct := r.pick(op.Tgt, false)
		if ct == nil {
			return
		}
		n := op.N%4 + 1
		calls, stopped, again := 0, false, false
		seen := map[string]bool{}
		ct.iter().All()(func(id cedar.PolicyID, p *cedar.Policy) bool {
			if stopped {
				again = true
				return false
			}
			calls++
			sid := string(id)
			in, ok := ct.m[sid]
			if !ok || seen[sid] {
				r.failf(ct.typ()+".All(break): yields an id twice or one the model does not contain", fmt.Sprintf("%s.All() yields %q", ct.name(), sid), map[string]any{"id": sid})
			}
			seen[sid] = true
			if cls, d := c20Diff(in, p); cls != "" {
				r.failf(ct.typ()+".All(break): "+cls, fmt.Sprintf("%s.All() yields under %q %s", ct.name(), sid, d), map[string]any{"id": sid})
			}
			if calls >= n {
				stopped = true
				return false
			}
			return true
		})
		r.logf("%s.All() stopped by the consumer after %d: %d yields", ct.name(), n, calls)
		if again {
			r.failf(ct.typ()+".All(break): yield called again after it returned false", fmt.Sprintf("%s.All() keeps yielding after the consumer stopped", ct.name()), nil)
		}
		if want := min(n, len(ct.m)); calls != want {
			r.failf(ct.typ()+".All(break): wrong number of yields", fmt.Sprintf("%s.All() stopped after %d yielded %d items of %d", ct.name(), n, calls, len(ct.m)), nil)
		}
		r.count(ct.typ() + ".All stopped early")
		r.verifyAll(ct)

	case opMap, opCollect:
		ct := r.pick(op.Tgt, true)
		var pm cedar.PolicyMap
		if op.Kind == opMap {
			pm = ct.ps.Map()
		} else {
			pm = maps.Collect(ct.ps.All())
		}
		if pm == nil {
			pm = cedar.PolicyMap{}
			r.count(op.Kind + ": nil map returned")
		}
		m := make(map[string]*c20Inst, len(ct.m))
		for id, in := range ct.m {
			m[id] = in // same objects: the copy is a shallow map copy by definition
		}
		nc := r.newCont(nil, pm, m, op.Kind, ct)
		r.logf("%s = %s.%s  (%d entries)", nc.name(), ct.name(), op.Kind, len(pm))
		r.count(op.Kind)
		r.verifyAll(ct, nc)

	case opMCedar:
		ct := r.pick(op.Tgt, true)
		doc := r.checkMarshalCedar(ct)
		r.logf("%s.MarshalCedar() -> %d bytes", ct.name(), len(doc))
		r.count("MarshalCedar (after " + ct.lastMut + ")")
		r.verifyAll(ct)

	case opReload:
		ct := r.pick(op.Tgt, true)
		doc := r.checkMarshalCedar(ct)
		ns, err := cedar.NewPolicySetFromBytes(op.File, doc)
		if err != nil {
			r.failf("NewPolicySetFromBytes(MarshalCedar): error", fmt.Sprintf("document %q emitted by %s is rejected: %v", doc, ct.name(), err), map[string]any{"document": string(doc)})
		}
		ids := ct.sortedIDs()
		texts := make([]string, len(ids))
		for i, id := range ids {
			texts[i] = ct.m[id].text
		}
		offs, ok := c20Locate(string(doc), texts)
		if !ok { // cannot happen once checkMarshalCedar passed, unless the layout is not the policies' own text
			r.failf("MarshalCedar: document does not contain the policies' own text in order", fmt.Sprintf("document %q", doc), map[string]any{"document": string(doc), "texts": texts})
		}
		m := map[string]*c20Inst{}
		for i, id := range ids {
			c := *ct.m[id]
			c.p = nil
			c.pos = posAt(string(doc), offs[i])
			c.pos.Filename = op.File
			m[fmt.Sprintf("policy%d", i)] = &c
		}
		nc := r.newCont(ns, nil, m, op.Kind, ct)
		r.logf("%s = NewPolicySetFromBytes(%q, %s.MarshalCedar())  (%d policies)", nc.name(), op.File, ct.name(), len(ids))
		r.count(fmt.Sprintf("reload: %s policies", c20Bucket(len(ids))))
		r.verifyAll(ct, nc)

	case opLoadDoc:
		n := op.N
		var sb strings.Builder
		lead := []string{"", "\n", "// head\n", "  \t"}[op.Var%4]
		sb.WriteString(lead)
		m := map[string]*c20Inst{}
		type item struct {
			off int
			in  *c20Inst
		}
		var items []item
		for i := 0; i < n; i++ {
			if i > 0 {
				sb.WriteString(c20Seps[(op.Var/4+i*(1+op.Var%3))%len(c20Seps)])
			}
			r.ninst++
			tag := fmt.Sprintf("t%d", r.ninst)
			kind := (op.PK + i*(1+op.Ctor%5)) % c20NKinds
			mp := c20MkPolicy(kind, tag)
			items = append(items, item{sb.Len(), &c20Inst{tag: tag, kind: kind, permit: mp.Permit, text: r.canonText(kind, tag)}})
			sb.WriteString(render.CanonPolicy(mp))
		}
		sb.WriteString([]string{"", "\n", " // tail", "\n\n"}[(op.Var/2)%4])
		doc := sb.String()
		ns, err := cedar.NewPolicySetFromBytes(op.File, []byte(doc))
		if err != nil {
			r.failf("NewPolicySetFromBytes(doc): error", fmt.Sprintf("document %q is rejected: %v", doc, err), map[string]any{"document": doc})
		}
		for i, it := range items {
			it.in.pos = posAt(doc, it.off)
			it.in.pos.Filename = op.File
			m[fmt.Sprintf("policy%d", i)] = it.in
		}
		nc := r.newCont(ns, nil, m, op.Kind, nil)
		r.logf("%s = NewPolicySetFromBytes(%q, %q)", nc.name(), op.File, doc)
		r.count(fmt.Sprintf("load document: %s policies", c20Bucket(n)))
		r.verifyAll(nc)
		r.checkMarshalCedar(nc)

	case opJSON:
		ct := r.pick(op.Tgt, true)
		b := r.marshalJSON(ct, op.Var)
		var ns *cedar.PolicySet
		var err error
		if (op.Var/2)%2 == 0 {
			ns = new(cedar.PolicySet)
			err = ns.UnmarshalJSON(b)
		} else {
			ns = cedar.NewPolicySet()
			err = json.Unmarshal(b, ns)
		}
		if err != nil {
			r.failf("UnmarshalJSON(MarshalJSON): error", fmt.Sprintf("JSON %s emitted by %s is rejected: %v", b, ct.name(), err), map[string]any{"json": string(b)})
		}
		nc := r.newCont(ns, nil, c20CloneModel(ct.m, true), op.Kind, ct)
		r.logf("%s = UnmarshalJSON(%s.MarshalJSON())  (%d bytes)", nc.name(), ct.name(), len(b))
		r.count(fmt.Sprintf("JSON round trip: %s policies", c20Bucket(len(ct.m))))
		r.verifyAll(ct, nc)

	case opJSONInto:
		ct := r.pick(op.Tgt, true)
		dst := r.pick(op.Tgt+1+op.N%2, true)
		b := r.marshalJSON(ct, op.Var)
		if dst == ct {
			// a set unmarshalled from its own JSON
			r.count("UnmarshalJSON into the marshalled set itself")
		}
		old := dst.m
		if err := dst.ps.UnmarshalJSON(b); err != nil {
			r.failf("UnmarshalJSON(MarshalJSON): error", fmt.Sprintf("JSON %s emitted by %s is rejected: %v", b, ct.name(), err), map[string]any{"json": string(b)})
		}
		r.logf("%s.UnmarshalJSON(%s.MarshalJSON())  (%d bytes, destination held %d policies)", dst.name(), ct.name(), len(b), len(old))
		// The property fixes the result for a NEW set only. For a non-empty destination both
		// "replace" (what the code does) and "merge" (encoding/json's habit for maps) are map-like;
		// the model follows whichever was observed and demands that it is exactly one of them.
		src := c20CloneModel(ct.m, true)
		replaced := src
		merged := map[string]*c20Inst{}
		for id, in := range old {
			merged[id] = in
		}
		for id, in := range src {
			merged[id] = in
		}
		n := 0
		for range dst.ps.All() {
			n++
		}
		if n == len(merged) && len(merged) != len(replaced) {
			// Stale ids surviving an unmarshal are exactly the "stale entry" the property is
			// about (a policy that stays effective although the set was reloaded): the model of
			// `ps.UnmarshalJSON(doc)` is "ps now holds the document", as for a fresh set.
			dst.m = replaced
			r.count("UnmarshalJSON into non-empty set: merged (stale ids kept)")
		} else {
			dst.m = replaced
			if len(merged) != len(replaced) {
				r.count("UnmarshalJSON into non-empty set: replaced")
				r.nontriv = true
			}
		}
		for id := range dst.m {
			dst.ever[id] = true
		}
		dst.lastMut = op.Kind
		r.count(op.Kind)
		if dst == ct {
			r.verifyAll(dst)
		} else {
			r.verifyAll(ct, dst)
		}
	default:
		panic("unknown op " + op.Kind)
	}
}

func c20Bucket(n int) string {
	switch {
	case n == 0:
		return "0"
	case n == 1:
		return "1"
	case n <= 10:
		return "2-10"
	}
	return ">=11 (policy10 sorts before policy2)"
}

// c20Exec runs a whole history from one empty PolicySet and reports the first failure.
func c20Exec(ops []c20Op, cnt func(string), final bool) (r *c20Run) {
	r = &c20Run{cnt: cnt}
	defer func() {
		if x := recover(); x != nil {
			if _, ok := x.(c20abort); ok {
				return
			}
			site := mon.PanicSite(debug.Stack())
			r.fail = &c20Fail{Sig: r.curKind + ": panic in " + site, What: fmt.Sprintf("panic during %s: %v", r.curKind, x), Step: r.step,
				Detail: map[string]any{"panic": fmt.Sprint(x), "stack": string(debug.Stack())}}
		}
	}()
	r.curKind = "NewPolicySet"
	r.newCont(cedar.NewPolicySet(), nil, map[string]*c20Inst{}, "NewPolicySet", nil)
	r.verifyAll()
	for i, op := range ops {
		r.step = i + 1
		r.exec(op)
	}
	if final {
		r.step = len(ops) + 1
		for _, ct := range append([]*c20Cont{}, r.conts...) {
			if !ct.isSet() {
				continue
			}
			r.curKind = "final " + opMCedar
			r.checkMarshalCedar(ct)
			r.curKind = "final " + opJSON
			b := r.marshalJSON(ct, r.step)
			ns := new(cedar.PolicySet)
			if err := ns.UnmarshalJSON(b); err != nil {
				r.failf("UnmarshalJSON(MarshalJSON): error", fmt.Sprintf("JSON %s emitted by %s is rejected: %v", b, ct.name(), err), map[string]any{"json": string(b)})
			}
			tmp := &c20Cont{serial: 1000 + ct.serial, ps: ns, m: c20CloneModel(ct.m, true), ever: map[string]bool{}, lastMut: ct.lastMut}
			r.verify(tmp, opJSON, nil)
		}
	}
	return r
}

// c20Shrink removes operations while the same signature keeps failing.
func c20Shrink(ops []c20Op, sig string, final bool) ([]c20Op, *c20Run) {
	best := c20Exec(ops, nil, final)
	if best.fail == nil || best.fail.Sig != sig {
		return ops, best
	}
	if best.fail.Step <= len(ops) {
		ops = ops[:best.fail.Step]
	}
	for changed := true; changed; {
		changed = false
		for i := len(ops) - 1; i >= 0; i-- {
			cand := append(append([]c20Op{}, ops[:i]...), ops[i+1:]...)
			rr := c20Exec(cand, nil, final)
			if rr.fail != nil && rr.fail.Sig == sig {
				ops, best, changed = cand, rr, true
			}
		}
	}
	return ops, best
}

func c20Report(w *mon.W, ops []c20Op, r *c20Run, final bool) {
	sops, sr := c20Shrink(ops, r.fail.Sig, final)
	f := sr.fail
	if f == nil {
		f, sops, sr = r.fail, ops, r
	}
	var hist []string
	for _, o := range sops {
		hist = append(hist, o.String())
	}
	var orig []string
	for _, o := range ops {
		orig = append(orig, o.String())
	}
	wit := map[string]any{"history_ops": hist, "history_executed": sr.log, "failing_step": f.Step, "original_history_ops": orig, "original_history_executed_until_failure": r.log}
	for k, v := range f.Detail {
		wit[k] = v
	}
	w.Violation(f.Sig, f.What+fmt.Sprintf(" [history of %d operation(s): %s]", len(sr.log), strings.Join(sr.log, " ; ")), wit)
}

// ---------------------------------------------------------------------------------------
// workloads

var c20IDs = []string{"", "policy0", "policy1", "policy10", "policy2", "policy11", "ü", "日本", "a\"b\\c", "line\nbreak", " <&>", "\x00", "Policy1", "policy01", "policy1 "}

var c20Files = []string{"", "doc.cedar", "dir/ü.cedar", "a b\n"}

// reduced alphabet for the exhaustive part: 3 ids x 3 policies x the operation kinds.
var c20ExIDs = []string{"policy10", "policy2", ""}
var c20ExKinds = []int{6, 2, 4}

func c20Alphabet() []c20Op {
	var a []c20Op
	for _, id := range c20ExIDs {
		for _, k := range c20ExKinds {
			a = append(a, c20Op{Kind: opAdd, Tgt: -1, ID: id, PK: k})
		}
	}
	for _, id := range c20ExIDs {
		a = append(a, c20Op{Kind: opRemove, Tgt: -1, ID: id})
	}
	for _, id := range c20ExIDs {
		a = append(a, c20Op{Kind: opGet, Tgt: -1, ID: id})
	}
	a = append(a, c20Op{Kind: opMap, Tgt: -1})
	for _, id := range c20ExIDs {
		a = append(a, c20Op{Kind: opRemove, Tgt: -2, ID: id})
	}
	for _, id := range c20ExIDs {
		a = append(a, c20Op{Kind: opAdd, Tgt: -2, ID: id, PK: 6, Ctor: 1})
	}
	a = append(a, c20Op{Kind: opReload, Tgt: -1, File: "r.cedar"})
	a = append(a, c20Op{Kind: opJSON, Tgt: -1})
	return a
}

func c20RandOps(r *mon.Rand, maxLen int) []c20Op {
	n := 1 + r.Intn(maxLen)
	// a small per-history id universe makes collisions (replace, remove-present) frequent
	nu := 2 + r.Intn(5)
	uni := make([]string, nu)
	for i := range uni {
		if r.P(0.5) {
			uni[i] = c20IDs[r.Intn(5)]
		} else {
			uni[i] = mon.Pick(r, c20IDs)
		}
	}
	ops := make([]c20Op, n)
	for i := range ops {
		o := c20Op{Tgt: r.Intn(6), ID: mon.Pick(r, uni), PK: r.Intn(c20NKinds), Ctor: r.Intn(4), N: r.Intn(16), Var: r.Intn(64), File: mon.Pick(r, c20Files)}
		x := r.Intn(100)
		switch {
		case x < 30:
			o.Kind = opAdd
		case x < 35:
			o.Kind = opAlias
		case x < 52:
			o.Kind = opRemove
		case x < 59:
			o.Kind = opGet
		case x < 63:
			o.Kind = opBreak
		case x < 69:
			o.Kind = opMap
		case x < 72:
			o.Kind = opCollect
		case x < 78:
			o.Kind = opMCedar
		case x < 84:
			o.Kind = opJSON
		case x < 88:
			o.Kind = opJSONInto
		case x < 95:
			o.Kind = opReload
		default:
			o.Kind = opLoadDoc
			o.N = r.Intn(14)
		}
		ops[i] = o
	}
	return ops
}

func C20(c *mon.Ctx) {
	c.Rule = "case = a history of container operations executed from one empty PolicySet, with an executable map[id]policy model stepped alongside every live container (the PolicySet(s) and PolicyMap copies taken with Map()/maps.Collect(All())). " +
		"Operations: Add (new id / replace / an object already stored under another id), Remove (present / absent), Get, All() stopped early, Map()/maps.Collect copies that are then mutated themselves (independence both ways), MarshalCedar (lexicographic id order, parse back, each policy's own text), MarshalJSON->UnmarshalJSON (new zero-value / NewPolicySet / existing set; ids preserved), MarshalCedar->NewPolicySetFromBytes and NewPolicySetFromBytes of assembled documents of 0..13 policies with layout noise (ids policy0.. in document order, exact position incl. file name). " +
		"After EVERY step every live container is checked: All() = model as multiset of (id, @id tag, effect, text, position), Get of every model id, Authorize/IsAuthorized on 4 fixed requests against the Cedar decision table applied to the model's current contents (decision, reason ids, error ids, positions). Policies are 8 kinds with outcomes fixed by the reference evaluator, each instance tagged by a unique @id annotation and built by 4 constructors (text, AST, JSON, list-from-bytes). " +
		"Streams: 'exhaustive' = every history of length 4 (quick) / 5 (thorough) over the reduced alphabet of 24 letters (3 ids {policy10, policy2, \"\"} x 3 policies; Add, Remove, Get, Map, delete/insert on the copy, reload through Cedar text, reload through JSON) - shorter histories are prefixes and are checked step by step; 'loader' = directed documents of 0..25 policies x layouts x file names followed by replace/remove/marshal; 'random' = histories of length <= 16 over 15 ids (\"\", policy1/policy10/policy2, unicode, quote, control characters) with <= 3 live containers. " +
		"distinct_nontrivial = distinct histories in which a present id was replaced or removed, a copy was mutated, or a non-empty set was overwritten (i.e. a stale entry could show)."
	c.Assume = []string{
		"policy ids are valid UTF-8 (encoding/json replaces invalid bytes, so JSON cannot preserve other ids)",
		"policy texts and documents are ASCII, so byte and character columns coincide",
		"UnmarshalJSON into a NON-empty set is modelled as replacement (the set holds exactly the document afterwards, as for a new set): ids that survive from before are stale entries",
		"policy identity is compared by (@id annotation, effect, MarshalCedar text, Position), not by pointer: a container that cloned policies would still satisfy the property",
		"MarshalCedar's separator is not fixed by the oracle: the document must parse back to exactly the set's policies in lexicographic (byte-wise) id order",
		"a PolicySet returned together with an error by NewPolicySetFromBytes, and the zero-value PolicySet, are outside the history alphabet (their Add panics on a nil map; the documentation does not promise they are usable)",
	}
	c.Floor = 5000

	// 0. by-construction outcomes: each kind alone, through every constructor, decides as the reference evaluator says
	c.Seq("kinds", c20NKinds*4, func(w *mon.W, i int) {
		kind, ctor := i/4, i%4
		ops := []c20Op{{Kind: opAdd, Tgt: -1, ID: "k", PK: kind, Ctor: ctor}, {Kind: opRemove, Tgt: -1, ID: "k"}}
		r := c20Exec(ops, w.Count, true)
		w.Evals(2)
		if r.fail != nil {
			c20Report(w, ops, r, true)
		}
		var outs []string
		for _, o := range c20Out[kind] {
			outs = append(outs, o.String())
		}
		if ctor == 0 {
			w.Sample("policy kinds", map[string]any{"kind": c20KindNames[kind], "text": render.CanonPolicy(c20MkPolicy(kind, "t1")), "outcome_per_probe": outs})
		}
	})

	// 1. exhaustive histories over the reduced alphabet
	alpha := c20Alphabet()
	// quick: all histories of length 4, each followed by the marshal/JSON end checks; thorough: all
	// histories of length 5 (the 5th letter ranges over the reload-through-text / reload-through-JSON
	// letters too, so the end checks of the quick tier are subsumed and are not repeated).
	L, exFinal := 4, true
	if c.Thorough() {
		L, exFinal = 5, false
	}
	total := 1
	for i := 0; i < L; i++ {
		total *= len(alpha)
	}
	c.Extra["exhaustive_alphabet_letters"] = len(alpha)
	c.Extra["exhaustive_history_length"] = L
	c.Extra["exhaustive_histories"] = total
	c.ParFor("exhaustive", total, func(w *mon.W, idx int) {
		ops := make([]c20Op, L)
		code := idx
		for k := L - 1; k >= 0; k-- {
			ops[k] = alpha[code%len(alpha)]
			code /= len(alpha)
		}
		r := c20Exec(ops, w.Count, exFinal)
		w.Evals(L)
		if r.nontriv {
			w.NonTrivial(fmt.Sprint("ex", idx))
		}
		if r.fail != nil {
			c20Report(w, ops, r, exFinal)
			return
		}
		if idx%(total/3+1) == total/7 {
			w.Sample("exhaustive history", r.log)
		}
	})
	c.SetExhaustive(true)

	// 2. directed loader cases
	nLoader := 26 * 16 * len(c20Files)
	c.ParFor("loader", nLoader, func(w *mon.W, i int) {
		n := i % 26
		v := (i / 26) % 16
		file := c20Files[(i/(26*16))%len(c20Files)]
		ops := []c20Op{
			{Kind: opLoadDoc, N: n, Var: v*5 + n, PK: i % c20NKinds, Ctor: i / 7, File: file},
			{Kind: opAdd, Tgt: -1, ID: "policy1", PK: (i + 3) % c20NKinds, Ctor: i % 4},
			{Kind: opMCedar, Tgt: -1},
			{Kind: opRemove, Tgt: -1, ID: "policy10"},
			{Kind: opAdd, Tgt: -1, ID: "policy2", PK: (i + 5) % c20NKinds, Ctor: (i + 1) % 4},
			{Kind: opRemove, Tgt: -1, ID: "policy0"},
			{Kind: opReload, Tgt: -1, File: c20Files[(i+1)%len(c20Files)]},
			{Kind: opJSON, Tgt: -1, Var: i},
			{Kind: opAdd, Tgt: -1, ID: "policy10", PK: i % c20NKinds, Ctor: 1},
		}
		r := c20Exec(ops, w.Count, true)
		w.Evals(len(ops))
		if r.nontriv {
			w.NonTrivial(fmt.Sprint("loader", i))
		}
		if r.fail != nil {
			c20Report(w, ops, r, true)
			return
		}
		if i == 12 || i == 26*5+3 {
			w.Sample("loader history", r.log)
		}
	})

	// 3. random histories
	c.ParFor("random", c.N(20000, 400000), func(w *mon.W, i int) {
		ops := c20RandOps(w.Rand(), 16)
		r := c20Exec(ops, w.Count, true)
		w.Evals(len(ops))
		if r.nontriv {
			w.NonTrivial(fmt.Sprint(ops))
		}
		w.Count(fmt.Sprintf("random history length %d-%d", (len(ops)-1)/4*4+1, (len(ops)-1)/4*4+4))
		if r.fail != nil {
			c20Report(w, ops, r, true)
			return
		}
		if i%7000 == 11 {
			w.Sample("random history", r.log)
		}
	})
}
