package props

import (
	"fmt"
	"strings"

	cedar "github.com/cedar-policy/cedar-go"

	"verif/internal/mon"
)

// Additional C07 stream: COMMENT BODIES. The layout noise of the other streams inserts comments
// with plain bodies. A comment is white space whatever its body holds: here `//` and `/* */`
// comments whose bodies contain stars, slashes, quotes, comment openers of the other kind,
// non-ASCII text and line breaks are put into every gap of a few small documents; the document
// must parse to exactly the policies it has without the comment (a scanner that closes a block
// comment too late silently swallows the clause or the policy that follows).
func init() {
	orig := Registry["C07"]
	Registry["C07"] = func(c *mon.Ctx) {
		orig(c)
		c.Rule += " Stream comment-bodies: comments whose bodies hold stars, slashes, quotes, the other comment opener, non-ASCII text and line breaks, in every token gap of small documents: same policies as without the comment."
		c07comments(c)
	}
}

func c07comments(c *mon.Ctx) {
	forms := []string{"/**/", "/***/", "/****/", "/*****/", "/* c **/", "/** doc **/", "/**\n * banner\n **/", "/* * */", "/* / */", "/*/ */", "/* // */", "/* /* */",
		"// /* \n", "// */\n", "//\n", "//*\n", "///\n", "// é \"q\n", "/* \n */", "/*\r\n*/", "/* é ☃ */", "/* \"quoted\" */", "/* ' */", "/* */ /* */", "/* *//**/", "/*/**/", "/* ** * ***/", "/*a*b*/"}
	docs := [][]string{
		{"permit", "(", "principal", ",", "action", ",", "resource", ")", "when", "{", "context", ".", "a", "==", "1", "}", "unless", "{", "false", "}", ";"},
		{"@", "id", "(", "\"x\"", ")", "forbid", "(", "principal", "==", "U", "::", "\"a\"", ",", "action", "in", "[", "Action", "::", "\"v\"", "]", ",", "resource", "is", "G", ")", "when", "{", "[", "1", ",", "2", "]", ".", "contains", "(", "2", "*", "3", ")", "}", ";",
			"permit", "(", "principal", ",", "action", ",", "resource", ")", "when", "{", "\"/* not a comment */\"", "like", "\"*//*\"", "}", ";"},
	}
	type cs struct{ d, gap, f int }
	var cases []cs
	for d := range docs {
		for gap := 0; gap <= len(docs[d]); gap++ {
			for f := range forms {
				cases = append(cases, cs{d, gap, f})
			}
		}
	}
	ref := make([][]string, len(docs))
	for d, toks := range docs {
		pl, err := cedar.NewPolicyListFromBytes("", []byte(strings.Join(toks, " ")))
		if err != nil {
			c.Inconclusive("comment-bodies: base document rejected: " + err.Error())
			return
		}
		for _, p := range pl {
			ref[d] = append(ref[d], string(p.MarshalCedar()))
		}
	}
	c.ParFor("comment-bodies", len(cases), func(w *mon.W, i int) {
		k := cases[i]
		toks := docs[k.d]
		var sb strings.Builder
		for j, t := range toks {
			if j == k.gap {
				sb.WriteString(forms[k.f])
				sb.WriteString(" ")
			}
			sb.WriteString(t)
			sb.WriteString(" ")
		}
		if k.gap == len(toks) {
			sb.WriteString(forms[k.f])
		}
		doc := sb.String()
		w.Evals(1)
		w.Count("comment-bodies form " + fmt.Sprintf("%q", forms[k.f]))
		w.NonTrivial(doc)
		wit := map[string]any{"document": doc, "comment": forms[k.f], "gap": k.gap}
		pl, err := cedar.NewPolicyListFromBytes("", []byte(doc))
		if err != nil {
			w.Violation("comment-bodies: document with a comment rejected ["+c07commentClass(forms[k.f])+"]", fmt.Sprintf("comment %q before token %d: %v", forms[k.f], k.gap, err), wit)
			return
		}
		var got []string
		for _, p := range pl {
			got = append(got, string(p.MarshalCedar()))
		}
		if strings.Join(got, "\x00") != strings.Join(ref[k.d], "\x00") {
			w.Violation("comment-bodies: a comment changes the parsed policies ["+c07commentClass(forms[k.f])+"]", fmt.Sprintf("comment %q before token %d: %d policies %q, without the comment %d policies", forms[k.f], k.gap, len(got), clip(strings.Join(got, " | "), 300), len(ref[k.d])), wit)
		}
	})
}

func c07commentClass(f string) string {
	switch {
	case strings.HasPrefix(f, "//"):
		return "line comment"
	case strings.HasSuffix(f, "**/"):
		return "block comment ending in **/"
	}
	return "block comment"
}
