package props

import (
	"encoding/json"
	"fmt"
	"strings"

	cedar "github.com/cedar-policy/cedar-go"
	"github.com/cedar-policy/cedar-go/types"
	"github.com/cedar-policy/cedar-go/x/exp/ast"
	"github.com/cedar-policy/cedar-go/x/exp/eval"

	"verif/internal/model"
	"verif/internal/mon"
)

// Two directed streams of C04.
//
// clause-forms: every relational / boolean form as the WHOLE body of a when or unless clause
// (what a compiler can rewrite at clause level: push a negation into the body, merge clauses,
// swap when and unless), with operands that are request data, over environments in which the
// two operands are below / equal / above each other or ill-typed. The random stream reaches
// `unless { a >= b }` with a == b at run time only by luck.
//
// reparse-after-evaluate: ONE Policy object holds policy A, is authorized, then receives policy
// B through UnmarshalCedar / UnmarshalJSON, and is authorized again: what the authorizer runs
// is the compiled form of what the object now holds (its AST and encodings say B).
func init() {
	orig := Registry["C04"]
	Registry["C04"] = func(c *mon.Ctx) {
		orig(c)
		c.Rule += " Stream clause-forms: 30 relational / boolean / membership forms as the whole body of when and unless clauses (single, doubled, mixed), operands from the request, x 12 contexts (operands below / equal / above each other, ill-typed, missing): compiled outcome = direct evaluation. " +
			"Stream reparse-after-evaluate: one Policy object holding A is authorized, receives B by UnmarshalCedar / UnmarshalJSON, and is authorized again (all ordered pairs of 9 policies): outcome, AST and encodings are B's."
		c04clauseForms(c)
		c04reparse(c)
	}
}

var c04ctxs = func() []types.Record {
	var out []types.Record
	for _, nm := range [][2]int64{{9, 10}, {10, 10}, {11, 10}, {10, 9}, {10, 11}, {0, 0}, {-1, 0}, {9223372036854775807, 9223372036854775807}} {
		out = append(out, types.NewRecord(types.RecordMap{"n": types.Long(nm[0]), "m": types.Long(nm[1]), "b": types.Boolean(nm[0] == nm[1]), "s": types.String("x")}))
	}
	out = append(out,
		types.NewRecord(types.RecordMap{"n": types.String("x"), "m": types.Long(10), "b": types.Boolean(true), "s": types.String("x")}),
		types.NewRecord(types.RecordMap{"n": types.Long(10), "m": types.String("x"), "b": types.Long(1), "s": types.Long(1)}),
		types.NewRecord(types.RecordMap{"m": types.Long(10), "b": types.Boolean(false), "s": types.String("")}),
		types.NewRecord(types.RecordMap{"n": types.Long(10), "m": types.Long(10), "b": types.Boolean(false), "s": types.String("xx")}))
	return out
}()

func c04clauseForms(c *mon.Ctx) {
	var bodies []string
	for _, op := range []string{"==", "!=", "<", "<=", ">", ">="} {
		bodies = append(bodies, "context.n "+op+" 10", "10 "+op+" context.n", "context.n "+op+" context.m", "!(context.n "+op+" context.m)")
	}
	bodies = append(bodies, "context.b", "!context.b", "!!context.b", "true", "false", "context.b && context.n >= context.m", "context.b || context.n >= context.m",
		"context has n", "!(context has n)", `context.s like "x*"`, "principal in resource", "!(principal in resource)", "principal == resource", "principal is U",
		"if context.b then context.n >= 10 else context.n <= 10", "context.n + 1 > context.m", "context.n - 1 >= context.m", "-context.n <= -context.m")
	shapes := []string{"when { %[1]s }", "unless { %[1]s }", "when { %[1]s } unless { %[1]s }", "unless { %[1]s } unless { !(%[1]s) }", "when { true } unless { %[1]s }", "unless { false } unless { %[1]s } when { context.b || true }"}
	effects := []string{"permit", "forbid"}
	p, r0 := types.NewEntityUID("U", "p"), types.NewEntityUID("U", "r")
	ents := types.EntityMap{p: {UID: p, Parents: types.NewEntityUIDSet(r0)}, r0: {UID: r0}}
	c.ParFor("clause-forms", len(bodies)*len(shapes)*len(effects), func(w *mon.W, i int) {
		body, shape, eff := bodies[i%len(bodies)], shapes[(i/len(bodies))%len(shapes)], effects[i/(len(bodies)*len(shapes))]
		text := eff + "(principal, action, resource) " + fmt.Sprintf(shape, body) + ";"
		var cp cedar.Policy
		if err := cp.UnmarshalCedar([]byte(text)); err != nil {
			w.Inconclusive("clause-forms: policy does not parse: " + err.Error())
			return
		}
		w.NonTrivial(text)
		w.Count("clause-forms: " + strings.SplitN(shape, "{", 2)[0] + "...")
		for ci, ctx := range c04ctxs {
			for _, res := range []types.EntityUID{r0, p} {
				req := cedar.Request{Principal: p, Action: types.NewEntityUID("Action", "a"), Resource: res, Context: ctx}
				env := eval.Env{Entities: ents, Principal: req.Principal, Action: req.Action, Resource: req.Resource, Context: req.Context}
				od, dd := outcomeDirect((*ast.Policy)(cp.AST()), env)
				oc, dc := outcomeCompiled(&cp, ents, req)
				w.Evals(1)
				if od != oc {
					w.Violation(fmt.Sprintf("clause-forms: compiled policy %s, direct evaluation %s [%s]", oc, od, strings.SplitN(shape, "{", 2)[0]+"{ "+c04opOf(body)+" }"),
						fmt.Sprintf("`%s` under context #%d: compiled %s %s, direct %s %s", text, ci, oc, dc, od, dd),
						map[string]any{"policy": text, "context": ctx.String(), "resource": res.String(), "compiled": oc.String() + " " + dc, "direct": od.String() + " " + dd})
					return
				}
			}
		}
	})
}

func c04opOf(body string) string {
	for _, op := range []string{"<=", ">=", "==", "!=", "<", ">", " in ", " has ", " like ", " is ", "&&", "||", "if "} {
		if strings.Contains(body, op) {
			if strings.HasPrefix(body, "!") {
				return "!(" + strings.TrimSpace(op) + ")"
			}
			return strings.TrimSpace(op)
		}
	}
	return body
}

func c04reparse(c *mon.Ctx) {
	texts := []string{
		`permit(principal, action, resource);`,
		`forbid(principal, action, resource);`,
		`permit(principal, action, resource) when { context.n >= 10 };`,
		`permit(principal, action, resource) unless { context.n >= 10 };`,
		`forbid(principal, action, resource) when { context.n == context.m };`,
		`permit(principal == U::"p", action, resource) when { context.missing };`,
		`permit(principal, action, resource in U::"r") when { 1 + 1 == 2 };`,
		`@a("1") forbid(principal, action, resource) unless { context.s like "x*" };`,
		`permit(principal, action, resource) when { false } when { context.n + 9223372036854775807 > 0 };`,
	}
	p, r0 := types.NewEntityUID("U", "p"), types.NewEntityUID("U", "r")
	ents := types.EntityMap{p: {UID: p, Parents: types.NewEntityUIDSet(r0)}, r0: {UID: r0}}
	modes := []string{"UnmarshalCedar", "UnmarshalJSON", "json.Unmarshal", "UnmarshalCedar twice", "failed UnmarshalJSON in between"}
	c.ParFor("reparse-after-evaluate", len(texts)*len(texts)*len(modes), func(w *mon.W, i int) {
		a, b, mode := texts[i%len(texts)], texts[(i/len(texts))%len(texts)], modes[i/(len(texts)*len(texts))]
		var obj, fresh cedar.Policy
		if obj.UnmarshalCedar([]byte(a)) != nil || fresh.UnmarshalCedar([]byte(b)) != nil {
			w.Inconclusive("reparse: policy does not parse")
			return
		}
		bjson, err := fresh.MarshalJSON()
		if err != nil {
			w.Inconclusive("reparse: MarshalJSON fails")
			return
		}
		outcomes := func(cp *cedar.Policy) string {
			var sb strings.Builder
			for _, ctx := range c04ctxs {
				o, _ := outcomeCompiled(cp, ents, cedar.Request{Principal: p, Action: types.NewEntityUID("Action", "a"), Resource: r0, Context: ctx})
				sb.WriteString(o.String()[:1])
			}
			return sb.String()
		}
		_ = outcomes(&obj) // the object is evaluated while it holds A
		switch mode {
		case "UnmarshalCedar":
			err = obj.UnmarshalCedar([]byte(b))
		case "UnmarshalJSON":
			err = obj.UnmarshalJSON(bjson)
		case "json.Unmarshal":
			err = json.Unmarshal(bjson, &obj)
		case "UnmarshalCedar twice":
			if err = obj.UnmarshalCedar([]byte(b)); err == nil {
				_ = outcomes(&obj)
				err = obj.UnmarshalCedar([]byte(b))
			}
		case "failed UnmarshalJSON in between":
			_ = obj.UnmarshalJSON([]byte(`{"effect":"permit","principal":{"op":"All"},"action":{"op":"All"},"resource":{"op":"All"},"conditions":[{"kind":"when","body":{"Var":"nobody"}}]}`))
			_ = outcomes(&obj)
			err = obj.UnmarshalCedar([]byte(b))
		}
		w.Evals(1)
		w.NonTrivial(fmt.Sprint("reparse/", i))
		if err != nil {
			w.Violation("reparse-after-evaluate: decoding into a used Policy fails ["+mode+"]", err.Error(), map[string]any{"first": a, "second": b})
			return
		}
		got, want := outcomes(&obj), outcomes(&fresh)
		gotText, wantText := string(obj.MarshalCedar()), string(fresh.MarshalCedar())
		if got != want || gotText != wantText {
			what := "outcomes"
			if got == want {
				what = "text"
			}
			w.Violation("reparse-after-evaluate: a Policy object that was evaluated and then given another policy does not behave as that policy ("+what+") ["+mode+"]",
				fmt.Sprintf("object held `%s`, was authorized, then received `%s`: outcomes over %d contexts %s, a fresh object gives %s; text `%s`", a, b, len(c04ctxs), got, want, gotText),
				map[string]any{"first": a, "second": b, "mode": mode, "outcomes_object": got, "outcomes_fresh": want, "text_object": gotText, "text_fresh": wantText, "legend": model.Sat.String() + "/" + model.Unsat.String() + "/" + model.Erroring.String()})
		}
	})
}
