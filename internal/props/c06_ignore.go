package props

import (
	"fmt"

	"verif/internal/gen"
	"verif/internal/model"
)

// Nested ignores: leaves of context *records* (never set members, whose canonical order would
// move) replaced by the ignore marker. Slots are numbered in key-sorted traversal order.

// nestIgnores replaces up to max record leaves (depth >= 1) by the ignore marker.
func nestIgnores(r *gen.R, v model.Val, depth int, p float64, left *int) model.Val {
	if v.K == model.KRecord {
		vs := make([]model.Val, len(v.Vals))
		for i, e := range v.Vals {
			vs[i] = nestIgnores(r, e, depth+1, p, left)
		}
		return model.Record(v.Keys, vs)
	}
	if depth > 0 && *left > 0 && !(v.K == model.KEntity && (v.T == varType || v.T == ignoreType)) && r.P(p) {
		*left--
		return mignore()
	}
	return v
}

// ignoreSlots lists, in traversal order, the original values behind the ignore markers of
// tmpl, reading them from full (the same record before any marker was put in).
func ignoreSlots(tmpl, full model.Val, out *[]model.Val) {
	switch {
	case tmpl.K == model.KEntity && tmpl.T == ignoreType:
		*out = append(*out, full)
	case tmpl.K == model.KRecord && full.K == model.KRecord:
		for i, k := range tmpl.Keys {
			if fv, ok := full.Get(k); ok {
				ignoreSlots(tmpl.Vals[i], fv, out)
			}
		}
	}
}

// substIgnores replaces the i-th ignore marker (traversal order) by vals[i].
func substIgnores(v model.Val, vals []model.Val, idx *int) model.Val {
	switch {
	case v.K == model.KEntity && v.T == ignoreType:
		if *idx < len(vals) {
			x := vals[*idx]
			*idx++
			return x
		}
		return v
	case v.K == model.KRecord:
		vs := make([]model.Val, len(v.Vals))
		for i, e := range v.Vals {
			vs[i] = substIgnores(e, vals, idx)
		}
		return model.Record(v.Keys, vs)
	}
	return v
}

// markNestedIgnores puts nested ignores into the template context and registers the slots.
func markNestedIgnores(r *gen.R, t *c06template, orig map[string]model.Val, p float64) {
	if t.Ctx.K != model.KRecord {
		return
	}
	left := 3
	before := t.Ctx
	after := nestIgnores(r, before, 0, p, &left)
	var slots []model.Val
	ignoreSlots(after, before, &slots)
	t.Ctx = after
	for i, o := range slots {
		name := fmt.Sprintf("ctx#%d", i)
		t.Ignored[name] = true
		orig["~"+name] = o
	}
}
