package props

import (
	"fmt"

	"github.com/cedar-policy/cedar-go/types"
	"github.com/cedar-policy/cedar-go/x/exp/schema"
	"github.com/cedar-policy/cedar-go/x/exp/schema/ast"

	"verif/internal/mon"
)

// c17UsedSchema returns a Schema value with a past: it has parsed a schema from text and
// resolved it. Parsing another document into it must give that document's schema.
func c17UsedSchema() *schema.Schema {
	var s schema.Schema
	if err := s.UnmarshalCedar([]byte("entity C17Stale { stale: Long };\naction c17stale appliesTo { principal: C17Stale, resource: C17Stale, context: { stale: String } };\n")); err != nil {
		panic("c17 used schema: " + err.Error())
	}
	if _, err := s.Resolve(); err != nil {
		panic("c17 used schema: " + err.Error())
	}
	return &s
}

// Additional C17 stream: large FLAT schemas. Nothing is nested more than two levels deep, but
// one document holds well over a thousand type expressions, attribute declarations, entity
// types, actions and common types - per-document budgets and counters in the text parser and
// the JSON decoder (nesting depth, positions, buffers) see values the small generated
// schemas never reach.
func init() {
	orig := Registry["C17"]
	Registry["C17"] = func(c *mon.Ctx) {
		orig(c)
		c.Rule += " Stream bulk: flat schemas with 1100-2600 type expressions in one document (60-130 entity types x 20 attributes, or as many common types / actions with wide contexts, in the empty namespace or spread over namespaces) go through the same paths."
		c17bulk(c)
	}
}

func c17bulk(c *mon.Ctx) {
	shapes := []string{"wide entity shapes", "many common types", "many actions with wide contexts", "sets of primitives", "spread over namespaces", "optional and annotated attributes"}
	sizes := []int{60, 130}
	c.ParFor("bulk", len(shapes)*len(sizes), func(w *mon.W, i int) {
		shape, n := shapes[i%len(shapes)], sizes[i/len(shapes)]
		leaf := func(k int) ast.IsType {
			switch k % 6 {
			case 0:
				return ast.Long()
			case 1:
				return ast.String()
			case 2:
				return ast.Bool()
			case 3:
				return ast.Decimal()
			case 4:
				return ast.EntityType("E0")
			}
			return ast.Set(ast.Long())
		}
		wide := func(base int) ast.RecordType {
			rt := ast.RecordType{}
			for k := 0; k < 20; k++ {
				a := ast.Attribute{Type: leaf(base + k)}
				if shape == "optional and annotated attributes" {
					a.Optional = k%2 == 0
					a.Annotations = ast.Annotations{"doc": types.String(fmt.Sprintf("attribute %d", k))}
				}
				if shape == "sets of primitives" {
					a.Type = ast.Set(leaf(base + k))
				}
				rt[types.String(fmt.Sprintf("a%d", k))] = a
			}
			return rt
		}
		s := &ast.Schema{Entities: ast.Entities{"E0": ast.Entity{}}, Actions: ast.Actions{}, CommonTypes: ast.CommonTypes{}, Namespaces: ast.Namespaces{}}
		switch shape {
		case "many common types":
			for j := 0; j < n; j++ {
				s.CommonTypes[types.Ident(fmt.Sprintf("T%d", j))] = ast.CommonType{Type: wide(j)}
			}
			s.Entities["User"] = ast.Entity{Shape: ast.RecordType{"t": ast.Attribute{Type: ast.TypeRef("T0")}, "u": ast.Attribute{Type: ast.TypeRef(types.Path(fmt.Sprintf("T%d", n-1)))}}}
		case "many actions with wide contexts":
			for j := 0; j < n; j++ {
				s.Actions[types.String(fmt.Sprintf("act%d", j))] = ast.Action{AppliesTo: &ast.AppliesTo{Principals: []ast.EntityTypeRef{"E0"}, Resources: []ast.EntityTypeRef{"E0"}, Context: wide(j)}}
			}
		case "spread over namespaces":
			for j := 0; j < n; j++ {
				ns := types.Path(fmt.Sprintf("N%d", j%7))
				nsd := s.Namespaces[ns]
				if nsd.Entities == nil {
					nsd.Entities = ast.Entities{}
				}
				nsd.Entities[types.Ident(fmt.Sprintf("E%d", j))] = ast.Entity{Shape: wide(j)}
				s.Namespaces[ns] = nsd
			}
		default:
			for j := 1; j <= n; j++ {
				e := ast.Entity{Shape: wide(j)}
				if j > 1 {
					e.ParentTypes = []ast.EntityTypeRef{ast.EntityTypeRef(fmt.Sprintf("E%d", j-1))}
				}
				s.Entities[types.Ident(fmt.Sprintf("E%d", j))] = e
			}
		}
		w.Count("stream bulk: " + shape)
		c17CheckValid(w, c17Case{a: s, cat: "bulk:" + shape, altR: func() *mon.Rand { return w.RandSub("alt") }})
	})
}
