package props

import (
	"context"
	"encoding/json"
	"fmt"
	"os"
	"os/exec"
	"path/filepath"
	"regexp"
	"runtime"
	"sort"
	"strings"
	"sync"
	"time"

	cedar "github.com/cedar-policy/cedar-go"
	"github.com/cedar-policy/cedar-go/types"
	"github.com/cedar-policy/cedar-go/x/exp/ast"
	"github.com/cedar-policy/cedar-go/x/exp/batch"
	"github.com/cedar-policy/cedar-go/x/exp/eval"
	"github.com/cedar-policy/cedar-go/x/exp/schema"
	"github.com/cedar-policy/cedar-go/x/exp/schema/resolved"
	"github.com/cedar-policy/cedar-go/x/exp/schema/validate"

	"verif/internal/bridge"
	"verif/internal/gen"
	"verif/internal/model"
	"verif/internal/mon"
	"verif/internal/render"
)

func init() {
	Registry["C19"] = C19
	ChildModes["C19-child"] = c19child
}

const c19schema = `entity G;
entity U in [G] { a?: Long, s?: String, e?: U } tags String;
namespace NS { entity T; }
action view, grp appliesTo { principal: [U, G], resource: [U, G, NS::T], context: { a?: Long, s?: String } };
action "a" in [grp] appliesTo { principal: U, resource: U };
action sub in [grp];
action "b" in [sub] appliesTo { principal: [U], resource: [U, G], context: { a?: Long } };
`

// yieldGetter hands out entities and yields the processor at data-dependent points; it has
// no mutable state of its own (the monitor must not be the race).
type yieldGetter struct{ m types.EntityMap }

func (g yieldGetter) Get(uid types.EntityUID) (types.Entity, bool) {
	if len(uid.ID)%2 == 0 {
		runtime.Gosched()
	}
	e, ok := g.m[uid]
	return e, ok
}

type c19world struct {
	texts    []string
	ps       *cedar.PolicySet
	ids      []cedar.PolicyID
	asts     []*ast.Policy
	ents     types.EntityMap
	reqs     []cedar.Request
	breq     batch.Request
	vals     []types.Value
	schema   *schema.Schema
	resolved *resolved.Schema
	vstrict  *validate.Validator
	vperm    *validate.Validator
}

func c19build(seed uint64, round int) *c19world {
	r := mon.NewRand(seed*0x9E3779B97F4A7C15 ^ uint64(round+1)*0xD1342543DE82EF95)
	w := &c19world{ps: cedar.NewPolicySet()}
	var m gen.Mentions
	n := 3 + r.Intn(4)
	var doc strings.Builder
	var mps []*model.Policy
	for i := 0; i < n; i++ {
		mp := gen.RandPolicy(r, gen.ExprCfg{PIll: 0.05, PrimLits: true, SafeDT: true, WellFormedExt: true}, 3)
		mps = append(mps, mp)
		gen.CollectPolicy(&m, mp)
		doc.WriteString(render.CanonPolicy(mp))
		doc.WriteString("\n")
	}
	// half through the text loader, the others through the AST and JSON constructors
	list, err := cedar.NewPolicyListFromBytes("w.cedar", []byte(doc.String()))
	for i, mp := range mps {
		var p *cedar.Policy
		switch {
		case err == nil && i%3 == 0:
			p = list[i]
		case i%3 == 1:
			p = NewPolicy(bridge.ToPolicy(mp))
		default:
			p = NewPolicy(bridge.ToPolicy(mp))
			if b, e := p.MarshalJSON(); e == nil {
				var q cedar.Policy
				if q.UnmarshalJSON(b) == nil {
					p = &q
				}
			}
		}
		id := cedar.PolicyID(fmt.Sprintf("p%d", i))
		w.ps.Add(id, p)
		w.ids = append(w.ids, id)
		w.asts = append(w.asts, (*ast.Policy)(p.AST()))
		w.texts = append(w.texts, render.CanonPolicy(mp))
	}
	// policies whose extension constructors and patterns work on request data: the compiled
	// evaluator of such a node sees a different argument in every request
	dlist, derr := cedar.NewPolicyListFromBytes("d.cedar", []byte(strings.Join(c19dynPolicies, "\n")))
	if derr != nil {
		panic("c19 dynamic policies: " + derr.Error())
	}
	for i, p := range dlist {
		id := cedar.PolicyID(fmt.Sprintf("d%d", i))
		w.ps.Add(id, p)
		w.ids = append(w.ids, id)
		w.asts = append(w.asts, (*ast.Policy)(p.AST()))
		w.texts = append(w.texts, c19dynPolicies[i])
	}
	// two of the schema-directed policies per world, from one text document
	k1 := r.Intn(len(c19schemaPolicies))
	k2 := (k1 + 1 + r.Intn(len(c19schemaPolicies)-1)) % len(c19schemaPolicies)
	sdoc := c19schemaPolicies[k1] + "\n" + c19schemaPolicies[k2]
	slist, serr := cedar.NewPolicyListFromBytes("s.cedar", []byte(sdoc))
	if serr != nil {
		panic("c19 schema policies: " + serr.Error())
	}
	for i, p := range slist {
		id := cedar.PolicyID(fmt.Sprintf("s%d", i))
		w.ps.Add(id, p)
		w.ids = append(w.ids, id)
		w.asts = append(w.asts, (*ast.Policy)(p.AST()))
		w.texts = append(w.texts, []string{c19schemaPolicies[k1], c19schemaPolicies[k2]}[i])
	}
	env := gen.EnvFor(r, &m, false)
	w.ents = bridge.ToEntityMap(env)
	for k := 0; k < 3; k++ {
		e2 := gen.EnvFor(r, &m, false)
		e2.Store = env.Store
		rq := bridge.ToRequest(e2)
		// request data for the dynamic policies, different in every request
		cm := types.RecordMap{}
		for kk, vv := range rq.Context.All() {
			cm[kk] = vv
		}
		src := []string{"10.1.2.3", "192.168.0.1", "10.255.0.9"}[k]
		ipv, _ := types.ParseIPAddr([]string{"10.255.0.9", "10.1.2.3", "172.16.0.1"}[k])
		cm["src"], cm["d"], cm["t"], cm["u"] = types.String(src), types.String([]string{"1.5", "2.5", "0.0"}[k]), types.String([]string{"2020-01-01", "2030-06-01T00:00:00Z", "1999-12-31"}[k]), types.String([]string{"2h", "30m", "1d"}[k])
		cm["allowed"], cm["s"] = types.NewSet(ipv, types.String("x")), types.String([]string{"abc", "xbc", "a"}[k])
		rq.Context = types.NewRecord(cm)
		w.reqs = append(w.reqs, rq)
	}
	var pvals []types.Value
	for k := 0; k < 3; k++ {
		pvals = append(pvals, bridge.ToUID(m.PickEnt(r)))
	}
	// a second, single-valued variable inside the context (a batch authorizer may bind those up front)
	bctx := types.NewRecord(types.RecordMap{"inner": batch.Variable("one")})
	for k, v := range w.reqs[0].Context.All() {
		bctx = recordWith(bctx, k, v)
	}
	w.breq = batch.Request{Principal: batch.Variable("p"), Action: w.reqs[0].Action, Resource: w.reqs[0].Resource, Context: bctx, Variables: batch.Variables{"p": pvals, "one": []types.Value{types.Long(1)}}}
	for k := 0; k < 4; k++ {
		w.vals = append(w.vals, bridge.ToValue(sanitizeVal(gen.RandValOf(r, []model.Kind{model.KSet, model.KRecord}[k%2], 2))))
	}
	w.schema = &schema.Schema{}
	if err := w.schema.UnmarshalCedar([]byte(c19schema)); err != nil {
		panic("c19 schema: " + err.Error())
	}
	rs, err := w.schema.Resolve()
	if err != nil {
		panic("c19 schema resolve: " + err.Error())
	}
	w.resolved = rs
	w.vstrict = validate.New(rs)
	w.vperm = validate.New(rs, validate.WithPermissive())
	return w
}

// c19fp is the fingerprint of everything the operations are handed: policies, ASTs, entities,
// requests, values, schema and resolved schema, unexported fields included. The two Validator
// objects are left out: they are the receivers of validate.*, not inputs, and a validator that
// memoises under its own synchronisation would be correct code.
func c19fp(w *c19world) string {
	cp := *w
	cp.vstrict, cp.vperm = nil, nil
	return DeepPrint(&cp)
}

// c19schemaPolicies are written against c19schema and loaded from text (the parser's slices
// have spare capacity, which is where an append into a shared slice goes unnoticed): action
// lists of every length 1..8 over the action hierarchy, typed attribute and context access.
var c19schemaPolicies = []string{
	`permit(principal is U, action in [Action::"grp", Action::"view", Action::"a"], resource is U) when { principal.a > 1 && context.s like "x*" };`,
	`forbid(principal in G::"g", action in Action::"grp", resource) unless { principal has a && resource has s };`,
	`permit(principal, action in [Action::"sub", Action::"grp", Action::"view", Action::"b", Action::"a"], resource) when { context has a && context.a < 5 };`,
	`permit(principal, action in [Action::"sub", Action::"sub", Action::"grp", Action::"view", Action::"b", Action::"a"], resource);`,
	`permit(principal, action in [Action::"grp", Action::"sub", Action::"sub", Action::"grp", Action::"view", Action::"b", Action::"a"], resource);`,
	`permit(principal == U::"a", action == Action::"b", resource == U::"b") when { principal.e.a == resource.a || principal.hasTag("t") && principal.getTag("t") == "v" };`,
	`permit(principal, action in [Action::"sub"], resource) when { principal.nosuch };`,
	`permit(principal, action in [Action::"grp", Action::"sub"], resource is NS::T);`,
}

var c19dynPolicies = []string{
	`permit(principal, action, resource) when { context has src && ip(context.src).isInRange(ip("10.0.0.0/8")) };`,
	`forbid(principal, action, resource) when { context has d && decimal(context.d).greaterThan(decimal("2.0")) };`,
	`permit(principal, action, resource) when { context has t && datetime(context.t) < datetime("2024-01-01") };`,
	`permit(principal, action, resource) when { context has u && duration(context.u) > duration("1h") };`,
	`permit(principal, action, resource) when { context has allowed && context.allowed.contains(ip(context.src)) };`,
	`permit(principal, action, resource) when { context has s && context.s like "a*" && [context.s, context.src].contains("abc") };`,
}

const c19opKinds = 16

var c19opNames = []string{"Authorize", "IsAuthorized", "batch.Authorize", "PolicySet.MarshalCedar", "PolicySet.MarshalJSON", "Policy marshal/accessors", "PolicySet Get/All/Map",
	"EntityMap/Entity JSON", "Set/Record operations", "validate.Policy", "validate.Entities/Request", "eval.Eval on shared AST", "Schema marshal/Resolve", "eval.PartialPolicy", "Value MarshalCedar/JSON", "NewPolicyFromAST on shared AST"}

func errStr(err error) string {
	if err == nil {
		return "ok"
	}
	return "err"
}

func diagStr(dec cedar.Decision, d cedar.Diagnostic) string {
	rs, es := bridge.Diag(d)
	return fmt.Sprintf("%v|%v|%v", dec, rs, es)
}

// c19run executes one read-only operation and renders its result.
func c19run(w *c19world, kind, k int) (out string) {
	defer func() {
		if x := recover(); x != nil {
			out = fmt.Sprintf("PANIC: %v", x)
		}
	}()
	g := yieldGetter{w.ents}
	req := w.reqs[k%len(w.reqs)]
	pi := k % len(w.ids)
	switch kind {
	case 0:
		return diagStr(cedar.Authorize(w.ps, g, req))
	case 1:
		return diagStr(w.ps.IsAuthorized(w.ents, req))
	case 2:
		var lines []string
		err := batch.Authorize(context.Background(), w.ps, g, w.breq, func(res batch.Result) error {
			lines = append(lines, fmt.Sprintf("%v=>%s", res.Request.Principal, diagStr(res.Decision, res.Diagnostic)))
			return nil
		})
		sort.Strings(lines)
		return strings.Join(lines, ";") + errStr(err)
	case 3:
		return string(w.ps.MarshalCedar())
	case 4:
		b, err := w.ps.MarshalJSON()
		return string(b) + errStr(err)
	case 5:
		p := w.ps.Get(w.ids[pi])
		b, err := p.MarshalJSON()
		return fmt.Sprintf("%s|%s|%s|%v|%v|%v|%s", p.MarshalCedar(), b, errStr(err), p.Annotations(), p.Position(), p.Effect(), DeepPrint(p.AST()))
	case 6:
		var ids []string
		for id := range w.ps.All() {
			ids = append(ids, string(id))
		}
		sort.Strings(ids)
		return fmt.Sprintf("%v|%d|%v", ids, len(w.ps.Map()), w.ps.Get("nope") == nil)
	case 7:
		b, err := w.ents.MarshalJSON()
		s := string(b) + errStr(err)
		var uids []string
		byName := map[string]types.Entity{}
		for uid, e := range w.ents {
			uids = append(uids, uid.String())
			byName[uid.String()] = e
		}
		sort.Strings(uids)
		if len(uids) > 0 {
			e := byName[uids[k%len(uids)]]
			eb, _ := e.MarshalJSON()
			s += fmt.Sprintf("|%s:%s:%v", uids[k%len(uids)], eb, e.Equal(e))
		}
		return s
	case 8:
		v := w.vals[k%len(w.vals)]
		switch t := v.(type) {
		case types.Set:
			n := 0
			for range t.All() {
				n++
			}
			return fmt.Sprintf("%d|%d|%d|%v|%v|%v", t.Len(), n, len(t.Slice()), t.Contains(types.Long(1)), t.Equal(w.vals[(k+2)%len(w.vals)]), t.Equal(t))
		case types.Record:
			_, has := t.Get("a")
			return fmt.Sprintf("%d|%d|%v|%v", t.Len(), len(t.Map()), has, t.Equal(t))
		}
		return "?"
	case 9:
		vi := len(w.ids) - 1 - k%len(w.ids) // from the end: the schema-directed policies first
		return errStr(w.vstrict.Policy(string(w.ids[vi]), w.asts[vi])) + errStr(w.vperm.Policy(string(w.ids[vi]), w.asts[vi]))
	case 10:
		return errStr(w.vstrict.Entities(w.ents)) + errStr(w.vperm.Request(req))
	case 11:
		env := eval.Env{Entities: g, Principal: req.Principal, Action: req.Action, Resource: req.Resource, Context: req.Context}
		v, err := eval.Eval(eval.PolicyToNode(w.asts[pi]).AsIsNode(), env)
		if err != nil {
			return "err"
		}
		return v.String()
	case 12:
		a, e1 := w.schema.MarshalCedar()
		b, e2 := w.schema.MarshalJSON()
		_, e3 := w.schema.Resolve()
		return string(a) + string(b) + errStr(e1) + errStr(e2) + errStr(e3)
	case 13:
		env := eval.Env{Entities: g, Principal: eval.Variable("p"), Action: req.Action, Resource: req.Resource, Context: req.Context}
		res, keep := eval.PartialPolicy(env, w.asts[pi])
		if !keep {
			return "dropped"
		}
		return string((*cedarASTPolicy)(res).MarshalCedar())
	case 14:
		v := w.vals[k%len(w.vals)]
		b, err := json.Marshal(v)
		return string(v.MarshalCedar()) + string(b) + errStr(err) + v.String()
	case 15:
		p := NewPolicy(w.asts[pi])
		one := cedar.NewPolicySet()
		one.Add("x", p)
		return diagStr(cedar.Authorize(one, g, req)) + string(p.MarshalCedar())
	}
	return ""
}

type c19summary struct {
	Rounds     int              `json:"rounds"`
	Goroutines int              `json:"goroutine_runs"`
	Ops        map[string]int64 `json:"ops"`
	Mismatches []map[string]any `json:"mismatches"`
	Mutations  []map[string]any `json:"mutations"`
}

// c19child: `check C19-child <seed> <rounds> <first> <outfile>`; runs under the race detector.
func c19child(args []string) int {
	var seed uint64
	var rounds, first int
	fmt.Sscan(args[0], &seed)
	fmt.Sscan(args[1], &rounds)
	fmt.Sscan(args[2], &first)
	sum := c19summary{Ops: map[string]int64{}}
	var mu sync.Mutex
	for rd := first; rd < first+rounds; rd++ {
		shared := c19build(seed, rd)
		twin := c19build(seed, rd)
		before := c19fp(shared)
		// solo results: on the twin when it is structurally identical to the shared world (so the
		// shared objects stay untouched until the goroutines start); decoding a policy from JSON
		// orders annotations / record keys by map iteration (C14's subject), in which case the
		// twin is not identical and the solo results are taken from a clone built from the same
		// decoded policies instead.
		if c19fp(twin) != before {
			twin = c19build(seed, rd)
			for tries := 0; tries < 50 && c19fp(twin) != before; tries++ {
				twin = c19build(seed, rd)
			}
		}
		if c19fp(twin) != before {
			sum.Ops["rounds skipped: no identical twin (nondeterministic JSON decode order)"]++
			continue
		}
		want := map[[2]int]string{}
		for kind := 0; kind < c19opKinds; kind++ {
			for k := 0; k < 6; k++ {
				want[[2]int{kind, k}] = c19run(twin, kind, k)
			}
		}
		r := mon.NewRand(seed ^ uint64(rd)*77)
		ng := 16 + r.Intn(49)
		start := make(chan struct{})
		var wg sync.WaitGroup
		for g := 0; g < ng; g++ {
			gr := mon.NewRand(seed + uint64(rd)*1000003 + uint64(g)*7919)
			nops := 4 + gr.Intn(12)
			ops := make([][2]int, nops)
			for i := range ops {
				ops[i] = [2]int{gr.Intn(c19opKinds), gr.Intn(6)}
			}
			wg.Add(1)
			go func(g int) {
				defer wg.Done()
				<-start
				local := map[string]int64{}
				for _, op := range ops {
					got := c19run(shared, op[0], op[1])
					local[c19opNames[op[0]]]++
					if got != want[op] {
						mu.Lock()
						if len(sum.Mismatches) < 20 {
							sum.Mismatches = append(sum.Mismatches, map[string]any{"round": rd, "goroutine": g, "operation": c19opNames[op[0]], "param": op[1], "concurrent": trunc(got, 600), "solo": trunc(want[op], 600), "policies": shared.texts})
						}
						mu.Unlock()
					}
				}
				mu.Lock()
				for k, v := range local {
					sum.Ops[k] += v
				}
				mu.Unlock()
			}(g)
		}
		close(start)
		wg.Wait()
		sum.Rounds++
		sum.Goroutines += ng
		if after := c19fp(shared); after != before {
			sum.Mutations = append(sum.Mutations, map[string]any{"round": rd, "policies": shared.texts, "diff": firstDiff(before, after)})
		}
	}
	b, _ := json.Marshal(sum)
	if err := os.WriteFile(args[3], b, 0o644); err != nil {
		return 3
	}
	return 0
}

func trunc(s string, n int) string {
	if len(s) > n {
		return s[:n] + "…"
	}
	return s
}

func firstDiff(a, b string) string {
	i := 0
	for i < len(a) && i < len(b) && a[i] == b[i] {
		i++
	}
	lo := i - 120
	if lo < 0 {
		lo = 0
	}
	return fmt.Sprintf("at byte %d: before …%s… after …%s…", i, trunc(a[lo:], 300), trunc(b[lo:], 300))
}

var raceFrame = regexp.MustCompile(`(?m)^  (github\.com/cedar-policy/cedar-go\S*)\(\)\s*$`)

func C19(c *mon.Ctx) {
	c.Rule = "Part A (race build, child process): per round a fresh world (policy set built through the text loader, NewPolicyFromAST and the JSON decoder; entity map; requests; batch template; set/record values; schema, resolved schema, strict and permissive validators) is shared by 16-64 goroutines released by a barrier; each runs 4-15 operations drawn from 16 read-only operation kinds (Authorize, IsAuthorized, batch.Authorize, marshalling of sets/policies/entities/values/schemas, accessors, iteration, validation, direct evaluation and partial evaluation on the shared AST, recompilation of the shared AST); the EntityGetter yields the processor inside evaluation. " +
		"Oracles: zero Go race-detector reports (GORACE log_path, halt_on_error=0, blocks counted and de-duplicated by their cedar-go frames); every concurrent call returns the result the same call gives on an identically built twin run alone; the deep reflection fingerprint of the shared world (incl. unexported evaluator trees) is unchanged after the round. " +
		"Part B (sequential, normal build): for every generated world the deep fingerprint is taken before and after each of the 16 operation kinds. distinct_nontrivial = distinct worlds (policy texts) exercised."
	c.Assume = []string{"interleavings are whatever the Go scheduler produced in this run (diversified by Gosched inside the entity getter and by fresh objects per round); a clean run is 'no race observed', not race freedom",
		"error messages are excluded from the per-call comparison (their stability is C14's subject)"}
	c.Floor = 100
	// Part B
	nB := c.N(1500, 30000)
	c.ParFor("immutability", nB, func(w *mon.W, i int) {
		wd := c19build(c.Seed+7, i)
		before := c19fp(wd)
		for kind := 0; kind < c19opKinds; kind++ {
			out := c19run(wd, kind, i%6)
			w.Evals(1)
			w.Count("sequential " + c19opNames[kind])
			if strings.HasPrefix(out, "PANIC") {
				w.Violation("read-only operation panics: "+c19opNames[kind], out, map[string]any{"policies": wd.texts})
				return
			}
			if after := c19fp(wd); after != before {
				w.Violation("read-only operation mutates its inputs: "+c19opNames[kind], c19opNames[kind]+" changed the shared objects: "+firstDiff(before, after), map[string]any{"policies": wd.texts, "operation": c19opNames[kind]})
				return
			}
		}
		w.NonTrivial(strings.Join(wd.texts, "\n"))
		if i%500 == 0 {
			w.Sample("world", map[string]any{"policies": wd.texts})
		}
	})
	// Part A
	if c.Replay != nil {
		return
	}
	bin := filepath.Join(mon.Root, "bin", "check-race")
	if _, err := os.Stat(bin); err != nil {
		c.Inconclusive("race-detector build bin/check-race is missing (run through ./run.sh C19)")
		c.Floor = 1 << 30
		return
	}
	rounds := c.N(150, 3000)
	dir, err := os.MkdirTemp("", "c19-")
	if err != nil {
		c.Inconclusive("cannot create temp dir")
		return
	}
	defer os.RemoveAll(dir)
	nproc := 4
	per := (rounds + nproc - 1) / nproc
	var wg sync.WaitGroup
	sums := make([]c19summary, nproc)
	fails := make([]string, nproc)
	for p := 0; p < nproc; p++ {
		wg.Add(1)
		go func(p int) {
			defer wg.Done()
			out := filepath.Join(dir, fmt.Sprintf("out%d.json", p))
			ctx, cancel := context.WithTimeout(context.Background(), 30*time.Minute)
			defer cancel()
			cmd := exec.CommandContext(ctx, bin, "C19-child", fmt.Sprint(c.Seed), fmt.Sprint(per), fmt.Sprint(p*per), out)
			cmd.Env = append(os.Environ(), "GORACE=halt_on_error=0 log_path="+filepath.Join(dir, fmt.Sprintf("race%d", p)))
			logf, _ := os.Create(filepath.Join(dir, fmt.Sprintf("stderr%d.txt", p)))
			cmd.Stdout, cmd.Stderr = logf, logf
			err := cmd.Run()
			logf.Close()
			b, rerr := os.ReadFile(out)
			if rerr != nil || json.Unmarshal(b, &sums[p]) != nil {
				se, _ := os.ReadFile(filepath.Join(dir, fmt.Sprintf("stderr%d.txt", p)))
				fails[p] = fmt.Sprintf("child %d failed: %v; stderr: %s", p, err, trunc(string(se), 2000))
			}
		}(p)
	}
	wg.Wait()
	totalRounds := 0
	for p := 0; p < nproc; p++ {
		if fails[p] != "" {
			if strings.Contains(fails[p], "fatal error") || strings.Contains(fails[p], "panic:") {
				c.Violation("concurrent round crashes the process", fails[p], map[string]any{"child": p})
			} else {
				c.Inconclusive("race child did not finish: " + trunc(fails[p], 200))
			}
			continue
		}
		s := sums[p]
		totalRounds += s.Rounds
		c.Count("concurrent rounds", int64(s.Rounds))
		c.Count("goroutine runs", int64(s.Goroutines))
		for k, v := range s.Ops {
			c.Count("concurrent "+k, v)
		}
		for _, m := range s.Mismatches {
			c.Violation("concurrent call differs from its solo result: "+fmt.Sprint(m["operation"]), fmt.Sprintf("%v returned %v under concurrency, %v alone", m["operation"], m["concurrent"], m["solo"]), m)
		}
		for _, m := range s.Mutations {
			c.Violation("shared objects changed during a concurrent round", fmt.Sprint(m["diff"]), m)
		}
	}
	c.Extra["concurrent_rounds"] = totalRounds
	// race reports
	logs, _ := filepath.Glob(filepath.Join(dir, "race*"))
	blocks := 0
	for _, lf := range logs {
		b, _ := os.ReadFile(lf)
		for _, blk := range strings.Split(string(b), "==================") {
			if !strings.Contains(blk, "WARNING: DATA RACE") {
				continue
			}
			blocks++
			fr := raceFrame.FindAllStringSubmatch(blk, -1)
			seen := map[string]bool{}
			var fs []string
			for _, f := range fr {
				name := strings.TrimPrefix(f[1], "github.com/cedar-policy/cedar-go/")
				if !seen[name] && len(fs) < 2 {
					seen[name] = true
					fs = append(fs, name)
				}
			}
			sort.Strings(fs)
			_ = os.MkdirAll(filepath.Join(mon.Root, "replay", "C19"), 0o755)
			_ = os.WriteFile(filepath.Join(mon.Root, "replay", "C19", "race-report.txt"), []byte(blk), 0o644)
			c.Violation("data race: "+strings.Join(fs, " / "), "the Go race detector reported a data race between "+strings.Join(fs, " and "), map[string]any{"report": trunc(blk, 4000)})
		}
	}
	c.Extra["race_report_blocks"] = blocks
	c.Count("race report blocks", int64(blocks))
	if totalRounds == 0 {
		c.Floor = 1 << 30
	}
}

func recordWith(r types.Record, k types.String, v types.Value) types.Record {
	m := r.Map()
	m[k] = v
	return types.NewRecord(m)
}
