package props

import (
	"fmt"
	"math"

	"verif/internal/bridge"
	"verif/internal/model"
	"verif/internal/mon"
	"verif/internal/render"
)

// Additional C04 stream: CONSTANT CHAINS AROUND A REQUEST VALUE. `(x op c1) op c2` with x taken
// from the request and c1, c2 constants: a folder may be tempted to combine the constants
// (x + 1 - 1 -> x + 0), but Cedar checks overflow per operation, so with x at the edge of the
// 64-bit range the original fails where the rewritten form does not (or the other way round).
// Every shape x every pair of constants x every edge value of x: compiled outcome == direct outcome.
func init() {
	orig := Registry["C04"]
	Registry["C04"] = func(c *mon.Ctx) {
		orig(c)
		c.Rule += " Stream constant-chains: (x op c1) op c2, c1 op (x op c2), three-constant chains, x from the request at the edges of the 64-bit range: compiled outcome equals direct evaluation."
		c04chains(c)
	}
}

func c04chains(c *mon.Ctx) {
	consts := []int64{0, 1, -1, 2, -2, 10, math.MaxInt64, math.MinInt64, math.MaxInt64 - 1, math.MinInt64 + 1}
	xs := []int64{math.MaxInt64, math.MaxInt64 - 1, math.MinInt64, math.MinInt64 + 1, 0, 1, -1, 4611686018427387904, -4611686018427387904}
	ops := []model.Op{model.OAdd, model.OSub, model.OMul}
	type cs struct {
		o1, o2 model.Op
		c1, c2 int64
		shape  int
	}
	var cases []cs
	for _, o1 := range ops {
		for _, o2 := range ops {
			for _, c1 := range consts {
				for _, c2 := range consts {
					for sh := 0; sh < 4; sh++ {
						cases = append(cases, cs{o1, o2, c1, c2, sh})
					}
				}
			}
		}
	}
	c.ParFor("constant-chains", len(cases), func(w *mon.W, i int) {
		k := cases[i]
		x := model.Access(model.Var("context"), "n")
		L := func(v int64) *model.Expr { return model.Lit(model.Long(v)) }
		var e *model.Expr
		switch k.shape {
		case 0:
			e = model.Bin(k.o2, model.Bin(k.o1, x, L(k.c1)), L(k.c2))
		case 1:
			e = model.Bin(k.o2, L(k.c2), model.Bin(k.o1, x, L(k.c1)))
		case 2:
			e = model.Bin(k.o2, model.Bin(k.o1, L(k.c1), x), L(k.c2))
		default:
			e = model.Bin(k.o2, model.Bin(k.o1, model.Bin(k.o1, x, L(k.c1)), L(k.c2)), L(k.c1))
		}
		body := model.Bin(model.OLe, e, L(math.MaxInt64))
		mp := &model.Policy{Permit: true, Conds: []model.Cond{{When: true, Body: body}}}
		cp := NewPolicy(bridge.ToPolicy(mp))
		ref := bridge.ToPolicy(mp)
		w.Count("constant-chains " + k.o1.String() + " then " + k.o2.String())
		w.NonTrivial(render.Canon(body))
		for _, xv := range xs {
			env := baseEnv()
			env.Ctx = model.Rec("n", model.Long(xv))
			g := &bridge.Getter{M: bridge.ToEntityMap(env), Budget: 100000}
			od, dd := outcomeDirect(ref, bridge.ToEvalEnv(env, g))
			oc, dc := outcomeCompiled(cp, g, bridge.ToRequest(env))
			w.Evals(2)
			if od != oc {
				mv, me := model.Eval(body, env)
				w.Violation(fmt.Sprintf("constant-chains: compiled outcome differs from direct evaluation [%s then %s]", k.o1, k.o2),
					fmt.Sprintf("`%s` with context.n = %d: direct %v (%s), compiled %v (%s); reference %s", render.Canon(body), xv, od, dd, oc, dc, wantStr(mv, me)),
					map[string]any{"policy": render.CanonPolicy(mp), "context.n": xv})
				return
			}
		}
	})
}
