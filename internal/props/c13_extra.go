package props

import (
	"encoding/json"
	"fmt"

	"github.com/cedar-policy/cedar-go/types"

	"verif/internal/bridge"
	"verif/internal/gen"
	"verif/internal/model"
	"verif/internal/mon"
)

// Additional C13 stream: decoding into a destination that already holds a value. The decoded
// object must equal the one obtained by decoding into a fresh variable (no merging with the
// previous contents), and copies taken from the destination BEFORE decoding must not change.
func init() {
	orig := Registry["C13"]
	Registry["C13"] = func(c *mon.Ctx) {
		orig(c)
		c13extra(c)
	}
}

func c13entity(r *gen.R) types.Entity {
	env := gen.RandEnv(r)
	ents := env.SortedStore()
	if len(ents) == 0 {
		return types.Entity{UID: types.NewEntityUID("U", "lonely"), Parents: types.NewEntityUIDSet(types.NewEntityUID("G", "p"))}
	}
	e := ents[r.Intn(len(ents))]
	me := &model.Env{Store: map[string]*model.Entity{e.UID.Key(): {UID: e.UID, Parents: e.Parents, Attrs: sanitizeVal(e.Attrs), Tags: sanitizeVal(e.Tags)}}}
	for _, x := range bridge.ToEntityMap(me) {
		return x
	}
	panic("unreachable")
}

func c13extra(c *mon.Ctx) {
	c.ParFor("decode-into-used-destination", c.N(3000, 60000), func(w *mon.W, i int) {
		r := w.Rand()
		a, b := c13entity(r), c13entity(r)
		bj, err := json.Marshal(b)
		if err != nil {
			return
		}
		var fresh types.Entity
		if err := json.Unmarshal(bj, &fresh); err != nil {
			w.Count("deferred: entity JSON not decodable (main C13 streams)")
			return
		}
		w.Evals(1)
		w.NonTrivial(string(bj) + a.UID.String())
		// destination holds entity a (with its parents / attrs) already
		dst := a
		keepParents := a.Parents // an earlier copy of the destination's parent set
		keepLen, keepJSON := keepParents.Len(), mustJSON(keepParents)
		aj := mustJSON(a)
		if err := json.Unmarshal(bj, &dst); err != nil {
			w.Violation("decode into a used destination fails: Entity", err.Error(), map[string]any{"json": string(bj)})
			return
		}
		w.Count("Entity decoded into a destination holding another entity")
		if !dst.Equal(fresh) || mustJSON(dst) != mustJSON(fresh) {
			w.Violation("decode into a used destination merges old and new contents: Entity", fmt.Sprintf("decoding %s into a variable holding %s gives %s, a fresh variable gives %s", bj, aj, mustJSON(dst), mustJSON(fresh)),
				map[string]any{"json": string(bj), "previous": aj, "got": mustJSON(dst), "fresh": mustJSON(fresh)})
			return
		}
		if keepParents.Len() != keepLen || mustJSON(keepParents) != keepJSON || mustJSON(a) != aj {
			w.Violation("decoding changes values copied from the destination before: Entity parents", fmt.Sprintf("a parent set copied before decoding changed from %s to %s", keepJSON, mustJSON(keepParents)), map[string]any{"json": string(bj), "previous": aj})
			return
		}
		// the same for values, records, sets, entity maps, uid sets and requests
		va := bridge.ToValue(sanitizeVal(gen.RandValOf(r, model.KSet, 2)))
		vb := bridge.ToValue(sanitizeVal(gen.RandValOf(r, model.KSet, 2)))
		sa, sb := va.(types.Set), vb.(types.Set)
		sbj := mustJSON(sb)
		var sfresh types.Set
		if json.Unmarshal([]byte(sbj), &sfresh) == nil {
			sdst := sa
			saj := mustJSON(sa)
			if err := json.Unmarshal([]byte(sbj), &sdst); err != nil || !sdst.Equal(sfresh) || mustJSON(sa) != saj {
				w.Violation("decode into a used destination merges old and new contents: Set", fmt.Sprintf("decoding %s into a variable holding %s gives %s (err %v)", sbj, saj, mustJSON(sdst), err), nil)
			}
			w.Count("Set decoded into a destination holding another set")
		}
		ra := bridge.ToValue(sanitizeVal(gen.RandValOf(r, model.KRecord, 2))).(types.Record)
		rb := bridge.ToValue(sanitizeVal(gen.RandValOf(r, model.KRecord, 2))).(types.Record)
		rbj := mustJSON(rb)
		var rfresh types.Record
		if json.Unmarshal([]byte(rbj), &rfresh) == nil {
			rdst := ra
			raj := mustJSON(ra)
			if err := json.Unmarshal([]byte(rbj), &rdst); err != nil || !rdst.Equal(rfresh) || mustJSON(ra) != raj {
				w.Violation("decode into a used destination merges old and new contents: Record", fmt.Sprintf("decoding %s into a variable holding %s gives %s (err %v)", rbj, raj, mustJSON(rdst), err), nil)
			}
			w.Count("Record decoded into a destination holding another record")
		}
		ma := types.EntityMap{a.UID: a}
		mb := types.EntityMap{b.UID: b}
		mbj := mustJSON(mb)
		var mfresh types.EntityMap
		if json.Unmarshal([]byte(mbj), &mfresh) == nil {
			mdst := ma.Clone()
			if err := json.Unmarshal([]byte(mbj), &mdst); err != nil || mustJSON(mdst) != mustJSON(mfresh) || len(ma) != 1 {
				w.Violation("decode into a used destination merges old and new contents: EntityMap", fmt.Sprintf("decoding %s into a map holding %s gives %s (err %v)", mbj, mustJSON(ma), mustJSON(mdst), err), nil)
			}
			w.Count("EntityMap decoded into a destination holding another map")
		}
		ua, ub := a.Parents, b.Parents
		ubj := mustJSON(ub)
		var ufresh types.EntityUIDSet
		if json.Unmarshal([]byte(ubj), &ufresh) == nil {
			udst := ua
			uaj := mustJSON(ua)
			if err := json.Unmarshal([]byte(ubj), &udst); err != nil || !udst.Equal(ufresh) || mustJSON(ua) != uaj {
				w.Violation("decode into a used destination merges old and new contents: EntityUIDSet", fmt.Sprintf("decoding %s into a set holding %s gives %s (err %v); the previous holder now reads %s", ubj, uaj, mustJSON(udst), err, mustJSON(ua)), nil)
			}
			w.Count("EntityUIDSet decoded into a destination holding another set")
		}
		qa := types.Request{Principal: a.UID, Action: a.UID, Resource: a.UID, Context: ra}
		qb := types.Request{Principal: b.UID, Action: b.UID, Resource: b.UID, Context: rb}
		qbj := mustJSON(qb)
		var qfresh types.Request
		if json.Unmarshal([]byte(qbj), &qfresh) == nil {
			qdst := qa
			if err := json.Unmarshal([]byte(qbj), &qdst); err != nil || !qdst.Equal(qfresh) {
				w.Violation("decode into a used destination merges old and new contents: Request", fmt.Sprintf("decoding %s into a request holding %s gives %s (err %v)", qbj, mustJSON(qa), mustJSON(qdst), err), nil)
			}
			w.Count("Request decoded into a destination holding another request")
		}
		if i%1000 == 0 {
			w.Sample("decode-into-used-destination", map[string]any{"previous": aj, "json": string(bj)})
		}
	})
}

func mustJSON(v any) string {
	b, err := json.Marshal(v)
	if err != nil {
		return "ERR:" + err.Error()
	}
	return string(b)
}
