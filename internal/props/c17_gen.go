package props

// Schema-AST generator, deep copy, explicit dump, shrinker and the independent Cedar-schema
// text printer used by the C17 monitor. Nothing in this file calls the cedar-go schema codecs.

import (
	"fmt"
	"sort"
	"strings"
	"unicode/utf8"

	"github.com/cedar-policy/cedar-go/types"
	"github.com/cedar-policy/cedar-go/x/exp/schema/ast"

	"verif/internal/gen"
	"verif/internal/mon"
)

// ---------------------------------------------------------------------------------------
// name universes

var c17Plain = []string{"User", "Group", "Photo", "Album", "Doc", "Team", "Role", "Org", "Dev", "Acct", "T1", "_x", "a9", "Z_9", "Item", "List",
	// ordinary identifiers that merely contain a reserved word
	"Acme__cedar_v2", "__cedar2", "my__cedar", "inx", "iss", "iffy", "truex", "has_", "likeX", "elsewhere", "thenx", "falsey"}

// identifiers that are keywords of the schema grammar (but ordinary identifiers for the lexer)
var c17Kwish = []string{"entity", "action", "type", "namespace", "enum", "tags", "appliesTo", "principal", "resource", "context", "attributes"}

// legal entity type names that are reserved as common type names
var c17EntityOnly = []string{"Entity", "Record", "Extension"}

// names of built-in types: legal for entity types (all) and common types (the extension names)
var c17Prims = []string{"String", "Long", "Bool", "Boolean"}
var c17Exts = []string{"ipaddr", "decimal", "datetime", "duration"}

// namespace names are built from segments: plain ones, and every identifier that is a keyword of
// the schema grammar or the name of a built-in type (all of them ordinary identifiers for the
// lexer; the pinned parser accepts each as a namespace segment - probed). Reserved Cedar keywords
// (in, is, if, then, else, like, has, true, false, __cedar) are rejected by the parser and excluded.
var c17NsPlainSeg = []string{"NS", "A", "B", "C", "App", "Z9", "_x", "M", "Acme__cedar_v2", "my__cedar", "__cedar2", "inx", "iss"}
var c17NsKeySeg = func() []string {
	out := append([]string{"Set", "Set", "Action"}, c17Kwish...)
	out = append(out, c17EntityOnly...)
	out = append(out, c17Prims...)
	return append(out, c17Exts...)
}()

func c17NsSegClass(seg string) string {
	switch {
	case seg == "Set":
		return "Set"
	case seg == "Action" || c17contains(c17Kwish, seg):
		return "schema-keyword"
	case c17contains(c17EntityOnly, seg) || c17contains(c17Prims, seg) || c17contains(c17Exts, seg):
		return "builtin-name"
	}
	return ""
}

func c17GenNsName(r *mon.Rand) string {
	n := []int{1, 1, 1, 2, 2, 3}[r.Intn(6)]
	segs := make([]string, n)
	for i := range segs {
		if r.P(0.3) {
			segs[i] = mon.Pick(r, c17NsKeySeg)
		} else {
			segs[i] = mon.Pick(r, c17NsPlainSeg)
		}
	}
	return strings.Join(segs, "::")
}

var c17AnnoKeys = []string{"doc", "a", "b", "_k", "K9", "in", "if", "is", "has", "like", "true", "entity", "__cedar"}

var c17Reserved = map[string]bool{"true": true, "false": true, "if": true, "then": true, "else": true, "in": true, "like": true, "has": true, "is": true, "__cedar": true}

// c17Strs is the universe for names that may need quoting: attribute names, action names,
// action-parent ids, enum values and annotation values. All entries are valid UTF-8.
var c17Strs = func() []string {
	seen := map[string]bool{}
	var out []string
	add := func(xs ...string) {
		for _, x := range xs {
			if !seen[x] && utf8.ValidString(x) {
				seen[x] = true
				out = append(out, x)
			}
		}
	}
	add(gen.Strings...)
	add(gen.AttrNames...)
	add(gen.EntityIDs...)
	add(c17Kwish...)
	add("Set", "String", "in", "is", "like", "then", "else", "false", "A::B", "a-b", "0x", "x?", "a:b", "{", "}", "\"", "\\", "//c", "/*c*/", "@a",
		"a,b", ";", "[x]", "<", ">", "=", "\\u{41}", "\\n", "\u007f", "\u0080", "\u00ad", "\u0300", "a\u0300", "\ufffe", "tab\there", "x\"", "\\\"")
	return out
}()

func c17IsIdent(s string) bool {
	if s == "" || c17Reserved[s] {
		return false
	}
	for i := 0; i < len(s); i++ {
		c := s[i]
		ok := c == '_' || (c >= 'a' && c <= 'z') || (c >= 'A' && c <= 'Z') || (i > 0 && c >= '0' && c <= '9')
		if !ok {
			return false
		}
	}
	return true
}

// c17StrClass names the character class of a name/value that is not a plain identifier.
func c17StrClass(s string) string {
	switch {
	case c17IsIdent(s):
		return ""
	case s == "":
		return "empty"
	case c17Reserved[s]:
		return "reserved-keyword"
	case strings.ContainsRune(s, 0xFFFD):
		return "U+FFFD"
	}
	cls := "ascii-nonident"
	for _, r := range s {
		switch {
		case r == '"' || r == '\\':
			return "quote-or-backslash"
		case r < 0x20 || r == 0x7f:
			cls = "control"
		case r >= 0x80 && cls != "control":
			cls = "non-ascii"
		}
	}
	return cls
}

// ---------------------------------------------------------------------------------------
// generator

type c17ref struct{ ns, base string }

func (x c17ref) fq() string {
	if x.ns == "" {
		return x.base
	}
	return x.ns + "::" + x.base
}

func c17ActionType(ns string) string {
	if ns == "" {
		return "Action"
	}
	return ns + "::Action"
}

type c17cfg struct {
	hostile float64 // probability of a hostile (built-in / Set) type name, empty enum, empty appliesTo list
	collide bool    // allow a common type to share the fully qualified name of an entity type
	depth   int
}

type c17g struct {
	r      *mon.Rand
	cfg    c17cfg
	ents   []c17ref // entity and enum types
	coms   []c17ref // common types in dependency order (i may reference j<i)
	comRec []bool   // common type i resolves to a record
	acts   []c17ref // actions in dependency order
	ctr    int
}

func (g *c17g) pickIdent(kind string, avoid ...map[string]bool) string {
	r := g.r
	for try := 0; try < 30; try++ {
		var s string
		switch {
		case r.P(g.cfg.hostile):
			if kind == "entity" {
				s = mon.Pick(r, append(append([]string{"Set"}, c17Prims...), c17Exts...))
			} else {
				s = mon.Pick(r, c17Exts)
			}
		case r.P(0.12):
			if kind == "entity" && r.P(0.3) {
				s = mon.Pick(r, c17EntityOnly)
			} else {
				s = mon.Pick(r, c17Kwish)
			}
		default:
			s = mon.Pick(r, c17Plain)
		}
		ok := true
		for _, m := range avoid {
			if m[s] {
				ok = false
			}
		}
		if ok {
			return s
		}
	}
	for {
		g.ctr++
		s := fmt.Sprintf("N%d", g.ctr)
		ok := true
		for _, m := range avoid {
			if m[s] {
				ok = false
			}
		}
		if ok {
			return s
		}
	}
}

func (g *c17g) str() string {
	r := g.r
	if r.P(0.6) {
		return mon.Pick(r, c17Plain)
	}
	return mon.Pick(r, c17Strs)
}

func (g *c17g) annos() ast.Annotations {
	r := g.r
	switch {
	case r.P(0.7):
		return nil
	case r.P(0.05):
		return ast.Annotations{}
	}
	a := ast.Annotations{}
	for n := 1 + r.Intn(2); n > 0; n-- {
		v := ""
		if r.P(0.75) {
			v = g.str()
		}
		a[types.Ident(mon.Pick(r, c17AnnoKeys))] = types.String(v)
	}
	return a
}

// refName spells a reference from namespace `from` to the declaration `to`.
func (g *c17g) refName(from string, to c17ref) string {
	if to.ns == "" {
		return to.base // visible from everywhere (RFC 70: no namespaced declaration may shadow it)
	}
	if to.ns == from && g.r.P(0.6) {
		return to.base
	}
	return to.fq()
}

func (g *c17g) builtin() ast.IsType {
	r := g.r
	switch r.Intn(8) {
	case 0, 1:
		return ast.String()
	case 2, 3:
		return ast.Long()
	case 4:
		return ast.Bool()
	case 5:
		return ast.ExtensionType(mon.Pick(r, c17Exts))
	default:
		n := mon.Pick(r, append(append([]string{}, c17Prims...), c17Exts...))
		if r.P(0.4) {
			n = "__cedar::" + n
		}
		return ast.TypeRef(n)
	}
}

// typ generates a type usable in namespace ns; only common types with index < maxCom are referenced.
func (g *c17g) typ(ns string, depth, maxCom int) ast.IsType {
	r := g.r
	for {
		switch k := r.Intn(100); {
		case k < 40:
			return g.builtin()
		case k < 52:
			if len(g.ents) > 0 {
				return ast.EntityTypeRef(g.refName(ns, mon.Pick(r, g.ents)))
			}
		case k < 62:
			if len(g.ents) > 0 {
				return ast.TypeRef(g.refName(ns, mon.Pick(r, g.ents)))
			}
		case k < 76:
			if maxCom > 0 {
				return ast.TypeRef(g.refName(ns, g.coms[r.Intn(maxCom)]))
			}
		case k < 88:
			if depth > 0 {
				return ast.Set(g.typ(ns, depth-1, maxCom))
			}
		default:
			if depth > 0 {
				return g.record(ns, depth-1, maxCom)
			}
		}
	}
}

func (g *c17g) record(ns string, depth, maxCom int) ast.RecordType {
	r := g.r
	rec := ast.RecordType{}
	for n := []int{0, 1, 1, 2, 2, 3}[r.Intn(6)]; n > 0; n-- {
		rec[types.String(g.str())] = ast.Attribute{Type: g.typ(ns, depth, maxCom), Optional: r.P(0.35), Annotations: g.annos()}
	}
	return rec
}

func (g *c17g) entRefs(ns string, n int) []ast.EntityTypeRef {
	var out []ast.EntityTypeRef
	for ; n > 0 && len(g.ents) > 0; n-- {
		out = append(out, ast.EntityTypeRef(g.refName(ns, mon.Pick(g.r, g.ents))))
	}
	return out
}

func (g *c17g) actRef(from string, to c17ref) ast.ParentRef {
	if to.ns == from && g.r.P(0.6) {
		return ast.ParentRefFromID(types.String(to.base))
	}
	return ast.NewParentRef(ast.EntityTypeRef(c17ActionType(to.ns)), types.String(to.base))
}

// c17Gen generates a schema AST that Resolve() is meant to accept.
func c17Gen(r *mon.Rand, cfg c17cfg) *ast.Schema {
	g := &c17g{r: r, cfg: cfg}
	nss := []string{""}
	for i := []int{0, 1, 1, 2, 2, 3}[r.Intn(6)]; i > 0; i-- {
		name := c17GenNsName(r)
		if !c17contains(nss, name) {
			nss = append(nss, name)
		}
	}
	type plan struct {
		ns                      string
		ents, enums, coms, acts []string
	}
	plans := make([]*plan, len(nss))
	bareTypes, bareActs := map[string]bool{}, map[string]bool{}
	for i, ns := range nss {
		p := &plan{ns: ns}
		plans[i] = p
		if ns == "" && r.P(0.15) {
			continue
		}
		used, usedCom, usedAct := map[string]bool{}, map[string]bool{}, map[string]bool{}
		avoid := []map[string]bool{used}
		if ns != "" {
			avoid = append(avoid, bareTypes)
		}
		for n := r.Intn(4); n > 0; n-- {
			s := g.pickIdent("entity", append(avoid, usedCom)...)
			used[s] = true
			p.ents = append(p.ents, s)
		}
		for n := []int{0, 0, 1, 1, 2}[r.Intn(5)]; n > 0; n-- {
			s := g.pickIdent("entity", append(avoid, usedCom)...)
			used[s] = true
			p.enums = append(p.enums, s)
		}
		for n := r.Intn(3); n > 0; n-- {
			var s string
			if cfg.collide && len(used) > 0 && r.P(0.5) {
				cands := sortedKeys(used)
				s = mon.Pick(r, cands)
				bad := usedCom[s]
				for _, x := range []string{"Bool", "Boolean", "Entity", "Extension", "Long", "Record", "Set", "String"} {
					bad = bad || s == x
				}
				if bad {
					continue
				}
			} else {
				av := []map[string]bool{usedCom, used}
				if ns != "" {
					av = append(av, bareTypes)
				}
				s = g.pickIdent("common", av...)
			}
			usedCom[s] = true
			p.coms = append(p.coms, s)
		}
		for n := r.Intn(4); n > 0; n-- {
			s := g.str()
			if usedAct[s] || (ns != "" && bareActs[s]) {
				continue
			}
			usedAct[s] = true
			p.acts = append(p.acts, s)
		}
		if ns == "" {
			for k := range used {
				bareTypes[k] = true
			}
			for k := range usedCom {
				bareTypes[k] = true
			}
			for k := range usedAct {
				bareActs[k] = true
			}
		}
	}
	isEnum := map[string]bool{}
	for _, p := range plans {
		for _, e := range p.ents {
			g.ents = append(g.ents, c17ref{p.ns, e})
		}
		for _, e := range p.enums {
			g.ents = append(g.ents, c17ref{p.ns, e})
			isEnum[c17ref{p.ns, e}.fq()] = true
		}
		for _, c := range p.coms {
			g.coms = append(g.coms, c17ref{p.ns, c})
		}
		for _, a := range p.acts {
			g.acts = append(g.acts, c17ref{p.ns, a})
		}
	}
	// shuffle dependency orders so that references go forwards and backwards in print order
	for _, p := range r.Perm(len(g.coms)) {
		g.coms = append(g.coms, g.coms[p])
	}
	g.coms = g.coms[len(g.coms)/2:]
	for _, p := range r.Perm(len(g.acts)) {
		g.acts = append(g.acts, g.acts[p])
	}
	g.acts = g.acts[len(g.acts)/2:]

	s := &ast.Schema{}
	type decls struct {
		ents ast.Entities
		enus ast.Enums
		acts ast.Actions
		coms ast.CommonTypes
	}
	byNS := map[string]*decls{}
	for _, ns := range nss {
		byNS[ns] = &decls{}
	}
	// common types
	g.comRec = make([]bool, len(g.coms))
	for i, c := range g.coms {
		var t ast.IsType
		var recs []int
		for j := 0; j < i; j++ {
			if g.comRec[j] {
				recs = append(recs, j)
			}
		}
		switch {
		case r.P(0.35):
			t = g.record(c.ns, cfg.depth, i)
		case len(recs) > 0 && r.P(0.25):
			// alias of an earlier record-like common type
			j := mon.Pick(r, recs)
			name := g.refName(c.ns, g.coms[j])
			t = ast.TypeRef(name)
			g.comRec[i] = c17NameUnambiguous(g, c.ns, name, j)
		default:
			t = g.typ(c.ns, cfg.depth, i)
		}
		if _, ok := t.(ast.RecordType); ok {
			g.comRec[i] = true
		}
		d := byNS[c.ns]
		if d.coms == nil {
			d.coms = ast.CommonTypes{}
		}
		d.coms[types.Ident(c.base)] = ast.CommonType{Annotations: g.annos(), Type: t}
	}
	// entities and enums
	for _, e := range g.ents {
		d := byNS[e.ns]
		if isEnum[e.fq()] {
			en := ast.Enum{Annotations: g.annos()}
			n := 1 + r.Intn(3)
			if r.P(cfg.hostile * 2) {
				n = 0
			}
			for ; n > 0; n-- {
				en.Values = append(en.Values, types.String(g.str()))
			}
			if d.enus == nil {
				d.enus = ast.Enums{}
			}
			d.enus[types.Ident(e.base)] = en
			continue
		}
		en := ast.Entity{Annotations: g.annos()}
		en.ParentTypes = g.entRefs(e.ns, []int{0, 0, 0, 1, 1, 2}[r.Intn(6)])
		if en.ParentTypes == nil && r.P(0.05) {
			en.ParentTypes = []ast.EntityTypeRef{}
		}
		switch r.Intn(5) {
		case 0:
		case 1:
			en.Shape = ast.RecordType{}
		default:
			en.Shape = g.record(e.ns, cfg.depth, len(g.coms))
		}
		if r.P(0.3) {
			en.Tags = g.typ(e.ns, 1, len(g.coms))
		}
		if d.ents == nil {
			d.ents = ast.Entities{}
		}
		d.ents[types.Ident(e.base)] = en
	}
	// actions
	for i, a := range g.acts {
		act := ast.Action{Annotations: g.annos()}
		if i > 0 {
			for n := []int{0, 0, 1, 1, 2}[r.Intn(5)]; n > 0; n-- {
				act.Parents = append(act.Parents, g.actRef(a.ns, g.acts[r.Intn(i)]))
			}
		}
		if r.P(0.75) {
			at := &ast.AppliesTo{}
			at.Principals = g.entRefs(a.ns, 1+r.Intn(2))
			at.Resources = g.entRefs(a.ns, 1+r.Intn(2))
			if r.P(cfg.hostile * 2) {
				switch r.Intn(4) {
				case 0:
					at.Principals = nil
				case 1:
					at.Principals = []ast.EntityTypeRef{}
				case 2:
					at.Resources = nil
				case 3:
					at.Resources = []ast.EntityTypeRef{}
				}
			}
			switch r.Intn(4) {
			case 0:
			case 1:
				at.Context = ast.RecordType{}
			case 2:
				var recs []int
				for j, ok := range g.comRec {
					if ok {
						recs = append(recs, j)
					}
				}
				if len(recs) > 0 {
					at.Context = ast.TypeRef(g.refName(a.ns, g.coms[mon.Pick(r, recs)]))
					break
				}
				fallthrough
			default:
				at.Context = g.record(a.ns, cfg.depth, len(g.coms))
			}
			act.AppliesTo = at
		}
		d := byNS[a.ns]
		if d.acts == nil {
			d.acts = ast.Actions{}
		}
		d.acts[types.String(a.base)] = act
	}
	for _, ns := range nss {
		d := byNS[ns]
		if ns == "" {
			s.Entities, s.Enums, s.Actions, s.CommonTypes = d.ents, d.enus, d.acts, d.coms
			continue
		}
		if s.Namespaces == nil {
			s.Namespaces = ast.Namespaces{}
		}
		s.Namespaces[types.Path(ns)] = ast.Namespace{Annotations: g.annos(), Entities: d.ents, Enums: d.enus, Actions: d.acts, CommonTypes: d.coms}
	}
	return s
}

// c17NameUnambiguous: a TypeRef spelled `name` inside namespace ns reaches common type j and
// nothing else (no entity or other common type of the same spelling is found earlier by the
// documented lookup order).
func c17NameUnambiguous(g *c17g, ns, name string, j int) bool {
	target := g.coms[j].fq()
	lookup := func(fq string) string {
		for _, c := range g.coms {
			if c.fq() == fq {
				return "common:" + fq
			}
		}
		for _, e := range g.ents {
			if e.fq() == fq {
				return "entity:" + fq
			}
		}
		return ""
	}
	if strings.Contains(name, "::") {
		return lookup(name) == "common:"+target
	}
	if ns != "" {
		if x := lookup(ns + "::" + name); x != "" {
			return x == "common:"+target
		}
	}
	return lookup(name) == "common:"+target
}

// ---------------------------------------------------------------------------------------
// mutations that make a schema unresolvable in a way both formats can express

var c17Mutations = []string{"undefined-typeref", "undefined-entity-parent", "common-type-cycle", "undefined-action-parent", "action-cycle",
	"context-not-record", "entity-shadows-bare", "action-shadows-bare", "undefined-principal", "undefined-cedar-builtin", "principal-is-common-type",
	"common-shadows-bare", "action-self-parent", "undefined-qualified-typeref"}

func c17Mutate(s *ast.Schema, kind string) {
	if s.Entities == nil {
		s.Entities = ast.Entities{}
	}
	if s.Actions == nil {
		s.Actions = ast.Actions{}
	}
	if s.CommonTypes == nil {
		s.CommonTypes = ast.CommonTypes{}
	}
	if s.Namespaces == nil {
		s.Namespaces = ast.Namespaces{}
	}
	ns := s.Namespaces["Mz"]
	if ns.Entities == nil {
		ns.Entities = ast.Entities{}
	}
	if ns.Actions == nil {
		ns.Actions = ast.Actions{}
	}
	if ns.CommonTypes == nil {
		ns.CommonTypes = ast.CommonTypes{}
	}
	s.Entities["Zz0"] = ast.Entity{}
	one := []ast.EntityTypeRef{"Zz0"}
	switch kind {
	case "undefined-typeref":
		s.Entities["Zz1"] = ast.Entity{Shape: ast.RecordType{"a": ast.Attribute{Type: ast.Set(ast.TypeRef("Undefined_zz"))}}}
	case "undefined-qualified-typeref":
		s.Entities["Zz1"] = ast.Entity{Tags: ast.TypeRef("Mz::Undefined_zz")}
	case "undefined-entity-parent":
		s.Entities["Zz1"] = ast.Entity{ParentTypes: []ast.EntityTypeRef{"Zz0", "Nope_zz"}}
	case "common-type-cycle":
		s.CommonTypes["Cyc1"] = ast.CommonType{Type: ast.Set(ast.TypeRef("Cyc2"))}
		s.CommonTypes["Cyc2"] = ast.CommonType{Type: ast.RecordType{"a": ast.Attribute{Type: ast.TypeRef("Cyc1"), Optional: true}}}
	case "undefined-action-parent":
		s.Actions["zz act"] = ast.Action{Parents: []ast.ParentRef{ast.ParentRefFromID("nope zz")}}
	case "action-cycle":
		s.Actions["zz1"] = ast.Action{Parents: []ast.ParentRef{ast.ParentRefFromID("zz2")}}
		s.Actions["zz2"] = ast.Action{Parents: []ast.ParentRef{ast.NewParentRef("Action", "zz1")}}
	case "action-self-parent":
		s.Actions["zz1"] = ast.Action{Parents: []ast.ParentRef{ast.ParentRefFromID("zz1")}}
	case "context-not-record":
		s.Actions["zz1"] = ast.Action{AppliesTo: &ast.AppliesTo{Principals: one, Resources: one, Context: ast.Set(ast.Long())}}
	case "entity-shadows-bare":
		ns.Entities["Zz0"] = ast.Entity{}
	case "common-shadows-bare":
		ns.CommonTypes["Zz0"] = ast.CommonType{Type: ast.Long()}
	case "action-shadows-bare":
		s.Actions["zz1"] = ast.Action{}
		ns.Actions["zz1"] = ast.Action{}
	case "undefined-principal":
		s.Actions["zz1"] = ast.Action{AppliesTo: &ast.AppliesTo{Principals: []ast.EntityTypeRef{"Nope_zz"}, Resources: one}}
	case "undefined-cedar-builtin":
		s.Entities["Zz1"] = ast.Entity{Shape: ast.RecordType{"a": ast.Attribute{Type: ast.TypeRef("__cedar::Nope")}}}
	case "principal-is-common-type":
		s.CommonTypes["CtZz"] = ast.CommonType{Type: ast.RecordType{}}
		s.Actions["zz1"] = ast.Action{AppliesTo: &ast.AppliesTo{Principals: []ast.EntityTypeRef{"CtZz"}, Resources: one}}
	}
	if len(ns.Entities)+len(ns.Actions)+len(ns.CommonTypes) > 0 {
		s.Namespaces["Mz"] = ns
	}
	if len(s.Namespaces) == 0 {
		s.Namespaces = nil
	}
}

// ---------------------------------------------------------------------------------------
// deep copy

func c17CloneAnn(a ast.Annotations) ast.Annotations {
	if a == nil {
		return nil
	}
	out := make(ast.Annotations, len(a))
	for k, v := range a {
		out[k] = v
	}
	return out
}

func c17CloneType(t ast.IsType) ast.IsType {
	switch t := t.(type) {
	case ast.SetType:
		return ast.SetType{Element: c17CloneType(t.Element)}
	case ast.RecordType:
		return c17CloneRec(t)
	}
	return t
}

func c17CloneRec(r ast.RecordType) ast.RecordType {
	if r == nil {
		return nil
	}
	out := make(ast.RecordType, len(r))
	for k, a := range r {
		out[k] = ast.Attribute{Type: c17CloneType(a.Type), Optional: a.Optional, Annotations: c17CloneAnn(a.Annotations)}
	}
	return out
}

func c17CloneRefs(x []ast.EntityTypeRef) []ast.EntityTypeRef {
	if x == nil {
		return nil
	}
	return append([]ast.EntityTypeRef{}, x...)
}

func c17CloneNS(n ast.Namespace) ast.Namespace {
	out := ast.Namespace{Annotations: c17CloneAnn(n.Annotations)}
	if n.Entities != nil {
		out.Entities = ast.Entities{}
		for k, e := range n.Entities {
			out.Entities[k] = ast.Entity{Annotations: c17CloneAnn(e.Annotations), ParentTypes: c17CloneRefs(e.ParentTypes), Shape: c17CloneRec(e.Shape), Tags: c17CloneType(e.Tags)}
		}
	}
	if n.Enums != nil {
		out.Enums = ast.Enums{}
		for k, e := range n.Enums {
			c := ast.Enum{Annotations: c17CloneAnn(e.Annotations)}
			if e.Values != nil {
				c.Values = append([]types.String{}, e.Values...)
			}
			out.Enums[k] = c
		}
	}
	if n.Actions != nil {
		out.Actions = ast.Actions{}
		for k, a := range n.Actions {
			c := ast.Action{Annotations: c17CloneAnn(a.Annotations)}
			if a.Parents != nil {
				c.Parents = append([]ast.ParentRef{}, a.Parents...)
			}
			if a.AppliesTo != nil {
				c.AppliesTo = &ast.AppliesTo{Principals: c17CloneRefs(a.AppliesTo.Principals), Resources: c17CloneRefs(a.AppliesTo.Resources), Context: c17CloneType(a.AppliesTo.Context)}
			}
			out.Actions[k] = c
		}
	}
	if n.CommonTypes != nil {
		out.CommonTypes = ast.CommonTypes{}
		for k, c := range n.CommonTypes {
			out.CommonTypes[k] = ast.CommonType{Annotations: c17CloneAnn(c.Annotations), Type: c17CloneType(c.Type)}
		}
	}
	return out
}

func c17Clone(s *ast.Schema) *ast.Schema {
	b := c17CloneNS(ast.Namespace{Entities: s.Entities, Enums: s.Enums, Actions: s.Actions, CommonTypes: s.CommonTypes})
	out := &ast.Schema{Entities: b.Entities, Enums: b.Enums, Actions: b.Actions, CommonTypes: b.CommonTypes}
	if s.Namespaces != nil {
		out.Namespaces = ast.Namespaces{}
		for k, n := range s.Namespaces {
			out.Namespaces[k] = c17CloneNS(n)
		}
	}
	return out
}

// ---------------------------------------------------------------------------------------
// explicit, codec-independent dump of an AST (for witnesses and distinct-case keys)

func c17DumpAnn(a ast.Annotations) any {
	if a == nil {
		return nil
	}
	m := map[string]any{}
	for k, v := range a {
		m[string(k)] = string(v)
	}
	return m
}

func c17DumpType(t ast.IsType) any {
	switch t := t.(type) {
	case nil:
		return nil
	case ast.StringType:
		return "StringType"
	case ast.LongType:
		return "LongType"
	case ast.BoolType:
		return "BoolType"
	case ast.ExtensionType:
		return "ExtensionType(" + string(t) + ")"
	case ast.EntityTypeRef:
		return "EntityTypeRef(" + string(t) + ")"
	case ast.TypeRef:
		return "TypeRef(" + string(t) + ")"
	case ast.SetType:
		return map[string]any{"Set": c17DumpType(t.Element)}
	case ast.RecordType:
		return map[string]any{"Record": c17DumpRec(t)}
	}
	return fmt.Sprintf("?%T", t)
}

func c17DumpRec(r ast.RecordType) any {
	if r == nil {
		return nil
	}
	m := map[string]any{}
	for k, a := range r {
		e := map[string]any{"type": c17DumpType(a.Type)}
		if a.Optional {
			e["optional"] = true
		}
		if a.Annotations != nil {
			e["annotations"] = c17DumpAnn(a.Annotations)
		}
		m[string(k)] = e
	}
	return m
}

func c17DumpRefs(x []ast.EntityTypeRef) any {
	if x == nil {
		return nil
	}
	out := []string{}
	for _, r := range x {
		out = append(out, string(r))
	}
	return out
}

func c17DumpNS(n ast.Namespace, withAnn bool) map[string]any {
	m := map[string]any{}
	if withAnn && n.Annotations != nil {
		m["annotations"] = c17DumpAnn(n.Annotations)
	}
	if n.Entities != nil {
		es := map[string]any{}
		for k, e := range n.Entities {
			x := map[string]any{}
			if e.Annotations != nil {
				x["annotations"] = c17DumpAnn(e.Annotations)
			}
			if e.ParentTypes != nil {
				x["parentTypes"] = c17DumpRefs(e.ParentTypes)
			}
			if e.Shape != nil {
				x["shape"] = c17DumpRec(e.Shape)
			}
			if e.Tags != nil {
				x["tags"] = c17DumpType(e.Tags)
			}
			es[string(k)] = x
		}
		m["entities"] = es
	}
	if n.Enums != nil {
		es := map[string]any{}
		for k, e := range n.Enums {
			x := map[string]any{}
			if e.Annotations != nil {
				x["annotations"] = c17DumpAnn(e.Annotations)
			}
			vals := []string{}
			for _, v := range e.Values {
				vals = append(vals, string(v))
			}
			x["values"] = vals
			es[string(k)] = x
		}
		m["enums"] = es
	}
	if n.Actions != nil {
		as := map[string]any{}
		for k, a := range n.Actions {
			x := map[string]any{}
			if a.Annotations != nil {
				x["annotations"] = c17DumpAnn(a.Annotations)
			}
			if a.Parents != nil {
				ps := []any{}
				for _, p := range a.Parents {
					ps = append(ps, map[string]any{"type": string(p.Type), "id": string(p.ID)})
				}
				x["parents"] = ps
			}
			if a.AppliesTo != nil {
				at := map[string]any{"principals": c17DumpRefs(a.AppliesTo.Principals), "resources": c17DumpRefs(a.AppliesTo.Resources)}
				if a.AppliesTo.Context != nil {
					at["context"] = c17DumpType(a.AppliesTo.Context)
				}
				x["appliesTo"] = at
			}
			as[string(k)] = x
		}
		m["actions"] = as
	}
	if n.CommonTypes != nil {
		cs := map[string]any{}
		for k, c := range n.CommonTypes {
			x := map[string]any{"type": c17DumpType(c.Type)}
			if c.Annotations != nil {
				x["annotations"] = c17DumpAnn(c.Annotations)
			}
			cs[string(k)] = x
		}
		m["commonTypes"] = cs
	}
	return m
}

func c17Dump(s *ast.Schema) map[string]any {
	m := c17DumpNS(ast.Namespace{Entities: s.Entities, Enums: s.Enums, Actions: s.Actions, CommonTypes: s.CommonTypes}, false)
	if s.Namespaces != nil {
		nss := map[string]any{}
		for k, n := range s.Namespaces {
			nss[string(k)] = c17DumpNS(n, true)
		}
		m["namespaces"] = nss
	}
	return m
}

// ---------------------------------------------------------------------------------------
// walking

// c17NSNames returns "" (bare declarations) followed by the sorted namespace names.
func c17NSNames(s *ast.Schema) []string {
	out := []string{""}
	for k := range s.Namespaces {
		out = append(out, string(k))
	}
	sort.Strings(out[1:])
	return out
}

func c17GetNS(s *ast.Schema, name string) ast.Namespace {
	if name == "" {
		return ast.Namespace{Entities: s.Entities, Enums: s.Enums, Actions: s.Actions, CommonTypes: s.CommonTypes}
	}
	return s.Namespaces[types.Path(name)]
}

func c17SetNS(s *ast.Schema, name string, n ast.Namespace) {
	if name == "" {
		s.Entities, s.Enums, s.Actions, s.CommonTypes = n.Entities, n.Enums, n.Actions, n.CommonTypes
		return
	}
	s.Namespaces[types.Path(name)] = n
}

func c17Keys[K ~string, V any](m map[K]V) []K {
	ks := make([]K, 0, len(m))
	for k := range m {
		ks = append(ks, k)
	}
	sort.Slice(ks, func(i, j int) bool { return ks[i] < ks[j] })
	return ks
}

// ---------------------------------------------------------------------------------------
// features of a schema (used for violation signatures after shrinking, and for coverage counters)

func c17Features(s *ast.Schema) []string {
	f := map[string]bool{}
	builtin := map[string]bool{}
	for _, x := range append(append([]string{}, c17Prims...), c17Exts...) {
		builtin[x] = true
	}
	str := func(where, v string) {
		if c := c17StrClass(v); c != "" {
			f["str:"+c] = true
			_ = where
		}
	}
	ann := func(a ast.Annotations) {
		for k, v := range a {
			f["annotation"] = true
			if c17Reserved[string(k)] {
				f["annotation-key:reserved-keyword"] = true
			}
			if v != "" {
				str("annotation", string(v))
			}
		}
	}
	var typ func(t ast.IsType)
	rec := func(r ast.RecordType) {
		for k, a := range r {
			str("attr", string(k))
			ann(a.Annotations)
			if a.Optional {
				f["optional-attr"] = true
			}
			typ(a.Type)
		}
	}
	typ = func(t ast.IsType) {
		switch t := t.(type) {
		case ast.StringType, ast.LongType, ast.BoolType:
			f["ast-primitive"] = true
		case ast.ExtensionType:
			f["ast-extension"] = true
		case ast.EntityTypeRef:
			f["entityref-as-type"] = true
			if t == "Set" {
				f["ref-spelled-Set"] = true
			}
			if strings.Contains(string(t), "::") {
				f["qualified-ref-in-type-position"] = true
			}
		case ast.TypeRef:
			f["typeref"] = true
			if t == "Set" {
				f["ref-spelled-Set"] = true
			}
			if strings.Contains(string(t), "::") && !strings.HasPrefix(string(t), "__cedar::") {
				f["qualified-ref-in-type-position"] = true
			}
			if strings.HasPrefix(string(t), "__cedar::") {
				f["typeref:__cedar"] = true
			}
		case ast.SetType:
			f["set"] = true
			typ(t.Element)
		case ast.RecordType:
			f["record"] = true
			rec(t)
		}
	}
	for _, nsName := range c17NSNames(s) {
		n := c17GetNS(s, nsName)
		if nsName != "" {
			f["namespace"] = true
			for _, seg := range strings.Split(nsName, "::") {
				if c := c17NsSegClass(seg); c != "" {
					f["namespace-segment:"+c] = true
				}
			}
			ann(n.Annotations)
		}
		for k, e := range n.Entities {
			if builtin[string(k)] {
				f["decl-named-like-builtin"] = true
			}
			if _, ok := n.CommonTypes[k]; ok {
				f["common=entity-name"] = true
			}
			ann(e.Annotations)
			if len(e.ParentTypes) > 0 {
				f["entity-parents"] = true
			}
			if e.Shape != nil {
				rec(e.Shape)
			}
			if e.Tags != nil {
				f["tags"] = true
				typ(e.Tags)
			}
		}
		for k, e := range n.Enums {
			if builtin[string(k)] {
				f["decl-named-like-builtin"] = true
			}
			if _, ok := n.CommonTypes[k]; ok {
				f["common=entity-name"] = true
			}
			ann(e.Annotations)
			if len(e.Values) == 0 {
				f["empty-enum"] = true
			}
			for _, v := range e.Values {
				str("enum", string(v))
			}
		}
		for k, c := range n.CommonTypes {
			if builtin[string(k)] {
				f["decl-named-like-builtin"] = true
			}
			f["common-type"] = true
			ann(c.Annotations)
			typ(c.Type)
		}
		for k, a := range n.Actions {
			str("action", string(k))
			ann(a.Annotations)
			for _, p := range a.Parents {
				str("parent", string(p.ID))
				if p.Type == "" {
					f["action-parent:unqualified"] = true
				} else {
					f["action-parent:qualified"] = true
				}
			}
			if a.AppliesTo != nil {
				if len(a.AppliesTo.Principals) == 0 || len(a.AppliesTo.Resources) == 0 {
					f["appliesTo:empty-list"] = true
				}
				if a.AppliesTo.Context != nil {
					f["context"] = true
					typ(a.AppliesTo.Context)
				}
			}
		}
	}
	return sortedKeys(f)
}

// c17TextAmbiguous: a common type and an entity type share a fully qualified name, so an
// EntityTypeRef in type position cannot be expressed in the text format (stated domain restriction).
func c17TextAmbiguous(s *ast.Schema) bool {
	// simple names declared both as a common type and as an entity / enum type in one namespace
	coll := map[string]bool{}
	for _, nsName := range c17NSNames(s) {
		n := c17GetNS(s, nsName)
		for k := range n.CommonTypes {
			if _, ok := n.Entities[k]; ok {
				coll[string(k)] = true
			}
			if _, ok := n.Enums[k]; ok {
				coll[string(k)] = true
			}
		}
	}
	if len(coll) == 0 {
		return false
	}
	// The text format writes an entity reference and a common-type reference alike. That only
	// matters where a type is expected (attribute, element, tags, context, common-type body):
	// an explicit ENTITY reference there to a colliding name reads back as the common type.
	// Parent lists, principal / resource lists and action parents only ever name entity types.
	var hit func(t ast.IsType) bool
	hit = func(t ast.IsType) bool {
		switch t := t.(type) {
		case ast.SetType:
			return hit(t.Element)
		case ast.RecordType:
			for _, a := range t {
				if hit(a.Type) {
					return true
				}
			}
		case ast.EntityTypeRef:
			name := string(t)
			if i := strings.LastIndex(name, "::"); i >= 0 {
				name = name[i+2:]
			}
			return coll[name]
		}
		return false
	}
	for _, nsName := range c17NSNames(s) {
		n := c17GetNS(s, nsName)
		for _, ct := range n.CommonTypes {
			if hit(ct.Type) {
				return true
			}
		}
		for _, e := range n.Entities {
			if hit(e.Shape) || (e.Tags != nil && hit(e.Tags)) {
				return true
			}
		}
		for _, a := range n.Actions {
			if a.AppliesTo != nil && a.AppliesTo.Context != nil && hit(a.AppliesTo.Context) {
				return true
			}
		}
	}
	return false
}

// ---------------------------------------------------------------------------------------
// shrinker: applies the k-th possible simplification to s (in a deterministic enumeration);
// returns false when k is past the last one. No edit ever creates an empty enum, an empty
// principal/resource list or a new hostile name.

type c17editor struct {
	k, n  int
	done  bool
	addZz bool // the edit needs the plain bare entity Zz0 to exist
}

func (e *c17editor) hit() bool {
	if e.done {
		return false
	}
	if e.n == e.k {
		e.n++
		e.done = true
		return true
	}
	e.n++
	return false
}

func (e *c17editor) ann(a ast.Annotations) ast.Annotations {
	if a != nil && len(a) == 0 && e.hit() {
		return nil
	}
	for _, k := range c17Keys(a) {
		if e.hit() {
			delete(a, k)
			if len(a) == 0 {
				return nil
			}
			return a
		}
		if a[k] != "" && a[k] != "v" && e.hit() {
			a[k] = "v"
			return a
		}
		if _, clash := a["k"]; c17Reserved[string(k)] && !clash && e.hit() {
			a["k"] = a[k]
			delete(a, k)
			return a
		}
	}
	return a
}

func (e *c17editor) typ(t ast.IsType, ctx bool) ast.IsType {
	if t == nil {
		return nil
	}
	switch tt := t.(type) {
	case ast.LongType:
		return t
	case ast.RecordType:
		if len(tt) == 0 {
			if !ctx && e.hit() {
				return ast.Long()
			}
			return t
		}
		if e.hit() {
			if ctx {
				return ast.RecordType{}
			}
			return ast.Long()
		}
		return e.rec(tt)
	case ast.SetType:
		if !ctx && e.hit() {
			return ast.Long()
		}
		if !ctx && e.hit() {
			return tt.Element
		}
		return ast.SetType{Element: e.typ(tt.Element, false)}
	default:
		if e.hit() {
			if ctx {
				return ast.RecordType{}
			}
			return ast.Long()
		}
		return t
	}
}

func (e *c17editor) rec(r ast.RecordType) ast.RecordType {
	for i, k := range c17Keys(r) {
		if e.hit() {
			delete(r, k)
			return r
		}
		a := r[k]
		if !c17IsIdent(string(k)) {
			nk := types.String(fmt.Sprintf("x%d", i))
			if _, clash := r[nk]; !clash && e.hit() {
				delete(r, k)
				r[nk] = a
				return r
			}
		}
		if a.Optional && e.hit() {
			a.Optional = false
			r[k] = a
			return r
		}
		a.Annotations = e.ann(a.Annotations)
		a.Type = e.typ(a.Type, false)
		r[k] = a
		if e.done {
			return r
		}
	}
	return r
}

func (e *c17editor) refs(s *ast.Schema, x []ast.EntityTypeRef, mayEmpty bool) []ast.EntityTypeRef {
	for i := range x {
		if (mayEmpty || len(x) > 1) && e.hit() {
			out := append(append([]ast.EntityTypeRef{}, x[:i]...), x[i+1:]...)
			if len(out) == 0 {
				return nil
			}
			return out
		}
		if x[i] != "Zz0" && e.hit() {
			e.addZz = true
			x[i] = "Zz0"
			return x
		}
	}
	return x
}

func c17ApplyEdit(s *ast.Schema, k int) bool {
	e := &c17editor{k: k}
	ok := c17ApplyEdit0(s, e)
	if e.addZz {
		if s.Entities == nil {
			s.Entities = ast.Entities{}
		}
		if _, have := s.Entities["Zz0"]; !have {
			s.Entities["Zz0"] = ast.Entity{}
		}
	}
	return ok
}

func c17ApplyEdit0(s *ast.Schema, e *c17editor) bool {
	for _, nsName := range c17NSNames(s) {
		if nsName != "" && e.hit() {
			delete(s.Namespaces, types.Path(nsName))
			if len(s.Namespaces) == 0 {
				s.Namespaces = nil
			}
			return true
		}
		if nsName != "" {
			// replace one keyword-like segment of the namespace name by a plain one
			segs := strings.Split(nsName, "::")
			for i, seg := range segs {
				if c17NsSegClass(seg) == "" {
					continue
				}
				if e.hit() {
					for j := 0; ; j++ {
						segs[i] = fmt.Sprintf("Qs%d", j)
						if _, clash := s.Namespaces[types.Path(strings.Join(segs, "::"))]; !clash {
							break
						}
					}
					c17RenameNS(s, nsName, strings.Join(segs, "::"))
					return true
				}
			}
		}
		n := c17GetNS(s, nsName)
		if nsName != "" {
			n.Annotations = e.ann(n.Annotations)
		}
		if c17RenameHostile(e, s, &n) || c17RenameHostileRef(e, s, nsName, &n) {
			c17SetNS(s, nsName, n)
			return true
		}
		for _, k := range c17Keys(n.CommonTypes) {
			if e.hit() {
				delete(n.CommonTypes, k)
				break
			}
			c := n.CommonTypes[k]
			c.Annotations = e.ann(c.Annotations)
			c.Type = e.typ(c.Type, false)
			n.CommonTypes[k] = c
			if e.done {
				break
			}
		}
		for _, k := range c17Keys(n.Entities) {
			if e.done {
				break
			}
			if !(nsName == "" && k == "Zz0") && e.hit() {
				delete(n.Entities, k)
				break
			}
			en := n.Entities[k]
			en.Annotations = e.ann(en.Annotations)
			en.ParentTypes = e.refs(s, en.ParentTypes, true)
			if en.Shape != nil && e.hit() {
				en.Shape = nil
			} else if en.Shape != nil {
				en.Shape = e.rec(en.Shape)
			}
			if en.Tags != nil && e.hit() {
				en.Tags = nil
			} else {
				en.Tags = e.typ(en.Tags, false)
			}
			n.Entities[k] = en
		}
		for _, k := range c17Keys(n.Enums) {
			if e.done {
				break
			}
			if e.hit() {
				delete(n.Enums, k)
				break
			}
			en := n.Enums[k]
			en.Annotations = e.ann(en.Annotations)
			if len(en.Values) == 0 && e.hit() {
				en.Values = []types.String{"v0"} // removes the hostile class "empty enum" when it is irrelevant
			}
			for i, v := range en.Values {
				if len(en.Values) > 1 && e.hit() {
					en.Values = append(append([]types.String{}, en.Values[:i]...), en.Values[i+1:]...)
					break
				}
				if !c17IsIdent(string(v)) && e.hit() {
					en.Values[i] = types.String(fmt.Sprintf("v%d", i))
					break
				}
			}
			n.Enums[k] = en
		}
		for _, k := range c17Keys(n.Actions) {
			if e.done {
				break
			}
			if e.hit() {
				delete(n.Actions, k)
				break
			}
			a := n.Actions[k]
			a.Annotations = e.ann(a.Annotations)
			for i := range a.Parents {
				if e.hit() {
					a.Parents = append(append([]ast.ParentRef{}, a.Parents[:i]...), a.Parents[i+1:]...)
					if len(a.Parents) == 0 {
						a.Parents = nil
					}
					break
				}
			}
			if a.AppliesTo != nil {
				if e.hit() {
					a.AppliesTo = nil
				} else {
					at := *a.AppliesTo
					if len(at.Principals) == 0 && e.hit() {
						at.Principals, e.addZz = []ast.EntityTypeRef{"Zz0"}, true
					}
					if len(at.Resources) == 0 && e.hit() {
						at.Resources, e.addZz = []ast.EntityTypeRef{"Zz0"}, true
					}
					at.Principals = e.refs(s, at.Principals, false)
					at.Resources = e.refs(s, at.Resources, false)
					if at.Context != nil && e.hit() {
						at.Context = nil
					} else {
						at.Context = e.typ(at.Context, true)
					}
					a.AppliesTo = &at
				}
			}
			n.Actions[k] = a
			// rename an action whose name needs quoting (updating every reference to it)
			if !e.done && !c17IsIdent(string(k)) && e.hit() {
				nk := types.String("act0")
				for i := 1; ; i++ {
					if _, clash := n.Actions[nk]; !clash {
						break
					}
					nk = types.String(fmt.Sprintf("act%d", i))
				}
				delete(n.Actions, k)
				n.Actions[nk] = a
				c17SetNS(s, nsName, n)
				c17RenameActionRefs(s, nsName, k, nk)
				return true
			}
		}
		c17SetNS(s, nsName, n)
		if e.done {
			return true
		}
	}
	return e.done
}

// c17RenameNS renames namespace old to fresh and rewrites every qualified
// reference old::<base> (entity/common references and action parent types) accordingly.
func c17RenameNS(s *ast.Schema, old, fresh string) {
	s.Namespaces[types.Path(fresh)] = s.Namespaces[types.Path(old)]
	delete(s.Namespaces, types.Path(old))
	c17MapRefs(s, func(_ string, x string) string {
		if rest, ok := strings.CutPrefix(x, old+"::"); ok && !strings.Contains(rest, "::") {
			return fresh + "::" + rest
		}
		return x
	})
}

// c17MapRefs rewrites every entity/common type reference and action parent type; f gets the
// namespace the reference occurs in and its spelling.
func c17MapRefs(s *ast.Schema, f func(fromNS, ref string) string) {
	for _, nsName := range c17NSNames(s) {
		re := func(x string) string { return f(nsName, x) }
		var typ func(t ast.IsType) ast.IsType
		typ = func(t ast.IsType) ast.IsType {
			switch t := t.(type) {
			case ast.EntityTypeRef:
				return ast.EntityTypeRef(re(string(t)))
			case ast.TypeRef:
				return ast.TypeRef(re(string(t)))
			case ast.SetType:
				return ast.SetType{Element: typ(t.Element)}
			case ast.RecordType:
				for k, a := range t {
					a.Type = typ(a.Type)
					t[k] = a
				}
				return t
			}
			return t
		}
		refs := func(x []ast.EntityTypeRef) {
			for i := range x {
				x[i] = ast.EntityTypeRef(re(string(x[i])))
			}
		}
		n := c17GetNS(s, nsName)
		for k, c := range n.CommonTypes {
			c.Type = typ(c.Type)
			n.CommonTypes[k] = c
		}
		for k, e := range n.Entities {
			refs(e.ParentTypes)
			if e.Shape != nil {
				typ(e.Shape)
			}
			if e.Tags != nil {
				e.Tags = typ(e.Tags)
			}
			n.Entities[k] = e
		}
		for k, a := range n.Actions {
			for i := range a.Parents {
				if a.Parents[i].Type != "" {
					a.Parents[i].Type = ast.EntityTypeRef(re(string(a.Parents[i].Type)))
				}
			}
			if a.AppliesTo != nil {
				refs(a.AppliesTo.Principals)
				refs(a.AppliesTo.Resources)
				if a.AppliesTo.Context != nil {
					a.AppliesTo.Context = typ(a.AppliesTo.Context)
				}
			}
			n.Actions[k] = a
		}
	}
}

// c17RenameHostileRef renames one *referenced* declaration whose name is a built-in type name or Set,
// rewriting the references to it (qualified ones, unqualified ones from its own namespace and, for a
// bare declaration, unqualified ones from everywhere: no namespaced declaration may shadow it).
func c17RenameHostileRef(e *c17editor, s *ast.Schema, nsName string, n *ast.Namespace) bool {
	var cands []types.Ident
	for _, k := range c17Keys(n.CommonTypes) {
		_, a := n.Entities[k]
		_, b := n.Enums[k]
		if c17HostileName(string(k)) && !a && !b {
			cands = append(cands, k)
		}
	}
	for _, k := range c17Keys(n.Entities) {
		if _, c := n.CommonTypes[k]; c17HostileName(string(k)) && !c {
			cands = append(cands, k)
		}
	}
	for _, k := range c17Keys(n.Enums) {
		if _, c := n.CommonTypes[k]; c17HostileName(string(k)) && !c {
			cands = append(cands, k)
		}
	}
	for _, k := range cands {
		if !e.hit() {
			continue
		}
		var fresh types.Ident
		for i := 0; ; i++ {
			fresh = types.Ident(fmt.Sprintf("Rr%d", i))
			_, a := n.Entities[fresh]
			_, b := n.Enums[fresh]
			_, c := n.CommonTypes[fresh]
			if !a && !b && !c && !c17Referenced(s, string(fresh)) {
				break
			}
		}
		if v, ok := n.CommonTypes[k]; ok {
			n.CommonTypes[fresh] = v
			delete(n.CommonTypes, k)
		}
		if v, ok := n.Entities[k]; ok {
			n.Entities[fresh] = v
			delete(n.Entities, k)
		}
		if v, ok := n.Enums[k]; ok {
			n.Enums[fresh] = v
			delete(n.Enums, k)
		}
		fqOld, fqNew := string(k), string(fresh)
		if nsName != "" {
			fqOld, fqNew = nsName+"::"+fqOld, nsName+"::"+fqNew
		}
		c17MapRefs(s, func(from, x string) string {
			switch {
			case strings.Contains(x, "::"):
				if x == fqOld {
					return fqNew
				}
			case x == string(k) && (from == nsName || nsName == ""):
				return string(fresh)
			}
			return x
		})
		return true
	}
	return false
}

// c17Dangling: some qualified reference in type position names nothing that is declared. Resolve
// does not notice that inside a common type nobody uses; the shrinker must not produce it.
func c17Dangling(s *ast.Schema) bool {
	declared := map[string]bool{}
	for _, nsName := range c17NSNames(s) {
		n := c17GetNS(s, nsName)
		q := func(b string) string {
			if nsName == "" {
				return b
			}
			return nsName + "::" + b
		}
		for k := range n.Entities {
			declared[q(string(k))] = true
		}
		for k := range n.Enums {
			declared[q(string(k))] = true
		}
		for k := range n.CommonTypes {
			declared[q(string(k))] = true
		}
	}
	bad := false
	var typ func(t ast.IsType)
	chk := func(x string) {
		if strings.Contains(x, "::") && !strings.HasPrefix(x, "__cedar::") && !declared[x] {
			bad = true
		}
	}
	typ = func(t ast.IsType) {
		switch t := t.(type) {
		case ast.EntityTypeRef:
			chk(string(t))
		case ast.TypeRef:
			chk(string(t))
		case ast.SetType:
			typ(t.Element)
		case ast.RecordType:
			for _, a := range t {
				typ(a.Type)
			}
		}
	}
	for _, nsName := range c17NSNames(s) {
		n := c17GetNS(s, nsName)
		for _, c := range n.CommonTypes {
			typ(c.Type)
		}
		for _, e := range n.Entities {
			if e.Shape != nil {
				typ(e.Shape)
			}
			typ(e.Tags)
		}
		for _, a := range n.Actions {
			if a.AppliesTo != nil {
				typ(a.AppliesTo.Context)
			}
		}
	}
	return bad
}

// c17HostileName: declaration names that are themselves an input class of interest.
func c17HostileName(x string) bool {
	return x == "Set" || c17contains(c17Prims, x) || c17contains(c17Exts, x)
}

// c17Referenced: some reference anywhere in the schema is spelled base or ...::base.
func c17Referenced(s *ast.Schema, base string) bool {
	found := false
	chk := func(x string) {
		if x == base || strings.HasSuffix(x, "::"+base) {
			found = true
		}
	}
	var typ func(t ast.IsType)
	typ = func(t ast.IsType) {
		switch t := t.(type) {
		case ast.EntityTypeRef:
			chk(string(t))
		case ast.TypeRef:
			chk(string(t))
		case ast.SetType:
			typ(t.Element)
		case ast.RecordType:
			for _, a := range t {
				typ(a.Type)
			}
		}
	}
	for _, nsName := range c17NSNames(s) {
		n := c17GetNS(s, nsName)
		for _, c := range n.CommonTypes {
			typ(c.Type)
		}
		for _, e := range n.Entities {
			for _, p := range e.ParentTypes {
				chk(string(p))
			}
			if e.Shape != nil {
				typ(e.Shape)
			}
			typ(e.Tags)
		}
		for _, a := range n.Actions {
			if a.AppliesTo != nil {
				for _, p := range a.AppliesTo.Principals {
					chk(string(p))
				}
				for _, p := range a.AppliesTo.Resources {
					chk(string(p))
				}
				typ(a.AppliesTo.Context)
			}
		}
	}
	return found
}

// c17RenameHostile renames one unreferenced declaration whose name is a built-in type name or Set.
func c17RenameHostile(e *c17editor, s *ast.Schema, n *ast.Namespace) bool {
	fresh := func() types.Ident {
		for i := 0; ; i++ {
			k := types.Ident(fmt.Sprintf("Rn%d", i))
			_, a := n.Entities[k]
			_, b := n.Enums[k]
			_, c := n.CommonTypes[k]
			if !a && !b && !c && !c17Referenced(s, string(k)) {
				return k
			}
		}
	}
	for _, k := range c17Keys(n.CommonTypes) {
		if c17HostileName(string(k)) && !c17Referenced(s, string(k)) && e.hit() {
			n.CommonTypes[fresh()] = n.CommonTypes[k]
			delete(n.CommonTypes, k)
			return true
		}
	}
	for _, k := range c17Keys(n.Entities) {
		if c17HostileName(string(k)) && !c17Referenced(s, string(k)) && e.hit() {
			n.Entities[fresh()] = n.Entities[k]
			delete(n.Entities, k)
			return true
		}
	}
	for _, k := range c17Keys(n.Enums) {
		if c17HostileName(string(k)) && !c17Referenced(s, string(k)) && e.hit() {
			n.Enums[fresh()] = n.Enums[k]
			delete(n.Enums, k)
			return true
		}
	}
	return false
}

// c17BuiltinCaptured: an AST built-in type (StringType, LongType, BoolType, ExtensionType) is used at a
// site from which a user declaration of the same name (the name the text printer writes) is visible.
func c17BuiltinCaptured(s *ast.Schema) bool {
	declared := func(ns, name string) bool {
		for _, nsName := range []string{ns, ""} {
			n := c17GetNS(s, nsName)
			k := types.Ident(name)
			_, a := n.Entities[k]
			_, b := n.Enums[k]
			_, c := n.CommonTypes[k]
			if a || b || c {
				return true
			}
		}
		return false
	}
	found := false
	var typ func(ns string, t ast.IsType)
	typ = func(ns string, t ast.IsType) {
		switch t := t.(type) {
		case ast.StringType:
			found = found || declared(ns, "String")
		case ast.LongType:
			found = found || declared(ns, "Long")
		case ast.BoolType:
			found = found || declared(ns, "Bool")
		case ast.ExtensionType:
			found = found || declared(ns, string(t))
		case ast.SetType:
			typ(ns, t.Element)
		case ast.RecordType:
			for _, a := range t {
				typ(ns, a.Type)
			}
		}
	}
	for _, nsName := range c17NSNames(s) {
		n := c17GetNS(s, nsName)
		for _, c := range n.CommonTypes {
			typ(nsName, c.Type)
		}
		for _, e := range n.Entities {
			if e.Shape != nil {
				typ(nsName, e.Shape)
			}
			typ(nsName, e.Tags)
		}
		for _, a := range n.Actions {
			if a.AppliesTo != nil {
				typ(nsName, a.AppliesTo.Context)
			}
		}
	}
	return found
}

func c17RenameActionRefs(s *ast.Schema, ns string, old, new types.String) {
	for _, nsName := range c17NSNames(s) {
		n := c17GetNS(s, nsName)
		for k, a := range n.Actions {
			for i, p := range a.Parents {
				if p.ID != old {
					continue
				}
				if (p.Type == "" && nsName == ns) || string(p.Type) == c17ActionType(ns) {
					a.Parents[i].ID = new
				}
			}
			n.Actions[k] = a
		}
	}
}

// c17Shrink greedily minimises s while keep(candidate) stays true.
func c17Shrink(s *ast.Schema, keep func(*ast.Schema) bool, budget int) *ast.Schema {
	cur := c17Clone(s)
	for changed := true; changed && budget > 0; {
		changed = false
		for k := 0; budget > 0; {
			cand := c17Clone(cur)
			if !c17ApplyEdit(cand, k) {
				break
			}
			budget--
			if keep(cand) {
				cur = cand // retry the same position on the smaller schema
				changed = true
				continue
			}
			k++
		}
	}
	return cur
}

// ---------------------------------------------------------------------------------------
// independent printer for the Cedar schema text format (grammar of the Cedar schema docs),
// with layout and spelling variation. It never prints a built-in type without the __cedar::
// prefix unless asked to, always keeps `principal` and `resource` when it prints appliesTo,
// and omits appliesTo when the action can never apply.

// The spelling choices are drawn once per document (so that they survive shrinking of the
// schema); only orderings and the placement of white space are drawn while printing.
type c17printer struct {
	r                                                                                                          *mon.Rand
	b                                                                                                          strings.Builder
	style                                                                                                      int // string escaping style
	crlf, comments, hexEsc, quoteNames, annoParens, trailComma, bracketOne, emptyIn, eqShape, group, bareFirst bool
}

func (p *c17printer) ws() {
	switch k := p.r.Intn(12); {
	case k == 0:
		p.b.WriteString("  ")
	case k == 1:
		p.b.WriteString("\n\t")
	case k == 2 && p.comments:
		p.b.WriteString(" // c \"x\" { ;\n")
	case k <= 4 && p.crlf:
		p.b.WriteString("\r\n")
	default:
		p.b.WriteString(" ")
	}
}

func (p *c17printer) tok(s string) {
	p.b.WriteString(s)
	p.ws()
}

func (p *c17printer) quote(s string) string {
	var b strings.Builder
	b.WriteByte('"')
	style := p.style
	for _, r := range s {
		switch {
		case r == '"':
			b.WriteString(`\"`)
		case r == '\\':
			b.WriteString(`\\`)
		case r == '\n' && style != 2:
			b.WriteString(`\n`)
		case r == '\t' && style != 2:
			b.WriteString(`\t`)
		case r == '\r' && style != 2:
			b.WriteString(`\r`)
		case r == 0 && style == 0:
			b.WriteString(`\0`)
		case r == '\'' && style == 1:
			b.WriteString(`\'`)
		case r < 0x20 || r == 0x7f:
			fmt.Fprintf(&b, `\u{%X}`, r)
		case r < 0x7f:
			if p.hexEsc && (r == 'a' || r == '0' || r == ' ') {
				fmt.Fprintf(&b, `\x%02x`, r)
			} else {
				b.WriteRune(r)
			}
		default:
			if style == 0 {
				b.WriteRune(r) // raw UTF-8
			} else {
				fmt.Fprintf(&b, `\u{%06x}`, r)
			}
		}
	}
	b.WriteByte('"')
	return b.String()
}

func (p *c17printer) name(s string) {
	if c17IsIdent(s) && !p.quoteNames {
		p.tok(s)
		return
	}
	p.tok(p.quote(s))
}

func (p *c17printer) path(s string) {
	parts := strings.Split(s, "::")
	for i, x := range parts {
		if i > 0 {
			p.tok("::")
		}
		p.tok(x)
	}
}

func (p *c17printer) annos(a ast.Annotations) {
	for _, k := range c17Keys(a) {
		p.b.WriteString("@")
		if a[k] == "" && !p.annoParens {
			p.tok(string(k))
			continue
		}
		p.tok(string(k))
		p.tok("(")
		p.tok(p.quote(string(a[k])))
		p.tok(")")
	}
}

func (p *c17printer) typ(t ast.IsType) {
	switch t := t.(type) {
	case ast.StringType:
		p.path("__cedar::String")
	case ast.LongType:
		p.path("__cedar::Long")
	case ast.BoolType:
		p.path("__cedar::Bool")
	case ast.ExtensionType:
		p.path("__cedar::" + string(t))
	case ast.EntityTypeRef:
		p.path(string(t))
	case ast.TypeRef:
		p.path(string(t))
	case ast.SetType:
		p.tok("Set")
		p.tok("<")
		p.typ(t.Element)
		p.tok(">")
	case ast.RecordType:
		p.rec(t)
	}
}

func (p *c17printer) rec(r ast.RecordType) {
	p.tok("{")
	keys := c17Keys(r)
	perm := p.r.Perm(len(keys))
	for i, j := range perm {
		k := keys[j]
		a := r[k]
		p.annos(a.Annotations)
		p.name(string(k))
		if a.Optional {
			p.tok("?")
		}
		p.tok(":")
		p.typ(a.Type)
		if i < len(keys)-1 || p.trailComma {
			p.tok(",")
		}
	}
	p.tok("}")
}

func (p *c17printer) entRefs(x []ast.EntityTypeRef) {
	if len(x) == 1 && !p.bracketOne {
		p.path(string(x[0]))
		return
	}
	p.tok("[")
	for i, e := range x {
		if i > 0 {
			p.tok(",")
		}
		p.path(string(e))
	}
	p.tok("]")
}

func (p *c17printer) decls(n ast.Namespace) {
	type item struct {
		kind string
		key  string
	}
	var items []item
	for _, k := range c17Keys(n.CommonTypes) {
		items = append(items, item{"type", string(k)})
	}
	for _, k := range c17Keys(n.Entities) {
		items = append(items, item{"entity", string(k)})
	}
	for _, k := range c17Keys(n.Enums) {
		items = append(items, item{"enum", string(k)})
	}
	for _, k := range c17Keys(n.Actions) {
		items = append(items, item{"action", string(k)})
	}
	done := map[item]bool{}
	for _, j := range p.r.Perm(len(items)) {
		it := items[j]
		if done[it] {
			continue
		}
		done[it] = true
		switch it.kind {
		case "type":
			c := n.CommonTypes[types.Ident(it.key)]
			p.annos(c.Annotations)
			p.tok("type")
			p.tok(it.key)
			p.tok("=")
			p.typ(c.Type)
			p.tok(";")
		case "entity":
			e := n.Entities[types.Ident(it.key)]
			p.annos(e.Annotations)
			p.tok("entity")
			p.tok(it.key)
			// group other entities with an identical definition into the same declaration
			me := fmt.Sprint(c17DumpNS(ast.Namespace{Entities: ast.Entities{"x": e}}, false))
			for _, o := range items {
				if o.kind == "entity" && !done[o] && p.group &&
					fmt.Sprint(c17DumpNS(ast.Namespace{Entities: ast.Entities{"x": n.Entities[types.Ident(o.key)]}}, false)) == me {
					done[o] = true
					p.tok(",")
					p.tok(o.key)
				}
			}
			if len(e.ParentTypes) > 0 || (e.ParentTypes != nil && p.emptyIn) {
				p.tok("in")
				p.entRefs(e.ParentTypes)
			}
			if e.Shape != nil {
				if p.eqShape {
					p.tok("=")
				}
				p.rec(e.Shape)
			}
			if e.Tags != nil {
				p.tok("tags")
				p.typ(e.Tags)
			}
			p.tok(";")
		case "enum":
			e := n.Enums[types.Ident(it.key)]
			p.annos(e.Annotations)
			p.tok("entity")
			p.tok(it.key)
			me := fmt.Sprint(c17DumpNS(ast.Namespace{Enums: ast.Enums{"x": e}}, false))
			for _, o := range items {
				if o.kind == "enum" && !done[o] && p.group &&
					fmt.Sprint(c17DumpNS(ast.Namespace{Enums: ast.Enums{"x": n.Enums[types.Ident(o.key)]}}, false)) == me {
					done[o] = true
					p.tok(",")
					p.tok(o.key)
				}
			}
			p.tok("enum")
			p.tok("[")
			for i, v := range e.Values {
				if i > 0 {
					p.tok(",")
				}
				p.tok(p.quote(string(v)))
			}
			p.tok("]")
			p.tok(";")
		case "action":
			a := n.Actions[types.String(it.key)]
			p.annos(a.Annotations)
			p.tok("action")
			p.name(it.key)
			me := fmt.Sprint(c17DumpNS(ast.Namespace{Actions: ast.Actions{"x": a}}, false))
			for _, o := range items {
				if o.kind == "action" && !done[o] && p.group &&
					fmt.Sprint(c17DumpNS(ast.Namespace{Actions: ast.Actions{"x": n.Actions[types.String(o.key)]}}, false)) == me {
					done[o] = true
					p.tok(",")
					p.name(o.key)
				}
			}
			if len(a.Parents) > 0 {
				p.tok("in")
				br := len(a.Parents) != 1 || p.bracketOne
				if br {
					p.tok("[")
				}
				for i, pr := range a.Parents {
					if i > 0 {
						p.tok(",")
					}
					if pr.Type == "" {
						p.name(string(pr.ID))
					} else {
						p.path(string(pr.Type))
						p.tok("::")
						p.tok(p.quote(string(pr.ID)))
					}
				}
				if br {
					p.tok("]")
				}
			}
			if at := a.AppliesTo; at != nil && len(at.Principals) > 0 && len(at.Resources) > 0 {
				p.tok("appliesTo")
				p.tok("{")
				parts := []string{"principal", "resource"}
				if at.Context != nil {
					parts = append(parts, "context")
				}
				perm := p.r.Perm(len(parts))
				for i, j := range perm {
					p.tok(parts[j])
					p.tok(":")
					switch parts[j] {
					case "principal":
						p.entRefs(at.Principals)
					case "resource":
						p.entRefs(at.Resources)
					default:
						p.typ(at.Context)
					}
					if i < len(parts)-1 || p.trailComma {
						p.tok(",")
					}
				}
				p.tok("}")
			}
			p.tok(";")
		}
	}
}

// c17Print renders s in the Cedar schema text format with random (seeded) layout.
func c17Print(s *ast.Schema, r *mon.Rand) string {
	p := &c17printer{r: r}
	p.style = r.Intn(3)
	for _, f := range []*bool{&p.crlf, &p.comments, &p.hexEsc, &p.quoteNames, &p.annoParens, &p.trailComma, &p.bracketOne, &p.emptyIn, &p.eqShape, &p.group, &p.bareFirst} {
		*f = r.P(0.4)
	}
	p.ws()
	names := c17NSNames(s)
	// bare declarations may come before, between or after namespaces; print them first or last
	bareFirst := p.bareFirst
	if bareFirst {
		p.decls(c17GetNS(s, ""))
	}
	for _, j := range r.Perm(len(names) - 1) {
		name := names[1+j]
		n := c17GetNS(s, name)
		p.annos(n.Annotations)
		p.tok("namespace")
		p.path(name)
		p.tok("{")
		p.decls(n)
		p.tok("}")
	}
	if !bareFirst {
		p.decls(c17GetNS(s, ""))
	}
	return p.b.String()
}
