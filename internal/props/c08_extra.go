package props

import (
	"bytes"
	"fmt"
	"sort"
	"strings"

	cedar "github.com/cedar-policy/cedar-go"

	"verif/internal/bridge"
	"verif/internal/gen"
	"verif/internal/model"
	"verif/internal/mon"
	"verif/internal/render"
)

// c08pairs: every two-level nesting outer(inner(value, ...), ...). The depth-1 directed stream
// puts values under every parent; renderings that depend on the *grandchild* (a unary minus
// over a member access whose receiver is an integer literal, `-1["a b"]`; a negative literal
// that is the receiver of a method under an arithmetic parent ...) only appear at depth 2.
func c08pairs(c *mon.Ctx) {
	ctors := c07ctors()
	// the extra access forms: attribute names that must be written with index syntax
	ctors = append(ctors,
		c07ctor{"[\"two words\"]", 1, func(a []*model.Expr) *model.Expr { return model.Access(a[0], "two words") }},
		c07ctor{"[\"\"]", 1, func(a []*model.Expr) *model.Expr { return model.Access(a[0], "") }},
		c07ctor{"[\"é\"]", 1, func(a []*model.Expr) *model.Expr { return model.Access(a[0], "é") }},
		c07ctor{"neg-neg", 1, func(a []*model.Expr) *model.Expr { return model.Un(model.ONeg, model.Un(model.ONeg, a[0])) }},
		c07ctor{"not-neg", 1, func(a []*model.Expr) *model.Expr { return model.Un(model.ONot, model.Un(model.ONeg, a[0])) }},
	)
	vals := []model.Val{model.Long(1), model.Long(0), model.Long(-1), model.Long(-9223372036854775808), model.Str("s"), model.Rec("two words", model.Long(-3)), model.Set(model.Long(-1))}
	type pcase struct{ outer, pos, inner, val int }
	var cs []pcase
	for oi, o := range ctors {
		for pos := 0; pos < o.arity; pos++ {
			for ii := range ctors {
				for vi := range vals {
					cs = append(cs, pcase{oi, pos, ii, vi})
				}
			}
		}
	}
	c.ParFor("directed-pairs", len(cs), func(w *mon.W, i int) {
		d := cs[i]
		o, in := ctors[d.outer], ctors[d.inner]
		iargs := make([]*model.Expr, in.arity)
		for k := range iargs {
			iargs[k] = model.Lit(vals[(d.val+k)%len(vals)])
		}
		oargs := make([]*model.Expr, o.arity)
		for k := range oargs {
			oargs[k] = model.Lit(vals[(d.val+1+k)%len(vals)])
		}
		oargs[d.pos] = in.mk(iargs)
		mp := &model.Policy{Permit: true, Conds: []model.Cond{{When: true, Body: o.mk(oargs)}}}
		w.Count("directed pair " + o.name + " over " + in.name)
		if c08roundtrip(w, w.Rand(), bridge.ToPolicy(mp), mp, "programmatic") {
			w.NonTrivial(render.CanonPolicy(mp))
		}
	})
}

// c08retryWriter accepts every write except the calls listed, which it refuses whole.
type c08retryWriter struct {
	calls  int
	failAt map[int]bool
	out    bytes.Buffer
}

func (f *c08retryWriter) Write(b []byte) (int, error) {
	f.calls++
	if f.failAt[f.calls-1] {
		return 0, fmt.Errorf("injected write failure")
	}
	return f.out.Write(b)
}

// c08encoderRetry: a list of policies is written through ONE cedar.Encoder to a writer that
// refuses some calls; the caller retries the refused policy. What the writer accepted is the
// rendering of the list: it parses back to the same policies in the same order.
func c08encoderRetry(c *mon.Ctx) {
	c.ParFor("encoder-retry", c.N(1500, 20000), func(w *mon.W, i int) {
		r := w.Rand()
		n := 1 + r.Intn(5)
		var pols []*cedar.Policy
		var texts []string
		for j := 0; j < n; j++ {
			mp := gen.RandPolicy(r, gen.ExprCfg{PIll: 0.05, SafeDT: true, WellFormedExt: true}, 2)
			sanitizePolicy(mp)
			cp := NewPolicy(bridge.ToPolicy(mp))
			pols, texts = append(pols, cp), append(texts, string(cp.MarshalCedar()))
		}
		fw := &c08retryWriter{failAt: map[int]bool{}}
		for k := 0; k < 1+r.Intn(2); k++ {
			fw.failAt[r.Intn(n+2)] = true
		}
		enc := cedar.NewEncoder(fw)
		refused := 0
		for _, p := range pols {
			for attempt := 0; attempt < 4; attempt++ {
				if err := enc.Encode(p); err == nil {
					break
				}
				refused++
			}
		}
		w.Evals(1)
		w.Count(fmt.Sprintf("encoder stream with %d refused writes", min(refused, 2)))
		wit := map[string]any{"policies": texts, "stream": fw.out.String(), "refused_writes": refused}
		dec := cedar.NewDecoder(bytes.NewReader(fw.out.Bytes()))
		for j := 0; ; j++ {
			var p cedar.Policy
			if err := dec.Decode(&p); err != nil {
				if j != n {
					w.Violation("Encoder->Decoder stream yields a different number of policies [after refused writes]", fmt.Sprintf("%d policies encoded (each retried until accepted), %d decoded before %v", n, j, err), wit)
				}
				break
			}
			if j >= n || string(p.MarshalCedar()) != texts[j] {
				w.Violation("Encoder->Decoder round trip changes a policy or the order [after refused writes]", fmt.Sprintf("policy %d differs after the stream round trip", j), wit)
				break
			}
		}
		if refused > 0 {
			w.NonTrivial(fw.out.String())
		}
	})
}

// c08long: renderings longer than the tokenizer's read buffer, with multi-byte characters at
// every alignment relative to the buffer boundaries. A token that straddles a refill is
// assembled from two pieces; with 1-, 2-, 3- and 4-byte characters and 0..4 bytes of ASCII
// padding in front, every boundary of the first 8 KiB falls inside a character for at least one
// padding. The string sits in each place a string can appear in policy text.
func c08long(c *mon.Ctx) {
	chars := []string{"a", "é", "€", "\U0001F600", "\\", "\"", "\n", "*", "\u0000", "a€"}
	lens := []int{300, 1100, 2500}
	places := []string{"string", "entity-id", "record-key", "annotation", "access", "has", "like", "scope-entity", "set-of-strings"}
	type lcase struct{ ch, ln, pad, place int }
	var cs []lcase
	for ci := range chars {
		for li := range lens {
			for pad := 0; pad < 5; pad++ {
				for pi := range places {
					cs = append(cs, lcase{ci, li, pad, pi})
				}
			}
		}
	}
	c.ParFor("long-renderings", len(cs), func(w *mon.W, i int) {
		d := cs[i]
		s := strings.Repeat("x", d.pad) + strings.Repeat(chars[d.ch], lens[d.ln])
		mp := &model.Policy{Permit: true}
		ctx := model.Var("context")
		var body *model.Expr
		switch places[d.place] {
		case "string":
			body = model.Bin(model.OEq, model.Access(ctx, "a"), model.Lit(model.Str(s)))
		case "entity-id":
			body = model.Bin(model.OEq, model.Var("principal"), model.Lit(model.Ent("U", s)))
		case "record-key":
			body = model.Bin(model.OEq, ctx, model.RecE([]string{s}, []*model.Expr{model.Lit(model.Long(1))}))
		case "annotation":
			mp.Annots = []model.Annot{{Key: "k", Val: s}}
			body = model.Lit(model.Bool(true))
		case "access":
			body = model.Bin(model.OEq, model.Access(ctx, s), model.Lit(model.Long(1)))
		case "has":
			body = model.Has(ctx, s)
		case "like":
			body = model.Like(model.Access(ctx, "a"), []model.PatElem{{Lit: s}, {Wild: true}})
		case "scope-entity":
			mp.P = model.Scope{Kind: model.ScEq, Ent: model.Ent("U", s)}
			body = model.Lit(model.Bool(true))
		default:
			body = model.Bin(model.OContains, model.Lit(model.Set(model.Str(s), model.Str("y"+s))), model.Access(ctx, "a"))
		}
		mp.Conds = []model.Cond{{When: true, Body: body}}
		w.Count("long rendering: " + places[d.place] + " of " + strClass(chars[d.ch]) + " characters")
		if c08roundtrip(w, w.Rand(), bridge.ToPolicy(mp), mp, "programmatic") {
			w.NonTrivial(places[d.place] + "/" + chars[d.ch] + "/" + string(rune('0'+d.pad)) + "/" + string(rune('0'+d.ln)))
		}
	})
}

// c08bulk: LARGE collections. One parser object reads a whole document, so anything it counts per
// policy (nesting budgets, token budgets, buffers) accumulates across the policies of a list; the
// other streams render and re-read one policy (or at most a handful) at a time. Here 1100..2600
// policies - each holding conditionals, parentheses, sets, records and calls - go through
// PolicyList.MarshalCedar, PolicySet.MarshalCedar and one Encoder stream, and the rendering must
// parse back to the same policies in the documented order; likewise ONE policy with that many
// when-clauses.
func c08bulk(c *mon.Ctx) {
	sizes := []int{1100, 1300, 2600}
	chans := []string{"PolicyList", "PolicySet", "Encoder->Decoder", "one policy, many clauses"}
	c.ParFor("bulk", len(sizes)*len(chans)*c.N(1, 4), func(w *mon.W, i int) {
		r := w.Rand()
		n, ch := sizes[i%len(sizes)], chans[(i/len(sizes))%len(chans)]
		mkBody := func(k int) *model.Expr {
			L := model.Lit
			leaf := model.Bin(model.OEq, model.Access(model.Var("context"), "n"), L(model.Long(int64(k))))
			switch r.Intn(6) {
			case 0:
				return model.If(leaf, L(model.Bool(true)), L(model.Bool(false)))
			case 1:
				return model.If(model.If(leaf, L(model.Bool(false)), L(model.Bool(true))), model.Bin(model.OContains, model.SetE(model.If(leaf, L(model.Long(1)), L(model.Long(2)))), L(model.Long(1))), leaf)
			case 2:
				return model.Bin(model.OAnd, model.Bin(model.OOr, leaf, L(model.Bool(false))), model.Un(model.ONot, model.Un(model.ONot, leaf)))
			case 3:
				return model.Bin(model.OEq, model.Access(model.RecE([]string{"k", "two words"}, []*model.Expr{model.If(leaf, L(model.Long(1)), L(model.Long(2))), L(model.Str("s"))}), "k"), L(model.Long(1)))
			case 4:
				return model.Bin(model.OLt, model.Bin(model.OMul, model.Bin(model.OAdd, L(model.Long(int64(k))), L(model.Long(-1))), L(model.Long(2))), model.Un(model.ONeg, L(model.Long(3))))
			}
			e := gen.RandPolicy(r, gen.ExprCfg{PIll: 0.05, SafeDT: true, WellFormedExt: true}, 2)
			sanitizePolicy(e)
			if len(e.Conds) > 0 {
				return e.Conds[0].Body
			}
			return leaf
		}
		w.Evals(n)
		w.Count("bulk via " + ch)
		w.NonTrivial(fmt.Sprintf("bulk/%s/%d/%d", ch, n, i))
		fail := func(sig, what string) {
			w.Violation(sig+" [large collection, "+ch+"]", what, map[string]any{"policies": n, "channel": ch})
		}
		if ch == "one policy, many clauses" {
			mp := &model.Policy{Permit: true}
			for k := 0; k < n; k++ {
				mp.Conds = append(mp.Conds, model.Cond{When: r.P(0.8), Body: mkBody(k)})
			}
			cp := NewPolicy(bridge.ToPolicy(mp))
			text := cp.MarshalCedar()
			var back cedar.Policy
			if err := back.UnmarshalCedar(text); err != nil {
				fail("MarshalCedar output does not parse", fmt.Sprintf("a policy with %d when/unless clauses renders to text that is rejected: %v", n, err))
				return
			}
			if !bytes.Equal(back.MarshalCedar(), text) {
				fail("second rendering differs", fmt.Sprintf("a policy with %d clauses re-renders differently", n))
			}
			return
		}
		pols := make([]*cedar.Policy, n)
		texts := make([]string, n)
		for k := range pols {
			mp := &model.Policy{Permit: r.Bool(), Conds: []model.Cond{{When: true, Body: mkBody(k)}}}
			pols[k] = NewPolicy(bridge.ToPolicy(mp))
			texts[k] = string(pols[k].MarshalCedar())
		}
		var back []*cedar.Policy
		want := texts
		switch ch {
		case "PolicyList":
			doc := cedar.PolicyList(pols).MarshalCedar()
			pl, err := cedar.NewPolicyListFromBytes("bulk.cedar", doc)
			if err != nil {
				fail("MarshalCedar output does not parse", fmt.Sprintf("PolicyList of %d policies renders to a document that is rejected: %v", n, err))
				return
			}
			back = pl
		case "PolicySet":
			ps := cedar.NewPolicySet()
			ids := make([]string, n)
			byID := map[string]string{}
			for k, p := range pols {
				ids[k] = fmt.Sprintf("id%d", k)
				ps.Add(cedar.PolicyID(ids[k]), p)
				byID[ids[k]] = texts[k]
			}
			sort.Strings(ids)
			want = make([]string, n)
			for k, id := range ids {
				want[k] = byID[id]
			}
			pl, err := cedar.NewPolicyListFromBytes("bulk.cedar", ps.MarshalCedar())
			if err != nil {
				fail("MarshalCedar output does not parse", fmt.Sprintf("PolicySet of %d policies renders to a document that is rejected: %v", n, err))
				return
			}
			back = pl
		default:
			var buf bytes.Buffer
			enc := cedar.NewEncoder(&buf)
			for _, p := range pols {
				if err := enc.Encode(p); err != nil {
					fail("Encoder fails", err.Error())
					return
				}
			}
			dec := cedar.NewDecoder(bytes.NewReader(buf.Bytes()))
			for {
				var p cedar.Policy
				if err := dec.Decode(&p); err != nil {
					if len(back) != n {
						fail("MarshalCedar output does not parse", fmt.Sprintf("Encoder stream of %d policies: decoding stops after %d with %v", n, len(back), err))
						return
					}
					break
				}
				back = append(back, &p)
				if len(back) > n {
					break
				}
			}
		}
		if len(back) != n {
			fail("round trip changes the number of policies", fmt.Sprintf("%d rendered, %d parsed back", n, len(back)))
			return
		}
		for k := range back {
			if got := string(back[k].MarshalCedar()); got != want[k] {
				fail("round trip changes a policy or the order", fmt.Sprintf("position %d: %q, want %q", k, clip(got, 200), clip(want[k], 200)))
				return
			}
		}
	})
}
