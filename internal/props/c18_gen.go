package props

// Generators and independent reference pieces of the C18 monitor: the harness's own
// offset/line/column counter, an independent reference lexer for Cedar policy text,
// exact-length padding (whitespace / comments / multi-byte text), the document assembler
// that aligns chosen elements with the scanner's buffer boundaries, byte-level mutations
// for the error path and the io.Reader schedules (chunking, zero-length reads, data with
// EOF, injected failures).

import (
	"bytes"
	"fmt"
	"io"
	"sort"
	"strings"
	"unicode/utf8"

	"verif/internal/gen"
	"verif/internal/model"
	"verif/internal/mon"
	"verif/internal/render"
)

// ---------------------------------------------------------------------------------------
// own position counter

// c18Pos is a source position as the property defines it: byte offset (from 0), line (from
// 1, advanced by LF only) and column (from 1, counted in characters since the last LF; CR
// is an ordinary character that occupies one column).
type c18Pos struct{ Off, Line, Col int }

func (p c18Pos) String() string {
	return fmt.Sprintf("offset=%d line=%d column=%d", p.Off, p.Line, p.Col)
}

// c18PosTable returns the position of every byte offset in [0,len(doc)] (offsets inside a
// multi-byte character get the position of that character). ok is false if doc is not UTF-8.
func c18PosTable(doc []byte) (tab []c18Pos, ok bool) {
	tab = make([]c18Pos, len(doc)+1)
	line, col := 1, 1
	ok = true
	for i := 0; i < len(doc); {
		r, w := utf8.DecodeRune(doc[i:])
		if r == utf8.RuneError && w == 1 {
			ok = false
		}
		for k := 0; k < w; k++ {
			tab[i+k] = c18Pos{i, line, col}
		}
		if r == '\n' {
			line++
			col = 1
		} else {
			col++
		}
		i += w
	}
	tab[len(doc)] = c18Pos{len(doc), line, col}
	return tab, ok
}

// ---------------------------------------------------------------------------------------
// independent reference lexer

const (
	c18TEOF = iota
	c18TIdent
	c18TInt
	c18TKeyword
	c18TString
	c18TOp
	c18TUnknown
)

var c18TypeNames = []string{"eof", "ident", "int", "keyword", "string", "operator", "unknown"}

func c18TypeName(t int) string {
	if t >= 0 && t < len(c18TypeNames) {
		return c18TypeNames[t]
	}
	return fmt.Sprintf("type%d", t)
}

type c18Tok struct {
	Type int
	Text string
	Pos  c18Pos
}

// c18Elem is a lexical element that can straddle a buffer boundary: [S,E) in bytes.
type c18Elem struct {
	Kind string
	S, E int
}

var c18Keywords = map[string]bool{"true": true, "false": true, "if": true, "then": true, "else": true, "in": true,
	"like": true, "has": true, "is": true, "__cedar": true}

func c18IsIdentByte(c byte, first bool) bool {
	return c == '_' || (c >= 'a' && c <= 'z') || (c >= 'A' && c <= 'Z') || (!first && c >= '0' && c <= '9')
}

// c18Lex tokenizes a lexically VALID Cedar document (grammar: whitespace = space, tab, CR,
// LF; `//` comments to end of line; `/* */` comments (cedar-go extension); identifiers,
// decimal integers, double-quoted strings with backslash escapes, the Cedar operators).
// ok is false as soon as anything else is met - the caller then does not use the result.
func c18Lex(doc []byte) (toks []c18Tok, elems []c18Elem, ok bool) {
	tab, utf8ok := c18PosTable(doc)
	if !utf8ok || bytes.IndexByte(doc, 0) >= 0 {
		return nil, nil, false
	}
	n := len(doc)
	for i := 0; i < n; {
		if w := c18RuneLen(doc[i:]); w > 1 {
			elems = append(elems, c18Elem{"multibyte", i, i + w})
			i += w
		} else {
			i++
		}
	}
	emit := func(t int, s, e int, kind string) {
		toks = append(toks, c18Tok{Type: t, Text: string(doc[s:e]), Pos: tab[s]})
		if e-s >= 2 {
			elems = append(elems, c18Elem{kind, s, e})
		}
	}
	i := 0
	for i < n {
		c := doc[i]
		switch {
		case c == ' ' || c == '\t' || c == '\n':
			i++
		case c == '\r':
			if i+1 < n && doc[i+1] == '\n' {
				elems = append(elems, c18Elem{"crlf", i, i + 2})
			}
			i++
		case c == '/':
			if i+1 >= n {
				return nil, nil, false
			}
			switch doc[i+1] {
			case '/':
				j := bytes.IndexByte(doc[i:], '\n')
				e := n
				if j >= 0 {
					e = i + j + 1
				}
				elems = append(elems, c18Elem{"comment-line", i, e})
				i = e
			case '*':
				j := bytes.Index(doc[i+2:], []byte("*/"))
				if j < 0 {
					return nil, nil, false
				}
				e := i + 2 + j + 2
				elems = append(elems, c18Elem{"comment-block", i, e})
				i = e
			default:
				return nil, nil, false
			}
		case c18IsIdentByte(c, true):
			j := i + 1
			for j < n && c18IsIdentByte(doc[j], false) {
				j++
			}
			if c18Keywords[string(doc[i:j])] {
				emit(c18TKeyword, i, j, "keyword")
			} else {
				emit(c18TIdent, i, j, "ident")
			}
			i = j
		case c >= '0' && c <= '9':
			j := i + 1
			for j < n && doc[j] >= '0' && doc[j] <= '9' {
				j++
			}
			emit(c18TInt, i, j, "int")
			i = j
		case c == '"':
			j := i + 1
			for {
				if j >= n || doc[j] == '\n' || doc[j] == 0 {
					return nil, nil, false
				}
				if doc[j] == '"' {
					j++
					break
				}
				if doc[j] == '\\' {
					k := j + 1
					if k >= n {
						return nil, nil, false
					}
					e := k + 1
					switch doc[k] {
					case 'n', 'r', 't', '\\', '0', '\'', '"', '*':
					case 'x':
						e = k + 3
						if e > n || !c18IsHex(doc[k+1]) || !c18IsHex(doc[k+2]) {
							return nil, nil, false
						}
					case 'u':
						if k+1 >= n || doc[k+1] != '{' {
							return nil, nil, false
						}
						e = k + 2
						d := 0
						for e < n && c18IsHex(doc[e]) {
							e++
							d++
						}
						if d < 1 || d > 6 || e >= n || doc[e] != '}' {
							return nil, nil, false
						}
						e++
					default:
						return nil, nil, false
					}
					elems = append(elems, c18Elem{"escape", j, e})
					j = e
					continue
				}
				j += c18RuneLen(doc[j:])
			}
			emit(c18TString, i, j, "string")
			i = j
		default:
			l := 0
			switch c {
			case '@', '.', ',', ';', '(', ')', '{', '}', '[', ']', '+', '-', '*':
				l = 1
			case ':':
				l = 1
				if i+1 < n && doc[i+1] == ':' {
					l = 2
				}
			case '!', '<', '>':
				l = 1
				if i+1 < n && doc[i+1] == '=' {
					l = 2
				}
			case '=', '|', '&':
				if i+1 < n && doc[i+1] == c {
					l = 2
				}
			}
			if l == 0 {
				return nil, nil, false
			}
			emit(c18TOp, i, i+l, "operator2")
			i += l
		}
	}
	toks = append(toks, c18Tok{Type: c18TEOF, Pos: tab[n]})
	return toks, elems, true
}

func c18IsHex(c byte) bool {
	return (c >= '0' && c <= '9') || (c >= 'a' && c <= 'f') || (c >= 'A' && c <= 'F')
}

func c18RuneLen(b []byte) int {
	_, w := utf8.DecodeRune(b)
	if w < 1 {
		return 1
	}
	return w
}

// c18Straddlers lists the kinds of elements crossing a multiple of `size` (element starts
// before the boundary and ends after it), as "kind@k".
func c18Straddlers(elems []c18Elem, docLen, size int) []string {
	var out []string
	for _, e := range elems {
		for b := (e.S/size + 1) * size; b < e.E && b < docLen; b += size {
			if e.S < b && b < e.E {
				out = append(out, e.Kind)
				break
			}
		}
	}
	return out
}

// ---------------------------------------------------------------------------------------
// exact-length padding

var c18TextRunes = []rune{'a', 'b', 'z', 'A', 'Q', '0', '7', ' ', ' ', ' ', '_', '-', '+', '*', '/', '@', ';', '(', ')', '{', '}', '"', '\'', '\\', ':', '=', '!', '<', '>', '|', '&', '#', '\t', '\r',
	'\u00e9', '\u00df', '\u0085', '\u00a0', '\u0301', '\u65e5', '\u672c', '\u2028', '\ufffd', '\ufeff', '\u200b', '\U0001F600', '\U0001D4B3', '\U0010FFFF'}

// c18Text returns exactly n bytes of valid UTF-8 text (no NUL). LF appears only if allowLF.
func c18Text(r *mon.Rand, n int, allowLF bool, asciiOnly bool) []byte {
	out := make([]byte, 0, n)
	for len(out) < n {
		rem := n - len(out)
		var ru rune
		if allowLF && r.P(0.05) {
			ru = '\n'
		} else {
			ru = mon.Pick(r, c18TextRunes)
		}
		if asciiOnly && ru >= 0x80 {
			ru = 'x'
		}
		if utf8.RuneLen(ru) > rem {
			ru = 'p'
		}
		out = utf8.AppendRune(out, ru)
	}
	return out
}

// c18Pad returns exactly n bytes of whitespace and comments. style: 0 mixed, 1 spaces only,
// 2 LF only, 3 one long block comment, 4 line comments.
func c18Pad(r *mon.Rand, n int, style int) []byte {
	out := make([]byte, 0, n)
	switch style {
	case 1:
		return bytes.Repeat([]byte{' '}, n)
	case 2:
		return bytes.Repeat([]byte{'\n'}, n)
	case 3:
		if n >= 4 {
			t := c18Text(r, n-4, true, false)
			t = bytes.ReplaceAll(t, []byte("*/"), []byte("*_"))
			out = append(out, "/*"...)
			out = append(out, t...)
			return append(out, "*/"...)
		}
		return bytes.Repeat([]byte{' '}, n)
	}
	for len(out) < n {
		rem := n - len(out)
		k := r.Intn(10)
		if style == 4 {
			k = 9
		}
		switch {
		case k <= 2 || rem < 3:
			if rem >= 2 && r.P(0.3) {
				out = append(out, '\r', '\n')
			} else {
				out = append(out, mon.Pick(r, []byte{' ', ' ', '\t', '\n', '\n', '\r'}))
			}
		case k <= 5 && rem >= 4:
			m := 4 + r.Intn(min(rem-3, 150))
			if r.P(0.08) {
				m = rem
			}
			t := c18Text(r, m-4, true, r.P(0.3))
			t = bytes.ReplaceAll(t, []byte("*/"), []byte("*_"))
			out = append(out, "/*"...)
			out = append(out, t...)
			out = append(out, "*/"...)
		default:
			m := 3 + r.Intn(min(rem-2, 120))
			if r.P(0.05) {
				m = rem
			}
			t := c18Text(r, m-3, false, r.P(0.3))
			out = append(out, "//"...)
			out = append(out, t...)
			if r.P(0.2) && len(t) > 0 && t[len(t)-1] < 0x80 {
				out[len(out)-1] = '\r' // CRLF-terminated line comment
			}
			out = append(out, '\n')
		}
	}
	return out
}

// ---------------------------------------------------------------------------------------
// policies

var c18AnnotKeys = []string{"id", "a", "note", "if", "permit", "in", "k_1", "__x", "advice", "true"}

func c18Scope(r *mon.Rand, action bool) model.Scope {
	if r.P(0.5) {
		return model.Scope{Kind: model.ScAll}
	}
	uid := func() model.Val {
		if action {
			return model.Ent("Action", mon.Pick(r, []string{"a", "b", "view", "x y", "q\"t"}))
		}
		return gen.RandUID(r)
	}
	if action {
		switch r.Intn(3) {
		case 0:
			return model.Scope{Kind: model.ScEq, Ent: uid()}
		case 1:
			return model.Scope{Kind: model.ScIn, Ent: uid()}
		}
		n := r.Intn(4)
		s := model.Scope{Kind: model.ScInSet}
		for i := 0; i < n; i++ {
			s.Ents = append(s.Ents, uid())
		}
		return s
	}
	switch r.Intn(4) {
	case 0:
		return model.Scope{Kind: model.ScEq, Ent: uid()}
	case 1:
		return model.Scope{Kind: model.ScIn, Ent: uid()}
	case 2:
		return model.Scope{Kind: model.ScIs, Type: mon.Pick(r, gen.EntityTypes)}
	}
	return model.Scope{Kind: model.ScIsIn, Type: mon.Pick(r, gen.EntityTypes), Ent: uid()}
}

func c18ModelPolicy(r *mon.Rand, depth int) *model.Policy {
	p := &model.Policy{Permit: r.P(0.6)}
	na := r.Intn(3)
	seen := map[string]bool{}
	for i := 0; i < na; i++ {
		k := mon.Pick(r, c18AnnotKeys)
		if seen[k] {
			continue
		}
		seen[k] = true
		p.Annots = append(p.Annots, model.Annot{Key: k, Val: gen.RandString(r)})
	}
	switch {
	case r.P(0.3):
		// satisfied on every request (so that Authorize diagnostics mention it)
		if r.Bool() {
			p.Conds = []model.Cond{{When: true, Body: model.Lit(model.Bool(true))}}
		}
		return p
	case r.P(0.1):
		// fails on every request of the harness (attribute that no context has)
		p.Conds = []model.Cond{{When: r.Bool(), Body: model.Access(model.Var("context"), "no_such_attr_zz")}}
		return p
	}
	p.P, p.A, p.R = c18Scope(r, false), c18Scope(r, true), c18Scope(r, false)
	g := &gen.G{R: r, Cfg: gen.ExprCfg{PIll: 0.03}}
	nc := r.Intn(3)
	for i := 0; i < nc; i++ {
		p.Conds = append(p.Conds, model.Cond{When: r.Bool(), Body: g.Expr(r.Intn(depth+1), model.KBool)})
	}
	return p
}

// c18RawString renders a string literal that keeps non-ASCII characters raw (multi-byte in
// the source) and mixes in every escape form a plain Cedar string accepts.
func c18RawString(r *mon.Rand, approxBytes int) string {
	var b strings.Builder
	b.WriteByte('"')
	pool := []string{"a", "b", "Z", " ", "0", "-", "_", "*", "/", "//", "/*", "*/", "'", ";", "@", "\t",
		"\u00e9", "\u00df", "\u00a0", "\u0301", "\u65e5\u672c", "\u2028", "\u0085", "\U0001F600", "\U0001D4B3", "\U0010FFFF", "\ufeff",
		`\n`, `\r`, `\t`, `\\`, `\0`, `\'`, `\"`, `\x41`, `\x7f`, `\x00`, `\u{e9}`, `\u{1F600}`, `\u{0}`, `\u{10FFFF}`, `\u{00000a}`}
	for b.Len() < approxBytes {
		b.WriteString(mon.Pick(r, pool))
	}
	b.WriteByte('"')
	return b.String()
}

func c18Sep(r *mon.Rand) string {
	return mon.Pick(r, []string{" ", " ", "\n", "\r\n", "\t", "  ", " /* c */ ", "// \u00e9\n", "\r", " /*\u65e5*/"})
}

// c18PolicyText renders one policy: own raw-string / long-identifier annotations, the
// model policy through the independent printer (noise layout), own extra conditions with
// long integers / identifiers / strings. The text starts with the policy's first token and
// ends with ';'.
func c18PolicyText(r *mon.Rand, depth int, allowHuge bool) string {
	pol := c18ModelPolicy(r, depth)
	pr := &render.Printer{R: r, Noise: r.P(0.8), Sugar: true}
	if r.P(0.3) {
		pr.Mode = render.Full
	}
	body := pr.Policy(pol)
	var sb strings.Builder
	size := func() int {
		switch {
		case allowHuge && r.P(0.12):
			return 1000 + r.Intn(1200) // longer than the scanner's buffer
		case r.P(0.3):
			return 40 + r.Intn(200)
		}
		return r.Intn(24)
	}
	if r.P(0.35) {
		sb.WriteString("@z_raw")
		sb.WriteString(c18Sep(r))
		sb.WriteString("(")
		sb.WriteString(c18RawString(r, size()))
		sb.WriteString(")")
		sb.WriteString(c18Sep(r))
	}
	if r.P(0.15) {
		sb.WriteString("@z_" + strings.Repeat(mon.Pick(r, []string{"k", "K9", "_"}), 1+size()/2))
		sb.WriteString(`("")`)
		sb.WriteString(c18Sep(r))
	}
	sb.WriteString(strings.TrimSuffix(body, ";"))
	if r.P(0.2) {
		n := size()
		sb.WriteString(c18Sep(r) + "when" + c18Sep(r) + "{" + c18Sep(r) + strings.Repeat("0", n) + "42" + c18Sep(r) + "==" + c18Sep(r) + "42" + c18Sep(r) + "}")
	}
	if r.P(0.15) {
		sb.WriteString(c18Sep(r) + "when {" + c18Sep(r) + "true" + c18Sep(r) + "||" + c18Sep(r) + "context" + c18Sep(r) + "has" + c18Sep(r) + "f" + strings.Repeat("x1", size()/2) + c18Sep(r) + "}")
	}
	if r.P(0.2) {
		sb.WriteString(c18Sep(r) + "unless {" + c18Sep(r) + c18RawString(r, size()) + c18Sep(r) + "==" + c18Sep(r) + `""` + "}")
	}
	if r.P(0.5) {
		sb.WriteString(c18Sep(r))
	}
	sb.WriteString(";")
	return sb.String()
}

// ---------------------------------------------------------------------------------------
// documents

type c18Span struct{ S, E int }

type c18Doc struct {
	Bytes   []byte
	Pol     []c18Span // byte span of every policy; S is the offset of its first token
	Aligned []string  // what the assembler deliberately aligned with a boundary
}

func (d *c18Doc) addPad(b []byte) { d.Bytes = append(d.Bytes, b...) }
func (d *c18Doc) addPolicy(text string) {
	s := len(d.Bytes)
	d.Bytes = append(d.Bytes, text...)
	d.Pol = append(d.Pol, c18Span{s, len(d.Bytes)})
}

// c18BuildDoc assembles a random document of at most maxBytes (soft bound) in which, for
// most policies, an interior byte of a chosen element (token, escape, comment, multi-byte
// character, CRLF) or the policy's first byte is placed on offset 1024*k-1, 1024*k or
// 1024*k+1.
func c18BuildDoc(r *mon.Rand, maxBytes int, depth int) *c18Doc {
	d := &c18Doc{}
	np := r.Intn(7)
	if r.P(0.03) {
		np = 0
	}
	for p := 0; p < np; p++ {
		text := c18PolicyText(r, depth, maxBytes > 4096)
		pad := r.Intn(40)
		if r.P(0.1) {
			pad = 0
		}
		if r.P(0.7) {
			_, elems, ok := c18Lex([]byte(text))
			if ok {
				// pick a kind first so that rare kinds are aligned as often as common ones
				byKind := map[string][]c18Elem{}
				for _, e := range elems {
					byKind[e.Kind] = append(byKind[e.Kind], e)
				}
				kinds := sortedKeys(byKind)
				j, what := 0, "first-token"
				if len(kinds) > 0 && r.P(0.85) {
					k := mon.Pick(r, kinds)
					e := mon.Pick(r, byKind[k])
					j = e.S + 1 + r.Intn(e.E-e.S-1)
					what = k
				}
				delta := mon.Pick(r, []int{0, 0, 0, -1, 1})
				cur := len(d.Bytes)
				k := (cur+j-delta)/1024 + 1
				if cur+j-delta < 0 {
					k = 1
				}
				if r.P(0.15) {
					k += r.Intn(3)
				}
				start := 1024*k + delta - j
				for start < cur {
					start += 1024
				}
				if start+len(text) <= maxBytes {
					pad = start - cur
					d.Aligned = append(d.Aligned, what)
				}
			}
		}
		if len(d.Bytes)+pad+len(text) > maxBytes && p > 0 {
			break
		}
		d.addPad(c18Pad(r, pad, 0))
		d.addPolicy(text)
	}
	tail := r.Intn(60)
	if r.P(0.2) {
		tail = 0
	}
	d.addPad(c18Pad(r, tail, 0))
	if r.P(0.15) {
		d.addPad([]byte("// trailing comment without newline \u00e9"))
	}
	return d
}

// templates of the exhaustive alignment sweep: every token kind, escapes, comments, CR/LF
// mixes and 2-, 3- and 4-byte characters.
var c18Templates = [][]string{
	{
		`@id("p\u{1F600}\x41\"\\\n") permit ( principal == U::"a", action in [Action::"view",Action::"b"], resource is NS::T in G::"b" ) when { context.a >= 1 && principal has "x y" || !(resource.n != -42) } unless { "ab*c" like "a\*b*" };`,
		`forbid(principal,action,resource)when{[1,2].contains(0017)&&{"k":ip("10.0.0.1")}.k.isIpv4()};`,
	},
	{
		"@note(\"raw \u00e9\u00df \u65e5\u672c\u8a9e \U0001F600\U0001D4B3 end\")\r\n// comment \u00e9\u65e5\U0001F600 \r\n/* block \u2028 * / ** \r\n \U0010FFFF */permit(\r\n\tprincipal,\r action,\n resource)\r\nwhen { \"\u00e9\U0001F600\" == \"\\u{e9}\\u{1F600}\" };",
		"forbid /*\U0001F600\u65e5*/ ( principal , action , resource ) ; // \u00e9",
	},
	{
		"permit(principal,action,resource);",
		"forbid(principal,action,resource);",
		"@a(\"\")permit(principal,action,resource)when{true};",
	},
}

// c18SweepDoc builds pad(shift) + template policies (joined by sep) so that, over all
// shifts, every byte of the template lands on the boundary.
func c18SweepDoc(r *mon.Rand, tpl []string, shift, padStyle int) *c18Doc {
	d := &c18Doc{}
	d.addPad(c18Pad(r, shift, padStyle))
	for i, p := range tpl {
		if i > 0 {
			d.addPad([]byte(mon.Pick(r, []string{"", " ", "\n", "\r\n", "\r", "// c\n", "/* \u00e9 */"})))
		}
		d.addPolicy(p)
	}
	return d
}

var c18HandDocs = []string{
	"", " ", "\n", "\r", "\r\n", "\t \r\n\n", "//", "// only a comment", "// c\n", "/**/", "/* \u00e9\n */", "/***/ /*/*/",
	"permit(principal,action,resource);",
	"\npermit(principal,action,resource);",
	"\r\npermit(principal,action,resource);",
	"\rpermit(principal,action,resource);",
	"\n\rpermit(principal,action,resource);",
	"\r\rpermit(principal,action,resource);\rforbid(principal,action,resource);",
	"\u00e9", "/*\u00e9*/permit(principal,action,resource);/*\U0001F600*/forbid(principal,action,resource);",
	"permit(principal,action,resource);forbid(principal,action,resource);",
	"permit(principal,action,resource);//x\rforbid(principal,action,resource);",
	"permit(principal,action,resource);//x\r\nforbid(principal,action,resource);",
	"@a(\"x\ny\")permit(principal,action,resource);",
	"permit(principal,action,resource)", "permit(principal,action,resource); forbid", "@", "@a", "permit(", "\"", "\"\\", "/*", "/", "/ /", "=", "&", "|", "|&",
	"permit(principal,action,resource) when { 9223372036854775808 };",
	"permit(principal,action,resource) when { \"\\q\" };", "permit(principal,action,resource) when { \"\\u{}\" };", "permit(principal,action,resource) when { \"\\x4\" };",
	"permit(principal,action,resource) when { \"\\u{1234567}\" };", "permit(principal,action,resource) when { \"\\xff\" == \"\\u{d800}\" };",
	"\x00", "permit(principal,action,resource);\x00", "\xff", "permit\xc3(principal,action,resource);", "permit(principal,action,resource)\xe6\x97;", "\xf0\x9f\x98",
	"\ufeffpermit(principal,action,resource);", "permit(principal,action,resource);\u2028forbid(principal,action,resource);",
}

// ---------------------------------------------------------------------------------------
// mutations (error path)

// c18Mutate applies one byte-level mutation at (or near) offset p; returns the new document
// and a short class name.
func c18Mutate(r *mon.Rand, doc []byte) ([]byte, string, int) {
	n := len(doc)
	p := r.Intn(n + 1)
	if n > 1030 && r.P(0.5) {
		k := 1 + r.Intn(n/1024)
		p = 1024*k + r.Intn(5) - 2
		if p > n {
			p = n
		}
	}
	ins := func(b ...byte) []byte {
		out := make([]byte, 0, n+len(b))
		out = append(out, doc[:p]...)
		out = append(out, b...)
		return append(out, doc[p:]...)
	}
	switch r.Intn(12) {
	case 0:
		return append([]byte{}, doc[:p]...), "truncate", p
	case 1:
		if p < n {
			out := append([]byte{}, doc[:p]...)
			return append(out, doc[p+1:]...), "delete-byte", p
		}
		return append([]byte{}, doc[:p]...), "truncate", p
	case 2:
		return ins(0), "insert-NUL", p
	case 3:
		return ins(mon.Pick(r, []byte{0xff, 0xc3, 0x80, 0xf8, 0xed})), "insert-bad-utf8-byte", p
	case 4:
		return ins(mon.Pick(r, [][]byte{{0xe6, 0x97}, {0xf0, 0x9f, 0x98}, {0xc3}, {0xed, 0xa0, 0x80}})...), "insert-truncated-rune", p
	case 5:
		return ins('"'), "insert-quote", p
	case 6:
		return ins('\\'), "insert-backslash", p
	case 7:
		return ins('/', '*'), "insert-open-comment", p
	case 8:
		return ins(mon.Pick(r, []byte{'#', '=', '|', '&', '/', '~', '?', '`', '$', '%', '^', '\''})), "insert-stray-char", p
	case 9:
		return ins([]byte(mon.Pick(r, []string{"\u00e9", "\u65e5", "\U0001F600", "\ufffd"}))...), "insert-nonascii", p
	case 10:
		return ins('\n'), "insert-LF", p
	default:
		if p < n {
			out := append([]byte{}, doc...)
			out[p] = mon.Pick(r, []byte{' ', ';', '"', 'x', '0', '(', ')', '\n', '\\', '*', '/', 0, 0xff})
			return out, "replace-byte", p
		}
		return ins(';'), "append-semicolon", p
	}
}

// ---------------------------------------------------------------------------------------
// reader schedules

type c18InjectedError struct{ at int }

func (e c18InjectedError) Error() string { return fmt.Sprintf("verif-injected-read-failure@%d", e.at) }

// c18Reader delivers data under a schedule. It never returns more than len(p) bytes, may
// return (0,nil) a bounded number of times, may return the last bytes together with io.EOF,
// and may fail after failAt bytes, either as (0,err) or together with the last bytes.
type c18Reader struct {
	data         []byte
	pos          int
	size         func() int // wanted size of the next chunk (>=1)
	cuts         []int      // if non-nil: chunk ends are exactly these offsets
	zr           *mon.Rand  // zero-length reads
	zeroP        float64
	zeroLeft     int
	zeroRun      int
	eofWithData  bool
	failAt       int // <0: never fails
	failWithData bool
	failThenEOF  bool // after the failure has been returned once, later Reads return (0, io.EOF)
	failed       bool
	// statistics
	reads, zeroReads, dataEOF, dataErr, maxBuf int
}

func (r *c18Reader) Read(p []byte) (int, error) {
	r.reads++
	r.maxBuf = max(r.maxBuf, len(p))
	if len(p) == 0 {
		return 0, nil
	}
	if r.failed && r.failThenEOF {
		return 0, io.EOF
	}
	limit := len(r.data)
	if r.failAt >= 0 && r.failAt < limit {
		limit = r.failAt
	}
	if r.zr != nil && r.zeroLeft > 0 && r.zeroRun < 3 && r.zr.P(r.zeroP) {
		r.zeroLeft--
		r.zeroRun++
		r.zeroReads++
		return 0, nil
	}
	r.zeroRun = 0
	avail := limit - r.pos
	if avail <= 0 {
		if r.failAt >= 0 {
			r.failed = true
			return 0, c18InjectedError{r.failAt}
		}
		return 0, io.EOF
	}
	want := 1
	if r.cuts != nil {
		i := sort.SearchInts(r.cuts, r.pos+1)
		if i < len(r.cuts) {
			want = r.cuts[i] - r.pos
		} else {
			want = avail
		}
	} else if r.size != nil {
		want = r.size()
	}
	if want < 1 {
		want = 1
	}
	n := min(want, len(p), avail)
	copy(p, r.data[r.pos:r.pos+n])
	r.pos += n
	if r.pos == limit {
		if r.failAt >= 0 {
			if r.failWithData {
				r.dataErr++
				r.failed = true
				return n, c18InjectedError{r.failAt}
			}
		} else if r.eofWithData {
			r.dataEOF++
			return n, io.EOF
		}
	}
	return n, nil
}

// c18Sched describes a schedule; Make builds a fresh reader for a document (a pure function
// of the document and the seed).
type c18Sched struct {
	Name string
	Make func(doc []byte, seed uint64) *c18Reader
}

func c18Fixed(n int) func() int { return func() int { return n } }

func c18RandSize(r *mon.Rand, kind int) func() int {
	mixed := []int{1, 1, 2, 3, 4, 7, 8, 64, 100, 1000, 1023, 1024, 1025, 5000}
	return func() int {
		switch kind {
		case 0:
			return 1 + r.Intn(16)
		case 1:
			return mon.Pick(r, mixed)
		}
		return 1 + r.Intn(2000)
	}
}

// c18HostileCuts: chunk ends inside every multi-byte character (after its first byte and
// before its last), after every backslash, between CR and LF, inside "//", "/*", "*/", "::"
// and the two-character operators.
func c18HostileCuts(doc []byte) []int {
	set := map[int]bool{}
	for i := 0; i < len(doc); {
		w := c18RuneLen(doc[i:])
		if w > 1 {
			set[i+1] = true
			set[i+w-1] = true
		} else {
			c := doc[i]
			switch c {
			case '\\', '\r', '/', '*', ':', '=', '!', '<', '>', '|', '&', '"', '@':
				set[i+1] = true
			}
		}
		i += w
	}
	out := make([]int, 0, len(set))
	for k := range set {
		if k > 0 && k < len(doc) {
			out = append(out, k)
		}
	}
	sort.Ints(out)
	if out == nil {
		out = []int{}
	}
	return out
}

func c18Schedules(full bool) []c18Sched {
	var out []c18Sched
	add := func(name string, mk func(doc []byte, seed uint64) *c18Reader) {
		out = append(out, c18Sched{name, mk})
	}
	fixed := []int{1, 2, 3, 5, 7, 1023, 1024, 1025}
	for _, n := range fixed {
		n := n
		add(fmt.Sprintf("fixed-%d", n), func(doc []byte, seed uint64) *c18Reader {
			return &c18Reader{data: doc, size: c18Fixed(n), failAt: -1}
		})
	}
	for k, nm := range []string{"random-1..16", "random-mixed", "random-1..2000"} {
		k := k
		add(nm, func(doc []byte, seed uint64) *c18Reader {
			return &c18Reader{data: doc, size: c18RandSize(mon.NewRand(seed), k), failAt: -1}
		})
	}
	add("hostile-cuts", func(doc []byte, seed uint64) *c18Reader {
		return &c18Reader{data: doc, cuts: c18HostileCuts(doc), failAt: -1}
	})
	zero := func(name string, size func(r *mon.Rand) func() int, eof bool) {
		add(name, func(doc []byte, seed uint64) *c18Reader {
			r := mon.NewRand(seed)
			return &c18Reader{data: doc, size: size(r), zr: mon.NewRand(seed ^ 0x5a5a), zeroP: 0.4, zeroLeft: 64 + len(doc)/8, eofWithData: eof, failAt: -1}
		})
	}
	zero("zero-reads+fixed-1", func(*mon.Rand) func() int { return c18Fixed(1) }, false)
	zero("zero-reads+random-mixed", func(r *mon.Rand) func() int { return c18RandSize(r, 1) }, false)
	zero("zero-reads+fixed-1024", func(*mon.Rand) func() int { return c18Fixed(1024) }, false)
	eof := func(name string, size func(r *mon.Rand) func() int) {
		add(name, func(doc []byte, seed uint64) *c18Reader {
			return &c18Reader{data: doc, size: size(mon.NewRand(seed)), eofWithData: true, failAt: -1}
		})
	}
	eof("data+EOF fixed-1", func(*mon.Rand) func() int { return c18Fixed(1) })
	eof("data+EOF fixed-1024", func(*mon.Rand) func() int { return c18Fixed(1024) })
	eof("data+EOF random-1..16", func(r *mon.Rand) func() int { return c18RandSize(r, 0) })
	eof("data+EOF random-1..2000", func(r *mon.Rand) func() int { return c18RandSize(r, 2) })
	zero("zero-reads+data+EOF random-mixed", func(r *mon.Rand) func() int { return c18RandSize(r, 1) }, true)
	if !full {
		// reduced list for the exhaustive alignment sweep
		keep := map[string]bool{"fixed-1": true, "fixed-3": true, "fixed-7": true, "fixed-1023": true, "fixed-1024": true, "fixed-1025": true,
			"random-mixed": true, "hostile-cuts": true, "zero-reads+random-mixed": true, "data+EOF fixed-1024": true, "data+EOF random-1..16": true}
		var red []c18Sched
		for _, s := range out {
			if keep[s.Name] {
				red = append(red, s)
			}
		}
		return red
	}
	return out
}

// c18FailingReader delivers doc[:k] under chunking variant v and then fails.
func c18FailingReader(doc []byte, k int, withData, thenEOF bool, v int, seed uint64) *c18Reader {
	rd := &c18Reader{data: doc, failAt: k, failWithData: withData, failThenEOF: thenEOF}
	switch v % 5 {
	case 0:
		rd.size = c18Fixed(1024)
	case 1:
		rd.size = c18Fixed(1)
	case 2:
		rd.size = c18Fixed(7)
	case 3:
		rd.size = c18RandSize(mon.NewRand(seed), 1)
	default:
		rd.size = c18RandSize(mon.NewRand(seed), 0)
		rd.zr = mon.NewRand(seed ^ 0x77)
		rd.zeroP = 0.3
		rd.zeroLeft = 32
	}
	return rd
}
