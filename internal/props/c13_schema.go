package props

// C13, schema-guided part: x/exp/types.{EntityMap,Entity}.UnmarshalJSONWithSchema must decode
// the implicit spellings a schema disambiguates ({"type","id"} for entity-typed positions,
// bare strings for extension-typed positions) to the same entities as the fully explicit
// spelling, and must not change anything in positions the schema types as String / Record.

import (
	"fmt"
	"sort"
	"strings"

	"github.com/cedar-policy/cedar-go/types"
	"github.com/cedar-policy/cedar-go/x/exp/schema/resolved"
	exptypes "github.com/cedar-policy/cedar-go/x/exp/types"

	"verif/internal/bridge"
	"verif/internal/gen"
	"verif/internal/model"
	"verif/internal/mon"
)

type sKind int

const (
	sString sKind = iota
	sLong
	sBool
	sEntity
	sExt
	sSet
	sRecord
)

type sType struct {
	K      sKind
	Ent    string     // entity type name
	Ext    model.Kind // extension kind
	Elem   *sType
	Fields []sField
}

type sField struct {
	Name     string
	T        *sType
	Optional bool
}

var extSchemaName = map[model.Kind]string{model.KDecimal: "decimal", model.KIP: "ipaddr", model.KDatetime: "datetime", model.KDuration: "duration"}

func (t *sType) String() string {
	switch t.K {
	case sString:
		return "String"
	case sLong:
		return "Long"
	case sBool:
		return "Bool"
	case sEntity:
		return t.Ent
	case sExt:
		return extSchemaName[t.Ext]
	case sSet:
		return "Set<" + t.Elem.String() + ">"
	}
	fs := make([]string, len(t.Fields))
	for i, f := range t.Fields {
		opt := ""
		if f.Optional {
			opt = "?"
		}
		fs[i] = model.QuoteString(f.Name) + opt + ": " + f.T.String()
	}
	return "{" + strings.Join(fs, ", ") + "}"
}

// class is the bounded rendering used in signatures.
func (t *sType) class() string {
	switch t.K {
	case sEntity:
		return "entity"
	case sExt:
		return "ext:" + extSchemaName[t.Ext]
	case sSet:
		return "set<" + t.Elem.shallow() + ">"
	case sRecord:
		seen := map[string]bool{}
		for _, f := range t.Fields {
			seen[f.T.shallow()] = true
		}
		return "record{" + strings.Join(sortedKeys(seen), ",") + "}"
	}
	return t.String()
}

func (t *sType) shallow() string {
	switch t.K {
	case sSet:
		return "set"
	case sRecord:
		return "record"
	}
	return t.class()
}

func (t *sType) resolved() resolved.IsType {
	switch t.K {
	case sString:
		return resolved.StringType{}
	case sLong:
		return resolved.LongType{}
	case sBool:
		return resolved.BoolType{}
	case sEntity:
		return resolved.EntityType(t.Ent)
	case sExt:
		return resolved.ExtensionType(extSchemaName[t.Ext])
	case sSet:
		return resolved.SetType{Element: t.Elem.resolved()}
	}
	return t.resolvedRecord()
}

func (t *sType) resolvedRecord() resolved.RecordType {
	rt := resolved.RecordType{}
	for _, f := range t.Fields {
		rt[types.String(f.Name)] = resolved.Attribute{Type: f.T.resolved(), Optional: f.Optional}
	}
	return rt
}

type sEntityType struct {
	Name    string
	Parents []string
	Shape   *sType // record
	Tags    *sType // nil: no tags
}

type sSchema struct{ Ents []*sEntityType }

func (s *sSchema) resolved() *resolved.Schema {
	out := &resolved.Schema{Namespaces: map[types.Path]resolved.Namespace{}, Entities: map[types.EntityType]resolved.Entity{},
		Enums: map[types.EntityType]resolved.Enum{}, Actions: map[types.EntityUID]resolved.Action{}}
	for _, e := range s.Ents {
		re := resolved.Entity{Name: types.EntityType(e.Name), Shape: e.Shape.resolvedRecord()}
		for _, p := range e.Parents {
			re.ParentTypes = append(re.ParentTypes, types.EntityType(p))
		}
		if e.Tags != nil {
			re.Tags = e.Tags.resolved()
		}
		out.Entities[re.Name] = re
	}
	return out
}

func (s *sSchema) String() string {
	var parts []string
	for _, e := range s.Ents {
		p := "entity " + e.Name
		if len(e.Parents) > 0 {
			p += " in [" + strings.Join(e.Parents, ", ") + "]"
		}
		p += " " + e.Shape.String()
		if e.Tags != nil {
			p += " tags " + e.Tags.String()
		}
		parts = append(parts, p+";")
	}
	return strings.Join(parts, " ")
}

var c13SchemaTypes = []string{"U", "G", "NS::T", "A::B::C"}
var c13FieldNames = append(append([]string{}, gen.AttrNames...), "type", "id", "fn", "arg", "uid", "parents", "attrs", "tags")

// lookalikeSType: record types whose values spell like implicit entity / extension forms; the
// schema says Record, so the decoder must leave them records.
func lookalikeSType(r *mon.Rand) *sType {
	names := [2]string{"type", "id"}
	if r.Bool() {
		names = [2]string{"fn", "arg"}
	}
	t := &sType{K: sRecord, Fields: []sField{{Name: names[0], T: &sType{K: sString}}, {Name: names[1], T: &sType{K: sString}}}}
	if r.P(0.3) {
		t.Fields = append(t.Fields, sField{Name: "zz", T: &sType{K: sLong}, Optional: r.Bool()})
	}
	sort.Slice(t.Fields, func(i, j int) bool { return t.Fields[i].Name < t.Fields[j].Name })
	return t
}

func randSType(r *mon.Rand, depth int) *sType {
	if depth >= 0 && r.P(0.08) {
		return lookalikeSType(r)
	}
	n := 5
	if depth > 0 {
		n = 8
	}
	switch r.Intn(n) {
	case 0:
		return &sType{K: sString}
	case 1:
		return &sType{K: sLong}
	case 2:
		return &sType{K: sBool}
	case 3:
		return &sType{K: sEntity, Ent: mon.Pick(r, c13SchemaTypes)}
	case 4:
		return &sType{K: sExt, Ext: mon.Pick(r, []model.Kind{model.KDecimal, model.KIP, model.KDatetime, model.KDuration})}
	case 5, 6:
		return &sType{K: sSet, Elem: randSType(r, depth-1)}
	}
	return randSRecord(r, depth-1, 3)
}

func randSRecord(r *mon.Rand, depth, maxFields int) *sType {
	t := &sType{K: sRecord}
	seen := map[string]bool{}
	for n := r.Intn(maxFields + 1); n > 0; n-- {
		name := mon.Pick(r, c13FieldNames)
		if seen[name] {
			continue
		}
		seen[name] = true
		t.Fields = append(t.Fields, sField{Name: name, T: randSType(r, depth), Optional: r.P(0.3)})
	}
	sort.Slice(t.Fields, func(i, j int) bool { return t.Fields[i].Name < t.Fields[j].Name })
	return t
}

func randSSchema(r *mon.Rand) *sSchema {
	s := &sSchema{}
	names := append([]string{}, c13SchemaTypes...)
	for _, i := range r.Perm(len(names))[:1+r.Intn(3)] {
		e := &sEntityType{Name: names[i], Shape: randSRecord(r, 2, 4)}
		for _, p := range c13SchemaTypes {
			if r.P(0.4) {
				e.Parents = append(e.Parents, p)
			}
		}
		if r.P(0.6) {
			e.Tags = randSType(r, 1)
		}
		s.Ents = append(s.Ents, e)
	}
	sort.Slice(s.Ents, func(i, j int) bool { return s.Ents[i].Name < s.Ents[j].Name })
	return s
}

// conform draws a value of type t.
func conform(r *mon.Rand, t *sType) model.Val {
	switch t.K {
	case sString:
		return model.Str(c13String(r))
	case sLong:
		return model.Long(gen.RandLong(r))
	case sBool:
		return model.Bool(r.Bool())
	case sEntity:
		if r.P(0.7) {
			return model.Ent(t.Ent, mon.Pick(r, gen.EntityIDs))
		}
		return model.Ent(t.Ent, c13String(r))
	case sExt:
		v := gen.RandScalarOf(r, t.Ext)
		if v.K == model.KDatetime && v.I < dtLowBound {
			v.I = dtLowBound
		}
		if v.K == model.KIP && is4in6(v.IP) {
			v = model.IP(model.IPVal{V6: true, Lo: 1, Prefix: 128})
		}
		return v
	case sSet:
		xs := make([]model.Val, r.Intn(4))
		for i := range xs {
			xs[i] = conform(r, t.Elem)
		}
		return model.Set(xs...)
	}
	var ks []string
	var vs []model.Val
	for _, f := range t.Fields {
		if f.Optional && r.Bool() {
			continue
		}
		ks = append(ks, f.Name)
		vs = append(vs, conform(r, f.T))
	}
	return model.Record(ks, vs)
}

func conformEntity(r *mon.Rand, et *sEntityType) *model.Entity {
	e := &model.Entity{UID: model.Ent(et.Name, mon.Pick(r, gen.EntityIDs)), Attrs: conform(r, et.Shape), Tags: model.Rec()}
	if r.P(0.2) {
		e.UID.ID = c13String(r)
	}
	if len(et.Parents) > 0 {
		for n := r.Intn(4); n > 0; n-- {
			e.Parents = append(e.Parents, model.Ent(mon.Pick(r, et.Parents), mon.Pick(r, gen.EntityIDs)))
		}
		e.Parents = model.Set(e.Parents...).Elems
	}
	if et.Tags != nil {
		var ks []string
		var vs []model.Val
		for n := r.Intn(4); n > 0; n-- {
			ks = append(ks, c13Key(r))
			vs = append(vs, conform(r, et.Tags))
		}
		e.Tags = model.Record(ks, vs)
	}
	return e
}

// typed writes v according to t; mode 0 explicit everywhere, 1 implicit wherever the schema
// allows it, 2 random per node, 3 implicit with extension values as {"fn","arg"} objects.
func (w *jw) typed(v model.Val, t *sType, mode int) {
	implicit := mode == 1 || mode == 3 || (mode == 2 && w.r.Bool())
	switch t.K {
	case sEntity:
		w.entityRef(v, implicit)
	case sExt:
		switch {
		case !implicit:
			w.ext(v, 0)
		case mode == 3:
			w.ext(v, 1)
		default:
			w.ext(v, 2)
		}
	case sSet:
		w.tok("[")
		idx := w.order(len(v.Elems))
		if w.st.Dup && len(idx) > 0 {
			idx = append(idx, idx[w.r.Intn(len(idx))])
		}
		for k, i := range idx {
			if k > 0 {
				w.tok(",")
			}
			w.typed(v.Elems[i], t.Elem, mode)
		}
		w.tok("]")
	case sRecord:
		ft := map[string]*sType{}
		for _, f := range t.Fields {
			ft[f.Name] = f.T
		}
		w.record(v, func(k string, x model.Val) { w.typed(x, ft[k], mode) })
	default:
		w.val(v)
	}
}

func (s *sSchema) typeOf(name string) *sEntityType {
	for _, e := range s.Ents {
		if e.Name == name {
			return e
		}
	}
	return nil
}

func (w *jw) typedEntity(e *model.Entity, et *sEntityType, o entityOpts, mode int) {
	w.entity(e, o, func() { w.typed(e.Attrs, et.Shape, mode) },
		func() { w.record(e.Tags, func(_ string, x model.Val) { w.typed(x, et.Tags, mode) }) })
}

func writeTypedMap(m map[string]*model.Entity, s *sSchema, st jStyle, o entityOpts, mode int) string {
	w := newJW(st)
	es := sortedEntities(m)
	w.tok("[")
	for k, i := range w.order(len(es)) {
		if k > 0 {
			w.tok(",")
		}
		w.typedEntity(es[i], s.typeOf(es[i].UID.T), o, mode)
	}
	w.tok("]")
	return w.b.String()
}

var schemaModeName = []string{"all-explicit", "all-implicit", "mixed", "implicit-with-fn-arg-objects"}

// guidedMap decodes text with the schema and compares with the model map.
func guidedMap(text string, rs *resolved.Schema, m map[string]*model.Entity, obs map[string]any) *c13Fail {
	var got exptypes.EntityMap
	var site string
	if err := guard(&site, func() error { return got.UnmarshalJSONWithSchema([]byte(text), rs) }); err != nil {
		return failErr("rejected", site, err, obs)
	}
	return compareMap(types.EntityMap(got), m, obs)
}

func guidedEntity(text string, rs *resolved.Schema, e *model.Entity, obs map[string]any) *c13Fail {
	var got exptypes.Entity
	var site string
	if err := guard(&site, func() error { return got.UnmarshalJSONWithSchema([]byte(text), rs) }); err != nil {
		return failErr("rejected", site, err, obs)
	}
	return compareEntity(types.Entity(got), e, toCedarEntity(e), obs)
}

func c13SchemaStream(c *mon.Ctx) {
	c.ParFor("schema", c.N(5000, 80000), func(w *mon.W, i int) {
		r := w.Rand()
		s := randSSchema(r)
		rs := s.resolved()
		m := map[string]*model.Entity{}
		for n := 1 + r.Intn(4); n > 0; n-- {
			e := conformEntity(r, mon.Pick(r, s.Ents))
			m[e.UID.Key()] = e
		}
		w.NonTrivial("s|" + s.String() + "|" + strings.Join(mapString(m), ";"))
		for _, et := range s.Ents {
			for _, f := range et.Shape.Fields {
				w.Count("schema:attr-type:" + f.T.class())
			}
		}
		rsty := w.RandSub("style")
		base := map[string]any{"schema": s.String(), "entities": mapString(m)}
		for mode := 0; mode <= 3; mode++ {
			st, o := jStyle{}, entityOpts{}
			if mode > 0 {
				st, o = randStyle(rsty), randEntityOpts(rsty)
				st.Esc = 0 // string-escape variants are covered by the value stream; keep witnesses readable
			}
			text := writeTypedMap(m, s, st, o, mode)
			obs := map[string]any{"spelling": text, "mode": schemaModeName[mode], "style": append(st.flags(), o.flags()...)}
			for k, v := range base {
				obs[k] = v
			}
			w.Evals(1)
			f := guidedMap(text, rs, m, obs)
			if mode == 3 {
				// {"fn","arg"} under a schema: cedar-go does not coerce it; only an accepted-but-different result counts
				if f == nil {
					w.Count("schema:stat:fn-arg-objects:accepted-equal")
					continue
				}
				if strings.HasPrefix(f.Kind, "rejected-error") {
					w.Count("schema:stat:fn-arg-objects:rejected")
					continue
				}
			}
			if f == nil {
				w.Count("schema:" + schemaModeName[mode] + ":ok")
				if mode == 0 {
					// unguided decoding of the explicit spelling gives the same map
					var plain types.EntityMap
					if site, err := cedarUnmarshal([]byte(text), &plain); err != nil {
						w.Violation("schema-json:explicit-spelling-rejected-without-schema", "explicit spelling rejected by EntityMap.UnmarshalJSON", failErr("rejected", site, err, obs).Obs)
						return
					} else if pf := compareMap(plain, m, obs); pf != nil {
						if !reportAnyEntity(w, m) {
							w.Violation("schema-json:unguided-decoding-of-explicit-spelling:"+pf.Kind, "explicit spelling decodes differently without the schema", pf.Obs)
						}
						return
					}
				}
				continue
			}
			// localise: one entity, then one attribute / tag of it
			if !reportAnyEntity(w, m) {
				c13LocaliseSchema(w, s, m, st, o, mode, f)
			}
			return
		}
		// single-entity entry point
		e := sortedEntities(m)[0]
		wj := newJW(randStyle(rsty))
		mode := 1 + rsty.Intn(2)
		wj.typedEntity(e, s.typeOf(e.UID.T), randEntityOpts(rsty), mode)
		obs := map[string]any{"spelling": wj.b.String(), "mode": schemaModeName[mode], "schema": s.String(), "entity": entityString(e)}
		w.Evals(1)
		if f := guidedEntity(wj.b.String(), rs, e, obs); f != nil {
			w.Violation("schema-json:Entity.UnmarshalJSONWithSchema:"+schemaModeName[mode]+":"+f.Kind, "schema-guided decoding of one entity fails: "+f.Kind, f.Obs)
			return
		}
		w.Count("schema:single-entity:ok")
		if i%1999 == 0 {
			w.Sample("schema", map[string]any{"schema": s.String(), "entities": mapString(m), "implicit_spelling": writeTypedMap(m, s, jStyle{}, entityOpts{UIDImplicit: true, ParentsImplicit: 1}, 1)})
		}
	})
}

func reportAnyEntity(w *mon.W, m map[string]*model.Entity) bool {
	for _, e := range sortedEntities(m) {
		if reportEntity(w, "schema stream", e, rtEntity, "entity-json") {
			return true
		}
	}
	return false
}

// c13LocaliseSchema reduces a failing (schema, map, spelling) to one entity with one attribute or tag.
func c13LocaliseSchema(w *mon.W, s *sSchema, m map[string]*model.Entity, st jStyle, o entityOpts, mode int, f *c13Fail) {
	try := func(s2 *sSchema, e *model.Entity) *c13Fail {
		m2 := map[string]*model.Entity{e.UID.Key(): e}
		text := writeTypedMap(m2, s2, st, o, mode)
		obs := map[string]any{"schema": s2.String(), "entities": mapString(m2), "spelling": text, "mode": schemaModeName[mode], "style": append(st.flags(), o.flags()...)}
		return guidedMap(text, s2.resolved(), m2, obs)
	}
	for _, e := range sortedEntities(m) {
		et := s.typeOf(e.UID.T)
		if try(s, e) == nil {
			continue
		}
		// the bare entity (no parents, attributes, tags), with a plain uid if possible
		bareT := &sEntityType{Name: et.Name, Parents: et.Parents, Shape: &sType{K: sRecord}, Tags: et.Tags}
		bare := &model.Entity{UID: e.UID, Attrs: model.Rec(), Tags: model.Rec()}
		if f2 := try(&sSchema{Ents: []*sEntityType{bareT}}, bare); f2 != nil {
			plain := &model.Entity{UID: model.Ent(e.UID.T, "a"), Attrs: model.Rec(), Tags: model.Rec()}
			if f3 := try(&sSchema{Ents: []*sEntityType{bareT}}, plain); f3 != nil {
				bare, f2 = plain, f3
			}
			w.Violation(fmt.Sprintf("schema-json:%s:%s:bare-entity(uid:%s)", schemaModeName[mode], f2.Kind, stringClass(bare.UID.ID)),
				fmt.Sprintf("schema-guided decoding (%s spelling) of the bare entity %s fails: %s", schemaModeName[mode], bare.UID, f2.Kind), f2.Obs)
			return
		}
		// one attribute / one tag, then down into its type
		one := func(t *sType, x model.Val, asTag bool) *c13Fail {
			et2 := &sEntityType{Name: et.Name, Parents: et.Parents, Shape: &sType{K: sRecord, Fields: []sField{{Name: "a", T: t}}}}
			e2 := &model.Entity{UID: model.Ent(e.UID.T, "a"), Attrs: model.Rec("a", x), Tags: model.Rec()}
			if asTag {
				et2.Shape, et2.Tags = &sType{K: sRecord}, t
				e2.Attrs, e2.Tags = model.Rec(), model.Rec("a", x)
			}
			return try(&sSchema{Ents: []*sEntityType{et2}}, e2)
		}
		narrow := func(t *sType, x model.Val, asTag bool) (*sType, model.Val) {
			for {
				moved := false
				switch t.K {
				case sRecord:
					for _, fld := range t.Fields {
						if y, ok := x.Get(fld.Name); ok && one(fld.T, y, asTag) != nil {
							t, x, moved = fld.T, y, true
							break
						}
					}
				case sSet:
					for _, y := range x.Elems {
						if one(t.Elem, y, asTag) != nil {
							t, x, moved = t.Elem, y, true
							break
						}
						if len(x.Elems) > 1 && one(t, model.Set(y), asTag) != nil {
							x, moved = model.Set(y), true
							break
						}
					}
				}
				if !moved {
					return t, x
				}
			}
		}
		report := func(t *sType, x model.Val, asTag bool, name string) bool {
			if one(t, x, asTag) == nil {
				return false
			}
			t, x = narrow(t, x, asTag)
			f2 := one(t, x, asTag)
			pos := "attr"
			if asTag {
				pos = "tag"
			}
			w.Violation(fmt.Sprintf("schema-json:%s:%s:%s-type=%s:value=%s", schemaModeName[mode], f2.Kind, pos, t.class(), c13ClassShallow(x)),
				fmt.Sprintf("schema-guided decoding (%s spelling) of an %s of type %s with value %s fails: %s (found in %s %s)", schemaModeName[mode], pos, t, x, f2.Kind, pos, model.QuoteString(name)), f2.Obs)
			return true
		}
		for _, fld := range et.Shape.Fields {
			if x, ok := e.Attrs.Get(fld.Name); ok && report(fld.T, x, false, fld.Name) {
				return
			}
		}
		for i, k := range e.Tags.Keys {
			if report(et.Tags, e.Tags.Vals[i], true, k) {
				return
			}
		}
		f2 := try(s, e)
		w.Violation(fmt.Sprintf("schema-json:%s:%s:%s", schemaModeName[mode], f2.Kind, entityClass(e)), "schema-guided decoding of one entity fails: "+f2.Kind, f2.Obs)
		return
	}
	w.Violation(fmt.Sprintf("schema-json:%s:%s:entities=%d", schemaModeName[mode], f.Kind, min(len(m), 3)), "schema-guided decoding of an entity map fails: "+f.Kind, f.Obs)
}

var _ = bridge.ToUID
