package props

import (
	"fmt"

	"verif/internal/bridge"
	"verif/internal/gen"
	"verif/internal/model"
	"verif/internal/mon"
	"verif/internal/render"
)

func init() { Registry["C01"] = C01 }

type c01case struct {
	e   *model.Expr
	env *model.Env
}

func baseEnv() *model.Env {
	env := &model.Env{Store: map[string]*model.Entity{}}
	env.P = model.Ent("U", "a")
	env.A = model.Ent("Action", "view")
	env.R = model.Ent("G", "b")
	env.Ctx = model.Rec("a", model.Long(1), "s", model.Str("x"))
	add := func(e *model.Entity) { env.Store[e.UID.Key()] = e }
	add(&model.Entity{UID: model.Ent("U", "a"), Parents: []model.Val{model.Ent("G", "a")},
		Attrs: model.Rec("a", model.Long(1), "if", model.Bool(true), "", model.Str("empty"), "e", model.Ent("U", "zz")),
		Tags:  model.Rec("t", model.Long(7), "", model.Str("emptytag"))})
	add(&model.Entity{UID: model.Ent("G", "a"), Parents: []model.Val{model.Ent("G", "b")}, Attrs: model.Rec(), Tags: model.Rec()})
	add(&model.Entity{UID: model.Ent("G", "b"), Attrs: model.Rec("a", model.Set(model.Long(1))), Tags: model.Rec()})
	return env
}

// c01Tables enumerates the operator x boundary-operand tables.
func c01Tables() []c01case {
	var out []c01case
	env := baseEnv()
	add := func(e *model.Expr) { out = append(out, c01case{e, env}) }
	L := func(v model.Val) *model.Expr { return model.Lit(v) }
	var longs, dts, durs, decs []model.Val
	for _, x := range gen.Longs {
		longs = append(longs, model.Long(x))
	}
	for _, x := range gen.Datetimes {
		dts = append(dts, model.Datetime(x))
	}
	for _, x := range gen.Durations {
		durs = append(durs, model.Duration(x))
	}
	for _, x := range gen.Decimals {
		decs = append(decs, model.Decimal(x))
	}
	// arithmetic and ordering over the boundary lists
	for _, a := range longs {
		add(model.Un(model.ONeg, L(a)))
		for _, b := range longs {
			for _, op := range []model.Op{model.OAdd, model.OSub, model.OMul, model.OLt, model.OLe, model.OGt, model.OGe, model.OEq} {
				add(model.Bin(op, L(a), L(b)))
			}
		}
	}
	for _, list := range [][]model.Val{dts, durs} {
		for _, a := range list {
			for _, b := range list {
				for _, op := range []model.Op{model.OLt, model.OLe, model.OGt, model.OGe} {
					add(model.Bin(op, L(a), L(b)))
				}
			}
		}
	}
	for _, a := range dts {
		add(model.Ext("toDate", L(a)))
		add(model.Ext("toTime", L(a)))
		for _, b := range durs {
			add(model.Ext("offset", L(a), L(b)))
		}
		for _, b := range dts {
			add(model.Ext("durationSince", L(a), L(b)))
		}
	}
	for _, a := range durs {
		for _, fn := range []string{"toDays", "toHours", "toMinutes", "toSeconds", "toMilliseconds"} {
			add(model.Ext(fn, L(a)))
		}
	}
	for _, a := range decs {
		for _, b := range decs {
			for _, fn := range []string{"lessThan", "lessThanOrEqual", "greaterThan", "greaterThanOrEqual"} {
				add(model.Ext(fn, L(a), L(b)))
			}
		}
	}
	for _, a := range gen.IPs {
		for _, fn := range []string{"isIpv4", "isIpv6", "isLoopback", "isMulticast"} {
			add(model.Ext(fn, L(a)))
		}
		for _, b := range gen.IPs {
			add(model.Ext("isInRange", L(a), L(b)))
			add(model.Bin(model.OEq, L(a), L(b)))
		}
	}
	// every operator over all kind pairs (type-error table)
	reps := []model.Val{model.Bool(true), model.Long(1), model.Str("a"), model.Ent("U", "a"), model.Set(model.Long(1)),
		model.Rec("a", model.Long(1)), model.Decimal(10000), gen.IPs[0], model.Datetime(1), model.Duration(1)}
	binOps := []model.Op{model.OAnd, model.OOr, model.OAdd, model.OSub, model.OMul, model.OEq, model.ONe, model.OLt, model.OLe, model.OGt, model.OGe,
		model.OIn, model.OHasTag, model.OGetTag, model.OContains, model.OContainsAll, model.OContainsAny}
	ext2 := []string{"lessThan", "lessThanOrEqual", "greaterThan", "greaterThanOrEqual", "isInRange", "offset", "durationSince"}
	ext1 := []string{"decimal", "ip", "datetime", "duration", "isIpv4", "isIpv6", "isLoopback", "isMulticast", "toDate", "toTime", "toDays", "toHours", "toMinutes", "toSeconds", "toMilliseconds"}
	for _, a := range reps {
		for _, b := range reps {
			for _, op := range binOps {
				add(model.Bin(op, L(a), L(b)))
			}
			for _, fn := range ext2 {
				add(model.Ext(fn, L(a), L(b)))
			}
			add(model.IsIn(L(a), "U", L(b)))
			add(model.IsIn(L(a), "G", L(b)))
			// short-circuit: skipped operand may be anything
			add(model.Bin(model.OAnd, L(model.Bool(false)), model.Bin(model.OAdd, L(a), L(b))))
			add(model.Bin(model.OOr, L(model.Bool(true)), model.Bin(model.OAdd, L(a), L(b))))
			add(model.If(L(a), L(b), L(a)))
			add(model.If(L(model.Bool(true)), L(a), model.Un(model.ONeg, L(b))))
			add(model.If(L(model.Bool(false)), model.Un(model.ONeg, L(b)), L(a)))
		}
		for _, op := range []model.Op{model.ONot, model.ONeg, model.OIsEmpty} {
			add(model.Un(op, L(a)))
		}
		for _, fn := range ext1 {
			add(model.Ext(fn, L(a)))
			add(model.Ext(fn))
			add(model.Ext(fn, L(a), L(a), L(a)))
		}
		add(model.Ext("unknownFunction", L(a)))
		add(model.Like(L(a), []model.PatElem{{Wild: true}}))
		add(model.Is(L(a), "U"))
		add(model.Has(L(a), "a"))
		add(model.Access(L(a), "a"))
	}
	// attribute / tag access on records, present and absent entities
	objs := []*model.Expr{L(model.Rec("a", model.Long(1), "", model.Long(2))), L(model.Ent("U", "a")), L(model.Ent("U", "absent")), model.Var("principal"), model.Var("context"), L(model.Ent("G", "a"))}
	for _, o := range objs {
		for _, k := range []string{"a", "zz", "", "if", "t"} {
			add(model.Has(o, k))
			add(model.Access(o, k))
			add(model.Bin(model.OHasTag, o, L(model.Str(k))))
			add(model.Bin(model.OGetTag, o, L(model.Str(k))))
		}
	}
	// membership and equality over the collision universe
	col := gen.Collide()
	for _, a := range col {
		for _, b := range col {
			add(model.Bin(model.OEq, L(a), L(b)))
			add(model.Bin(model.OContains, model.SetE(L(a), L(b)), L(b)))
			for _, c := range col[:8] {
				add(model.Bin(model.OContains, L(model.Set(a, b)), L(c)))
				add(model.Bin(model.OContainsAll, model.SetE(L(a), L(b)), model.SetE(L(c), L(a))))
				add(model.Bin(model.OContainsAny, model.SetE(L(a), L(b)), model.SetE(L(c))))
				add(model.Bin(model.OEq, model.SetE(L(a), L(b), L(c)), model.SetE(L(c), L(a), L(b), L(a))))
			}
		}
	}
	// constructors over the printed forms of every boundary value, and malformed literals
	for _, v := range gen.Decimals {
		for n := 1; n <= 4; n++ {
			if s, ok := model.PrintDecimalDigits(v, n); ok {
				add(model.Ext("decimal", L(model.Str(s))))
			}
		}
	}
	for _, v := range gen.Durations {
		add(model.Ext("duration", L(model.Str(model.PrintDuration(v)))))
		add(model.Ext("duration", L(model.Str(fmt.Sprintf("%dms", v)))))
	}
	for _, v := range gen.Datetimes {
		add(model.Ext("datetime", L(model.Str(model.PrintDatetime(v)))))
	}
	for _, ip := range gen.IPs {
		add(model.Ext("ip", L(model.Str(model.PrintIP(ip.IP)))))
	}
	for _, s := range gen.BadLiterals() {
		for _, fn := range []string{"decimal", "ip", "datetime", "duration"} {
			add(model.Ext(fn, L(model.Str(s))))
		}
	}
	// like: all patterns over {a,b,*} up to length 4 against all strings over {a,b} up to length 4
	var strs []string
	var pats [][]model.PatElem
	var rec func(s string, n int)
	rec = func(s string, n int) {
		strs = append(strs, s)
		if n == 0 {
			return
		}
		rec(s+"a", n-1)
		rec(s+"b", n-1)
	}
	rec("", 4)
	var recp func(p []model.PatElem, n int)
	recp = func(p []model.PatElem, n int) {
		pats = append(pats, gen.NormPattern(p))
		if n == 0 {
			return
		}
		for _, x := range []model.PatElem{{Lit: "a"}, {Lit: "b"}, {Wild: true}} {
			recp(append(append([]model.PatElem{}, p...), x), n-1)
		}
	}
	recp(nil, 4)
	for _, p := range pats {
		for _, s := range strs {
			add(model.Like(L(model.Str(s)), p))
		}
	}
	for _, s := range gen.Strings {
		add(model.Like(L(model.Str(s)), []model.PatElem{{Lit: s}}))
		add(model.Like(L(model.Str(s+"x")), []model.PatElem{{Lit: s}, {Wild: true}}))
		add(model.Like(L(model.Str("x"+s)), []model.PatElem{{Wild: true, Lit: s}}))
		add(model.Like(L(model.Str("*")), []model.PatElem{{Lit: s}}))
	}
	return out
}

func C01(c *mon.Ctx) {
	c.Rule = "case = (expression, entity store, request); cedar-go x/exp/eval.Eval vs the independent big-integer reference evaluator; value-vs-error must agree and values must be equal. " +
		"Tables (every operator x boundary operands, all kind pairs) are enumerated completely, random type-directed trees (depth<=5/7, 6% ill-typed operands) come on top. " +
		"distinct_nontrivial = distinct (expression, environment) renderings whose expression has >=2 nodes."
	c.Assume = []string{"the reference evaluator in /verif/internal/model encodes the Cedar semantics (language reference + Lean spec conventions: floor toDate, floor-mod toTime, truncating toDays..)",
		"values are converted back through public accessors only (bridge.FromValue)"}
	c.Floor = 1000
	tables := c01Tables()
	c.Extra["table_cases"] = len(tables)
	check := func(w *mon.W, e *model.Expr, env *model.Env, cat string) {
		g := &bridge.Getter{M: bridge.ToEntityMap(env), Budget: 100000}
		cenv := bridge.ToEvalEnv(env, g)
		d, got, werr := CheckExpr(e, env, cenv)
		w.Evals(1)
		outcome := "value"
		if werr != model.ENone {
			outcome = "err:" + werr.String()
		}
		w.Count(opName(e) + " -> " + outcome)
		if got.IsErr && werr != model.ENone && got.Class != werr.String() {
			w.Count("stat:error-kind-differs(" + got.Class + " vs " + werr.String() + ")")
		}
		if e.Size() >= 2 {
			w.NonTrivial(render.Canon(e) + "|" + env.P.Key() + env.Ctx.Key())
		}
		if d != nil {
			w.Violation(d.Sig, d.What, d.Wit)
			return
		}
		if w.Index%997 == 0 {
			w.Sample(cat, map[string]any{"expr": render.Canon(e), "result": got.String()})
		}
	}
	c.ParFor("tables", len(tables), func(w *mon.W, i int) {
		check(w, tables[i].e, tables[i].env, "table")
	})
	// history independence: every table case again, directly after an evaluation that fails
	// at the same root operator (pooled scratch state, half-filled caches and the like must
	// not leak from a failed evaluation into the next result). The oracle is unchanged.
	failing := map[model.Op][]int{}
	var anyFailing []int
	for i, t := range tables {
		if _, we := model.Eval(t.e, t.env); we != model.ENone {
			failing[t.e.Op] = append(failing[t.e.Op], i)
			anyFailing = append(anyFailing, i)
		}
	}
	c.ParFor("tables-after-a-failure", len(tables), func(w *mon.W, i int) {
		pool := failing[tables[i].e.Op]
		if len(pool) == 0 {
			pool = anyFailing
		}
		if len(pool) > 0 {
			p := tables[pool[(i*31+7)%len(pool)]]
			g := &bridge.Getter{M: bridge.ToEntityMap(p.env), Budget: 100000}
			CedarEval(bridge.ToNode(p.e), bridge.ToEvalEnv(p.env, g))
		}
		check(w, tables[i].e, tables[i].env, "table-after-failure")
	})
	c01Sizes(c)
	n := c.N(40000, 1500000)
	depth := 5
	if c.Thorough() {
		depth = 7
	}
	c.ParFor("random", n, func(w *mon.W, i int) {
		r := w.Rand()
		env := gen.RandEnv(r)
		g := &gen.G{R: r, Cfg: gen.DefaultCfg}
		e := g.Expr(1+r.Intn(depth), gen.RandKind(r))
		check(w, e, env, "random")
	})
}
