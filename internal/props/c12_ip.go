package props

import (
	"fmt"
	"strings"

	"github.com/cedar-policy/cedar-go/types"

	"verif/internal/bridge"
	"verif/internal/gen"
	"verif/internal/model"
	"verif/internal/mon"
)

func c12IPEq(a, b model.IPVal) bool { return a == b }

const c12MappedSig = "ip:IPv4-mapped IPv6 address (::ffff:0:0/96) prints in embedded-IPv4 form, which ip() rejects"

func (k *c12) ipValue(w *mon.W, ip model.IPVal, text bool) {
	w.Evals(1)
	canon := model.PrintIP(ip)
	cl := c12IPClass(ip)
	k.safe(w, "ip/value", canon, func() {
		v := bridge.ToIP(ip)
		got := v.String()
		w.Count("ip value " + cl)
		if !ip.V6 && got != canon {
			w.Violation("ip:String(v4) not canonical", fmt.Sprintf("IPAddr(%s).String() = %q", canon, got), map[string]any{"value": canon, "string": got})
		}
		if mc := string(v.MarshalCedar()); mc != `ip("`+got+`")` {
			w.Violation("ip:MarshalCedar != ip(\"String()\")", fmt.Sprintf("MarshalCedar=%q String=%q", mc, got), map[string]any{"value": canon, "marshal": mc})
		}
		// the printed form is a valid literal of the same value (independent parser) ...
		rv, rok := c12ParseIP(got)
		switch {
		case !rok && c12IsMapped(ip) && strings.Contains(got, "."):
			w.Violation(c12MappedSig, fmt.Sprintf("IPAddr(%s).String() = %q; ParseIPAddr / ip() reject the embedded-IPv4 notation, so the value does not round-trip", canon, got), map[string]any{"value": canon, "string": got})
			return
		case !rok:
			w.Violation("ip:String("+cl+") is not a valid ip literal", fmt.Sprintf("IPAddr(%s).String() = %q is not in the ip() literal syntax (embedded IPv4 / zone / malformed)", canon, got),
				map[string]any{"value": canon, "string": got})
		case !c12IPEq(rv, ip):
			w.Violation("ip:String("+cl+") denotes a different value", fmt.Sprintf("IPAddr(%s).String() = %q denotes %s", canon, got, model.PrintIP(rv)), map[string]any{"value": canon, "string": got, "denotes": model.PrintIP(rv)})
		}
		// ... and cedar-go reads it back
		p, err := types.ParseIPAddr(got)
		if err != nil {
			w.Violation("ip:Parse(String(v))("+cl+") rejected", fmt.Sprintf("ParseIPAddr(IPAddr(%s).String() = %q): %v", canon, got, err), map[string]any{"value": canon, "string": got, "error": err.Error()})
		} else if back, cerr := bridge.FromIP(p); cerr != nil || !c12IPEq(back, ip) {
			w.Violation("ip:Parse(String(v))("+cl+") wrong value", fmt.Sprintf("ParseIPAddr(%q) = %s, want %s", got, p, canon), map[string]any{"value": canon, "string": got, "got": p.String()})
		}
		if text {
			k.renderCheck(w, model.IP(ip))
		}
	})
}

func (k *c12) ipLiteral(w *mon.W, s string) {
	w.Evals(1)
	k.safe(w, "ParseIPAddr", s, func() {
		mv, mok := c12ParseIP(s)
		p, err := types.ParseIPAddr(s)
		fam := "v4"
		for i := 0; i < len(s); i++ {
			if s[i] == ':' {
				fam = "v6"
			}
		}
		switch {
		case err == nil && !mok:
			cl := fam
			if a := p.Addr(); a.Zone() != "" {
				cl += ",zone"
			} else if a.Is4In6() {
				cl += ",ipv4-mapped"
			}
			w.Violation("ip:malformed-literal-accepted("+cl+")", fmt.Sprintf("ParseIPAddr(%q) = %s, the ip literal syntax rejects it", s, p), map[string]any{"literal": s, "cedar_go": p.String(), "model": "reject"})
		case err != nil && mok:
			w.Violation("ip:valid-literal-rejected("+c12IPClass(mv)+")", fmt.Sprintf("ParseIPAddr(%q): %v, want %s", s, err, model.PrintIP(mv)), map[string]any{"literal": s, "error": err.Error(), "model": model.PrintIP(mv)})
		case err == nil:
			back, cerr := bridge.FromIP(p)
			if cerr != nil || !c12IPEq(back, mv) {
				w.Violation("ip:literal-wrong-value("+c12IPClass(mv)+")", fmt.Sprintf("ParseIPAddr(%q) = %s, want %s", s, p, model.PrintIP(mv)), map[string]any{"literal": s, "cedar_go": p.String(), "model": model.PrintIP(mv)})
			} else {
				w.Count("ip literal: both accept (" + fam + ")")
			}
		default:
			w.Count("ip literal: both reject (" + fam + ")")
		}
	})
}

var c12IPAlpha = []string{"0", "1", "2", "5", "9", "a", "f", "F", "g", ".", ":", "/", "%", "-", "+", " ", "x"}

func c12RandIP(r *mon.Rand) model.IPVal {
	switch r.Intn(8) {
	case 0:
		return gen.RandIP(r).IP
	case 1: // IPv4
		return model.IPVal{Lo: r.U64() & 0xffffffff, Prefix: r.Intn(33)}
	case 2: // IPv4 with small octets
		return model.IPVal{Lo: (r.U64() & 0x03010a01) | uint64(r.Intn(2))*0xff000000, Prefix: 32}
	case 3: // sparse IPv6 (zero runs)
		var g [2]uint64
		for j := 0; j < 2; j++ {
			for q := 0; q < 4; q++ {
				if r.P(0.35) {
					g[j] |= (r.U64() & 0xffff >> uint(r.Intn(16))) << uint(16*q)
				}
			}
		}
		return model.IPVal{V6: true, Hi: g[0], Lo: g[1], Prefix: 128 - r.Intn(2)*r.Intn(129)}
	case 4: // IPv4-mapped / IPv4-compatible IPv6
		hi16 := uint64(0xffff)
		if r.P(0.3) {
			hi16 = 0
		}
		return model.IPVal{V6: true, Lo: hi16<<32 | r.U64()&0xffffffff, Prefix: 128 - r.Intn(2)*r.Intn(33)}
	}
	return model.IPVal{V6: true, Hi: r.U64(), Lo: r.U64(), Prefix: r.Intn(129)}
}

func (k *c12) ipStreams() {
	c := k.c
	// every prefix length x a few addresses, plus the shared universe
	var vals []model.IPVal
	for _, v := range gen.IPs {
		vals = append(vals, v.IP)
	}
	for p := 0; p <= 32; p++ {
		for _, a := range []uint64{0, 0xffffffff, 0x7f000001, 0xe0000001, 0x0a010203, 0xc0a80101} {
			vals = append(vals, model.IPVal{Lo: a, Prefix: p})
		}
	}
	for p := 0; p <= 128; p++ {
		for _, a := range [][2]uint64{{0, 0}, {0, 1}, {^uint64(0), ^uint64(0)}, {0xff00 << 48, 1}, {0x20010db8 << 32, 0x1}, {0xfe80 << 48, 0x0000000100000000}, {0, 0xffff7f000001}, {0, 0x7f000001}, {1, 0}, {0x0001000000000000, 0x1}} {
			vals = append(vals, model.IPVal{V6: true, Hi: a[0], Lo: a[1], Prefix: p})
		}
	}
	c.Extra["ip/all_prefix_lengths"] = "0..32 x 6 IPv4 addresses, 0..128 x 10 IPv6 addresses"
	c.ParFor("ip/boundary", len(vals), func(w *mon.W, i int) {
		k.reg(w, model.PrintIP(vals[i]), false)
		k.ipValue(w, vals[i], i%3 == 0)
		if i%200 == 0 {
			w.Sample("ip/value", map[string]any{"value": model.PrintIP(vals[i]), "cedar_go_string": bridge.ToIP(vals[i]).String()})
		}
	})
	c.ParFor("ip/random", c.N(100000, 2500000), func(w *mon.W, i int) {
		ip := c12RandIP(w.Rand())
		k.reg(w, model.PrintIP(ip), true)
		k.ipValue(w, ip, i%16 == 0)
	})
	hostile := []string{"", "/", "/8", "1", "1.2", "1.2.3", "1.2.3.4.5", "1.2.3.4/", "1.2.3.4/33", "1.2.3.4/032", "1.2.3.4/08", "1.2.3.4/+8", "1.2.3.4/-0", "1.2.3.4/8/8", "1.2.3.4//8", "01.2.3.4", "1.02.3.4", "1.2.3.04", "001.2.3.4",
		"256.1.1.1", "1.1.1.256", "1.2.3.4 ", " 1.2.3.4", "1.2.3.4\n", "1.2.3.-4", "1.2.3.+4", "1..3.4", ".1.2.3", "1.2.3.", "0x7f.0.0.1", "127.1", "2130706433", "1.2.3.4/0", "0.0.0.0/0", "255.255.255.255/32", "1.2.3.4/32", "1.2.3.4/031",
		"::", "::/0", "::/128", "::/129", "::/0128", "::1", "1::", ":1", "1:", ":::", "::1::", "1::2::3", "1:2:3:4:5:6:7:8", "1:2:3:4:5:6:7", "1:2:3:4:5:6:7:8:9", "1:2:3:4:5:6:7::", "::2:3:4:5:6:7:8", "1::2:3:4:5:6:7:8", "1:2:3:4::5:6:7:8",
		"1:2:3:4:5:6:7::8", "::ffff:1.2.3.4", "::1.2.3.4", "1:2:3:4:5:6:1.2.3.4", "::ffff:7f00:1", "::ffff:7f00:1/104", "::FFFF:7F00:1", "fe80::1%eth0", "fe80::1%1", "fe80::1%", "::1%", "12345::", "::12345", "::0001", "::00001", "::g",
		"::1/", "::1/+1", "::1/1 ", "[::1]", "::1]", "1:2:3:4:5:6:7:8/64", "ABCD:EF01:2345:6789:abcd:ef01:2345:6789", "ff00::/8", "ff00::/08", "0:0:0:0:0:0:0:0", "0:0:0:0:0:0:0:1/127", "::0:0", "0::0", "1:::2", "1.2.3.4:80", "1:2", "::.", "::/"}
	c.ParFor("ip/hostile", len(hostile), func(w *mon.W, i int) {
		k.reg(w, hostile[i], false)
		k.ipLiteral(w, hostile[i])
	})
	c.ParFor("ip/literals", c.N(150000, 4000000), func(w *mon.W, i int) {
		r := w.Rand()
		s := c12SpellIP(r, c12RandIP(r))
		for e := r.Intn(3); e > 0 && r.P(0.6); e-- {
			s = c12Edit1(r, s, c12IPAlpha)
		}
		k.reg(w, s, true)
		k.ipLiteral(w, s)
		if i%9973 == 0 {
			_, ok := c12ParseIP(s)
			w.Sample("ip/literal", map[string]any{"literal": s, "model_accepts": ok})
		}
	})
	k.ed1("ip", []string{"127.0.0.1", "10.0.0.0/8", "255.255.255.255/32", "0.0.0.0/0", "1.2.3.4/31", "::1", "::", "::/0", "ff00::/8", "1:2:3:4:5:6:7:8", "1:2:3:4:5:6:7:8/128", "2001:db8::1/64", "::ffff:7f00:1", "fe80::1", "1::8"},
		c12IPAlpha, k.ipLiteral)
}
