package props

import (
	"fmt"
	"math/bits"

	cedar "github.com/cedar-policy/cedar-go"
	"github.com/cedar-policy/cedar-go/types"
	"github.com/cedar-policy/cedar-go/x/exp/ast"
	"github.com/cedar-policy/cedar-go/x/exp/eval"

	"verif/internal/bridge"
	"verif/internal/mon"
)

func init() { Registry["C03"] = C03 }

// graph over n<=8 nodes: adj[i] = bitmask of parents of i; present = bitmask of nodes in the store.
type c03graph struct {
	n       int
	adj     [8]uint16
	present uint16
}

// reach returns the bitmask of nodes reachable from s by >=0 parent links of present nodes.
func (g *c03graph) reach(s int) uint16 {
	seen := uint16(1) << s
	frontier := seen
	for frontier != 0 {
		i := bits.TrailingZeros16(frontier)
		frontier &^= 1 << i
		if g.present&(1<<i) == 0 {
			continue
		}
		nw := g.adj[i] &^ seen
		seen |= nw
		frontier |= nw
	}
	return seen
}

var c03uids = func() [8]types.EntityUID {
	var u [8]types.EntityUID
	// same ids under different types, so that a traversal keyed on the id alone (or taking
	// a type-based short cut) is exposed: U::"0", G::"0", T::"0", U::"1", G::"1", ...
	for i := range u {
		u[i] = types.NewEntityUID(types.EntityType([]string{"U", "G", "T"}[i%3]), types.String(fmt.Sprint(i/3)))
	}
	return u
}()

func (g *c03graph) store() types.EntityMap {
	m := types.EntityMap{}
	for i := 0; i < g.n; i++ {
		if g.present&(1<<i) == 0 {
			continue
		}
		var ps []types.EntityUID
		for j := 0; j < g.n; j++ {
			if g.adj[i]&(1<<j) != 0 {
				ps = append(ps, c03uids[j])
			}
		}
		m[c03uids[i]] = types.Entity{UID: c03uids[i], Parents: types.NewEntityUIDSet(ps...)}
	}
	return m
}

func (g *c03graph) describe() map[string]any {
	var edges []string
	for i := 0; i < g.n; i++ {
		for j := 0; j < g.n; j++ {
			if g.adj[i]&(1<<j) != 0 {
				edges = append(edges, fmt.Sprintf("node %d -> parent node %d", i, j))
			}
		}
	}
	var pres []int
	for i := 0; i < g.n; i++ {
		if g.present&(1<<i) != 0 {
			pres = append(pres, i)
		}
	}
	return map[string]any{"nodes": g.n, "parent_edges": edges, "present_in_store": pres}
}

func fromBits(n int, edges uint64, present uint16) *c03graph {
	g := &c03graph{n: n, present: present}
	for i := 0; i < n; i++ {
		for j := 0; j < n; j++ {
			if edges&(1<<(i*n+j)) != 0 {
				g.adj[i] |= 1 << j
			}
		}
	}
	return g
}

type c03runner struct {
	w      *mon.W
	g      *c03graph
	getter *bridge.Getter
	env    eval.Env
}

func newC03runner(w *mon.W, g *c03graph) *c03runner {
	r := &c03runner{w: w, g: g}
	r.getter = &bridge.Getter{M: g.store()}
	r.env = eval.Env{Entities: r.getter, Principal: c03uids[0], Action: c03uids[0], Resource: c03uids[0], Context: types.Record{}}
	return r
}

func (r *c03runner) budget() int { return 64 * (r.g.n + 1) * (r.g.n + 1) }

func (r *c03runner) evalBool(n ast.IsNode) (res bool, bad string) {
	r.getter.Calls = 0
	r.getter.Budget = r.budget()
	defer func() {
		if x := recover(); x != nil {
			if be, ok := x.(bridge.BudgetExceeded); ok {
				bad = fmt.Sprintf("nonterminating: more than %d EntityGetter.Get calls", be.Calls-1)
				return
			}
			bad = fmt.Sprintf("panic: %v", x)
		}
	}()
	v, err := eval.Eval(n, r.env)
	if err != nil {
		return false, "error: " + err.Error()
	}
	b, ok := v.(types.Boolean)
	if !ok {
		return false, fmt.Sprintf("non-boolean %v", v)
	}
	return bool(b), ""
}

func (r *c03runner) report(form string, s int, targets uint16, got bool, bad string, want bool) {
	wit := r.g.describe()
	wit["query_form"] = form
	wit["start"] = s
	var ts []int
	for j := 0; j < 8; j++ {
		if targets&(1<<j) != 0 {
			ts = append(ts, j)
		}
	}
	wit["targets"] = ts
	wit["want"] = want
	if bad != "" {
		wit["got"] = bad
		kind := "error"
		if len(bad) > 5 && bad[:5] == "nonte" {
			kind = "nonterminating"
		} else if len(bad) > 5 && bad[:5] == "panic" {
			kind = "panic"
		}
		r.w.Violation(form+": "+kind, fmt.Sprintf("%s on start node %d targets %v: %s (expected %v)", form, s, ts, bad, want), wit)
		return
	}
	wit["got"] = got
	r.w.Violation(fmt.Sprintf("%s: got=%v want=%v", form, got, want), fmt.Sprintf("%s with start node %d, targets %v answers %v, reachability says %v; graph %v", form, s, ts, got, want, wit["parent_edges"]), wit)
}

func uidNode(i int) ast.IsNode { return ast.NodeValue{Value: c03uids[i]} }

// single-target operator for every ordered pair (targets may be absent from the store)
func (r *c03runner) allPairs() {
	n := r.g.n
	for s := 0; s < n; s++ {
		rs := r.g.reach(s)
		for t := 0; t < n; t++ {
			node := ast.NodeTypeIn{BinaryNode: ast.BinaryNode{Left: uidNode(s), Right: uidNode(t)}}
			got, bad := r.evalBool(node)
			want := rs&(1<<t) != 0
			r.w.Evals(1)
			if bad != "" || got != want {
				r.report("a in b", s, 1<<t, got, bad, want)
			}
		}
	}
}

// set-valued right-hand sides: every subset of nodes (incl. the empty set)
func (r *c03runner) allSubsets() {
	n := r.g.n
	for s := 0; s < n; s++ {
		rs := r.g.reach(s)
		for sub := uint16(0); sub < 1<<n; sub++ {
			var vals []types.Value
			var nodes []ast.IsNode
			for j := 0; j < n; j++ {
				if sub&(1<<j) != 0 {
					vals = append(vals, c03uids[j])
					nodes = append(nodes, uidNode(j))
				}
			}
			want := rs&sub != 0
			// set as a value and as a set-literal node
			for k, rhs := range []ast.IsNode{ast.NodeValue{Value: types.NewSet(vals...)}, ast.NodeTypeSet{Elements: nodes}} {
				got, bad := r.evalBool(ast.NodeTypeIn{BinaryNode: ast.BinaryNode{Left: uidNode(s), Right: rhs}})
				r.w.Evals(1)
				if bad != "" || got != want {
					r.report([]string{"a in set-value", "a in [set literal]"}[k], s, sub, got, bad, want)
				}
			}
			// `is T in` with matching and non-matching type
			got, bad := r.evalBool(ast.NodeTypeIsIn{NodeTypeIs: ast.NodeTypeIs{Left: uidNode(s), EntityType: c03uids[s].Type}, Entity: ast.NodeValue{Value: types.NewSet(vals...)}})
			r.w.Evals(1)
			if bad != "" || got != want {
				r.report("a is <own type> in set", s, sub, got, bad, want)
			}
			got, bad = r.evalBool(ast.NodeTypeIsIn{NodeTypeIs: ast.NodeTypeIs{Left: uidNode(s), EntityType: "Other"}, Entity: ast.NodeValue{Value: types.NewSet(vals...)}})
			r.w.Evals(1)
			if bad != "" || got {
				r.report("a is Other in set", s, sub, got, bad, false)
			}
		}
	}
}

// scope forms through cedar.Authorize
func (r *c03runner) scopes() {
	n := r.g.n
	for s := 0; s < n; s++ {
		rs := r.g.reach(s)
		for t := 0; t < n; t++ {
			want := rs&(1<<t) != 0
			pols := []struct {
				name string
				p    *ast.Policy
				want bool
			}{
				{"scope principal in E", &ast.Policy{Effect: ast.EffectPermit, Principal: ast.ScopeTypeIn{Entity: c03uids[t]}, Action: ast.ScopeTypeAll{}, Resource: ast.ScopeTypeAll{}}, want},
				{"scope action in E", &ast.Policy{Effect: ast.EffectPermit, Principal: ast.ScopeTypeAll{}, Action: ast.ScopeTypeIn{Entity: c03uids[t]}, Resource: ast.ScopeTypeAll{}}, want},
				{"scope resource in E", &ast.Policy{Effect: ast.EffectPermit, Principal: ast.ScopeTypeAll{}, Action: ast.ScopeTypeAll{}, Resource: ast.ScopeTypeIn{Entity: c03uids[t]}}, want},
				{"scope principal is <own type> in E", &ast.Policy{Effect: ast.EffectPermit, Principal: ast.ScopeTypeIsIn{Type: c03uids[s].Type, Entity: c03uids[t]}, Action: ast.ScopeTypeAll{}, Resource: ast.ScopeTypeAll{}}, want},
				{"scope resource is Other in E", &ast.Policy{Effect: ast.EffectPermit, Principal: ast.ScopeTypeAll{}, Action: ast.ScopeTypeAll{}, Resource: ast.ScopeTypeIsIn{Type: "Other", Entity: c03uids[t]}}, false},
			}
			for _, pc := range pols {
				r.authz(pc.name, pc.p, s, 1<<t, pc.want)
			}
		}
		for sub := uint16(0); sub < 1<<n; sub++ {
			var es []types.EntityUID
			for j := 0; j < n; j++ {
				if sub&(1<<j) != 0 {
					es = append(es, c03uids[j])
				}
			}
			p := &ast.Policy{Effect: ast.EffectPermit, Principal: ast.ScopeTypeAll{}, Action: ast.ScopeTypeInSet{Entities: es}, Resource: ast.ScopeTypeAll{}}
			r.authz("scope action in [set]", p, s, sub, rs&sub != 0)
		}
	}
}

func (r *c03runner) authz(form string, p *ast.Policy, s int, targets uint16, want bool) {
	ps := cedar.NewPolicySet()
	ps.Add("p", cedar.NewPolicyFromAST((*cedarASTPolicy)(p)))
	r.getter.Calls = 0
	r.getter.Budget = r.budget()
	var got bool
	var bad string
	func() {
		defer func() {
			if x := recover(); x != nil {
				if be, ok := x.(bridge.BudgetExceeded); ok {
					bad = fmt.Sprintf("nonterminating: more than %d EntityGetter.Get calls", be.Calls-1)
					return
				}
				bad = fmt.Sprintf("panic: %v", x)
			}
		}()
		dec, diag := cedar.Authorize(ps, r.getter, cedar.Request{Principal: c03uids[s], Action: c03uids[s], Resource: c03uids[s]})
		if len(diag.Errors) > 0 {
			bad = "error: " + diag.Errors[0].Message
		}
		got = dec == cedar.Allow
	}()
	r.w.Evals(1)
	if bad != "" || got != want {
		r.report(form, s, targets, got, bad, want)
	}
}

func C03(c *mon.Ctx) {
	c.Rule = "case = (parent digraph, subset of nodes present in the store, start entity, target entity or target set, query form). " +
		"Oracle: breadth-first reachability over parent links of present entities (bitmask model), plus a logical budget of 64(n+1)^2 EntityGetter.Get calls per query as the non-termination witness. " +
		"Enumerated completely: all digraphs on <=4 nodes x all presence subsets x all ordered pairs for `a in b`; set-valued targets, `is T in` and all scope forms on all digraphs with <=3 nodes (quick) / 4 nodes (thorough). Random 5-8 node graphs on top. On the <=3-node graphs also: the operator forms inside a when-clause decided through cedar.Authorize (compiled and constant-folded path), and every set-valued query repeated directly after a membership test that failed with a type error (no state may leak from a failed evaluation). Stream several-start-entities: on all 3-node digraphs (and 6 times per random graph) principal, action and resource are three different nodes and one policy asks `in` of each of them in scope and condition (crosswise), against the conjunction of the reachability answers. " +
		"distinct_nontrivial = distinct (graph, presence) combinations with at least one edge."
	c.Assume = []string{"the EntityGetter returns entities exactly as stored (harness getter counts calls)", "absent parents are reachable targets but are not expanded"}
	c.Floor = 1000
	c.SetExhaustive(true)
	// all digraphs on n nodes for n = 1..4, single target
	for n := 1; n <= 4; n++ {
		n := n
		total := 1 << (n * n)
		c.ParFor(fmt.Sprintf("pairs-n%d", n), total, func(w *mon.W, i int) {
			for pres := 0; pres < 1<<n; pres++ {
				g := fromBits(n, uint64(i), uint16(pres))
				r := newC03runner(w, g)
				r.allPairs()
				if i != 0 {
					w.NonTrivial(fmt.Sprintf("%d/%d/%d", n, i, pres))
				}
			}
			w.Count(fmt.Sprintf("digraphs n=%d enumerated", n))
		})
	}
	maxSetN := 3
	if c.Thorough() {
		maxSetN = 4
	}
	for n := 1; n <= maxSetN; n++ {
		n := n
		total := 1 << (n * n)
		c.ParFor(fmt.Sprintf("sets-scopes-n%d", n), total, func(w *mon.W, i int) {
			for pres := 0; pres < 1<<n; pres++ {
				g := fromBits(n, uint64(i), uint16(pres))
				r := newC03runner(w, g)
				r.allSubsets()
				r.scopes()
				if n <= 3 {
					r.batchScopes()
					r.conditions()
					r.afterFailure()
				}
			}
			w.Count(fmt.Sprintf("digraphs n=%d with set targets and scope forms", n))
		})
	}
	c03sameObject(c)
	c03multi(c)
	// random larger graphs: chains, cycles, diamonds, absent nodes
	c.ParFor("random", c.N(20000, 300000), func(w *mon.W, i int) {
		rd := w.Rand()
		n := 5 + rd.Intn(4)
		g := &c03graph{n: n, present: uint16(rd.U64()) | uint16(rd.U64())}
		dens := 1 + rd.Intn(3)
		for a := 0; a < n; a++ {
			switch rd.Intn(4) {
			case 0: // chain
				g.adj[a] |= 1 << ((a + 1) % n)
			default:
				for k := 0; k < dens; k++ {
					if rd.P(0.6) {
						g.adj[a] |= 1 << rd.Intn(n)
					}
				}
			}
		}
		r := newC03runner(w, g)
		r.allPairs()
		// a few random target sets
		for k := 0; k < 4; k++ {
			s := rd.Intn(n)
			sub := uint16(rd.U64()) & (1<<n - 1)
			var vals []types.Value
			for j := 0; j < n; j++ {
				if sub&(1<<j) != 0 {
					vals = append(vals, c03uids[j])
				}
			}
			got, bad := r.evalBool(ast.NodeTypeIn{BinaryNode: ast.BinaryNode{Left: uidNode(s), Right: ast.NodeValue{Value: types.NewSet(vals...)}}})
			want := g.reach(s)&sub != 0
			w.Evals(1)
			if bad != "" || got != want {
				r.report("a in set-value", s, sub, got, bad, want)
			}
		}
		r.randomMulti(rd, 6)
		w.NonTrivial(fmt.Sprintf("r/%d/%v/%d", n, g.adj, g.present))
		if i%5000 == 0 {
			w.Sample("random-graph", g.describe())
		}
	})
	c.Sample("enumerated", map[string]any{"note": "graph index i encodes edge (a->parent b) as bit a*n+b; presence mask enumerated 0..2^n-1", "example": fromBits(3, 0b010001100, 0b011).describe()})
}
