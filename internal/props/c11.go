package props

// C11 - Value equality, hashing, sets and records obey their algebraic laws.
//
// Streams
//   laws          all ordered pairs of ~300 independently constructed values (every probe and
//                 boundary scalar in 2-4 constructions): Equal vs model-key equality, hash law,
//                 type distinction, `==`/`!=` through the evaluator, 2-member sets and 1-field
//                 records built from the pair
//   laws-closure  reflexivity / symmetry / transitivity of the observed Equal matrix by itself
//   seq           EXHAUSTIVE sequences (length <= 4 / <= 5) over three 12-value collision
//                 universes: NewSet(seq) against the model set (mask): Len, Contains on all probes,
//                 Slice/All/Iterate, invariant hook, twins in other insertion orders, a panel of
//                 79 sets and all one-member-swapped neighbours, through Equal and through the
//                 evaluator (==, contains, containsAll, containsAny, set literal with duplicates)
//   chains        random long sequences over a dense 50-value block (long probe chains, wrap)
//   records       exhaustive family of records (<=3 of 6 keys incl. concatenation-ambiguous
//                 keys x colliding values): all pairs Equal, Get/Len/Map/All/Keys/Values, hook, codecs
//   uidset        exhaustive sequences over 6 entity UIDs for NewEntityUIDSet (mapset)
//   random        random nested values with colliders: twin constructions, near-miss mutants,
//                 containers of them, set operators, text and JSON codecs
//   immut         all interleavings (length <= 3 / <= 4) of 12 caller-side mutations of
//                 constructor inputs and accessor outputs against retained fingerprints

import (
	"bytes"
	"encoding/json"
	"fmt"
	"math/bits"
	"runtime/debug"
	"sort"
	"strconv"
	"strings"
	"time"

	"github.com/cedar-policy/cedar-go/types"
	xast "github.com/cedar-policy/cedar-go/x/exp/ast"
	"github.com/cedar-policy/cedar-go/x/exp/eval"

	"verif/internal/bridge"
	"verif/internal/gen"
	"verif/internal/model"
	"verif/internal/mon"
)

func init() { Registry["C11"] = C11 }

var c11Junk = types.String("\x00MUTATED-BY-CALLER")

type c11Cnt map[string]int64

func (c c11Cnt) flush(w *mon.W) {
	for k, v := range c {
		w.CountN(k, v)
	}
}

func c11BadClass(bad string) string {
	if i := strings.Index(bad, ":"); i > 0 {
		return bad[:i]
	}
	return bad
}

func c11Bool(b bool) string { return strconv.FormatBool(b) }

var (
	c11KEqual = [2]string{"Equal -> false", "Equal -> true"}
	c11KEvEq  = [2]string{"eval:== -> false", "eval:== -> true"}
	c11KEvNe  = [2]string{"eval:!= -> false", "eval:!= -> true"}
	c11KAll   = [2]string{"eval:containsAll -> false", "eval:containsAll -> true"}
	c11KAny   = [2]string{"eval:containsAny -> false", "eval:containsAny -> true"}
)

func b2i(b bool) int {
	if b {
		return 1
	}
	return 0
}

// c11Localise narrows a wrong Equal verdict on (x, y) (want is the model's answer) down to the
// smallest nested pair that still shows it.
func c11Localise(x, y types.Value, want bool) (types.Value, types.Value) {
	for depth := 0; depth < 16; depth++ {
		moved := false
		switch xs := x.(type) {
		case types.Set:
			ys, ok := y.(types.Set)
			if !ok {
				return x, y
			}
			ym := map[string]types.Value{}
			for e := range ys.All() {
				k, _ := c11KeyOf(e)
				ym[k] = e
			}
			for e := range xs.All() {
				k, _ := c11KeyOf(e)
				f, paired := ym[k]
				if want && paired && !e.Equal(f) {
					x, y, moved = e, f, true
					break
				}
				if !want && !paired {
					for _, f := range ym {
						if e.Equal(f) {
							x, y, moved = e, f, true
							break
						}
					}
					if moved {
						break
					}
				}
			}
		case types.Record:
			ys, ok := y.(types.Record)
			if !ok {
				return x, y
			}
			for k, e := range xs.All() {
				f, has := ys.Get(k)
				if !has {
					continue
				}
				ke, _ := c11KeyOf(e)
				kf, _ := c11KeyOf(f)
				if want && ke == kf && !e.Equal(f) {
					x, y, moved = e, f, true
					break
				}
				if !want && ke != kf && e.Equal(f) {
					x, y, moved = e, f, true
					break
				}
			}
		}
		if !moved {
			return x, y
		}
	}
	return x, y
}

func c11Kind(v types.Value) string {
	switch v.(type) {
	case types.Boolean:
		return "bool"
	case types.Long:
		return "long"
	case types.String:
		return "string"
	case types.EntityUID:
		return "entity"
	case types.Set:
		return "set"
	case types.Record:
		return "record"
	case types.Decimal:
		return "decimal"
	case types.IPAddr:
		return "ip"
	case types.Datetime:
		return "datetime"
	case types.Duration:
		return "duration"
	}
	return fmt.Sprintf("%T", v)
}

// c11Pair checks one ordered pair of cedar-go values against the model's verdict `want`:
// Equal both ways, hash law, `==` and `!=` through the evaluator. It returns false after
// reporting a violation.
func c11Pair(w *mon.W, cn c11Cnt, a, b types.Value, want bool, ctx func() map[string]any) bool {
	return c11PairX(w, cn, c11Wrap(a), c11Wrap(b), want, ctx, true)
}

// withEval=false: Equal both ways and the hash law only.
func c11PairX(w *mon.W, cn c11Cnt, ax, bx c11X, want bool, ctx func() map[string]any, withEval bool) bool {
	a, b := ax.V, bx.V
	report := func(sig, what string, extra map[string]any) {
		wit := ctx()
		for k, v := range extra {
			wit[k] = v
		}
		w.Violation(sig, what, wit)
	}
	ab, ba := a.Equal(b), b.Equal(a)
	cn[c11KEqual[b2i(want)]] += 2
	if ab != want || ba != want {
		x, y := a, b
		if ab == want {
			x, y = b, a
		}
		x, y = c11Localise(x, y, want)
		report(fmt.Sprintf("value:Equal(%s,%s)=%v want=%v", c11Kind(x), c11Kind(y), !want, want),
			fmt.Sprintf("%s .Equal( %s ) = %v, but the values are %s", c11Text(x), c11Text(y), !want, map[bool]string{true: "equal", false: "different"}[want]),
			map[string]any{"minimal_left": c11Text(x), "minimal_right": c11Text(y), "a.Equal(b)": ab, "b.Equal(a)": ba, "want": want})
		return false
	}
	ha, hb := types.VerifHash(a), types.VerifHash(b)
	if want && ha != hb {
		report(fmt.Sprintf("value:hash differs for equal values (%s)", c11Kind(a)),
			fmt.Sprintf("%s and %s are equal but hash to %#x and %#x (sets/records containing them would differ)", c11Text(a), c11Text(b), ha, hb),
			map[string]any{"hash_a": ha, "hash_b": hb})
		return false
	}
	if !want && ha == hb {
		cn["different values with equal hash (collision exercised)"]++
	}
	if !withEval {
		return true
	}
	for _, op := range []string{"==", "!="} {
		got, bad := c11EvalBool(c11OpNodeX(op, ax.N, bx.N))
		exp := want == (op == "==")
		if op == "==" {
			cn[c11KEvEq[b2i(exp)]]++
		} else {
			cn[c11KEvNe[b2i(exp)]]++
		}
		if bad != "" {
			report("eval:"+op+" does not yield a boolean ("+c11BadClass(bad)+")", fmt.Sprintf("%s %s %s: %s", c11Text(a), op, c11Text(b), bad), map[string]any{"op": op, "outcome": bad})
			return false
		}
		if got != exp {
			report(fmt.Sprintf("eval:%s(%s,%s) got=%v want=%v", op, c11Kind(a), c11Kind(b), got, exp), fmt.Sprintf("%s %s %s evaluates to %v", c11Text(a), op, c11Text(b), got),
				map[string]any{"op": op, "got": got, "want": exp})
			return false
		}
	}
	return true
}

// c11SetOps checks contains/containsAll/containsAny between two sets through the evaluator.
func c11SetOps(w *mon.W, cn c11Cnt, a, b types.Value, wantAllAB, wantAllBA, wantAny bool, ctx func() map[string]any) bool {
	return c11SetOpsX(w, cn, c11Wrap(a), c11Wrap(b), wantAllAB, wantAllBA, wantAny, ctx)
}

func c11SetOpsX(w *mon.W, cn c11Cnt, a, b c11X, wantAllAB, wantAllBA, wantAny bool, ctx func() map[string]any) bool {
	type q struct {
		op   string
		x, y c11X
		want bool
	}
	for _, t := range []q{{"containsAll", a, b, wantAllAB}, {"containsAll", b, a, wantAllBA}, {"containsAny", a, b, wantAny}, {"containsAny", b, a, wantAny}} {
		got, bad := c11EvalBool(c11OpNodeX(t.op, t.x.N, t.y.N))
		if t.op == "containsAll" {
			cn[c11KAll[b2i(t.want)]]++
		} else {
			cn[c11KAny[b2i(t.want)]]++
		}
		if bad != "" || got != t.want {
			wit := ctx()
			wit["op"], wit["left"], wit["right"], wit["got"], wit["want"], wit["outcome"] = t.op, c11Text(t.x.V), c11Text(t.y.V), got, t.want, bad
			sig := fmt.Sprintf("eval:%s got=%v want=%v", t.op, got, t.want)
			if bad != "" {
				sig = "eval:" + t.op + " does not yield a boolean (" + c11BadClass(bad) + ")"
			}
			w.Violation(sig, fmt.Sprintf("%s.%s(%s) evaluates to %v %s, want %v", c11Text(t.x.V), t.op, c11Text(t.y.V), got, bad, t.want), wit)
			return false
		}
	}
	return true
}

func c11Bucket(n int) string {
	switch {
	case n <= 5:
		return strconv.Itoa(n)
	case n <= 8:
		return "6-8"
	case n <= 16:
		return "9-16"
	case n <= 32:
		return "17-32"
	}
	return "33+"
}

func c11HashNear(a, b uint64) bool { return a-b <= 1 || b-a <= 1 }

// c11SeqCase checks NewSet(seq) over universe u against the model set (bit mask).
//
// light (used for the longest exhaustive sequences in the thorough tier): construction, Len,
// invariant, Contains on all probes, accessors, twins and direct Equal against the whole panel
// are kept; the evaluator operators run on a rotating third of the panel and the neighbours
// are sampled (nbSample).
func c11SeqCase(w *mon.W, u *c11Univ, probes []c11V, seq []int, nbSample int, r *mon.Rand, light bool) {
	cn := c11Cnt{}
	defer cn.flush(w)
	desc := func() string { return u.seqString(seq) }
	defer func() {
		if rec := recover(); rec != nil {
			site := mon.PanicSite(debug.Stack())
			w.Violation("set:panic@"+site, fmt.Sprintf("%s: panic: %v", desc(), rec), map[string]any{"construction": desc(), "universe": u.Name, "panic": fmt.Sprint(rec)})
		}
	}()
	vals := make([]types.Value, len(seq))
	var mask uint64
	dup := false
	for i, k := range seq {
		vals[i] = u.Vals[k].V
		if mask>>uint(k)&1 == 1 {
			dup = true
		}
		mask |= 1 << uint(k)
	}
	var s types.Set
	if len(seq) == 0 {
		s = types.NewSet()
	} else {
		s = types.NewSet(vals...)
	}
	want := bits.OnesCount64(mask)
	sx := c11Wrap(s)
	ctx := func() map[string]any {
		return map[string]any{"construction": desc(), "universe": u.Name, "model_set": u.modelSet(mask).String(), "cedar_go_set": c11Text(s)}
	}
	viol := func(sig, what string, extra map[string]any) {
		wit := ctx()
		for k, v := range extra {
			wit[k] = v
		}
		w.Violation(sig, desc()+": "+what, wit)
	}
	w.Evals(1)
	cn[w.Stream+": sequences of length "+c11Bucket(len(seq))]++
	cn[w.Stream+": distinct members "+c11Bucket(want)]++
	if dup {
		cn[w.Stream+": sequences with a duplicate"]++
	}
	collide, chain := false, false
	for i := range seq {
		for j := i + 1; j < len(seq); j++ {
			hi, hj := u.Vals[seq[i]].H, u.Vals[seq[j]].H
			if seq[i] != seq[j] && hi == hj {
				collide = true
			}
			if hi != hj && c11HashNear(hi, hj) {
				chain = true
			}
		}
	}
	if collide {
		cn[w.Stream+": sequences with two different members of equal hash"]++
	}
	if chain {
		cn[w.Stream+": sequences with members on adjacent slots"]++
	}
	if dup || collide || chain {
		w.NonTrivial(u.Name + fmt.Sprint(seq))
	}

	// immutability: the caller's slice is overwritten right after construction
	before := s.MarshalCedar()
	for i := range vals {
		vals[i] = c11Junk
	}
	if after := s.MarshalCedar(); !bytes.Equal(before, after) {
		viol("immut:NewSet input slice overwritten -> set changes", "overwriting the slice passed to NewSet changed the set", map[string]any{"before": string(before), "after": string(after)})
		return
	}
	if s.Len() != want {
		viol(fmt.Sprintf("set:Len got%swant", map[bool]string{true: ">", false: "<"}[s.Len() > want]), fmt.Sprintf("Len() = %d, the sequence has %d distinct members", s.Len(), want), map[string]any{"len": s.Len(), "want": want})
		return
	}
	if err := types.VerifSetInvariant(s); err != nil {
		viol("set:invariant("+c11InvClass(err)+")", "hash-table invariant broken: "+err.Error(), map[string]any{"invariant": err.Error()})
		return
	}
	memberTag := func(p c11V) string {
		tag := "no hash collision with a member"
		for i := range u.Vals {
			if mask>>uint(i)&1 == 1 && u.Vals[i].Key != p.Key {
				if u.Vals[i].H == p.H {
					return "hash collides with another member"
				}
				if c11HashNear(u.Vals[i].H, p.H) {
					tag = "hash adjacent to another member"
				}
			}
		}
		return tag
	}
	for pi, p := range probes {
		wantc := u.Probe[pi] >= 0 && mask>>uint(u.Probe[pi])&1 == 1
		got := s.Contains(p.V)
		if got != wantc {
			viol(fmt.Sprintf("set:Contains(%s)=%v [%s]", map[bool]string{true: "member", false: "non-member"}[wantc], got, memberTag(p)),
				fmt.Sprintf("Contains(%s) = %v, want %v", p.M, got, wantc), map[string]any{"probe": p.M.String(), "probe_hash": p.H, "got": got, "want": wantc})
			return
		}
		g2, bad := c11EvalBool(c11OpNodeX("contains", sx.N, p.X.N))
		if bad != "" || g2 != wantc {
			viol(fmt.Sprintf("eval:contains got=%v want=%v", g2, wantc), fmt.Sprintf(".contains(%s) evaluates to %v %s", p.M, g2, bad), map[string]any{"probe": p.M.String(), "got": g2, "want": wantc, "outcome": bad})
			return
		}
	}
	for pi := range probes {
		if u.Probe[pi] >= 0 && mask>>uint(u.Probe[pi])&1 == 1 {
			cn["Contains + eval:contains on probes -> true"] += 2
		} else {
			cn["Contains + eval:contains on probes -> false"] += 2
		}
	}

	// accessors enumerate exactly the distinct members
	checkMembers := func(name string, xs []types.Value) bool {
		var gm uint64
		for _, e := range xs {
			k, bad := c11KeyOf(e)
			idx, ok := u.ByKey[k]
			if bad != "" || !ok {
				viol("set:"+name+" yields a foreign value", fmt.Sprintf("%s yields %s which was never inserted", name, c11Text(e)), map[string]any{"accessor": name, "value": c11Text(e)})
				return false
			}
			if gm>>uint(idx)&1 == 1 {
				viol("set:"+name+" yields a member twice", fmt.Sprintf("%s yields %s twice", name, c11Text(e)), map[string]any{"accessor": name, "value": c11Text(e)})
				return false
			}
			gm |= 1 << uint(idx)
		}
		if gm != mask {
			viol("set:"+name+" misses a member", fmt.Sprintf("%s yields %s", name, u.modelSet(gm)), map[string]any{"accessor": name, "yields": u.modelSet(gm).String()})
			return false
		}
		return true
	}
	sl := s.Slice()
	if !checkMembers("Slice()", sl) {
		return
	}
	var all, it []types.Value
	for e := range s.All() {
		all = append(all, e)
	}
	s.Iterate(func(e types.Value) bool { it = append(it, e); return true })
	if !checkMembers("All()", all) || !checkMembers("Iterate()", it) {
		return
	}
	n := 0
	s.Iterate(func(types.Value) bool { n++; return false })
	for range s.All() {
		n++
		break
	}
	if want > 0 && n != 2 {
		viol("set:iteration does not stop when asked to", "Iterate/All ignore the stop request", nil)
		return
	}
	// immutability: accessor outputs are the caller's to overwrite
	for i := range sl {
		sl[i] = c11Junk
	}
	if len(sl) > 0 {
		sl = append(sl[:0], c11Junk)
	}
	for i := range all {
		all[i] = c11Junk
	}
	if after := s.MarshalCedar(); !bytes.Equal(before, after) {
		viol("immut:Slice()/All() output overwritten -> set changes", "overwriting the slice returned by Slice() changed the set", map[string]any{"before": string(before), "after": string(after)})
		return
	}
	cn["immut: ctor-input and Slice() overwrite per sequence"]++

	// twins: the same members in other insertion orders, with and without duplicates
	canon := types.NewSet(u.members(mask)...)
	rv := make([]types.Value, 0, len(seq))
	for i := len(seq) - 1; i >= 0; i-- {
		rv = append(rv, u.Vals[seq[i]].V)
	}
	rev := types.NewSet(rv...)
	els := make([]xast.IsNode, len(seq))
	for i, k := range seq {
		els[i] = c11NV(u.Vals[k].V)
	}
	litv, err := eval.Eval(xast.NodeTypeSet{Elements: els}, c11Env)
	lit, isSet := litv.(types.Set)
	if err != nil || !isSet {
		viol("eval:set literal does not yield a set", fmt.Sprintf("set literal evaluates to %v / %v", litv, err), nil)
		return
	}
	for ti, t := range []types.Set{canon, rev, lit, s} {
		name := []string{"sorted distinct members", "reversed sequence", "set literal through the evaluator", "itself"}[ti]
		if e := types.VerifSetInvariant(t); e != nil {
			viol("set:invariant("+c11InvClass(e)+")", "hash-table invariant broken in twin ("+name+"): "+e.Error(), map[string]any{"invariant": e.Error(), "twin": name})
			return
		}
		tt := t
		tx := c11Wrap(t)
		if !c11PairX(w, cn, sx, tx, true, func() map[string]any {
			m := ctx()
			m["twin"], m["twin_text"] = name, c11Text(tt)
			return m
		}, true) {
			return
		}
		if !c11SetOpsX(w, cn, sx, tx, true, true, mask != 0, func() map[string]any { m := ctx(); m["twin"] = name; return m }) {
			return
		}
	}

	// panel: fixed sets of the universe
	for pi := range u.Panel {
		P := &u.Panel[pi]
		eq := P.Mask == mask
		other, ox := P.Fwd, P.FwdX
		if pi&1 == 1 {
			other, ox = P.Rev, P.RevX
		}
		pctx := func() map[string]any {
			m := ctx()
			m["other_set"], m["other_model"] = c11Text(other), u.modelSet(P.Mask).String()
			return m
		}
		full := !light || (pi+w.Index)%3 == 0
		if !c11PairX(w, cn, sx, ox, eq, pctx, full) {
			return
		}
		if !full {
			continue
		}
		if !c11SetOpsX(w, cn, sx, ox, P.Mask&^mask == 0, mask&^P.Mask == 0, mask&P.Mask != 0, pctx) {
			return
		}
	}

	// neighbours: one member swapped for a non-member (same length; often same summed hash),
	// one member dropped, one non-member added - built along the same sequence
	build := func(from, to int, extra int) (types.Set, uint64) {
		xs := make([]types.Value, 0, len(seq)+1)
		var m uint64
		for _, k := range seq {
			if k == from {
				if to < 0 {
					continue
				}
				k = to
			}
			xs = append(xs, u.Vals[k].V)
			m |= 1 << uint(k)
		}
		if extra >= 0 {
			xs = append(xs, u.Vals[extra].V)
			m |= 1 << uint(extra)
		}
		return types.NewSet(xs...), m
	}
	type nb struct{ from, to, extra int }
	var nbs []nb
	for f := range u.Vals {
		if mask>>uint(f)&1 == 0 {
			nbs = append(nbs, nb{-1, -1, f})
			continue
		}
		nbs = append(nbs, nb{f, -1, -1})
		for t := range u.Vals {
			if mask>>uint(t)&1 == 0 {
				nbs = append(nbs, nb{f, t, -1})
			}
		}
	}
	if nbSample > 0 && len(nbs) > nbSample {
		for i := 0; i < nbSample; i++ {
			j := i + r.Intn(len(nbs)-i)
			nbs[i], nbs[j] = nbs[j], nbs[i]
		}
		nbs = nbs[:nbSample]
	}
	hs := types.VerifHash(s)
	for _, x := range nbs {
		o, om := build(x.from, x.to, x.extra)
		if om == mask {
			continue
		}
		if types.VerifHash(o) == hs && bits.OnesCount64(om) == want {
			cn["neighbour set with equal length and equal summed hash (Equal must look at members)"]++
		}
		nctx := func() map[string]any {
			m := ctx()
			m["other_set"], m["other_model"] = c11Text(o), u.modelSet(om).String()
			return m
		}
		if e := types.VerifSetInvariant(o); e != nil {
			viol("set:invariant("+c11InvClass(e)+")", "hash-table invariant broken in neighbour set: "+e.Error(), map[string]any{"invariant": e.Error(), "other_model": u.modelSet(om).String()})
			return
		}
		oxx := c11Wrap(o)
		if !c11PairX(w, cn, sx, oxx, false, nctx, true) {
			return
		}
		if !c11SetOpsX(w, cn, sx, oxx, om&^mask == 0, mask&^om == 0, mask&om != 0, nctx) {
			return
		}
	}
	if w.Index%4999 == 7 {
		w.Sample(w.Stream, map[string]any{"construction": desc(), "cedar_go_set": c11Text(s), "len": s.Len(), "hash": fmt.Sprintf("%#x", hs), "universe": u.Name})
	}
}

// c11SeqDecode maps an index to (universe, sequence) for the exhaustive stream: all sequences
// of length 0..maxLen over 12 values, shortest first.
func c11SeqDecode(idx, base, maxLen int) (ui int, seq []int) {
	per := 0
	p := 1
	for l := 0; l <= maxLen; l++ {
		per += p
		p *= base
	}
	ui = idx / per
	idx %= per
	p = 1
	for l := 0; l <= maxLen; l++ {
		if idx < p {
			seq = make([]int, l)
			for k := l - 1; k >= 0; k-- {
				seq[k] = idx % base
				idx /= base
			}
			return
		}
		idx -= p
		p *= base
	}
	panic("c11: sequence index out of range")
}

func c11SeqCount(base, maxLen int) int {
	per, p := 0, 1
	for l := 0; l <= maxLen; l++ {
		per += p
		p *= base
	}
	return per
}

// ---------------------------------------------------------------------------------------

func C11(c *mon.Ctx) {
	// the monitor allocates many short-lived small objects and keeps almost nothing alive
	defer debug.SetGCPercent(debug.SetGCPercent(800))
	// the check process runs with a non-UTC local zone (set before any worker starts): the text
	// and JSON forms of values that hold datetimes must not depend on it
	time.Local = time.FixedZone("verif-0930", -(9*3600 + 1800))
	c.Rule = "The check process runs with a non-UTC local time zone. Oracle: the harness's model values (canonical sorted sets/records, equality = Val.Key() equality); cedar-go values are read back through public accessors only. " +
		"seq: ALL sequences of length <=4 (quick) / <=5 (thorough) over three 12-value universes built to collide in the internal hash (hash 1 family; wrap-around 2^64-1 -> 0; FNV string/entity/record/long collisions), each " +
		"checked for Len, Contains on every probe value (direct and through the evaluator), Slice/All/Iterate, the hash-table invariant hook, equality with twins in other insertion orders and a set literal through the evaluator, " +
		"and ==/!=/containsAll/containsAny against a panel of 79 sets and every one-member-swapped/dropped/added neighbour (length-5 sequences: direct Equal against the whole panel, evaluator operators on a rotating third of it, 16 sampled neighbours). chains: random sequences up to length 40 over a dense 50-value block. " +
		"records: every record with <=3 of 6 keys over 4/6 colliding values, all pairs. uidset: all sequences over 6 UIDs. laws: all ordered pairs of independently constructed values + closure laws of the observed matrix. " +
		"random: nested values with hash colliders, twin constructions, near-miss mutants, containers, codecs. immut: every interleaving of 12 caller-side mutations (length <=3 / <=4) against retained fingerprints. " +
		"distinct_nontrivial = distinct cases in which an insertion meets an occupied slot (duplicate, equal hash or adjacent slot), a record has >=1 key, a random value is composite, or a mutation interleaving runs."
	c.Assume = []string{
		"the internal hash is observed through types.VerifHash only to build colliding inputs and to check `equal values hash equally`; it is never the oracle for equality or membership",
		"codec clause (text/JSON forms of equal values decode to equal values) is asserted on values whose scalars are outside the known C12 printing defects (datetime in the first day of the int64 range, IPv4-mapped IPv6), whose entity types are Cedar paths, whose strings are valid UTF-8 and whose records have no __entity/__extn key (JSON escape ambiguity)",
		"member order of MarshalCedar/MarshalJSON of equal sets may differ; only decoded values are compared",
		"alternative scalar constructions (ParseDecimal, ParseDatetime, NewDatetime(time), ...) are used as equal twins only if they read back to the same model value (their exactness is C12's subject)",
	}
	c.Floor = 15000

	us := c11Universes()
	block := c11Block()
	probes := c11Probes(append(append([]*c11Univ{}, us...), block))
	c11Pool = probes
	for _, u := range append(append([]*c11Univ{}, us...), block) {
		u.index(probes)
		for _, miss := range u.Expect {
			c.Inconclusive("universe " + u.Name + ": expected hash relation absent: " + miss)
		}
	}
	for _, u := range us {
		// panel: all subsets with <= 2 members, plus the full universe
		u.Panel = append(u.Panel, u.mkPanel(0))
		for i := range u.Vals {
			u.Panel = append(u.Panel, u.mkPanel(1<<uint(i)))
		}
		for i := range u.Vals {
			for j := i + 1; j < len(u.Vals); j++ {
				u.Panel = append(u.Panel, u.mkPanel(1<<uint(i)|1<<uint(j)))
			}
		}
		u.Panel = append(u.Panel, u.mkPanel(1<<uint(len(u.Vals))-1))
		c.Extra["universe_"+u.Name+"_hashes"] = u.hashTable()
	}
	{
		pr := c.Rand("block-panel", 0)
		for k := 0; k < 40; k++ {
			var m uint64
			for j := r0(pr, 12); j > 0; j-- {
				m |= 1 << uint(pr.Intn(len(block.Vals)))
			}
			block.Panel = append(block.Panel, block.mkPanel(m))
		}
	}
	c.Extra["probe_values"] = len(probes)
	c.Extra["block_universe_values"] = len(block.Vals)

	walls := map[string]float64{}
	c.Extra["stream_wall_s"] = walls
	t0 := time.Now()
	lap := func(name string) { walls[name] = time.Since(t0).Seconds(); t0 = time.Now() }
	c11Laws(c, probes)
	lap("laws")

	maxLen := 4
	if c.Thorough() {
		maxLen = 5
	}
	per := c11SeqCount(12, maxLen)
	c.Extra["exhaustive_sequences_per_universe"] = per
	c.Extra["exhaustive_max_length"] = maxLen
	c.ParFor("1-seq", per*len(us), func(w *mon.W, i int) {
		ui, seq := c11SeqDecode(i, 12, maxLen)
		if len(seq) >= 5 {
			c11SeqCase(w, us[ui], probes, seq, 16, w.RandSub("nb"), true)
			return
		}
		c11SeqCase(w, us[ui], probes, seq, 0, nil, false)
	})
	c.SetExhaustive(true)
	lap("seq")

	c.ParFor("5-chains", c.N(4000, 80000), func(w *mon.W, i int) {
		r := w.Rand()
		n := 2 + r.Intn(39)
		seq := make([]int, n)
		// draw from a window of the block so that chains are dense
		lo := r.Intn(len(block.Vals))
		span := 4 + r.Intn(len(block.Vals))
		for k := range seq {
			if k > 0 && r.P(0.15) {
				seq[k] = seq[r.Intn(k)]
			} else {
				seq[k] = (lo + r.Intn(span)) % len(block.Vals)
			}
		}
		c11SeqCase(w, block, probes, seq, 24, w.RandSub("nb"), false)
	})

	lap("chains")
	c11Records(c)
	lap("records")
	c11UIDSets(c)
	lap("uidset")
	c11Random(c)
	lap("random")
	c11Immut(c, probes)
	lap("immut")
}

func r0(r *mon.Rand, n int) int { return r.Intn(n + 1) }

// ---------------------------------------------------------------------------------------
// laws

func c11LawValues(probes []c11V) []c11V {
	var ms []model.Val
	seen := map[string]bool{}
	add := func(m model.Val) {
		if k := m.Key(); !seen[k] {
			seen[k] = true
			ms = append(ms, m)
		}
	}
	for _, p := range probes {
		add(p.M)
	}
	for _, ip := range gen.IPs {
		add(ip)
	}
	for _, s := range gen.Strings[:12] {
		add(model.Str(s))
	}
	for _, x := range gen.Decimals {
		add(model.Decimal(x))
	}
	for _, x := range gen.Datetimes {
		add(model.Datetime(x))
	}
	for _, x := range gen.Durations {
		add(model.Duration(x))
	}
	for _, x := range gen.Longs {
		add(model.Long(x))
	}
	for _, t := range gen.EntityTypes {
		for _, id := range gen.EntityIDs[:5] {
			add(model.Ent(t, id))
		}
	}
	add(model.Ent("AB", "c"))
	add(model.Ent("A", "Bc"))
	add(model.Str("ABc"))
	var out []c11V
	for _, m := range ms {
		out = append(out, c11Variants(m)...)
	}
	return out
}

func c11Laws(c *mon.Ctx, probes []c11V) {
	P := c11LawValues(probes)
	c.Extra["law_values"] = len(P)
	c.ParFor("2-laws", len(P), func(w *mon.W, i int) {
		cn := c11Cnt{}
		defer cn.flush(w)
		a := P[i]
		w.Evals(1)
		w.NonTrivial("law-row:" + a.Key + "/" + a.How)
		if k, bad := c11KeyOf(a.V); bad != "" || k != a.Key {
			w.Violation("construct: value read back through accessors differs ("+a.M.K.String()+")", fmt.Sprintf("%s built by %s reads back as a different value %s", a.M, a.How, bad), map[string]any{"value": a.M.String(), "how": a.How})
			return
		}
		if _, err := c11Invariants(a.V); err != nil {
			w.Violation("value:invariant("+c11InvClass(err)+")", fmt.Sprintf("%s (%s): %v", a.M, a.How, err), map[string]any{"value": a.M.String(), "how": a.How, "invariant": err.Error()})
			return
		}
		for j := range P {
			b := P[j]
			want := a.Key == b.Key
			ctx := func() map[string]any {
				return map[string]any{"a": a.M.String(), "a_built_by": a.How, "b": b.M.String(), "b_built_by": b.How, "a_text": c11Text(a.V), "b_text": c11Text(b.V)}
			}
			if a.M.K != b.M.K {
				cn["laws: pairs of different types"]++
			} else if want {
				cn["laws: equal pairs ("+a.M.K.String()+")"]++
			} else {
				cn["laws: different pairs of the same type ("+a.M.K.String()+")"]++
			}
			if !c11Pair(w, cn, a.V, b.V, want, ctx) {
				return
			}
			// a two-member sequence and one-field records built from the pair: for every equal
			// pair, every hash-colliding pair and every third other pair
			if !want && a.H != b.H && (i+j)%3 != 0 {
				continue
			}
			cn["laws: pairs also checked as NewSet(a,b), {k:a}=={k:b}, [a]==[b]"]++
			s := types.NewSet(a.V, b.V)
			wl := 2
			if want {
				wl = 1
			}
			if s.Len() != wl || !s.Contains(a.V) || !s.Contains(b.V) {
				m := ctx()
				m["set"], m["len"] = c11Text(s), s.Len()
				w.Violation(fmt.Sprintf("set:NewSet(a,b) of %s values wrong", map[bool]string{true: "equal", false: "different"}[want]), fmt.Sprintf("NewSet(%s, %s) = %s (Len %d, want %d)", a.M, b.M, c11Text(s), s.Len(), wl), m)
				return
			}
			if err := types.VerifSetInvariant(s); err != nil {
				m := ctx()
				m["invariant"] = err.Error()
				w.Violation("set:invariant("+c11InvClass(err)+")", fmt.Sprintf("NewSet(%s, %s): %v", a.M, b.M, err), m)
				return
			}
			ra := types.NewRecord(types.RecordMap{"k": a.V})
			rb := types.NewRecord(types.RecordMap{"k": b.V})
			rc := types.NewRecord(types.RecordMap{"K": b.V})
			if !c11Pair(w, cn, ra, rb, want, ctx) || !c11Pair(w, cn, ra, rc, false, ctx) {
				return
			}
			if !c11Pair(w, cn, types.NewSet(a.V), types.NewSet(b.V), want, ctx) {
				return
			}
		}
		if i%37 == 0 {
			w.Sample("laws", map[string]any{"value": a.M.String(), "built_by": a.How, "hash": fmt.Sprintf("%#x", a.H), "compared_with": len(P)})
		}
	})
	// the observed matrix by itself: reflexive, symmetric, transitive
	c.Seq("2-laws-closure", 1, func(w *mon.W, _ int) {
		n := len(P)
		obs := make([][]bool, n)
		for i := range obs {
			obs[i] = make([]bool, n)
			for j := range obs[i] {
				obs[i][j] = P[i].V.Equal(P[j].V)
			}
		}
		w.Evals(1)
		w.NonTrivial("closure")
		name := func(i int) string { return P[i].M.String() + " [" + P[i].How + "]" }
		var classes, triples int64
		for i := 0; i < n; i++ {
			if !obs[i][i] {
				w.Violation("law:Equal not reflexive ("+P[i].M.K.String()+")", name(i)+" is not Equal to itself", map[string]any{"value": name(i)})
				return
			}
			for j := 0; j < n; j++ {
				if obs[i][j] != obs[j][i] {
					w.Violation("law:Equal not symmetric ("+P[i].M.K.String()+","+P[j].M.K.String()+")", fmt.Sprintf("%s.Equal(%s)=%v but the converse is %v", name(i), name(j), obs[i][j], obs[j][i]), map[string]any{"a": name(i), "b": name(j)})
					return
				}
				if !obs[i][j] {
					continue
				}
				if i < j {
					classes++
				}
				for k := 0; k < n; k++ {
					if obs[j][k] {
						triples++
						if !obs[i][k] {
							w.Violation("law:Equal not transitive", fmt.Sprintf("%s == %s == %s but first != third", name(i), name(j), name(k)), map[string]any{"a": name(i), "b": name(j), "c": name(k)})
							return
						}
					}
				}
			}
		}
		w.CountN("closure: reflexive checks", int64(n))
		w.CountN("closure: symmetric pair checks", int64(n*n))
		w.CountN("closure: equal pairs of different constructions", classes)
		w.CountN("closure: transitive triples with both premises true", triples)
	})
}

// ---------------------------------------------------------------------------------------
// records

type c11Rec struct {
	M    model.Val
	A, B types.Record
	H    uint64
}

func c11RecordFamily(vals []model.Val) []c11Rec {
	keys := []string{"a", "b", "c", "", c11KeyAB, c11KeyBC}
	var out []c11Rec
	mk := func(ks []string, vs []model.Val) {
		m := model.Record(ks, vs)
		ma := types.RecordMap{}
		for i, k := range ks {
			ma[types.String(k)] = bridge.ToValue(vs[i])
		}
		// B: filled in reverse, through a map that held (and lost) other keys first
		mb := types.RecordMap{"zz1": c11Junk, "zz2": c11Junk, "a": c11Junk}
		delete(mb, "zz1")
		delete(mb, "zz2")
		delete(mb, "a")
		for i := len(ks) - 1; i >= 0; i-- {
			mb[types.String(ks[i])] = c11Variants(vs[i])[len(c11Variants(vs[i]))-1].V
		}
		r := c11Rec{M: m, A: types.NewRecord(ma), B: types.NewRecord(mb)}
		r.H = types.VerifHash(r.A)
		out = append(out, r)
	}
	var rec func(start int, ks []string, vs []model.Val)
	rec = func(start int, ks []string, vs []model.Val) {
		mk(ks, vs)
		if len(ks) == 3 {
			return
		}
		for k := start; k < len(keys); k++ {
			for _, v := range vals {
				rec(k+1, append(append([]string{}, ks...), keys[k]), append(append([]model.Val{}, vs...), v))
			}
		}
	}
	rec(0, nil, nil)
	return out
}

func c11Records(c *mon.Ctx) {
	vals := []model.Val{model.Long(1), model.Bool(true), model.Decimal(1), model.Set(model.Long(1))}
	if c.Thorough() {
		vals = append(vals, model.Long(2), model.Rec("a", model.Long(1)))
	}
	fam := c11RecordFamily(vals)
	c.Extra["record_family"] = len(fam)
	allKeys := []string{"a", "b", "c", "", c11KeyAB, c11KeyBC, "zz", "A"}
	c.ParFor("3-records", len(fam), func(w *mon.W, i int) {
		cn := c11Cnt{}
		defer cn.flush(w)
		ri := fam[i]
		w.Evals(1)
		if len(ri.M.Keys) > 0 {
			w.NonTrivial("rec:" + ri.M.Key())
		}
		defer func() {
			if rec := recover(); rec != nil {
				w.Violation("record:panic@"+mon.PanicSite(debug.Stack()), fmt.Sprintf("%s: panic: %v", ri.M, rec), map[string]any{"record": ri.M.String(), "panic": fmt.Sprint(rec)})
			}
		}()
		for vi, r := range []types.Record{ri.A, ri.B} {
			how := []string{"map filled in key order", "map filled in reverse after deletions, values built by other constructors"}[vi]
			viol := func(sig, what string, extra map[string]any) {
				wit := map[string]any{"record": ri.M.String(), "built_by": how, "cedar_go_record": c11Text(r)}
				for k, v := range extra {
					wit[k] = v
				}
				w.Violation(sig, ri.M.String()+": "+what, wit)
			}
			if r.Len() != len(ri.M.Keys) {
				viol("record:Len wrong", fmt.Sprintf("Len() = %d", r.Len()), nil)
				return
			}
			if err := types.VerifRecordInvariant(r); err != nil {
				viol("record:invariant("+c11InvClass(err)+")", err.Error(), nil)
				return
			}
			for _, k := range allKeys {
				got, ok := r.Get(types.String(k))
				wv, wok := ri.M.Get(k)
				cn["record:Get -> "+c11Bool(wok)]++
				if ok != wok {
					viol(fmt.Sprintf("record:Get(present=%v) reports %v", wok, ok), fmt.Sprintf("Get(%q) ok=%v", k, ok), map[string]any{"key": k})
					return
				}
				if ok {
					if gk, bad := c11KeyOf(got); bad != "" || gk != wv.Key() {
						viol("record:Get returns a wrong value", fmt.Sprintf("Get(%q) = %s, want %s", k, c11Text(got), wv), map[string]any{"key": k, "got": c11Text(got)})
						return
					}
				} else if got != nil {
					viol("record:Get(absent) returns a non-nil value", fmt.Sprintf("Get(%q) = %s, false", k, c11Text(got)), map[string]any{"key": k})
					return
				}
			}
			if k, bad := c11KeyOf(r); bad != "" || k != ri.M.Key() {
				viol("record:All() does not enumerate the fields", "All() yields other fields than were put in "+bad, nil)
				return
			}
			mp := r.Map()
			var ks, ks2, ks3 []string
			nvals := 0
			for k, v := range mp {
				ks = append(ks, string(k))
				wv, _ := ri.M.Get(string(k))
				if gk, _ := c11KeyOf(v); gk != wv.Key() {
					viol("record:Map() holds a wrong value", fmt.Sprintf("Map()[%q] = %s", k, c11Text(v)), nil)
					return
				}
			}
			for k := range r.Keys() {
				ks2 = append(ks2, string(k))
			}
			r.Iterate(func(k types.String, _ types.Value) bool { ks3 = append(ks3, string(k)); return true })
			for range r.Values() {
				nvals++
			}
			sort.Strings(ks)
			sort.Strings(ks2)
			sort.Strings(ks3)
			wantKs := strings.Join(ri.M.Keys, "\x1f")
			if strings.Join(ks, "\x1f") != wantKs || strings.Join(ks2, "\x1f") != wantKs || strings.Join(ks3, "\x1f") != wantKs || nvals != len(ri.M.Keys) {
				viol("record:Map()/Keys()/Iterate()/Values() enumerate other keys", fmt.Sprintf("Map keys %q Keys() %q Iterate %q Values %d", ks, ks2, ks3, nvals), nil)
				return
			}
			// immutability of the accessor output
			before := r.MarshalCedar()
			for k := range mp {
				mp[k] = c11Junk
			}
			mp["injected"] = c11Junk
			delete(mp, "a")
			if after := r.MarshalCedar(); !bytes.Equal(before, after) {
				viol("immut:Record.Map() output mutated -> record changes", "mutating the map returned by Map() changed the record", map[string]any{"before": string(before), "after": string(after)})
				return
			}
			if err := types.VerifRecordInvariant(r); err != nil {
				viol("immut:Record.Map() output mutated -> record changes", "mutating the map returned by Map() changed the record: "+err.Error(), nil)
				return
			}
			// codecs
			if !c11Codecs(w, cn, ri.M, r, ri.A) {
				return
			}
		}
		for j := i; j < len(fam); j++ {
			rj := fam[j]
			want := i == j
			if !want && rj.H == ri.H {
				if len(rj.M.Keys) == len(ri.M.Keys) {
					cn["records: different records with equal length and equal hash (Equal must look at the fields)"]++
				} else {
					cn["records: different records with equal hash, different length"]++
				}
			}
			ctx := func() map[string]any {
				return map[string]any{"a": ri.M.String(), "b": rj.M.String(), "a_text": c11Text(ri.A), "b_text": c11Text(rj.B)}
			}
			ab, ba := ri.A.Equal(rj.B), rj.B.Equal(ri.A)
			cn["record Equal -> "+c11Bool(want)] += 2
			if want || ab != want || ba != want || rj.H == ri.H || (i+j)%16 == 0 {
				// full check (with hash law and evaluator) on every equal pair, every hash-equal pair, every 16th other pair and on any wrong verdict
				if !c11Pair(w, cn, ri.A, rj.B, want, ctx) {
					return
				}
			}
		}
		if i%499 == 0 {
			w.Sample("records", map[string]any{"record": ri.M.String(), "text": c11Text(ri.A), "hash": fmt.Sprintf("%#x", ri.H), "compared_with": len(fam) - i})
		}
	})
}

// c11Codecs: the text and JSON forms of v (a construction of m) decode to values equal to v
// and to the twin.
func c11Codecs(w *mon.W, cn c11Cnt, m model.Val, v, twin types.Value) bool {
	if why := c11CodecDomain(m); why != "" {
		cn["codec: outside domain: "+why]++
		return true
	}
	type form struct {
		name string
		enc  func(types.Value) (string, string)
		dec  func(string) (types.Value, string)
	}
	forms := []form{
		{"text", func(x types.Value) (string, string) { return c11Text(x), "" }, c11DecodeText},
		{"json", func(x types.Value) (string, string) { b, bad := c11EncodeJSON(x); return string(b), bad },
			func(s string) (types.Value, string) { return c11DecodeJSON([]byte(s)) }},
	}
	for _, f := range forms {
		var dec [2]types.Value
		for k, x := range []types.Value{v, twin} {
			enc, bad := f.enc(x)
			if bad != "" {
				w.Violation("codec:"+f.name+" encoding fails ("+c11BadClass(bad)+")", fmt.Sprintf("%s: %s", m, bad), map[string]any{"value": m.String(), "outcome": bad})
				return false
			}
			d, bad := f.dec(enc)
			if bad != "" {
				cls := c11CodecLeaf(m, f.name)
				w.Violation("codec:"+f.name+" form does not decode ("+c11BadClass(bad)+") ["+cls+"]", fmt.Sprintf("%s form %s of %s: %s", f.name, enc, m, bad), map[string]any{"value": m.String(), "form": enc, "outcome": bad})
				return false
			}
			dec[k] = d
			cn["codec:"+f.name+" decoded"]++
			if gk, bad := c11KeyOf(d); bad != "" || gk != m.Key() {
				cls := c11CodecLeaf(m, f.name)
				w.Violation("codec:"+f.name+" form decodes to a different value ["+cls+"]", fmt.Sprintf("%s form %s of %s decodes to %s", f.name, enc, m, c11Text(d)), map[string]any{"value": m.String(), "form": enc, "decoded": c11Text(d)})
				return false
			}
		}
		ctx := func() map[string]any {
			return map[string]any{"value": m.String(), "form": f.name, "decoded_1": c11Text(dec[0]), "decoded_2": c11Text(dec[1])}
		}
		if !c11Pair(w, cn, dec[0], dec[1], true, ctx) || !c11Pair(w, cn, dec[0], v, true, ctx) || !c11Pair(w, cn, dec[1], v, true, ctx) {
			return false
		}
		if _, err := c11Invariants(dec[0]); err != nil {
			m2 := ctx()
			m2["invariant"] = err.Error()
			w.Violation("codec:decoded value breaks invariant("+c11InvClass(err)+")", fmt.Sprintf("%s form of %s decodes to a value with a broken invariant: %v", f.name, m, err), m2)
			return false
		}
	}
	return true
}

// c11CodecLeaf localises a codec failure to the first leaf (or smallest part) of m whose own
// form does not come back, and returns its class for the signature.
func c11CodecLeaf(m model.Val, form string) string {
	ok := func(x model.Val) bool {
		v := bridge.ToValue(x)
		var d types.Value
		var bad string
		if form == "text" {
			d, bad = c11DecodeText(c11Text(v))
		} else {
			b, bad2 := c11EncodeJSON(v)
			if bad2 != "" {
				return false
			}
			d, bad = c11DecodeJSON(b)
		}
		if bad != "" {
			return false
		}
		k, bad := c11KeyOf(d)
		return bad == "" && k == x.Key()
	}
	cur := m
	for {
		moved := false
		var kids []model.Val
		kids = append(kids, cur.Elems...)
		kids = append(kids, cur.Vals...)
		for _, k := range kids {
			if !ok(k) {
				cur, moved = k, true
				break
			}
		}
		if !moved {
			break
		}
	}
	return "minimal part: " + feature(cur)
}

// ---------------------------------------------------------------------------------------
// entity uid sets (internal/mapset)

func c11UIDSets(c *mon.Ctx) {
	uids := []types.EntityUID{types.NewEntityUID("U", "a"), types.NewEntityUID("U", "b"), types.NewEntityUID("Ua", ""),
		types.NewEntityUID("G", "a"), types.NewEntityUID("U", ""), types.NewEntityUID("NS::T", "a")}
	extra := []types.EntityUID{types.NewEntityUID("", "Ua"), types.NewEntityUID("u", "a"), {}}
	junk := types.NewEntityUID("MUTATED", "x")
	maxLen := 4
	if c.Thorough() {
		maxLen = 6
	}
	per := c11SeqCount(len(uids), maxLen)
	panel := make([]types.EntityUIDSet, 1<<len(uids))
	mkMask := func(mask int) []types.EntityUID {
		xs := []types.EntityUID{}
		for i := range uids {
			if mask>>i&1 == 1 {
				xs = append(xs, uids[i])
			}
		}
		return xs
	}
	for m := range panel {
		panel[m] = types.NewEntityUIDSet(mkMask(m)...)
	}
	maskOf := func(xs []types.EntityUID) (int, string) {
		m := 0
		for _, x := range xs {
			found := false
			for i, u := range uids {
				if u.Type == x.Type && u.ID == x.ID {
					if m>>i&1 == 1 {
						return 0, "member " + x.String() + " twice"
					}
					m |= 1 << i
					found = true
				}
			}
			if !found {
				return 0, "foreign member " + x.String()
			}
		}
		return m, ""
	}
	c.Extra["uidset_sequences"] = per
	c.ParFor("4-uidset", per, func(w *mon.W, i int) {
		_, seq := c11SeqDecode(i, len(uids), maxLen)
		in := make([]types.EntityUID, len(seq))
		mask := 0
		parts := make([]string, len(seq))
		for k, x := range seq {
			in[k] = uids[x]
			mask |= 1 << x
			parts[k] = uids[x].String()
		}
		desc := "NewEntityUIDSet(" + strings.Join(parts, ", ") + ")"
		var s types.EntityUIDSet
		if len(in) == 0 {
			s = types.NewEntityUIDSet()
		} else {
			s = types.NewEntityUIDSet(in...)
		}
		w.Evals(1)
		w.Count(fmt.Sprintf("uidset: sequences of length %d", len(seq)))
		if len(seq) != bits.OnesCount(uint(mask)) {
			w.NonTrivial("uidset:" + desc)
		}
		viol := func(sig, what string) {
			w.Violation(sig, desc+": "+what, map[string]any{"construction": desc, "want_members": fmt.Sprint(mkMask(mask))})
		}
		fp := func() string {
			b, _ := s.MarshalJSON()
			var sb strings.Builder
			sb.Write(b)
			fmt.Fprintf(&sb, "|%d|", s.Len())
			for _, u := range append(append([]types.EntityUID{}, uids...), extra...) {
				sb.WriteString(c11Bool(s.Contains(u))[:1])
			}
			return sb.String()
		}
		before := fp()
		for k := range in {
			in[k] = junk
		}
		if fp() != before {
			viol("immut:NewEntityUIDSet input slice overwritten -> set changes", "overwriting the input slice changed the set")
			return
		}
		want := bits.OnesCount(uint(mask))
		if s.Len() != want {
			viol("uidset:Len wrong", fmt.Sprintf("Len() = %d want %d", s.Len(), want))
			return
		}
		for k, u := range uids {
			if s.Contains(u) != (mask>>k&1 == 1) {
				viol(fmt.Sprintf("uidset:Contains(member=%v) wrong", mask>>k&1 == 1), fmt.Sprintf("Contains(%s) = %v", u, s.Contains(u)))
				return
			}
		}
		for _, u := range extra {
			if s.Contains(u) {
				viol("uidset:Contains(member=false) wrong", fmt.Sprintf("Contains(%s) = true", u))
				return
			}
		}
		sl := s.Slice()
		var all, it []types.EntityUID
		for u := range s.All() {
			all = append(all, u)
		}
		s.Iterate(func(u types.EntityUID) bool { it = append(it, u); return true })
		for k, xs := range [][]types.EntityUID{sl, all, it} {
			if gm, bad := maskOf(xs); bad != "" || gm != mask {
				viol("uidset:"+[]string{"Slice()", "All()", "Iterate()"}[k]+" does not enumerate the distinct members", fmt.Sprintf("yields %v %s", xs, bad))
				return
			}
		}
		for k := range sl {
			sl[k] = junk
		}
		for k := range all {
			all[k] = junk
		}
		if fp() != before {
			viol("immut:EntityUIDSet.Slice() output overwritten -> set changes", "overwriting Slice()/All() output changed the set")
			return
		}
		for pm, p := range panel {
			if e1, e2, we := s.Equal(p), p.Equal(s), pm == mask; e1 != we || e2 != we {
				viol(fmt.Sprintf("uidset:Equal got=%v want=%v", !we, we), fmt.Sprintf("this.Equal(%v) = %v, the converse = %v, want %v", mkMask(pm), e1, e2, we))
				return
			}
			if i1, i2, wi := s.Intersects(p), p.Intersects(s), pm&mask != 0; i1 != wi || i2 != wi {
				viol(fmt.Sprintf("uidset:Intersects got=%v want=%v", !wi, wi), fmt.Sprintf("this.Intersects(%v) = %v, the converse = %v, want %v", mkMask(pm), i1, i2, wi))
				return
			}
		}
		w.CountN("uidset: Equal/Intersects checks", int64(4*len(panel)))
		b, err := json.Marshal(s)
		var back types.EntityUIDSet
		if err == nil {
			err = json.Unmarshal(b, &back)
		}
		if err != nil || !back.Equal(s) || !s.Equal(back) || back.Len() != want {
			viol("uidset:JSON form does not decode to an equal set", fmt.Sprintf("json %s -> %v (err %v)", b, back.Slice(), err))
			return
		}
		// decoding into a copy must not touch the original
		cp := s
		_ = json.Unmarshal([]byte(`[{"type":"MUTATED","id":"x"}]`), &cp)
		if fp() != before {
			viol("immut:json.Unmarshal into a copy of an EntityUIDSet changes the original", "UnmarshalJSON into a copy changed the original set")
			return
		}
		if i%1999 == 0 {
			w.Sample("uidset", map[string]any{"construction": desc, "len": s.Len(), "json": string(b)})
		}
	})
}

// ---------------------------------------------------------------------------------------
// random nested values

func c11Random(c *mon.Ctx) {
	c.ParFor("6-random", c.N(20000, 400000), func(w *mon.W, i int) {
		cn := c11Cnt{}
		defer cn.flush(w)
		r := w.Rand()
		depth := 1 + r.Intn(3)
		a := c11RandVal(r, depth)
		for t := 0; t < 3 && a.K != model.KSet && a.K != model.KRecord && r.P(0.9); t++ {
			a = c11RandVal(r, depth)
		}
		defer func() {
			if rec := recover(); rec != nil {
				w.Violation("value:panic@"+mon.PanicSite(debug.Stack()), fmt.Sprintf("%s: panic: %v", a, rec), map[string]any{"value": a.String(), "panic": fmt.Sprint(rec), "stack": string(debug.Stack())[:min(2500, len(debug.Stack()))]})
			}
		}()
		ca := c11Build(a, w.RandSub("a"))
		cb := c11Build(a, w.RandSub("b"))
		w.Evals(1)
		cn["random: top-level "+a.K.String()]++
		if a.K == model.KSet || a.K == model.KRecord {
			w.NonTrivial("rnd:" + a.Key())
		}
		base := func() map[string]any {
			return map[string]any{"value": a.String(), "construction_1": c11Text(ca), "construction_2": c11Text(cb)}
		}
		for k, x := range []types.Value{ca, cb} {
			if key, bad := c11KeyOf(x); bad != "" || key != a.Key() {
				m := base()
				m["which"], m["problem"] = k+1, bad
				w.Violation("construct: value read back through accessors differs ("+a.K.String()+")", fmt.Sprintf("%s reads back as %s %s", a, c11Text(x), bad), m)
				return
			}
			if where, err := c11Invariants(x); err != nil {
				m := base()
				m["invariant"], m["where"] = err.Error(), c11Text(where)
				w.Violation("value:invariant("+c11InvClass(err)+")", fmt.Sprintf("%s: %v in %s", a, err, c11Text(where)), m)
				return
			}
		}
		if !c11Pair(w, cn, ca, cb, true, base) || !c11Pair(w, cn, ca, ca, true, base) {
			return
		}
		// near-miss mutant and an independent value
		others := []model.Val{}
		if m, how, ok := c11Mutate(a, r); ok {
			others = append(others, m)
			cn["random: mutant ("+strings.SplitN(how, ":", 2)[0]+")"]++
		}
		if m, _, ok := c11Mutate(a, r); ok {
			others = append(others, m)
		}
		others = append(others, c11RandVal(r, depth))
		cos := make([]types.Value, len(others))
		for k, o := range others {
			o := o
			co := c11Build(o, w.RandSub("o"+strconv.Itoa(k)))
			cos[k] = co
			want := o.Key() == a.Key()
			octx := func() map[string]any {
				m := base()
				m["other"], m["other_text"] = o.String(), c11Text(co)
				return m
			}
			if !c11Pair(w, cn, ca, co, want, octx) {
				return
			}
			if a.K == model.KSet && o.K == model.KSet {
				allAB, allBA, any := true, true, false
				for _, e := range o.Elems {
					if a.Contains(e) {
						any = true
					} else {
						allAB = false
					}
				}
				for _, e := range a.Elems {
					if !o.Contains(e) {
						allBA = false
					}
				}
				if !c11SetOps(w, cn, ca, co, allAB, allBA, any, octx) {
					return
				}
			}
		}
		// containers of the values: a set of all of them, one-field records
		{
			distinct := map[string]bool{a.Key(): true}
			xs := []types.Value{ca}
			for k, o := range others {
				distinct[o.Key()] = true
				xs = append(xs, cos[k])
			}
			xs = append(xs, cb, ca)
			s := types.NewSet(xs...)
			sctx := func() map[string]any {
				m := base()
				m["container"] = c11Text(s)
				var os []string
				for _, o := range others {
					os = append(os, o.String())
				}
				m["others"] = os
				return m
			}
			if s.Len() != len(distinct) {
				w.Violation("set:set of nested values has a wrong Len", fmt.Sprintf("NewSet(a, others.., a', a) has Len %d, %d distinct values were given", s.Len(), len(distinct)), sctx())
				return
			}
			if err := types.VerifSetInvariant(s); err != nil {
				m := sctx()
				m["invariant"] = err.Error()
				w.Violation("set:invariant("+c11InvClass(err)+")", fmt.Sprintf("set of nested values: %v", err), m)
				return
			}
			for _, x := range xs {
				if !s.Contains(x) {
					m := sctx()
					m["probe"] = c11Text(x)
					w.Violation("set:Contains(member)=false [nested]", fmt.Sprintf("%s does not contain its member %s", c11Text(s), c11Text(x)), m)
					return
				}
			}
			rv := make([]types.Value, 0, len(xs))
			for k := len(xs) - 1; k >= 0; k-- {
				rv = append(rv, xs[k])
			}
			if !c11Pair(w, cn, s, types.NewSet(rv...), true, sctx) {
				return
			}
			ra := types.NewRecord(types.RecordMap{"x": ca, "y": types.Long(1)})
			rb := types.NewRecord(types.RecordMap{"y": types.Long(1), "x": cb})
			if !c11Pair(w, cn, ra, rb, true, sctx) {
				return
			}
			for k, o := range others {
				ro := types.NewRecord(types.RecordMap{"x": cos[k], "y": types.Long(1)})
				if !c11Pair(w, cn, ra, ro, o.Key() == a.Key(), sctx) {
					return
				}
			}
		}
		// members / fields through accessors and the evaluator
		switch a.K {
		case model.KSet:
			as := ca.(types.Set)
			for _, e := range a.Elems {
				ce := c11Build(e, w.RandSub("e"))
				g, bad := c11EvalBool(c11OpNode("contains", ca, ce))
				cn["eval:contains -> true"]++
				if !as.Contains(ce) || bad != "" || !g {
					m := base()
					m["member"] = e.String()
					w.Violation("set:Contains(member)=false [nested]", fmt.Sprintf("%s does not contain its member %s %s", c11Text(ca), e, bad), m)
					return
				}
				col := c11Collider(e, r)
				if !a.Contains(col) {
					cc := c11Build(col, nil)
					g, bad := c11EvalBool(c11OpNode("contains", ca, cc))
					cn["eval:contains -> false"]++
					if as.Contains(cc) || bad != "" || g {
						m := base()
						m["probe"] = col.String()
						w.Violation("set:Contains(non-member)=true [hash collider of a member]", fmt.Sprintf("%s contains %s %s", c11Text(ca), col, bad), m)
						return
					}
				}
			}
		case model.KRecord:
			ar := ca.(types.Record)
			for k, key := range a.Keys {
				got, ok := ar.Get(types.String(key))
				gk := ""
				if ok {
					gk, _ = c11KeyOf(got)
				}
				if !ok || gk != a.Vals[k].Key() {
					m := base()
					m["key"] = key
					w.Violation("record:Get returns a wrong value", fmt.Sprintf("%s .Get(%q) = %v, %v", a, key, got, ok), m)
					return
				}
			}
		}
		if !c11Codecs(w, cn, a, ca, cb) {
			return
		}
		if i%499 == 0 && len(a.Elems)+len(a.Keys) >= 3 {
			w.Sample("random", map[string]any{"value": a.String(), "construction_1": c11Text(ca), "construction_2": c11Text(cb), "hash": fmt.Sprintf("%#x", types.VerifHash(ca))})
		}
	})
}

// ---------------------------------------------------------------------------------------
// immutability interleavings

type c11ImmState struct {
	in     []types.Value
	s      types.Set
	inMap  types.RecordMap
	rec    types.Record
	inU    []types.EntityUID
	us     types.EntityUIDSet
	outer  types.Set
	outerR types.Record
	// retained twins, built from separate copies of the inputs
	sT      types.Set
	recT    types.Record
	usT     types.EntityUIDSet
	outerT  types.Set
	outerRT types.Record
	keys    []types.String
	uprobes []types.EntityUID
}

var c11ImmOps = []string{
	"overwrite ctor []Value", "reverse+truncate+append ctor []Value", "overwrite Set.Slice()", "overwrite collected Set.All()/Iterate()",
	"delete/overwrite/add in ctor RecordMap", "delete/overwrite/add in Record.Map()", "overwrite collected Record.All()/Keys()/Values()",
	"overwrite ctor []EntityUID", "overwrite EntityUIDSet.Slice()/All()", "mutate accessor outputs of nested members",
	"json.Unmarshal into copies", "rebuild values from the mutated inputs",
}

func (st *c11ImmState) apply(op int) {
	junkU := types.NewEntityUID("MUTATED", "x")
	switch op {
	case 0:
		for i := range st.in {
			st.in[i] = c11Junk
		}
	case 1:
		for i, j := 0, len(st.in)-1; i < j; i, j = i+1, j-1 {
			st.in[i], st.in[j] = st.in[j], st.in[i]
		}
		if len(st.in) > 0 {
			st.in[0] = types.Long(1)
			_ = append(st.in[:1], c11Junk)
		}
	case 2:
		sl := st.s.Slice()
		for i := range sl {
			sl[i] = c11Junk
		}
		if len(sl) > 0 {
			_ = append(sl[:0], types.Long(1), types.Boolean(true))
		}
		sl2 := st.outer.Slice()
		for i := range sl2 {
			sl2[i] = c11Junk
		}
	case 3:
		var xs []types.Value
		for v := range st.s.All() {
			xs = append(xs, v)
		}
		st.s.Iterate(func(v types.Value) bool { xs = append(xs, v); return true })
		for v := range st.outer.All() {
			xs = append(xs, v)
		}
		for i := range xs {
			xs[i] = c11Junk
		}
	case 4:
		for k := range st.inMap {
			st.inMap[k] = c11Junk
			break
		}
		for k := range st.inMap {
			delete(st.inMap, k)
			break
		}
		if st.inMap != nil {
			st.inMap["injected"] = types.Long(1)
		}
	case 5:
		for _, r := range []types.Record{st.rec, st.outerR} {
			mp := r.Map()
			for k := range mp {
				mp[k] = c11Junk
			}
			for k := range mp {
				delete(mp, k)
				break
			}
			if mp != nil {
				mp["injected"] = types.Long(1)
			}
		}
	case 6:
		var ks []types.String
		var vs []types.Value
		for k, v := range st.rec.All() {
			ks, vs = append(ks, k), append(vs, v)
		}
		for k := range st.rec.Keys() {
			ks = append(ks, k)
		}
		for v := range st.rec.Values() {
			vs = append(vs, v)
		}
		st.rec.Iterate(func(k types.String, v types.Value) bool { ks, vs = append(ks, k), append(vs, v); return true })
		for i := range ks {
			ks[i] = "MUTATED"
		}
		for i := range vs {
			vs[i] = c11Junk
		}
	case 7:
		for i := range st.inU {
			st.inU[i] = junkU
		}
	case 8:
		sl := st.us.Slice()
		for u := range st.us.All() {
			sl = append(sl, u)
		}
		st.us.Iterate(func(u types.EntityUID) bool { sl = append(sl, u); return true })
		for i := range sl {
			sl[i] = junkU
		}
	case 9:
		mut := func(v types.Value) {
			switch t := v.(type) {
			case types.Set:
				sl := t.Slice()
				for i := range sl {
					sl[i] = c11Junk
				}
			case types.Record:
				mp := t.Map()
				for k := range mp {
					mp[k] = c11Junk
				}
				if mp != nil {
					mp["injected"] = c11Junk
				}
			}
		}
		for _, v := range st.outer.Slice() {
			mut(v)
		}
		for v := range st.outer.All() {
			mut(v)
		}
		for _, v := range st.outerR.Map() {
			mut(v)
		}
		for _, k := range st.keys {
			if v, ok := st.outerR.Get(k); ok {
				mut(v)
			}
			if v, ok := st.rec.Get(k); ok {
				mut(v)
			}
		}
		for _, v := range st.s.Slice() {
			mut(v)
		}
	case 10:
		sc, rc, uc, oc := st.s, st.rec, st.us, st.outer
		_ = json.Unmarshal([]byte(`[42,"MUTATED"]`), &sc)
		_ = json.Unmarshal([]byte(`{"MUTATED":42}`), &rc)
		_ = json.Unmarshal([]byte(`[{"type":"MUTATED","id":"x"}]`), &uc)
		_ = json.Unmarshal([]byte(`[]`), &oc)
		var v types.Value = st.s
		_ = types.UnmarshalJSON([]byte(`[7]`), &v)
	case 11:
		_ = types.NewSet(st.in...)
		if st.inMap != nil {
			_ = types.NewRecord(st.inMap)
		}
		_ = types.NewEntityUIDSet(st.inU...)
		_ = types.NewSet(append(st.s.Slice(), c11Junk)...)
		mp := st.rec.Map()
		if mp != nil {
			mp["injected"] = c11Junk
			_ = types.NewRecord(mp)
		}
	}
}

func (st *c11ImmState) fingerprint(probes []c11V) []string {
	var out []string
	val := func(name string, v, twin types.Value) {
		out = append(out, name+" text="+c11Text(v))
		b, bad := c11EncodeJSON(v)
		out = append(out, name+" json="+string(b)+bad)
		out = append(out, fmt.Sprintf("%s hash=%#x", name, types.VerifHash(v)))
		out = append(out, fmt.Sprintf("%s equal-twin=%v/%v", name, v.Equal(twin), twin.Equal(v)))
		if _, err := c11Invariants(v); err != nil {
			out = append(out, name+" invariant="+err.Error())
		} else {
			out = append(out, name+" invariant=ok")
		}
		k, bad := c11KeyOf(v)
		out = append(out, name+" accessors="+k+bad)
	}
	set := func(name string, s, twin types.Set) {
		val(name, s, twin)
		var sb strings.Builder
		for _, p := range probes {
			if s.Contains(p.V) {
				sb.WriteByte('1')
			} else {
				sb.WriteByte('0')
			}
		}
		out = append(out, fmt.Sprintf("%s len=%d contains=%s", name, s.Len(), sb.String()))
	}
	rec := func(name string, r, twin types.Record) {
		val(name, r, twin)
		var sb strings.Builder
		for _, k := range st.keys {
			v, ok := r.Get(k)
			if ok {
				sb.WriteString(c11Text(v))
			}
			sb.WriteByte('|')
		}
		out = append(out, fmt.Sprintf("%s len=%d get=%s", name, r.Len(), sb.String()))
	}
	set("set", st.s, st.sT)
	set("outer-set", st.outer, st.outerT)
	rec("record", st.rec, st.recT)
	rec("outer-record", st.outerR, st.outerRT)
	{
		b, _ := st.us.MarshalJSON()
		var sb strings.Builder
		for _, u := range st.uprobes {
			sb.WriteString(c11Bool(st.us.Contains(u))[:1])
		}
		sl := st.us.Slice()
		ss := make([]string, len(sl))
		for i, u := range sl {
			ss[i] = u.String()
		}
		sort.Strings(ss)
		out = append(out, fmt.Sprintf("uidset json=%s len=%d contains=%s slice=%v equal-twin=%v/%v", b, st.us.Len(), sb.String(), ss, st.us.Equal(st.usT), st.usT.Equal(st.us)))
	}
	return out
}

func c11Immut(c *mon.Ctx, probes []c11V) {
	nops := len(c11ImmOps)
	maxLen := 3
	bases := 4
	if c.Thorough() {
		maxLen, bases = 4, 8
	}
	per := c11SeqCount(nops, maxLen) - 1 // without the empty interleaving
	c.Extra["immut_interleavings"] = per
	c.Extra["immut_bases_per_interleaving"] = bases
	uidU := []types.EntityUID{types.NewEntityUID("U", "a"), types.NewEntityUID("U", "b"), types.NewEntityUID("Ua", ""), types.NewEntityUID("G", "a"), types.NewEntityUID("MUTATED", "x")}
	c.ParFor("7-immut", per*bases, func(w *mon.W, i int) {
		_, ops := c11SeqDecode(i%per+1, nops, maxLen)
		bi := i / per
		r := c.Rand("immut-base", bi) // the base value depends on the base number only
		var ms []model.Val
		for k := 1 + r.Intn(6); k > 0; k-- {
			if len(ms) > 0 && r.P(0.4) {
				ms = append(ms, c11Collider(ms[r.Intn(len(ms))], r))
			} else {
				ms = append(ms, c11RandVal(r, 1))
			}
		}
		if bi == 0 {
			ms = []model.Val{model.Bool(true), model.Long(1), model.Set(model.Long(1)), model.Rec("a", model.Long(1))}
		}
		rm := c11RandVal(r, 2)
		for rm.K != model.KRecord || len(rm.Keys) == 0 {
			rm = c11RandVal(r, 2)
		}
		if bi == 1 {
			ms, rm = nil, model.Rec()
		}
		st := &c11ImmState{}
		st.keys = []types.String{"injected", "MUTATED", "s", "r", "l"}
		for _, k := range c11Keys {
			st.keys = append(st.keys, types.String(k))
		}
		for _, k := range gen.AttrNames {
			st.keys = append(st.keys, types.String(k))
		}
		st.uprobes = uidU
		mkIn := func() []types.Value {
			xs := make([]types.Value, len(ms), len(ms)+4)
			for k, m := range ms {
				xs[k] = bridge.ToValue(m)
			}
			return xs
		}
		mkMap := func() types.RecordMap {
			mp := types.RecordMap{}
			for k, key := range rm.Keys {
				mp[types.String(key)] = bridge.ToValue(rm.Vals[k])
			}
			return mp
		}
		mkU := func() []types.EntityUID {
			n := len(ms) % 4
			xs := make([]types.EntityUID, 0, 6)
			for k := 0; k <= n; k++ {
				xs = append(xs, uidU[(k+bi)%4])
			}
			return xs
		}
		st.in, st.inMap, st.inU = mkIn(), mkMap(), mkU()
		if ms == nil {
			st.in, st.inMap = nil, nil
		}
		st.s, st.sT = types.NewSet(st.in...), types.NewSet(mkIn()...)
		st.rec, st.recT = types.NewRecord(st.inMap), types.NewRecord(mkMap())
		st.us, st.usT = types.NewEntityUIDSet(st.inU...), types.NewEntityUIDSet(mkU()...)
		st.outer, st.outerT = types.NewSet(st.rec, st.s, types.Long(1)), types.NewSet(types.Long(1), st.sT, st.recT)
		st.outerR = types.NewRecord(types.RecordMap{"s": st.s, "r": st.rec, "l": types.Long(1)})
		st.outerRT = types.NewRecord(types.RecordMap{"s": st.sT, "r": st.recT, "l": types.Long(1)})
		names := make([]string, len(ops))
		for k, op := range ops {
			names[k] = c11ImmOps[op]
		}
		desc := fmt.Sprintf("set %s, record %s, %d uids", model.Set(ms...), rm, len(st.inU))
		defer func() {
			if rec := recover(); rec != nil {
				w.Violation("immut:panic@"+mon.PanicSite(debug.Stack()), fmt.Sprintf("%s after %q: panic: %v", desc, names, rec), map[string]any{"base": desc, "mutations": names, "panic": fmt.Sprint(rec)})
			}
		}()
		w.Evals(1)
		w.NonTrivial(fmt.Sprintf("immut:%d:%v", bi, ops))
		w.Count(fmt.Sprintf("immut: interleavings of length %d", len(ops)))
		before := st.fingerprint(probes)
		for _, line := range before {
			if strings.Contains(line, "equal-twin=") && !strings.Contains(line, "equal-twin=true/true") || strings.Contains(line, "invariant=") && !strings.HasSuffix(line, "invariant=ok") {
				w.Violation("immut:fresh value differs from its twin", fmt.Sprintf("%s: before any mutation: %s", desc, line), map[string]any{"base": desc, "observation": line})
				return
			}
		}
		for k, op := range ops {
			st.apply(op)
			w.Count("immut: applied " + c11ImmOps[op])
			after := st.fingerprint(probes)
			for li := range before {
				if before[li] != after[li] {
					what := strings.SplitN(before[li], "=", 2)[0]
					w.Violation(fmt.Sprintf("immut:%s -> existing value changes (%s)", c11ImmOps[op], strings.SplitN(what, " ", 2)[0]),
						fmt.Sprintf("%s: after %q the %s changed from %s to %s", desc, names[:k+1], what, before[li], after[li]),
						map[string]any{"base": desc, "mutations": names[:k+1], "before": before[li], "after": after[li]})
					return
				}
			}
		}
		if i%2999 == 0 {
			w.Sample("immut", map[string]any{"base": desc, "mutations": names, "fingerprint_lines": len(before), "set": c11Text(st.s), "record": c11Text(st.rec)})
		}
	})
}
