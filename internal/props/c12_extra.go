package props

import (
	"fmt"
	"math/big"
	"strings"

	"github.com/cedar-policy/cedar-go/types"

	"verif/internal/model"
	"verif/internal/mon"
)

// Additional C12 stream: duration literals with SEVERAL components whose individual products
// and partial sums sit at the 2^63 and 2^64 boundaries (a wrap in one product or in the
// running total can cancel out and pass a single range test).
func init() {
	orig := Registry["C12"]
	Registry["C12"] = func(c *mon.Ctx) {
		orig(c)
		c12extra(c)
	}
}

func c12extra(c *mon.Ctx) {
	units := []struct {
		name string
		ms   int64
	}{{"d", 86400000}, {"h", 3600000}, {"m", 60000}, {"s", 1000}, {"ms", 1}}
	two63 := new(big.Int).Lsh(big.NewInt(1), 63)
	two64 := new(big.Int).Lsh(big.NewInt(1), 64)
	// candidate quantities per unit: absent, small, and quantities whose product is just
	// below/at/above 2^63, 2^64 and 2*2^64
	cands := make([][]string, len(units))
	for ui, u := range units {
		cs := []string{"", "0", "1", "7"}
		for _, lim := range []*big.Int{two63, two64, new(big.Int).Lsh(two64, 1)} {
			q := new(big.Int).Quo(lim, big.NewInt(u.ms))
			for d := int64(-1); d <= 1; d++ {
				x := new(big.Int).Add(q, big.NewInt(d))
				if x.Sign() >= 0 {
					cs = append(cs, x.String())
				}
			}
		}
		cands[ui] = cs
	}
	total := 1
	for _, cs := range cands {
		total *= len(cs)
	}
	c.Extra["duration_multi_component_literals"] = total * 2
	c.ParFor("duration-multi-component-overflow", total*2, func(w *mon.W, i int) {
		neg := i%2 == 1
		code := i / 2
		var sb strings.Builder
		if neg {
			sb.WriteByte('-')
		}
		comps := 0
		for ui, cs := range cands {
			q := cs[code%len(cs)]
			code /= len(cs)
			if q != "" {
				sb.WriteString(q)
				sb.WriteString(units[ui].name)
				comps++
			}
		}
		lit := sb.String()
		want, wok := model.ParseDuration(lit)
		got, err := types.ParseDuration(lit)
		w.Evals(1)
		if comps >= 2 {
			w.NonTrivial(lit)
		}
		switch {
		case wok:
			w.Count("multi-component duration literal in range")
		default:
			w.Count("multi-component duration literal out of range / malformed")
		}
		if wok != (err == nil) {
			kind := "valid literal rejected"
			if !wok {
				kind = "out-of-range literal accepted (silent wrap)"
			}
			w.Violation(fmt.Sprintf("duration:multi-component %s", kind), fmt.Sprintf("ParseDuration(%q): cedar-go says (%v, %v), exact arithmetic says in-range=%v value=%d", lit, got, err, wok, want),
				map[string]any{"literal": lit, "cedar_go": fmt.Sprint(got), "error": fmt.Sprint(err), "exact_in_range": wok, "exact_ms": want})
			return
		}
		if wok && got.ToMilliseconds() != want {
			w.Violation("duration:multi-component literal parsed to a wrong value", fmt.Sprintf("ParseDuration(%q) = %dms, exact value %dms", lit, got.ToMilliseconds(), want), map[string]any{"literal": lit})
		}
	})
}
