package props

import (
	"fmt"

	cedar "github.com/cedar-policy/cedar-go"
	"github.com/cedar-policy/cedar-go/types"

	"verif/internal/mon"
)

// Additional C14 stream: containers whose keys are pairwise DIFFERENT but coincide under
// plausible "simplified" sort keys (type+id concatenation, id alone, type alone, letter
// case, escaped form): an emission order that ties on such a key falls back to Go's map
// order and varies from call to call.
func init() {
	orig := Registry["C14"]
	Registry["C14"] = func(c *mon.Ctx) {
		orig(c)
		c14extra(c)
	}
}

func c14extra(c *mon.Ctx) {
	uid := func(t, id string) types.EntityUID { return types.NewEntityUID(types.EntityType(t), types.String(id)) }
	groups := [][]types.EntityUID{
		{uid("User", "s1"), uid("Users", "1"), uid("Use", "rs1")},                  // same concatenation
		{uid("A", "x"), uid("B", "x"), uid("C", "x"), uid("A::B", "x")},            // same id
		{uid("T", "a"), uid("T", "A"), uid("t", "a"), uid("t", "A")},               // letter case
		{uid("T", "a\"b"), uid("T", "a\\\"b"), uid("T", "a\\u{22}b"), uid("T", "a")}, // escaped forms
		{uid("T", ""), uid("", "T"), uid("T", "::"), uid("T::", "")},               // empty parts
		{uid("N::A", "b"), uid("N", "A::b"), uid("N::A::b", ""), uid("N", "::A::b")},
	}
	const R = 32
	c.ParFor("colliding-sort-keys", len(groups)*24, func(w *mon.W, i int) {
		g := groups[i%len(groups)]
		r := w.Rand()
		// subsets of size >= 2 in a random insertion order
		perm := r.Perm(len(g))
		n := 2 + r.Intn(len(g)-1)
		em := types.EntityMap{}
		var parents []types.EntityUID
		for _, j := range perm[:n] {
			parents = append(parents, g[j])
		}
		for _, j := range perm[:n] {
			em[g[j]] = types.Entity{UID: g[j], Parents: types.NewEntityUIDSet(parents...), Attributes: types.NewRecord(types.RecordMap{"k": g[j]})}
		}
		outs := map[string]int{}
		pouts := map[string]int{}
		for k := 0; k < R; k++ {
			b, err := em.MarshalJSON()
			outs[string(b)+fmt.Sprint(err)]++
			eb, err := em[g[perm[0]]].MarshalJSON()
			pouts[string(eb)+fmt.Sprint(err)]++
		}
		w.Evals(2 * R)
		w.NonTrivial(fmt.Sprint(i, perm, n))
		w.Count("entity map with sort-key-colliding uids marshalled repeatedly")
		if len(outs) != 1 {
			w.Violation("marshal:EntityMap.MarshalJSON:bytes-vary(uids that tie under a simplified sort key)", fmt.Sprintf("EntityMap.MarshalJSON of one map gives %d different outputs over %d calls", len(outs), R), map[string]any{"uids": fmt.Sprint(parents), "outputs": firstKeys(outs, 2)})
		}
		if len(pouts) != 1 {
			w.Violation("marshal:Entity.MarshalJSON:bytes-vary(parents that tie under a simplified sort key)", fmt.Sprintf("Entity.MarshalJSON of one entity gives %d different outputs over %d calls", len(pouts), R), map[string]any{"parents": fmt.Sprint(parents), "outputs": firstKeys(pouts, 2)})
		}
		// policy set with ids that tie under simplified keys
		ids := []cedar.PolicyID{"a", "A", "a ", " a", "policy1", "Policy1", "policy01", "", "é", "é"}
		ps := cedar.NewPolicySet()
		var p cedar.Policy
		_ = p.UnmarshalCedar([]byte(`permit(principal, action, resource);`))
		for _, j := range r.Perm(len(ids))[:3+r.Intn(5)] {
			q := p
			ps.Add(ids[j], &q)
		}
		souts := map[string]int{}
		jouts := map[string]int{}
		for k := 0; k < R; k++ {
			souts[string(ps.MarshalCedar())]++
			b, err := ps.MarshalJSON()
			jouts[string(b)+fmt.Sprint(err)]++
		}
		w.Evals(2 * R)
		if len(souts) != 1 || len(jouts) != 1 {
			w.Violation("marshal:PolicySet:bytes-vary(ids that tie under a simplified sort key)", fmt.Sprintf("PolicySet marshalling of one set gives %d (Cedar) / %d (JSON) different outputs over %d calls", len(souts), len(jouts), R), nil)
		}
		// record keys / set members that tie under simplified keys
		rec := types.NewRecord(types.RecordMap{"a": types.Long(1), "A": types.Long(1), "a ": types.Long(1), "é": types.Long(1), "é": types.Long(1), "": types.Long(1)})
		set := types.NewSet(types.String("a"), types.String("A"), uid("T", "a"), uid("T", "A"), types.Long(1), types.String("1"))
		vouts := map[string]int{}
		for k := 0; k < R; k++ {
			rj, _ := rec.MarshalJSON()
			sj, _ := set.MarshalJSON()
			vouts[string(rec.MarshalCedar())+string(rj)+string(set.MarshalCedar())+string(sj)]++
		}
		w.Evals(R)
		if len(vouts) != 1 {
			w.Violation("marshal:Value:bytes-vary(keys/members that tie under a simplified sort key)", fmt.Sprintf("record/set marshalling gives %d different outputs over %d calls", len(vouts), R), nil)
		}
	})
}

func firstKeys(m map[string]int, n int) []string {
	var out []string
	for k := range m {
		if len(out) < n {
			out = append(out, trunc(k, 400))
		}
	}
	return out
}
