package props

import (
	"fmt"

	cedar "github.com/cedar-policy/cedar-go"
	"github.com/cedar-policy/cedar-go/x/exp/ast"

	"verif/internal/bridge"
	"verif/internal/gen"
	"verif/internal/model"
	"verif/internal/mon"
	"verif/internal/render"
)

// Additional C09 stream: large FLAT JSON documents. 1200 repetitions of a small expression as
// the elements of one set, the values of one record, the when-clauses of one policy and the
// policies of one policy-set document; both the library's own encoding and the harness
// encoder's. Nothing nests deeper than the template, so the decoded tree must be exactly 1200
// copies of the template's tree (per-document budgets, positions and buffers in the decoder
// see values the small generated policies never reach).
func init() {
	orig := Registry["C09"]
	Registry["C09"] = func(c *mon.Ctx) {
		orig(c)
		c.Rule += " Stream bulk: 1200-fold flat repetitions of 12 templates (set elements, record values, when-clauses, policies of one policy-set document), own and harness encodings, must decode to 1200 copies of the template's tree."
		c09bulk(c)
		c09setHistory(c)
	}
}

// c09setHistory: a PolicySet is encoded, changed (a policy replaced under its id, removed,
// added) and encoded again; the second document decodes to the set's contents at that time.
func c09setHistory(c *mon.Ctx) {
	c.ParFor("set-json-after-changes", c.N(1500, 20000), func(w *mon.W, i int) {
		r := w.Rand()
		ids := []cedar.PolicyID{"a", "policy0", "", "z"}
		ps := cedar.NewPolicySet()
		cur := map[cedar.PolicyID]string{}
		var hist []string
		mk := func() (*cedar.Policy, string) {
			mp := gen.RandPolicy(r, gen.ExprCfg{PIll: 0.05, SafeDT: true, WellFormedExt: true}, 2)
			sanitizePolicy(mp)
			return NewPolicy(bridge.ToPolicy(mp)), c09canon(mp)
		}
		for step := 0; step < 3+r.Intn(6); step++ {
			id := ids[r.Intn(len(ids))]
			switch r.Intn(4) {
			case 0:
				if _, ok := cur[id]; ok {
					ps.Remove(id)
					delete(cur, id)
					hist = append(hist, fmt.Sprintf("Remove(%q)", id))
				}
			case 1:
				_, _ = ps.MarshalJSON()
				hist = append(hist, "MarshalJSON")
			default:
				p, canon := mk()
				_, replaced := cur[id]
				ps.Add(id, p)
				cur[id] = canon
				hist = append(hist, fmt.Sprintf("Add(%q, replace=%v)", id, replaced))
			}
		}
		doc, err := ps.MarshalJSON()
		w.Evals(1)
		if err != nil {
			w.Violation("PolicySet.MarshalJSON fails", err.Error(), map[string]any{"history": hist})
			return
		}
		var back cedar.PolicySet
		if err := back.UnmarshalJSON(doc); err != nil {
			w.Violation("PolicySet JSON rejected (own encoding, after changes)", err.Error(), map[string]any{"history": hist, "json": string(doc)})
			return
		}
		got := map[cedar.PolicyID]string{}
		for id, p := range back.All() {
			got[id], _ = c09canonAST((*ast.Policy)(p.AST()))
		}
		w.Count("policy set encoded after a history of changes")
		if len(cur) > 0 {
			w.NonTrivial(string(doc))
		}
		if len(got) != len(cur) {
			w.Violation("PolicySet JSON does not hold the set's current ids [after changes]", fmt.Sprintf("after %v the set has %d policies, its JSON %d", hist, len(cur), len(got)), map[string]any{"history": hist, "json": string(doc)})
			return
		}
		for id, cv := range cur {
			if got[id] != cv {
				w.Violation("PolicySet JSON holds another policy than the set [after changes]", fmt.Sprintf("after %v the JSON holds under id %q a policy the set no longer has", hist, id), map[string]any{"history": hist, "json": string(doc), "id": string(id)})
				return
			}
		}
	})
}

func c09bulk(c *mon.Ctx) {
	L := func(v model.Val) *model.Expr { return model.Lit(v) }
	ctx, pr := model.Var("context"), model.Var("principal")
	templates := []struct {
		name string
		e    func() *model.Expr
	}{
		{"if", func() *model.Expr { return model.If(model.Access(ctx, "a"), L(model.Long(1)), L(model.Long(2))) }},
		{"if-nested", func() *model.Expr {
			return model.If(model.If(L(model.Bool(true)), L(model.Bool(false)), L(model.Bool(true))), model.SetE(model.If(L(model.Bool(true)), L(model.Long(1)), L(model.Long(2)))), L(model.Long(3)))
		}},
		{"not-neg", func() *model.Expr { return model.Un(model.ONot, model.Un(model.ONot, model.Bin(model.OLt, model.Un(model.ONeg, L(model.Long(1))), L(model.Long(0))))) }},
		{"set", func() *model.Expr { return model.SetE(model.SetE(L(model.Long(1))), model.SetE()) }},
		{"record", func() *model.Expr { return model.RecE([]string{"a", "two words"}, []*model.Expr{L(model.Long(1)), model.RecE([]string{"b"}, []*model.Expr{L(model.Str("s"))})}) }},
		{"call", func() *model.Expr { return model.Ext("lessThan", model.Ext("decimal", L(model.Str("1.0"))), model.Ext("decimal", L(model.Str("2.0")))) }},
		{"access", func() *model.Expr { return model.Access(model.Access(ctx, "a"), "c d") }},
		{"like", func() *model.Expr { return model.Like(L(model.Str("abc")), gen.NormPattern([]model.PatElem{{Lit: "a"}, {Wild: true}, {Lit: "*c"}})) }},
		{"is-in", func() *model.Expr { return model.IsIn(pr, "NS::T", L(model.Ent("U", "a"))) }},
		{"has", func() *model.Expr { return model.Has(ctx, "a b") }},
		{"and-or", func() *model.Expr { return model.Bin(model.OOr, model.Bin(model.OAnd, L(model.Bool(true)), L(model.Bool(false))), L(model.Bool(true))) }},
		{"values", func() *model.Expr { return model.Bin(model.OEq, L(model.Ent("NS::T", "x y")), L(model.Str("é\n\"\\"))) }},
	}
	shapes := []string{"elements of one set", "values of one record", "when-clauses of one policy", "policies of one policy set document", "operands of one && chain", "operands of one + chain"}
	const k = 1200
	c.ParFor("bulk", len(templates)*len(shapes)*2, func(w *mon.W, i int) {
		t, shape, own := templates[i%len(templates)], shapes[(i/len(templates))%len(shapes)], i/(len(templates)*len(shapes)) == 0
		enc := "harness encoding"
		if own {
			enc = "own encoding"
		}
		w.Count("bulk: " + shape + ", " + enc)
		want := bridge.SExpr(c09norm(t.e()))
		fail := func(sig, what string) {
			w.Violation(sig+" [large flat document: "+shape+", template "+t.name+", "+enc+"]", what, map[string]any{"template": render.Canon(t.e()), "shape": shape, "repetitions": k, "encoding": enc})
		}
		var bodies []ast.IsNode
		if shape == "policies of one policy set document" {
			var ids []string
			var mps []*model.Policy
			ps := cedar.NewPolicySet()
			for j := 0; j < k; j++ {
				mp := &model.Policy{Permit: j%2 == 0, Conds: []model.Cond{{When: true, Body: t.e()}}}
				ids, mps = append(ids, fmt.Sprintf("p%d", j)), append(mps, mp)
				ps.Add(cedar.PolicyID(ids[j]), NewPolicy(bridge.ToPolicy(mp)))
			}
			doc := render.PolicySetJSON(ids, mps)
			if own {
				b, err := ps.MarshalJSON()
				if err != nil {
					fail("PolicySet.MarshalJSON fails", err.Error())
					return
				}
				doc = b
			}
			var back cedar.PolicySet
			var err error
			func() {
				defer func() {
					if x := recover(); x != nil {
						err = fmt.Errorf("panic: %v", x)
					}
				}()
				err = back.UnmarshalJSON(doc)
			}()
			w.Evals(k)
			if err != nil {
				fail("PolicySet JSON rejected", fmt.Sprintf("%d policies: %v", k, err))
				return
			}
			for j := 0; j < k; j++ {
				p := back.Get(cedar.PolicyID(ids[j]))
				if p == nil {
					fail("PolicySet JSON round trip changes the id set", fmt.Sprintf("id %q is missing after decoding %d policies", ids[j], k))
					return
				}
				a := (*ast.Policy)(p.AST())
				if len(a.Conditions) != 1 || (a.Effect == ast.EffectPermit) != (j%2 == 0) {
					fail("PolicySet JSON round trip changes a policy or its id", fmt.Sprintf("policy %q has %d conditions, effect %v", ids[j], len(a.Conditions), a.Effect))
					return
				}
				bodies = append(bodies, a.Conditions[0].Body)
			}
		} else {
			mp := &model.Policy{Permit: true}
			var es []*model.Expr
			var keys []string
			for j := 0; j < k; j++ {
				es, keys = append(es, t.e()), append(keys, fmt.Sprintf("k%d", j))
			}
			switch shape {
			case "elements of one set":
				mp.Conds = []model.Cond{{When: true, Body: model.SetE(es...)}}
			case "values of one record":
				mp.Conds = []model.Cond{{When: true, Body: model.RecE(keys, es)}}
			case "operands of one && chain", "operands of one + chain":
				// left-associative chains, as the text parser builds them for `a && b && ...`:
				// legal in text up to 4096 operands, and as deep in JSON as they are long
				op := model.OAnd
				if shape == "operands of one + chain" {
					op = model.OAdd
				}
				chain := es[0]
				for _, e := range es[1:] {
					chain = model.Bin(op, chain, e)
				}
				mp.Conds = []model.Cond{{When: true, Body: chain}}
			default:
				for j, e := range es {
					mp.Conds = append(mp.Conds, model.Cond{When: j%3 != 0, Body: e})
				}
			}
			doc := render.PolicyJSON(mp)
			if own {
				b, err := NewPolicy(bridge.ToPolicy(mp)).MarshalJSON()
				if err != nil {
					fail("Policy.MarshalJSON fails", err.Error())
					return
				}
				doc = b
			}
			var back cedar.Policy
			var err error
			func() {
				defer func() {
					if x := recover(); x != nil {
						err = fmt.Errorf("panic: %v", x)
					}
				}()
				err = back.UnmarshalJSON(doc)
			}()
			w.Evals(k)
			if err != nil {
				fail("policy JSON rejected", fmt.Sprintf("%d repetitions: %v", k, err))
				return
			}
			a := (*ast.Policy)(back.AST())
			switch shape {
			case "elements of one set":
				s, ok := a.Conditions[0].Body.(ast.NodeTypeSet)
				if !ok || len(s.Elements) != k {
					fail("wrong tree", fmt.Sprintf("set of %d elements decoded to %T", k, a.Conditions[0].Body))
					return
				}
				bodies = append(bodies, s.Elements...)
			case "values of one record":
				r, ok := a.Conditions[0].Body.(ast.NodeTypeRecord)
				if !ok || len(r.Elements) != k {
					fail("wrong tree", fmt.Sprintf("record of %d entries decoded to %T", k, a.Conditions[0].Body))
					return
				}
				byKey := map[string]ast.IsNode{}
				for _, e := range r.Elements {
					byKey[string(e.Key)] = e.Value
				}
				for _, kk := range keys {
					if byKey[kk] == nil {
						fail("wrong tree", fmt.Sprintf("record key %q is missing after decoding", kk))
						return
					}
					bodies = append(bodies, byKey[kk])
				}
			case "operands of one && chain", "operands of one + chain":
				n := a.Conditions[0].Body
				for len(bodies) < k-1 {
					var l, rr ast.IsNode
					switch b := n.(type) {
					case ast.NodeTypeAnd:
						l, rr = b.Left, b.Right
					case ast.NodeTypeAdd:
						l, rr = b.Left, b.Right
					default:
						fail("wrong tree", fmt.Sprintf("chain of %d operands decoded to a chain of %d", k, len(bodies)+1))
						return
					}
					bodies = append(bodies, rr)
					n = l
				}
				bodies = append(bodies, n)
			default:
				if len(a.Conditions) != k {
					fail("wrong tree", fmt.Sprintf("%d clauses decoded to %d", k, len(a.Conditions)))
					return
				}
				for j, cd := range a.Conditions {
					if (cd.Condition == ast.ConditionWhen) != (j%3 != 0) {
						fail("wrong tree", fmt.Sprintf("clause %d changed its kind", j))
						return
					}
					bodies = append(bodies, cd.Body)
				}
			}
		}
		for j, b := range bodies {
			e, err := bridge.FromNode(b)
			if err != nil {
				fail("decoded AST not convertible", fmt.Sprintf("repetition %d: %v", j, err))
				return
			}
			if g := bridge.SExpr(c09norm(e)); g != want {
				fail("wrong tree", fmt.Sprintf("repetition %d decoded to %s, the template is %s", j, g, want))
				return
			}
		}
		w.NonTrivial("bulk/" + shape + "/" + t.name + "/" + enc)
	})
}
