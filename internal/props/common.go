// Package props holds one monitor per property.
package props

import (
	"fmt"
	"math"
	"runtime/debug"
	"sort"
	"strings"

	"github.com/cedar-policy/cedar-go/types"
	"github.com/cedar-policy/cedar-go/x/exp/ast"
	"github.com/cedar-policy/cedar-go/x/exp/eval"
	"github.com/cedar-policy/cedar-go/x/exp/verifhooks"

	"verif/internal/bridge"
	"verif/internal/model"
	"verif/internal/mon"
	"verif/internal/render"
)

var Registry = map[string]func(c *mon.Ctx){}

// Got is the observed outcome of one cedar-go evaluation.
type Got struct {
	Val    model.Val
	IsErr  bool
	Class  string // error class by sentinel (hook)
	Msg    string
	Panic  string // non-empty if the call panicked
	Site   string
	BadVal string // result could not be converted back
}

// safeEval runs f, converting a panic into an observation.
func safeEval(f func() (types.Value, error)) (g Got) {
	defer func() {
		if r := recover(); r != nil {
			if be, ok := r.(bridge.BudgetExceeded); ok {
				g = Got{Panic: fmt.Sprintf("entity-getter step budget exceeded after %d Get calls (non-termination)", be.Calls), Site: "budget"}
				return
			}
			g = Got{Panic: fmt.Sprint(r), Site: mon.PanicSite(debug.Stack())}
		}
	}()
	v, err := f()
	if err != nil {
		return Got{IsErr: true, Class: verifhooks.ErrorClass(err), Msg: err.Error()}
	}
	mv, cerr := bridge.FromValue(v)
	if cerr != nil {
		return Got{BadVal: cerr.Error()}
	}
	return Got{Val: mv}
}

func CedarEval(n ast.IsNode, env eval.Env) Got {
	return safeEval(func() (types.Value, error) { return eval.Eval(n, env) })
}

func (g Got) String() string {
	switch {
	case g.Panic != "":
		return "PANIC(" + g.Panic + ")"
	case g.BadVal != "":
		return "BADVALUE(" + g.BadVal + ")"
	case g.IsErr:
		return "error[" + g.Class + "]: " + g.Msg
	}
	return g.Val.String()
}

// Agree: value-vs-error must agree and values must be equal.
func Agree(g Got, want model.Val, werr model.ErrClass) bool {
	if g.Panic != "" || g.BadVal != "" {
		return false
	}
	if g.IsErr != (werr != model.ENone) {
		return false
	}
	if g.IsErr {
		return true
	}
	return g.Val.Equal(want)
}

func wantStr(v model.Val, e model.ErrClass) string {
	if e != model.ENone {
		return "error[" + e.String() + "]"
	}
	return v.String()
}

func feature(v model.Val) string {
	switch v.K {
	case model.KLong, model.KDecimal, model.KDatetime, model.KDuration:
		f := "pos"
		switch {
		case v.I == math.MinInt64:
			f = "min"
		case v.I == math.MaxInt64:
			f = "max"
		case v.I < 0:
			f = "neg"
		case v.I == 0:
			f = "zero"
		}
		return v.K.String() + "(" + f + ")"
	case model.KSet:
		return fmt.Sprintf("set(%d)", min(len(v.Elems), 3))
	case model.KRecord:
		return fmt.Sprintf("record(%d)", min(len(v.Keys), 3))
	case model.KIP:
		if v.IP.V6 {
			return "ip(v6)"
		}
		return "ip(v4)"
	}
	return v.K.String()
}

// DatetimeLowBound is the smallest datetime cedar-go's parser accepts (-292275055-05-17T16:47:04.192Z);
// values below it (the first day of the int64 range) are the subject of a known finding.
const DatetimeLowBound = -9223372036768375808

// LitClass classifies an extension constructor literal for violation signatures.
func LitClass(fn, s string) string {
	switch fn {
	case "datetime":
		v, _, ok := model.ParseDatetime(s)
		if !ok {
			return "malformed-literal"
		}
		if v < DatetimeLowBound {
			return "valid-literal:first-day-of-range"
		}
		return "valid-literal:" + feature(model.Datetime(v))
	case "duration":
		v, ok := model.ParseDuration(s)
		if !ok {
			return "malformed-literal"
		}
		return "valid-literal:" + feature(model.Duration(v))
	case "decimal":
		v, ok := model.ParseDecimal(s)
		if !ok {
			return "malformed-literal"
		}
		return "valid-literal:" + feature(model.Decimal(v))
	case "ip":
		v, ok := model.ParseIP(s)
		if !ok {
			return "malformed-literal"
		}
		return "valid-literal:" + feature(model.IP(v))
	}
	return "string"
}

func opName(e *model.Expr) string {
	if e.Op == model.OExt {
		return "ext:" + e.S
	}
	return e.Op.String()
}

// Disagreement describes a localised mismatch between cedar-go and the model.
type Disagreement struct {
	Sig  string
	What string
	Wit  map[string]any
}

func envWitness(env *model.Env) map[string]any {
	ents := []string{}
	for _, e := range env.SortedStore() {
		ps := []string{}
		for _, p := range e.Parents {
			ps = append(ps, p.String())
		}
		ents = append(ents, fmt.Sprintf("%s parents=[%s] attrs=%s tags=%s", e.UID, strings.Join(ps, ","), e.Attrs, e.Tags))
	}
	return map[string]any{"principal": env.P.String(), "action": env.A.String(), "resource": env.R.String(), "context": env.Ctx.String(), "entities": ents}
}

// CheckExpr evaluates e under env with both cedar-go and the model; on disagreement it
// localises to the minimal disagreeing sub-term and returns its signature.
func CheckExpr(e *model.Expr, env *model.Env, cenv eval.Env) (*Disagreement, Got, model.ErrClass) {
	g := CedarEval(bridge.ToNode(e), cenv)
	want, werr := model.Eval(e, env)
	if Agree(g, want, werr) {
		return nil, g, werr
	}
	// localise bottom-up
	cur := e
	for {
		moved := false
		for _, c := range cur.Args {
			cg := CedarEval(bridge.ToNode(c), cenv)
			cw, ce := model.Eval(c, env)
			if !Agree(cg, cw, ce) {
				cur = c
				moved = true
				break
			}
		}
		if !moved {
			break
		}
	}
	g2 := CedarEval(bridge.ToNode(cur), cenv)
	w2, e2 := model.Eval(cur, env)
	var feats []string
	for _, a := range cur.Args {
		av, ae := model.Eval(a, env)
		if ae != model.ENone {
			feats = append(feats, "err:"+ae.String())
		} else {
			feats = append(feats, feature(av))
		}
	}
	if cur.Op == model.OLit {
		feats = append(feats, feature(cur.V))
	}
	if cur.Op == model.OExt && len(cur.Args) == 1 && cur.Args[0].Op == model.OLit && cur.Args[0].V.K == model.KString {
		feats = []string{LitClass(cur.S, cur.Args[0].V.S)}
	}
	gotc := "value"
	switch {
	case g2.Panic != "":
		gotc = "panic@" + g2.Site
	case g2.BadVal != "":
		gotc = "badvalue"
	case g2.IsErr:
		gotc = "error"
	}
	wantc := "value"
	if e2 != model.ENone {
		wantc = "error:" + e2.String()
	}
	sig := fmt.Sprintf("%s(%s) got=%s want=%s", opName(cur), strings.Join(feats, ","), gotc, wantc)
	what := fmt.Sprintf("`%s` evaluates to %s, the Cedar semantics give %s", render.Canon(cur), g2.String(), wantStr(w2, e2))
	wit := map[string]any{"expr": render.Canon(e), "minimal_subterm": render.Canon(cur), "cedar_go": g2.String(), "model": wantStr(w2, e2), "env": envWitness(env)}
	return &Disagreement{Sig: sig, What: what, Wit: wit}, g, werr
}

func sortedKeys[V any](m map[string]V) []string {
	ks := make([]string, 0, len(m))
	for k := range m {
		ks = append(ks, k)
	}
	sort.Strings(ks)
	return ks
}

// ChildModes are sub-commands run in child processes (journalled decoders, race rounds).
var ChildModes = map[string]func(args []string) int{}
