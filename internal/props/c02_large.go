package props

import (
	"fmt"
	"iter"
	"sort"
	"strings"

	cedar "github.com/cedar-policy/cedar-go"
	"github.com/cedar-policy/cedar-go/types"

	"verif/internal/mon"
)

// Additional C02 stream: LARGE policy collections. The table and random streams hold at most
// six policies; an authorizer that treats big collections differently (chunked or parallel
// evaluation, early exits, pre-sized result lists) only shows beyond some size, and typically
// at sizes that are not a multiple of its chunk. Collections of 60..4100 policies of the six
// outcome classes (mostly satisfied and unsatisfied permits; satisfied forbids and erroring
// policies placed at random positions, and in particular at the very end and start) go through
// PolicySet, PolicySet.IsAuthorized, PolicyMap and two ordered harness iterators; the decision
// table over the by-construction outcome of every policy gives decision, reason ids, error ids.
func init() {
	orig := Registry["C02"]
	Registry["C02"] = func(c *mon.Ctx) {
		orig(c)
		c.Rule += " Stream large-collections: 60..4100 policies (sizes around multiples of 8, 64, 256, 1024 and odd ones) of the six outcome classes with the deciding policies (satisfied forbid, erroring policy, the only satisfied permit) at the start, at the end or at random positions, through PolicySet, IsAuthorized, PolicyMap and ordered iterators: decision, reason ids and error ids follow the decision table."
		c02large(c)
	}
}

type c02sliceIter struct {
	ids []cedar.PolicyID
	ps  []*cedar.Policy
	rev bool
}

func (s c02sliceIter) All() iter.Seq2[cedar.PolicyID, *cedar.Policy] {
	return func(yield func(cedar.PolicyID, *cedar.Policy) bool) {
		for i := range s.ids {
			j := i
			if s.rev {
				j = len(s.ids) - 1 - i
			}
			if !yield(s.ids[j], s.ps[j]) {
				return
			}
		}
	}
}

func c02large(c *mon.Ctx) {
	classes := []struct {
		name, text string
	}{
		{"permit/sat", `permit(principal, action, resource) when { context.n == 1 };`},
		{"permit/unsat", `permit(principal, action, resource) when { context.n == 2 };`},
		{"permit/err", `permit(principal, action, resource) when { context.missing == 1 };`},
		{"forbid/sat", `forbid(principal, action, resource) when { context.n == 1 };`},
		{"forbid/unsat", `forbid(principal, action, resource) unless { context.n == 1 };`},
		{"forbid/err", `forbid(principal, action, resource) when { context.n + 9223372036854775807 > 0 };`},
	}
	var compiled [6]*cedar.Policy
	for i, cl := range classes {
		var p cedar.Policy
		if err := p.UnmarshalCedar([]byte(cl.text)); err != nil {
			c.Inconclusive("large-collections: class policy does not parse: " + err.Error())
			return
		}
		compiled[i] = &p
	}
	sizes := []int{60, 64, 127, 128, 129, 250, 255, 256, 257, 258, 259, 260, 261, 262, 263, 300, 511, 512, 513, 777, 1000, 1001, 1023, 1024, 1025, 1031, 2047, 2049, 4099}
	layouts := []string{"deciders at the end", "deciders at the start", "deciders at random positions", "only unsatisfied permits and one decider at the end", "all classes at random"}
	reps := c.N(2, 8)
	req := cedar.Request{Principal: types.NewEntityUID("U", "p"), Action: types.NewEntityUID("Action", "a"), Resource: types.NewEntityUID("R", "r"),
		Context: types.NewRecord(types.RecordMap{"n": types.Long(1)})}
	c.ParFor("large-collections", len(sizes)*len(layouts)*reps, func(w *mon.W, i int) {
		n, layout := sizes[i%len(sizes)], layouts[(i/len(sizes))%len(layouts)]
		r := w.Rand()
		cls := make([]int, n)
		filler := func() int {
			if r.P(0.5) {
				return 0
			}
			return 1
		}
		deciders := []int{3, 2, 5, 4}[:1+r.Intn(4)] // satisfied forbid first, then erroring ones
		if r.P(0.3) {
			deciders = []int{2} // only an erroring permit
		}
		switch layout {
		case "all classes at random":
			for k := range cls {
				cls[k] = r.Intn(6)
			}
		case "only unsatisfied permits and one decider at the end":
			for k := range cls {
				cls[k] = 1
			}
			cls[n-1] = []int{0, 3, 2, 5}[r.Intn(4)]
		default:
			for k := range cls {
				cls[k] = filler()
			}
			for j, d := range deciders {
				switch layout {
				case "deciders at the end":
					cls[n-1-j] = d
				case "deciders at the start":
					cls[j] = d
				default:
					cls[r.Intn(n)] = d
				}
			}
		}
		ids := make([]cedar.PolicyID, n)
		pols := make([]*cedar.Policy, n)
		var wantReasons, wantErrs, permits, forbids []string
		for k, cl := range cls {
			ids[k] = cedar.PolicyID(fmt.Sprintf("p%05d", k))
			pols[k] = compiled[cl]
			switch cl {
			case 0:
				permits = append(permits, string(ids[k]))
			case 3:
				forbids = append(forbids, string(ids[k]))
			case 2, 5:
				wantErrs = append(wantErrs, string(ids[k]))
			}
		}
		wantDec := cedar.Deny
		if len(forbids) > 0 {
			wantReasons = forbids
		} else if len(permits) > 0 {
			wantReasons, wantDec = permits, cedar.Allow
		}
		want := fmt.Sprintf("decision=%v reasons=%d%v errors=%d%v", wantDec, len(wantReasons), c02head(wantReasons), len(wantErrs), c02head(wantErrs))
		ps := cedar.NewPolicySet()
		pm := cedar.PolicyMap{}
		for k := range ids {
			ps.Add(ids[k], pols[k])
			pm[ids[k]] = pols[k]
		}
		w.NonTrivial(fmt.Sprintf("large/%d/%s/%d", n, layout, i))
		w.Count("large-collections: " + layout)
		apis := []struct {
			name string
			f    func() (cedar.Decision, cedar.Diagnostic)
		}{
			{"cedar.Authorize(PolicySet)", func() (cedar.Decision, cedar.Diagnostic) { return cedar.Authorize(ps, types.EntityMap{}, req) }},
			{"PolicySet.IsAuthorized", func() (cedar.Decision, cedar.Diagnostic) { return ps.IsAuthorized(types.EntityMap{}, req) }},
			{"cedar.Authorize(PolicyMap)", func() (cedar.Decision, cedar.Diagnostic) { return cedar.Authorize(pm, types.EntityMap{}, req) }},
			{"cedar.Authorize(ordered iterator)", func() (cedar.Decision, cedar.Diagnostic) {
				return cedar.Authorize(c02sliceIter{ids: ids, ps: pols}, types.EntityMap{}, req)
			}},
			{"cedar.Authorize(reversed iterator)", func() (cedar.Decision, cedar.Diagnostic) {
				return cedar.Authorize(c02sliceIter{ids: ids, ps: pols, rev: true}, types.EntityMap{}, req)
			}},
		}
		for _, api := range apis {
			var got string
			func() {
				defer func() {
					if x := recover(); x != nil {
						got = fmt.Sprint("panic: ", x)
					}
				}()
				dec, d := api.f()
				var rs, es []string
				for _, x := range d.Reasons {
					rs = append(rs, string(x.PolicyID))
				}
				for _, x := range d.Errors {
					es = append(es, string(x.PolicyID))
				}
				sort.Strings(rs)
				sort.Strings(es)
				got = fmt.Sprintf("decision=%v reasons=%d%v errors=%d%v", dec, len(rs), c02head(rs), len(es), c02head(es))
			}()
			w.Evals(1)
			if got != want {
				what := "decision"
				if strings.SplitN(got, " ", 2)[0] == strings.SplitN(want, " ", 2)[0] {
					what = "reasons/errors"
				}
				w.Violation("large-collections: "+what+" differ from the decision table ["+api.name+"]",
					fmt.Sprintf("%d policies (%s): got %s, want %s", n, layout, got, want),
					map[string]any{"policies": n, "layout": layout, "api": api.name, "got": got, "want": want, "classes_of_the_last_10": cls[max(0, n-10):]})
				return
			}
		}
	})
}

// c02head abbreviates a sorted id list (first and last three) so that witnesses stay small
// while still distinguishing lists that differ at either end.
func c02head(s []string) []string {
	if len(s) <= 6 {
		return s
	}
	return append(append(append([]string{}, s[:3]...), "…"), s[len(s)-3:]...)
}

// one-set-many-stores: ONE compiled policy set whose scopes ask `in`, authorized against a
// sequence of entity stores in which the memberships flip from call to call. "Scope matches"
// is a function of the store handed to this call, never of an earlier one.
func init() {
	orig := Registry["C02"]
	Registry["C02"] = func(c *mon.Ctx) {
		orig(c)
		c.Rule += " Stream one-set-many-stores: one compiled set of three scope-`in` policies authorized against 200 stores in a row whose parent links flip at random; each answer follows the decision table for the store of that call."
		c.ParFor("one-set-many-stores", c.N(200, 4000), func(w *mon.W, i int) {
			r := w.Rand()
			ps, err := cedar.NewPolicySetFromBytes("s.cedar", []byte(`permit(principal in G::"g", action, resource);
forbid(principal, action, resource in G::"h");
permit(principal, action in Action::"grp", resource) when { principal in G::"k" };`))
			if err != nil {
				w.Inconclusive("one-set-many-stores: " + err.Error())
				return
			}
			p, a, rs := types.NewEntityUID("U", "p"), types.NewEntityUID("Action", "a"), types.NewEntityUID("R", "r")
			g, h, k, grp, mid := types.NewEntityUID("G", "g"), types.NewEntityUID("G", "h"), types.NewEntityUID("G", "k"), types.NewEntityUID("Action", "grp"), types.NewEntityUID("G", "mid")
			req := cedar.Request{Principal: p, Action: a, Resource: rs, Context: types.NewRecord(nil)}
			for step := 0; step < 200; step++ {
				pg, pk, rh, ag, viaMid := r.Bool(), r.Bool(), r.P(0.3), r.Bool(), r.Bool()
				var pp, rp, ap, mp []types.EntityUID
				if pg {
					if viaMid {
						pp, mp = append(pp, mid), append(mp, g)
					} else {
						pp = append(pp, g)
					}
				}
				if pk {
					pp = append(pp, k)
				}
				if rh {
					rp = append(rp, h)
				}
				if ag {
					ap = append(ap, grp)
				}
				ents := types.EntityMap{
					p:   {UID: p, Parents: types.NewEntityUIDSet(pp...)},
					rs:  {UID: rs, Parents: types.NewEntityUIDSet(rp...)},
					a:   {UID: a, Parents: types.NewEntityUIDSet(ap...)},
					mid: {UID: mid, Parents: types.NewEntityUIDSet(mp...)},
				}
				var want []string
				wantDec := cedar.Deny
				switch {
				case rh:
					want = []string{"policy1"}
				default:
					if pg {
						want = append(want, "policy0")
					}
					if ag && pk {
						want = append(want, "policy2")
					}
					if len(want) > 0 {
						wantDec = cedar.Allow
					}
				}
				dec, d := cedar.Authorize(ps, ents, req)
				var got []string
				for _, x := range d.Reasons {
					got = append(got, string(x.PolicyID))
				}
				sort.Strings(got)
				w.Evals(1)
				if dec != wantDec || fmt.Sprint(got) != fmt.Sprint(want) || len(d.Errors) != 0 {
					w.Violation("one-set-many-stores: answer does not follow the store of this call",
						fmt.Sprintf("step %d: got %v %v (%d errors), want %v %v", step, dec, got, len(d.Errors), wantDec, want),
						map[string]any{"step": step, "principal_in_g": pg, "via_intermediate": viaMid, "principal_in_k": pk, "resource_in_h": rh, "action_in_grp": ag, "got": fmt.Sprint(dec, got), "want": fmt.Sprint(wantDec, want)})
					return
				}
			}
			w.NonTrivial(fmt.Sprint("many-stores/", i))
		})
	}
}
