package props

import (
	"fmt"
	"math"
	"math/big"
	"strconv"
	"time"

	"github.com/cedar-policy/cedar-go/types"

	"verif/internal/gen"
	"verif/internal/model"
	"verif/internal/mon"
)

const c12FirstDaySig = "datetime:first-day-of-range-not-parseable"

// datetimeLiteral compares ParseDatetime with the independent parser on one string.
func (k *c12) datetimeLiteral(w *mon.W, s string) {
	w.Evals(1)
	k.safe(w, "ParseDatetime", s, func() {
		mv, form, mok := model.ParseDatetime(s)
		d, err := types.ParseDatetime(s)
		fn := c12DTFormName(form)
		switch {
		case err == nil && !mok:
			wit := map[string]any{"literal": s, "cedar_go_ms": d.Milliseconds(), "cedar_go": d.String(), "model": "reject"}
			if c12DTSyntaxOK(s) {
				sig := "datetime:out-of-range-literal-accepted(" + fn + ")"
				if form.DateOnly {
					sig = "datetime:date-only-literal-out-of-range-accepted"
				}
				w.Violation(sig, fmt.Sprintf("ParseDatetime(%q) = %d ms (%s): the instant does not fit int64 milliseconds (silent wrap)", s, d.Milliseconds(), d), wit)
			} else {
				w.Violation("datetime:malformed-literal-accepted", fmt.Sprintf("ParseDatetime(%q) = %s, the datetime grammar rejects it", s, d), wit)
			}
		case err != nil && mok:
			y, _ := c12DTYear(s)
			wit := map[string]any{"literal": s, "error": err.Error(), "model_ms": mv, "model": model.PrintDatetime(mv)}
			switch {
			case mv < DatetimeLowBound:
				w.Count("datetime literal: first day of the range rejected (known finding)")
				w.Violation(c12FirstDaySig, fmt.Sprintf("ParseDatetime(%q): %v; it denotes %d ms, a representable datetime in [MinInt64, MinInt64+1 day)", s, err, mv), wit)
			case form.Expanded && y >= 0 && y <= 9999:
				w.Count("datetime literal: expanded spelling of a year in 0..9999 rejected (not asserted)")
			default:
				w.Violation("datetime:valid-literal-rejected("+fn+")"+c12Feature(mv), fmt.Sprintf("ParseDatetime(%q): %v, want %d ms", s, err, mv), wit)
			}
		case err == nil && d.Milliseconds() != mv:
			w.Violation("datetime:literal-wrong-value("+fn+")", fmt.Sprintf("ParseDatetime(%q) = %d ms, want %d", s, d.Milliseconds(), mv),
				map[string]any{"literal": s, "cedar_go_ms": d.Milliseconds(), "model_ms": mv})
		case err == nil:
			w.Count("datetime literal: both accept (" + fn + ")")
		default:
			if c12DTSyntaxOK(s) {
				w.Count("datetime literal: both reject (out of range)")
			} else {
				w.Count("datetime literal: both reject (malformed)")
			}
		}
	})
}

func (k *c12) datetimeValue(w *mon.W, i int64, r *mon.Rand, text bool) {
	w.Evals(1)
	k.safe(w, "datetime/value", fmt.Sprintf("datetime %dms", i), func() {
		f := c12Feature(i)
		d := types.NewDatetimeFromMillis(i)
		if d.Milliseconds() != i {
			w.Violation("datetime:NewDatetimeFromMillis wrong value", fmt.Sprintf("NewDatetimeFromMillis(%d).Milliseconds() = %d", i, d.Milliseconds()), map[string]any{"ms": i})
		}
		want := model.PrintDatetime(i)
		got := d.String()
		if got != want {
			w.Violation("datetime:String"+f+" not canonical", fmt.Sprintf("Datetime(%dms).String() = %q, want %q", i, got, want), map[string]any{"ms": i, "got": got, "want": want})
		}
		if mc := string(d.MarshalCedar()); mc != `datetime("`+got+`")` {
			w.Violation("datetime:MarshalCedar != datetime(\"String()\")", fmt.Sprintf("MarshalCedar=%q String=%q", mc, got), map[string]any{"ms": i, "marshal": mc})
		}
		// Parse(String(v)) == v
		p, err := types.ParseDatetime(got)
		switch {
		case err != nil && i < DatetimeLowBound:
			w.Count("datetime value: first day of the range does not re-parse (known finding)")
			w.Violation(c12FirstDaySig, fmt.Sprintf("ParseDatetime(Datetime(%d).String() = %q): %v", i, got, err), map[string]any{"ms": i, "string": got, "error": err.Error()})
		case err != nil:
			w.Violation("datetime:Parse(String(v))"+f+" rejected", fmt.Sprintf("ParseDatetime(%q): %v (value %d ms)", got, err, i), map[string]any{"ms": i, "string": got, "error": err.Error()})
		case p.Milliseconds() != i:
			w.Violation("datetime:Parse(String(v))"+f+" wrong value", fmt.Sprintf("ParseDatetime(%q) = %d, want %d", got, p.Milliseconds(), i), map[string]any{"ms": i, "string": got, "got": p.Milliseconds()})
		}
		// Time(): the same instant in UTC
		if t := d.Time(); t.UnixMilli() != i || t.Location() != time.UTC || t.Nanosecond()%1000000 != 0 {
			w.Violation("datetime:Time() wrong instant", fmt.Sprintf("Datetime(%d).Time() = %v", i, t), map[string]any{"ms": i, "time": t.String()})
		} else if nd := types.NewDatetime(t); nd.Milliseconds() != i {
			w.Violation("datetime:NewDatetime(Time()) wrong value", fmt.Sprintf("NewDatetime(Datetime(%d).Time()) = %d", i, nd.Milliseconds()), map[string]any{"ms": i, "got": nd.Milliseconds()})
		} else if sub := types.NewDatetime(t.Add(time.Duration(r.Intn(1000000)))); sub.Milliseconds() != i && !(i < 0 && sub.Milliseconds() == i+1) {
			// the sub-millisecond part is dropped (floor; toward-zero would also be a truncation)
			w.Violation("datetime:NewDatetime(sub-millisecond) wrong value", fmt.Sprintf("NewDatetime(%v + <1ms) = %d, want %d", t, sub.Milliseconds(), i), map[string]any{"ms": i, "got": sub.Milliseconds()})
		}
		// other spellings of the same instant: offsets, no millis, date only
		ms := big.NewInt(i)
		offs := []int64{0, int64(r.Intn(1440)), -int64(r.Intn(1440)), 1439, -1439, 330, -60}
		for n := 0; n < 3; n++ {
			off := offs[r.Intn(len(offs))]
			millis := i%1000 != 0 || r.Bool()
			dateOnly := off == 0 && i%gen.Day == 0 && r.P(0.5)
			lit := c12DTFromInstant(ms, off, r.Bool(), millis, dateOnly, r.P(0.1)).String()
			mv, _, mok := model.ParseDatetime(lit)
			if !mok || mv != i {
				panic(fmt.Sprintf("harness: spelling %q of %d is read as %d/%v by the reference parser", lit, i, mv, mok))
			}
			k.datetimeLiteral(w, lit)
		}
		if text {
			k.renderCheck(w, model.Datetime(i))
		}
	})
}

var c12DTAlpha = []string{"0", "1", "2", "3", "5", "6", "9", "-", "+", ":", ".", "T", "Z", " ", "t", "z", "٣"}

// c12RandDTFields draws hostile field combinations (calendar edges, range ends, invalid fields).
func c12RandDTFields(r *mon.Rand) c12DT {
	var f c12DT
	yStd := []int64{0, 1, 4, 100, 400, 1600, 1899, 1900, 1969, 1970, 1999, 2000, 2023, 2024, 2100, 9999}
	yExp := []int64{292278994, 292278993, 292278995, -292275055, -292275054, -292275056, 999999999, -999999999, 10000, -1, 0, 12345, -400, 9999, 100000000}
	if r.P(0.5) {
		f.Y = mon.Pick(r, yStd)
		if r.P(0.4) {
			f.Y = int64(r.Intn(10000))
		}
	} else {
		f.Expanded = true
		f.Y = mon.Pick(r, yExp)
		if r.P(0.3) {
			f.Y = int64(r.Intn(600000000)) - 300000000
		}
	}
	f.Mo = int64(1 + r.Intn(12))
	f.D = int64(1 + r.Intn(28))
	switch r.Intn(8) {
	case 0:
		f.Mo, f.D = 2, int64(28+r.Intn(3))
	case 1:
		f.D = int64(29 + r.Intn(4))
	case 2:
		f.Mo, f.D = mon.Pick(r, []int64{0, 13, 12, 1}), mon.Pick(r, []int64{0, 1, 31, 32})
	case 3: // the days at the range ends
		if f.Y > 0 {
			f.Mo, f.D = 8, int64(15+r.Intn(4))
		} else {
			f.Mo, f.D = 5, int64(15+r.Intn(4))
		}
	}
	f.HH, f.Mi, f.SS, f.Ms = int64(r.Intn(24)), int64(r.Intn(60)), int64(r.Intn(60)), int64(r.Intn(1000))
	switch r.Intn(10) {
	case 0:
		f.HH = mon.Pick(r, []int64{0, 23, 24, 7, 16})
	case 1:
		f.Mi = mon.Pick(r, []int64{0, 59, 60, 12, 47})
	case 2:
		f.SS = mon.Pick(r, []int64{0, 59, 60, 55, 4})
	case 3: // the exact times of the range ends
		if f.Y > 0 {
			f.HH, f.Mi, f.SS, f.Ms = 7, 12, 55, int64(806+r.Intn(3))
		} else {
			f.HH, f.Mi, f.SS, f.Ms = 16, 47, 4, int64(191+r.Intn(3))
		}
	}
	switch r.Intn(4) {
	case 0:
		f.DateOnly = true
	case 1:
		f.Millis = false
	default:
		f.Millis = true
	}
	if r.P(0.4) {
		f.Off = true
		f.OffNeg = r.Bool()
		f.OH, f.OM = int64(r.Intn(24)), int64(r.Intn(60))
		if r.P(0.1) {
			f.OH, f.OM = mon.Pick(r, []int64{0, 23, 24, 12}), mon.Pick(r, []int64{0, 59, 60, 30})
		}
	}
	return f
}

func (k *c12) datetimeStreams() {
	c := k.c
	extra := append([]int64{}, gen.Datetimes...)
	for _, base := range []int64{DatetimeLowBound, math.MinInt64, math.MaxInt64 - gen.Day, -62167219200000, 253402300800000, 0} {
		for _, d := range []int64{-1000, -1, 0, 1, 999, 1000, gen.Day - 1, gen.Day} {
			if (base > 0 && d > 0 && base > math.MaxInt64-d) || (base < 0 && d < 0 && base < math.MinInt64-d) {
				continue
			}
			extra = append(extra, base+d)
		}
	}
	bound := c12Payloads(extra)
	c.ParFor("datetime/boundary", len(bound), func(w *mon.W, i int) {
		k.reg(w, strconv.FormatInt(bound[i], 10), false)
		k.datetimeValue(w, bound[i], w.Rand(), true)
		if i%40 == 0 {
			w.Sample("datetime/value", map[string]any{"ms": bound[i], "string": model.PrintDatetime(bound[i])})
		}
	})
	c.ParFor("datetime/random", c.N(120000, 3000000), func(w *mon.W, i int) {
		r := w.Rand()
		v := c12RandPayload(r)
		switch r.Intn(6) {
		case 0: // whole days / seconds so that the short forms apply
			v = v / gen.Day * gen.Day
		case 1:
			v = v / 1000 * 1000
		case 2: // years 0000..9999
			v = -62167219200000 + int64(r.U64()%315569520000000)
		}
		k.reg(w, strconv.FormatInt(v, 10), true)
		w.Count("datetime value" + c12Feature(v))
		k.datetimeValue(w, v, r, i%16 == 0)
	})
	// instants around both ends of the int64 range, spelled with offsets: the range check
	// must apply to the instant after the offset.
	c.ParFor("datetime/range-ends", c.N(40000, 1000000), func(w *mon.W, i int) {
		r := w.Rand()
		delta := int64(r.U64() % uint64(2*gen.Day))
		if r.P(0.4) {
			delta = int64(r.Intn(5))
		}
		delta -= int64(r.Intn(2)) * 2 * delta // +-
		inst := new(big.Int).Add(big.NewInt(math.MaxInt64), big.NewInt(delta))
		if r.Bool() {
			inst = new(big.Int).Add(big.NewInt(math.MinInt64), big.NewInt(delta))
		}
		off := int64(r.Intn(2879)) - 1439
		if r.P(0.3) {
			off = 0
		}
		dateOnly := r.P(0.1)
		if dateOnly {
			off = 0
			inst.Div(inst, big.NewInt(gen.Day)).Mul(inst, big.NewInt(gen.Day))
		}
		lit := c12DTFromInstant(inst, off, r.Bool(), true, dateOnly, false).String()
		mv, _, mok := model.ParseDatetime(lit)
		if mok != inst.IsInt64() || (mok && mv != inst.Int64()) {
			panic(fmt.Sprintf("harness: spelling %q of %s is read as %d/%v by the reference parser", lit, inst, mv, mok))
		}
		if mok {
			w.Count("datetime range-ends: in range")
		} else {
			w.Count("datetime range-ends: beyond the range")
		}
		k.reg(w, lit, false)
		k.datetimeLiteral(w, lit)
		if i%9973 == 0 {
			w.Sample("datetime/range-end literal", map[string]any{"literal": lit, "instant_ms": inst.String(), "representable": mok})
		}
	})
	hostile := []string{"", "2024", "2024-01", "2024-01-01T", "2024-01-01T00:00:00", "2024-01-01T00:00", "2024-01-01T00:00Z", "2024-01-01T00:00:00.1Z", "2024-01-01T00:00:00.12Z", "2024-01-01T00:00:00.1234Z",
		"2024-01-01T00:00:00z", "2024-01-01t00:00:00Z", "2024-01-01 00:00:00Z", "2024-1-1", "24-01-01", "02024-01-01", "2024-01-01Z", "2024-01-01+0000", "2024-01-01T00:00:00+00:00", "2024-01-01T00:00:00+00", "2024-01-01T00:00:00+000",
		"2024-01-01T00:00:00+00000", "2024-01-01T00:00:00+2400", "2024-01-01T00:00:00+2360", "2024-01-01T00:00:00-2359", "2024-01-01T00:00:00+2359", "2024-01-01T24:00:00Z", "2024-01-01T23:60:00Z", "2024-01-01T23:59:60Z",
		"2024-02-29", "2023-02-29", "1900-02-29", "2000-02-29", "2100-02-29", "2024-02-30", "2024-04-31", "2024-00-10", "2024-13-01", "2024-01-00", "2024-01-32", "0000-01-01", "0000-02-29", "9999-12-31T23:59:59.999Z",
		"9999-12-31T23:59:59.999-2359", "0000-01-01T00:00:00+2359", "+2024-01-01", "-2024-01-01", "+000002024-01-01", "-000000001-12-31T23:59:59.999Z", "+000010000-01-01", "-000000000-01-01", "+0000020240-01-01",
		"+292278994-08-17T07:12:55.807Z", "+292278994-08-17T07:12:55.808Z", "+292278994-08-17T07:12:55.807+0000", "+292278994-08-17T07:12:56.807+0001", "+292278994-08-17T07:11:55.807-0001", "+292278994-08-17T07:12:55.807-0001",
		"+292278994-08-17", "+292278994-08-18", "+292278995-01-01", "+999999999-12-31T23:59:59.999Z", "+999999999-12-31", "+999999999-01-01", "-999999999-01-01", "-999999999-01-01T00:00:00Z",
		"-292275055-05-16T16:47:04.192Z", "-292275055-05-16T16:47:04.191Z", "-292275055-05-17T16:47:04.192Z", "-292275055-05-17T16:47:04.191Z", "-292275055-05-17", "-292275055-05-18", "-292275055-05-16", "-292275055-05-15",
		"-292275055-05-16T16:47:04.192+0000", "-292275055-05-16T16:46:04.192-0001", "-292275055-05-16T16:48:04.192+0001", "-292275055-05-16T16:47:04.192+0001", "-292275056-12-31T23:59:59Z",
		"٢٠٢٤-01-01", "2024-01-01T00:00:00.000Z ", " 2024-01-01", "2024-01-01T00:00:00.000ZZ", "2024-01-01T00:00:00.-01Z", "2024-01-01T00:00:00.+01Z", "2024-01-01T-1:00:00Z", "2024-01-01T+1:00:00Z", "2024--1-01", "2024-+1-01", "+1-01-01"}
	c.ParFor("datetime/hostile", len(hostile), func(w *mon.W, i int) {
		k.reg(w, hostile[i], false)
		k.datetimeLiteral(w, hostile[i])
	})
	c.ParFor("datetime/literals", c.N(150000, 4000000), func(w *mon.W, i int) {
		r := w.Rand()
		s := c12RandDTFields(r).String()
		for e := r.Intn(3); e > 0 && r.P(0.5); e-- {
			s = c12Edit1(r, s, c12DTAlpha)
		}
		k.reg(w, s, true)
		k.datetimeLiteral(w, s)
		if i%9973 == 0 {
			_, _, ok := model.ParseDatetime(s)
			w.Sample("datetime/literal", map[string]any{"literal": s, "model_accepts": ok})
		}
	})
	k.ed1("datetime", []string{"2024-02-29", "0000-01-01", "1970-01-01T00:00:00Z", "2024-02-29T23:59:59.999Z", "2024-01-01T00:00:00+0530", "2024-01-01T00:00:00.001-2359", "9999-12-31T23:59:59.999Z",
		"+292278994-08-17T07:12:55.807Z", "-292275055-05-17T16:47:04.192Z", "+000010000-01-01", "-000000001-12-31"}, c12DTAlpha, k.datetimeLiteral)
}
