package props

import (
	"fmt"
	"sort"
	"strings"

	cedar "github.com/cedar-policy/cedar-go"
	"github.com/cedar-policy/cedar-go/x/exp/ast"

	"verif/internal/bridge"
	"verif/internal/gen"
	"verif/internal/model"
	"verif/internal/mon"
	"verif/internal/render"
)

func init() { Registry["C09"] = C09 }

var ctorKind = map[string]model.Kind{"decimal": model.KDecimal, "datetime": model.KDatetime, "duration": model.KDuration, "ip": model.KIP}

// c09norm folds constructor calls on valid literal strings into extension values (the
// documented value <-> call spelling), and orders record-literal entries by key.
func c09norm(e *model.Expr) *model.Expr {
	c := *e
	c.Args = make([]*model.Expr, len(e.Args))
	for i, a := range e.Args {
		c.Args[i] = c09norm(a)
	}
	switch c.Op {
	case model.OExt:
		if _, ok := ctorKind[c.S]; ok && len(c.Args) == 1 && c.Args[0].Op == model.OLit && c.Args[0].V.K == model.KString {
			s := c.Args[0].V.S
			switch c.S {
			case "decimal":
				if v, ok := model.ParseDecimal(s); ok {
					return model.Lit(model.Decimal(v))
				}
			case "duration":
				if v, ok := model.ParseDuration(s); ok {
					return model.Lit(model.Duration(v))
				}
			case "datetime":
				if v, _, ok := model.ParseDatetime(s); ok {
					return model.Lit(model.Datetime(v))
				}
			case "ip":
				if v, ok := model.ParseIP(s); ok {
					return model.Lit(model.IP(v))
				}
			}
		}
	case model.ORecord:
		idx := make([]int, len(c.Keys))
		for i := range idx {
			idx[i] = i
		}
		sort.Slice(idx, func(a, b int) bool { return c.Keys[idx[a]] < c.Keys[idx[b]] })
		ks := make([]string, len(idx))
		as := make([]*model.Expr, len(idx))
		for i, j := range idx {
			ks[i], as[i] = c.Keys[j], c.Args[j]
		}
		c.Keys, c.Args = ks, as
	}
	return &c
}

func c09canon(p *model.Policy) string {
	q := *p
	q.Annots = append([]model.Annot{}, p.Annots...)
	sort.Slice(q.Annots, func(a, b int) bool { return q.Annots[a].Key < q.Annots[b].Key })
	q.Conds = make([]model.Cond, len(p.Conds))
	for i, c := range p.Conds {
		q.Conds[i] = model.Cond{When: c.When, Body: c09norm(c.Body)}
	}
	return bridge.SPolicy(&q)
}

func c09canonAST(p *ast.Policy) (string, error) {
	mp, err := bridge.FromPolicy(p)
	if err != nil {
		return "", err
	}
	return c09canon(mp), nil
}

func jsonRoundTrip(p *cedar.Policy) (out *cedar.Policy, js string, err error, pan string) {
	defer func() {
		if r := recover(); r != nil {
			pan = fmt.Sprint(r)
		}
	}()
	b, e := p.MarshalJSON()
	if e != nil {
		return nil, "", e, ""
	}
	// every other document is decoded into a Policy value that already holds another policy
	q := &cedar.Policy{}
	if len(b)%2 == 1 {
		q = UsedPolicy()
	}
	if e := q.UnmarshalJSON(b); e != nil {
		return nil, string(b), e, ""
	}
	return q, string(b), nil, ""
}

// c09culprit names the smallest sub-expression whose own JSON round trip changes its tree.
func c09culprit(mp *model.Policy) string {
	fails := func(e *model.Expr) bool {
		one := &model.Policy{Permit: true, Conds: []model.Cond{{When: true, Body: e}}}
		q, _, err, pan := jsonRoundTrip(NewPolicy(bridge.ToPolicy(one)))
		if err != nil || pan != "" {
			return true
		}
		got, cerr := c09canonAST((*ast.Policy)(q.AST()))
		return cerr != nil || got != c09canon(one)
	}
	for _, c := range mp.Conds {
		if !fails(c.Body) {
			continue
		}
		cur := c.Body
		for {
			moved := false
			for _, a := range cur.Args {
				if fails(a) {
					cur, moved = a, true
					break
				}
			}
			if !moved {
				break
			}
		}
		name := opName(cur)
		if cur.Op == model.OLit {
			name = "value:" + feature(cur.V)
		}
		var kids []string
		for _, a := range cur.Args {
			if a.Op == model.OLit {
				kids = append(kids, "value:"+feature(a.V))
			} else {
				kids = append(kids, opName(a))
			}
		}
		return fmt.Sprintf("%s(%s)", name, strings.Join(kids, ","))
	}
	return "policy-level (effect/scope/annotations)"
}

func C09(c *mon.Ctx) {
	c.Rule = "case = policy (all node kinds incl. extension calls and extension-typed literal values, `is..in`, like patterns with wildcards/escapes/empty literals, record literals, every scope form) or policy set. " +
		"Oracle: (1) decode(encode(p)) has the same AST as p (annotations and record-literal entries by key; extension-typed literal values modulo the documented value<->constructor-call spelling); (2) the harness's own spec-conformant JSON encoder produces documents whose decoding equals the builder AST; (3) PolicySet JSON preserves ids; (4) text->JSON->text and JSON->text->JSON commute (AST equality); (5) original, JSON-decoded, text-decoded and harness-JSON-decoded policies have the same outcome under 6 environments. " +
		"distinct_nontrivial = distinct policies (canonical tree) with >= 1 condition."
	c.Assume = []string{"values in the two recorded known-finding domains whose text form cannot be parsed back (first-day datetimes, IPv4-mapped IPv6; see C12) are mapped to neighbouring values, because JSON spells extension values through their text form"}
	c.Floor = 2000
	check := func(w *mon.W, r *gen.R, mp *model.Policy, idx int) {
		sanitizePolicy(mp)
		want := c09canon(mp)
		orig := NewPolicy(bridge.ToPolicy(mp))
		desc := render.CanonPolicy(mp)
		w.Evals(1)
		// (1) JSON round trip
		dec, js, err, pan := jsonRoundTrip(orig)
		wit := map[string]any{"policy": desc, "json": js}
		if pan != "" {
			w.Violation("JSON codec panics: "+c09culprit(mp), "MarshalJSON/UnmarshalJSON panicked: "+pan, wit)
			return
		}
		if err != nil {
			wit["error"] = err.Error()
			w.Violation("own JSON encoding rejected: "+c09culprit(mp), "UnmarshalJSON(MarshalJSON(p)) fails: "+err.Error(), wit)
			return
		}
		got, cerr := c09canonAST((*ast.Policy)(dec.AST()))
		if cerr != nil || got != want {
			wit["got_tree"], wit["want_tree"] = got, want
			w.Violation("JSON round trip changes the AST: "+c09culprit(mp), "decode(encode(p)) differs from p", wit)
			return
		}
		// second trip is stable
		js2, err2 := dec.MarshalJSON()
		if err2 != nil || string(js2) != js {
			wit["second"] = string(js2)
			w.Violation("second JSON encoding differs", "encode(decode(encode(p))) != encode(p)", wit)
			return
		}
		// (2) independent encoder
		hj := render.PolicyJSON(mp)
		hp := *UsedPolicy()
		if err := func() (e error) {
			defer func() {
				if x := recover(); x != nil {
					e = fmt.Errorf("PANIC: %v", x)
				}
			}()
			return hp.UnmarshalJSON(hj)
		}(); err != nil {
			w.Violation("spec-conformant JSON rejected: "+c09culprit(mp), "UnmarshalJSON of the harness encoder's document fails: "+err.Error(), map[string]any{"policy": desc, "json": string(hj), "error": err.Error()})
			return
		}
		hgot, cerr := c09canonAST((*ast.Policy)(hp.AST()))
		if cerr != nil || hgot != want {
			w.Violation("spec-conformant JSON decodes to a different AST: "+c09culprit(mp), "decoding the harness encoder's document differs from the builder AST", map[string]any{"policy": desc, "json": string(hj), "got_tree": hgot, "want_tree": want})
			return
		}
		// (4) squares
		text1 := orig.MarshalCedar()
		var tp cedar.Policy
		if err := tp.UnmarshalCedar(text1); err != nil {
			w.Count("deferred: own Cedar text not re-parsed (C08 domain)")
			return
		}
		tcanon, _ := c09canonAST((*ast.Policy)(tp.AST()))
		// text -> JSON -> text
		tj, _, err, pan := jsonRoundTrip(&tp)
		if err != nil || pan != "" {
			w.Violation("text->JSON fails", fmt.Sprintf("a policy parsed from text does not survive the JSON codec: %v %s", err, pan), map[string]any{"policy": desc, "text": string(text1)})
			return
		}
		var tjt cedar.Policy
		if err := tjt.UnmarshalCedar(tj.MarshalCedar()); err != nil {
			w.Violation("text->JSON->text does not parse", err.Error(), map[string]any{"policy": desc, "text": string(tj.MarshalCedar())})
			return
		}
		if g, _ := c09canonAST((*ast.Policy)(tjt.AST())); g != tcanon {
			w.Violation("text->JSON->text does not commute: "+c09culprit(mp), "text->JSON->text yields a different policy than text alone", map[string]any{"policy": desc, "text": string(text1), "got_tree": g, "want_tree": tcanon})
			return
		}
		// JSON -> text -> JSON
		var jt cedar.Policy
		if err := jt.UnmarshalCedar(dec.MarshalCedar()); err != nil {
			w.Count("deferred: Cedar text of a JSON-decoded policy not re-parsed (C08 domain)")
			return
		}
		jtj, _, err, pan := jsonRoundTrip(&jt)
		if err != nil || pan != "" {
			w.Violation("JSON->text->JSON fails", fmt.Sprintf("%v %s", err, pan), map[string]any{"policy": desc})
			return
		}
		if g, _ := c09canonAST((*ast.Policy)(jtj.AST())); g != tcanon {
			w.Violation("JSON->text->JSON does not commute: "+c09culprit(mp), "JSON->text->JSON yields a different policy than the text codec alone", map[string]any{"policy": desc, "got_tree": g, "want_tree": tcanon})
			return
		}
		// (5) all encodings authorize identically
		var m gen.Mentions
		gen.CollectPolicy(&m, mp)
		forms := []*cedar.Policy{orig, dec, &tp, &hp, tj, jtj}
		names := []string{"original", "json-decoded", "text-decoded", "harness-json-decoded", "text->json", "json->text->json"}
		for k := 0; k < 6; k++ {
			env := gen.EnvFor(r, &m, k == 0)
			ents := bridge.ToEntityMap(env)
			req := bridge.ToRequest(env)
			o0, _ := outcomeCompiled(forms[0], ents, req)
			for fi := 1; fi < len(forms); fi++ {
				o, _ := outcomeCompiled(forms[fi], ents, req)
				w.Evals(1)
				if o != o0 {
					w.Violation("encodings authorize differently ("+names[fi]+"): "+c09culprit(mp), fmt.Sprintf("%s form is %s, the original is %s", names[fi], o, o0), map[string]any{"policy": desc, "env": envWitness(env)})
					return
				}
			}
		}
		if len(mp.Conds) > 0 {
			w.NonTrivial(want)
		}
		for _, cd := range mp.Conds {
			cd.Body.Walk(func(e *model.Expr) { w.Count("node " + opName(e)) })
		}
		if idx%5000 == 0 {
			w.Sample("policy", map[string]any{"policy": desc, "json": js})
		}
	}
	// directed: every node kind with every operand kind (incl. extension values) in every position
	ctors := c07ctors()
	vals := []model.Val{model.Long(-1), model.Bool(false), model.Str("a\"b\\c\né<&>"), model.Ent("NS::T", "x\ty"), model.Set(model.Long(-1), model.Decimal(5)), model.Set(),
		model.Rec("if", model.Long(-3), "__extn", model.Str("s"), "", model.Set(model.Long(1))), model.Rec("__entity", model.Long(1)), model.Rec(),
		model.Decimal(-12345), model.Duration(-90061001), model.Datetime(-1), gen.IPs[1], gen.IPs[26], model.Long(9223372036854775807), model.Long(-9223372036854775808)}
	type dcase struct{ ctor, pos, val int }
	var dcs []dcase
	for ci, ct := range ctors {
		for pos := 0; pos < ct.arity; pos++ {
			for vi := range vals {
				dcs = append(dcs, dcase{ci, pos, vi})
			}
		}
	}
	c.ParFor("directed", len(dcs), func(w *mon.W, i int) {
		d := dcs[i]
		ct := ctors[d.ctor]
		args := make([]*model.Expr, ct.arity)
		for k := range args {
			args[k] = model.Var([]string{"principal", "context", "resource"}[k%3])
		}
		args[d.pos] = model.Lit(vals[d.val])
		mp := &model.Policy{Permit: i%2 == 0, Conds: []model.Cond{{When: i%3 != 0, Body: ct.mk(args)}}}
		check(w, w.Rand(), mp, -1)
	})
	// patterns
	var pats [][]model.PatElem
	pieces := []model.PatElem{{Wild: true}, {Lit: "a"}, {Lit: "*"}, {Lit: "\\"}, {Lit: "\"\n"}, {Lit: "é\U0001F600"}}
	var rec func(p []model.PatElem, n int)
	rec = func(p []model.PatElem, n int) {
		pats = append(pats, gen.NormPattern(p))
		if n == 0 {
			return
		}
		for _, x := range pieces {
			rec(append(append([]model.PatElem{}, p...), x), n-1)
		}
	}
	rec(nil, 3)
	c.ParFor("patterns", len(pats), func(w *mon.W, i int) {
		mp := &model.Policy{Permit: true, Conds: []model.Cond{{When: true, Body: model.Like(model.Access(model.Var("context"), "s"), pats[i])}}}
		check(w, w.Rand(), mp, -1)
	})
	// scope forms
	ents := []model.Val{model.Ent("U", "a"), model.Ent("A::B", "x y\"")}
	var scopes []model.Scope
	scopes = append(scopes, model.Scope{Kind: model.ScAll})
	for _, e := range ents {
		scopes = append(scopes, model.Scope{Kind: model.ScEq, Ent: e}, model.Scope{Kind: model.ScIn, Ent: e}, model.Scope{Kind: model.ScIs, Type: e.T}, model.Scope{Kind: model.ScIsIn, Type: e.T, Ent: e})
	}
	ascopes := []model.Scope{{Kind: model.ScAll}, {Kind: model.ScInSet}, {Kind: model.ScInSet, Ents: ents[:1]}, {Kind: model.ScInSet, Ents: ents}, {Kind: model.ScEq, Ent: ents[0]}, {Kind: model.ScIn, Ent: ents[1]}}
	c.ParFor("scopes", len(scopes)*len(ascopes)*len(scopes), func(w *mon.W, i int) {
		mp := &model.Policy{Permit: i%2 == 0, P: scopes[i%len(scopes)], A: ascopes[(i/len(scopes))%len(ascopes)], R: scopes[i/(len(scopes)*len(ascopes))],
			Annots: []model.Annot{{Key: "z", Val: "1"}, {Key: "a", Val: "é\""}, {Key: "m", Val: ""}}}
		check(w, w.Rand(), mp, -1)
		w.NonTrivial(c09canon(mp))
	})
	// random policies
	c.ParFor("random", c.N(30000, 400000), func(w *mon.W, i int) {
		r := w.Rand()
		mp := gen.RandPolicy(r, gen.ExprCfg{PIll: 0.08, SafeDT: true, WellFormedExt: true}, 4)
		check(w, r, mp, i)
	})
	// policy sets: ids preserved
	c.ParFor("sets", c.N(3000, 40000), func(w *mon.W, i int) {
		r := w.Rand()
		n := r.Intn(9)
		idPool := []string{"policy0", "policy10", "", "a b", "é", "q\"t", "x/y", "__cedar", "P"}
		ps := cedar.NewPolicySet()
		wantBy := map[string]string{}
		var hids []string
		var hps []*model.Policy
		for _, j := range r.Perm(len(idPool))[:n] {
			mp := gen.RandPolicy(r, gen.ExprCfg{PIll: 0.05, SafeDT: true, WellFormedExt: true}, 3)
			sanitizePolicy(mp)
			ps.Add(cedar.PolicyID(idPool[j]), NewPolicy(bridge.ToPolicy(mp)))
			wantBy[idPool[j]] = c09canon(mp)
			hids, hps = append(hids, idPool[j]), append(hps, mp)
		}
		w.Evals(1)
		b, err := ps.MarshalJSON()
		if err != nil {
			w.Violation("PolicySet.MarshalJSON fails", err.Error(), nil)
			return
		}
		for k, doc := range [][]byte{b, render.PolicySetJSON(hids, hps)} {
			src := []string{"own encoding", "harness encoding"}[k]
			// the receiver is, in turn, the zero value, a fresh NewPolicySet() and a set already
			// holding other policies (one of them under an id the document also uses): decoding
			// yields the document's id -> policy mapping, whatever the receiver held before
			var back cedar.PolicySet
			switch (i + k) % 3 {
			case 1:
				back = *cedar.NewPolicySet()
				src += ", into a fresh NewPolicySet()"
			case 2:
				used := cedar.NewPolicySet()
				used.Add("stale-id", NewPolicy(bridge.ToPolicy(&model.Policy{Permit: false})))
				used.Add(cedar.PolicyID(idPool[i%len(idPool)]), NewPolicy(bridge.ToPolicy(&model.Policy{Permit: false, Annots: []model.Annot{{Key: "stale", Val: "1"}}})))
				back = *used
				src += ", into a set already holding policies"
			}
			if err := back.UnmarshalJSON(doc); err != nil {
				w.Violation("PolicySet JSON rejected ("+src+")", err.Error(), map[string]any{"json": string(doc)})
				return
			}
			gotBy := map[string]string{}
			for id, p := range back.All() {
				g, _ := c09canonAST((*ast.Policy)(p.AST()))
				gotBy[string(id)] = g
			}
			if len(gotBy) != len(wantBy) {
				w.Violation("PolicySet JSON round trip changes the id set ("+src+")", fmt.Sprintf("%d ids in, %d out", len(wantBy), len(gotBy)), map[string]any{"json": string(doc)})
				return
			}
			for id, wv := range wantBy {
				if gotBy[id] != wv {
					w.Violation("PolicySet JSON round trip changes a policy or its id ("+src+")", fmt.Sprintf("policy under id %q differs", id), map[string]any{"json": string(doc), "id": id})
					return
				}
			}
		}
		if n > 0 {
			w.NonTrivial(string(b))
		}
	})
}
