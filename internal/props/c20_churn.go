package props

import (
	"fmt"

	"verif/internal/mon"
)

// Additional C20 stream: CHURN. The random histories are at most 16 steps long over at most
// six ids, so a container never grows beyond a handful of entries and never sees more than a
// few removals. Here one PolicySet lives through 150..900 steps over 40..120 ids: filled, almost
// emptied, refilled, emptied again (waves of Add / Remove with replace, lookups, copies and
// marshal round trips in between). Anything that depends on how many operations a container
// has seen (rehash / compaction thresholds, amortised caches, counters) only shows here. The
// same model and the same after-every-step verification as the other histories are used.
func init() {
	orig := Registry["C20"]
	Registry["C20"] = func(c *mon.Ctx) {
		orig(c)
		c.Rule += " Stream churn: one PolicySet through 150..900 steps over 40..120 ids in waves (fill, remove 60..100 % in random order, refill, ...) with replace, Get, Map copies, MarshalCedar and JSON / text reloads in between; verified against the map model after every step."
		c20churn(c)
	}
}

func c20ChurnOps(r *mon.Rand) []c20Op {
	nu := 40 + r.Intn(81)
	ids := make([]string, nu)
	for i := range ids {
		if i < len(c20IDs) && r.P(0.5) {
			ids[i] = c20IDs[i]
		} else {
			ids[i] = fmt.Sprintf("k%03d", i)
		}
	}
	var ops []c20Op
	mk := func(kind, id string) c20Op {
		return c20Op{Kind: kind, Tgt: -1, ID: id, PK: r.Intn(c20NKinds), Ctor: r.Intn(4), N: r.Intn(16), Var: r.Intn(64), File: mon.Pick(r, c20Files)}
	}
	noise := func() {
		x := r.Intn(100)
		switch {
		case x < 84:
		case x < 88:
			ops = append(ops, mk(opGet, mon.Pick(r, ids)))
		case x < 91:
			ops = append(ops, mk(opAdd, mon.Pick(r, ids))) // mostly a replace
		case x < 93:
			ops = append(ops, mk(opMCedar, ""))
		case x < 95:
			ops = append(ops, mk(opMap, ""))
		case x < 97:
			ops = append(ops, mk(opJSONInto, ""))
		case x < 98:
			ops = append(ops, mk(opJSON, ""))
		case x < 99:
			ops = append(ops, mk(opReload, ""))
		default:
			ops = append(ops, mk(opBreak, ""))
		}
	}
	waves := 1 + r.Intn(3)
	for w := 0; w < waves; w++ {
		for _, i := range r.Perm(nu) {
			if r.P(0.9) {
				ops = append(ops, mk(opAdd, ids[i]))
			}
			noise()
		}
		frac := 0.6 + 0.4*float64(r.Intn(1001))/1000
		if r.P(0.4) {
			frac = 1
		}
		for _, i := range r.Perm(nu) {
			if r.P(frac) {
				ops = append(ops, mk(opRemove, ids[i]))
			}
			noise()
		}
	}
	// a final lookup of every id and one more marshal
	for _, id := range ids {
		if r.P(0.3) {
			ops = append(ops, mk(opGet, id))
		}
	}
	ops = append(ops, mk(opMCedar, ""), mk(opJSON, ""))
	return ops
}

func c20churn(c *mon.Ctx) {
	c.ParFor("churn", c.N(160, 4000), func(w *mon.W, i int) {
		ops := c20ChurnOps(w.Rand())
		r := c20Exec(ops, w.Count, true)
		w.Evals(len(ops))
		removes := 0
		for _, o := range ops {
			if o.Kind == opRemove {
				removes++
			}
		}
		w.NonTrivial(fmt.Sprint("churn", i, len(ops)))
		w.Count(fmt.Sprintf("churn history with %d-%d removals", removes/100*100, removes/100*100+99))
		if r.fail != nil {
			c20Report(w, ops, r, true)
		}
	})
}
