package props

import (
	"fmt"
	"math"
	"time"

	cedar "github.com/cedar-policy/cedar-go"
	"github.com/cedar-policy/cedar-go/types"

	"verif/internal/mon"
)

// The scalar constructors are exported twice: in package types and, for convenience, in the
// root package. The other C12 streams drive package types; this one drives the root package's
// constructors over the same boundary and random inputs. Oracle: the exact value where it is
// known without cedar-go (milliseconds of a time.Time / time.Duration), and value-for-value
// agreement with the types constructor otherwise.
func init() {
	orig := Registry["C12"]
	Registry["C12"] = func(c *mon.Ctx) {
		orig(c)
		c12root(c)
	}
}

func c12root(c *mon.Ctx) {
	bound := []int64{0, 1, -1, 999, 1000, -999, -1000, -1001, 86399999, 86400000, -86400000, -86400001,
		math.MaxInt64, math.MinInt64, math.MaxInt64 - 1, math.MinInt64 + 1,
		// the edges of what a nanosecond count since 1970 can hold (1677-09-21 .. 2262-04-11), in ms
		9223372036854, 9223372036855, -9223372036854, -9223372036855, 9223372036854775, -9223372036854775,
		253402300799999, 253402300800000, -62135596800000, -62135596800001, -62167219200000, // year 9999/10000, year 1, year 0
		10413792000000, -8000000000000, 4102444800000}
	n := c.N(40000, 600000)
	c.ParFor("root-constructors", len(bound)+n, func(w *mon.W, i int) {
		r := w.Rand()
		var ms int64
		if i < len(bound) {
			ms = bound[i]
		} else {
			switch r.Intn(4) {
			case 0:
				ms = int64(r.U64())
			case 1:
				ms = int64(r.U64()) >> uint(r.Intn(40))
			case 2:
				ms = bound[r.Intn(len(bound))] + int64(r.Intn(2001)) - 1000
			default:
				ms = int64(r.U64()>>20) - (1 << 43)
			}
		}
		w.Evals(6)
		w.Count("root-package constructors on one integer")
		w.NonTrivial(fmt.Sprint(ms))
		wit := map[string]any{"milliseconds": ms}
		// datetimes: every int64 millisecond count is a time.Time
		t := time.UnixMilli(ms)
		if got := cedar.NewDatetime(t).Milliseconds(); got != ms {
			w.Violation("datetime:root NewDatetime wrong value ["+c12msClass(ms)+"]", fmt.Sprintf("cedar.NewDatetime(time.UnixMilli(%d)) holds %d ms (types.NewDatetime: %d)", ms, got, types.NewDatetime(t).Milliseconds()), wit)
		}
		if got := cedar.NewDatetimeFromMillis(ms).Milliseconds(); got != ms {
			w.Violation("datetime:root NewDatetimeFromMillis wrong value", fmt.Sprintf("cedar.NewDatetimeFromMillis(%d) holds %d ms", ms, got), wit)
		}
		if got := cedar.NewDurationFromMillis(ms).ToMilliseconds(); got != ms {
			w.Violation("duration:root NewDurationFromMillis wrong value", fmt.Sprintf("cedar.NewDurationFromMillis(%d) holds %d ms", ms, got), wit)
		}
		// ms reinterpreted as a nanosecond count: truncation toward zero to milliseconds
		if got, want := cedar.NewDuration(time.Duration(ms)).ToMilliseconds(), ms/1000000; got != want {
			w.Violation("duration:root NewDuration wrong value", fmt.Sprintf("cedar.NewDuration(%dns) holds %d ms, want %d", ms, got, want), wit)
		}
		// decimals: agreement with package types (which the decimal streams check against exact arithmetic)
		e := r.Intn(26) - 6
		a, aerr := cedar.NewDecimal(ms, e)
		b, berr := types.NewDecimal(ms, e)
		if (aerr == nil) != (berr == nil) || (aerr == nil && a != b) {
			w.Violation("decimal:root NewDecimal differs from types.NewDecimal", fmt.Sprintf("cedar.NewDecimal(%d,%d) = %v,%v; types.NewDecimal = %v,%v", ms, e, a, aerr, b, berr), wit)
		}
		a, aerr = cedar.NewDecimalFromInt(ms)
		b, berr = types.NewDecimalFromInt(ms)
		if (aerr == nil) != (berr == nil) || (aerr == nil && a != b) {
			w.Violation("decimal:root NewDecimalFromInt differs from types.NewDecimalFromInt", fmt.Sprintf("cedar.NewDecimalFromInt(%d) = %v,%v; types: %v,%v", ms, a, aerr, b, berr), wit)
		}
		f := math.Float64frombits(r.U64())
		if i%2 == 0 {
			f = float64(ms) / 10000
		}
		a, aerr = cedar.NewDecimalFromFloat(f)
		b, berr = types.NewDecimalFromFloat(f)
		if (aerr == nil) != (berr == nil) || (aerr == nil && a != b) {
			w.Violation("decimal:root NewDecimalFromFloat differs from types.NewDecimalFromFloat", fmt.Sprintf("cedar.NewDecimalFromFloat(%v) = %v,%v; types: %v,%v", f, a, aerr, b, berr), wit)
		}
	})
}

func c12msClass(ms int64) string {
	switch {
	case ms > 9223372036854 || ms < -9223372036854:
		return "outside the years 1677-2262"
	case ms < 0:
		return "before 1970"
	}
	return "1970-2262"
}
