package props

import (
	"fmt"
	"math"
	"strings"
	"time"

	cedar "github.com/cedar-policy/cedar-go"
	"github.com/cedar-policy/cedar-go/types"

	"verif/internal/gen"
	"verif/internal/mon"
)

// The scalar constructors are exported twice: in package types and, for convenience, in the
// root package. The other C12 streams drive package types; this one drives the root package's
// constructors over the same boundary and random inputs. Oracle: the exact value where it is
// known without cedar-go (milliseconds of a time.Time / time.Duration), and value-for-value
// agreement with the types constructor otherwise.
func init() {
	orig := Registry["C12"]
	Registry["C12"] = func(c *mon.Ctx) {
		// the whole check runs with a process-local time zone that is not UTC (a fixed zone, set
		// before any worker starts): the text forms of datetimes do not depend on it
		time.Local = time.FixedZone("verif+0530", 5*3600+1800)
		orig(c)
		c.Rule += " The check process runs with a non-UTC local time zone. Stream root-constructors: the scalar constructors re-exported by the root package over boundary and random integers."
		c12root(c)
		c12uidForms(c)
	}
}

func c12root(c *mon.Ctx) {
	bound := []int64{0, 1, -1, 999, 1000, -999, -1000, -1001, 86399999, 86400000, -86400000, -86400001,
		math.MaxInt64, math.MinInt64, math.MaxInt64 - 1, math.MinInt64 + 1,
		// the edges of what a nanosecond count since 1970 can hold (1677-09-21 .. 2262-04-11), in ms
		9223372036854, 9223372036855, -9223372036854, -9223372036855, 9223372036854775, -9223372036854775,
		253402300799999, 253402300800000, -62135596800000, -62135596800001, -62167219200000, // year 9999/10000, year 1, year 0
		10413792000000, -8000000000000, 4102444800000}
	n := c.N(40000, 600000)
	c.ParFor("root-constructors", len(bound)+n, func(w *mon.W, i int) {
		r := w.Rand()
		var ms int64
		if i < len(bound) {
			ms = bound[i]
		} else {
			switch r.Intn(4) {
			case 0:
				ms = int64(r.U64())
			case 1:
				ms = int64(r.U64()) >> uint(r.Intn(40))
			case 2:
				ms = bound[r.Intn(len(bound))] + int64(r.Intn(2001)) - 1000
			default:
				ms = int64(r.U64()>>20) - (1 << 43)
			}
		}
		w.Evals(6)
		w.Count("root-package constructors on one integer")
		w.NonTrivial(fmt.Sprint(ms))
		wit := map[string]any{"milliseconds": ms}
		// datetimes: every int64 millisecond count is a time.Time
		t := time.UnixMilli(ms)
		if got := cedar.NewDatetime(t).Milliseconds(); got != ms {
			w.Violation("datetime:root NewDatetime wrong value ["+c12msClass(ms)+"]", fmt.Sprintf("cedar.NewDatetime(time.UnixMilli(%d)) holds %d ms (types.NewDatetime: %d)", ms, got, types.NewDatetime(t).Milliseconds()), wit)
		}
		if got := cedar.NewDatetimeFromMillis(ms).Milliseconds(); got != ms {
			w.Violation("datetime:root NewDatetimeFromMillis wrong value", fmt.Sprintf("cedar.NewDatetimeFromMillis(%d) holds %d ms", ms, got), wit)
		}
		if got := cedar.NewDurationFromMillis(ms).ToMilliseconds(); got != ms {
			w.Violation("duration:root NewDurationFromMillis wrong value", fmt.Sprintf("cedar.NewDurationFromMillis(%d) holds %d ms", ms, got), wit)
		}
		// ms reinterpreted as a nanosecond count: truncation toward zero to milliseconds
		if got, want := cedar.NewDuration(time.Duration(ms)).ToMilliseconds(), ms/1000000; got != want {
			w.Violation("duration:root NewDuration wrong value", fmt.Sprintf("cedar.NewDuration(%dns) holds %d ms, want %d", ms, got, want), wit)
		}
		// decimals: agreement with package types (which the decimal streams check against exact arithmetic)
		e := r.Intn(26) - 6
		a, aerr := cedar.NewDecimal(ms, e)
		b, berr := types.NewDecimal(ms, e)
		if (aerr == nil) != (berr == nil) || (aerr == nil && a != b) {
			w.Violation("decimal:root NewDecimal differs from types.NewDecimal", fmt.Sprintf("cedar.NewDecimal(%d,%d) = %v,%v; types.NewDecimal = %v,%v", ms, e, a, aerr, b, berr), wit)
		}
		a, aerr = cedar.NewDecimalFromInt(ms)
		b, berr = types.NewDecimalFromInt(ms)
		if (aerr == nil) != (berr == nil) || (aerr == nil && a != b) {
			w.Violation("decimal:root NewDecimalFromInt differs from types.NewDecimalFromInt", fmt.Sprintf("cedar.NewDecimalFromInt(%d) = %v,%v; types: %v,%v", ms, a, aerr, b, berr), wit)
		}
		f := math.Float64frombits(r.U64())
		if i%2 == 0 {
			f = float64(ms) / 10000
		}
		a, aerr = cedar.NewDecimalFromFloat(f)
		b, berr = types.NewDecimalFromFloat(f)
		if (aerr == nil) != (berr == nil) || (aerr == nil && a != b) {
			w.Violation("decimal:root NewDecimalFromFloat differs from types.NewDecimalFromFloat", fmt.Sprintf("cedar.NewDecimalFromFloat(%v) = %v,%v; types: %v,%v", f, a, aerr, b, berr), wit)
		}
	})
}

// c12uidForms: text and binary forms of entity uids over the whole string universe, and long
// string / id values whose Cedar rendering crosses the policy tokenizer's read buffer at every
// alignment (the rendering of a value must evaluate back to it however long it is).
func c12uidForms(c *mon.Ctx) {
	ids := append(append([]string{}, gen.Strings...), gen.EntityIDs...)
	c.ParFor("uid-text-and-binary", len(ids)*len(gen.EntityTypes), func(w *mon.W, i int) {
		uid := types.NewEntityUID(types.EntityType(gen.EntityTypes[i%len(gen.EntityTypes)]), types.String(ids[i/len(gen.EntityTypes)]))
		w.Evals(2)
		w.Count("entity uid through its text and binary decoders")
		w.NonTrivial(uid.String())
		var u2, u3 types.EntityUID
		if err := u2.UnmarshalCedar(uid.MarshalCedar()); err != nil || !u2.Equal(uid) {
			w.Violation("entityuid:UnmarshalCedar(MarshalCedar) is not the identity ["+strClass(string(uid.ID))+"]", fmt.Sprintf("%s -> %v %v", uid.MarshalCedar(), u2, err), map[string]any{"uid": uid.String()})
		}
		b, err := uid.MarshalBinary()
		if err == nil {
			err = u3.UnmarshalBinary(b)
		}
		if err != nil || !u3.Equal(uid) {
			w.Violation("entityuid:UnmarshalBinary(MarshalBinary) is not the identity ["+strClass(string(uid.ID))+"]", fmt.Sprintf("%q -> %v %v", b, u3, err), map[string]any{"uid": uid.String()})
		}
	})
	chars := []string{"é", "€", "\U0001F600", "\\", "\"", "a€"}
	c.ParFor("long-renderings", len(chars)*5*2*2, func(w *mon.W, i int) {
		ch, pad, long, asID := chars[i%len(chars)], (i/len(chars))%5, (i/(len(chars)*5))%2, i/(len(chars)*10) == 1
		s := strings.Repeat("x", pad) + strings.Repeat(ch, []int{400, 1500}[long])
		var v types.Value = types.String(s)
		if asID {
			v = types.NewEntityUID("NS::T", types.String(s))
		}
		w.Evals(1)
		w.Count("long value rendered and evaluated back")
		w.NonTrivial(fmt.Sprint(i))
		var p cedar.Policy
		text := "permit(principal, action, resource) when { " + string(v.MarshalCedar()) + " == context.x };"
		if err := p.UnmarshalCedar([]byte(text)); err != nil {
			w.Violation("string:long rendering does not parse back ["+strClass(ch)+" characters]", fmt.Sprintf("the rendering (%d bytes) of a value of %d characters: %v", len(text), len(s), err), map[string]any{"character": ch, "padding": pad})
			return
		}
		ps := cedar.NewPolicySet()
		ps.Add("p", &p)
		dec, diag := cedar.Authorize(ps, types.EntityMap{}, cedar.Request{Principal: types.NewEntityUID("U", "a"), Action: types.NewEntityUID("Action", "a"), Resource: types.NewEntityUID("U", "b"),
			Context: types.NewRecord(types.RecordMap{"x": v})})
		if dec != cedar.Allow || len(diag.Errors) > 0 {
			w.Violation("string:long rendering evaluates to another value ["+strClass(ch)+" characters]", fmt.Sprintf("`<rendering of v> == context.x` with context.x = v is %v %v", dec, diag.Errors), map[string]any{"character": ch, "padding": pad})
		}
	})
}

func c12msClass(ms int64) string {
	switch {
	case ms > 9223372036854 || ms < -9223372036854:
		return "outside the years 1677-2262"
	case ms < 0:
		return "before 1970"
	}
	return "1970-2262"
}
