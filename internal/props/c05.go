package props

import (
	"context"
	"errors"
	"fmt"
	"sort"
	"strings"

	cedar "github.com/cedar-policy/cedar-go"
	"github.com/cedar-policy/cedar-go/types"
	"github.com/cedar-policy/cedar-go/x/exp/batch"

	"verif/internal/bridge"
	"verif/internal/gen"
	"verif/internal/model"
	"verif/internal/mon"
	"verif/internal/render"
)

func init() { Registry["C05"] = C05 }

type c05result struct {
	asgKey   string
	req      string
	decision bool
	reasons  string
}

var errInjected = errors.New("injected callback failure")

// callback failures that wrap context errors of some OTHER context
var errWrapped = []error{fmt.Errorf("%w: downstream: %w", errInjected, context.Canceled), fmt.Errorf("%w: downstream: %w", errInjected, context.DeadlineExceeded), errors.Join(context.DeadlineExceeded, errInjected)}

// flipCtx is a context whose Err() starts failing at its n-th poll.
type flipCtx struct {
	context.Context
	n       int
	polls   int
	flipped bool
}

func (f *flipCtx) Err() error {
	f.polls++
	if f.polls >= f.n {
		f.flipped = true
		return context.Canceled
	}
	return nil
}

func asgKey(names []string, get func(string) (model.Val, bool)) string {
	var sb strings.Builder
	for _, n := range names {
		v, ok := get(n)
		if !ok {
			sb.WriteString(n + "=<missing>;")
			continue
		}
		sb.WriteString(n + "=" + v.Key() + ";")
	}
	return sb.String()
}

func reqKey(p, a, r, c model.Val) string { return p.Key() + "|" + a.Key() + "|" + r.Key() + "|" + c.Key() }

func C05(c *mon.Ctx) {
	c.Rule = "case = (policy set, entity store, request template with variables, value lists, fault point). The harness enumerates the Cartesian product of the value lists itself, substitutes with its own substitution function and asks the ordinary cedar.Authorize for every concrete request; batch.Authorize must invoke the callback exactly once per product element (multiset comparison) with that request, that substitution, the same decision and the same reason-id set. " +
		"Fault sequences: the callback fails at call k (every k for products <= 12, sampled beyond) -> the injected error is returned (errors.Is) and no callback follows; the context is cancelled inside callback k / before the call / at its n-th Err() poll (every n up to the number of polls of the fault-free run) -> a context error is returned and no callback follows the cancellation. " +
		"distinct_nontrivial = distinct (template, policy set) pairs with >= 1 variable and a non-empty product."
	c.Assume = []string{"values offered for principal/action/resource variables are entity UIDs and values for a whole-context variable are records (anything else is rejected by the API as an invalid part)",
		"every declared variable is used and every used variable is declared (the API rejects the others)", "Diagnostic.Errors are not compared (the property fixes decision and reasons)"}
	c.Floor = 300
	n := c.N(4000, 80000)
	c.ParFor("templates", n, func(w *mon.W, i int) {
		r := w.Rand()
		// policies
		np := r.Intn(5)
		var mps []*model.Policy
		var m gen.Mentions
		for k := 0; k < np; k++ {
			mp := c06policy(r)
			mps = append(mps, mp)
			gen.CollectPolicy(&m, mp)
		}
		base := gen.EnvFor(r, &m, r.P(0.15))
		m.Vals = append(m.Vals, base.P, base.A, base.R)
		base.Ctx = contextFor(r, &m)
		ps := cedar.NewPolicySet()
		var ptexts []string
		for k, mp := range mps {
			ps.Add(cedar.PolicyID(fmt.Sprintf("p%d", k)), NewPolicy(bridge.ToPolicy(mp)))
			ptexts = append(ptexts, fmt.Sprintf("p%d: %s", k, render.CanonPolicy(mp)))
		}
		ents := bridge.ToEntityMap(base)
		// template
		tP, tA, tR, tC := base.P, base.A, base.R, base.Ctx
		vars := map[string][]model.Val{}
		entList := func(o model.Val) []model.Val {
			k := r.Intn(4)
			if r.P(0.08) {
				return nil
			}
			out := []model.Val{}
			if r.P(0.7) {
				out = append(out, o)
			}
			for len(out) < k {
				out = append(out, m.PickEnt(r))
			}
			return out
		}
		if r.P(0.4) {
			vars["p"] = entList(tP)
			tP = mvar("p")
		}
		if r.P(0.3) {
			vars["a"] = entList(tA)
			tA = mvar("a")
		}
		if r.P(0.35) {
			if _, ok := vars["p"]; ok && r.P(0.3) {
				tR = mvar("p") // the same variable in two request parts
			} else {
				vars["r"] = entList(tR)
				tR = mvar("r")
			}
		}
		if r.P(0.12) {
			lst := []model.Val{}
			for k := r.Intn(3); k >= 0; k-- {
				lst = append(lst, contextFor(r, &m))
			}
			if r.P(0.5) {
				lst = append(lst, tC)
			}
			vars["c"] = lst
			tC = mvar("c")
		} else {
			nested := map[string]model.Val{}
			tC = nestVars(r, tC, 0, "", nested, 0.4)
			used := map[string]bool{}
			findVars(tC, used)
			for name := range used {
				o := nested[name]
				lst := []model.Val{}
				if r.P(0.75) {
					lst = append(lst, o)
				}
				for k := r.Intn(3); k > 0; k-- {
					if len(m.Vals) > 0 && r.P(0.7) {
						lst = append(lst, mon.Pick(r, m.Vals))
					} else {
						lst = append(lst, gen.RandVal(r, 2))
					}
				}
				if r.P(0.06) {
					lst = nil
				}
				vars[name] = lst
			}
			if r.P(0.25) {
				// an entity-valued request variable reused inside the context
				for _, nm := range []string{"p", "a", "r"} {
					if _, ok := vars[nm]; ok && tC.K == model.KRecord && r.Bool() {
						tC = model.Record(append(append([]string{}, tC.Keys...), "who"), append(append([]model.Val{}, tC.Vals...), mvar(nm)))
						break
					}
				}
			}
		}
		if len(vars) == 0 {
			vars["p"] = entList(tP)
			tP = mvar("p")
		}
		names := sortedKeys(vars)
		total := 1
		for _, nm := range names {
			total *= len(vars[nm])
		}
		if total > 200 {
			return
		}
		// brute force
		want := map[string][]c05result{}
		for k := 0; k < total; k++ {
			asg := map[string]model.Val{}
			code := k
			for _, nm := range names {
				vs := vars[nm]
				asg[nm] = vs[code%len(vs)]
				code /= len(vs)
			}
			env := &model.Env{P: substVal(tP, asg), A: substVal(tA, asg), R: substVal(tR, asg), Ctx: substVal(tC, asg), Store: base.Store}
			if env.P.K != model.KEntity || env.A.K != model.KEntity || env.R.K != model.KEntity || env.Ctx.K != model.KRecord {
				return // not a valid template (see assumptions)
			}
			dec, diag := cedar.Authorize(ps, ents, bridge.ToRequest(env))
			reasons, _ := bridge.Diag(diag)
			key := asgKey(names, func(n string) (model.Val, bool) { v, ok := asg[n]; return v, ok })
			want[key] = append(want[key], c05result{asgKey: key, req: reqKey(env.P, env.A, env.R, env.Ctx), decision: dec == cedar.Allow, reasons: strings.Join(reasons, ",")})
		}
		bvars := batch.Variables{}
		for _, nm := range names {
			vs := make([]types.Value, len(vars[nm]))
			for k, v := range vars[nm] {
				vs[k] = bridge.ToValue(v)
			}
			bvars[types.String(nm)] = vs
		}
		breq := batch.Request{Principal: bridge.ToValue(tP), Action: bridge.ToValue(tA), Resource: bridge.ToValue(tR), Context: bridge.ToValue(tC), Variables: bvars}
		tdesc := map[string]any{"principal": tP.String(), "action": tA.String(), "resource": tR.String(), "context": tC.String(), "variables": func() map[string][]string {
			o := map[string][]string{}
			for _, nm := range names {
				for _, v := range vars[nm] {
					o[nm] = append(o[nm], v.String())
				}
			}
			return o
		}()}
		wit := map[string]any{"policies": ptexts, "template": tdesc, "entities": envWitness(base)["entities"]}
		shape := c05shape(tP, tA, tR, tC)
		// fault-free run
		var got []c05result
		var convErr string
		ctx0 := &flipCtx{Context: context.Background(), n: 1 << 30}
		breqBefore := DeepPrint(breq)
		err := func() (err error) {
			defer func() {
				if x := recover(); x != nil {
					err = fmt.Errorf("PANIC: %v", x)
				}
			}()
			return batch.Authorize(ctx0, ps, ents, breq, func(res batch.Result) error {
				vals := map[string]model.Val{}
				for k, v := range res.Values {
					mv, e := bridge.FromValue(v)
					if e != nil {
						convErr = e.Error()
					}
					vals[string(k)] = mv
				}
				if len(res.Values) != len(names) {
					convErr = fmt.Sprintf("Values has %d entries, template has %d variables", len(res.Values), len(names))
				}
				key := asgKey(names, func(n string) (model.Val, bool) { v, ok := vals[n]; return v, ok })
				rc, _ := bridge.FromValue(res.Request.Context)
				reasons, _ := bridge.Diag(res.Diagnostic)
				got = append(got, c05result{asgKey: key,
					req:      reqKey(model.Ent(string(res.Request.Principal.Type), string(res.Request.Principal.ID)), model.Ent(string(res.Request.Action.Type), string(res.Request.Action.ID)), model.Ent(string(res.Request.Resource.Type), string(res.Request.Resource.ID)), rc),
					decision: res.Decision == cedar.Allow, reasons: strings.Join(reasons, ",")})
				return nil
			})
		}()
		w.Evals(1)
		if after := DeepPrint(breq); after != breqBefore {
			wit["template_before"], wit["template_after"] = breqBefore, after
			w.Violation("batch.Authorize modifies the request template it was handed ["+shape+"]", "the template (parts, variable lists) differs after the call: a second call with the same template enumerates something else", wit)
			return
		}
		if total > 0 {
			w.NonTrivial(fmt.Sprint(tdesc) + strings.Join(ptexts, ";"))
		}
		w.Count(fmt.Sprintf("product size %s", bucket(total)))
		w.Count("template shape: " + shape)
		if err != nil {
			wit["error"] = err.Error()
			w.Violation("fault-free run returns an error ["+shape+"]", "batch.Authorize failed without any injected fault: "+err.Error(), wit)
			return
		}
		if convErr != "" {
			wit["problem"] = convErr
			w.Violation("callback Values malformed ["+shape+"]", convErr, wit)
			return
		}
		// multiset comparison
		gotBy := map[string][]c05result{}
		for _, g := range got {
			gotBy[g.asgKey] = append(gotBy[g.asgKey], g)
		}
		if len(got) != total {
			wit["callbacks"], wit["product_size"] = len(got), total
			kind := "missing"
			if len(got) > total {
				kind = "extra"
			}
			w.Violation(kind+" callbacks ["+shape+"]", fmt.Sprintf("batch.Authorize made %d callbacks for a product of %d substitutions", len(got), total), wit)
			return
		}
		for key, ws := range want {
			gs := gotBy[key]
			if len(gs) != len(ws) {
				wit["substitution"] = key
				w.Violation("substitution multiplicity differs ["+shape+"]", fmt.Sprintf("substitution %s delivered %d times, expected %d", key, len(gs), len(ws)), wit)
				return
			}
			g, x := gs[0], ws[0]
			switch {
			case g.req != x.req:
				wit["substitution"], wit["got_request"], wit["want_request"] = key, g.req, x.req
				w.Violation("callback request is not the substituted template ["+shape+"]", fmt.Sprintf("for substitution %s the callback's Request differs from the substituted template", key), wit)
				return
			case g.decision != x.decision:
				wit["substitution"], wit["batch_allow"], wit["authorize_allow"], wit["batch_reasons"], wit["authorize_reasons"] = key, g.decision, x.decision, g.reasons, x.reasons
				w.Violation(fmt.Sprintf("decision differs from cedar.Authorize (batch allow=%v) [%s]", g.decision, shape), fmt.Sprintf("for substitution %s batch decides allow=%v, cedar.Authorize allow=%v", key, g.decision, x.decision), wit)
				return
			case g.reasons != x.reasons:
				wit["substitution"], wit["batch_reasons"], wit["authorize_reasons"] = key, g.reasons, x.reasons
				w.Violation("reasons differ from cedar.Authorize ["+shape+"]", fmt.Sprintf("for substitution %s batch reasons [%s], cedar.Authorize reasons [%s]", key, g.reasons, x.reasons), wit)
				return
			}
		}
		// fault sequences
		if total == 0 {
			return
		}
		ks := []int{}
		if total <= 12 {
			for k := 1; k <= total; k++ {
				ks = append(ks, k)
			}
		} else {
			ks = []int{1, 2, total / 2, total - 1, total, 1 + r.Intn(total)}
		}
		for _, k := range ks {
			for mode := 0; mode < 3; mode++ {
				calls := 0
				cctx, cancel := context.WithCancel(context.Background())
				err := batch.Authorize(cctx, ps, ents, breq, func(res batch.Result) error {
					calls++
					if calls == k {
						switch mode {
						case 0:
							return errInjected
						case 2:
							// the callback's own failure happens to BE a context error of some other
							// context (a downstream call timed out) while the batch context is alive
							return errWrapped[k%len(errWrapped)]
						}
						cancel()
					}
					return nil
				})
				cancel()
				w.Evals(1)
				w.Count([]string{"fault: callback error at k", "fault: cancel inside callback k", "fault: callback error wrapping a foreign context error at k"}[mode])
				if mode == 2 {
					wit3 := map[string]any{"policies": ptexts, "template": tdesc, "k": k, "callbacks": calls, "returned": fmt.Sprint(err)}
					if calls != k {
						w.Violation("callbacks continue after a callback error", fmt.Sprintf("fault at callback %d of %d but %d callbacks were made", k, total, calls), wit3)
						return
					}
					if !errors.Is(err, errInjected) {
						w.Violation("callback error not returned (error wraps a foreign context error)", fmt.Sprintf("callback %d returned %v (batch context alive), batch.Authorize returned %v", k, errWrapped[k%len(errWrapped)], err), wit3)
						return
					}
					continue
				}
				wit2 := map[string]any{"policies": ptexts, "template": tdesc, "k": k, "callbacks": calls, "returned": fmt.Sprint(err)}
				if calls != k {
					w.Violation([]string{"callbacks continue after a callback error", "callbacks continue after cancellation inside a callback"}[mode], fmt.Sprintf("fault at callback %d of %d but %d callbacks were made", k, total, calls), wit2)
					return
				}
				if mode == 0 && !errors.Is(err, errInjected) {
					w.Violation("callback error not returned", fmt.Sprintf("callback %d returned an error, batch.Authorize returned %v", k, err), wit2)
					return
				}
				if mode == 1 && !errors.Is(err, context.Canceled) {
					w.Violation("cancellation inside a callback not reported", fmt.Sprintf("context cancelled in callback %d, batch.Authorize returned %v", k, err), wit2)
					return
				}
			}
		}
		// cancelled before the call
		{
			cctx, cancel := context.WithCancel(context.Background())
			cancel()
			calls := 0
			err := batch.Authorize(cctx, ps, ents, breq, func(batch.Result) error { calls++; return nil })
			w.Evals(1)
			if calls != 0 || !errors.Is(err, context.Canceled) {
				w.Violation("pre-cancelled context ignored", fmt.Sprintf("context cancelled before the call: %d callbacks, returned %v", calls, err), map[string]any{"policies": ptexts, "template": tdesc})
				return
			}
		}
		// Err() flips at its n-th poll
		polls := ctx0.polls
		var ns []int
		if polls <= 24 {
			for k := 1; k <= polls; k++ {
				ns = append(ns, k)
			}
		} else {
			ns = []int{1, 2, 3, polls / 2, polls - 1, polls, 1 + r.Intn(polls)}
		}
		for _, nn := range ns {
			fc := &flipCtx{Context: context.Background(), n: nn}
			after := 0
			err := batch.Authorize(fc, ps, ents, breq, func(batch.Result) error {
				if fc.flipped {
					after++
				}
				return nil
			})
			w.Evals(1)
			w.Count("fault: Err() flips at poll n")
			if after > 0 || err == nil || !errors.Is(err, context.Canceled) {
				w.Violation("cancellation between callbacks not honoured", fmt.Sprintf("context reports Canceled from its poll %d of %d on: %d callbacks followed, batch.Authorize returned %v", nn, polls, after, err),
					map[string]any{"policies": ptexts, "template": tdesc, "poll": nn, "callbacks_after_cancel": after, "returned": fmt.Sprint(err)})
				return
			}
		}
		if i%400 == 0 {
			w.Sample("template", map[string]any{"policies": ptexts, "template": tdesc, "product": total})
		}
	})
}

func bucket(n int) string {
	switch {
	case n == 0:
		return "0"
	case n == 1:
		return "1"
	case n <= 4:
		return "2-4"
	case n <= 12:
		return "5-12"
	case n <= 50:
		return "13-50"
	}
	return ">50"
}

// c05shape: where the variables sit (stable, coarse; used in signatures).
func c05shape(p, a, r, c model.Val) string {
	var parts []string
	names := map[string]int{}
	count := func(v model.Val) {
		u := map[string]bool{}
		findVars(v, u)
		for k := range u {
			names[k]++
		}
	}
	for _, x := range []struct {
		n string
		v model.Val
	}{{"principal", p}, {"action", a}, {"resource", r}} {
		if x.v.T == varType {
			parts = append(parts, x.n)
		}
		count(x.v)
	}
	if c.K == model.KEntity && c.T == varType {
		parts = append(parts, "context")
		count(c)
	} else {
		u := map[string]bool{}
		findVars(c, u)
		if len(u) > 0 {
			parts = append(parts, "nested-in-context")
			if occurrences(c) > len(u) {
				parts = append(parts, "variable-repeated-in-context")
			}
		}
		count(c)
	}
	for _, n := range names {
		if n > 1 {
			parts = append(parts, "variable-in-several-parts")
			break
		}
	}
	sort.Strings(parts)
	return strings.Join(parts, "+")
}

func occurrences(v model.Val) int {
	switch v.K {
	case model.KEntity:
		if v.T == varType {
			return 1
		}
	case model.KSet:
		n := 0
		for _, e := range v.Elems {
			n += occurrences(e)
		}
		return n
	case model.KRecord:
		n := 0
		for _, e := range v.Vals {
			n += occurrences(e)
		}
		return n
	}
	return 0
}
