package props

import (
	"fmt"
	"sort"
	"strings"

	"verif/internal/bridge"
	"verif/internal/model"
	"verif/internal/mon"
	"verif/internal/render"
)

// 'nearmiss' stream of C15. "Conforms to the schema" is, for a user of the library, whatever
// Validator.Entity / Entities / Request say (the property's anchors list them as a mechanism).
// The stream takes by-construction conforming data, makes it non-conforming in exactly one
// place (an undeclared attribute standing where an optional one is absent, a declared attribute
// of another kind, a missing required attribute, a tag of another kind or on a type without
// tags, a parent of an undeclared type, an entity reference of another type, a principal /
// resource type the action does not apply to, an action entity with another parent set) and
// pairs it with a policy the validator accepts *because* the schema excludes that situation.
// Verdict: a violation iff the validator calls the near-miss data conforming AND the accepted
// policy then fails on it with a forbidden error class. A near-miss that is rejected (the
// expected outcome on a correct tree) is counted per mutation kind.

type nmSite struct {
	root  string  // principal | resource | context
	steps []sAttr // attributes from the root record down to the record that is mutated
	attrs []sAttr // declared attributes of that record
}

func (s nmSite) String() string {
	p := s.root
	for _, a := range s.steps {
		p += "." + a.Name
	}
	return p
}

// recordSites lists the record positions of one environment: entity shapes, the context, and
// every record nested inside them (through records only, not through sets).
func nmRecordSites(sc *c15Schema, pe penv) []nmSite {
	var out []nmSite
	var walk func(root string, steps []sAttr, attrs []sAttr, depth int)
	walk = func(root string, steps []sAttr, attrs []sAttr, depth int) {
		out = append(out, nmSite{root: root, steps: append([]sAttr(nil), steps...), attrs: attrs})
		if depth >= 3 {
			return
		}
		for _, a := range attrs {
			if a.T.K == tRecord {
				walk(root, append(append([]sAttr(nil), steps...), a), a.T.Attrs, depth+1)
			}
		}
	}
	if e := sc.ent(pe.P); e != nil && e.Enum == nil {
		walk("principal", nil, e.Shape, 0)
	}
	if e := sc.ent(pe.R); e != nil && e.Enum == nil {
		walk("resource", nil, e.Shape, 0)
	}
	walk("context", nil, pe.Ctx, 0)
	return out
}

// nmUse builds a predicate over e that the validator accepts when e has declared type t and
// that fails with a type error when e evaluates to a value of another kind.
func nmUse(e *model.Expr, t *c15Type) *model.Expr {
	switch t.K {
	case tBool:
		return model.Bin(model.OAnd, e, model.Lit(model.Bool(true)))
	case tLong:
		return model.Bin(model.OLt, e, model.Lit(model.Long(1)))
	case tString:
		return model.Like(e, []model.PatElem{{Wild: true}})
	case tEntity:
		return model.Bin(model.OIn, e, e)
	case tSet:
		return model.Un(model.OIsEmpty, e)
	case tRecord:
		if len(t.Attrs) > 0 {
			return model.Has(e, t.Attrs[0].Name)
		}
		return model.Has(e, "zz")
	case tDecimal:
		return model.Ext("lessThan", e, model.Ext("decimal", model.Lit(model.Str("1.0"))))
	case tIP:
		return model.Ext("isIpv4", e)
	case tDatetime:
		return model.Bin(model.OLt, e, model.Ext("datetime", model.Lit(model.Str("2020-01-01"))))
	case tDuration:
		return model.Bin(model.OLt, e, model.Ext("duration", model.Lit(model.Str("1h"))))
	}
	return model.Bin(model.OEq, e, e)
}

// nmOtherKind returns a value whose kind differs from t's (and a short label).
func nmOtherKind(r *mon.Rand, t *c15Type, sc *c15Schema) (model.Val, string) {
	type kv struct {
		k tk
		v model.Val
		l string
	}
	ent := "U"
	for _, e := range sc.Ents {
		if e.Enum == nil {
			ent = e.Name
			break
		}
	}
	all := []kv{
		{tBool, model.Bool(true), "bool"}, {tLong, model.Long(7), "long"}, {tString, model.Str("s"), "string"},
		{tEntity, model.Ent(ent, "a"), "entity"}, {tSet, model.Set(), "emptyset"}, {tSet, model.Set(model.Long(1)), "set"},
		{tRecord, model.Rec(), "emptyrecord"}, {tDecimal, model.Decimal(15000), "decimal"},
		{tIP, model.IP4(0x0a000001, 32), "ip"}, {tDatetime, model.Datetime(86400000), "datetime"}, {tDuration, model.Duration(1000), "duration"},
	}
	for {
		c := mon.Pick(r, all)
		if t == nil || c.k != t.K {
			return c.v, c.l
		}
	}
}

func nmKindT(v model.Val) *c15Type {
	switch v.K {
	case model.KBool:
		return scalarT(tBool)
	case model.KLong:
		return scalarT(tLong)
	case model.KString:
		return scalarT(tString)
	case model.KEntity:
		return entT(v.T)
	case model.KSet:
		return setT(scalarT(tLong))
	case model.KRecord:
		return recT()
	case model.KDecimal:
		return scalarT(tDecimal)
	case model.KIP:
		return scalarT(tIP)
	case model.KDatetime:
		return scalarT(tDatetime)
	}
	return scalarT(tDuration)
}

func nmRecSet(rec model.Val, k string, v model.Val) model.Val {
	ks := append([]string(nil), rec.Keys...)
	vs := append([]model.Val(nil), rec.Vals...)
	for i := range ks {
		if ks[i] == k {
			vs[i] = v
			return model.Record(ks, vs)
		}
	}
	return model.Record(append(ks, k), append(vs, v))
}

func nmRecDel(rec model.Val, k string) model.Val {
	var ks []string
	var vs []model.Val
	for i := range rec.Keys {
		if rec.Keys[i] != k {
			ks = append(ks, rec.Keys[i])
			vs = append(vs, rec.Vals[i])
		}
	}
	return model.Record(ks, vs)
}

// nmRewrite applies f to the record found by following steps from root; ok=false when an
// intermediate attribute is absent in this datum.
func nmRewrite(root model.Val, steps []sAttr, f func(model.Val) model.Val) (model.Val, bool) {
	if len(steps) == 0 {
		return f(root), true
	}
	inner, ok := root.Get(steps[0].Name)
	if !ok || inner.K != model.KRecord {
		return root, false
	}
	ni, ok := nmRewrite(inner, steps[1:], f)
	if !ok {
		return root, false
	}
	return nmRecSet(root, steps[0].Name, ni), true
}

func nmCloneStore(st map[string]*model.Entity) map[string]*model.Entity {
	out := make(map[string]*model.Entity, len(st))
	for k, e := range st {
		c := *e
		c.Parents = append([]model.Val(nil), e.Parents...)
		out[k] = &c
	}
	return out
}

type nmCase struct {
	kind   string // mutation kind
	where  string // site
	detail string
	env    *model.Env // mutated
	body   *model.Expr
	ent    *model.Entity // the mutated entity (nil: request-side mutation)
}

var nmKinds = []string{"undeclared-attr", "attr-other-kind", "missing-required", "tag-other-kind", "tag-on-untagged-type", "parent-of-undeclared-type",
	"entity-ref-other-type", "principal-type-not-applicable", "resource-type-not-applicable", "action-entity-parents"}

func nmConj(parts []*model.Expr) *model.Expr {
	e := parts[len(parts)-1]
	for i := len(parts) - 2; i >= 0; i-- {
		e = model.Bin(model.OAnd, parts[i], e)
	}
	return e
}

// nmPathExpr returns the guards needed to walk the steps (a `has` for every optional step) and the
// expression denoting the record at the site.
func nmPathExpr(s nmSite) (guards []*model.Expr, x *model.Expr) {
	x = model.Var(s.root)
	for _, a := range s.steps {
		if a.Opt {
			guards = append(guards, model.Has(x, a.Name))
		}
		x = model.Access(x, a.Name)
	}
	return
}

func nmFreshName(attrs []sAttr, r *mon.Rand) string {
	for _, c := range []string{"zz", "extra", "k", "n", "a", "opt", "undeclared attr"} {
		c := c
		if r.P(0.4) {
			continue
		}
		used := false
		for _, a := range attrs {
			if a.Name == c {
				used = true
			}
		}
		if !used {
			return c
		}
	}
	return "zzézz"
}

// nmBuild draws one near-miss of the requested kind; nil when the schema / datum offers no site.
func nmBuild(r *mon.Rand, sc *c15Schema, pe penv, env *model.Env, kind string) *nmCase {
	st := nmCloneStore(env.Store)
	m := &model.Env{P: env.P, A: env.A, R: env.R, Ctx: env.Ctx, Store: st}
	nc := &nmCase{kind: kind, env: m}
	ill := mon.Pick(r, c15Ill)()
	rootRec := func(s nmSite) (model.Val, *model.Entity) {
		switch s.root {
		case "principal":
			e := st[m.P.Key()]
			if e == nil {
				return model.Val{}, nil
			}
			return e.Attrs, e
		case "resource":
			e := st[m.R.Key()]
			if e == nil {
				return model.Val{}, nil
			}
			return e.Attrs, e
		}
		return m.Ctx, nil
	}
	putRoot := func(s nmSite, v model.Val, e *model.Entity) {
		if s.root == "context" {
			m.Ctx = v
			return
		}
		e.Attrs = v
		nc.ent = e
	}
	switch kind {
	case "undeclared-attr", "attr-other-kind", "missing-required":
		sites := nmRecordSites(sc, pe)
		for try := 0; try < 8; try++ {
			s := mon.Pick(r, sites)
			root, e := rootRec(s)
			if root.K != model.KRecord {
				continue
			}
			guards, x := nmPathExpr(s)
			var body *model.Expr
			var f func(model.Val) model.Val
			switch kind {
			case "undeclared-attr":
				name := nmFreshName(s.attrs, r)
				v, l := nmOtherKind(r, nil, sc)
				useT, _ := nmOtherKind(r, nmKindT(v), sc)
				nc.detail = fmt.Sprintf("%s: undeclared attribute %q bound to a %s", s, name, l)
				f = func(rec model.Val) model.Val {
					// with probability 1/2 take the place of an absent optional attribute, so that the
					// record is not larger than the declaration
					if r.Bool() {
						for _, a := range s.attrs {
							if _, ok := rec.Get(a.Name); ok && a.Opt {
								rec = nmRecDel(rec, a.Name)
								break
							}
						}
					}
					return nmRecSet(rec, name, v)
				}
				body = nmConj(append(guards, model.Has(x, name), nmUse(model.Access(x, name), nmKindT(useT))))
			case "attr-other-kind":
				if len(s.attrs) == 0 {
					continue
				}
				a := mon.Pick(r, s.attrs)
				v, l := nmOtherKind(r, a.T, sc)
				nc.detail = fmt.Sprintf("%s: attribute %q (declared %s) bound to a %s", s, a.Name, a.T.text(), l)
				f = func(rec model.Val) model.Val { return nmRecSet(rec, a.Name, v) }
				g := guards
				if a.Opt {
					g = append(g, model.Has(x, a.Name))
				}
				body = nmConj(append(g, nmUse(model.Access(x, a.Name), a.T)))
			case "missing-required":
				var req []sAttr
				for _, a := range s.attrs {
					if !a.Opt {
						req = append(req, a)
					}
				}
				if len(req) == 0 {
					continue
				}
				a := mon.Pick(r, req)
				nc.detail = fmt.Sprintf("%s: required attribute %q missing", s, a.Name)
				f = func(rec model.Val) model.Val { return nmRecDel(rec, a.Name) }
				body = nmConj(append(guards, nmUse(model.Access(x, a.Name), a.T)))
			}
			nv, ok := nmRewrite(root, s.steps, f)
			if !ok {
				continue
			}
			putRoot(s, nv, e)
			nc.where, nc.body = s.root, body
			if len(s.steps) > 0 {
				nc.where += "/nested"
			}
			return nc
		}
		return nil
	case "tag-other-kind", "tag-on-untagged-type":
		for _, role := range []string{"principal", "resource"} {
			uid := m.P
			if role == "resource" {
				uid = m.R
			}
			e, se := st[uid.Key()], sc.ent(uid.T)
			if e == nil || se == nil || se.Enum != nil {
				continue
			}
			x := model.Var(role)
			key := mon.Pick(r, c15TagKeys)
			ht := model.Bin(model.OHasTag, x, model.Lit(model.Str(key)))
			gt := model.Bin(model.OGetTag, x, model.Lit(model.Str(key)))
			if kind == "tag-other-kind" && se.Tags != nil {
				v, l := nmOtherKind(r, se.Tags, sc)
				e.Tags = nmRecSet(e.Tags, key, v)
				nc.detail = fmt.Sprintf("%s: tag %q (declared %s) bound to a %s", role, key, se.Tags.text(), l)
				nc.body = model.Bin(model.OAnd, ht, nmUse(gt, se.Tags))
			} else if kind == "tag-on-untagged-type" && se.Tags == nil {
				v, l := nmOtherKind(r, nil, sc)
				e.Tags = nmRecSet(model.Rec(), key, v)
				nc.detail = fmt.Sprintf("%s: tag %q (%s) on an entity type without tags", role, key, l)
				nc.body = model.Bin(model.OAnd, ht, ill)
			} else {
				continue
			}
			nc.where, nc.ent = role, e
			return nc
		}
		return nil
	case "parent-of-undeclared-type":
		for _, role := range []string{"principal", "resource"} {
			uid := m.P
			if role == "resource" {
				uid = m.R
			}
			e, se := st[uid.Key()], sc.ent(uid.T)
			if e == nil || se == nil || se.Enum != nil {
				continue
			}
			// a type that is not an ancestor type (transitively) of the entity's type
			anc := map[string]bool{uid.T: true}
			for ch := true; ch; {
				ch = false
				for _, t := range sc.Ents {
					if anc[t.Name] {
						for _, p := range t.Parents {
							if !anc[p] {
								anc[p], ch = true, true
							}
						}
					}
				}
			}
			var cands []string
			for _, t := range sc.Ents {
				if !anc[t.Name] && t.Enum == nil {
					cands = append(cands, t.Name)
				}
			}
			if len(cands) == 0 {
				continue
			}
			pt := model.Ent(mon.Pick(r, cands), "a")
			e.Parents = append(e.Parents, pt)
			nc.detail = fmt.Sprintf("%s: parent %s::\"a\", not a declared (transitive) parent type of %s", role, pt.T, uid.T)
			nc.body = model.Bin(model.OAnd, model.Bin(model.OIn, model.Var(role), model.Lit(pt)), ill)
			nc.where, nc.ent = role, e
			return nc
		}
		return nil
	case "entity-ref-other-type":
		sites := nmRecordSites(sc, pe)
		for try := 0; try < 12; try++ {
			s := mon.Pick(r, sites)
			var cand []sAttr
			for _, a := range s.attrs {
				if a.T.K == tEntity {
					cand = append(cand, a)
				}
			}
			root, e := rootRec(s)
			if len(cand) == 0 || root.K != model.KRecord {
				continue
			}
			a := mon.Pick(r, cand)
			var others []string
			for _, t := range sc.Ents {
				if t.Name != a.T.Ent && t.Enum == nil {
					others = append(others, t.Name)
				}
			}
			if len(others) == 0 {
				continue
			}
			ot := mon.Pick(r, others)
			guards, x := nmPathExpr(s)
			nv, ok := nmRewrite(root, s.steps, func(rec model.Val) model.Val { return nmRecSet(rec, a.Name, model.Ent(ot, "a")) })
			if !ok {
				continue
			}
			putRoot(s, nv, e)
			if a.Opt {
				guards = append(guards, model.Has(x, a.Name))
			}
			nc.detail = fmt.Sprintf("%s: attribute %q (declared %s) refers to an entity of type %s", s, a.Name, a.T.Ent, ot)
			nc.body = nmConj(append(guards, model.Un(model.ONot, model.Is(model.Access(x, a.Name), a.T.Ent)), ill))
			nc.where = s.root
			return nc
		}
		return nil
	case "principal-type-not-applicable", "resource-type-not-applicable":
		act := sc.act(pe.A)
		if act == nil {
			return nil
		}
		role, ok := "principal", act.Principals
		if kind == "resource-type-not-applicable" {
			role, ok = "resource", act.Resources
		}
		var cands []string
		for _, t := range sc.Ents {
			in := false
			for _, o := range ok {
				if o == t.Name {
					in = true
				}
			}
			if !in {
				cands = append(cands, t.Name)
			}
		}
		if len(cands) == 0 {
			return nil
		}
		wt := mon.Pick(r, cands)
		uid := (&dataGen{r: r, sc: sc}).uid(wt)
		if role == "principal" {
			m.P = uid
		} else {
			m.R = uid
		}
		nc.detail = fmt.Sprintf("%s of type %s, which action %q does not apply to", role, wt, pe.A)
		nc.body = model.Bin(model.OAnd, model.Is(model.Var(role), wt), ill)
		nc.where = role
		return nc
	case "action-entity-parents":
		ae := st[m.A.Key()]
		if ae == nil {
			return nil
		}
		cl := map[string]bool{}
		for _, p := range sc.actionClosure(pe.A) {
			cl[p] = true
		}
		var cands []string
		for _, a := range sc.Acts {
			if a.ID != pe.A && !cl[a.ID] {
				cands = append(cands, a.ID)
			}
		}
		if len(cands) == 0 {
			return nil
		}
		op := model.Ent("Action", mon.Pick(r, cands))
		ae.Parents = append(ae.Parents, op)
		nc.detail = fmt.Sprintf("action entity %q with the additional parent %q", pe.A, op.ID)
		nc.body = model.Bin(model.OAnd, model.Bin(model.OIn, model.Var("action"), model.Lit(op)), ill)
		nc.where, nc.ent = "action", ae
		return nc
	}
	return nil
}

func c15NearMiss(c *mon.Ctx) {
	n := c.N(12000, 400000)
	fixed := []*c15built{}
	for _, f := range []func() *c15Schema{c15TableSchema, c15HostileSchema, c15ShapesSchema} {
		if b, err := c15Build(f()); err == nil {
			fixed = append(fixed, b)
		}
	}
	c.ParFor("nearmiss", n, func(w *mon.W, i int) {
		r := w.Rand()
		var b *c15built
		if i%4 == 3 && len(fixed) > 0 {
			b = fixed[(i/4)%len(fixed)]
		} else {
			sc := c15GenSchema(w.RandSub("schema"))
			var err error
			if b, err = c15Build(sc); err != nil {
				w.Inconclusive("generated schema does not resolve: " + c15ShortReason(err.Error()))
				return
			}
		}
		sc := b.sc
		envs := sc.envs()
		if len(envs) == 0 {
			return
		}
		pe := mon.Pick(r, envs)
		kind := nmKinds[i%len(nmKinds)]
		d := &dataGen{r: w.RandSub("data"), sc: sc}
		var env *model.Env
		for try := 0; try < 6; try++ {
			st := d.store()
			e := d.request(pe, st, nil, nil)
			// principal and resource present: their attributes are mutation sites
			if st[e.P.Key()] == nil || st[e.R.Key()] == nil {
				continue
			}
			env = e
			break
		}
		if env == nil {
			w.Count("nearmiss: no datum with principal and resource present")
			return
		}
		if err := b.strict.Entities(bridge.ToEntityMap(env)); err != nil {
			w.Inconclusive("validator.Entities rejects a by-construction store: " + c15ShortReason(err.Error()))
			return
		}
		if err := b.strict.Request(bridge.ToRequest(env)); err != nil {
			w.Inconclusive("validator.Request rejects a by-construction request: " + c15ShortReason(err.Error()))
			return
		}
		nc := nmBuild(r, sc, pe, env, kind)
		if nc == nil {
			w.Count("nearmiss " + kind + ": schema offers no site")
			return
		}
		pol := &model.Policy{Permit: true, P: model.Scope{Kind: model.ScAll}, A: model.Scope{Kind: model.ScEq, Ent: model.Ent("Action", pe.A)},
			R: model.Scope{Kind: model.ScAll}, Conds: []model.Cond{{When: true, Body: nc.body}}}
		if kind != "principal-type-not-applicable" {
			pol.P = model.Scope{Kind: model.ScIs, Type: pe.P}
		}
		if kind != "resource-type-not-applicable" {
			pol.R = model.Scope{Kind: model.ScIs, Type: pe.R}
		}
		ap := bridge.ToPolicy(pol)
		accS, _, siteS := c15Validate(b.strict, ap)
		accP, _, siteP := c15Validate(b.perm, ap)
		if siteS != "" || siteP != "" {
			w.Inconclusive("validator panicked (C16 territory) at " + strings.TrimSpace(siteS+" "+siteP))
			return
		}
		if !accS && !accP {
			w.Count("nearmiss " + kind + ": directed policy not accepted")
			return
		}
		w.Evals(1)
		// what the validator says about the near-miss datum
		em := bridge.ToEntityMap(nc.env)
		var accepted []string
		rejected := 0
		for _, v := range []struct {
			n string
			f func() error
		}{
			{"Entities", func() error { return b.strict.Entities(em) }},
			{"Entities(permissive validator)", func() error { return b.perm.Entities(em) }},
			{"Request", func() error { return b.strict.Request(bridge.ToRequest(nc.env)) }},
			{"Request(permissive validator)", func() error { return b.perm.Request(bridge.ToRequest(nc.env)) }},
		} {
			if nc.ent == nil && strings.HasPrefix(v.n, "Entities") {
				continue
			}
			if nc.ent != nil && strings.HasPrefix(v.n, "Request") {
				continue
			}
			g := safeErr(v.f)
			if g == "" {
				accepted = append(accepted, v.n)
			} else {
				rejected++
			}
		}
		if nc.ent != nil {
			ent := em[bridge.ToUID(nc.ent.UID)]
			if safeErr(func() error { return b.strict.Entity(ent) }) == "" {
				accepted = append(accepted, "Entity")
			} else {
				rejected++
			}
		}
		w.NonTrivial(b.text + "|" + kind + "|" + nc.detail)
		if len(accepted) == 0 {
			w.Count("nearmiss " + kind + " (" + nc.where + "): rejected by the validator")
			return
		}
		w.Count("nearmiss " + kind + " (" + nc.where + "): ACCEPTED by " + strings.Join(accepted, "+"))
		got := c15EvalPolicy(ap, nc.env)
		bad := c15Forbidden(got)
		if bad == "" {
			w.Count("nearmiss " + kind + ": accepted datum, policy did not fail")
			return
		}
		sort.Strings(accepted)
		sig := fmt.Sprintf("nearmiss:%s at %s: validator.%s calls the datum conforming; accepted policy fails with %s", kind, nc.where, strings.Join(accepted, "+"), bad)
		w.Violation(sig, "data one step away from conforming ("+nc.detail+") pass the validator's conformance check and an accepted policy fails on them with "+bad,
			map[string]any{"schema": b.text, "policy": render.CanonPolicy(pol), "mutation": nc.detail, "accepted_by": accepted, "strict": accS, "permissive": accP,
				"env": envWitness(nc.env), "cedar_go_evaluation": got.String()})
	})
}

func safeErr(f func() error) (msg string) {
	defer func() {
		if r := recover(); r != nil {
			msg = fmt.Sprint("panic: ", r)
		}
	}()
	if err := f(); err != nil {
		return err.Error()
	}
	return ""
}
