package props

import (
	"fmt"
	"math"
	"math/big"
	"strconv"
	"strings"
	"time"

	"github.com/cedar-policy/cedar-go/types"

	"verif/internal/gen"
	"verif/internal/model"
	"verif/internal/mon"
)

// c12Payloads: boundary payloads shared by the int64-backed types.
func c12Payloads(extra []int64) []int64 {
	out := append([]int64{}, extra...)
	out = append(out, gen.Longs...)
	for _, u := range []int64{1, 10, 100, 1000, 10000, 60000, 3600000, 86400000, 1e9, 1e12, 1e15, 1e18, 9223372036854, 9223372036854775, 922337203685477, 9223372036854770000} {
		for _, d := range []int64{-1, 0, 1} {
			out = append(out, u+d, -(u + d))
		}
	}
	for sh := uint(1); sh < 63; sh++ {
		out = append(out, int64(1)<<sh, -(int64(1) << sh), int64(1)<<sh-1)
	}
	for d := int64(0); d < 12; d++ {
		out = append(out, math.MaxInt64-d, math.MinInt64+d)
	}
	return out
}

func c12RandPayload(r *mon.Rand) int64 {
	switch r.Intn(4) {
	case 0:
		return r.I64()
	case 1:
		return r.I64() >> uint(r.Intn(64))
	case 2:
		if r.Bool() {
			return math.MaxInt64 - int64(r.U64()>>uint(20+r.Intn(44)))
		}
		return math.MinInt64 + int64(r.U64()>>uint(20+r.Intn(44)))
	}
	return gen.RandLong(r)
}

// ================================================================ decimal

func (k *c12) decimalValue(w *mon.W, i int64, text bool) {
	w.Evals(1)
	in := fmt.Sprintf("decimal raw=%d", i)
	k.safe(w, "decimal/value", in, func() {
		f := c12Feature(i)
		d, err := types.NewDecimal(i, -4)
		if err != nil {
			w.Violation("decimal:NewDecimal(i,-4)"+f+" error", fmt.Sprintf("NewDecimal(%d,-4): %v", i, err), map[string]any{"i": i, "error": err.Error()})
			return
		}
		if raw := c12DecRaw(d); raw != i {
			w.Violation("decimal:NewDecimal(i,-4)"+f+" wrong value", fmt.Sprintf("NewDecimal(%d,-4) holds %d/10000", i, raw), map[string]any{"i": i, "raw": raw})
			return
		}
		want := model.PrintDecimal(i)
		got := d.String()
		if got != want {
			w.Violation("decimal:String"+f+" not canonical", fmt.Sprintf("Decimal(%d/10000).String() = %q, want %q", i, got, want), map[string]any{"raw": i, "got": got, "want": want})
		}
		if mc := string(d.MarshalCedar()); mc != `decimal("`+got+`")` {
			w.Violation("decimal:MarshalCedar != decimal(\"String()\")", fmt.Sprintf("MarshalCedar=%q String=%q", mc, got), map[string]any{"raw": i, "marshal": mc, "string": got})
		}
		forms := []string{got}
		for n := 1; n <= 4; n++ {
			if s, ok := model.PrintDecimalDigits(i, n); ok {
				forms = append(forms, s)
			}
		}
		for fi, s := range forms {
			p, err := types.ParseDecimal(s)
			site := "Parse(String(v))"
			if fi > 0 {
				site = "Parse(n-digit form)"
			}
			if err != nil {
				w.Violation("decimal:"+site+f+" rejected", fmt.Sprintf("ParseDecimal(%q): %v (value %d/10000)", s, err, i), map[string]any{"literal": s, "raw": i, "error": err.Error()})
			} else if c12DecRaw(p) != i {
				w.Violation("decimal:"+site+f+" wrong value", fmt.Sprintf("ParseDecimal(%q) = %d/10000, want %d", s, c12DecRaw(p), i), map[string]any{"literal": s, "got": c12DecRaw(p), "want": i})
			}
			w.Count("decimal parse of printed form")
		}
		if fl := d.Float(); math.IsNaN(fl) || math.IsInf(fl, 0) {
			w.Violation("decimal:Float"+f+" not finite", fmt.Sprintf("Decimal(%d).Float() = %v", i, fl), map[string]any{"raw": i, "float": fl})
		} else {
			ex := big.NewRat(i, 10000)
			df := new(big.Rat).Sub(new(big.Rat).SetFloat64(fl), ex)
			tol := new(big.Rat).Mul(new(big.Rat).Abs(ex), big.NewRat(1, 1<<51))
			if df.Abs(df).Cmp(tol) > 0 {
				w.Violation("decimal:Float"+f+" inaccurate", fmt.Sprintf("Decimal(%d).Float() = %v", i, fl), map[string]any{"raw": i, "float": fl})
			}
		}
		if text {
			k.renderCheck(w, model.Decimal(i))
		}
	})
}

func (k *c12) decimalLiteral(w *mon.W, s string) {
	w.Evals(1)
	k.safe(w, "ParseDecimal", s, func() {
		mv, mok := model.ParseDecimal(s)
		d, err := types.ParseDecimal(s)
		switch {
		case err == nil && !mok:
			w.Count("decimal literal: DISAGREE accepted")
			w.Violation("decimal:malformed-literal-accepted("+c12DecimalClass(s)+")", fmt.Sprintf("ParseDecimal(%q) = %d/10000, the decimal grammar rejects it", s, c12DecRaw(d)),
				map[string]any{"literal": s, "cedar_go": c12DecRaw(d), "model": "reject"})
		case err != nil && mok:
			w.Count("decimal literal: DISAGREE rejected")
			w.Violation("decimal:valid-literal-rejected"+c12Feature(mv), fmt.Sprintf("ParseDecimal(%q): %v, want %d/10000", s, err, mv), map[string]any{"literal": s, "error": err.Error(), "model": mv})
		case err == nil && c12DecRaw(d) != mv:
			w.Violation("decimal:literal-wrong-value"+c12Feature(mv), fmt.Sprintf("ParseDecimal(%q) = %d/10000, want %d", s, c12DecRaw(d), mv), map[string]any{"literal": s, "cedar_go": c12DecRaw(d), "model": mv})
		case err == nil:
			w.Count("decimal literal: both accept")
		default:
			w.Count("decimal literal: both reject (" + c12DecimalClass(s) + ")")
		}
	})
}

var c12DecAlpha = []string{"0", "1", "5", "8", "9", ".", "-", "+", "e", "E", "_", " ", "x", "٣", "\x00"}

func (k *c12) decimalStreams() {
	c := k.c
	bound := c12Payloads(gen.Decimals)
	c.ParFor("decimal/boundary", len(bound), func(w *mon.W, i int) {
		k.reg(w, strconv.FormatInt(bound[i], 10), false)
		k.decimalValue(w, bound[i], true)
		if i%40 == 0 {
			w.Sample("decimal/value", map[string]any{"raw": bound[i], "string": model.PrintDecimal(bound[i])})
		}
	})
	c.ParFor("decimal/random", c.N(150000, 4000000), func(w *mon.W, i int) {
		v := c12RandPayload(w.Rand())
		k.reg(w, strconv.FormatInt(v, 10), true)
		w.Count("decimal value" + c12Feature(v))
		k.decimalValue(w, v, i%16 == 0)
	})
	// literals: spellings + hostile + random edits
	hostile := []string{"", ".", "-", "-.", "0", "0.", ".0", "-.5", "+1.0", "+0.5", "1.0e1", "1e1", "0x1.0", "1_0.0", "1.0_", "1..0", "1.0.0", "--1.0", "-+1.0", "+-1.0", "1.-5", "1.+5", "-0.0", "-0.0000",
		"0.00000", "1.00000", "1.23456", "0.65535", "0.65536", "0.99999", " 1.0", "1.0 ", "1 .0", "1.0\n", "١.0", "1.١", "１.0", "922337203685477.5807", "922337203685477.5808", "-922337203685477.5808", "-922337203685477.5809",
		"922337203685478.0", "-922337203685478.0", "9223372036854775807.0", "9223372036854775808.0", "-9223372036854775808.0", "-9223372036854775809.0", "18446744073709551616.0", "18446744073709551617.5",
		"000000000000000000000000000001.5", "-000000000000000000000000922337203685477.5808", "00.00", "1.", "1.0000", "1.5000", "-0.5", "-0.0001", "0.0001", "NaN", "Inf", "1,5", "1.5f", "0.1e", "١٢٣.٤"}
	c.ParFor("decimal/hostile", len(hostile), func(w *mon.W, i int) {
		k.reg(w, hostile[i], false)
		k.decimalLiteral(w, hostile[i])
	})
	c.ParFor("decimal/literals", c.N(150000, 4000000), func(w *mon.W, i int) {
		r := w.Rand()
		v := c12RandPayload(r)
		var s string
		if n := 1 + r.Intn(6); n <= 4 {
			if t, ok := model.PrintDecimalDigits(v, n); ok {
				s = t
			}
		}
		if s == "" {
			s = model.PrintDecimal(v)
		}
		if r.P(0.15) { // leading zeros in the integer part
			neg := strings.HasPrefix(s, "-")
			s = strings.TrimPrefix(s, "-")
			s = strings.Repeat("0", 1+r.Intn(22)) + s
			if neg {
				s = "-" + s
			}
		}
		if r.P(0.15) { // push the integer part across the range ends
			s = strings.Replace(s, ".", mon.Pick(r, []string{"0.", "9.", "00.", "."}), 1)
			if r.Bool() {
				s = mon.Pick(r, []string{"92233720368547", "922337203685477", "9223372036854775", "-92233720368547"}) + strings.TrimPrefix(s, "-")
			}
		}
		if r.P(0.15) { // extra fraction digits
			s += mon.Pick(r, []string{"0", "00", "5", "9", "0000"})
		}
		for e := r.Intn(3); e > 0 && r.P(0.8); e-- {
			s = c12Edit1(r, s, c12DecAlpha)
		}
		k.reg(w, s, true)
		k.decimalLiteral(w, s)
		if i%9973 == 0 {
			_, ok := model.ParseDecimal(s)
			w.Sample("decimal/literal", map[string]any{"literal": s, "model_accepts": ok})
		}
	})
	k.ed1("decimal", []string{"0.0", "-0.0", "1.5", "-1.23", "12.3456", "0.0001", "-0.0001", "10.00", "00.10", "9.9999", "922337203685477.5807", "-922337203685477.5808", "922337203685477.5808", "-922337203685477.5809"},
		c12DecAlpha, k.decimalLiteral)
	k.decimalCtors()
}

// ---------------------------------------------------------------- decimal constructors

var (
	c12Big10   = big.NewInt(10)
	c12MinI64  = big.NewInt(math.MinInt64)
	c12MaxI64  = big.NewInt(math.MaxInt64)
	c12Two64   = new(big.Int).Lsh(big.NewInt(1), 64)
	c12Two63R  = new(big.Rat).SetInt(new(big.Int).Lsh(big.NewInt(1), 63))
	c12TenThou = big.NewRat(10000, 1)
)

func c12Fits(x *big.Int) bool { return x.Cmp(c12MinI64) >= 0 && x.Cmp(c12MaxI64) <= 0 }

func (k *c12) newDecimal(w *mon.W, i int64, e int) {
	w.Evals(1)
	in := fmt.Sprintf("NewDecimal(%d, %d)", i, e)
	k.safe(w, "NewDecimal", in, func() {
		d, err := types.NewDecimal(i, e)
		// exact value in 1/10000 units: i * 10^(e+4), if integral
		var exact *big.Int
		if e+4 >= 0 {
			exact = new(big.Int).Mul(big.NewInt(i), new(big.Int).Exp(c12Big10, big.NewInt(int64(e+4)), nil))
		} else {
			q, r := new(big.Int).QuoRem(big.NewInt(i), new(big.Int).Exp(c12Big10, big.NewInt(int64(-e-4)), nil), new(big.Int))
			if r.Sign() == 0 {
				exact = q
			}
		}
		representable := exact != nil && c12Fits(exact)
		ecl := "e<=0"
		switch {
		case e > 0:
			ecl = "e>0"
		}
		if e < -4 || e > 14 {
			ecl = "e-outside-[-4,14]"
		}
		switch {
		case err == nil && !representable:
			w.Count("NewDecimal: DISAGREE value for unrepresentable product")
			w.Violation("decimal:NewDecimal("+ecl+") returns a value for an out-of-range product (silent wrap)", fmt.Sprintf("%s = %s (raw %d) but %d*10^%d is not a Decimal", in, d, c12DecRaw(d), i, e),
				map[string]any{"i": i, "exponent": e, "cedar_go_raw": c12DecRaw(d), "cedar_go": d.String(), "exact_in_1/10000": fmt.Sprint(exact)})
		case err == nil && c12DecRaw(d) != exact.Int64():
			w.Violation("decimal:NewDecimal("+ecl+") wrong value", fmt.Sprintf("%s = raw %d, want %s", in, c12DecRaw(d), exact), map[string]any{"i": i, "exponent": e, "cedar_go_raw": c12DecRaw(d), "exact": exact.String()})
		case err != nil && representable && e >= -4 && e <= 14:
			w.Violation("decimal:NewDecimal("+ecl+") rejects a representable product", fmt.Sprintf("%s: %v, want raw %s", in, err, exact), map[string]any{"i": i, "exponent": e, "error": err.Error(), "exact": exact.String()})
		case err == nil:
			w.Count("NewDecimal " + ecl + ": exact value")
		case representable:
			w.Count("NewDecimal " + ecl + ": error although representable (outside documented exponents)")
		default:
			w.Count("NewDecimal " + ecl + ": error, not representable")
		}
	})
}

func c12FromInt[T int | int8 | int16 | int32 | int64](k *c12, w *mon.W, v T, tn string) {
	w.Evals(1)
	in := fmt.Sprintf("NewDecimalFromInt[%s](%d)", tn, int64(v))
	k.safe(w, "NewDecimalFromInt", in, func() {
		d, err := types.NewDecimalFromInt(v)
		exact := new(big.Int).Mul(big.NewInt(int64(v)), big.NewInt(10000))
		switch {
		case err == nil && (!c12Fits(exact) || c12DecRaw(d) != exact.Int64()):
			w.Violation("decimal:NewDecimalFromInt wrong value", fmt.Sprintf("%s = raw %d, exact %s", in, c12DecRaw(d), exact), map[string]any{"input": in, "raw": c12DecRaw(d), "exact": exact.String()})
		case err != nil && c12Fits(exact):
			w.Violation("decimal:NewDecimalFromInt rejects a representable integer", fmt.Sprintf("%s: %v", in, err), map[string]any{"input": in, "error": err.Error()})
		case err == nil:
			w.Count("NewDecimalFromInt[" + tn + "]: exact")
		default:
			w.Count("NewDecimalFromInt[" + tn + "]: error (out of range)")
		}
	})
}

// fromFloat checks one float constructor call; x is the exact rational value of the argument.
func (k *c12) fromFloat(w *mon.W, in string, isNaN, isInf bool, x *big.Rat, mant uint, exactInt *big.Int, call func() (types.Decimal, error)) {
	w.Evals(1)
	k.safe(w, "NewDecimalFromFloat", in, func() {
		d, err := call()
		if isNaN || isInf {
			if err == nil {
				cl := "NaN"
				if isInf {
					cl = "Inf"
				}
				w.Violation("decimal:NewDecimalFromFloat("+cl+") returns a value", fmt.Sprintf("%s = %s", in, d), map[string]any{"input": in, "cedar_go": d.String(), "raw": c12DecRaw(d)})
			} else {
				w.Count("NewDecimalFromFloat: NaN/Inf rejected")
			}
			return
		}
		p := new(big.Rat).Mul(x, c12TenThou) // exact 10000 f
		absP := new(big.Rat).Abs(p)
		tooBig := p.Cmp(c12Two63R) >= 0 || new(big.Rat).Add(p, c12Two63R).Cmp(big.NewRat(-1, 1)) <= 0 // trunc(p) outside int64
		slack := new(big.Rat).Mul(absP, new(big.Rat).SetFrac(big.NewInt(1), new(big.Int).Lsh(big.NewInt(1), mant-2)))
		one := big.NewRat(1, 1)
		switch {
		case err == nil:
			diff := new(big.Rat).Sub(new(big.Rat).SetInt64(c12DecRaw(d)), p)
			diff.Abs(diff)
			wit := map[string]any{"input": in, "cedar_go": d.String(), "raw": c12DecRaw(d), "exact_10000f": p.FloatString(4)}
			switch {
			case diff.Cmp(new(big.Rat).Add(one, slack)) <= 0 && exactInt != nil && c12DecRaw(d) != exactInt.Int64():
				w.Violation("decimal:NewDecimalFromFloat(exactly-representable) inexact", fmt.Sprintf("%s = raw %d, want %s", in, c12DecRaw(d), exactInt), wit)
			case diff.Cmp(new(big.Rat).Add(one, slack)) <= 0 && exactInt != nil:
				w.Count("NewDecimalFromFloat: exact product, exact result")
			case diff.Cmp(new(big.Rat).Add(one, slack)) <= 0:
				w.Count("NewDecimalFromFloat: value within tolerance of 10000f")
			case absP.Cmp(one) >= 0 && (c12DecRaw(d) < 0) != (p.Sign() < 0):
				w.Violation("decimal:NewDecimalFromFloat returns a wrapped value (10000f is or rounds to >= 2^63, sign flips)", fmt.Sprintf("%s = %s (raw %d); 10000*f = %s", in, d, c12DecRaw(d), p.FloatString(1)), wit)
			case tooBig:
				w.Violation("decimal:NewDecimalFromFloat(out-of-range) returns a value", fmt.Sprintf("%s = %s (raw %d); 10000*f = %s is outside int64", in, d, c12DecRaw(d), p.FloatString(1)), wit)
			default:
				w.Violation("decimal:NewDecimalFromFloat(in-range) far from 10000f", fmt.Sprintf("%s = raw %d, 10000*f = %s", in, c12DecRaw(d), p.FloatString(4)), wit)
			}
		default: // error: fine when the product, or its rounding, reaches the end of the range
			limit := new(big.Rat).Sub(c12Two63R, new(big.Rat).Add(slack, one))
			if !tooBig && absP.Cmp(limit) < 0 {
				w.Violation("decimal:NewDecimalFromFloat(in-range) rejected", fmt.Sprintf("%s: %v", in, err), map[string]any{"input": in, "error": err.Error(), "exact_10000f": p.FloatString(4)})
			} else {
				w.Count("NewDecimalFromFloat: out of range rejected")
			}
		}
	})
}

func (k *c12) float64Case(w *mon.W, f float64, exactInt *big.Int) {
	in := "NewDecimalFromFloat[float64](" + strconv.FormatFloat(f, 'g', -1, 64) + ")"
	var x *big.Rat
	if !math.IsNaN(f) && !math.IsInf(f, 0) {
		x = new(big.Rat).SetFloat64(f)
	}
	k.fromFloat(w, in, math.IsNaN(f), math.IsInf(f, 0), x, 52, exactInt, func() (types.Decimal, error) { return types.NewDecimalFromFloat(f) })
}

func (k *c12) float32Case(w *mon.W, f float32, exactInt *big.Int) {
	in := "NewDecimalFromFloat[float32](" + strconv.FormatFloat(float64(f), 'g', -1, 32) + ")"
	f64 := float64(f)
	var x *big.Rat
	if !math.IsNaN(f64) && !math.IsInf(f64, 0) {
		x = new(big.Rat).SetFloat64(f64)
	}
	k.fromFloat(w, in, math.IsNaN(f64), math.IsInf(f64, 0), x, 23, exactInt, func() (types.Decimal, error) { return types.NewDecimalFromFloat(f) })
}

func (k *c12) decimalCtors() {
	c := k.c
	// NewDecimal: boundary payloads x every exponent in [-6,16]
	bound := c12Payloads(nil)
	hand := [][2]int64{{1844674408, 10}, {-1844674408, 10}, {184467440738, 8}, {18446744074, 9}, {184468, 14}, {-184468, 14}, {922337203685477, 0}, {922337203685478, 0}, {-922337203685477, 0}, {-922337203685478, 0},
		{92233720368547, 1}, {92233720368548, 1}, {9, 14}, {10, 14}, {-9, 14}, {-10, 14}, {math.MaxInt64, -4}, {math.MinInt64, -4}, {math.MaxInt64, -3}, {math.MinInt64, -3}, {math.MaxInt64, 1}, {math.MinInt64, 1}, {math.MinInt64, 14}}
	c.ParFor("decimal/NewDecimal-a-handpicked", len(hand), func(w *mon.W, i int) {
		k.reg(w, fmt.Sprint(hand[i]), false)
		k.newDecimal(w, hand[i][0], int(hand[i][1]))
	})
	c.ParFor("decimal/NewDecimal-boundary", len(bound), func(w *mon.W, i int) {
		k.reg(w, strconv.FormatInt(bound[i], 10), false)
		for e := -6; e <= 16; e++ {
			k.newDecimal(w, bound[i], e)
		}
	})
	c.ParFor("decimal/NewDecimal-directed", c.N(120000, 3000000), func(w *mon.W, i int) {
		r := w.Rand()
		e := r.Intn(23) - 6
		var v int64
		p10 := new(big.Int).Exp(c12Big10, big.NewInt(int64(max(e, 0))), nil)
		switch r.Intn(4) {
		case 0: // wrap candidates: i ~ k * 2^64 / 10^e (+ small), so that i*10^e mod 2^64 is small
			if e > 0 {
				kmax := new(big.Int).Quo(p10, big.NewInt(2))
				kk := big.NewInt(1 + int64(r.Intn(2000)))
				if kk.Cmp(kmax) >= 0 {
					kk = new(big.Int).Sub(kmax, big.NewInt(int64(1+r.Intn(3))))
				}
				if kk.Sign() > 0 {
					q := new(big.Int).Mul(kk, c12Two64)
					q.Quo(q, p10)
					q.Add(q, big.NewInt(int64(r.Intn(4))))
					if q.IsInt64() {
						v = q.Int64()
						if r.Bool() {
							v = -v
						}
						w.Count("NewDecimal directed: k*2^64/10^e candidate")
						break
					}
				}
			}
			fallthrough
		case 1: // around the representable limit for this exponent: |i| ~ 2^63 / 10^(e+4)
			lim := new(big.Int).Set(c12MaxI64)
			if e+4 >= 0 {
				lim.Quo(lim, new(big.Int).Exp(c12Big10, big.NewInt(int64(e+4)), nil))
			}
			lim.Add(lim, big.NewInt(int64(r.Intn(7))-3))
			if lim.IsInt64() {
				v = lim.Int64()
			} else {
				v = math.MaxInt64
			}
			if r.Bool() {
				v = -v
				if r.Bool() {
					v--
				}
			}
			w.Count("NewDecimal directed: range limit +-3")
		case 2:
			v = c12RandPayload(r)
			w.Count("NewDecimal directed: random payload")
		default: // multiples of 2^k / 10^e near int64 overflow of the product
			v = int64(r.U64() >> uint(r.Intn(40)))
			if r.Bool() {
				v = -v
			}
			w.Count("NewDecimal directed: random magnitude")
		}
		k.reg(w, fmt.Sprintf("%d/%d", v, e), false)
		k.newDecimal(w, v, e)
		if i%9973 == 0 {
			w.Sample("decimal/NewDecimal", map[string]any{"i": v, "exponent": e})
		}
	})
	c.ParFor("decimal/FromInt", c.N(20000, 200000), func(w *mon.W, i int) {
		r := w.Rand()
		v := c12RandPayload(r)
		if i < len(bound) {
			v = bound[i]
		}
		k.reg(w, strconv.FormatInt(v, 10), false)
		c12FromInt(k, w, v, "int64")
		c12FromInt(k, w, int(v), "int")
		c12FromInt(k, w, int32(v), "int32")
		c12FromInt(k, w, int16(v), "int16")
		c12FromInt(k, w, int8(v), "int8")
	})
	special := []float64{0, math.Copysign(0, -1), 1, -1, 0.5, 0.0001, -0.0001, 1e-5, math.NaN(), math.Inf(1), math.Inf(-1), math.MaxFloat64, -math.MaxFloat64, math.SmallestNonzeroFloat64,
		922337203685477.5, 922337203685477.6, 922337203685477.75, 922337203685477.9, 922337203685478, 922337203685479, 1e15, 1e16, 1e18, 9.223372036854775e14, 9.223372036854776e14, 9.223372036854777e14,
		-922337203685477.5, -922337203685477.9, -922337203685478, -922337203685479, -1e15, -1e16, 1844674407370955.2, 1844674407370956, 3e15, 1e300, -1e300, 12.34, 0.1, 1.0 / 3}
	c.ParFor("decimal/FromFloat-special", len(special), func(w *mon.W, i int) {
		k.reg(w, strconv.FormatFloat(special[i], 'g', -1, 64), false)
		k.float64Case(w, special[i], nil)
		k.float32Case(w, float32(special[i]), nil)
	})
	c.ParFor("decimal/FromFloat", c.N(100000, 2500000), func(w *mon.W, i int) {
		r := w.Rand()
		switch r.Intn(5) {
		case 0: // exactly representable product: f = m/16
			m := int64(r.U64()>>uint(22+r.Intn(40))) - int64(r.Intn(2))*int64(r.U64()>>uint(22+r.Intn(40)))
			f := float64(m) / 16
			k.reg(w, "f64x"+strconv.FormatInt(m, 10), false)
			k.float64Case(w, f, big.NewInt(m*625))
			m32 := int64(r.Intn(53000)) - 26500
			k.float32Case(w, float32(m32)/16, big.NewInt(m32*625))
		case 1: // around +-2^63/10000
			f := 922337203685477.5807 * (1 + (float64(r.Intn(2001))-1000)*1e-15)
			if r.Bool() {
				f = -f
			}
			if r.P(0.3) {
				f = math.Nextafter(922337203685477.6, math.Inf(1-2*r.Intn(2))) // neighbours of the limit
				for n := r.Intn(6); n > 0; n-- {
					f = math.Nextafter(f, math.Inf(1-2*r.Intn(2)))
				}
				if r.Bool() {
					f = -f
				}
			}
			k.reg(w, strconv.FormatFloat(f, 'g', -1, 64), false)
			k.float64Case(w, f, nil)
			k.float32Case(w, float32(f), nil)
		case 2: // any bit pattern
			f := math.Float64frombits(r.U64())
			k.reg(w, strconv.FormatFloat(f, 'g', -1, 64), false)
			k.float64Case(w, f, nil)
			k.float32Case(w, math.Float32frombits(uint32(r.U64())), nil)
		default: // moderate magnitudes
			f := (float64(r.I64()>>uint(r.Intn(60))) / 10000) * []float64{1, 1, 10, 1e3, 1e-3}[r.Intn(5)]
			k.reg(w, strconv.FormatFloat(f, 'g', -1, 64), false)
			k.float64Case(w, f, nil)
			k.float32Case(w, float32(f), nil)
		}
	})
}

// ================================================================ duration

func (k *c12) durationValue(w *mon.W, i int64, text bool) {
	w.Evals(1)
	k.safe(w, "duration/value", fmt.Sprintf("duration %dms", i), func() {
		f := c12Feature(i)
		d := types.NewDurationFromMillis(i)
		if d.ToMilliseconds() != i {
			w.Violation("duration:NewDurationFromMillis wrong value", fmt.Sprintf("NewDurationFromMillis(%d).ToMilliseconds() = %d", i, d.ToMilliseconds()), map[string]any{"ms": i})
		}
		want := model.PrintDuration(i)
		got := d.String()
		if got != want {
			w.Violation("duration:String"+f+" not canonical", fmt.Sprintf("Duration(%dms).String() = %q, want %q", i, got, want), map[string]any{"ms": i, "got": got, "want": want})
		}
		if mc := string(d.MarshalCedar()); mc != `duration("`+got+`")` {
			w.Violation("duration:MarshalCedar != duration(\"String()\")", fmt.Sprintf("MarshalCedar=%q String=%q", mc, got), map[string]any{"ms": i, "marshal": mc})
		}
		for fi, s := range []string{got, strconv.FormatInt(i, 10) + "ms"} {
			site := "Parse(String(v))"
			if fi == 1 {
				site = "Parse(<v>ms)"
			}
			p, err := types.ParseDuration(s)
			if err != nil {
				w.Violation("duration:"+site+f+" rejected", fmt.Sprintf("ParseDuration(%q): %v", s, err), map[string]any{"literal": s, "ms": i, "error": err.Error()})
			} else if p.ToMilliseconds() != i {
				w.Violation("duration:"+site+f+" wrong value", fmt.Sprintf("ParseDuration(%q) = %dms, want %d", s, p.ToMilliseconds(), i), map[string]any{"literal": s, "got": p.ToMilliseconds(), "want": i})
			}
		}
		// Duration.Duration(): exact nanoseconds or an error
		ns := new(big.Int).Mul(big.NewInt(i), big.NewInt(1000000))
		gd, err := d.Duration()
		switch {
		case err == nil && !c12Fits(ns):
			w.Violation("duration:Duration() returns a value for an unrepresentable time.Duration (silent wrap)", fmt.Sprintf("Duration(%dms).Duration() = %d ns, exact %s ns does not fit int64", i, int64(gd), ns),
				map[string]any{"ms": i, "cedar_go_ns": int64(gd), "exact_ns": ns.String()})
		case err == nil && int64(gd) != ns.Int64():
			w.Violation("duration:Duration() wrong value", fmt.Sprintf("Duration(%dms).Duration() = %d ns", i, int64(gd)), map[string]any{"ms": i, "cedar_go_ns": int64(gd), "exact_ns": ns.String()})
		case err != nil && c12Fits(ns):
			w.Violation("duration:Duration() rejects a representable value", fmt.Sprintf("Duration(%dms).Duration(): %v", i, err), map[string]any{"ms": i, "error": err.Error()})
		case err == nil:
			w.Count("Duration.Duration(): exact")
		default:
			w.Count("Duration.Duration(): error (out of range)")
		}
		// NewDuration(time.Duration): i reinterpreted as nanoseconds
		nd := types.NewDuration(time.Duration(i)).ToMilliseconds()
		diff := new(big.Int).Sub(new(big.Int).Mul(big.NewInt(nd), big.NewInt(1000000)), big.NewInt(i))
		if diff.Abs(diff).Cmp(big.NewInt(1000000)) >= 0 {
			w.Violation("duration:NewDuration wrong value", fmt.Sprintf("NewDuration(%dns) = %dms", i, nd), map[string]any{"ns": i, "ms": nd})
		}
		if text {
			k.renderCheck(w, model.Duration(i))
		}
	})
}

func (k *c12) durationLiteral(w *mon.W, s string) {
	w.Evals(1)
	k.safe(w, "ParseDuration", s, func() {
		mv, mok := model.ParseDuration(s)
		d, err := types.ParseDuration(s)
		switch {
		case err == nil && !mok:
			w.Violation("duration:malformed-literal-accepted("+c12DurationClass(s)+")", fmt.Sprintf("ParseDuration(%q) = %dms, the duration grammar rejects it", s, d.ToMilliseconds()),
				map[string]any{"literal": s, "cedar_go": d.ToMilliseconds(), "model": "reject"})
		case err != nil && mok:
			w.Violation("duration:valid-literal-rejected"+c12Feature(mv), fmt.Sprintf("ParseDuration(%q): %v, want %dms", s, err, mv), map[string]any{"literal": s, "error": err.Error(), "model": mv})
		case err == nil && d.ToMilliseconds() != mv:
			w.Violation("duration:literal-wrong-value"+c12Feature(mv), fmt.Sprintf("ParseDuration(%q) = %dms, want %d", s, d.ToMilliseconds(), mv), map[string]any{"literal": s, "cedar_go": d.ToMilliseconds(), "model": mv})
		case err == nil:
			w.Count("duration literal: both accept")
		default:
			w.Count("duration literal: both reject (" + c12DurationClass(s) + ")")
		}
	})
}

var c12DurAlpha = []string{"0", "1", "7", "9", "d", "h", "m", "s", "-", "+", " ", ".", "D", "_", "٣"}

func (k *c12) durationStreams() {
	c := k.c
	bound := c12Payloads(gen.Durations)
	c.ParFor("duration/boundary", len(bound), func(w *mon.W, i int) {
		k.reg(w, strconv.FormatInt(bound[i], 10), false)
		k.durationValue(w, bound[i], true)
		if i%40 == 0 {
			w.Sample("duration/value", map[string]any{"ms": bound[i], "string": model.PrintDuration(bound[i])})
		}
	})
	c.ParFor("duration/random", c.N(150000, 4000000), func(w *mon.W, i int) {
		v := c12RandPayload(w.Rand())
		k.reg(w, strconv.FormatInt(v, 10), true)
		w.Count("duration value" + c12Feature(v))
		k.durationValue(w, v, i%16 == 0)
	})
	hostile := []string{"", "-", "0", "1", "d", "ms", "-d", "1d1d", "1h1d", "1ms1s", "1s1ms", "1m1ms", "1mms", "1msms", "1m s", "1 d", " 1d", "1d ", "+1d", "--1d", "-+1d", "1.5h", "1D", "1H", "1S", "1MS", "1Ms", "1us", "1ns", "1w", "1y",
		"-0d", "-0ms", "0d0h0m0s0ms", "00d", "1d-1h", "1d+1h", "1_000ms", "١d", "1d", "1ｄ", "9223372036854775807ms", "9223372036854775808ms", "-9223372036854775808ms", "-9223372036854775809ms",
		"106751991167d7h12m55s807ms", "106751991167d7h12m55s808ms", "-106751991167d7h12m55s808ms", "-106751991167d7h12m55s809ms", "106751991168d", "-106751991168d", "106751991167d24h", "2562047788015h", "2562047788016h",
		"153722867280912m", "153722867280913m", "9223372036854775s", "9223372036854776s", "9223372036854775s807ms", "9223372036854775s808ms", "-9223372036854775s808ms", "18446744073709551616ms", "18446744073709551617ms",
		"99999999999999999999999999d", "0d9223372036854775807ms", "1d9223372036768375807ms", "1d9223372036768375808ms", "-1d9223372036768375808ms", "00000000000000000000000001d", "1d2h3m4s5ms", "1h30m", "1m30s", "1d1ms"}
	c.ParFor("duration/hostile", len(hostile), func(w *mon.W, i int) {
		k.reg(w, hostile[i], false)
		k.durationLiteral(w, hostile[i])
	})
	c.ParFor("duration/literals", c.N(150000, 4000000), func(w *mon.W, i int) {
		r := w.Rand()
		v := c12RandPayload(r)
		s := c12SpellDuration(r, v)
		if r.P(0.12) { // push one quantity across the range end
			s = strings.Replace(s, mon.Pick(r, []string{"d", "h", "s"}), mon.Pick(r, []string{"0d", "9h", "00s", "d9"}), 1)
		}
		for e := r.Intn(3); e > 0 && r.P(0.8); e-- {
			s = c12Edit1(r, s, c12DurAlpha)
		}
		k.reg(w, s, true)
		k.durationLiteral(w, s)
		if i%9973 == 0 {
			_, ok := model.ParseDuration(s)
			w.Sample("duration/literal", map[string]any{"literal": s, "model_accepts": ok})
		}
	})
	k.ed1("duration", []string{"0ms", "1d", "-1d", "1h", "1m", "1s", "1ms", "1m1ms", "1d2h3m4s5ms", "-9223372036854775808ms", "9223372036854775807ms", "106751991167d7h12m55s807ms", "-106751991167d7h12m55s808ms"},
		c12DurAlpha, k.durationLiteral)
}

// ================================================================ long

func (k *c12) longValue(w *mon.W, i int64, text bool) {
	w.Evals(1)
	k.safe(w, "long/value", strconv.FormatInt(i, 10), func() {
		want := big.NewInt(i).String()
		l := types.Long(i)
		if l.String() != want || string(l.MarshalCedar()) != want {
			w.Violation("long:String/MarshalCedar"+c12Feature(i)+" not canonical", fmt.Sprintf("Long(%s) prints %q / %q", want, l.String(), l.MarshalCedar()), map[string]any{"want": want, "string": l.String(), "marshal": string(l.MarshalCedar())})
		}
		if text {
			k.renderCheck(w, model.Long(i))
		}
	})
}

// longLiteral: a text matching -?[0-9]+ in expression position denotes that integer iff it fits int64.
func (k *c12) longLiteral(w *mon.W, s string) {
	w.Evals(1)
	x, ok := new(big.Int).SetString(s, 10)
	if !ok || strings.HasPrefix(s, "+") {
		panic("harness: bad long literal " + s)
	}
	g := c12EvalText(s)
	fits := c12Fits(x)
	cl := "in-range"
	if !fits {
		cl = "out-of-range"
	}
	if strings.HasPrefix(strings.TrimPrefix(s, "-"), "0") && len(strings.TrimPrefix(s, "-")) > 1 {
		cl += ",leading-zeros"
	}
	switch {
	case g.Panic != "" || g.BadVal != "":
		w.Violation("long:literal("+cl+") "+c12GotClass(g), fmt.Sprintf("long literal %s: %s", s, g), map[string]any{"literal": s, "result": g.String()})
	case fits && (g.IsErr || !g.Val.Equal(model.Long(x.Int64()))):
		w.Violation("long:literal("+cl+") "+c12GotClass(g), fmt.Sprintf("long literal %s evaluates to %s", s, g), map[string]any{"literal": s, "result": g.String()})
	case !fits && !g.IsErr:
		w.Violation("long:literal("+cl+") accepted (silent wrap)", fmt.Sprintf("long literal %s evaluates to %s", s, g), map[string]any{"literal": s, "result": g.String()})
	case fits:
		w.Count("long literal: value")
	default:
		w.Count("long literal: out of range rejected (" + g.Class + ")")
	}
}

func (k *c12) longStreams() {
	c := k.c
	bound := c12Payloads(nil)
	c.ParFor("long/boundary", len(bound), func(w *mon.W, i int) {
		k.reg(w, strconv.FormatInt(bound[i], 10), false)
		k.longValue(w, bound[i], true)
	})
	c.ParFor("long/random", c.N(40000, 1000000), func(w *mon.W, i int) {
		v := c12RandPayload(w.Rand())
		k.reg(w, strconv.FormatInt(v, 10), true)
		k.longValue(w, v, i%4 == 0)
	})
	c.ParFor("long/literals", c.N(20000, 600000), func(w *mon.W, i int) {
		r := w.Rand()
		x := big.NewInt(c12RandPayload(r))
		switch r.Intn(5) {
		case 0: // just beyond the ends
			x = new(big.Int).Add(c12MaxI64, big.NewInt(int64(r.Intn(12))-5))
			if r.Bool() {
				x = new(big.Int).Add(c12MinI64, big.NewInt(int64(r.Intn(12))-6))
			}
		case 1: // multiples of 2^64 plus small (wrap candidates)
			x = new(big.Int).Add(new(big.Int).Mul(c12Two64, big.NewInt(int64(1+r.Intn(5)))), big.NewInt(int64(r.Intn(100))-50))
			if r.Bool() {
				x.Neg(x)
			}
		case 2: // more digits
			x.Mul(x, big.NewInt(int64(1+r.Intn(1000))))
		}
		s := x.String()
		if r.P(0.2) {
			neg := strings.HasPrefix(s, "-")
			s = strings.Repeat("0", 1+r.Intn(25)) + strings.TrimPrefix(s, "-")
			if neg {
				s = "-" + s
			}
		}
		k.reg(w, s, true)
		k.longLiteral(w, s)
		if i%4999 == 0 {
			w.Sample("long/literal", map[string]any{"literal": s})
		}
	})
}
