package props

// C15 'shapes' stream: a completely enumerated family of policies over one fixed schema that
// systematically exercises the three mechanisms by which the validator decides NOT to demand
// something of a sub-term:
//
//   union     - comparisons (== != in contains is has hasTag) between a permissive-mode union of 2-3
//               entity types (every ordered selection of type names, both operand positions)
//               and an entity of a member / non-member type, guarding a tail that is unsafe or
//               ill-typed (&&, ||, !, if in every polarity);
//   capleak   - boolean combinations (&& || ! if, depth <= 2, every operand position) of a guard
//               for an optional attribute / tag / context attribute, another guard, a dynamic
//               boolean and statically False / True operands, followed by an access that is
//               only safe if the guard's capability legitimately survives the combination;
//   clauses   - 2-3 when/unless clauses (every combination and order) with the guard (plain,
//               negated, conjoined, disjoined) in one clause and the guarded access in another.
//
// The oracle is the same as everywhere in C15: whatever the validator accepts is evaluated on
// conforming data and must not fail with a forbidden error class.

import (
	"fmt"

	"verif/internal/model"
)

func c15ShapesSchema() *c15Schema {
	opt := func(n string, k tk) sAttr { return sAttr{Name: n, T: scalarT(k), Opt: true} }
	user := &c15Entity{Name: "User", Tags: scalarT(tString), Shape: sortAttrs([]sAttr{
		opt("nick", tString), opt("email", tString), {Name: "curator", T: scalarT(tBool)}, opt("lvl", tLong),
	})}
	// a two-level hierarchy below the resource types (Photo in Album in Zine): membership
	// between a resource and a union of types is then true for some members of the union only
	album := &c15Entity{Name: "Album", Parents: []string{"Zine"}, Shape: []sAttr{opt("label", tString)}}
	photo := &c15Entity{Name: "Photo", Parents: []string{"Album", "Zine"}, Tags: scalarT(tString), Shape: sortAttrs([]sAttr{opt("label", tString), {Name: "n", T: scalarT(tLong)}})}
	ctx := sortAttrs([]sAttr{opt("o", tLong), {Name: "flag", T: scalarT(tBool)}, {Name: "key", T: scalarT(tString)}})
	// a four-level chain Leaf in Mid in Top in Root; attribute no<T> is declared on every type of
	// the chain except T, so `resource.no<T>` is ill-typed for exactly one depth of the chain
	req := func(n string) sAttr { return sAttr{Name: n, T: scalarT(tString)} }
	root := &c15Entity{Name: "Root", Shape: sortAttrs([]sAttr{req("noLeaf"), req("noMid"), req("noTop")})}
	top := &c15Entity{Name: "Top", Parents: []string{"Root"}, Shape: sortAttrs([]sAttr{req("noLeaf"), req("noMid")})}
	mid := &c15Entity{Name: "Mid", Parents: []string{"Top"}, Shape: sortAttrs([]sAttr{req("noLeaf"), req("noTop")})}
	leaf := &c15Entity{Name: "Leaf", Parents: []string{"Mid"}, Shape: sortAttrs([]sAttr{req("noMid"), req("noTop")})}
	// one entity type with a required attribute of every kind of type (typing family)
	typed := &c15Entity{Name: "Typed", Tags: scalarT(tString), Shape: sortAttrs(append(c15TypedAttrs(), c15TypedExtra()...))}
	return &c15Schema{
		Ents: []*c15Entity{{Name: "Admin"}, album, leaf, mid, photo, root, top, typed, user, {Name: "Zine"}},
		Acts: []*sAction{
			{ID: "view", Applies: true, Principals: []string{"User"}, Resources: []string{"Album", "Leaf", "Mid", "Photo", "Root", "Top", "Typed", "Zine"}, Ctx: ctx},
			{ID: "other", Applies: true, Principals: []string{"User"}, Resources: []string{"Photo"}},
		},
	}
}

// c15TypedAttrs: the attributes of the entity type Typed, one per kind of type.
func c15TypedAttrs() []sAttr {
	a := func(n string, t *c15Type) sAttr { return sAttr{Name: n, T: t} }
	return []sAttr{
		a("b", scalarT(tBool)), a("n", scalarT(tLong)), a("s", scalarT(tString)), a("e", entT("Album")),
		a("sl", setT(scalarT(tLong))), a("ss", setT(scalarT(tString))), a("se", setT(entT("Album"))),
		a("sse", setT(setT(entT("Album")))), a("ssl", setT(setT(scalarT(tLong)))),
		a("r", recT(sAttr{Name: "x", T: scalarT(tLong)}, sAttr{Name: "e", T: entT("Album")})), a("sr", setT(recT(sAttr{Name: "x", T: scalarT(tLong)}))),
		a("d", scalarT(tDecimal)), a("dt", scalarT(tDatetime)), a("du", scalarT(tDuration)), a("ip", scalarT(tIP)),
	}
}

// c15TypedExtra: further attributes of Typed whose types are *different* from a base attribute's
// type but share values with it (two empty sets are equal whatever their element types, two
// records with only optional attributes may both be empty): the eqguard family compares them.
func c15TypedExtra() []sAttr {
	a := func(n string, t *c15Type) sAttr { return sAttr{Name: n, T: t} }
	o := func(n string, k tk) sAttr { return sAttr{Name: n, T: scalarT(k), Opt: true} }
	return []sAttr{
		a("e2", entT("Zine")), a("se2", setT(entT("Zine"))), a("sse2", setT(setT(entT("Zine")))),
		a("r2", recT(sAttr{Name: "x", T: scalarT(tLong)}, sAttr{Name: "e", T: entT("Zine")})), a("sr2", setT(recT(sAttr{Name: "y", T: scalarT(tString)}))),
		a("ro1", recT(o("p", tLong))), a("ro2", recT(o("q", tString))), a("sro", setT(recT(o("q", tString)))),
	}
}

type c15shape struct {
	conds  []model.Cond
	rtype  string // resource type the policy is pinned to
	kind   string
	rscope *model.Scope // resource scope clause when it is not `resource is <rtype>`
}

func c15Shapes() []c15shape {
	var out []c15shape
	L := func(v model.Val) *model.Expr { return model.Lit(v) }
	pv, rv, cv := model.Var("principal"), model.Var("resource"), model.Var("context")
	tr := L(model.Bool(true))
	star := []model.PatElem{{Wild: true}}
	not := func(e *model.Expr) *model.Expr { return model.Un(model.ONot, e) }
	and := func(a, b *model.Expr) *model.Expr { return model.Bin(model.OAnd, a, b) }
	or := func(a, b *model.Expr) *model.Expr { return model.Bin(model.OOr, a, b) }
	when := func(e *model.Expr) []model.Cond { return []model.Cond{{When: true, Body: e}} }
	curator := model.Access(pv, "curator")
	flag := model.Access(cv, "flag")

	// ---- union
	members := []string{"Admin", "Album", "Photo", "Zine"}
	var sels [][]string
	for _, a := range members {
		for _, b := range members {
			if a == b {
				continue
			}
			sels = append(sels, []string{a, b})
			for _, c := range members {
				if c != a && c != b {
					sels = append(sels, []string{a, b, c})
				}
			}
		}
	}
	ent := func(t string) *model.Expr { return L(model.Ent(t, "a")) }
	tails := []func() *model.Expr{
		func() *model.Expr { return model.Like(model.Access(rv, "label"), star) },
		func() *model.Expr { return not(L(model.Long(1))) },
	}
	for _, sel := range sels {
		var u *model.Expr
		var set []*model.Expr
		for _, m := range sel {
			set = append(set, ent(m))
		}
		if len(sel) == 2 {
			u = model.If(curator, ent(sel[0]), ent(sel[1]))
		} else {
			u = model.If(curator, ent(sel[0]), model.If(flag, ent(sel[1]), ent(sel[2])))
		}
		for _, rt := range []string{"Album", "Photo", "Zine"} {
			for oi, o := range []*model.Expr{rv, ent(rt)} {
				cmps := []*model.Expr{
					model.Bin(model.OEq, u, o), model.Bin(model.OEq, o, u), model.Bin(model.ONe, u, o), model.Bin(model.ONe, o, u),
					model.Bin(model.OIn, o, u), model.Bin(model.OIn, u, o), model.Bin(model.OIn, o, model.SetE(set...)),
					model.Bin(model.OContains, model.SetE(set...), o), model.Bin(model.OContainsAny, model.SetE(set...), model.SetE(o)),
					model.Is(u, rt), model.IsIn(u, rt, o), model.Has(u, "label"), model.Bin(model.OHasTag, u, L(model.Str("k"))),
					model.Bin(model.OEq, u, model.If(flag, o, ent(sel[0]))),
				}
				for ci, c := range cmps {
					for ti, tl := range tails {
						if oi == 1 && ti == 1 && ci%2 == 1 {
							continue // thin out the literal x closed-tail corner
						}
						ws := []*model.Expr{
							and(c, tl()), or(not(c), tl()), model.If(c, tl(), tr),
							or(c, tl()), and(not(c), tl()), model.If(c, tr, tl()),
						}
						for _, w := range ws {
							out = append(out, c15shape{when(w), rt, "union", nil})
						}
					}
				}
			}
		}
	}

	// ---- capleak
	type gv struct {
		gb, ga, use func() *model.Expr
	}
	key := L(model.Str("k"))
	gvs := []gv{
		{func() *model.Expr { return model.Has(pv, "email") }, func() *model.Expr { return model.Has(pv, "nick") },
			func() *model.Expr { return model.Like(model.Access(pv, "email"), star) }},
		{func() *model.Expr { return model.Bin(model.OHasTag, pv, key) }, func() *model.Expr { return model.Has(pv, "nick") },
			func() *model.Expr { return model.Like(model.Bin(model.OGetTag, pv, key), star) }},
		{func() *model.Expr { return model.Has(cv, "o") }, func() *model.Expr { return model.Has(pv, "lvl") },
			func() *model.Expr { return model.Bin(model.OGt, model.Access(cv, "o"), L(model.Long(0))) }},
	}
	falses := []func() *model.Expr{
		func() *model.Expr { return model.Is(pv, "Admin") },
		func() *model.Expr { return L(model.Bool(false)) },
		func() *model.Expr { return model.Bin(model.OEq, L(model.Long(1)), L(model.Long(2))) },
		func() *model.Expr { return model.Has(pv, "undeclared") },
		func() *model.Expr { return model.Bin(model.OEq, model.Var("action"), L(model.Ent("Action", "other"))) },
		func() *model.Expr { return model.Bin(model.OIn, pv, L(model.Ent("Album", "a"))) },
		func() *model.Expr { return model.Bin(model.OEq, pv, rv) },
	}
	trues := []func() *model.Expr{
		func() *model.Expr { return model.Is(pv, "User") },
		func() *model.Expr { return tr },
		func() *model.Expr { return model.Bin(model.OEq, L(model.Long(1)), L(model.Long(1))) },
		func() *model.Expr { return model.Bin(model.OEq, model.Var("action"), L(model.Ent("Action", "view"))) },
		func() *model.Expr { return model.Has(cv, "flag") },
		func() *model.Expr { return model.Bin(model.ONe, pv, rv) },
	}
	rot := 0
	for _, g := range gvs {
		// atoms: 0 Gb, 1 Ga, 2 D, 3 F, 4 T
		atom := func(k int) *model.Expr {
			rot++
			switch k {
			case 0:
				return g.gb()
			case 1:
				return g.ga()
			case 2:
				return curator
			case 3:
				return falses[rot%len(falses)]()
			}
			return trues[rot%len(trues)]()
		}
		type term struct {
			build func() *model.Expr
			hasGb bool
		}
		var atoms, d1 []term
		for k := 0; k < 5; k++ {
			k := k
			atoms = append(atoms, term{func() *model.Expr { return atom(k) }, k == 0})
		}
		bin := func(op model.Op, a, b term) term {
			return term{func() *model.Expr { return model.Bin(op, a.build(), b.build()) }, a.hasGb || b.hasGb}
		}
		neg := func(a term) term { return term{func() *model.Expr { return not(a.build()) }, a.hasGb} }
		for _, a := range atoms {
			d1 = append(d1, neg(a))
			for _, b := range atoms {
				d1 = append(d1, bin(model.OAnd, a, b), bin(model.OOr, a, b))
			}
		}
		var xs []term
		xs = append(xs, d1...)
		for _, x := range d1 {
			xs = append(xs, neg(x))
			for _, a := range atoms {
				for _, op := range []model.Op{model.OAnd, model.OOr} {
					xs = append(xs, bin(op, x, a), bin(op, a, x))
				}
			}
		}
		for _, a := range atoms {
			for _, b := range atoms {
				for _, c := range atoms {
					a, b, c := a, b, c
					xs = append(xs, term{func() *model.Expr { return model.If(a.build(), b.build(), c.build()) }, a.hasGb || b.hasGb || c.hasGb})
				}
			}
		}
		// a guard next to a static operand, nested in each position of an if
		var gs []term
		for _, k := range []int{3, 4} {
			for _, op := range []model.Op{model.OAnd, model.OOr} {
				gs = append(gs, bin(op, atoms[0], atoms[k]), bin(op, atoms[k], atoms[0]))
			}
		}
		for _, x := range gs {
			for _, a := range atoms {
				for _, b := range atoms {
					x, a, b := x, a, b
					xs = append(xs,
						term{func() *model.Expr { return model.If(x.build(), a.build(), b.build()) }, true},
						term{func() *model.Expr { return model.If(a.build(), x.build(), b.build()) }, true},
						term{func() *model.Expr { return model.If(a.build(), b.build(), x.build()) }, true})
				}
			}
		}
		for _, x := range xs {
			if !x.hasGb {
				continue
			}
			out = append(out,
				c15shape{when(and(x.build(), g.use())), "Photo", "capleak", nil},
				c15shape{when(model.If(x.build(), g.use(), tr)), "Photo", "capleak", nil},
				c15shape{when(model.If(not(x.build()), tr, g.use())), "Photo", "capleak", nil},
				c15shape{when(or(not(x.build()), g.use())), "Photo", "capleak", nil},
			)
		}
	}

	// ---- keyalias: a tag guard on one key followed by a tag read with ANOTHER key whose
	// spelling could be mistaken for it (a string literal that reads like the text of a
	// computed key, and the reverse). Guard and read never use the same key, so the read is
	// unguarded in every one of these shapes.
	tagKeys := []func() *model.Expr{
		func() *model.Expr { return L(model.Str("k")) },
		func() *model.Expr { return L(model.Str("context.key")) },
		func() *model.Expr { return L(model.Str("context[\"key\"]")) },
		func() *model.Expr { return L(model.Str("\"k\"")) },
		func() *model.Expr { return model.Access(cv, "key") },
		func() *model.Expr { return model.If(flag, L(model.Str("k")), L(model.Str("t"))) },
	}
	for gi, gk := range tagKeys {
		for ui, uk := range tagKeys {
			if gi == ui {
				continue
			}
			guard := func() *model.Expr { return model.Bin(model.OHasTag, pv, gk()) }
			use := func() *model.Expr { return model.Like(model.Bin(model.OGetTag, pv, uk()), star) }
			out = append(out,
				c15shape{when(and(guard(), use())), "Photo", "keyalias", nil},
				c15shape{when(model.If(guard(), use(), tr)), "Photo", "keyalias", nil},
				c15shape{when(or(not(guard()), use())), "Photo", "keyalias", nil},
				c15shape{when(and(and(guard(), curator), use())), "Photo", "keyalias", nil},
				c15shape{[]model.Cond{{When: true, Body: guard()}, {When: true, Body: use()}}, "Photo", "keyalias", nil},
				c15shape{[]model.Cond{{When: false, Body: not(guard())}, {When: true, Body: use()}}, "Photo", "keyalias", nil},
			)
		}
	}

	// ---- scopechain: the resource scope is `in` an entity at the top of a four-level type
	// chain; the condition is ill-typed for exactly one type below it. The policy is evaluated
	// in the environment of that type (which the scope admits).
	for _, t := range []string{"Leaf", "Mid", "Top"} {
		bad := func() *model.Expr { return model.Like(model.Access(rv, "no"+t), star) }
		for _, anchor := range []string{"Root", "Top", "Mid"} {
			if anchor == t || (anchor == "Mid" && t == "Top") {
				continue
			}
			depthOK := map[string]int{"Root": 0, "Top": 1, "Mid": 2, "Leaf": 3}
			if depthOK[t] < depthOK[anchor] {
				continue
			}
			sc := &model.Scope{Kind: model.ScIn, Ent: model.Ent(anchor, "a")}
			out = append(out,
				c15shape{when(bad()), t, "scopechain", sc},
				c15shape{when(and(curator, bad())), t, "scopechain", sc},
				c15shape{[]model.Cond{{When: false, Body: not(bad())}}, t, "scopechain", sc},
				c15shape{when(model.If(flag, bad(), tr)), t, "scopechain", sc},
			)
		}
	}

	// ---- typing: every operator over operands of every kind of type (attributes of one
	// entity, all required, so the accesses themselves are safe). Most combinations are
	// ill-typed and must be rejected; whatever is accepted is evaluated. The expression is
	// wrapped as `E == E`, which is well typed exactly when E is.
	var tattrs []string
	for _, a := range c15TypedAttrs() {
		tattrs = append(tattrs, a.Name)
	}
	opd := func(n string) *model.Expr { return model.Access(rv, n) }
	wrap := func(e func() *model.Expr) []model.Cond { return when(model.Bin(model.OEq, e(), e())) }
	binOps := []model.Op{model.OAnd, model.OOr, model.OAdd, model.OSub, model.OMul, model.OLt, model.OLe, model.OGt, model.OGe, model.OIn,
		model.OContains, model.OContainsAll, model.OContainsAny, model.OHasTag, model.OGetTag}
	binExt := []string{"lessThan", "lessThanOrEqual", "greaterThan", "greaterThanOrEqual", "isInRange", "offset", "durationSince"}
	unExt := []string{"toDate", "toTime", "toMilliseconds", "toSeconds", "toMinutes", "toHours", "toDays", "isIpv4", "isIpv6", "isLoopback", "isMulticast", "decimal", "ip", "datetime", "duration"}
	for _, x := range tattrs {
		for _, y := range tattrs {
			x, y := x, y
			for _, op := range binOps {
				op := op
				out = append(out, c15shape{wrap(func() *model.Expr { return model.Bin(op, opd(x), opd(y)) }), "Typed", "typing", nil})
			}
			for _, fn := range binExt {
				fn := fn
				out = append(out, c15shape{wrap(func() *model.Expr { return model.Ext(fn, opd(x), opd(y)) }), "Typed", "typing", nil})
			}
			out = append(out, c15shape{wrap(func() *model.Expr { return model.IsIn(opd(x), "Album", opd(y)) }), "Typed", "typing", nil},
				c15shape{wrap(func() *model.Expr { return model.If(opd(x), opd(y), opd(y)) }), "Typed", "typing", nil})
		}
		x := x
		uns := []func() *model.Expr{
			func() *model.Expr { return not(opd(x)) }, func() *model.Expr { return model.Un(model.ONeg, opd(x)) }, func() *model.Expr { return model.Un(model.OIsEmpty, opd(x)) },
			func() *model.Expr { return model.Access(opd(x), "x") }, func() *model.Expr { return model.Has(opd(x), "x") }, func() *model.Expr { return model.Like(opd(x), star) },
			func() *model.Expr { return model.Is(opd(x), "Album") }, func() *model.Expr { return model.Bin(model.OIn, pv, opd(x)) }, func() *model.Expr { return model.Bin(model.OIn, opd(x), rv) },
			func() *model.Expr { return model.Bin(model.OIn, opd(x), model.SetE(opd("e"), rv)) }, func() *model.Expr { return model.Bin(model.OIn, pv, model.SetE(opd(x))) },
			func() *model.Expr { return model.Bin(model.OAdd, opd(x), L(model.Long(1))) }, func() *model.Expr { return model.Bin(model.OLt, L(model.Long(1)), opd(x)) },
			func() *model.Expr { return model.Bin(model.OContains, opd(x), L(model.Long(1))) }, func() *model.Expr { return model.Bin(model.OGetTag, pv, opd(x)) },
			func() *model.Expr { return model.Bin(model.OHasTag, pv, opd(x)) },
		}
		for _, u := range uns {
			out = append(out, c15shape{wrap(u), "Typed", "typing", nil})
		}
		for _, fn := range unExt {
			fn := fn
			out = append(out, c15shape{wrap(func() *model.Expr { return model.Ext(fn, opd(x)) }), "Typed", "typing", nil})
		}
	}

	// ---- eqguard: an equality between two attributes guards a tail that is ill-typed
	// (String < Long). The validator may only accept such a policy if the equality can never hold;
	// for types that merely look disjoint (sets over different element types, records that differ
	// in optional attributes) conforming data makes both sides equal (both empty) and the tail runs.
	{
		var all []string
		for _, a := range append(c15TypedAttrs(), c15TypedExtra()...) {
			all = append(all, a.Name)
		}
		bad := func() *model.Expr { return model.Bin(model.OLt, opd("s"), L(model.Long(3))) }
		for _, x := range all {
			for _, y := range all {
				if x == y {
					continue
				}
				x, y := x, y
				eq := func() *model.Expr { return model.Bin(model.OEq, opd(x), opd(y)) }
				ne := func() *model.Expr { return model.Bin(model.ONe, opd(x), opd(y)) }
				out = append(out,
					c15shape{when(and(eq(), bad())), "Typed", "eqguard", nil},
					c15shape{when(or(ne(), bad())), "Typed", "eqguard", nil},
					c15shape{when(model.If(eq(), bad(), tr)), "Typed", "eqguard", nil},
					c15shape{[]model.Cond{{When: false, Body: or(ne(), bad())}}, "Typed", "eqguard", nil},
					c15shape{when(or(not(eq()), bad())), "Typed", "eqguard", nil},
					c15shape{when(and(model.Bin(model.OEq, model.SetE(opd(x)), model.SetE(opd(y))), bad())), "Typed", "eqguard", nil},
					c15shape{when(and(model.Bin(model.OContains, model.SetE(opd(x)), opd(y)), bad())), "Typed", "eqguard", nil},
				)
			}
		}
	}

	// ---- clauses
	for _, g := range gvs {
		guards := []func() *model.Expr{
			g.gb,
			func() *model.Expr { return not(g.gb()) },
			func() *model.Expr { return and(g.gb(), curator) },
			func() *model.Expr { return and(curator, g.gb()) },
			func() *model.Expr { return or(g.gb(), curator) },
			func() *model.Expr { return not(not(g.gb())) },
			func() *model.Expr { return and(g.gb(), g.ga()) },
		}
		for _, gd := range guards {
			for wg := 0; wg < 2; wg++ {
				for wu := 0; wu < 2; wu++ {
					for order := 0; order < 2; order++ {
						gc := model.Cond{When: wg == 0, Body: gd()}
						uc := model.Cond{When: wu == 0, Body: g.use()}
						two := []model.Cond{gc, uc}
						if order == 1 {
							two = []model.Cond{uc, gc}
						}
						out = append(out, c15shape{two, "Photo", "clauses", nil})
						for pos := 0; pos <= 2; pos++ {
							for wn := 0; wn < 2; wn++ {
								nc := model.Cond{When: wn == 0, Body: flag}
								three := append(append(append([]model.Cond{}, two[:pos]...), nc), two[pos:]...)
								out = append(out, c15shape{three, "Photo", "clauses", nil})
							}
						}
					}
				}
			}
		}
	}
	return out
}

func c15ShapePolicy(s c15shape) *model.Policy {
	conds := make([]model.Cond, len(s.conds))
	for i, c := range s.conds {
		conds[i] = model.Cond{When: c.When, Body: c15Clone(c.Body)}
	}
	rs := model.Scope{Kind: model.ScIs, Type: s.rtype}
	if s.rscope != nil {
		rs = *s.rscope
	}
	return &model.Policy{Permit: true, P: model.Scope{Kind: model.ScIs, Type: "User"}, A: model.Scope{Kind: model.ScEq, Ent: model.Ent("Action", "view")},
		R: rs, Conds: conds}
}

func c15ShapeEnv(sc *c15Schema, rtype string) penv {
	for _, e := range sc.envs() {
		if e.A == "view" && e.R == rtype {
			return e
		}
	}
	panic(fmt.Sprintf("c15: no environment for resource type %s", rtype))
}
