package props

// Independent reference helpers of the C12 monitor: a Cedar string-literal decoder, a strict
// IP literal parser, literal generators (alternative spellings of one value) and the
// edit-distance mutators. Nothing in this file calls cedar-go's parsers or printers.

import (
	"fmt"
	"math/big"
	"reflect"
	"regexp"
	"sort"
	"strconv"
	"strings"
	"unicode"
	"unicode/utf8"

	"github.com/cedar-policy/cedar-go/types"

	"verif/internal/model"
	"verif/internal/mon"
)

// ---------------------------------------------------------------- raw observations

// c12DecRaw reads the 1/10000 count of a Decimal (read-only reflection on the unexported field).
func c12DecRaw(d types.Decimal) int64 { return reflect.ValueOf(d).Field(0).Int() }

// ---------------------------------------------------------------- Cedar string literals

const c12GoEscape = `Go-only escape \a \b \f \v \uXXXX \UXXXXXXXX (strconv.Quote)`

func c12Hex(c byte) int {
	switch {
	case c >= '0' && c <= '9':
		return int(c - '0')
	case c >= 'a' && c <= 'f':
		return int(c-'a') + 10
	case c >= 'A' && c <= 'F':
		return int(c-'A') + 10
	}
	return -1
}

// c12StrDecode decodes a complete Cedar string literal ("..."): escapes \n \r \t \\ \0 \' \"
// \xHH (<= 0x7f) and \u{H..} (1-6 hex digits, a Unicode scalar value); everything else is a
// raw character. bad names the first offending construct when ok is false.
func c12StrDecode(lit string) (s string, ok bool, bad string) {
	if len(lit) < 2 || lit[0] != '"' || lit[len(lit)-1] != '"' {
		return "", false, "not-quoted"
	}
	body := lit[1 : len(lit)-1]
	if !utf8.ValidString(body) {
		return "", false, "invalid-utf8"
	}
	var sb strings.Builder
	for i := 0; i < len(body); {
		c := body[i]
		if c == '"' {
			return "", false, "raw-quote"
		}
		if c != '\\' {
			r, n := utf8.DecodeRuneInString(body[i:])
			sb.WriteRune(r)
			i += n
			continue
		}
		i++
		if i >= len(body) {
			return "", false, "dangling-backslash"
		}
		e := body[i]
		i++
		switch e {
		case 'n':
			sb.WriteByte('\n')
		case 'r':
			sb.WriteByte('\r')
		case 't':
			sb.WriteByte('\t')
		case '\\':
			sb.WriteByte('\\')
		case '0':
			sb.WriteByte(0)
		case '\'':
			sb.WriteByte('\'')
		case '"':
			sb.WriteByte('"')
		case 'x':
			if i+2 > len(body) || c12Hex(body[i]) < 0 || c12Hex(body[i+1]) < 0 {
				return "", false, `\x-malformed`
			}
			v := c12Hex(body[i])*16 + c12Hex(body[i+1])
			if v > 0x7f {
				return "", false, `\x>7f`
			}
			sb.WriteByte(byte(v))
			i += 2
		case 'u':
			if i >= len(body) || body[i] != '{' {
				return "", false, c12GoEscape
			}
			i++
			v, n := 0, 0
			for i < len(body) && c12Hex(body[i]) >= 0 && n < 7 {
				v = v*16 + c12Hex(body[i])
				i++
				n++
			}
			if n == 0 || n > 6 || i >= len(body) || body[i] != '}' {
				return "", false, `\u{}-malformed`
			}
			i++
			if v > 0x10ffff || (v >= 0xd800 && v <= 0xdfff) {
				return "", false, `\u{}-not-a-scalar`
			}
			sb.WriteRune(rune(v))
		case 'a', 'b', 'f', 'v', 'U', 'e':
			return "", false, c12GoEscape
		default:
			return "", false, "unknown-escape"
		}
	}
	return sb.String(), true, ""
}

// c12RuneClass is the character class used in signatures (never the concrete character).
func c12RuneClass(r rune) string {
	switch {
	case r == 0xfffd:
		return "U+FFFD"
	case r == 0:
		return "NUL"
	case r == '\n' || r == '\r' || r == '\t':
		return "nl/cr/tab"
	case r < 0x20:
		return "C0-control"
	case r == 0x7f:
		return "DEL"
	case r == '"' || r == '\\' || r == '\'':
		return "quote/backslash"
	case r < 0x7f:
		return "ascii"
	case r <= 0x9f:
		return "C1-control"
	case unicode.Is(unicode.Mn, r) || unicode.Is(unicode.Me, r):
		return "combining-mark"
	case r >= 0xe000 && r <= 0xf8ff || r >= 0xf0000:
		return "private-use"
	case !unicode.IsPrint(r):
		return "non-printable"
	case r > 0xffff:
		return "astral-printable"
	}
	return "bmp-printable"
}

var c12ClassRank = map[string]int{"U+FFFD": 0, "C0-control": 1, "DEL": 2, "C1-control": 3, "NUL": 4, "non-printable": 5, "private-use": 6,
	"combining-mark": 7, "nl/cr/tab": 8, "quote/backslash": 9, "astral-printable": 10, "bmp-printable": 11, "ascii": 12}

// c12StrClass: the most unusual character class occurring in s.
func c12StrClass(s string) string {
	best := "empty"
	rank := 99
	for _, r := range s {
		c := c12RuneClass(r)
		if c12ClassRank[c] < rank {
			best, rank = c, c12ClassRank[c]
		}
	}
	return best
}

// ---------------------------------------------------------------- syntax classes (signatures)

var (
	c12DecRe = regexp.MustCompile(`^-?[0-9]+\.[0-9]+$`)
	c12DurRe = regexp.MustCompile(`^-?([0-9]+d)?([0-9]+h)?([0-9]+m)?([0-9]+s)?([0-9]+ms)?$`)
)

func c12NonASCII(s string) bool {
	for i := 0; i < len(s); i++ {
		if s[i] >= 0x80 {
			return true
		}
	}
	return false
}

// c12DecimalClass classifies a string the decimal grammar rejects.
func c12DecimalClass(s string) string {
	switch {
	case c12DecRe.MatchString(s):
		if len(s)-strings.IndexByte(s, '.')-1 > 4 {
			return "more-than-4-fraction-digits"
		}
		return "out-of-range"
	case s == "":
		return "empty"
	case c12NonASCII(s):
		return "non-ascii"
	case strings.ContainsAny(s, "+"):
		return "plus-sign"
	case strings.ContainsAny(s, "_"):
		return "underscore"
	case strings.ContainsAny(s, "eExX"):
		return "exponent/hex"
	case strings.ContainsAny(s, " \t\n\x00"):
		return "whitespace/nul"
	case !strings.Contains(s, "."):
		return "no-point"
	case strings.Count(s, ".") > 1:
		return "two-points"
	case strings.HasPrefix(s, ".") || strings.HasPrefix(s, "-.") || strings.HasSuffix(s, "."):
		return "empty-part"
	case strings.LastIndexByte(s, '-') > 0:
		return "misplaced-minus"
	}
	return "other"
}

func c12DurationClass(s string) string {
	t := strings.TrimPrefix(s, "-")
	switch {
	case c12DurRe.MatchString(s) && t != "":
		return "out-of-range"
	case t == "":
		return "empty"
	case c12NonASCII(s):
		return "non-ascii"
	case strings.ContainsAny(s, "+"):
		return "plus-sign"
	case strings.ContainsAny(s, " \t\n\x00"):
		return "whitespace/nul"
	case strings.ContainsAny(s, "._"):
		return "point/underscore"
	case strings.ContainsAny(s, "DHMS"):
		return "uppercase-unit"
	case strings.LastIndexByte(s, '-') > 0:
		return "misplaced-minus"
	case t[len(t)-1] >= '0' && t[len(t)-1] <= '9':
		return "missing-unit"
	case t[0] < '0' || t[0] > '9':
		return "missing-quantity"
	}
	return "unit-order/repeat/other"
}

// c12DTSyntaxOK: s is a syntactically valid datetime literal (calendar-valid date, fields in
// range) irrespective of the int64 range. The Gregorian calendar has period 400 years, so
// the year is replaced by an equivalent one in 2000..2399.
func c12DTSyntaxOK(s string) bool {
	if s == "" || (s[0] != '+' && s[0] != '-') {
		_, _, ok := model.ParseDatetime(s) // 4-digit years are always in range
		return ok
	}
	if len(s) < 10 {
		return false
	}
	for i := 1; i < 10; i++ {
		if s[i] < '0' || s[i] > '9' {
			return false
		}
	}
	y, _ := strconv.Atoi(s[1:10])
	if s[0] == '-' {
		y = -y
	}
	m := y % 400
	if m < 0 {
		m += 400
	}
	_, _, ok := model.ParseDatetime(fmt.Sprintf("%04d", 2000+m) + s[10:])
	return ok
}

func c12DTFormName(f model.DTForm) string {
	var p []string
	if f.Expanded {
		p = append(p, "expanded-year")
	} else {
		p = append(p, "4-digit-year")
	}
	switch {
	case f.DateOnly:
		p = append(p, "date-only")
	case f.Millis:
		p = append(p, "millis")
	default:
		p = append(p, "seconds")
	}
	if f.Offset {
		p = append(p, "offset")
	} else if !f.DateOnly {
		p = append(p, "Z")
	}
	return strings.Join(p, ",")
}

// c12DTYearInStd: the literal's year field lies in 0..9999.
func c12DTYear(s string) (int, bool) {
	if s == "" {
		return 0, false
	}
	if s[0] == '+' || s[0] == '-' {
		if len(s) < 10 {
			return 0, false
		}
		y, err := strconv.Atoi(s[1:10])
		if err != nil {
			return 0, false
		}
		if s[0] == '-' {
			y = -y
		}
		return y, true
	}
	if len(s) < 4 {
		return 0, false
	}
	y, err := strconv.Atoi(s[:4])
	return y, err == nil
}

// ---------------------------------------------------------------- calendar (generation only)

// c12Civil converts days since 1970-01-01 to a proleptic Gregorian date. It is used only to
// GENERATE literals; the oracle for a literal's value is model.ParseDatetime.
func c12Civil(z int64) (y, m, d int64) {
	z += 719468
	era := z / 146097
	if z < 0 {
		era = (z - 146096) / 146097
	}
	doe := z - era*146097
	yoe := (doe - doe/1460 + doe/36524 - doe/146096) / 365
	y = yoe + era*400
	doy := doe - (365*yoe + yoe/4 - yoe/100)
	mp := (5*doy + 2) / 153
	d = doy - (153*mp+2)/5 + 1
	if mp < 10 {
		m = mp + 3
	} else {
		m = mp - 9
	}
	if m <= 2 {
		y++
	}
	return
}

type c12DT struct {
	Y                     int64
	Mo, D, HH, Mi, SS, Ms int64
	Expanded              bool
	DateOnly, Millis, Off bool
	OffNeg                bool
	OH, OM                int64
}

func (f c12DT) String() string {
	var sb strings.Builder
	if f.Expanded {
		y := f.Y
		sign := "+"
		if y < 0 {
			sign, y = "-", -y
		}
		fmt.Fprintf(&sb, "%s%09d", sign, y)
	} else {
		fmt.Fprintf(&sb, "%04d", f.Y)
	}
	fmt.Fprintf(&sb, "-%02d-%02d", f.Mo, f.D)
	if f.DateOnly {
		return sb.String()
	}
	fmt.Fprintf(&sb, "T%02d:%02d:%02d", f.HH, f.Mi, f.SS)
	if f.Millis {
		fmt.Fprintf(&sb, ".%03d", f.Ms)
	}
	if f.Off {
		c := "+"
		if f.OffNeg {
			c = "-"
		}
		fmt.Fprintf(&sb, "%s%02d%02d", c, f.OH, f.OM)
	} else {
		sb.WriteByte('Z')
	}
	return sb.String()
}

// c12DTFromInstant spells the instant `ms` (may lie outside int64) as local time with the
// given offset (minutes, local = UTC + offset).
func c12DTFromInstant(ms *big.Int, offMin int64, useOff, millis, dateOnly, forceExpanded bool) c12DT {
	local := new(big.Int).Add(ms, big.NewInt(offMin*60000))
	day, rem := new(big.Int).DivMod(local, big.NewInt(86400000), new(big.Int)) // Euclidean: rem >= 0
	y, m, d := c12Civil(day.Int64())
	r := rem.Int64()
	f := c12DT{Y: y, Mo: m, D: d, HH: r / 3600000, Mi: r / 60000 % 60, SS: r / 1000 % 60, Ms: r % 1000,
		Expanded: forceExpanded || y < 0 || y > 9999, Millis: millis, DateOnly: dateOnly}
	f.Off = useOff || offMin != 0
	if offMin < 0 {
		f.OffNeg = true
		offMin = -offMin
	}
	f.OH, f.OM = offMin/60, offMin%60
	return f
}

// ---------------------------------------------------------------- IP literals

// c12ParseIP is the strict reference parser for ip() literals: dotted-quad IPv4 without
// leading zeros, RFC 4291 IPv6 text (hex groups, at most one "::", no embedded IPv4, no zone),
// optional "/prefix" in decimal without sign or leading zeros.
func c12ParseIP(s string) (model.IPVal, bool) {
	if i := strings.IndexByte(s, '/'); i >= 0 {
		p := s[i+1:]
		if p == "" || len(p) > 3 || (len(p) > 1 && p[0] == '0') {
			return model.IPVal{}, false
		}
		for j := 0; j < len(p); j++ {
			if p[j] < '0' || p[j] > '9' {
				return model.IPVal{}, false
			}
		}
	}
	for i := 0; i < len(s); i++ {
		c := s[i]
		if !(c >= '0' && c <= '9' || c >= 'a' && c <= 'f' || c >= 'A' && c <= 'F' || c == '.' || c == ':' || c == '/') {
			return model.IPVal{}, false
		}
	}
	return model.ParseIP(s)
}

func c12IsMapped(ip model.IPVal) bool { return ip.V6 && ip.Hi == 0 && ip.Lo>>32 == 0xffff }

func c12IPClass(ip model.IPVal) string {
	switch {
	case !ip.V6:
		return "v4"
	case c12IsMapped(ip):
		return "v6:ipv4-mapped(::ffff:0:0/96)"
	}
	return "v6"
}

// c12SpellIP writes ip in a random legal spelling (zero-run compression at any run, leading
// zeros in IPv6 groups, mixed case).
func c12SpellIP(r *mon.Rand, ip model.IPVal) string {
	var s string
	full := 32
	if !ip.V6 {
		s = model.PrintIP(model.IPVal{Lo: ip.Lo, Prefix: 32})
	} else {
		full = 128
		g := [8]uint16{uint16(ip.Hi >> 48), uint16(ip.Hi >> 32), uint16(ip.Hi >> 16), uint16(ip.Hi),
			uint16(ip.Lo >> 48), uint16(ip.Lo >> 32), uint16(ip.Lo >> 16), uint16(ip.Lo)}
		grp := func(x uint16) string {
			h := strconv.FormatUint(uint64(x), 16)
			if r.P(0.25) {
				h = fmt.Sprintf("%04x", x)
			} else if r.P(0.1) && len(h) < 3 {
				h = "0" + h
			}
			if r.P(0.3) {
				h = strings.ToUpper(h)
			}
			return h
		}
		// candidate zero runs
		type run struct{ a, b int }
		var runs []run
		for i := 0; i < 8; {
			if g[i] != 0 {
				i++
				continue
			}
			j := i
			for j < 8 && g[j] == 0 {
				j++
			}
			for a := i; a < j; a++ {
				for b := a + 1; b <= j; b++ {
					runs = append(runs, run{a, b})
				}
			}
			i = j
		}
		if len(runs) > 0 && r.P(0.75) {
			ru := runs[r.Intn(len(runs))]
			var head, tail []string
			for i := 0; i < ru.a; i++ {
				head = append(head, grp(g[i]))
			}
			for i := ru.b; i < 8; i++ {
				tail = append(tail, grp(g[i]))
			}
			s = strings.Join(head, ":") + "::" + strings.Join(tail, ":")
		} else {
			parts := make([]string, 8)
			for i := range parts {
				parts[i] = grp(g[i])
			}
			s = strings.Join(parts, ":")
		}
	}
	if ip.Prefix != full || r.P(0.3) {
		s += "/" + strconv.Itoa(ip.Prefix)
	}
	return s
}

// ---------------------------------------------------------------- duration / decimal spellings

// c12SpellDuration writes v as a random legal unit decomposition.
func c12SpellDuration(r *mon.Rand, v int64) string {
	x := new(big.Int).Abs(big.NewInt(v))
	units := []struct {
		n  string
		ms int64
	}{{"d", 86400000}, {"h", 3600000}, {"m", 60000}, {"s", 1000}, {"ms", 1}}
	var sb strings.Builder
	if v < 0 || (v == 0 && r.P(0.3)) {
		sb.WriteByte('-')
	}
	wrote := false
	for i, u := range units {
		last := i == len(units)-1
		var q *big.Int
		if last {
			q = x
		} else if r.P(0.5) {
			// take only part of what this unit could hold (the rest spills to smaller units)
			q = new(big.Int).Quo(x, big.NewInt(u.ms))
			if q.Sign() > 0 && r.P(0.4) {
				q.Sub(q, big.NewInt(int64(r.Intn(3))))
				if q.Sign() < 0 {
					q.SetInt64(0)
				}
			}
			x = new(big.Int).Sub(x, new(big.Int).Mul(q, big.NewInt(u.ms)))
		} else {
			continue
		}
		if q.Sign() == 0 && !(r.P(0.2) || (last && !wrote)) {
			continue
		}
		if last {
			x = new(big.Int)
		}
		qs := q.String()
		if r.P(0.1) {
			qs = strings.Repeat("0", 1+r.Intn(3)) + qs
		}
		sb.WriteString(qs)
		sb.WriteString(u.n)
		wrote = true
	}
	return sb.String()
}

// ---------------------------------------------------------------- mutators

func c12Edit1(r *mon.Rand, s string, alpha []string) string {
	rs := []rune(s)
	a := alpha[r.Intn(len(alpha))]
	switch op := r.Intn(5); {
	case op == 0 || len(rs) == 0: // insert
		p := r.Intn(len(rs) + 1)
		return string(rs[:p]) + a + string(rs[p:])
	case op == 1: // delete
		p := r.Intn(len(rs))
		return string(rs[:p]) + string(rs[p+1:])
	case op == 2: // replace
		p := r.Intn(len(rs))
		return string(rs[:p]) + a + string(rs[p+1:])
	case op == 3 && len(rs) >= 2: // transpose
		p := r.Intn(len(rs) - 1)
		rs[p], rs[p+1] = rs[p+1], rs[p]
		return string(rs)
	default: // duplicate a character
		p := r.Intn(len(rs))
		return string(rs[:p+1]) + string(rs[p:])
	}
}

// c12Ed1All lists every distinct string at edit distance exactly <= 1 from s (insert, delete,
// replace over alpha), excluding s itself, in sorted order.
func c12Ed1All(s string, alpha []string) []string {
	rs := []rune(s)
	set := map[string]struct{}{}
	for p := 0; p <= len(rs); p++ {
		for _, a := range alpha {
			set[string(rs[:p])+a+string(rs[p:])] = struct{}{}
			if p < len(rs) {
				set[string(rs[:p])+a+string(rs[p+1:])] = struct{}{}
			}
		}
		if p < len(rs) {
			set[string(rs[:p])+string(rs[p+1:])] = struct{}{}
		}
	}
	delete(set, s)
	out := make([]string, 0, len(set))
	for k := range set {
		out = append(out, k)
	}
	sort.Strings(out)
	return out
}
