package props

// C16 graph families: every digraph over three names, as entity-parent graph, common-type
// reference graph and action-group graph, crossed with namespace layouts (empty, one, two and
// three segment namespaces, mixed and prefix-related namespaces) and reference spellings
// (shortest, fully qualified, first-segment-dropped).

import (
	"fmt"
	"strings"
)

var c16ABC = []string{"A", "B", "C"}
var c16XYZ = []string{"X", "Y", "Z"}
var c16abc = []string{"a", "b", "c"}

// c16Layouts: the namespace of each of the three graph nodes.
var c16Layouts = [][3]string{
	0: {"", "", ""},
	1: {"NS", "NS", "NS"},
	2: {"Org::App", "Org::App", "Org::App"},
	3: {"Org::App::Mod", "Org::App::Mod", "Org::App::Mod"},
	4: {"", "Org::App", "Org::App"},
	5: {"Org", "Org::App", "Org::App"}, // prefix-related namespaces
	6: {"Org::App", "Org::App::Mod", "Org"},
	7: {"", "NS", "NS"},
	8: {"NS", "", "NS"}, // the home namespace is named, one node lives in the empty namespace
	9: {"NS", "", ""},
}

var c16StyleNames = []string{"shortest spelling", "fully qualified", "first namespace segment dropped", "always unqualified (dangling across namespaces)"}

// c16GraphVariant selects a namespace layout, a reference spelling and a family specific extra.
type c16GraphVariant struct {
	Layout int
	Style  int    // 0 shortest (unqualified where that resolves), 1 fully qualified, 2 first segment dropped, 3 always unqualified
	Extra  string // "", "enum", "undefined", "shadow", "noapplies"
	Shape  int    // common-type body shape 0..2, -1: rotate with the graph number
}

func (v c16GraphVariant) String() string {
	l := c16Layouts[v.Layout]
	s := fmt.Sprintf("namespaces [%q %q %q], %s", l[0], l[1], l[2], c16StyleNames[v.Style])
	if v.Extra != "" {
		s += ", " + v.Extra
	}
	return s
}

// c16Spell writes a reference from namespace `from` to the declaration `name` of namespace `to`.
func c16Spell(style int, from, to, name string) string {
	switch style {
	case 1:
		return c16Q(to, name)
	case 2:
		if i := strings.Index(to, "::"); i >= 0 {
			return c16Q(to[i+2:], name) // looks relative; Cedar has no relative names
		}
	case 3:
		return name // dangling unless the target is in the same or in the empty namespace
	}
	if to == from || to == "" {
		return name // same namespace, or fallback to the empty namespace (names are unique)
	}
	return c16Q(to, name)
}

// c16StyleMatters: whether the style changes any spelling for the layout.
func c16StyleMatters(layout, style int) bool {
	l := c16Layouts[layout]
	if style == 0 {
		return true
	}
	for i := 0; i < 3; i++ {
		for j := 0; j < 3; j++ {
			if c16Spell(style, l[i], l[j], "n") != c16Spell(0, l[i], l[j], "n") {
				return true
			}
		}
	}
	return false
}

func c16AllLayoutStyles() []c16GraphVariant {
	var out []c16GraphVariant
	for l := range c16Layouts {
		for s := 0; s < 4; s++ {
			if c16StyleMatters(l, s) {
				out = append(out, c16GraphVariant{Layout: l, Style: s, Shape: -1})
			}
		}
	}
	return out
}

type c16NSSet struct {
	by    map[string]*c16NS
	order []string
}

func (s *c16NSSet) get(n string) *c16NS {
	if s.by == nil {
		s.by = map[string]*c16NS{}
	}
	if s.by[n] == nil {
		s.by[n] = &c16NS{Name: n}
		s.order = append(s.order, n)
	}
	return s.by[n]
}

func (s *c16NSSet) schema() c16Schema {
	var out c16Schema
	for _, n := range s.order {
		out.NS = append(out.NS, *s.by[n])
	}
	return out
}

// ---------------------------------------------------------------- family 1: entity parent graphs

// c16EntityVariants: quick runs a selection, thorough every (layout, style) pair.
func c16EntityVariants(thorough bool) []c16GraphVariant {
	extras := []c16GraphVariant{{Extra: "enum"}, {Extra: "undefined"}, {Extra: "shadow"}}
	if thorough {
		return append(c16AllLayoutStyles(), extras...)
	}
	return append([]c16GraphVariant{{Layout: 0}, {Layout: 1}, {Layout: 7}, {Layout: 2}, {Layout: 3}, {Layout: 5}, {Layout: 6},
		{Layout: 2, Style: 1}, {Layout: 5, Style: 2}, {Layout: 4, Style: 1}}, extras...)
}

// c16EntityGraphCase: parent digraph g over entity types {A,B,C}. Extras: "enum" C is an enum
// type, "undefined" A has an additional undefined parent, "shadow" NS::A shadows A.
func c16EntityGraphCase(idx int, variants []c16GraphVariant) c16Case {
	g, v := idx&511, variants[(idx>>9)%len(variants)]
	cs := c16Case{Stream: "entity-graphs", Idx: idx}
	lay := c16Layouts[v.Layout]
	qn := func(i int) string { return c16Q(lay[i], c16ABC[i]) }
	ref := func(from, to int) string { return c16Spell(v.Style, lay[from], lay[to], c16ABC[to]) }
	var nss c16NSSet
	nss.get("")
	mask := 7
	for i := 0; i < 3; i++ {
		e := c16Entity{Name: c16ABC[i], HasShape: true, Shape: []c16Attr{c16At("n", c16TLong()), c16Ato("o", c16TEnt(ref(i, (i+1)%3)))}}
		if v.Extra == "enum" && i == 2 {
			e = c16Entity{Name: "C", IsEnum: true, Values: []string{"e", "f"}}
			mask = 3
		} else {
			for j := 0; j < 3; j++ {
				if g>>(3*i+j)&1 == 1 {
					e.Parents = append(e.Parents, ref(i, j))
				}
			}
			if v.Extra == "undefined" && i == 0 {
				e.Parents = append(e.Parents, "Zz")
			}
		}
		ns := nss.get(lay[i])
		ns.Entities = append(ns.Entities, e)
	}
	if v.Extra == "shadow" {
		ns := nss.get("NS")
		ns.Entities = append(ns.Entities, c16Entity{Name: "A", Parents: []string{"A"}})
	}
	// the action lives next to A and names the types fully qualified
	home := nss.get(lay[0])
	all := []string{qn(0), qn(1), qn(2)}
	home.Actions = append(home.Actions, c16Action{Name: "act", HasApplies: true, Principals: all, Resources: all, Context: c16Ptr(c16TRec())})
	cs.Schema = nss.schema()
	if c16HasCycle(g, mask) {
		cs.Feat = append(cs.Feat, "entity hierarchy: cyclic")
	} else {
		cs.Feat = append(cs.Feat, "entity hierarchy: acyclic")
	}
	cs.Feat = append(cs.Feat, "variant: "+v.String())

	act := c16UID{c16ActionType(lay[0]), "act"}
	full := v.Layout == 0 || v.Extra != "" // the validator only sees resolved names: one layout gets the full artefact list
	var ents []c16Ent
	for i := 0; i < 3; i++ {
		e := c16Ent{UID: c16UID{qn(i), "e"}, Attrs: c16VRec("n", c16VLong(1)), Tags: c16VRec()}
		for j := 0; j < 3; j++ {
			if g>>(3*i+j)&1 == 1 {
				e.Parents = append(e.Parents, c16UID{qn(j), "e"})
			}
		}
		ents = append(ents, e)
		if full || i == 0 {
			cs.Arts = append(cs.Arts, c16ArtEnt(e))
		}
	}
	cs.Arts = append(cs.Arts, c16ArtEnts(ents...),
		c16ArtReq(c16Req{P: c16UID{qn(0), "e"}, A: act, R: c16UID{qn(1), "e"}, Ctx: c16VRec()}))
	if full {
		cs.Arts = append(cs.Arts, c16ArtReq(c16Req{P: c16UID{qn(2), "e"}, A: act, R: c16UID{"Zz", "e"}, Ctx: c16VRec("x", c16VLong(1))}))
	}
	P, R := c16EVar("principal"), c16EVar("resource")
	for i := 0; i < 3; i++ {
		t, t2 := qn(i), qn((i+1)%3)
		cs.Arts = append(cs.Arts,
			c16ArtPol(c16PolWhen(c16EBin("in", P, c16EEnt(t, "e")))),
			c16ArtPol(c16PolScope(c16ScIn(c16UID{t, "e"}), c16ScAll(), c16ScAll())))
		if full {
			cs.Arts = append(cs.Arts,
				c16ArtPol(c16PolWhen(c16EBin("in", R, c16ESet(c16EEnt(t, "e"), c16EEnt(t2, "f"))))),
				c16ArtPol(c16PolScope(c16ScIsIn(t2, c16UID{t, "e"}), c16ScAll(), c16ScIn(c16UID{t, "e"}))))
		}
	}
	cs.Arts = append(cs.Arts,
		c16ArtPol(c16PolWhen(c16EBin("in", P, R))),
		c16ArtPol(c16PolWhen(c16EBin("in", c16EIf(c16EBin("==", P, R), P, R), c16EEnt(qn(0), "e")))))
	if full {
		cs.Arts = append(cs.Arts,
			c16ArtPol(c16PolWhen(c16EIsIn(P, qn(1), c16EEnt(qn(2), "e")))),
			c16ArtPol(c16PolWhen(c16EBin("in", c16EAcc(P, "o"), c16EEnt(qn(0), "e")))))
	}
	return cs
}

// ---------------------------------------------------------------- family 2: common type graphs

// c16CommonVariants: every (layout, style) pair; quick rotates the body shape with the graph
// number, thorough crosses all three shapes.
func c16CommonVariants(thorough bool) []c16GraphVariant {
	base := c16AllLayoutStyles()
	// "twice": every reference is mentioned twice in the referring type's body
	base = append(base, c16GraphVariant{Layout: 0, Shape: -1, Extra: "twice"}, c16GraphVariant{Layout: 7, Shape: -1, Extra: "twice"}, c16GraphVariant{Layout: 5, Style: 1, Shape: -1, Extra: "twice"})
	if !thorough {
		return base
	}
	var out []c16GraphVariant
	for _, b := range base {
		for s := 0; s < 3; s++ {
			b.Shape = s
			out = append(out, b)
		}
	}
	return out
}

// c16CommonGraphCase: reference digraph g over common types {X,Y,Z}. Body shapes: 0 record of
// references, 1 sets of references, 2 direct aliases. The types are used from an entity shape
// (directly and inside a set), entity tags and an action context declared next to X.
func c16CommonGraphCase(idx int, variants []c16GraphVariant) c16Case {
	g, vi := idx&511, (idx>>9)%len(variants)
	v := variants[vi]
	shape := v.Shape
	if shape < 0 {
		shape = (g + vi) % 3
	}
	cs := c16Case{Stream: "common-type-graphs", Idx: idx}
	lay := c16Layouts[v.Layout]
	ref := func(from, to int) c16Type { return c16TRef(c16Spell(v.Style, lay[from], lay[to], c16XYZ[to])) }
	var nss c16NSSet
	nss.get("")
	for i := 0; i < 3; i++ {
		var outs []int
		for j := 0; j < 3; j++ {
			if g>>(3*i+j)&1 == 1 {
				outs = append(outs, j)
			}
		}
		var body c16Type
		switch {
		case shape == 0:
			attrs := []c16Attr{c16At("k", c16TLong())}
			for _, j := range outs {
				attrs = append(attrs, c16At("f"+c16XYZ[j], ref(i, j)))
				if v.Extra == "twice" {
					attrs = append(attrs, c16Ato("g"+c16XYZ[j], ref(i, j)))
				}
			}
			body = c16TRec(attrs...)
		case len(outs) == 0 && shape == 1:
			body = c16TLong()
		case len(outs) == 0:
			body = c16TString()
		case len(outs) == 1 && v.Extra == "twice":
			body = c16TRec(c16At("f"+c16XYZ[outs[0]], ref(i, outs[0])), c16At("g"+c16XYZ[outs[0]], c16TSet(ref(i, outs[0]))))
		case len(outs) == 1 && shape == 1:
			body = c16TSet(ref(i, outs[0]))
		case len(outs) == 1:
			body = ref(i, outs[0])
		default:
			var attrs []c16Attr
			for _, j := range outs {
				if v.Extra == "twice" {
					attrs = append(attrs, c16At("g"+c16XYZ[j], ref(i, j)))
				}
				if shape == 1 {
					attrs = append(attrs, c16At("f"+c16XYZ[j], c16TSet(ref(i, j))))
				} else {
					attrs = append(attrs, c16Ato("f"+c16XYZ[j], ref(i, j)))
				}
			}
			body = c16TRec(attrs...)
		}
		ns := nss.get(lay[i])
		ns.Commons = append(ns.Commons, c16Common{Name: c16XYZ[i], T: body})
	}
	home := nss.get(lay[0])
	ctx := c16TRec(c16At("c", ref(0, 0)))
	if shape == 0 {
		ctx = ref(0, 0) // a reference that must resolve to a record
	}
	home.Entities = append(home.Entities, c16Entity{Name: "E", HasShape: true,
		Shape: []c16Attr{c16At("p", ref(0, 0)), c16At("q", c16TSet(ref(0, 1)))}, Tags: c16Ptr(ref(0, 2))})
	home.Actions = append(home.Actions, c16Action{Name: "act", HasApplies: true, Principals: []string{"E"}, Resources: []string{"E"}, Context: &ctx})
	cs.Schema = nss.schema()
	if c16HasCycle(g, 7) {
		cs.Feat = append(cs.Feat, "common types: cyclic")
	} else {
		cs.Feat = append(cs.Feat, "common types: acyclic")
	}
	cs.Feat = append(cs.Feat, fmt.Sprintf("body shape %d", shape), "variant: "+v.String())

	E := c16Q(lay[0], "E")
	act := c16UID{c16ActionType(lay[0]), "act"}
	P, C := c16EVar("principal"), c16EVar("context")
	cs.Arts = append(cs.Arts,
		c16ArtPol(c16PolWhen(c16EBin("==", c16EAcc(P, "p"), c16EAcc(c16EVar("resource"), "p")))),
		c16ArtPol(c16PolWhen(c16EBin("==", c16EAcc(c16EAcc(c16EAcc(c16EAcc(P, "p"), "fY"), "fZ"), "k"), c16EVal(c16VLong(1))))),
		c16ArtPol(c16PolWhen(c16EBin("contains", c16EAcc(P, "q"), c16EAcc(P, "p")))),
		c16ArtPol(c16PolWhen(c16EBin("and", c16EBin("hasTag", P, c16EVal(c16VStr("a"))), c16EBin("==", c16EBin("getTag", P, c16EVal(c16VStr("a"))), c16EAcc(P, "p"))))),
		c16ArtPol(c16PolWhen(c16EBin("==", c16EAcc(C, "c"), c16EAcc(C, "k")))),
		c16ArtPol(c16PolWhen(c16EBin("and", c16EHas(c16EAcc(C, "fY"), "fZ"), c16EBin("==", c16EAcc(c16EAcc(C, "fY"), "fZ"), C)))),
		c16ArtPol(c16PolScope(c16ScIs(E), c16ScEq(act), c16ScIs(E))),
		c16ArtEnt(c16Ent{UID: c16UID{E, "e"}, Attrs: c16VRec("p", c16VRec("k", c16VLong(1)), "q", c16VSet(c16VLong(1), c16VRec("k", c16VLong(2)))), Tags: c16VRec("a", c16VStr("x"), "b", c16VRec("k", c16VLong(1)))}),
		c16ArtEnt(c16Ent{UID: c16UID{E, "f"}, Attrs: c16VRec("p", c16VStr("s"), "q", c16VSet()), Tags: c16VRec()}),
		c16ArtReq(c16Req{P: c16UID{E, "e"}, A: act, R: c16UID{E, "f"}, Ctx: c16VRec("k", c16VLong(1))}),
		c16ArtReq(c16Req{P: c16UID{E, "e"}, A: act, R: c16UID{E, "f"}, Ctx: c16VRec("c", c16VRec("k", c16VLong(1)))}),
	)
	return cs
}

// ---------------------------------------------------------------- family 3: action group graphs

func c16ActionVariants(thorough bool) []c16GraphVariant {
	extras := []c16GraphVariant{{Extra: "undefined"}, {Style: 1, Extra: "noapplies"}}
	if thorough {
		return append(c16AllLayoutStyles(), extras...)
	}
	return append([]c16GraphVariant{{Layout: 0}, {Layout: 0, Style: 1}, {Layout: 1}, {Layout: 7}, {Layout: 2}, {Layout: 2, Style: 1}, {Layout: 3},
		{Layout: 4}, {Layout: 5}, {Layout: 5, Style: 2}, {Layout: 6}}, extras...)
}

// c16ActionGraphCase: memberOf digraph g over actions {a,b,c}. Parent references: shortest =
// bare id inside one namespace and explicit action type across namespaces; fully qualified =
// always with the action type; the third style drops the first namespace segment of the type.
// Extras: "undefined" a has an undefined parent, "noapplies" b has no appliesTo and c empty lists.
func c16ActionGraphCase(idx int, variants []c16GraphVariant) c16Case {
	g, v := idx&511, variants[(idx>>9)%len(variants)]
	cs := c16Case{Stream: "action-graphs", Idx: idx}
	lay := c16Layouts[v.Layout]
	var nss c16NSSet
	bare := nss.get("")
	bare.Entities = append(bare.Entities, c16Entity{Name: "U", HasShape: true, Shape: []c16Attr{c16At("n", c16TLong())}})
	uidOf := func(i int) c16UID { return c16UID{c16ActionType(lay[i]), c16abc[i]} }
	for i := 0; i < 3; i++ {
		a := c16Action{Name: c16abc[i], HasApplies: true, Principals: []string{"U"}, Resources: []string{"U"},
			Context: c16Ptr(c16TRec(c16At("n", c16TLong())))}
		for j := 0; j < 3; j++ {
			if g>>(3*i+j)&1 == 1 {
				switch {
				case v.Style == 0 && lay[i] == lay[j]:
					a.Parents = append(a.Parents, c16ParentRef{ID: c16abc[j]})
				case v.Style == 2 && strings.Contains(lay[j], "::"):
					a.Parents = append(a.Parents, c16ParentRef{Type: c16ActionType(lay[j][strings.Index(lay[j], "::")+2:]), ID: c16abc[j]})
				default:
					a.Parents = append(a.Parents, c16ParentRef{Type: c16ActionType(lay[j]), ID: c16abc[j]})
				}
			}
		}
		if v.Extra == "undefined" && i == 0 {
			a.Parents = append(a.Parents, c16ParentRef{ID: "zz"})
		}
		if v.Extra == "noapplies" && i == 1 {
			a.HasApplies, a.Principals, a.Resources, a.Context = false, nil, nil, nil
		}
		if v.Extra == "noapplies" && i == 2 {
			a.Principals, a.Resources = nil, nil
		}
		ns := nss.get(lay[i])
		ns.Actions = append(ns.Actions, a)
	}
	cs.Schema = nss.schema()
	if c16HasCycle(g, 7) {
		cs.Feat = append(cs.Feat, "action groups: cyclic")
	} else {
		cs.Feat = append(cs.Feat, "action groups: acyclic")
	}
	cs.Feat = append(cs.Feat, "variant: "+v.String())

	A, P := c16EVar("action"), c16EVar("principal")
	lit := func(u c16UID) c16Expr { return c16EEnt(u.T, u.ID) }
	for i := 0; i < 3; i++ {
		t, t2 := uidOf(i), uidOf((i+1)%3)
		cs.Arts = append(cs.Arts,
			c16ArtPol(c16PolScope(c16ScAll(), c16ScEq(t), c16ScAll())),
			c16ArtPol(c16PolScope(c16ScAll(), c16ScIn(t), c16ScAll())),
			c16ArtPol(c16PolScope(c16ScAll(), c16ScInSet(t, t2), c16ScAll())),
			c16ArtPol(c16PolWhen(c16EBin("in", A, lit(t)))),
			c16ArtPol(c16PolWhen(c16EBin("in", A, c16ESet(lit(t), lit(t2))))),
			c16ArtPol(c16PolWhen(c16EBin("in", lit(t), lit(t2)))),
			c16ArtPol(c16PolWhen(c16EBin("in", P, lit(t)))),
		)
	}
	zz := c16UID{"Action", "zz"}
	cs.Arts = append(cs.Arts,
		c16ArtPol(c16PolScope(c16ScAll(), c16ScInSet(), c16ScAll())),
		c16ArtPol(c16PolScope(c16ScAll(), c16ScIn(zz), c16ScAll())),
		c16ArtPol(c16PolWhen(c16EBin("in", A, lit(zz)))),
		c16ArtPol(c16PolWhen(c16EBin("or", c16EBin("==", A, lit(uidOf(2))), c16EHas(A, "foo")))),
		c16ArtPol(c16PolScope(c16ScIn(uidOf(0)), c16ScAll(), c16ScEq(uidOf(1)))),
	)
	var ents []c16Ent
	for i := 0; i < 3; i++ {
		e := c16Ent{UID: uidOf(i), Attrs: c16VRec(), Tags: c16VRec()}
		for j := 0; j < 3; j++ {
			if g>>(3*i+j)&1 == 1 {
				e.Parents = append(e.Parents, uidOf(j))
			}
		}
		ents = append(ents, e)
		cs.Arts = append(cs.Arts, c16ArtEnt(e))
		fullE := e
		fullE.Parents = []c16UID{uidOf(0), uidOf(1), uidOf(2)}
		cs.Arts = append(cs.Arts, c16ArtEnt(fullE))
		cs.Arts = append(cs.Arts, c16ArtReq(c16Req{P: c16UID{"U", "u"}, A: uidOf(i), R: c16UID{"U", "v"}, Ctx: c16VRec("n", c16VLong(1))}))
	}
	cs.Arts = append(cs.Arts, c16ArtEnts(ents...), c16ArtEnt(c16Ent{UID: zz, Attrs: c16VRec("x", c16VLong(1)), Tags: c16VRec()}))
	return cs
}
