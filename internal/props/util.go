package props

import (
	cedar "github.com/cedar-policy/cedar-go"
	pubast "github.com/cedar-policy/cedar-go/ast"
	"github.com/cedar-policy/cedar-go/x/exp/ast"
)

// cedarASTPolicy is the public AST policy type (a type definition of x/exp/ast.Policy).
type cedarASTPolicy = pubast.Policy

// NewPolicy compiles an x/exp/ast policy through the public constructor.
func NewPolicy(p *ast.Policy) *cedar.Policy { return cedar.NewPolicyFromAST((*pubast.Policy)(p)) }
