package props

import (
	cedar "github.com/cedar-policy/cedar-go"
	pubast "github.com/cedar-policy/cedar-go/ast"
	"github.com/cedar-policy/cedar-go/x/exp/ast"
)

// cedarASTPolicy is the public AST policy type (a type definition of x/exp/ast.Policy).
type cedarASTPolicy = pubast.Policy

// NewPolicy compiles an x/exp/ast policy through the public constructor.
func NewPolicy(p *ast.Policy) *cedar.Policy { return cedar.NewPolicyFromAST((*pubast.Policy)(p)) }

// Levels records the evidence level per property where it is not "exploration" (must agree
// with MANIFEST level_claimed.category).
var Levels = map[string]string{"C05": "fault_enumeration", "C10": "fault_enumeration", "C16": "fault_enumeration", "C18": "fault_enumeration"}

// UsedPolicy returns a cedar.Policy value with a past: it already holds a parsed policy with
// annotations, scope constraints and two conditions. Decoding a document into it must give
// exactly the document's policy (nothing of the earlier contents may survive).
func UsedPolicy() *cedar.Policy {
	var p cedar.Policy
	if err := p.UnmarshalCedar([]byte(`@stale("1") @id("stale") forbid(principal == Stale::"p", action in [Action::"stale"], resource is Stale in Stale::"r") when { context.stale } unless { principal.stale };`)); err != nil {
		panic("UsedPolicy: " + err.Error())
	}
	return &p
}
