package props

import (
	"fmt"

	"github.com/cedar-policy/cedar-go/types"

	"verif/internal/mon"
)

// Additional C11 stream: constructor-input aliasing for maps/slices of every size including
// the EMPTY (non-nil) ones - a defensive copy that is skipped for "empty" inputs leaves the
// value aliased to the caller's container.
func init() {
	orig := Registry["C11"]
	Registry["C11"] = func(c *mon.Ctx) {
		orig(c)
		c11extra(c)
	}
}

func c11extra(c *mon.Ctx) {
	vals := []types.Value{types.Long(1), types.True, types.String("x"), types.NewSet(types.Long(1)), types.NewRecord(types.RecordMap{"k": types.Long(2)})}
	keys := []types.String{"a", "b", "", "é"}
	type tc struct{ n, add, del int }
	var cases []tc
	for n := 0; n <= 3; n++ {
		for add := 0; add <= 2; add++ {
			for del := 0; del <= n; del++ {
				cases = append(cases, tc{n, add, del})
			}
		}
	}
	c.ParFor("8-alias-empty-containers", len(cases)*len(vals), func(w *mon.W, i int) {
		t := cases[i%len(cases)]
		v := vals[i/len(cases)]
		// record built from a map of n entries (n may be 0 with a NON-nil map)
		m := make(types.RecordMap, 4)
		for k := 0; k < t.n; k++ {
			m[keys[k]] = v
		}
		rec := types.NewRecord(m)
		twin := types.NewRecord(cloneMap(m))
		before := fmt.Sprintf("%s|%d|%v|%d", rec.MarshalCedar(), rec.Len(), rec.Equal(twin), types.VerifHash(rec))
		container := types.NewSet(rec)
		for k := 0; k < t.add; k++ {
			m[types.String(fmt.Sprintf("added%d", k))] = types.Long(int64(k))
		}
		for k := 0; k < t.del; k++ {
			delete(m, keys[k])
		}
		for k := range m {
			m[k] = types.String("overwritten")
		}
		after := fmt.Sprintf("%s|%d|%v|%d", rec.MarshalCedar(), rec.Len(), rec.Equal(twin), types.VerifHash(rec))
		w.Evals(1)
		w.Count(fmt.Sprintf("NewRecord input map of %d entries mutated afterwards", t.n))
		if before != after || !container.Contains(twin) || types.VerifRecordInvariant(rec) != nil {
			w.Violation(fmt.Sprintf("NewRecord aliases its input map (input size %s)", sizeClass(t.n)),
				fmt.Sprintf("record built from a map with %d entries changed after the caller mutated that map: %s -> %s (still found in a set: %v)", t.n, before, after, container.Contains(twin)),
				map[string]any{"entries": t.n, "added": t.add, "deleted": t.del, "before": before, "after": after})
		}
		// set built from a slice of n entries (n may be 0 with a NON-nil slice)
		sl := make([]types.Value, t.n, 8)
		for k := range sl {
			sl[k] = types.Long(int64(k))
		}
		set := types.NewSet(sl...)
		sb := fmt.Sprintf("%s|%d", set.MarshalCedar(), set.Len())
		sl = append(sl, types.Long(99))
		for k := range sl {
			sl[k] = types.String("overwritten")
		}
		if sa := fmt.Sprintf("%s|%d", set.MarshalCedar(), set.Len()); sa != sb || types.VerifSetInvariant(set) != nil {
			w.Violation(fmt.Sprintf("NewSet aliases its input slice (input size %s)", sizeClass(t.n)), fmt.Sprintf("set changed after the caller mutated the slice: %s -> %s", sb, sa), map[string]any{"entries": t.n})
		}
		// entity-uid set from a slice
		us := make([]types.EntityUID, t.n, 8)
		for k := range us {
			us[k] = types.NewEntityUID("U", types.String(fmt.Sprint(k)))
		}
		eset := types.NewEntityUIDSet(us...)
		eb := eset.Len()
		us = append(us, types.NewEntityUID("U", "new"))
		for k := range us {
			us[k] = types.NewEntityUID("X", "overwritten")
		}
		if eset.Len() != eb || eset.Contains(types.NewEntityUID("X", "overwritten")) {
			w.Violation(fmt.Sprintf("NewEntityUIDSet aliases its input slice (input size %s)", sizeClass(t.n)), "entity-uid set changed after the caller mutated the slice", map[string]any{"entries": t.n})
		}
		w.NonTrivial(fmt.Sprintf("alias/%d/%d/%d/%d", t.n, t.add, t.del, i/len(cases)))
	})
}

func cloneMap(m types.RecordMap) types.RecordMap {
	out := make(types.RecordMap, len(m))
	for k, v := range m {
		out[k] = v
	}
	return out
}

func sizeClass(n int) string {
	if n == 0 {
		return "0"
	}
	return ">0"
}
