package props

import (
	"fmt"
	"strings"

	"verif/internal/model"
	"verif/internal/mon"
)

// Additional C13 stream: large FLAT objects. Sets of 1500 distinct members of one or of mixed
// kinds, records with 1500 keys, one entity with 1500 attributes / parents / tags, an entity
// map of 1500 entities; each through the canonical round trip and through two alternative
// spellings. Small generated objects never fill a hash table, a buffer or a probe chain the
// way these do.
func init() {
	orig := Registry["C13"]
	Registry["C13"] = func(c *mon.Ctx) {
		orig(c)
		c.Rule += " Stream bulk: sets of 1500 distinct members (longs, strings, entities, small sets and records, mixed), records of 1500 keys, an entity with 1500 attributes / parents / tags and an entity map of 1500 entities, canonical round trip plus two alternative spellings each."
		c13bulk(c)
	}
}

func c13bulk(c *mon.Ctx) {
	const k = 1500
	member := func(kind string, j int) model.Val {
		switch kind {
		case "longs":
			return model.Long(int64(j)*7919 - 3000)
		case "strings":
			return model.Str(fmt.Sprintf("s%d é\"", j))
		case "entities":
			return model.Ent([]string{"U", "NS::T", "G"}[j%3], fmt.Sprintf("id %d", j/3))
		case "small sets":
			return model.Set(model.Long(int64(j)), model.Long(int64(-j)))
		case "small records":
			return model.Rec("k", model.Long(int64(j)), "s", model.Str("v"))
		case "decimals":
			return model.Decimal(int64(j)*10001 - 5)
		}
		// mixed
		return []model.Val{model.Long(int64(j)), model.Str(fmt.Sprint(j)), model.Ent("U", fmt.Sprint(j)), model.Bool(j%2 == 0), model.Decimal(int64(j)), model.Set(model.Long(int64(j)))}[j%6]
	}
	kinds := []string{"longs", "strings", "entities", "small sets", "small records", "decimals", "mixed"}
	shapes := []string{"set", "record", "entity attributes", "entity parents", "entity tags", "entity map"}
	c.ParFor("bulk", len(kinds)*len(shapes), func(w *mon.W, i int) {
		kind, shape := kinds[i%len(kinds)], shapes[i/len(kinds)]
		w.Count("bulk: " + shape + " of " + kind)
		w.Evals(1)
		w.NonTrivial("bulk|" + shape + "|" + kind)
		var vals []model.Val
		var keys []string
		for j := 0; j < k; j++ {
			vals, keys = append(vals, member(kind, j)), append(keys, fmt.Sprintf("key %d", j))
		}
		rs := w.RandSub("style")
		ctx := "bulk stream (" + shape + " of " + fmt.Sprint(k) + " " + kind + ")"
		switch shape {
		case "set", "record":
			v := model.Set(vals...)
			if shape == "record" {
				v = model.Record(keys, vals)
			}
			if reportValue(w, ctx, v) {
				return
			}
			for n := 0; n < 2; n++ {
				w.Evals(1)
				if reportAlt(w, ctx, v, randStyle(rs)) {
					return
				}
			}
		case "entity map":
			m := map[string]*model.Entity{}
			for j := 0; j < k; j++ {
				e := &model.Entity{UID: model.Ent([]string{"U", "NS::T"}[j%2], fmt.Sprintf("e%d", j)), Attrs: model.Rec("a", vals[j]), Tags: model.Rec()}
				if j > 0 {
					e.Parents = []model.Val{model.Ent("U", fmt.Sprintf("e%d", (j-1)&^1))}
				}
				m[e.UID.Key()] = e
			}
			report := func(f *c13Fail, prefix string, each func(*model.Entity) *c13Fail) {
				for _, e := range sortedEntities(m) {
					if reportEntity(w, ctx, e, rtEntity, "entity-json") {
						return
					}
					if each != nil && reportEntity(w, ctx, e, each, prefix+":entity") {
						return
					}
				}
				w.Violation(fmt.Sprintf("%s:%s:entities=many", prefix, f.Kind), "JSON round trip of an entity map of "+fmt.Sprint(k)+" entities fails: "+f.Kind, f.Obs)
			}
			if f := rtMap(m); f != nil {
				report(f, "entitymap-json", nil)
				return
			}
			for n := 0; n < 2; n++ {
				st, o := randStyle(rs), randEntityOpts(rs)
				w.Evals(1)
				if f := altMap(m, st, o); f != nil {
					report(f, "entitymap-json-alt("+strings.Join(append(st.flags(), o.flags()...), "+")+")", func(x *model.Entity) *c13Fail { return altEntity(x, st, o) })
					return
				}
			}
		default:
			e := &model.Entity{UID: model.Ent("U", "bulk"), Attrs: model.Rec(), Tags: model.Rec()}
			switch shape {
			case "entity attributes":
				e.Attrs = model.Record(keys, vals)
			case "entity tags":
				e.Tags = model.Record(keys, vals)
			default:
				for j := 0; j < k; j++ {
					e.Parents = append(e.Parents, model.Ent([]string{"U", "NS::T", "G"}[j%3], fmt.Sprintf("p %d", j)))
				}
			}
			if reportEntity(w, ctx, e, rtEntity, "entity-json") {
				return
			}
			for n := 0; n < 2; n++ {
				st, o := randStyle(rs), randEntityOpts(rs)
				w.Evals(1)
				chk := func(x *model.Entity) *c13Fail { return altEntity(x, st, o) }
				if reportEntity(w, ctx, e, chk, "entity-json-alt("+strings.Join(append(st.flags(), o.flags()...), "+")+")") {
					return
				}
			}
		}
	})
}
