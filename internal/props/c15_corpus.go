package props

// C15 'corpus' stream: cedar-go's own corpus-tests archive (schemas, policies, entities and
// requests produced by the Rust fuzzers). Policies the validator accepts are evaluated on the
// corpus's own requests and entities, provided the harness's own conformance checker (below,
// written against the Cedar schema semantics, not calling validator code) accepts them.

import (
	"archive/tar"
	"compress/gzip"
	"encoding/json"
	"fmt"
	"io"
	"os"
	"runtime/debug"
	"sort"
	"strings"

	cedar "github.com/cedar-policy/cedar-go"
	"github.com/cedar-policy/cedar-go/types"
	"github.com/cedar-policy/cedar-go/x/exp/ast"
	"github.com/cedar-policy/cedar-go/x/exp/schema"
	"github.com/cedar-policy/cedar-go/x/exp/schema/resolved"
	"github.com/cedar-policy/cedar-go/x/exp/schema/validate"

	"verif/internal/bridge"
	"verif/internal/model"
	"verif/internal/mon"
)

const c15CorpusPath = "/repo/corpus-tests.tar.gz"

func c15LoadCorpus() (map[string][]byte, error) {
	f, err := os.Open(c15CorpusPath)
	if err != nil {
		return nil, err
	}
	defer f.Close()
	gz, err := gzip.NewReader(f)
	if err != nil {
		return nil, err
	}
	tr := tar.NewReader(gz)
	out := map[string][]byte{}
	for {
		h, err := tr.Next()
		if err == io.EOF {
			break
		}
		if err != nil {
			return nil, err
		}
		if h.Typeflag != tar.TypeReg {
			continue
		}
		b, err := io.ReadAll(tr)
		if err != nil {
			return nil, err
		}
		out[strings.TrimPrefix(h.Name, "./")] = b
	}
	return out, nil
}

// ---- independent conformance check against the resolved schema

func c15TypeClosure(rs *resolved.Schema, t types.EntityType, seen map[types.EntityType]bool) {
	for _, p := range rs.Entities[t].ParentTypes {
		if !seen[p] {
			seen[p] = true
			c15TypeClosure(rs, p, seen)
		}
	}
}

// c15CyclicTypes reports whether the entity-type memberOf graph has a cycle.
func c15CyclicTypes(rs *resolved.Schema) bool {
	for t := range rs.Entities {
		seen := map[types.EntityType]bool{}
		c15TypeClosure(rs, t, seen)
		if seen[t] {
			return true
		}
	}
	return false
}

func c15ValueConforms(rs *resolved.Schema, v types.Value, t resolved.IsType) bool {
	switch t := t.(type) {
	case resolved.StringType:
		_, ok := v.(types.String)
		return ok
	case resolved.LongType:
		_, ok := v.(types.Long)
		return ok
	case resolved.BoolType:
		_, ok := v.(types.Boolean)
		return ok
	case resolved.ExtensionType:
		switch string(t) {
		case "ipaddr":
			_, ok := v.(types.IPAddr)
			return ok
		case "decimal":
			_, ok := v.(types.Decimal)
			return ok
		case "datetime":
			_, ok := v.(types.Datetime)
			return ok
		case "duration":
			_, ok := v.(types.Duration)
			return ok
		}
		return false
	case resolved.SetType:
		s, ok := v.(types.Set)
		if !ok {
			return false
		}
		for e := range s.All() {
			if !c15ValueConforms(rs, e, t.Element) {
				return false
			}
		}
		return true
	case resolved.RecordType:
		r, ok := v.(types.Record)
		return ok && c15RecordConforms(rs, r, t)
	case resolved.EntityType:
		u, ok := v.(types.EntityUID)
		if !ok || u.Type != types.EntityType(t) {
			return false
		}
		if en, ok := rs.Enums[u.Type]; ok {
			for _, x := range en.Values {
				if x == u {
					return true
				}
			}
			return false
		}
		return true
	}
	return false
}

func c15RecordConforms(rs *resolved.Schema, r types.Record, t resolved.RecordType) bool {
	for k, a := range t {
		v, ok := r.Get(k)
		if !ok {
			if !a.Optional {
				return false
			}
			continue
		}
		if !c15ValueConforms(rs, v, a.Type) {
			return false
		}
	}
	for k := range r.All() {
		if _, ok := t[k]; !ok {
			return false
		}
	}
	return true
}

func c15ActionClosure(rs *resolved.Schema, uid types.EntityUID) map[types.EntityUID]bool {
	out := map[types.EntityUID]bool{}
	var walk func(types.EntityUID)
	walk = func(u types.EntityUID) {
		for p := range rs.Actions[u].Entity.Parents.All() {
			if !out[p] {
				out[p] = true
				walk(p)
			}
		}
	}
	walk(uid)
	return out
}

func c15EntityConforms(rs *resolved.Schema, e types.Entity) bool {
	if _, ok := rs.Actions[e.UID]; ok {
		if e.Attributes.Len() > 0 || e.Tags.Len() > 0 {
			return false
		}
		cl := c15ActionClosure(rs, e.UID)
		if e.Parents.Len() != len(cl) {
			return false
		}
		for p := range e.Parents.All() {
			if !cl[p] {
				return false
			}
		}
		return true
	}
	if en, ok := rs.Enums[e.UID.Type]; ok {
		if e.Attributes.Len() > 0 || e.Tags.Len() > 0 || e.Parents.Len() > 0 {
			return false
		}
		for _, x := range en.Values {
			if x == e.UID {
				return true
			}
		}
		return false
	}
	se, ok := rs.Entities[e.UID.Type]
	if !ok {
		return false
	}
	allowed := map[types.EntityType]bool{}
	c15TypeClosure(rs, e.UID.Type, allowed)
	for p := range e.Parents.All() {
		if !allowed[p.Type] {
			return false
		}
	}
	if !c15RecordConforms(rs, e.Attributes, se.Shape) {
		return false
	}
	if se.Tags == nil {
		return e.Tags.Len() == 0
	}
	for _, v := range e.Tags.All() {
		if !c15ValueConforms(rs, v, se.Tags) {
			return false
		}
	}
	return true
}

func c15RequestConforms(rs *resolved.Schema, q types.Request) bool {
	a, ok := rs.Actions[q.Action]
	if !ok || a.AppliesTo == nil {
		return false
	}
	in := func(xs []types.EntityType, t types.EntityType) bool {
		for _, x := range xs {
			if x == t {
				return true
			}
		}
		return false
	}
	if !in(a.AppliesTo.Principals, q.Principal.Type) || !in(a.AppliesTo.Resources, q.Resource.Type) {
		return false
	}
	for _, u := range []types.EntityUID{q.Principal, q.Resource} {
		if !c15ValueConforms(rs, u, resolved.EntityType(u.Type)) {
			return false
		}
	}
	return c15RecordConforms(rs, q.Context, a.AppliesTo.Context)
}

// ---- cedar-go AST -> model (for localisation / shrinking of corpus failures)

type c15convErr struct{ what string }

func c15FromNode(n ast.IsNode) *model.Expr {
	bin := func(op model.Op, b ast.BinaryNode) *model.Expr {
		return model.Bin(op, c15FromNode(b.Left), c15FromNode(b.Right))
	}
	switch t := n.(type) {
	case ast.NodeValue:
		v, err := bridge.FromValue(t.Value)
		if err != nil {
			panic(c15convErr{err.Error()})
		}
		return model.Lit(v)
	case ast.NodeTypeVariable:
		return model.Var(string(t.Name))
	case ast.NodeTypeAnd:
		return bin(model.OAnd, t.BinaryNode)
	case ast.NodeTypeOr:
		return bin(model.OOr, t.BinaryNode)
	case ast.NodeTypeNot:
		return model.Un(model.ONot, c15FromNode(t.Arg))
	case ast.NodeTypeNegate:
		return model.Un(model.ONeg, c15FromNode(t.Arg))
	case ast.NodeTypeIfThenElse:
		return model.If(c15FromNode(t.If), c15FromNode(t.Then), c15FromNode(t.Else))
	case ast.NodeTypeAdd:
		return bin(model.OAdd, t.BinaryNode)
	case ast.NodeTypeSub:
		return bin(model.OSub, t.BinaryNode)
	case ast.NodeTypeMult:
		return bin(model.OMul, t.BinaryNode)
	case ast.NodeTypeEquals:
		return bin(model.OEq, t.BinaryNode)
	case ast.NodeTypeNotEquals:
		return bin(model.ONe, t.BinaryNode)
	case ast.NodeTypeLessThan:
		return bin(model.OLt, t.BinaryNode)
	case ast.NodeTypeLessThanOrEqual:
		return bin(model.OLe, t.BinaryNode)
	case ast.NodeTypeGreaterThan:
		return bin(model.OGt, t.BinaryNode)
	case ast.NodeTypeGreaterThanOrEqual:
		return bin(model.OGe, t.BinaryNode)
	case ast.NodeTypeIn:
		return bin(model.OIn, t.BinaryNode)
	case ast.NodeTypeHasTag:
		return bin(model.OHasTag, t.BinaryNode)
	case ast.NodeTypeGetTag:
		return bin(model.OGetTag, t.BinaryNode)
	case ast.NodeTypeContains:
		return bin(model.OContains, t.BinaryNode)
	case ast.NodeTypeContainsAll:
		return bin(model.OContainsAll, t.BinaryNode)
	case ast.NodeTypeContainsAny:
		return bin(model.OContainsAny, t.BinaryNode)
	case ast.NodeTypeIsEmpty:
		return model.Un(model.OIsEmpty, c15FromNode(t.Arg))
	case ast.NodeTypeHas:
		return model.Has(c15FromNode(t.Arg), string(t.Value))
	case ast.NodeTypeAccess:
		return model.Access(c15FromNode(t.Arg), string(t.Value))
	case ast.NodeTypeIs:
		return model.Is(c15FromNode(t.Left), string(t.EntityType))
	case ast.NodeTypeIsIn:
		return model.IsIn(c15FromNode(t.Left), string(t.EntityType), c15FromNode(t.Entity))
	case ast.NodeTypeLike:
		js, _ := t.Value.MarshalJSON()
		var comps []any
		if err := json.Unmarshal(js, &comps); err != nil {
			panic(c15convErr{"pattern: " + err.Error()})
		}
		var pat []model.PatElem
		for _, c := range comps {
			switch c := c.(type) {
			case string:
				pat = append(pat, model.PatElem{Wild: true})
			case map[string]any:
				lit, _ := c["Literal"].(string)
				if len(pat) > 0 && pat[len(pat)-1].Lit == "" && pat[len(pat)-1].Wild {
					pat[len(pat)-1].Lit = lit
				} else {
					pat = append(pat, model.PatElem{Lit: lit})
				}
			}
		}
		return model.Like(c15FromNode(t.Arg), pat)
	case ast.NodeTypeSet:
		args := make([]*model.Expr, len(t.Elements))
		for i, e := range t.Elements {
			args[i] = c15FromNode(e)
		}
		return model.SetE(args...)
	case ast.NodeTypeRecord:
		var ks []string
		var args []*model.Expr
		seen := map[string]bool{}
		for _, e := range t.Elements {
			if seen[string(e.Key)] {
				panic(c15convErr{"duplicate record key"})
			}
			seen[string(e.Key)] = true
			ks = append(ks, string(e.Key))
			args = append(args, c15FromNode(e.Value))
		}
		return model.RecE(ks, args)
	case ast.NodeTypeExtensionCall:
		args := make([]*model.Expr, len(t.Args))
		for i, e := range t.Args {
			args[i] = c15FromNode(e)
		}
		return model.Ext(string(t.Name), args...)
	}
	panic(c15convErr{fmt.Sprintf("unknown node %T", n)})
}

func c15FromUID(u types.EntityUID) model.Val { return model.Ent(string(u.Type), string(u.ID)) }

func c15FromScope(s any) model.Scope {
	switch t := s.(type) {
	case ast.ScopeTypeEq:
		return model.Scope{Kind: model.ScEq, Ent: c15FromUID(t.Entity)}
	case ast.ScopeTypeIn:
		return model.Scope{Kind: model.ScIn, Ent: c15FromUID(t.Entity)}
	case ast.ScopeTypeInSet:
		sc := model.Scope{Kind: model.ScInSet}
		for _, e := range t.Entities {
			sc.Ents = append(sc.Ents, c15FromUID(e))
		}
		return sc
	case ast.ScopeTypeIs:
		return model.Scope{Kind: model.ScIs, Type: string(t.Type)}
	case ast.ScopeTypeIsIn:
		return model.Scope{Kind: model.ScIsIn, Type: string(t.Type), Ent: c15FromUID(t.Entity)}
	}
	return model.Scope{Kind: model.ScAll}
}

func c15FromPolicy(p *ast.Policy) (out *model.Policy, err error) {
	defer func() {
		if r := recover(); r != nil {
			if ce, ok := r.(c15convErr); ok {
				out, err = nil, fmt.Errorf("%s", ce.what)
				return
			}
			panic(r)
		}
	}()
	out = &model.Policy{Permit: bool(p.Effect), P: c15FromScope(p.Principal), A: c15FromScope(p.Action), R: c15FromScope(p.Resource)}
	for _, c := range p.Conditions {
		out.Conds = append(out.Conds, model.Cond{When: bool(c.Condition), Body: c15FromNode(c.Body)})
	}
	return out, nil
}

func c15FromEntities(em types.EntityMap, q types.Request) (*model.Env, error) {
	env := &model.Env{Store: map[string]*model.Entity{}}
	for _, e := range em {
		me := &model.Entity{UID: c15FromUID(e.UID)}
		for p := range e.Parents.All() {
			me.Parents = append(me.Parents, c15FromUID(p))
		}
		sort.Slice(me.Parents, func(i, j int) bool { return me.Parents[i].Key() < me.Parents[j].Key() })
		var err error
		if me.Attrs, err = bridge.FromValue(e.Attributes); err != nil {
			return nil, err
		}
		if me.Tags, err = bridge.FromValue(e.Tags); err != nil {
			return nil, err
		}
		env.Store[me.UID.Key()] = me
	}
	env.P, env.A, env.R = c15FromUID(q.Principal), c15FromUID(q.Action), c15FromUID(q.Resource)
	var err error
	env.Ctx, err = bridge.FromValue(q.Context)
	return env, err
}

// ---- the stream

type c15corpusCase struct {
	Schema   string `json:"schema"`
	Policies string `json:"policies"`
	Entities string `json:"entities"`
	Requests []struct {
		Principal types.EntityUID `json:"principal"`
		Action    types.EntityUID `json:"action"`
		Resource  types.EntityUID `json:"resource"`
		Context   types.Record    `json:"context"`
	} `json:"requests"`
}

func c15Corpus(c *mon.Ctx) {
	if c.Replay != nil && c.Replay.Stream != "corpus" {
		return
	}
	files, err := c15LoadCorpus()
	if err != nil {
		c.Inconclusive("corpus archive unreadable: " + err.Error())
		return
	}
	var names []string
	for n := range files {
		if strings.HasSuffix(n, ".json") && !strings.HasSuffix(n, ".entities.json") {
			names = append(names, n)
		}
	}
	sort.Strings(names)
	if !c.Thorough() {
		var sub []string
		for i, n := range names {
			if i%4 == 0 {
				sub = append(sub, n)
			}
		}
		names = sub
	}
	c.Extra["corpus_cases"] = len(names)
	c.ParFor("corpus", len(names), func(w *mon.W, i int) {
		defer func() {
			if r := recover(); r != nil {
				w.Inconclusive("corpus case: panic outside evaluation at " + mon.PanicSite(debug.Stack()))
			}
		}()
		var cc c15corpusCase
		if err := json.Unmarshal(files[names[i]], &cc); err != nil {
			w.Count("corpus: manifest unreadable")
			return
		}
		var s schema.Schema
		if err := s.UnmarshalCedar(files[cc.Schema]); err != nil {
			w.Count("corpus: schema does not parse")
			return
		}
		rs, err := s.Resolve()
		if err != nil {
			w.Count("corpus: schema does not resolve")
			return
		}
		if c15CyclicTypes(rs) {
			w.Count("corpus: skipped, cyclic entity-type hierarchy (validator recursion hazard, C16)")
			return
		}
		ps, err := cedar.NewPolicySetFromBytes(cc.Policies, files[cc.Policies])
		if err != nil {
			w.Count("corpus: policies do not parse")
			return
		}
		var em types.EntityMap
		if err := json.Unmarshal(files[cc.Entities], &em); err != nil {
			w.Count("corpus: entities do not parse")
			return
		}
		if em == nil {
			em = types.EntityMap{}
		}
		// like the Rust entity loader, add the schema's action entities when absent
		for uid := range rs.Actions {
			if _, ok := em[uid]; !ok {
				var ps []types.EntityUID
				for p := range c15ActionClosure(rs, uid) {
					ps = append(ps, p)
				}
				em[uid] = types.Entity{UID: uid, Parents: types.NewEntityUIDSet(ps...)}
			}
		}
		b := &c15built{rs: rs, strict: validate.New(rs, validate.WithStrict()), perm: validate.New(rs, validate.WithPermissive()),
			text: "corpus schema " + cc.Schema}
		storeOK := true
		for _, e := range em {
			if !c15EntityConforms(rs, e) {
				storeOK = false
				break
			}
		}
		verr := b.strict.Entities(em)
		if storeOK != (verr == nil) {
			w.Count(fmt.Sprintf("corpus: store conformance disagreement (harness=%v validator=%v), case skipped", storeOK, verr == nil))
			return
		}
		if !storeOK {
			w.Count("corpus: store does not conform, case skipped")
			return
		}
		var reqs []types.Request
		for _, q := range cc.Requests {
			rq := types.Request{Principal: q.Principal, Action: q.Action, Resource: q.Resource, Context: q.Context}
			ok := c15RequestConforms(rs, rq)
			vok := b.strict.Request(rq) == nil
			switch {
			case ok != vok:
				w.Count(fmt.Sprintf("corpus: request conformance disagreement (harness=%v validator=%v), request skipped", ok, vok))
			case ok:
				reqs = append(reqs, rq)
			default:
				w.Count("corpus: request does not conform, skipped")
			}
		}
		var ids []string
		for id := range ps.All() {
			ids = append(ids, string(id))
		}
		sort.Strings(ids)
		for _, id := range ids {
			ap := (*ast.Policy)(ps.Get(cedar.PolicyID(id)).AST())
			accS, _, siteS := c15Validate(b.strict, ap)
			accP, _, siteP := c15Validate(b.perm, ap)
			if siteS != "" || siteP != "" {
				w.Inconclusive("validator panicked (C16 territory) at " + siteS + " " + siteP)
				continue
			}
			w.Count(fmt.Sprintf("corpus policy: strict=%v permissive=%v", accS, accP))
			if !accS && !accP {
				continue
			}
			primary, pname := b.strict, "strict"
			if !accS {
				primary, pname = b.perm, "permissive"
			}
			evals := 0
			for _, rq := range reqs {
				g := &bridge.Getter{M: em, Budget: 1000000}
				got := safeEval(func() (types.Value, error) {
					return evalPolicyNode(ap, rq, g)
				})
				evals++
				switch {
				case got.IsErr:
					w.Count("corpus eval outcome: error " + got.Class)
				case got.Panic != "":
					w.Count("corpus eval outcome: panic")
				default:
					w.Count("corpus eval outcome: value")
				}
				bad := c15Forbidden(got)
				if bad == "" {
					continue
				}
				// localise through the model when the policy and data convert
				mp, perr := c15FromPolicy(ap)
				env, eerr := c15FromEntities(em, rq)
				if perr == nil && eerr == nil {
					cr := &c15run{w: w, b: b, cat: "corpus"}
					cr.report(&c15policy{pol: mp, kind: "corpus:" + names[i] + "#" + id}, ap, env, got, bad, primary, pname)
				} else {
					w.Violation("corpus: accepted policy fails with "+bad+" error (not convertible to the model for localisation)",
						fmt.Sprintf("corpus case %s policy %s accepted (%s) but evaluation fails: %s", names[i], id, pname, got.String()),
						map[string]any{"case": names[i], "policy": id, "request": fmt.Sprint(rq), "cedar_go_evaluation": got.String()})
				}
				break
			}
			w.Evals(evals)
			if evals > 0 {
				w.NonTrivial(names[i] + "#" + id)
			}
			if i%400 == 0 && id == ids[0] {
				w.Sample("corpus accepted", map[string]any{"case": names[i], "policy": id, "strict": accS, "permissive": accP, "requests_evaluated": evals})
			}
		}
	})
}
