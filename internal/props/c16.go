package props

// C16 - schema resolution and validation terminate without crashing on every input.
//
// Oracle: every call of resolved.Resolve / validate.{Policy,Entity,Entities,Request} must
// *return* (a value or an error). A recovered panic, a fatal runtime error (stack overflow
// is not recoverable in Go) or a watchdog hit that reproduces in isolation is a violation.
// Cases run in child processes: the child journals every step before entering cedar-go and
// the parent attributes a crash to the last journalled step, then resumes behind it.

import (
	"context"
	"encoding/json"
	"fmt"
	"os"
	"os/exec"
	"path/filepath"
	"runtime/debug"
	"strconv"
	"strings"
	"sync"
	"sync/atomic"
	"syscall"
	"time"

	"github.com/cedar-policy/cedar-go/x/exp/ast"
	"github.com/cedar-policy/cedar-go/x/exp/schema"
	"github.com/cedar-policy/cedar-go/x/exp/schema/resolved"
	"github.com/cedar-policy/cedar-go/x/exp/schema/validate"

	"verif/internal/mon"
)

func init() {
	Registry["C16"] = C16
	ChildModes["C16-child"] = c16Child
	ChildModes["C16-dump"] = c16Dump
}

const (
	c16Watchdog      = 60 * time.Second
	c16WatchdogAfter = 15 * time.Second // used once a timeout has been confirmed in this run
	c16MaxTimeouts   = 8
	c16MaxStack      = 2 << 20
	c16MaxFatalsCase = 2   // after this many fatal crashes the rest of a case is abandoned
	c16Saturated     = 24  // a fatal signature seen this often ends a case at its first occurrence
	c16StormCap      = 400 // fatal crashes with one signature in one stream after which the rest of the stream is skipped
)

// ---------------------------------------------------------------- child side

var c16ResolveErrClasses = []string{"cycle detected in common type", "cycle detected in action hierarchy", "undefined parent action",
	"undefined entity type", "undefined built-in type", "undefined type", "illegally shadows", "declared twice", "must resolve to a record"}

func c16ErrClass(err error) string {
	m := err.Error()
	for _, k := range c16ResolveErrClasses {
		if strings.Contains(m, k) {
			return k
		}
	}
	return "other"
}

type c16PanicRec struct {
	Phase string `json:"phase,omitempty"` // non-empty: the panic happened before the validator was entered
	Site  string `json:"site"`
	Msg   string `json:"msg"`
	Stack string `json:"stack"`
}

// c16Child: `check C16-child <cases.json> <events> [stop]`.
func c16Child(args []string) int {
	if len(args) < 2 {
		fmt.Fprintln(os.Stderr, "usage: C16-child <cases.json> <events> [stop]")
		return 3
	}
	debug.SetMaxStack(c16MaxStack)
	_ = syscall.Setrlimit(syscall.RLIMIT_CORE, &syscall.Rlimit{}) // GOTRACEBACK=crash must not write core files
	b, err := os.ReadFile(args[0])
	if err != nil {
		fmt.Fprintln(os.Stderr, "C16-child:", err)
		return 3
	}
	var cases []c16Case
	if err := json.Unmarshal(b, &cases); err != nil {
		fmt.Fprintln(os.Stderr, "C16-child:", err)
		return 3
	}
	ev, err := os.OpenFile(args[1], os.O_WRONLY|os.O_APPEND|os.O_CREATE, 0o644)
	if err != nil {
		fmt.Fprintln(os.Stderr, "C16-child:", err)
		return 3
	}
	defer ev.Close()
	stop := len(args) > 2 && args[2] == "stop"
	for ci := range cases {
		if c16Exec(&cases[ci], ci, ev) && stop {
			break
		}
	}
	return 0
}

// c16Exec runs the steps of one case; the line "B <case> <step>" reaches the journal
// before cedar-go is entered for that step.
func c16Exec(cs *c16Case, ci int, ev *os.File) (panicked bool) {
	steps := c16Steps(cs)
	var pend strings.Builder
	flush := func() {
		if pend.Len() > 0 {
			_, _ = ev.WriteString(pend.String())
			pend.Reset()
		}
	}
	active := func(i int) bool {
		if cs.Only {
			return i == cs.From
		}
		return i >= cs.From
	}
	phase := ""
	run := func(i int, f func() string) {
		fmt.Fprintf(&pend, "B %d %d\n", ci, i)
		flush()
		phase = ""
		defer func() {
			if r := recover(); r != nil {
				st := debug.Stack()
				rec := c16PanicRec{Phase: phase, Site: mon.PanicSite(st), Msg: fmt.Sprint(r), Stack: c16Trim(string(st), 2500)}
				js, _ := json.Marshal(rec)
				fmt.Fprintf(&pend, "P %d %d %s\n", ci, i, js)
				panicked = true
			}
		}()
		label := f()
		fmt.Fprintf(&pend, "E %d %d %s\n", ci, i, label)
	}
	silent := func(f func() string) {
		defer func() { _ = recover() }()
		f()
	}
	var rsA, rsJ *resolved.Schema
	resolveAST := func() string {
		rs, err := resolved.Resolve(cs.Schema.toAST())
		if err != nil {
			return "Resolve[ast] -> error: " + c16ErrClass(err)
		}
		rsA = rs
		return "Resolve[ast] -> ok"
	}
	resolveJSON := func() string {
		var s schema.Schema
		if err := s.UnmarshalJSON(cs.Schema.toJSON()); err != nil {
			return "Resolve[json] -> schema JSON rejected"
		}
		rs, err := s.Resolve()
		if err != nil {
			return "Resolve[json] -> error: " + c16ErrClass(err)
		}
		rsJ = rs
		return "Resolve[json] -> ok"
	}
	if active(0) {
		run(0, resolveAST)
	} else if !cs.NoAST {
		silent(resolveAST)
	}
	if active(1) {
		run(1, resolveJSON)
	} else if !cs.NoJSON {
		silent(resolveJSON)
	}
	rs := rsA
	if rs == nil {
		rs = rsJ
	}
	if rs != nil {
		vs := validate.New(rs, validate.WithStrict())
		vp := validate.New(rs, validate.WithPermissive())
		for i := 2; i < len(steps); i++ {
			if !active(i) {
				continue
			}
			st := steps[i]
			art := cs.Arts[st.Art]
			switch st.Call {
			case "Policy":
				if art.Pol == nil {
					continue
				}
				v, mode := vp, "permissive"
				if st.Strict {
					v, mode = vs, "strict"
				}
				run(i, func() string {
					var p *ast.Policy
					if st.Route == "json" {
						var err error
						phase = "PolicyJSONDecode"
						if p, err = art.Pol.decodeJSON(); err != nil {
							return "Policy[json," + mode + "] -> policy JSON rejected by decoder"
						}
					} else {
						phase = "PolicyASTBuild"
						p = art.Pol.toAST()
					}
					phase = ""
					if err := v.Policy("policy0", p); err != nil {
						return "Policy[" + st.Route + "," + mode + "] -> invalid"
					}
					return "Policy[" + st.Route + "," + mode + "] -> valid"
				})
			case "Entity":
				if len(art.Ents) == 0 {
					continue
				}
				run(i, func() string {
					if err := vs.Entity(art.Ents[0].toEntity()); err != nil {
						return "Entity -> error"
					}
					return "Entity -> ok"
				})
			case "Entities":
				run(i, func() string {
					if err := vs.Entities(art.entityMap()); err != nil {
						return "Entities -> error"
					}
					return "Entities -> ok"
				})
			case "Request":
				if art.Req == nil {
					continue
				}
				run(i, func() string {
					if err := vs.Request(art.Req.toRequest()); err != nil {
						return "Request -> error"
					}
					return "Request -> ok"
				})
			}
		}
	}
	fmt.Fprintf(&pend, "D %d\n", ci)
	flush()
	return panicked
}

func c16Trim(s string, n int) string {
	if len(s) > n {
		return s[:n] + "…"
	}
	return s
}

// ---------------------------------------------------------------- parent side

type c16Key struct {
	Stream string
	Idx    int
}

func (a c16Key) less(b c16Key) bool {
	return a.Stream < b.Stream || (a.Stream == b.Stream && a.Idx < b.Idx)
}

type c16Runner struct {
	c    *mon.Ctx
	dir  string
	exe  string
	seq  int64
	mu   sync.Mutex
	best map[string]c16Key
	seen map[string]int // fatal signature -> occurrences so far
	// storm: streams in which one fatal signature fired c16StormCap times. Every fatal crash
	// costs a process; the verdict and the minimal witness are fixed long before the cap, so the
	// remaining batches of that stream are skipped and counted as inconclusive.
	storm map[string]string
	// confirmed timeouts: the first one costs 2 x 60 s; afterwards the watchdog is shortened
	// and after c16MaxTimeouts the remaining batches are skipped (the verdict is already fixed)
	timeouts int64
}

func (r *c16Runner) watchdog() time.Duration {
	if atomic.LoadInt64(&r.timeouts) > 0 {
		return c16WatchdogAfter
	}
	return c16Watchdog
}

type c16Event struct {
	Kind byte
	CI   int
	Step int
	Rest string
}

type c16Crash struct {
	CI, Step int // -1: died outside a journalled step
	Timeout  bool
	Kind     string
	Site     string
	Out      string
	Exit     string
}

func c16ParseEvents(b []byte) []c16Event {
	var out []c16Event
	for _, line := range strings.Split(string(b), "\n") {
		if len(line) < 3 || line[1] != ' ' {
			continue
		}
		parts := strings.SplitN(line, " ", 4)
		e := c16Event{Kind: line[0]}
		var err error
		if e.CI, err = strconv.Atoi(parts[1]); err != nil {
			continue
		}
		if e.Kind != 'D' {
			if len(parts) < 3 {
				continue
			}
			if e.Step, err = strconv.Atoi(parts[2]); err != nil {
				continue
			}
			if len(parts) == 4 {
				e.Rest = parts[3]
			}
		}
		out = append(out, e)
	}
	return out
}

func c16PanicClass(msg string) string {
	for _, k := range []string{"interface conversion", "index out of range", "slice bounds out of range", "nil pointer dereference",
		"assignment to entry in nil map", "unknown AST type", "integer divide by zero", "makeslice", "out of memory"} {
		if strings.Contains(msg, k) {
			return k
		}
	}
	var w []string
	for _, f := range strings.Fields(msg) {
		if strings.ContainsAny(f, "0123456789") {
			continue
		}
		w = append(w, f)
		if len(w) == 4 {
			break
		}
	}
	return strings.Join(w, " ")
}

// c16TraceSite extracts the cedar-go frame that names a crash from a runtime dump: the first
// cedar-go frame of the first goroutine; for a stack overflow (where the top frame is an
// arbitrary member of the recursion cycle) the lexicographically greatest function among the
// top frames, so that one runaway (mutual) recursion gets one name.
func c16TraceSite(out string, overflow bool) string {
	lines := strings.Split(out, "\n")
	clean := func(l string) string {
		if j := strings.LastIndex(l, "("); j > 0 {
			l = l[:j]
		}
		return strings.TrimPrefix(strings.TrimSpace(l), "github.com/cedar-policy/cedar-go/")
	}
	start := -1
	for i, l := range lines {
		if strings.HasPrefix(l, "goroutine ") && strings.Contains(l, "[") {
			start = i
			break
		}
	}
	if start >= 0 {
		best, n := "", 0
		for _, l := range lines[start+1:] {
			if l == "" || strings.HasPrefix(l, "...") {
				break
			}
			if strings.HasPrefix(l, "\t") || !strings.Contains(l, "cedar-policy/cedar-go/") {
				continue
			}
			f := c16NormSite(clean(l))
			if !overflow {
				return f
			}
			if f > best {
				best = f
			}
			if n++; n >= 24 {
				break
			}
		}
		if best != "" {
			return best
		}
	}
	for _, l := range lines {
		if !strings.HasPrefix(l, "\t") && strings.Contains(l, "cedar-policy/cedar-go/") {
			return clean(l)
		}
	}
	return "unknown"
}

func c16ClassifyCrash(out string, timedOut bool, exit string) (kind string) {
	switch {
	case timedOut:
		return "timeout(no result within watchdog)"
	case strings.Contains(out, "fatal error: stack overflow") || strings.Contains(out, "goroutine stack exceeds"):
		return "fatal(stack overflow)"
	}
	for _, l := range strings.Split(out, "\n") {
		if strings.HasPrefix(l, "fatal error: ") {
			return "fatal(" + c16PanicClass(strings.TrimPrefix(l, "fatal error: ")) + ")"
		}
		if strings.HasPrefix(l, "panic: ") {
			return "panic(" + c16PanicClass(l) + ")"
		}
	}
	return "died(" + exit + ")"
}

// runChild executes the cases in a fresh child process under the watchdog.
func (r *c16Runner) runChild(cases []c16Case, stop bool) ([]c16Event, *c16Crash) {
	return r.runChildOpt(cases, stop, false)
}

// runChildOpt: with allStacks the child runs under GOTRACEBACK=crash, so that a SIGQUIT from
// the watchdog also dumps goroutines running on other threads (where the hang is).
func (r *c16Runner) runChildOpt(cases []c16Case, stop, allStacks bool) ([]c16Event, *c16Crash) {
	n := atomic.AddInt64(&r.seq, 1)
	base := filepath.Join(r.dir, fmt.Sprintf("b%d", n))
	casesF, evF, outF := base+".cases.json", base+".events", base+".out"
	defer func() { _ = os.Remove(casesF); _ = os.Remove(evF); _ = os.Remove(outF) }()
	b, _ := json.Marshal(cases)
	if err := os.WriteFile(casesF, b, 0o644); err != nil {
		return nil, &c16Crash{CI: -1, Kind: "harness(cannot write case file)", Exit: err.Error()}
	}
	out, err := os.Create(outF)
	if err != nil {
		return nil, &c16Crash{CI: -1, Kind: "harness(cannot create output file)", Exit: err.Error()}
	}
	ctx, cancel := context.WithTimeout(context.Background(), r.watchdog())
	args := []string{"C16-child", casesF, evF}
	if stop {
		args = append(args, "stop")
	}
	cmd := exec.CommandContext(ctx, r.exe, args...)
	cmd.Stdout, cmd.Stderr = out, out
	if allStacks {
		cmd.Env = append(os.Environ(), "GOTRACEBACK=crash")
	}
	cmd.Cancel = func() error { return cmd.Process.Signal(syscall.SIGQUIT) } // goroutine dump on hang
	cmd.WaitDelay = 10 * time.Second
	runErr := cmd.Run()
	timedOut := ctx.Err() == context.DeadlineExceeded
	cancel()
	_ = out.Close()
	eb, _ := os.ReadFile(evF)
	events := c16ParseEvents(eb)
	if runErr == nil {
		return events, nil
	}
	ob, _ := os.ReadFile(outF)
	text := string(ob)
	cr := &c16Crash{CI: -1, Step: -1, Timeout: timedOut, Exit: runErr.Error()}
	for _, e := range events {
		switch e.Kind {
		case 'B':
			cr.CI, cr.Step = e.CI, e.Step
		case 'E', 'P':
			if e.CI == cr.CI && e.Step == cr.Step {
				cr.CI, cr.Step = -1, -1
			}
		}
	}
	cr.Kind = c16ClassifyCrash(text, timedOut, cr.Exit)
	cr.Site = c16TraceSite(text, strings.HasPrefix(cr.Kind, "fatal(stack overflow"))
	cr.Out = c16Trim(text, 3000)
	return events, cr
}

type c16State struct {
	returned  int // Resolve steps that returned
	resolved  bool
	validated int
	labels    []string
	fatals    int
	sigs      map[string]bool // signatures already reported for this case (one report per case and signature)
}

func (r *c16Runner) merge(w *mon.W, pending []c16Case, events []c16Event, st map[int]*c16State) {
	for _, e := range events {
		if e.CI < 0 || e.CI >= len(pending) {
			continue
		}
		cs := &pending[e.CI]
		s := st[cs.Idx]
		switch e.Kind {
		case 'E':
			w.Evals(1)
			w.Count(cs.Stream + ": " + e.Rest)
			if len(s.labels) < 8 {
				s.labels = append(s.labels, e.Rest)
			}
			if strings.HasPrefix(e.Rest, "Resolve") {
				s.returned++
				if strings.HasSuffix(e.Rest, "-> ok") {
					s.resolved = true
				}
			} else {
				s.validated++
			}
		case 'P':
			w.Evals(1)
			var rec c16PanicRec
			_ = json.Unmarshal([]byte(e.Rest), &rec)
			steps := c16Steps(cs)
			if e.Step < len(steps) {
				w.Count(cs.Stream + ": " + steps[e.Step].Call + " -> PANIC")
				r.report(w, cs, s, e.Step, rec.Phase, "panic("+c16PanicClass(rec.Msg)+")", rec.Site, rec.Msg, rec.Stack, true)
			}
		case 'D':
			r.finish(w, cs, s)
		}
	}
}

func (r *c16Runner) finish(w *mon.W, cs *c16Case, s *c16State) {
	w.Count(cs.Stream + ": cases")
	for _, f := range cs.Feat {
		w.Count(cs.Stream + ": " + f)
	}
	switch {
	case s.resolved && s.validated > 0:
		w.Count(cs.Stream + ": cases resolved and validated against")
	case s.resolved:
		w.Count(cs.Stream + ": cases resolved, no validation call returned")
	case s.returned > 0:
		w.Count(cs.Stream + ": cases rejected by Resolve")
	}
	if s.returned > 0 && (!s.resolved || s.validated > 0) {
		b, _ := json.Marshal(cs.Arts)
		w.NonTrivial(string(cs.Schema.toJSON()) + string(b))
	}
	if cs.Idx%211 == 0 {
		smp := map[string]any{"stream": cs.Stream, "index": cs.Idx, "schema_json": json.RawMessage(cs.Schema.toJSON()), "first_outcomes": s.labels, "artefacts": len(cs.Arts)}
		if len(cs.Arts) > 0 {
			smp["first_artefact"] = cs.Arts[0].text()
		}
		w.Sample(cs.Stream, smp)
	}
}

// runBatch runs the cases, restarting behind every fatal crash.
func (r *c16Runner) runBatch(w *mon.W, cases []c16Case) {
	if atomic.LoadInt64(&r.timeouts) >= c16MaxTimeouts {
		w.Inconclusive(fmt.Sprintf("batch skipped: run cut short after %d confirmed timeouts", c16MaxTimeouts))
		return
	}
	if len(cases) > 0 {
		r.mu.Lock()
		sig, storm := r.storm[cases[0].Stream]
		r.mu.Unlock()
		if storm {
			w.Inconclusive(fmt.Sprintf("batch skipped: %d fatal crashes with signature %q in stream %s", c16StormCap, sig, cases[0].Stream))
			w.CountN(cases[0].Stream+": cases skipped after a fatal-crash storm", int64(len(cases)))
			return
		}
	}
	st := map[int]*c16State{}
	for i := range cases {
		st[cases[i].Idx] = &c16State{sigs: map[string]bool{}}
	}
	pending := cases
	retries := 0
	for len(pending) > 0 {
		events, crash := r.runChild(pending, false)
		r.merge(w, pending, events, st)
		if crash == nil {
			return
		}
		if (crash.CI < 0 || crash.CI >= len(pending)) && crash.Timeout && retries < 2 {
			// the watchdog fired between steps (overloaded machine): run the unfinished cases again
			retries++
			done := map[int]bool{}
			for _, e := range events {
				if e.Kind == 'D' {
					done[e.CI] = true
				}
			}
			var rest []c16Case
			for i := range pending {
				if !done[i] {
					rest = append(rest, pending[i])
				}
			}
			w.Count("watchdog fired outside a step; batch remainder re-run")
			pending = rest
			continue
		}
		if crash.CI < 0 || crash.CI >= len(pending) {
			// not attributable to a cedar-go call: never a verdict about cedar-go
			w.Inconclusive("child process died outside a journalled step: " + crash.Kind)
			fmt.Fprintf(os.Stderr, "C16: child died outside a journalled step (%s, %s)\n%s\n", crash.Kind, crash.Exit, c16Trim(crash.Out, 1500))
			return
		}
		cs := pending[crash.CI]
		s := st[cs.Idx]
		steps := c16Steps(&cs)
		w.Evals(1)
		if crash.Timeout {
			// a watchdog hit counts only if the single step reproduces it when run alone
			single := cs
			single.From, single.Only = crash.Step, true
			ev2, crash2 := r.runChildOpt([]c16Case{single}, false, true)
			switch {
			case crash2 != nil && crash2.Timeout && crash2.CI == 0:
				atomic.AddInt64(&r.timeouts, 1)
				w.Count(cs.Stream + ": " + steps[crash.Step].Call + " -> TIMEOUT (reproduced alone)")
				r.report(w, &cs, s, crash.Step, "", crash2.Kind, crash2.Site, "no result within the watchdog (batch and single re-run)", crash2.Out, false)
			case crash2 != nil && crash2.CI == 0:
				w.Count(cs.Stream + ": " + steps[crash.Step].Call + " -> FATAL")
				r.report(w, &cs, s, crash.Step, "", crash2.Kind, crash2.Site, crash2.Exit, crash2.Out, true)
			case crash2 != nil:
				w.Inconclusive("watchdog fired; single re-run died outside a journalled step")
			default:
				w.Inconclusive("watchdog fired for a batch but the step finished when re-run alone")
				for i := range ev2 {
					if ev2[i].Kind == 'D' {
						ev2[i].Kind = 'd' // the case is finished by the continuation below
					}
				}
				r.merge(w, []c16Case{cs}, ev2, st)
			}
		} else {
			w.Count(cs.Stream + ": " + steps[crash.Step].Call + " -> FATAL")
			r.report(w, &cs, s, crash.Step, "", crash.Kind, crash.Site, crash.Exit, crash.Out, true)
		}
		if atomic.LoadInt64(&r.timeouts) >= c16MaxTimeouts {
			w.Inconclusive(fmt.Sprintf("rest of a batch skipped: run cut short after %d confirmed timeouts", c16MaxTimeouts))
			return
		}
		s.fatals++
		r.mu.Lock()
		fsig := c16Sig(steps[crash.Step].Call, crash.Kind, crash.Site)
		r.seen[fsig]++
		saturated := r.seen[fsig] > c16Saturated || crash.Timeout
		r.seen[cs.Stream+"|"+fsig]++
		if !crash.Timeout && r.seen[cs.Stream+"|"+fsig] >= c16StormCap {
			r.storm[cs.Stream] = fsig
		}
		_, storm := r.storm[cs.Stream]
		r.mu.Unlock()
		if storm {
			rest := len(pending) - crash.CI - 1
			w.Inconclusive(fmt.Sprintf("rest of a batch skipped: %d fatal crashes with signature %q in stream %s", c16StormCap, fsig, cs.Stream))
			w.CountN(cs.Stream+": cases skipped after a fatal-crash storm", int64(rest))
			w.Count(cs.Stream + ": cases abandoned after fatal crashes")
			r.finish(w, &cs, s)
			return
		}
		next := append([]c16Case{}, pending[crash.CI+1:]...)
		cont := cs
		cont.From, cont.Only = crash.Step+1, false
		if crash.Step == 0 {
			cont.NoAST = true
		}
		if crash.Step == 1 {
			cont.NoJSON = true
		}
		if !saturated && s.fatals < c16MaxFatalsCase && cont.From < len(steps) && !(cont.NoAST && cont.NoJSON) {
			next = append([]c16Case{cont}, next...)
		} else {
			w.Count(cs.Stream + ": cases abandoned after fatal crashes")
			r.finish(w, &cs, s)
		}
		pending = next
	}
}

// c16Isolate keeps only the artefact of the given step.
func c16Isolate(cs *c16Case, st c16Step) c16Case {
	out := c16Case{Stream: cs.Stream, Idx: cs.Idx, Schema: c16Clone(cs.Schema), Only: true, NoAST: cs.NoAST, NoJSON: cs.NoJSON}
	if st.Art >= 0 && st.Art < len(cs.Arts) {
		out.Arts = []c16Art{c16Clone(cs.Arts[st.Art])}
	}
	for i, s := range c16Steps(&out) {
		if s.Call == st.Call && s.Route == st.Route && s.Strict == st.Strict {
			out.From = i
			break
		}
	}
	return out
}

// c16Sig: crash site first (replay file names are cut after 60 characters), then the kind of
// observation and the API call through which it was reached.
func c16Sig(call, kind, site string) string {
	return strings.TrimPrefix(c16NormSite(site), "x/exp/schema/") + " " + kind + " via " + call
}

// c16NormSite reduces a frame name to package.Function or package.(Receiver).Method: closure
// and range-over-func suffixes (".func1", ".ImmutableMapSet[...].All.func1") are dropped.
func c16NormSite(site string) string {
	dir, rest := "", site
	if i := strings.LastIndex(site, "/"); i >= 0 {
		dir, rest = site[:i+1], site[i+1:]
	}
	i := strings.Index(rest, ".")
	if i < 0 {
		return site
	}
	pkg, fn := rest[:i+1], rest[i+1:]
	recv := ""
	if strings.HasPrefix(fn, "(") {
		if j := strings.Index(fn, ")."); j >= 0 {
			recv, fn = fn[:j+2], fn[j+2:]
		}
	}
	if j := strings.IndexAny(fn, ".[-"); j >= 0 {
		fn = fn[:j]
	}
	return dir + pkg + recv + fn
}

// report records a violation; phase (if non-empty) replaces the call name in the signature
// when the panic happened while the input was still being prepared (policy JSON decoding).
func (r *c16Runner) report(w *mon.W, cs *c16Case, s *c16State, step int, phase, kind, site, msg, detail string, shrinkable bool) {
	steps := c16Steps(cs)
	st := steps[step]
	call := st.Call
	if phase != "" {
		call = phase
	}
	sig := c16Sig(call, kind, site)
	if s != nil {
		if s.sigs[sig] {
			w.Count(cs.Stream + ": repeated observation of a signature within one case (not re-reported)")
			return
		}
		s.sigs[sig] = true
	}
	iso := c16Isolate(cs, st)
	key := c16Key{cs.Stream, cs.Idx}
	newMin := false
	r.mu.Lock()
	if b, ok := r.best[sig]; !ok || key.less(b) {
		r.best[sig] = key
		newMin = true
	}
	r.mu.Unlock()
	shrunk := false
	if newMin && shrinkable {
		iso = r.shrink(iso, sig)
		shrunk = true
	}
	ist := c16Steps(&iso)[iso.From]
	wit := map[string]any{
		"call": ist.String(), "observation": kind, "site": site, "message": msg,
		"schema_json":   json.RawMessage(iso.Schema.toJSON()),
		"minimised":     shrunk,
		"original_case": map[string]any{"stream": cs.Stream, "index": cs.Idx, "step": step, "step_name": st.String()},
		"trace":         detail,
		"reproduce":     "schema.Schema.UnmarshalJSON(schema_json) -> Resolve() -> validate.New(rs, strict|permissive) -> the call above on the artefact",
	}
	art := ""
	if len(iso.Arts) > 0 {
		a := iso.Arts[0]
		art = a.text()
		wit["artefact"] = art
		switch a.Kind {
		case "policy":
			if a.Pol != nil {
				wit["policy_json"] = json.RawMessage(a.Pol.toJSON())
				wit["note"] = "in the text rendering a leading # marks a literal that is a set/record/extension *value* node (ast.Value / JSON {\"Value\":...}), which Cedar text cannot express"
			}
		case "entity", "entities":
			var es []any
			for _, e := range a.Ents {
				var ps []any
				for _, p := range e.Parents {
					ps = append(ps, p.json())
				}
				es = append(es, map[string]any{"uid": e.UID.json(), "parents": ps, "attrs": e.Attrs.toJSON(), "tags": e.Tags.toJSON()})
			}
			wit["entities_json"] = es
		case "request":
			if a.Req != nil {
				wit["request_json"] = map[string]any{"principal": a.Req.P.json(), "action": a.Req.A.json(), "resource": a.Req.R.json(), "context": a.Req.Ctx.toJSON()}
			}
		}
	}
	what := fmt.Sprintf("%s: %s in %s (%s); schema %s", ist.String(), kind, site, c16Trim(msg, 120), c16Trim(string(iso.Schema.toJSON()), 600))
	if art != "" {
		what += "; artefact " + c16Trim(art, 400)
	}
	vw := *w
	vw.Stream, vw.Index = cs.Stream, cs.Idx
	vw.Violation(sig, what, wit)
}

// ---------------------------------------------------------------- shrinking (witness only)

// firstReproducing returns the index of the first candidate whose isolated step shows the
// target signature again, or -1.
func (r *c16Runner) firstReproducing(cands []c16Case, sig string) int {
	off := 0
	for off < len(cands) {
		events, crash := r.runChild(cands[off:], true)
		last := -1
		for _, e := range events {
			if e.CI > last {
				last = e.CI
			}
			if e.Kind != 'P' || e.CI >= len(cands)-off {
				continue
			}
			cs := &cands[off+e.CI]
			steps := c16Steps(cs)
			if e.Step >= len(steps) {
				continue
			}
			var rec c16PanicRec
			_ = json.Unmarshal([]byte(e.Rest), &rec)
			call := steps[e.Step].Call
			if rec.Phase != "" {
				call = rec.Phase
			}
			if c16Sig(call, "panic("+c16PanicClass(rec.Msg)+")", rec.Site) == sig {
				return off + e.CI
			}
		}
		if crash != nil {
			if crash.Timeout || crash.CI < 0 {
				return -1
			}
			cs := &cands[off+crash.CI]
			steps := c16Steps(cs)
			if crash.Step < len(steps) && c16Sig(steps[crash.Step].Call, crash.Kind, crash.Site) == sig {
				return off + crash.CI
			}
			if crash.CI > last {
				last = crash.CI
			}
		}
		if last < 0 {
			return -1
		}
		off += last + 1
	}
	return -1
}

func (r *c16Runner) shrink(cs c16Case, sig string) c16Case {
	cur := cs
	for round := 0; round < 120; round++ {
		cands := c16Reductions(&cur)
		if len(cands) == 0 {
			break
		}
		k := r.firstReproducing(cands, sig)
		if k < 0 {
			break
		}
		cur = cands[k]
	}
	return cur
}

func c16IsPrim(t c16Type) bool { return t.K == "Long" || t.K == "String" || t.K == "Bool" }

func c16ExprReductions(e c16Expr) []c16Expr {
	var out []c16Expr
	for _, a := range e.Args {
		out = append(out, a)
	}
	if e.Op != "val" && e.Op != "var" {
		out = append(out, c16EVal(c16VBool(true)))
	}
	if e.Op == "set" || e.Op == "record" || e.Op == "ext" {
		for i := range e.Args {
			c := c16Clone(e)
			c.Args = append(c.Args[:i:i], c.Args[i+1:]...)
			if e.Op == "record" && i < len(c.Keys) {
				c.Keys = append(c.Keys[:i:i], c.Keys[i+1:]...)
			}
			out = append(out, c)
		}
	}
	if e.Op == "val" && e.V != nil && (e.V.K == "set" || e.V.K == "record") {
		for i := range e.V.Elems {
			c := c16Clone(e)
			c.V.Elems = append(c.V.Elems[:i:i], c.V.Elems[i+1:]...)
			if e.V.K == "record" && i < len(c.V.Keys) {
				c.V.Keys = append(c.V.Keys[:i:i], c.V.Keys[i+1:]...)
			}
			out = append(out, c)
		}
	}
	for i, a := range e.Args {
		for _, ra := range c16ExprReductions(a) {
			c := c16Clone(e)
			c.Args[i] = ra
			out = append(out, c)
		}
	}
	return out
}

func c16RecValReductions(v c16Val) []c16Val {
	var out []c16Val
	if v.K != "record" {
		return nil
	}
	for i := range v.Elems {
		c := c16Clone(v)
		c.Elems = append(c.Elems[:i:i], c.Elems[i+1:]...)
		if i < len(c.Keys) {
			c.Keys = append(c.Keys[:i:i], c.Keys[i+1:]...)
		}
		out = append(out, c)
	}
	return out
}

// c16Reductions lists every one-step simplification of an isolated case.
func c16Reductions(cs *c16Case) []c16Case {
	var out []c16Case
	emit := func(mut func(c *c16Case)) {
		c := c16Clone(*cs)
		mut(&c)
		out = append(out, c)
	}
	for ni := range cs.Schema.NS {
		ni := ni
		emit(func(c *c16Case) { c.Schema.NS = append(c.Schema.NS[:ni:ni], c.Schema.NS[ni+1:]...) })
	}
	for ni, ns := range cs.Schema.NS {
		ni := ni
		for ei, e := range ns.Entities {
			ei := ei
			emit(func(c *c16Case) {
				x := &c.Schema.NS[ni]
				x.Entities = append(x.Entities[:ei:ei], x.Entities[ei+1:]...)
			})
			for pi := range e.Parents {
				pi := pi
				emit(func(c *c16Case) {
					x := &c.Schema.NS[ni].Entities[ei]
					x.Parents = append(x.Parents[:pi:pi], x.Parents[pi+1:]...)
				})
			}
			if e.HasShape {
				emit(func(c *c16Case) { x := &c.Schema.NS[ni].Entities[ei]; x.HasShape, x.Shape = false, nil })
			}
			for ai, a := range e.Shape {
				ai := ai
				emit(func(c *c16Case) {
					x := &c.Schema.NS[ni].Entities[ei]
					x.Shape = append(x.Shape[:ai:ai], x.Shape[ai+1:]...)
				})
				if !c16IsPrim(a.T) {
					emit(func(c *c16Case) { c.Schema.NS[ni].Entities[ei].Shape[ai].T = c16TLong() })
				}
				if a.Opt {
					emit(func(c *c16Case) { c.Schema.NS[ni].Entities[ei].Shape[ai].Opt = false })
				}
				if a.T.K == "Record" {
					for bi := range a.T.Attrs {
						bi := bi
						emit(func(c *c16Case) {
							x := &c.Schema.NS[ni].Entities[ei].Shape[ai].T
							x.Attrs = append(x.Attrs[:bi:bi], x.Attrs[bi+1:]...)
						})
					}
				}
			}
			if e.Tags != nil {
				emit(func(c *c16Case) { c.Schema.NS[ni].Entities[ei].Tags = nil })
			}
			if len(e.Values) > 0 {
				emit(func(c *c16Case) { c.Schema.NS[ni].Entities[ei].Values = nil })
			}
		}
		for ci, ct := range ns.Commons {
			ci := ci
			emit(func(c *c16Case) {
				x := &c.Schema.NS[ni]
				x.Commons = append(x.Commons[:ci:ci], x.Commons[ci+1:]...)
			})
			if !c16IsPrim(ct.T) {
				emit(func(c *c16Case) { c.Schema.NS[ni].Commons[ci].T = c16TLong() })
			}
			if ct.T.K == "Record" {
				for bi := range ct.T.Attrs {
					bi := bi
					emit(func(c *c16Case) {
						x := &c.Schema.NS[ni].Commons[ci].T
						x.Attrs = append(x.Attrs[:bi:bi], x.Attrs[bi+1:]...)
					})
				}
			}
		}
		for ai, a := range ns.Actions {
			ai := ai
			emit(func(c *c16Case) {
				x := &c.Schema.NS[ni]
				x.Actions = append(x.Actions[:ai:ai], x.Actions[ai+1:]...)
			})
			for pi := range a.Parents {
				pi := pi
				emit(func(c *c16Case) {
					x := &c.Schema.NS[ni].Actions[ai]
					x.Parents = append(x.Parents[:pi:pi], x.Parents[pi+1:]...)
				})
			}
			if a.HasApplies {
				emit(func(c *c16Case) {
					x := &c.Schema.NS[ni].Actions[ai]
					x.HasApplies, x.Principals, x.Resources, x.Context = false, nil, nil, nil
				})
			}
			for pi := range a.Principals {
				pi := pi
				emit(func(c *c16Case) {
					x := &c.Schema.NS[ni].Actions[ai]
					x.Principals = append(x.Principals[:pi:pi], x.Principals[pi+1:]...)
				})
			}
			for pi := range a.Resources {
				pi := pi
				emit(func(c *c16Case) {
					x := &c.Schema.NS[ni].Actions[ai]
					x.Resources = append(x.Resources[:pi:pi], x.Resources[pi+1:]...)
				})
			}
			if a.Context != nil {
				emit(func(c *c16Case) { c.Schema.NS[ni].Actions[ai].Context = nil })
				if a.Context.K == "Record" {
					for bi := range a.Context.Attrs {
						bi := bi
						emit(func(c *c16Case) {
							x := c.Schema.NS[ni].Actions[ai].Context
							x.Attrs = append(x.Attrs[:bi:bi], x.Attrs[bi+1:]...)
						})
					}
				}
			}
		}
	}
	if len(cs.Arts) == 0 {
		return out
	}
	a := cs.Arts[0]
	switch a.Kind {
	case "policy":
		if a.Pol == nil {
			break
		}
		if a.Pol.P.K != "all" {
			emit(func(c *c16Case) { c.Arts[0].Pol.P = c16ScAll() })
		}
		if a.Pol.A.K != "all" {
			emit(func(c *c16Case) { c.Arts[0].Pol.A = c16ScAll() })
		}
		if a.Pol.R.K != "all" {
			emit(func(c *c16Case) { c.Arts[0].Pol.R = c16ScAll() })
		}
		if a.Pol.A.K == "inset" {
			for i := range a.Pol.A.Set {
				i := i
				emit(func(c *c16Case) { x := &c.Arts[0].Pol.A; x.Set = append(x.Set[:i:i], x.Set[i+1:]...) })
			}
		}
		for ci, cond := range a.Pol.Conds {
			ci := ci
			emit(func(c *c16Case) { x := c.Arts[0].Pol; x.Conds = append(x.Conds[:ci:ci], x.Conds[ci+1:]...) })
			for _, re := range c16ExprReductions(cond.Body) {
				re := re
				emit(func(c *c16Case) { c.Arts[0].Pol.Conds[ci].Body = re })
			}
		}
	case "entity", "entities":
		for ei, e := range a.Ents {
			ei := ei
			if a.Kind == "entities" {
				emit(func(c *c16Case) { x := &c.Arts[0]; x.Ents = append(x.Ents[:ei:ei], x.Ents[ei+1:]...) })
			}
			for pi := range e.Parents {
				pi := pi
				emit(func(c *c16Case) { x := &c.Arts[0].Ents[ei]; x.Parents = append(x.Parents[:pi:pi], x.Parents[pi+1:]...) })
			}
			for _, rv := range c16RecValReductions(e.Attrs) {
				rv := rv
				emit(func(c *c16Case) { c.Arts[0].Ents[ei].Attrs = rv })
			}
			for _, rv := range c16RecValReductions(e.Tags) {
				rv := rv
				emit(func(c *c16Case) { c.Arts[0].Ents[ei].Tags = rv })
			}
		}
	case "request":
		if a.Req != nil {
			for _, rv := range c16RecValReductions(a.Req.Ctx) {
				rv := rv
				emit(func(c *c16Case) { c.Arts[0].Req.Ctx = rv })
			}
		}
	}
	return out
}

// ---------------------------------------------------------------- the monitor

func (r *c16Runner) stream(name string, n, batch int, gen func(i int) c16Case) {
	c := r.c
	if only := os.Getenv("VERIF_C16_ONLY"); only != "" && only != name { // development aid
		c.Inconclusive("run restricted to stream " + only + " by VERIF_C16_ONLY")
		return
	}
	if c.Replay != nil {
		c.ParFor(name, n, func(w *mon.W, i int) { r.runBatch(w, []c16Case{gen(i)}) })
		return
	}
	nb := (n + batch - 1) / batch
	c.ParFor(name+"#batches", nb, func(w *mon.W, b int) {
		var cases []c16Case
		for i := b * batch; i < n && i < (b+1)*batch; i++ {
			cases = append(cases, gen(i))
		}
		r.runBatch(w, cases)
	})
}

func C16(c *mon.Ctx) {
	c.Rule = "case = (schema, artefacts); every step is one call of resolved.Resolve (schema AST built directly, and the same schema sent as JSON through schema.UnmarshalJSON) " +
		"or of validate.Policy (strict and permissive; policy built with the x/exp/ast builders and the same policy decoded from harness-written JSON), validate.Entity, validate.Entities, validate.Request against the resolved schema. " +
		"Oracle: the call returns (value or error); a recovered panic, a fatal runtime error of the child process (stack overflow) or a watchdog hit that reproduces when the step is re-run alone is a violation. " +
		"Families: entity-parent digraphs, common-type reference digraphs and action-group digraphs over 3 names are enumerated exhaustively (512 graphs each x namespace layouts with 0-3 segment, mixed and prefix-related namespaces x reference spellings unqualified / fully qualified / first-segment-dropped, plus undefined references, enums, shadowing; quick runs a selection of the (layout, spelling) pairs for entity and action graphs and all of them for common types, thorough all of them with every body shape); " +
		"an exhaustive operator x operand-position x operand-kind table (set/record/extension *value* literals as produced by ast.Value and JSON {\"Value\":..}, and operands whose type is a union of 2-3 entity types that differ in tags/attributes/enum-ness, in both member orders); a fixed list of special schemas; random larger schemas with random policies/entities/requests on top. " +
		"distinct_nontrivial = distinct (schema, artefacts) renderings for which Resolve returned and, if it returned a schema, at least one validation call returned."
	c.Assume = []string{
		"inputs are well-formed Go values: no nil ast.IsType / nil expression nodes / zero-valued ast.Policy scopes (those cannot come out of the parsers or builders)",
		"validation is only run against schemas returned by Resolve (hand-built resolved.Schema values are out of scope)",
		"the child lowers the Go stack limit to 2 MB (debug.SetMaxStack; Go's default is 1 GB) so that runaway recursion is cheap to observe; no generated input legitimately needs more than a few hundred frames (the deepest legitimate chains generated have 400 links and pass)",
		"a watchdog hit (60 s per batch of <=64 small cases) counts only if the single step reproduces it alone; otherwise it is reported as inconclusive",
		fmt.Sprintf("cost bound while a crash defect is present: after %d fatal crashes with one signature in one stream the rest of that stream is skipped (reported under inconclusive); after %d confirmed timeouts the rest of the run is skipped", c16StormCap, c16MaxTimeouts),
		"exponential-size inlining of common types (terminates, but slowly) is not treated as non-termination; the doubling chain is only exercised up to length 10",
	}
	c.Floor = 1500
	c.SetExhaustive(false)
	dir, err := os.MkdirTemp("", "verif-c16-")
	if err != nil {
		c.Inconclusive("cannot create temp dir: " + err.Error())
		return
	}
	defer os.RemoveAll(dir)
	exe, err := os.Executable()
	if err != nil {
		exe = os.Args[0]
	}
	r := &c16Runner{c: c, dir: dir, exe: exe, best: map[string]c16Key{}, seen: map[string]int{}, storm: map[string]string{}}

	// streams run in alphabetical order so that the smallest (stream, index) witness of a
	// signature is met first
	av, cv, ev := c16ActionVariants(c.Thorough()), c16CommonVariants(c.Thorough()), c16EntityVariants(c.Thorough())
	r.stream("action-graphs", 512*len(av), 128, func(i int) c16Case { return c16ActionGraphCase(i, av) })
	r.stream("common-type-graphs", 512*len(cv), 256, func(i int) c16Case { return c16CommonGraphCase(i, cv) })
	r.stream("entity-graphs", 512*len(ev), 96, func(i int) c16Case { return c16EntityGraphCase(i, ev) })
	r.stream("literal-table", c16LiteralTableN(), 4, c16LiteralTableCase)
	depth := 3
	if c.Thorough() {
		depth = 5
	}
	r.stream("random", c.N(6000, 250000), 125, func(i int) c16Case { return c16RandomCase(c.Rand("random", i), i, depth) })
	special := c16SpecialCases()
	r.stream("special", len(special), 1, func(i int) c16Case { return special[i] })

	c.Extra["exhaustive_families"] = map[string]any{
		"action-graphs":      fmt.Sprintf("all 512 memberOf digraphs over 3 actions x %d (namespace layout, parent spelling, extra) variants", len(av)),
		"common-type-graphs": fmt.Sprintf("all 512 reference digraphs over 3 common types x %d (namespace layout, reference spelling, body shape) variants", len(cv)),
		"entity-graphs":      fmt.Sprintf("all 512 parent digraphs over 3 entity types x %d (namespace layout, reference spelling, extra) variants", len(ev)),
		"literal-table":      fmt.Sprintf("%d operator/position templates x %d operand kinds", c16LiteralTableN(), len(c16Holes())),
	}
	c.Extra["child_processes_started"] = atomic.LoadInt64(&r.seq)
	c.Extra["stack_limit_bytes"] = c16MaxStack
	c.Extra["watchdog_seconds"] = c16Watchdog.Seconds()
}

// c16Dump: `check C16-dump <stream> <from> <to> <file>` writes the cases [from,to) of a stream
// (seed from VERIF_SEED, default 1) as a case file for `check C16-child <file> <events>`;
// a debugging aid for reproducing and profiling single batches by hand.
func c16Dump(args []string) int {
	if len(args) < 4 {
		fmt.Fprintln(os.Stderr, "usage: C16-dump <stream> <from> <to> <file>")
		return 3
	}
	from, _ := strconv.Atoi(args[1])
	to, _ := strconv.Atoi(args[2])
	var seed uint64 = 1
	if s := os.Getenv("VERIF_SEED"); s != "" {
		if v, err := strconv.ParseUint(s, 10, 64); err == nil {
			seed = v
		}
	}
	c := mon.New("C16", "quick", seed)
	special := c16SpecialCases()
	gens := map[string]func(i int) c16Case{
		"action-graphs":      func(i int) c16Case { return c16ActionGraphCase(i, c16ActionVariants(false)) },
		"common-type-graphs": func(i int) c16Case { return c16CommonGraphCase(i, c16CommonVariants(false)) },
		"entity-graphs":      func(i int) c16Case { return c16EntityGraphCase(i, c16EntityVariants(false)) },
		"literal-table":      c16LiteralTableCase, "special": func(i int) c16Case { return special[i] },
		"random": func(i int) c16Case { return c16RandomCase(c.Rand("random", i), i, 3) },
	}
	g, ok := gens[args[0]]
	if !ok {
		fmt.Fprintln(os.Stderr, "unknown stream", args[0])
		return 3
	}
	var cases []c16Case
	for i := from; i < to; i++ {
		cases = append(cases, g(i))
	}
	b, _ := json.Marshal(cases)
	if err := os.WriteFile(args[3], b, 0o644); err != nil {
		fmt.Fprintln(os.Stderr, err)
		return 3
	}
	return 0
}
