package props

import (
	"fmt"

	cedar "github.com/cedar-policy/cedar-go"

	"verif/internal/bridge"
	"verif/internal/model"
	"verif/internal/mon"
)

// Additional C03 stream: WIDE, SHALLOW, RE-CONVERGENT hierarchies. T tiers of W entities, every
// entity a child of all entities of the next tier: W^T upward paths over T*W entities. The
// answers are trivial for a walk that remembers what it visited; a walk that enumerates paths
// (a "fast path" for shallow hierarchies without a global visited set) needs W^T look-ups. The
// termination clause is decided on the logical budget of EntityGetter.Get calls, 64*(n+1)^2,
// exactly as in the other streams (no clock).
func init() {
	orig := Registry["C03"]
	Registry["C03"] = func(c *mon.Ctx) {
		orig(c)
		c.Rule += " Stream wide-tiers: T tiers of W entities, each a child of every entity of the next tier (T in 2..7, W in 2..12): `in` single / set targets and the scope forms, true and false answers, within the same Get budget."
		c03wide(c)
	}
}

func c03wide(c *mon.Ctx) {
	type tw struct{ t, w int }
	var shapes []tw
	for t := 2; t <= 7; t++ {
		for _, w := range []int{2, 3, 5, 8, 10, 12} {
			shapes = append(shapes, tw{t, w})
		}
	}
	c.ParFor("wide-tiers", len(shapes), func(w *mon.W, i int) {
		T, W := shapes[i].t, shapes[i].w
		node := func(t, k int) model.Val { return model.Ent([]string{"U", "G", "T"}[t%3], fmt.Sprintf("n%d_%d", t, k)) }
		env := &model.Env{Store: map[string]*model.Entity{}, A: model.Ent("Action", "view"), Ctx: model.Rec()}
		for t := 0; t < T; t++ {
			for k := 0; k < W; k++ {
				var ps []model.Val
				if t+1 < T {
					for j := 0; j < W; j++ {
						ps = append(ps, node(t+1, j))
					}
				} else if k == 0 {
					ps = []model.Val{model.Ent("G", "apex")} // not in the store
				}
				e := &model.Entity{UID: node(t, k), Parents: ps, Attrs: model.Rec(), Tags: model.Rec()}
				env.Store[e.UID.Key()] = e
			}
		}
		env.P, env.R = node(0, 0), node(0, W-1)
		n := T*W + 1
		budget := 64 * (n + 1) * (n + 1)
		L := model.Lit
		elsewhere := model.Ent("G", "elsewhere")
		qs := []struct {
			name string
			e    *model.Expr
		}{
			{"in(elsewhere)", model.Bin(model.OIn, model.Var("principal"), L(elsewhere))},
			{"in(apex)", model.Bin(model.OIn, model.Var("principal"), L(model.Ent("G", "apex")))},
			{"in(top-last)", model.Bin(model.OIn, model.Var("principal"), L(node(T-1, W-1)))},
			{"in(sibling)", model.Bin(model.OIn, model.Var("principal"), model.Var("resource"))},
			{"in([elsewhere, other])", model.Bin(model.OIn, model.Var("resource"), L(model.Set(elsewhere, model.Ent("U", "other"))))},
			{"in([elsewhere, apex])", model.Bin(model.OIn, model.Var("resource"), L(model.Set(elsewhere, model.Ent("G", "apex"))))},
			{"is-in(elsewhere)", model.IsIn(model.Var("principal"), "U", L(elsewhere))},
		}
		for _, q := range qs {
			g := &bridge.Getter{M: bridge.ToEntityMap(env), Budget: budget}
			d, _, _ := CheckExpr(q.e, env, bridge.ToEvalEnv(env, g))
			w.Evals(1)
			w.Count("wide-tiers " + q.name)
			if d != nil {
				w.Violation(fmt.Sprintf("wide-tiers: %s %s", q.name, d.Sig), d.What, map[string]any{"tiers": T, "width": W, "entities": n, "get_budget": budget, "cedar_go": d.Wit["cedar_go"], "model": d.Wit["model"]})
				return
			}
		}
		// scope forms through the authorizer (compiled path)
		for _, sc := range []struct {
			name string
			s    model.Scope
			want bool
		}{
			{"principal in elsewhere", model.Scope{Kind: model.ScIn, Ent: elsewhere}, false},
			{"principal in apex", model.Scope{Kind: model.ScIn, Ent: model.Ent("G", "apex")}, true},
			{"principal is U in elsewhere", model.Scope{Kind: model.ScIsIn, Type: "U", Ent: elsewhere}, false},
		} {
			mp := &model.Policy{Permit: true, P: sc.s}
			ps := cedar.NewPolicySet()
			ps.Add("p", NewPolicy(bridge.ToPolicy(mp)))
			g := &bridge.Getter{M: bridge.ToEntityMap(env), Budget: budget}
			var dec cedar.Decision
			pan := ""
			func() {
				defer func() {
					if r := recover(); r != nil {
						pan = fmt.Sprint(r)
					}
				}()
				dec, _ = cedar.Authorize(ps, g, bridge.ToRequest(env))
			}()
			w.Evals(1)
			w.Count("wide-tiers scope " + sc.name)
			if pan != "" || (dec == cedar.Allow) != sc.want {
				w.Violation("wide-tiers: scope "+sc.name, fmt.Sprintf("decision %v panic %q, reachability says %v (Get budget %d over %d entities)", dec, pan, sc.want, budget, n), map[string]any{"tiers": T, "width": W})
				return
			}
		}
		w.NonTrivial(fmt.Sprintf("wide/%d/%d", T, W))
	})
}
